// C19 / C06 through the br_sslio wrapper: one endpoint is driven only with
// br_sslio_write_all / flush / read / close over callbacks that return SHORT
// counts (any 1 <= k <= len) and, at a generated instant, -1 (transport
// cut).  The peer is an engine-level BearSSL endpoint with its own script.
//
// Oracle: every byte either application reads is the byte its peer wrote at
// that offset; after write_all+flush everything written arrives; an orderly
// br_sslio_close ends with last_error == 0 on both sides and exactly one
// close_notify each way; after a transport cut every br_sslio call returns
// -1 and last_error is BR_ERR_IO (never 0: truncation is not reported as a
// clean end of stream); the wrapper never spins (bounded callback count).
#include "common/tls_session.hpp"
#include <csetjmp>

using namespace vf;
using namespace tls;

const char *target_name = "c19_sslio";
const int target_tape_min = 0, target_tape_max = 120;

struct Link {
	Tape *t;
	BearEndpoint *io_ep;      // the endpoint under br_sslio
	BearEndpoint *peer;
	Fifo to_peer, to_io;
	Framer fr_io, fr_peer;
	uint64_t seed_io = 0x10AA, seed_peer = 0x20BB;
	size_t io_sent = 0, io_recvd = 0, peer_sent = 0, peer_recvd = 0;   // application bytes
	size_t peer_want_write = 0;     // bytes the peer application still wants to write
	bool peer_close_after = false;
	long cut_after = -1;            // transport cut once this many callback calls have happened (-1: never)
	bool cut_done = false;
	uint64_t calls = 0, short_writes = 0, short_reads = 0;
	unsigned alerts_from_io = 0, alerts_from_peer = 0;
	bool ccs_io = false, ccs_peer = false;
	std::string cfg;
	bool peer_gone = false;         // the peer has sent its close_notify and shut the transport down
	uint64_t gone_calls = 0;
	jmp_buf *spin = nullptr;        // escape hatch out of a wrapper call that never returns
};

// alert records sent under encryption (after the sender's ChangeCipherSpec)
static void count_records(Link &L, Framer &fr, const uint8_t *p, size_t n, unsigned &alerts, bool &ccs)
{
	(void)L;
	std::vector<Record> recs;
	fr.feed(p, n, recs);
	for (auto &r : recs) { if (r.type == 20) ccs = true; else if (r.type == 21 && ccs) alerts++; }
}

// let the peer make all the progress it can
static void pump_peer(Link &L)
{
	BearEndpoint *p = L.peer;
	for (int guard = 0; guard < 100000; guard++) {
		bool prog = false;
		const uint8_t *b;
		size_t n;
		while ((n = p->app_in_peek(&b)) > 0) {
			for (size_t i = 0; i < n; i++) {
				VF_CHECK(L.peer_recvd + i < L.io_sent, "%s: peer read byte #%zu, sslio side wrote only %zu", L.cfg.c_str(), L.peer_recvd + i, L.io_sent);
				uint8_t w = stream_byte(L.seed_io, L.peer_recvd + i);
				VF_CHECK(b[i] == w, "%s: peer read byte #%zu = %02x, written %02x (bytes lost/duplicated/reordered through br_sslio)", L.cfg.c_str(), L.peer_recvd + i, b[i], w);
			}
			L.peer_recvd += n;
			p->app_in_ack(n);
			prog = true;
		}
		if (L.peer_want_write && p->ready()) {
			size_t room = p->app_out_room();
			if (room) {
				size_t k = room < L.peer_want_write ? room : L.peer_want_write;
				Bytes tmp(k);
				for (size_t i = 0; i < k; i++) tmp[i] = stream_byte(L.seed_peer, L.peer_sent + i);
				L.peer_sent += k;
				L.peer_want_write -= k;
				p->app_out(tmp.data(), k);
				if (!L.peer_want_write) p->flush(false);
				prog = true;
			}
		}
		if ((n = p->wire_out_peek(&b)) > 0) {
			Bytes c(b, b + n);
			p->wire_out_ack(n);
			count_records(L, L.fr_peer, c.data(), n, L.alerts_from_peer, L.ccs_peer);
			L.to_io.push(c);
			prog = true;
		}
		size_t room = p->wire_in_room();
		if (room && !L.to_peer.empty()) {
			size_t k = room < L.to_peer.size() ? room : L.to_peer.size();
			p->wire_in(L.to_peer.data(), k);
			L.to_peer.pop(k);
			prog = true;
		}
		if (!prog) break;
	}
}

static bool cut_now(Link &L)
{
	L.calls++;
	VF_CHECK(L.calls < 3000000, "%s: br_sslio keeps calling the transport callbacks without end", L.cfg.c_str());
	if (L.cut_after >= 0 && (long)L.calls > L.cut_after) { L.cut_done = true; return true; }
	return false;
}

static bool gone(Link &L)
{
	if (!L.peer_gone) return false;
	if (++L.gone_calls > 200000 && L.spin) longjmp(*L.spin, 1);
	return true;
}
static int cb_read(void *ctx, unsigned char *buf, size_t len)
{
	Link &L = *(Link *)ctx;
	if (cut_now(L)) return -1;
	if (L.to_io.empty() && gone(L)) return -1;
	VF_CHECK(len > 0, "%s: br_sslio asked the transport to read 0 bytes", L.cfg.c_str());
	if (L.to_io.empty()) pump_peer(L);
	if (L.to_io.empty()) return -1;   // nothing will ever come: end of transport
	unsigned r = L.t->u8();
	size_t k = r == 0 ? len : 1 + r % len;
	if (k > L.to_io.size()) k = L.to_io.size();
	if (k < len) L.short_reads++;
	memcpy(buf, L.to_io.data(), k);
	L.to_io.pop(k);
	return (int)k;
}
static int cb_write(void *ctx, const unsigned char *buf, size_t len)
{
	Link &L = *(Link *)ctx;
	if (cut_now(L)) return -1;
	if (gone(L)) return -1;
	VF_CHECK(len > 0, "%s: br_sslio asked the transport to write 0 bytes", L.cfg.c_str());
	unsigned r = L.t->u8();
	size_t k = r == 0 ? len : 1 + r % len;
	if (k < len) L.short_writes++;
	count_records(L, L.fr_io, buf, k, L.alerts_from_io, L.ccs_io);
	L.to_peer.push(buf, k);
	pump_peer(L);
	return (int)k;
}

void target_run(Tape &t)
{
	static const uint16_t suites[] = { 0x002F, 0x009C, 0xCCA8, 0xC0AE, 0x000A };
	unsigned cb = t.u8();
	const wt::SuiteInfo *si = wt::suite_by_id(suites[cb % 5]);
	unsigned version = si->tls12_only ? 0x0303 : 0x0301 + (cb >> 3) % 3;
	bool io_is_client = t.flag();
	Profile cp, sp;
	cp.suites = { si->id }; sp.suites = { si->id };
	cp.vmin = cp.vmax = sp.vmin = sp.vmax = version;
	sp.key = keys_for(si)[0];
	unsigned lb = t.u8();
	cp.layout = (Layout)(lb % 3); sp.layout = (Layout)((lb >> 2) % 3);
	if (cp.layout == L_BIDI) cp.buflen = BR_SSL_BUFSIZE_BIDI;
	if (sp.layout == L_BIDI) sp.buflen = BR_SSL_BUFSIZE_BIDI;
	bool small = (lb >> 4) & 1;
	if (small) {   // small client: both directions limited by MFLN
		if (cp.layout == L_MONO) cp.buflen = 1024 + 325;
		else if (cp.layout == L_BIDI) cp.buflen = 1024 + 325 + 597;
		else { cp.ilen = 1024 + 325; cp.olen = 1024 + 85; }
	}
	BearClient c(cp);
	BearServer s(sp);
	VF_CHECK(c.reset() && s.reset(), "reset failed");
	Link L;
	L.t = &t;
	L.io_ep = io_is_client ? (BearEndpoint *)&c : (BearEndpoint *)&s;
	L.peer = io_is_client ? (BearEndpoint *)&s : (BearEndpoint *)&c;
	static const char *ln[] = { "mono", "bidi", "split" };
	L.cfg = fmt("sslio=%s %s TLS%s client %s%s server %s", io_is_client ? "client" : "server", si->name, ver_name(version), ln[cp.layout], small ? "/1024" : "", ln[sp.layout]);
	unsigned cutsel = t.u8();
	bool want_cut = cutsel < 64;
	if (want_cut) L.cut_after = (long)t.range(0, 400);
	// ... or exactly while br_sslio_close() is at work: at its k-th transport call (pending data and the close_notify
	// still to be written, or the peer's close_notify still to be read)
	long cut_in_close = cutsel >= 64 && cutsel < 112 ? (long)t.range(0, 5) : -1;
	br_sslio_context io;
	br_sslio_init(&io, L.io_ep->eng, cb_read, &L, cb_write, &L);
	std::string hist;
	bool closed_clean = false, failed = false;
	unsigned nops = 1 + t.u8() % 10;
	for (unsigned op = 0; op < nops && !failed && !closed_clean; op++) {
		unsigned ob = t.u8();
		int r;
		switch (ob % 8) {
		case 0: case 1: case 2: {   // write_all(n) [+ flush]
			size_t n = ob & 0x80 ? (size_t)t.range(1, 3000) : (size_t)t.range(1, 40);
			if (ob & 0x40) n = (size_t)t.range(16000, 20000);
			Bytes tmp(n);
			for (size_t i = 0; i < n; i++) tmp[i] = stream_byte(L.seed_io, L.io_sent + i);
			L.io_sent += n;   // counted first: the wrapper may emit while we are inside
			r = br_sslio_write_all(&io, tmp.data(), n);
			hist += fmt("write_all(%zu)=%d ", n, r);
			if (r < 0) { failed = true; break; }
			if (ob & 8) {
				r = br_sslio_flush(&io);
				hist += fmt("flush=%d ", r);
				if (r < 0) { failed = true; break; }
				pump_peer(L);
				VF_CHECK(L.peer_recvd == L.io_sent, "%s [%s]: after write_all+flush the peer has %zu of %zu bytes", L.cfg.c_str(), hist.c_str(), L.peer_recvd, L.io_sent);
			}
			break;
		}
		case 3: case 4: {           // the peer writes n bytes; we read them all
			size_t n = ob & 0x80 ? (size_t)t.range(1, 5000) : (size_t)t.range(1, 60);
			L.peer_want_write += n;
			size_t target = L.peer_sent + L.peer_want_write;
			// the peer can only write once the handshake is done, which the wrapper drives from inside read()
			while (L.io_recvd < target) {
				uint8_t buf[700];
				size_t ask = 1 + t.u8() % sizeof buf;
				r = br_sslio_read(&io, buf, ask);
				if (r < 0) { hist += fmt("read=%d ", r); failed = true; break; }
				VF_CHECK(r > 0 && (size_t)r <= ask, "%s: br_sslio_read returned %d for a %zu-byte request", L.cfg.c_str(), r, ask);
				for (int i = 0; i < r; i++) {
					uint8_t w = stream_byte(L.seed_peer, L.io_recvd + i);
					VF_CHECK(L.io_recvd + i < L.peer_sent, "%s: br_sslio_read returned byte #%zu, peer wrote only %zu", L.cfg.c_str(), L.io_recvd + i, L.peer_sent);
					VF_CHECK(buf[i] == w, "%s [%s]: br_sslio_read byte #%zu = %02x, peer wrote %02x", L.cfg.c_str(), hist.c_str(), L.io_recvd + i, buf[i], w);
				}
				L.io_recvd += (size_t)r;
			}
			if (!failed) hist += fmt("read-all(%zu) ", n);
			break;
		}
		case 5: {
			r = br_sslio_flush(&io);
			hist += fmt("flush=%d ", r);
			if (r < 0) failed = true;
			break;
		}
		case 6: {                   // orderly close (only once the handshake is done, see C19 guard)
			if (!L.io_ep->handshake_done()) { r = br_sslio_flush(&io); if (r < 0) { failed = true; hist += "flush=-1 "; break; } }
			if (!L.io_ep->handshake_done()) break;
			size_t sent_before = L.io_sent;
			if (cut_in_close >= 0 && L.cut_after < 0) { L.cut_after = (long)L.calls + cut_in_close; hist += fmt("(transport fails at call %ld of close) ", cut_in_close); stats.cls("cut-armed-inside-close"); }
			r = br_sslio_close(&io);
			hist += fmt("close=%d ", r);
			if (L.cut_done) stats.cls("cut-hit-inside-close");
			if (r == 1) {
				closed_clean = true;
				pump_peer(L);
				VF_CHECK(L.peer_recvd == sent_before, "%s [%s]: close reported clean but the peer read %zu of %zu bytes written before it", L.cfg.c_str(), hist.c_str(), L.peer_recvd, sent_before);
			} else failed = true;
			break;
		}
		case 7: {
			// the peer closes in an orderly way and shuts the transport down without waiting for our
			// close_notify (RFC 5246 7.2.1 allows that); the application reads to the end, then closes
			if (!L.io_ep->handshake_done() || L.cut_after >= 0) break;
			r = br_sslio_flush(&io);
			if (r < 0) { failed = true; break; }
			pump_peer(L);
			if (L.peer->closed() || !L.peer->handshake_done()) break;
			L.peer->close();
			pump_peer(L);
			L.peer_gone = true;
			static jmp_buf jb;
			L.spin = &jb;
			volatile int stage = 0;
			if (setjmp(jb) == 0) {
				uint8_t tmp[256];
				int guard = 0;
				while ((r = br_sslio_read(&io, tmp, sizeof tmp)) > 0 && ++guard < 100000) L.io_recvd += (size_t)r;
				stage = 1;
				r = br_sslio_close(&io);
				stage = 2;
			} else {
				L.spin = nullptr;
				failf("%s [%s]: the peer sent close_notify and shut the transport down; %s never returned (the wrapper called the failing transport %llu times): a caller spins forever", L.cfg.c_str(), hist.c_str(),
					stage == 0 ? "br_sslio_read()" : "br_sslio_close()", (unsigned long long)L.gone_calls);
			}
			L.spin = nullptr;
			hist += fmt("peer-closes-and-leaves close=%d ", r);
			BearEndpoint *e2 = L.io_ep;
			VF_CHECK(e2->closed(), "%s [%s]: after br_sslio_close() the engine is not closed (state %#x)", L.cfg.c_str(), hist.c_str(), e2->state());
			VF_CHECK(e2->error() == 0 && r == 1, "%s [%s]: the peer closed in an orderly way (close_notify received) yet the closure is reported as failed: error %d, br_sslio_close %d", L.cfg.c_str(), hist.c_str(), e2->error(), r);
			stats.cls("outcome:peer-closed-and-left");
			stats.eval(fmt("%u/%d/%u/leave", cb % 5, io_is_client, lb & 31));
			return;
		}
		default: break;
		}
	}
	BearEndpoint *e = L.io_ep;
	e->inv("sslio history");
	if (failed) {
		// without a cut nothing may fail
		VF_CHECK(L.cut_done, "%s [%s]: a br_sslio call failed although the transport never failed (engine error %d, peer error %d; %llu short writes, %llu short reads)",
			L.cfg.c_str(), hist.c_str(), e->error(), L.peer->error(), (unsigned long long)L.short_writes, (unsigned long long)L.short_reads);
		VF_CHECK(e->closed() && e->error() != 0, "%s [%s]: transport cut, but the engine is %s with last_error %d (truncation must not look like orderly closure)",
			L.cfg.c_str(), hist.c_str(), e->closed() ? "closed" : "open", e->error());
		VF_CHECK(e->error() == BR_ERR_IO, "%s [%s]: transport cut reported as error %d, want BR_ERR_IO", L.cfg.c_str(), hist.c_str(), e->error());
		uint8_t b1;
		VF_CHECK(br_sslio_read(&io, &b1, 1) == -1 && br_sslio_write(&io, &b1, 1) == -1 && br_sslio_flush(&io) == -1,
			"%s [%s]: br_sslio call succeeds after the engine failed", L.cfg.c_str(), hist.c_str());
		stats.cls("outcome:transport-cut");
	} else if (closed_clean) {
		VF_CHECK(e->closed() && e->error() == 0, "%s [%s]: br_sslio_close returned 1 but engine closed=%d error=%d", L.cfg.c_str(), hist.c_str(), e->closed(), e->error());
		VF_CHECK(L.peer->closed() && L.peer->error() == 0, "%s [%s]: after orderly close the peer is closed=%d error=%d", L.cfg.c_str(), hist.c_str(), L.peer->closed(), L.peer->error());
		VF_CHECK(L.alerts_from_io == 1 && L.alerts_from_peer == 1, "%s [%s]: %u alert records from the closing side and %u from the peer (exactly one close_notify each)",
			L.cfg.c_str(), hist.c_str(), L.alerts_from_io, L.alerts_from_peer);
		stats.cls("outcome:orderly-close");
	} else {
		stats.cls("outcome:open");
	}
	stats.cls(io_is_client ? "sslio:client" : "sslio:server");
	stats.cls("short-writes", L.short_writes);
	stats.cls("short-reads", L.short_reads);
	bool nontriv = (L.short_writes + L.short_reads) > 0 && (L.io_sent > 0 || L.io_recvd > 0);
	stats.eval(nontriv ? fmt("%u/%d/%u/%s/%d%d", cb % 5, io_is_client, lb & 31, hist.c_str(), failed, closed_clean) : std::string());
	if (stats.want_sample()) stats.sample(L.cfg + " | " + hist + fmt("| %llu short writes, %llu short reads%s", (unsigned long long)L.short_writes, (unsigned long long)L.short_reads,
		L.cut_done ? fmt(", transport cut after %ld callback calls", L.cut_after).c_str() : ""));
}
