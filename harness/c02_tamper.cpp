// C02 — application bytes received are always a prefix of the bytes the
// peer sent, whatever an active attacker does to the protected stream; a
// tampered / misplaced / injected record is never accepted and the
// connection then fails with a non-zero error.
//
// A *lab* = connected Bear<->Bear pair for (suite, version, implementation
// set, victim role and buffer layout).  The sender writes a scripted stream
// giving records of every shape of the mode (empty, 1, block-1, block,
// block+1, 100, full 512-byte fragment, TLS 1.0 1/n-1 pairs, close_notify);
// the records bound for the victim are held back, the victim is snapshotted
// and then restored for every fault.
//
// A case (tape) = lab configuration + fault class + record index +
// transport chunking; it evaluates *every* position of that class in that
// record (all bits, all bytes, all padding lengths ...), each as one oracle
// evaluation:
//   (1) bytes read from the victim are a prefix of what the sender wrote,
//   (2) for a detectable fault the victim ends CLOSED with error != 0 and
//       delivered nothing of or after the faulty record,
//   (3) positive controls (valid MAC with every legal padding length, the
//       unmodified stream) are accepted and delivered exactly.
#include "common/tls_session.hpp"
#include <map>

using namespace vf;
using namespace tls;

const char *target_name = "c02_tamper";
const int target_tape_min = 0, target_tape_max = 24;

struct LabKey {
	uint16_t suite; unsigned version; bool esp; int victim; int layout; int variant;
	bool operator<(const LabKey &o) const
	{
		return std::tie(suite, version, esp, victim, layout, variant) < std::tie(o.suite, o.version, o.esp, o.victim, o.layout, o.variant);
	}
};

struct Lab {
	LabKey key;
	const wt::SuiteInfo *si;
	std::unique_ptr<BearClient> c;
	std::unique_ptr<BearServer> s;
	BearEndpoint *victim = nullptr;
	BearSnap snap;
	std::vector<Record> stream;      // sender -> victim, held back
	std::vector<size_t> offs;        // application bytes carried before record i
	std::vector<Record> victim_out;  // records the victim itself sent after the handshake (for reflection)
	Bytes plain;                     // what the sender's application wrote
	uint64_t seed = 0;
	wt::KeyMat km;
	size_t first_index = 0;          // index (in the sender's direction) of stream[0]
	size_t epoch_start = 0;
	int sdir = 0;                    // sender side index
	Bytes pre_tail;                  // last ciphertext block the sender emitted before stream[0] (TLS 1.0 CBC chaining)
	std::string desc;
};

static std::map<LabKey, std::unique_ptr<Lab>> lab_cache;

static Lab *build_lab(const LabKey &k)
{
	auto it = lab_cache.find(k);
	if (it != lab_cache.end()) return it->second.get();
	std::unique_ptr<Lab> L(new Lab);
	L->key = k;
	L->si = wt::suite_by_id(k.suite);
	Profile cp, sp;
	cp.suites = { k.suite }; sp.suites = { k.suite };
	cp.vmin = cp.vmax = sp.vmin = sp.vmax = k.version;
	sp.key = keys_for(L->si)[0];
	cp.esp = sp.esp = k.esp;
	// the sender has a 512-byte fragment limit so that a "full fragment"
	// record is cheap; the victim has the layout under test at full size
	Profile &vp = k.victim == 0 ? cp : sp, &snd = k.victim == 0 ? sp : cp;
	vp.layout = (Layout)k.layout;
	if (vp.layout == L_MONO) vp.buflen = BR_SSL_BUFSIZE_MONO;
	else if (vp.layout == L_BIDI) vp.buflen = BR_SSL_BUFSIZE_BIDI;
	snd.layout = L_SPLIT; snd.ilen = BR_SSL_BUFSIZE_INPUT; snd.olen = 512 + 85;
	if (k.victim == 1) { /* client is the sender: it asks for 512-byte fragments, harmless */ }
	for (int i = 0; i < 32; i++) { cp.entropy[i] = (uint8_t)(k.suite + i * 7 + k.variant * 31 + 1); sp.entropy[i] = (uint8_t)(k.version + i * 11 + k.variant * 17 + 2); }
	L->c.reset(new BearClient(cp));
	L->s.reset(new BearServer(sp));
	VF_CHECK(L->c->reset() && L->s->reset(), "lab: reset failed");
	L->victim = k.victim == 0 ? (BearEndpoint *)L->c.get() : (BearEndpoint *)L->s.get();
	L->sdir = 1 - k.victim;
	Session S(L->c.get(), L->s.get());
	bool capturing = false;
	S.mitm = [&](int dir, const Record &r, std::vector<Bytes> &out) {
		if (capturing && dir == L->sdir) { L->stream.push_back(r); return; }
		if (capturing && dir != L->sdir) L->victim_out.push_back(r);
		out.push_back(r.raw());
	};
	L->seed = S.stream_seed[L->sdir];
	// phase 1: handshake, then the victim says a few bytes (material for reflection)
	S.script[k.victim].push_back(Item{ IT_WRITE, 5, true });
	VF_CHECK(S.run(400000) && S.established, "lab %04x/%04x: handshake failed (errors %d/%d)", k.suite, k.version, L->c->error(), L->s->error());
	VF_CHECK(S.recvd[k.victim] == 5, "lab: pre-phase data not delivered");
	// second victim write is captured (not needed by the sender)
	capturing = true;
	size_t bs = wt::is_cbc(L->si->cipher) ? wt::block_len(L->si->cipher) : 16;
	size_t shapes[] = { 0, 1, bs - 1, bs, bs + 1, 100, 512, 3 };
	for (size_t sh : shapes) S.script[L->sdir].push_back(Item{ IT_WRITE, sh, true });
	S.script[L->sdir].push_back(Item{ IT_CLOSE, 0, true });
	S.script[k.victim].push_back(Item{ IT_WRITE, 7, true });
	L->first_index = S.tap.recs[L->sdir].size();
	if (L->first_index > 0) {
		const Bytes &pp = S.tap.recs[L->sdir][L->first_index - 1].payload;
		if (pp.size() >= 16) L->pre_tail.assign(pp.end() - 16, pp.end());
	}
	S.run(400000);
	VF_CHECK(S.script[L->sdir].empty(), "lab: sender script did not finish");
	VF_CHECK(S.tap.advance(L->sdir, true), "lab: wiretap cannot authenticate the sender's records: %s", S.tap.decode_error.c_str());
	L->km = S.tap.found_km[L->sdir];
	L->epoch_start = S.tap.epoch_start[L->sdir];
	// offsets from the wiretap plaintext
	size_t off = 0;
	{
		size_t pi = 0;
		for (auto &p : S.tap.plain[L->sdir]) {
			if (pi++ < L->first_index) { if (p.type == 23) VF_CHECK(false, "lab: unexpected early data"); continue; }
			L->offs.push_back(off);
			if (p.type == 23) off += p.data.size();
		}
	}
	VF_CHECK(L->offs.size() == L->stream.size(), "lab: %zu offsets for %zu records", L->offs.size(), L->stream.size());
	L->plain.resize(S.sent[L->sdir]);
	for (size_t i = 0; i < L->plain.size(); i++) L->plain[i] = stream_byte(L->seed, i);
	VF_CHECK(off == L->plain.size(), "lab: wire carries %zu bytes, sender wrote %zu", off, L->plain.size());
	if (k.victim == 0) snap_save(*L->c, L->snap); else snap_save(*L->s, L->snap);
	L->desc = fmt("%s TLS%s %s victim=%s/%s", L->si->name, ver_name(k.version), k.esp ? "esp" : "default", k.victim ? "server" : "client",
		k.layout == 0 ? "mono" : k.layout == 1 ? "bidi" : "split");
	Lab *raw = L.get();
	lab_cache[k] = std::move(L);
	return raw;
}

struct Outcome { size_t delivered = 0; bool closed = false; int err = 0; bool failed_by_wire_end = false; bool marked = false; };

// feed `wire` (+ filler) to a restored victim under a chunking policy
// White-box fast-forward: once exactly g_poke_at bytes of the stream have been taken, the victim's incoming record
// sequence number is advanced by g_poke_add (nobody can send 2^32 records in a test; the counter is a plain
// 64-bit field of the record-decryption context).
static size_t g_poke_at = (size_t)-1;
static uint64_t g_poke_add = 0;
static void poke_in_seq(Lab *L, BearEndpoint *v, uint64_t add)
{
	br_ssl_engine_context *e = v->eng;
	if (wt::is_cbc(L->si->cipher)) e->in.cbc.seq += add;
	else if (wt::is_gcm(L->si->cipher)) e->in.gcm.seq += add;
	else if (wt::is_ccm(L->si->cipher)) e->in.ccm.seq += add;
	else e->in.chapol.seq += add;
}

static Outcome replay(Lab *L, const Bytes &wire, unsigned chunk_mode, size_t filler, const Bytes *extra_plain = nullptr, size_t extra_at = 0)
{
	if (L->key.victim == 0) snap_restore(*L->c, L->snap); else snap_restore(*L->s, L->snap);
	BearEndpoint *v = L->victim;
	bool poked = false;
	Outcome o;
	size_t pos = 0, total = wire.size() + filler;
	unsigned phase = 0;
	uint8_t fill[4096];
	memset(fill, 0x17, sizeof fill);
	unsigned idle = 0;
	while (!v->closed()) {
		bool progress = false;
		const uint8_t *p;
		size_t n;
		while ((n = v->app_in_peek(&p)) > 0) {
			for (size_t i = 0; i < n; i++) {
				size_t at = o.delivered + i;
				uint8_t want;
				bool have;
				if (extra_plain && at >= extra_at) { have = at - extra_at < extra_plain->size(); want = have ? (*extra_plain)[at - extra_at] : 0; }
				else { have = at < L->plain.size(); want = have ? L->plain[at] : 0; }
				VF_CHECK(have, "%s: victim delivered byte #%zu, sender wrote only %zu (invented data)", L->desc.c_str(), at, L->plain.size());
				VF_CHECK(p[i] == want, "%s: victim delivered byte #%zu = %02x, sender wrote %02x (not a prefix)", L->desc.c_str(), at, p[i], want);
			}
			o.delivered += n;
			v->app_in_ack(n);
			progress = true;
		}
		if ((n = v->wire_out_peek(&p)) > 0) { v->wire_out_ack(n); progress = true; }
		if (pos == g_poke_at && !poked) { poked = true; poke_in_seq(L, v, g_poke_add); }
		size_t room = v->wire_in_room();
		if (room && pos < total) {
			size_t k;
			switch (chunk_mode % 4) {
			case 0: k = room; break;
			case 1: k = 1; break;
			case 2: k = (phase++ & 1) ? room : 3; break;
			default: k = 7 + (phase++ % 5) * 13; break;
			}
			if (k > room) k = room;
			if (k > total - pos) k = total - pos;
			if (pos < wire.size()) {
				if (k > wire.size() - pos) k = wire.size() - pos;
				if (pos < g_poke_at && g_poke_at != (size_t)-1 && k > g_poke_at - pos) k = g_poke_at - pos;
				v->wire_in(wire.data() + pos, k);
			} else {
				k = room < total - pos ? room : total - pos;   // filler always in large pieces
				if (k > sizeof fill) k = sizeof fill;
				v->wire_in(fill, k);
			}
			pos += k;
			progress = true;
			// state right after the last byte of the (complete) faulty stream, before any filler
			if (pos == wire.size() && !o.marked) { o.marked = true; o.failed_by_wire_end = v->closed() && v->error() != 0; }
		}
		if (!progress) { if (++idle > 2) break; } else idle = 0;
	}
	o.closed = v->closed();
	o.err = v->error();
	if (!o.marked) o.failed_by_wire_end = o.closed && o.err != 0;   // failed before the stream was even complete
	return o;
}

static Bytes join(const std::vector<Record> &rs, size_t from = 0, size_t to = (size_t)-1)
{
	Bytes w;
	for (size_t i = from; i < rs.size() && i < to; i++) { Bytes r = rs[i].raw(); w.insert(w.end(), r.begin(), r.end()); }
	return w;
}

static const size_t FILLER = 17 * 1024;

// the fault must be noticed: closed with error, nothing of/after record `ri` delivered
static void expect_reject(Lab *L, const Outcome &o, size_t ri, const std::string &what)
{
	size_t limit = ri < L->offs.size() ? L->offs[ri] : L->plain.size();
	VF_CHECK(o.delivered <= limit, "%s: %s: victim delivered %zu bytes, but only %zu precede the faulty record #%zu (tampered/misplaced data accepted)",
		L->desc.c_str(), what.c_str(), o.delivered, limit, ri);
	VF_CHECK(o.closed && o.err != 0, "%s: %s: after the faulty record #%zu and %zu filler bytes the victim is %s with error %d (must fail)",
		L->desc.c_str(), what.c_str(), ri, FILLER, o.closed ? "closed" : "still open", o.err);
}

// for faults whose record is complete in the stream: the failure must be there as soon as the
// record has been received in full, not only when later bytes arrive
static void expect_immediate(Lab *L, const Outcome &o, size_t ri, const std::string &what)
{
	VF_CHECK(o.failed_by_wire_end, "%s: %s: the faulty record #%zu was received in full, yet the connection had not failed at that point (it %s later, error %d): the record was accepted by the engine",
		L->desc.c_str(), what.c_str(), ri, o.closed ? "failed only" : "did not even fail", o.err);
}

enum { F_BITS, F_DROP, F_DUP, F_SWAP, F_REPLAY, F_TRUNC, F_SPLICE, F_REFLECT, F_PADLEN, F_PADBYTE, F_MACBYTE, F_PADLIE, F_AAD, F_LENGTHS, F_CONTROL, F_NCLASS };
static const char *FNAME[] = { "bitflip", "drop", "dup", "swap", "replay", "truncate", "splice", "reflect", "cbc-padlen-valid", "cbc-padbyte", "mac/tag-byte",
	"cbc-padlen-lie", "aead-aad/seq", "lengths", "control" };

static void run_fault(Lab *L, unsigned fclass, size_t ri, unsigned chunk_mode, unsigned sub)
{
	const std::vector<Record> &st = L->stream;
	size_t nrec = st.size();
	ri %= nrec;
	std::string base = fmt("%s rec#%zu/%zu chunk=%u", FNAME[fclass], ri, nrec, chunk_mode % 4);
	auto key = [&](const std::string &pos) { return fmt("%04x/%04x/%d/%d/%d/%u/%zu/%s", L->key.suite, L->key.version, L->key.esp, L->key.victim, L->key.layout, fclass, ri, pos.c_str()); };
	bool cbc = wt::is_cbc(L->si->cipher);
	size_t bs = cbc ? wt::block_len(L->si->cipher) : 16, ml = wt::mac_len(L->si->mac);

	switch (fclass) {
	case F_CONTROL: {
		Outcome o = replay(L, join(st), chunk_mode, 0);
		VF_CHECK(o.delivered == L->plain.size(), "%s: unmodified stream: %zu of %zu bytes delivered", L->desc.c_str(), o.delivered, L->plain.size());
		VF_CHECK(o.closed && o.err == 0, "%s: unmodified stream ending in close_notify: closed=%d err=%d", L->desc.c_str(), o.closed, o.err);
		stats.eval(key("ok"));
		break;
	}
	case F_BITS: {
		Bytes pre = join(st, 0, ri), rec = st[ri].raw(), post = join(st, ri + 1);
		for (size_t bit = 0; bit < rec.size() * 8; bit++) {
			Bytes w = pre;
			Bytes r2 = rec;
			r2[bit >> 3] ^= (uint8_t)(1u << (bit & 7));
			w.insert(w.end(), r2.begin(), r2.end());
			w.insert(w.end(), post.begin(), post.end());
			Outcome o = replay(L, w, chunk_mode + (unsigned)bit, FILLER);
			expect_reject(L, o, ri, base + fmt(" bit %zu (byte %zu of %zu)", bit, bit >> 3, rec.size()));
			stats.eval_h(fnv(key(fmt("b%zu", bit))));
		}
		break;
	}
	case F_DROP: {
		Bytes w = join(st, 0, ri), post = join(st, ri + 1);
		w.insert(w.end(), post.begin(), post.end());
		Outcome o = replay(L, w, chunk_mode, FILLER);
		// dropping the last record is a truncation: only the prefix clause applies (filler then fails it)
		expect_reject(L, o, ri, base);
		stats.eval(key("drop"));
		break;
	}
	case F_DUP: {
		Bytes w = join(st, 0, ri + 1), r = st[ri].raw(), post = join(st, ri + 1);
		w.insert(w.end(), r.begin(), r.end());
		w.insert(w.end(), post.begin(), post.end());
		Outcome o = replay(L, w, chunk_mode, FILLER);
		// the duplicate sits where record ri+1 was expected
		if (ri + 1 < nrec || st[ri].type != 21) {
			size_t limit = ri + 1 < nrec ? L->offs[ri + 1] : L->plain.size();
			VF_CHECK(o.delivered <= limit, "%s: %s: delivered %zu > %zu: duplicate accepted", L->desc.c_str(), base.c_str(), o.delivered, limit);
			if (st[ri].type != 21) VF_CHECK(o.closed && o.err != 0, "%s: %s: duplicated record not rejected (closed=%d err=%d)", L->desc.c_str(), base.c_str(), o.closed, o.err);
		}
		stats.eval(key("dup"));
		break;
	}
	case F_SWAP: {
		if (ri + 1 >= nrec) { ri = 0; }
		Bytes w = join(st, 0, ri), a = st[ri].raw(), b = st[ri + 1].raw(), post = join(st, ri + 2);
		w.insert(w.end(), b.begin(), b.end());
		w.insert(w.end(), a.begin(), a.end());
		w.insert(w.end(), post.begin(), post.end());
		Outcome o = replay(L, w, chunk_mode, FILLER);
		expect_reject(L, o, ri, base);
		stats.eval(key("swap"));
		break;
	}
	case F_REPLAY: {
		// every earlier record j replayed at position ri
		for (size_t j = 0; j < ri; j++) {
			Bytes w = join(st, 0, ri), r = st[j].raw(), post = join(st, ri);
			w.insert(w.end(), r.begin(), r.end());
			w.insert(w.end(), post.begin(), post.end());
			Outcome o = replay(L, w, chunk_mode + (unsigned)j, FILLER);
			expect_reject(L, o, ri, base + fmt(" replaying #%zu", j));
			stats.eval(key(fmt("r%zu", j)));
		}
		break;
	}
	case F_TRUNC: {
		Bytes pre = join(st, 0, ri), rec = st[ri].raw();
		for (size_t cut = 0; cut < rec.size(); cut++) {
			Bytes w = pre;
			w.insert(w.end(), rec.begin(), rec.begin() + cut);
			Outcome o = replay(L, w, chunk_mode + (unsigned)cut, 0);
			VF_CHECK(o.delivered <= L->offs[ri], "%s: %s cut at %zu: %zu bytes delivered from an incomplete record (only %zu precede it)", L->desc.c_str(), base.c_str(), cut, o.delivered, L->offs[ri]);
			VF_CHECK(!(o.closed && o.err == 0), "%s: %s cut at %zu: truncated stream reported as orderly closure", L->desc.c_str(), base.c_str(), cut);
			stats.eval_h(fnv(key(fmt("t%zu", cut))));
		}
		break;
	}
	case F_SPLICE: {
		LabKey k1 = L->key, k2 = L->key;     // by value: building a lab may clear the cache and free *L
		k2.variant = k1.variant + 1;
		Lab *L2 = build_lab(k2);
		Lab *L1 = build_lab(k1);   // (map may have been cleared)
		L = L1;
		if (ri >= L2->stream.size()) ri = 0;
		Bytes w = join(L->stream, 0, ri), r = L2->stream[ri].raw(), post = join(L->stream, ri + 1);
		w.insert(w.end(), r.begin(), r.end());
		w.insert(w.end(), post.begin(), post.end());
		Outcome o = replay(L, w, chunk_mode, FILLER);
		expect_reject(L, o, ri, base + " (record of another connection)");
		stats.eval(key("splice"));
		break;
	}
	case F_REFLECT: {
		for (size_t j = 0; j < L->victim_out.size(); j++) {
			Bytes w = join(st, 0, ri), r = L->victim_out[j].raw(), post = join(st, ri);
			w.insert(w.end(), r.begin(), r.end());
			w.insert(w.end(), post.begin(), post.end());
			Outcome o = replay(L, w, chunk_mode, FILLER);
			expect_reject(L, o, ri, base + fmt(" reflecting the victim's own record #%zu", j));
			stats.eval(key(fmt("x%zu", j)));
		}
		break;
	}
	case F_PADLEN: case F_PADBYTE: case F_MACBYTE: case F_PADLIE: case F_AAD: {
		// crafted with the real keys, replacing the stream from record ri on
		if (st[ri].type != 23 && ri > 0) ri = 1 % nrec;
		wt::RecCodec c0;
		VF_CHECK(c0.init(L->km, L->sdir == 0), "harness: codec init");
		c0.seq = L->first_index + ri - L->epoch_start;
		if (cbc && L->key.version <= 0x0301 && ri > 0) c0.iv.assign(st[ri - 1].payload.end() - bs, st[ri - 1].payload.end());
		else if (cbc && L->key.version <= 0x0301 && L->first_index > L->epoch_start) c0.iv.assign(L->pre_tail.end() - bs, L->pre_tail.end());
		size_t plen = sub % 3 == 0 ? 1 : sub % 3 == 1 ? 33 : 470;
		if (L->offs[ri] + plen > L->plain.size()) plen = L->plain.size() - L->offs[ri];
		const uint8_t *pt = L->plain.data() + L->offs[ri];
		Bytes pre = join(st, 0, ri);
		uint16_t ver = (uint16_t)L->key.version;
		auto send = [&](const Bytes &payload, unsigned cm) {
			Record r;
			r.type = 23; r.version = ver; r.payload = payload;
			Bytes w = pre, rr = r.raw();
			w.insert(w.end(), rr.begin(), rr.end());
			return replay(L, w, cm, FILLER);
		};
		if (fclass == F_AAD) {
			if (cbc) {
				// for CBC the MAC input plays the role of the AAD
			}
			struct { const char *n; wt::EncOpts o; } v[6];
			int nv = 0;
			v[nv].n = "seq+1"; v[nv].o.use_seq = true; v[nv].o.seq = c0.seq + 1; nv++;
			if (c0.seq > 0) { v[nv].n = "seq-1"; v[nv].o.use_seq = true; v[nv].o.seq = c0.seq - 1; nv++; }
			v[nv].n = "seq=0"; v[nv].o.use_seq = true; v[nv].o.seq = c0.seq ? 0 : 7; nv++;
			v[nv].n = "aad type 22"; v[nv].o.aad_type = 22; nv++;
			v[nv].n = "aad version other"; v[nv].o.aad_version = ver == 0x0303 ? 0x0302 : ver + 1; nv++;
			v[nv].n = "seq high bit"; v[nv].o.use_seq = true; v[nv].o.seq = c0.seq | (1ULL << 32); nv++;
			for (int i = 0; i < nv; i++) {
				wt::RecCodec c = c0;
				Outcome o = send(c.encrypt(23, ver, pt, plen, v[i].o), chunk_mode + i);
				expect_reject(L, o, ri, base + " crafted with " + v[i].n);
				stats.eval(key(v[i].n));
			}
			// the same two questions 2^k records later (k = 8 .. 56): the victim's counter is fast-forwarded at the record
			// boundary; a record made for the new number is accepted (control: the counter is a full 64-bit value on both
			// sides), the record of 2^k records ago - a replay from the distant past - is refused
			for (unsigned kb = 8; kb <= 56; kb += 8) {
				uint64_t add = 1ULL << kb;
				g_poke_at = pre.size(); g_poke_add = add;
				wt::RecCodec cf = c0;
				wt::EncOpts eo;
				eo.use_seq = true; eo.seq = c0.seq + add;
				Outcome of = send(cf.encrypt(23, ver, pt, plen, eo), chunk_mode + kb);
				wt::RecCodec cr = c0;
				Outcome orp = send(cr.encrypt(23, ver, pt, plen), chunk_mode + kb);
				g_poke_at = (size_t)-1; g_poke_add = 0;
				VF_CHECK(of.delivered == L->offs[ri] + plen, "%s: %s: record number n+2^%u (victim fast-forwarded by 2^%u): not delivered (%zu, want %zu; err %d): the sequence number is not a 64-bit counter", L->desc.c_str(), base.c_str(),
					kb, kb, of.delivered, L->offs[ri] + plen, of.err);
				expect_reject(L, orp, ri, base + fmt(" record number n replayed 2^%u records later", kb));
				expect_immediate(L, orp, ri, base + fmt(" record number n replayed 2^%u records later", kb));
				stats.eval(key(fmt("far-replay-2^%u", kb)));
			}
			// control: the same record with the right sequence number is accepted
			wt::RecCodec c = c0;
			Outcome o = send(c.encrypt(23, ver, pt, plen), chunk_mode);
			VF_CHECK(o.delivered == L->offs[ri] + plen, "%s: %s: correctly crafted record not delivered exactly (%zu, want %zu; err %d)", L->desc.c_str(), base.c_str(), o.delivered, L->offs[ri] + plen, o.err);
			stats.eval(key("ctl"));
			break;
		}
		if (fclass == F_MACBYTE) {
			size_t n = cbc ? ml : (L->si->cipher == wt::C_CHACHA20 ? 16 : wt::tag_len(L->si->cipher));
			for (size_t i = 0; i < n; i++) {
				wt::RecCodec c = c0;
				wt::EncOpts eo;
				eo.corrupt_mac_at = (int)i;
				Outcome o = send(c.encrypt(23, ver, pt, plen, eo), chunk_mode + (unsigned)i);
				expect_reject(L, o, ri, base + fmt(" MAC/tag byte %zu wrong", i));
			expect_immediate(L, o, ri, base + fmt(" MAC/tag byte %zu wrong", i));
				stats.eval(key(fmt("m%zu", i)));
			}
			break;
		}
		if (!cbc) { stats.excluded++; return; }
		size_t minpad = bs - 1 - ((plen + ml) % bs);
		if (fclass == F_PADLEN) {
			// every legal padding length: must be accepted and delivered exactly
			for (size_t padv = minpad; padv <= 255; padv += bs) {
				wt::RecCodec c = c0;
				wt::EncOpts eo;
				eo.pad_len = (int)padv;
				Outcome o = send(c.encrypt(23, ver, pt, plen, eo), chunk_mode + (unsigned)padv);
				VF_CHECK(o.delivered == L->offs[ri] + plen, "%s: %s: valid record with %zu padding bytes (value %zu): %zu bytes delivered, want %zu (error %d)",
					L->desc.c_str(), base.c_str(), padv + 1, padv, o.delivered, L->offs[ri] + plen, o.err);
				stats.eval(key(fmt("p%zu", padv)));
			}
			break;
		}
		if (fclass == F_PADBYTE) {
			// maximum padding, one wrong byte at every position; and minimal padding
			size_t pads[2] = { minpad + ((255 - minpad) / bs) * bs, minpad };
			for (size_t padv : pads)
				for (size_t j = 0; j < padv; j++) {   // j == padv is the length byte itself: F_PADLIE
					wt::RecCodec c = c0;
					wt::EncOpts eo;
					eo.pad_len = (int)padv;
					eo.corrupt_pad_at = (int)j;
					Outcome o = send(c.encrypt(23, ver, pt, plen, eo), chunk_mode + (unsigned)j);
					expect_reject(L, o, ri, base + fmt(" padding %zu, byte %zu wrong", padv, j));
			expect_immediate(L, o, ri, base + fmt(" padding %zu, byte %zu wrong", padv, j));
					stats.eval(key(fmt("q%zu.%zu", padv, j)));
				}
			break;
		}
		if (fclass == F_PADLIE) {
			// body = plaintext || MAC || padding, then overwrite the last byte with every other value
			size_t padv = minpad + ((sub >> 2) % 3) * bs;
			if (padv > 255) padv = minpad;
			for (unsigned lie = 0; lie < 256; lie++) {
				if (lie == padv) continue;
				wt::RecCodec c = c0;
				Bytes body(pt, pt + plen);
				uint8_t m[64];
				c.mac_of(c.seq, 23, ver, pt, plen, m);
				body.insert(body.end(), m, m + ml);
				body.insert(body.end(), padv + 1, (uint8_t)padv);
				body.back() = (uint8_t)lie;
				Outcome o = send(c.encrypt_raw_cbc(body), chunk_mode + lie);
				expect_reject(L, o, ri, base + fmt(" padding %zu bytes but length byte says %u", padv + 1, lie));
			expect_immediate(L, o, ri, base + fmt(" padding %zu bytes but length byte says %u", padv + 1, lie));
				stats.eval(key(fmt("l%zu.%u", padv, lie)));
			}
			break;
		}
		break;
	}
	case F_LENGTHS: {
		// records of inadmissible length for the mode: body is garbage, only
		// the announced length matters; must fail cleanly
		Bytes pre = join(st, 0, ri);
		std::vector<size_t> lens;
		size_t expl = (cbc && L->key.version >= 0x0302) ? bs : 0;
		if (cbc) {
			size_t minl = ((bs + ml) & ~(bs - 1)) + expl, maxl = ((16384 + 256 + ml) & ~(bs - 1)) + expl;
			for (size_t d = 1; d < bs; d++) { lens.push_back(minl + d); lens.push_back(minl + 5 * bs + d); lens.push_back(maxl - d); }
			lens.push_back(minl - bs); lens.push_back(minl - 1); lens.push_back(maxl + bs); lens.push_back(maxl + 1); lens.push_back(0); lens.push_back(1);
		} else {
			size_t ovh = L->si->cipher == wt::C_CHACHA20 ? 16 : 8 + wt::tag_len(L->si->cipher);
			lens = { 0, 1, ovh - 1, ovh + 16384 + 1, ovh + 16384 + 100, 16384 + 2048, 0xFFFF };
		}
		for (size_t ln : lens) {
			if (ln > 0xFFFF) continue;
			Bytes w = pre;
			w.push_back(23); w.push_back(L->key.version >> 8); w.push_back(L->key.version & 0xFF); w.push_back(ln >> 8); w.push_back(ln & 0xFF);
			for (size_t i = 0; i < ln; i++) w.push_back((uint8_t)(i * 31 + 7));
			Outcome o = replay(L, w, chunk_mode + (unsigned)ln, FILLER);
			expect_reject(L, o, ri, base + fmt(" record of inadmissible length %zu", ln));
			expect_immediate(L, o, ri, base + fmt(" record of inadmissible length %zu", ln));
			stats.eval(key(fmt("n%zu", ln)));
		}
		break;
	}
	}
}

static LabKey decode_lab(Tape &t)
{
	LabKey k;
	const wt::SuiteInfo *si = &wt::SUITES[t.u8() % wt::NSUITES];
	k.suite = si->id;
	unsigned v = t.u8();
	k.version = si->tls12_only ? 0x0303 : 0x0301 + v % 3;
	unsigned b = t.u8();
	k.esp = b & 1;
	k.victim = (b >> 1) & 1;
	k.layout = (b >> 2) % 3;
	k.variant = 0;
	return k;
}

void target_run(Tape &t)
{
	LabKey k = decode_lab(t);
	unsigned fclass = t.u8() % F_NCLASS;
	size_t ri = t.u8();
	unsigned chunk_mode = t.u8();
	unsigned sub = t.u8();
	// bound the cache here, where no pointer into it is alive (a case builds at most two labs)
	if (lab_cache.size() > 48) lab_cache.clear();
	Lab *L = build_lab(k);
	run_fault(L, fclass, ri, chunk_mode, sub);
	stats.cls(std::string("fault:") + FNAME[fclass]);
	stats.cls(std::string("mode:") + (wt::is_cbc(L->si->cipher) ? (k.version >= 0x0302 ? "cbc-explicit-iv" : "cbc-tls10") : wt::is_gcm(L->si->cipher) ? "gcm" : wt::is_ccm(L->si->cipher) ? "ccm" : "chapol"));
	stats.cls(k.victim ? "victim:server" : "victim:client");
	if (stats.want_sample()) stats.sample(fmt("%s | %s on record #%zu of %zu (types:", L->desc.c_str(), FNAME[fclass], ri % L->stream.size(), L->stream.size()) +
		[&]() { std::string s; for (auto &r : L->stream) s += fmt(" %u/%zu", r.type, r.payload.size()); return s; }() + ")");
}

// Enumerator: for representative (mode, version) pairs (quick) or all 113
// (suite, version) pairs (thorough): every fault class at every record index.
void target_enum(int shard, int nshards)
{
	bool thorough = tier_thorough();
	static const uint16_t rep[] = { 0x002F, 0x003C, 0xC028, 0x000A, 0x009C, 0xC0A0, 0xCCA8, 0xC02C, 0xC00A, 0xC09D };
	uint64_t n = 0;
	for (size_t s = 0; s < wt::NSUITES; s++)
	for (unsigned v = 0; v < 3; v++) {
		const wt::SuiteInfo *si = &wt::SUITES[s];
		if (si->tls12_only && v != 2) continue;
		bool isrep = false;
		for (uint16_t r : rep) if (r == si->id) isrep = true;
		if (!thorough && !isrep) continue;
		for (unsigned vic = 0; vic < 2; vic++)
		for (unsigned fc = 0; fc < F_NCLASS; fc++)
		for (unsigned ri = 0; ri < 20; ri++) {
			if (!thorough && vic != (s + v) % 2 && fc == F_BITS) continue;   // quick: all bits for one victim role per mode
			if ((n++ % (uint64_t)nshards) != (uint64_t)shard) continue;
			std::vector<uint8_t> tp = { (uint8_t)s, (uint8_t)v, (uint8_t)(((s + ri) & 1) | (vic << 1) | (((s + v + fc) % 3) << 2)),
				(uint8_t)fc, (uint8_t)ri, (uint8_t)(ri + fc), (uint8_t)(ri * 5 + v) };
			enum_tape(tp);
		}
	}
}
