// C20, fourth build: the getentropy() system seeder alone (no RDRAND, no /dev/urandom fallback), with
// getentropy() routed to the harness.  The tape says whether the call succeeds (and with which bytes) or
// fails (ENOSYS, a seccomp filter, EIO ...).
//
// Oracle: the seeder returns 1 exactly when getentropy() succeeded and then has fed those 32 bytes to the
// generator; when it fails and nothing was injected, a reset is refused with BR_ERR_NO_RANDOM and emits
// nothing; injected entropy alone suffices.
#include "common/tls_session.hpp"
#include <cerrno>
using namespace vf;
using namespace tls;
const char *target_name = "c20_getentropy";
const int target_tape_min = 0, target_tape_max = 8;

static bool g_ok;
static uint8_t g_fill;
static unsigned g_calls;
extern "C" int vf_getentropy(void *buf, size_t len)
{
	g_calls++;
	if (!g_ok) { errno = ENOSYS; return -1; }
	for (size_t i = 0; i < len; i++) ((uint8_t *)buf)[i] = (uint8_t)(g_fill + i * 3);
	return 0;
}

struct SpyPrng { const br_prng_class *vt; Bytes fed; unsigned updates = 0; };
static void spy_init(const br_prng_class **, const void *, const void *, size_t) {}
static void spy_generate(const br_prng_class **, void *out, size_t len) { memset(out, 0, len); }
static void spy_update(const br_prng_class **ctx, const void *seed, size_t len) { SpyPrng *s = (SpyPrng *)ctx; s->updates++; s->fed.insert(s->fed.end(), (const uint8_t *)seed, (const uint8_t *)seed + len); }
static const br_prng_class SPY_PRNG = { sizeof(SpyPrng), spy_init, spy_generate, spy_update };

void target_run(Tape &t)
{
	g_ok = t.u8() % 2 == 0;
	g_fill = t.u8();
	g_calls = 0;
	const char *name = nullptr;
	br_prng_seeder sys = br_prng_seeder_system(&name);
	VF_CHECK(sys != nullptr && name && strcmp(name, "getentropy") == 0, "harness: this build's system seeder is '%s'", name ? name : "(none)");
	SpyPrng sp;
	sp.vt = &SPY_PRNG;
	int r = sys(&sp.vt);
	std::string desc = fmt("getentropy() %s", g_ok ? "succeeds" : "fails");
	VF_CHECK((r != 0) == g_ok, "%s: the system seeder returned %d", desc.c_str(), r);
	if (g_ok) {
		VF_CHECK(sp.fed.size() == 32, "%s: %zu bytes fed to the generator", desc.c_str(), sp.fed.size());
		for (size_t i = 0; i < 32; i++) VF_CHECK(sp.fed[i] == (uint8_t)(g_fill + i * 3), "%s: the bytes fed to the generator are not the ones obtained", desc.c_str());
	} else VF_CHECK(sp.updates == 0, "%s: %u updates of the generator (%zu bytes) although no entropy was obtained", desc.c_str(), sp.updates, sp.fed.size());
	for (int role = 0; role < 2; role++) for (int inject = 0; inject < 2; inject++) {
		Profile p;
		p.suites = { 0x002F };
		if (inject) p.entropy = Bytes(32, 0x5A); else p.entropy.clear();
		std::unique_ptr<BearClient> c;
		std::unique_ptr<BearServer> s;
		BearEndpoint *e;
		bool ok;
		if (role == 0) { c.reset(new BearClient(p)); e = c.get(); ok = c->reset(); } else { s.reset(new BearServer(p)); e = s.get(); ok = s->reset(); }
		const uint8_t *q;
		if (g_ok || inject) VF_CHECK(ok && e->error() == 0, "%s: %s reset %s injected entropy failed (error %d) although randomness was available", desc.c_str(), role ? "server" : "client", inject ? "with" : "without", e->error());
		else VF_CHECK(!ok && e->error() == BR_ERR_NO_RANDOM && e->wire_out_peek(&q) == 0 && e->state() == BR_SSL_CLOSED, "%s: %s reset without any entropy: returned %d, error %d, state %#x (want 0, BR_ERR_NO_RANDOM, closed, nothing emitted)", desc.c_str(),
			role ? "server" : "client", (int)ok, e->error(), e->state());
	}
	stats.cls(g_ok ? "getentropy:ok" : "getentropy:fails");
	stats.eval(fmt("ge/%d/%u", (int)g_ok, g_fill % 4));
	if (stats.want_sample()) stats.sample(desc + fmt(" => seeder %d, %u calls", r, g_calls));
}
