// C10 — RSA operations are correct, interoperable and strict, in every
// implementation (i15, i31, i32, i62, default).
//
// Oracles: GMP (raw operations, forging of arbitrary encoded blocks through
// the private exponent), OpenSSL EVP (PKCS#1 v1.5 / PSS signatures, OAEP and
// PKCS#1 v1.5 encryption both ways), primality and consistency checks with
// GMP for generated keys.  Keys: a committed pool (512..4096 bits incl.
// 1016/1017/1025/1031/2056, e in {3, 17, 65537}) with both factor orders and
// generated leading zero bytes on every field.
#include <map>
#include "common/vf.hpp"
#include "../fixtures/rsa_pool.h"
#include <gmp.h>
#include <memory>
#include <openssl/evp.h>
#include <openssl/err.h>
#include <openssl/rsa.h>
#include <openssl/bn.h>
#include <openssl/core_names.h>
#include <openssl/param_build.h>
extern "C" {
#include "bearssl.h"
uint32_t br_rsa_ssl_decrypt(br_rsa_private core, const br_rsa_private_key *sk, unsigned char *data, size_t len);
}

using namespace vf;
typedef std::vector<uint8_t> Bytes;

const char *target_name = "c10_rsa";
const int target_tape_min = 0, target_tape_max = 64;

struct Z {
	mpz_t v;
	Z() { mpz_init(v); } Z(const Z &o) { mpz_init_set(v, o.v); } Z &operator=(const Z &o) { mpz_set(v, o.v); return *this; } ~Z() { mpz_clear(v); }
	explicit Z(const char *hexs) { mpz_init_set_str(v, hexs, 16); }
	explicit Z(unsigned long x) { mpz_init_set_ui(v, x); }
};
static Bytes zbytes(const Z &z, size_t len)
{
	Bytes b(len, 0), tmp((mpz_sizeinbase(z.v, 2) + 7) / 8 + 1);
	size_t cnt = 0;
	mpz_export(tmp.data(), &cnt, 1, 1, 1, 0, z.v);
	for (size_t i = 0; i < cnt && i < len; i++) b[len - 1 - i] = tmp[cnt - 1 - i];
	return b;
}
static Bytes zmin(const Z &z) { return zbytes(z, (mpz_sizeinbase(z.v, 2) + 7) / 8); }
static Z zfrom(const uint8_t *p, size_t n) { Z z; mpz_import(z.v, n, 1, 1, 1, 0, p); return z; }

struct Impl {
	const char *name;
	br_rsa_public pub; br_rsa_private priv; br_rsa_pkcs1_vrfy vrfy; br_rsa_pkcs1_sign sign;
	br_rsa_pss_vrfy pss_vrfy; br_rsa_pss_sign pss_sign; br_rsa_oaep_encrypt oaep_enc; br_rsa_oaep_decrypt oaep_dec;
	br_rsa_keygen keygen; br_rsa_compute_modulus cmod; br_rsa_compute_pubexp cpub; br_rsa_compute_privexp cpriv;
};
static std::vector<Impl> impls;

struct Key {
	unsigned bits; Z n, e, d, p, q, dp, dq, iq;
	size_t nlen;
	EVP_PKEY *pkey = nullptr;
	// storage for the BearSSL structures (with generated leading zeros)
	Bytes bn, be, bp, bq, bdp, bdq, biq;
	br_rsa_public_key pk;
	br_rsa_private_key sk;
};
static std::vector<std::unique_ptr<Key>> pool;   // two per pool entry: p>q and p<q

static Bytes padded(const Z &z, unsigned zeros) { Bytes b = zmin(z); b.insert(b.begin(), zeros, 0); return b; }

static void set_encoding(Key &k, Tape *t)
{
	auto zc = [&]() -> unsigned { return t ? (t->u8() % 4 == 0 ? t->u8() % 5 : 0) : 0; };
	k.bn = padded(k.n, zc()); k.be = padded(k.e, zc()); k.bp = padded(k.p, zc()); k.bq = padded(k.q, zc());
	k.bdp = padded(k.dp, zc()); k.bdq = padded(k.dq, zc()); k.biq = padded(k.iq, zc());
	k.pk.n = k.bn.data(); k.pk.nlen = k.bn.size(); k.pk.e = k.be.data(); k.pk.elen = k.be.size();
	k.sk.n_bitlen = k.bits;
	k.sk.p = k.bp.data(); k.sk.plen = k.bp.size(); k.sk.q = k.bq.data(); k.sk.qlen = k.bq.size();
	k.sk.dp = k.bdp.data(); k.sk.dplen = k.bdp.size(); k.sk.dq = k.bdq.data(); k.sk.dqlen = k.bdq.size(); k.sk.iq = k.biq.data(); k.sk.iqlen = k.biq.size();
}

static EVP_PKEY *make_pkey(const Key &k)
{
	auto bn = [](const Z &z) { Bytes b = zmin(z); return BN_bin2bn(b.data(), (int)b.size(), nullptr); };
	OSSL_PARAM_BLD *bld = OSSL_PARAM_BLD_new();
	BIGNUM *n = bn(k.n), *e = bn(k.e), *d = bn(k.d), *p = bn(k.p), *q = bn(k.q), *dp = bn(k.dp), *dq = bn(k.dq), *iq = bn(k.iq);
	OSSL_PARAM_BLD_push_BN(bld, OSSL_PKEY_PARAM_RSA_N, n); OSSL_PARAM_BLD_push_BN(bld, OSSL_PKEY_PARAM_RSA_E, e); OSSL_PARAM_BLD_push_BN(bld, OSSL_PKEY_PARAM_RSA_D, d);
	OSSL_PARAM_BLD_push_BN(bld, OSSL_PKEY_PARAM_RSA_FACTOR1, p); OSSL_PARAM_BLD_push_BN(bld, OSSL_PKEY_PARAM_RSA_FACTOR2, q);
	OSSL_PARAM_BLD_push_BN(bld, OSSL_PKEY_PARAM_RSA_EXPONENT1, dp); OSSL_PARAM_BLD_push_BN(bld, OSSL_PKEY_PARAM_RSA_EXPONENT2, dq); OSSL_PARAM_BLD_push_BN(bld, OSSL_PKEY_PARAM_RSA_COEFFICIENT1, iq);
	OSSL_PARAM *params = OSSL_PARAM_BLD_to_param(bld);
	EVP_PKEY_CTX *c = EVP_PKEY_CTX_new_from_name(nullptr, "RSA", nullptr);
	EVP_PKEY *pk = nullptr;
	if (EVP_PKEY_fromdata_init(c) <= 0 || EVP_PKEY_fromdata(c, &pk, EVP_PKEY_KEYPAIR, params) <= 0) pk = nullptr;
	EVP_PKEY_CTX_free(c); OSSL_PARAM_free(params); OSSL_PARAM_BLD_free(bld);
	BN_free(n); BN_free(e); BN_free(d); BN_free(p); BN_free(q); BN_free(dp); BN_free(dq); BN_free(iq);
	return pk;
}

static std::unique_ptr<Key> make_key(const Z &p, const Z &q, unsigned long e, bool want_pkey = true)
{
	std::unique_ptr<Key> k(new Key);
	k->p = p; k->q = q;
	mpz_mul(k->n.v, p.v, q.v);
	k->bits = (unsigned)mpz_sizeinbase(k->n.v, 2);
	k->nlen = (k->bits + 7) / 8;
	mpz_set_ui(k->e.v, e);
	Z p1, q1, lam;
	mpz_sub_ui(p1.v, p.v, 1); mpz_sub_ui(q1.v, q.v, 1);
	mpz_lcm(lam.v, p1.v, q1.v);
	if (!mpz_invert(k->d.v, k->e.v, lam.v)) return nullptr;
	mpz_mod(k->dp.v, k->d.v, p1.v); mpz_mod(k->dq.v, k->d.v, q1.v);
	mpz_invert(k->iq.v, q.v, p.v);
	set_encoding(*k, nullptr);
	if (want_pkey) { k->pkey = make_pkey(*k); if (!k->pkey) failf("harness: OpenSSL refused pool key of %u bits", k->bits); }
	return k;
}

void target_init()
{
	impls.push_back({ "i15", br_rsa_i15_public, br_rsa_i15_private, br_rsa_i15_pkcs1_vrfy, br_rsa_i15_pkcs1_sign, br_rsa_i15_pss_vrfy, br_rsa_i15_pss_sign, br_rsa_i15_oaep_encrypt, br_rsa_i15_oaep_decrypt,
		br_rsa_i15_keygen, br_rsa_i15_compute_modulus, br_rsa_i15_compute_pubexp, br_rsa_i15_compute_privexp });
	impls.push_back({ "i31", br_rsa_i31_public, br_rsa_i31_private, br_rsa_i31_pkcs1_vrfy, br_rsa_i31_pkcs1_sign, br_rsa_i31_pss_vrfy, br_rsa_i31_pss_sign, br_rsa_i31_oaep_encrypt, br_rsa_i31_oaep_decrypt,
		br_rsa_i31_keygen, br_rsa_i31_compute_modulus, br_rsa_i31_compute_pubexp, br_rsa_i31_compute_privexp });
	impls.push_back({ "i32", br_rsa_i32_public, br_rsa_i32_private, br_rsa_i32_pkcs1_vrfy, br_rsa_i32_pkcs1_sign, br_rsa_i32_pss_vrfy, br_rsa_i32_pss_sign, br_rsa_i32_oaep_encrypt, br_rsa_i32_oaep_decrypt,
		nullptr, nullptr, nullptr, nullptr });
	if (br_rsa_i62_public_get())
		impls.push_back({ "i62", br_rsa_i62_public_get(), br_rsa_i62_private_get(), br_rsa_i62_pkcs1_vrfy_get(), br_rsa_i62_pkcs1_sign_get(), br_rsa_i62_pss_vrfy_get(), br_rsa_i62_pss_sign_get(),
			br_rsa_i62_oaep_encrypt_get(), br_rsa_i62_oaep_decrypt_get(), br_rsa_i62_keygen_get(), nullptr, nullptr, nullptr });
	impls.push_back({ "default", br_rsa_public_get_default(), br_rsa_private_get_default(), br_rsa_pkcs1_vrfy_get_default(), br_rsa_pkcs1_sign_get_default(), br_rsa_pss_vrfy_get_default(), br_rsa_pss_sign_get_default(),
		br_rsa_oaep_encrypt_get_default(), br_rsa_oaep_decrypt_get_default(), br_rsa_keygen_get_default(), br_rsa_compute_modulus_get_default(), br_rsa_compute_pubexp_get_default(), br_rsa_compute_privexp_get_default() });
	for (unsigned i = 0; i < RSA_POOL_N; i++) {
		Z p(RSA_POOL[i].p), q(RSA_POOL[i].q);
		pool.push_back(make_key(p, q, RSA_POOL[i].e));
		pool.push_back(make_key(q, p, RSA_POOL[i].e));   // p < q
	}
	std::string s;
	for (auto &im : impls) s += std::string(im.name) + " ";
	stats.notes["implementations"] = s;
}

struct HashDef { const char *name; const br_hash_class *cls; const EVP_MD *(*md)(void); const unsigned char *oid; size_t len; };
static const HashDef HASHES[] = {
	{ "sha1", &br_sha1_vtable, EVP_sha1, BR_HASH_OID_SHA1, 20 }, { "sha224", &br_sha224_vtable, EVP_sha224, BR_HASH_OID_SHA224, 28 },
	{ "sha256", &br_sha256_vtable, EVP_sha256, BR_HASH_OID_SHA256, 32 }, { "sha384", &br_sha384_vtable, EVP_sha384, BR_HASH_OID_SHA384, 48 },
	{ "sha512", &br_sha512_vtable, EVP_sha512, BR_HASH_OID_SHA512, 64 }, { "md5sha1", nullptr, EVP_md5_sha1, nullptr, 36 },
};

static Key &pick_key(Tape &t, bool small_ok = true)
{
	unsigned sel = t.u8();
	// large keys are slow: weight them down
	std::vector<size_t> idx;
	for (size_t i = 0; i < pool.size(); i++) {
		unsigned b = pool[i]->bits;
		if (b >= 3000 && sel % 16 != 0) continue;
		if (b >= 2000 && b < 3000 && sel % 4 != 0 && sel % 16 != 0) continue;
		idx.push_back(i);
	}
	(void)small_ok;
	Key &k = *pool[idx[t.u8() % idx.size()]];
	set_encoding(k, &t);
	return k;
}

// x^d mod n with GMP: lets the harness forge any encoded block
static Bytes gmp_private(const Key &k, const Bytes &em)
{
	Z x = zfrom(em.data(), em.size()), y;
	mpz_powm(y.v, x.v, k.d.v, k.n.v);
	return zbytes(y, k.nlen);
}
static Bytes gmp_public(const Key &k, const Bytes &sig)
{
	Z x = zfrom(sig.data(), sig.size()), y;
	mpz_powm(y.v, x.v, k.e.v, k.n.v);
	return zbytes(y, k.nlen);
}

static Bytes digest_info(const HashDef &h, const Bytes &hash, bool with_null)
{
	Bytes di;
	if (!h.oid) return hash;
	size_t ol = h.oid[0];
	size_t x = with_null ? 2 : 0;
	di.push_back(0x30); di.push_back((uint8_t)(ol + hash.size() + 6 + x));
	di.push_back(0x30); di.push_back((uint8_t)(ol + 2 + x));
	di.push_back(0x06); di.insert(di.end(), h.oid, h.oid + 1 + ol);
	if (with_null) { di.push_back(0x05); di.push_back(0x00); }
	di.push_back(0x04); di.push_back((uint8_t)hash.size());
	di.insert(di.end(), hash.begin(), hash.end());
	return di;
}
static Bytes emsa_pkcs1(const Key &k, const Bytes &t)
{
	Bytes em(k.nlen, 0xFF);
	em[0] = 0; em[1] = 1;
	em[k.nlen - t.size() - 1] = 0;
	memcpy(em.data() + k.nlen - t.size(), t.data(), t.size());
	return em;
}

// ---------------------------------------------------------------- K0: raw operations
static void k_raw(Tape &t)
{
	Key &k = pick_key(t);
	// the modulus recomputed from the private key (any key size, including the largest; any implementation that offers it)
	for (auto &im2 : impls) {
		if (!im2.cmod) continue;
		Bytes nb(530, 0xCC);
		size_t l0 = im2.cmod(nullptr, &k.sk), l1 = im2.cmod(nb.data(), &k.sk);
		VF_CHECK(l0 == l1 && l1 == (k.bits + 7) / 8 && nb[l1] == 0xCC && mpz_cmp(zfrom(nb.data(), l1).v, k.n.v) == 0, "rsa_%s compute_modulus on a %u-bit key: length query %zu, written %zu (want %u), value %s", im2.name, k.bits, l0, l1,
			(k.bits + 7) / 8, l1 && mpz_cmp(zfrom(nb.data(), l1).v, k.n.v) == 0 ? "ok" : "wrong");
	}
	unsigned cls = t.u8() % 8;
	Z x;
	Bytes xb = t.filled(k.nlen);
	x = zfrom(xb.data(), xb.size());
	if (cls == 0) mpz_set_ui(x.v, 0);
	if (cls == 1) mpz_set_ui(x.v, 1);
	if (cls == 2) mpz_sub_ui(x.v, k.n.v, 1);
	if (cls == 3) mpz_sub_ui(x.v, k.n.v, 2);
	if (cls == 4) mpz_set(x.v, k.p.v);
	mpz_mod(x.v, x.v, k.n.v);
	Bytes in = zbytes(x, k.nlen);
	Z wp, wv;
	mpz_powm(wp.v, x.v, k.e.v, k.n.v);
	mpz_powm(wv.v, x.v, k.d.v, k.n.v);
	Bytes want_pub = zbytes(wp, k.nlen), want_priv = zbytes(wv, k.nlen);
	for (auto &im : impls) {
		Bytes a = in;
		VF_CHECK(im.pub(a.data(), a.size(), &k.pk) == 1, "rsa_%s public refused a value below the %u-bit modulus", im.name, k.bits);
		VF_CHECK(a == want_pub, "rsa_%s public (%u bits, e=%lu): %s.., GMP says %s..", im.name, k.bits, mpz_get_ui(k.e.v), hex(a.data(), a.size(), 16).c_str(), hex(want_pub.data(), want_pub.size(), 16).c_str());
		Bytes b = in;
		VF_CHECK(im.priv(b.data(), &k.sk) == 1, "rsa_%s private refused a value below the %u-bit modulus", im.name, k.bits);
		VF_CHECK(b == want_priv, "rsa_%s private (%u bits%s): %s.., GMP says %s..", im.name, k.bits, mpz_cmp(k.p.v, k.q.v) < 0 ? ", p<q" : "", hex(b.data(), b.size(), 16).c_str(), hex(want_priv.data(), want_priv.size(), 16).c_str());
		Bytes c = b;
		im.pub(c.data(), c.size(), &k.pk);
		VF_CHECK(c == in, "rsa_%s public(private(x)) != x", im.name);
	}
	// strictness of the raw operations
	auto &im = impls[t.u8() % impls.size()];
	unsigned neg = t.u8() % 6;
	Bytes v = in;
	br_rsa_public_key pk2 = k.pk;
	Bytes nn;
	const char *what = "";
	bool expect0 = true;
	switch (neg) {
	case 0: { Z y; mpz_add(y.v, k.n.v, x.v); v = zbytes(y, k.nlen); if (mpz_sizeinbase(y.v, 2) > 8 * k.nlen) { expect0 = false; } what = "value >= modulus"; break; }
	case 1: v = zbytes(k.n, k.nlen); what = "value == modulus"; break;
	case 2: v.push_back(0); what = "length nlen+1"; break;
	case 3: v.pop_back(); what = "length nlen-1"; break;
	case 4: { nn = k.bn; nn.back() &= 0xFE; pk2.n = nn.data(); what = "even modulus"; break; }
	default: { nn = Bytes(k.bn.size(), 0); pk2.n = nn.data(); what = "zero modulus"; break; }
	}
	if (expect0) VF_CHECK(im.pub(v.data(), v.size(), &pk2) == 0, "rsa_%s public accepted: %s (%u-bit key)", im.name, what, k.bits);
	stats.cls("raw");
	stats.eval(fmt("raw/%u/%lu/%d/%u/%u", k.bits, mpz_get_ui(k.e.v), mpz_cmp(k.p.v, k.q.v) < 0, cls, neg));
}

// ---------------------------------------------------------------- K1/K2: PKCS#1 v1.5 signatures
static void k_pkcs1(Tape &t)
{
	Key &k = pick_key(t);
	const HashDef &h = HASHES[t.u8() % 6];
	Bytes hash = t.filled(h.len);
	if (h.len + (h.oid ? h.oid[0] + 10 : 0) + 11 > k.nlen) { stats.eval(); return; }
	// sign here with every implementation: byte-equal to OpenSSL's deterministic signature, verifies there
	Bytes ossl(k.nlen);
	{
		EVP_PKEY_CTX *c = EVP_PKEY_CTX_new(k.pkey, nullptr);
		size_t sl = ossl.size();
		if (EVP_PKEY_sign_init(c) <= 0 || EVP_PKEY_CTX_set_rsa_padding(c, RSA_PKCS1_PADDING) <= 0 || EVP_PKEY_CTX_set_signature_md(c, h.md()) <= 0
			|| EVP_PKEY_sign(c, ossl.data(), &sl, hash.data(), hash.size()) <= 0) failf("harness: OpenSSL sign failed");
		EVP_PKEY_CTX_free(c);
		ossl.resize(sl);
	}
	for (auto &im : impls) {
		Bytes sig(k.nlen, 0);
		VF_CHECK(im.sign(h.oid, hash.data(), hash.size(), &k.sk, sig.data()) == 1, "rsa_%s pkcs1_sign failed (%u bits, %s)", im.name, k.bits, h.name);
		VF_CHECK(sig == ossl, "rsa_%s pkcs1_sign (%u bits, %s) differs from OpenSSL's signature", im.name, k.bits, h.name);
		uint8_t out[64];
		VF_CHECK(im.vrfy(ossl.data(), ossl.size(), h.oid, h.len, &k.pk, out) == 1 && memcmp(out, hash.data(), h.len) == 0,
			"rsa_%s pkcs1_vrfy rejects / mis-extracts an OpenSSL signature (%u bits, %s)", im.name, k.bits, h.name);
	}
	// strictness: forge blocks through GMP
	auto &im = impls[t.u8() % impls.size()];
	uint8_t out[64];
	if (h.oid) {
		// the second standard DigestInfo form (without NULL parameters) is accepted too
		Bytes em2 = emsa_pkcs1(k, digest_info(h, hash, false));
		Bytes s2 = gmp_private(k, em2);
		VF_CHECK(im.vrfy(s2.data(), s2.size(), h.oid, h.len, &k.pk, out) == 1 && memcmp(out, hash.data(), h.len) == 0, "rsa_%s pkcs1_vrfy rejects the DigestInfo form without NULL parameters", im.name);
	}
	Bytes em = emsa_pkcs1(k, digest_info(h, hash, true));
	unsigned mut = t.u8() % 8;
	Bytes bad = em;
	std::string what;
	switch (mut) {
	case 0: {
		size_t pos = t.u16() % (k.nlen - h.len);
		// the few structural bytes are drawn as often as all padding bytes together
		if (t.flag()) pos = t.pick<size_t>({ 0, 1, 2, k.nlen - h.len - 1, k.nlen - h.len - 2, 10, k.nlen - digest_info(h, hash, true).size() - 1 /* the 00 separator */, k.nlen - digest_info(h, hash, true).size() - 2 });
		bad[pos] ^= (uint8_t)(1 + t.u8() % 255); what = fmt("byte %zu of the padding/DigestInfo altered", pos); break;
	}
	case 1: {   // 0xFF run of 7 (short padding): shift the T part left is impossible; build directly
		Bytes T = digest_info(h, hash, true);
		if (T.size() + 3 + 8 > k.nlen) { stats.eval(); return; }
		bad.assign(k.nlen, 0xFF);
		bad[0] = 0; bad[1] = 1;
		// 7 bytes of FF then 00 then T then garbage-free: total must be nlen -> impossible unless T longer: append zeros after T? (trailing garbage)
		bad[2 + 7] = 0;
		memcpy(bad.data() + 10, T.data(), T.size());
		for (size_t i = 10 + T.size(); i < k.nlen; i++) bad[i] = 0;
		what = "0xFF run of 7 bytes (and trailing bytes after the DigestInfo)";
		break;
	}
	case 2: bad[1] = 2; what = "block type 2"; break;
	case 3: bad[0] = 1; what = "first byte not zero"; if (mpz_cmp(zfrom(bad.data(), bad.size()).v, k.n.v) >= 0) bad[0] = 0, bad[1] = 0, what = "block type 0"; break;
	case 4: {   // BER long-form length in the outer SEQUENCE
		Bytes T = digest_info(h, hash, true);
		if (!h.oid) { bad[k.nlen - h.len - 1] = (uint8_t)(t.flag() ? 0xFF : 1 + t.u8() % 254); what = fmt("00 separator replaced by %02x", bad[k.nlen - h.len - 1]); break; }
		Bytes T2 = { 0x30, 0x81, T[1] };
		T2.insert(T2.end(), T.begin() + 2, T.end());
		if (T2.size() + 11 > k.nlen) { stats.eval(); return; }
		bad = emsa_pkcs1(k, T2);
		what = "BER long-form length";
		break;
	}
	case 5: {   // wrong OID (one bit)
		if (!h.oid) { bad[k.nlen - 1] ^= 1; what = "hash value altered"; break; }
		Bytes T = digest_info(h, hash, true);
		T[6] ^= 0x01;
		bad = emsa_pkcs1(k, T);
		what = "OID altered";
		break;
	}
	case 6: {   // hash for another length class: verifier told another hash
		what = "verification with another hash function's OID";
		break;
	}
	default: bad[k.nlen - 1] ^= 0x80; what = "hash value altered"; break;
	}
	Bytes sbad = gmp_private(k, bad);
	if (mut == 6) {
		const HashDef &h2 = HASHES[(size_t)(&h - HASHES + 1) % 5];
		Bytes s = gmp_private(k, em);
		VF_CHECK(im.vrfy(s.data(), s.size(), h2.oid, h2.len, &k.pk, out) == 0, "rsa_%s pkcs1_vrfy accepts a %s signature when asked for %s", im.name, h.name, h2.name);
	} else if (mut == 7 || (mut == 5 && !h.oid)) {
		// the signature is well formed: vrfy returns the (different) hash it contains
		uint32_t r = im.vrfy(sbad.data(), sbad.size(), h.oid, h.len, &k.pk, out);
		VF_CHECK(r == 1 && memcmp(out, hash.data(), h.len) != 0 && memcmp(out, bad.data() + k.nlen - h.len, h.len) == 0, "rsa_%s pkcs1_vrfy: altered hash value not reported faithfully", im.name);
	} else {
		VF_CHECK(im.vrfy(sbad.data(), sbad.size(), h.oid, h.len, &k.pk, out) == 0, "rsa_%s pkcs1_vrfy (%u bits, %s) accepts a non-canonical encoding: %s", im.name, k.bits, h.name, what.c_str());
	}
	stats.cls("pkcs1");
	stats.eval(fmt("p1/%u/%s/%u/%s", k.bits, h.name, mut, im.name));
	if (stats.want_sample()) stats.sample(fmt("PKCS#1 v1.5 %u bits %s: all impls == OpenSSL; rsa_%s rejects: %s", k.bits, h.name, im.name, what.c_str()));
}

// ---------------------------------------------------------------- K3: PSS
static int ossl_pss_verify(Key &k, const HashDef &h, const HashDef &hm, const Bytes &hash, size_t salt, const Bytes &sig)
{
	EVP_PKEY_CTX *c = EVP_PKEY_CTX_new(k.pkey, nullptr);
	int r = EVP_PKEY_verify_init(c) > 0 && EVP_PKEY_CTX_set_rsa_padding(c, RSA_PKCS1_PSS_PADDING) > 0 && EVP_PKEY_CTX_set_signature_md(c, h.md()) > 0
		&& EVP_PKEY_CTX_set_rsa_mgf1_md(c, hm.md()) > 0 && EVP_PKEY_CTX_set_rsa_pss_saltlen(c, (int)salt) > 0;
	if (r) r = EVP_PKEY_verify(c, sig.data(), sig.size(), hash.data(), hash.size()) == 1;
	EVP_PKEY_CTX_free(c);
	return r;
}
static void k_pss(Tape &t)
{
	Key &k = pick_key(t);
	const HashDef &h = HASHES[t.u8() % 5], &hm = t.flag() ? h : HASHES[t.u8() % 5];
	Bytes hash = t.filled(h.len);
	size_t embits = k.bits - 1, emlen = (embits + 7) / 8;
	if (emlen < h.len + 2) { stats.eval(); return; }
	size_t maxsalt = emlen - h.len - 2;
	size_t salt = t.len(maxsalt, { 0, 1, h.len, maxsalt, maxsalt - 1 });
	br_hmac_drbg_context rng;
	Bytes seed = t.filled(16);
	br_hmac_drbg_init(&rng, &br_sha256_vtable, seed.data(), seed.size());
	auto &ims = impls[t.u8() % impls.size()];
	Bytes sig(k.nlen);
	VF_CHECK(ims.pss_sign(salt ? &rng.vtable : nullptr, h.cls, hm.cls, hash.data(), salt, &k.sk, sig.data()) == 1, "rsa_%s pss_sign failed (%u bits, %s, salt %zu)", ims.name, k.bits, h.name, salt);
	VF_CHECK(ossl_pss_verify(k, h, hm, hash, salt, sig), "OpenSSL rejects the PSS signature made by rsa_%s (%u bits, %s/%s, salt %zu)", ims.name, k.bits, h.name, hm.name, salt);
	for (auto &im : impls)
		VF_CHECK(im.pss_vrfy(sig.data(), sig.size(), h.cls, hm.cls, hash.data(), salt, &k.pk) == 1, "rsa_%s pss_vrfy rejects the signature made by rsa_%s (%u bits, %s, salt %zu)", im.name, ims.name, k.bits, h.name, salt);
	// OpenSSL signs, everyone here verifies
	{
		EVP_PKEY_CTX *c = EVP_PKEY_CTX_new(k.pkey, nullptr);
		Bytes os(k.nlen);
		size_t sl = os.size();
		if (EVP_PKEY_sign_init(c) <= 0 || EVP_PKEY_CTX_set_rsa_padding(c, RSA_PKCS1_PSS_PADDING) <= 0 || EVP_PKEY_CTX_set_signature_md(c, h.md()) <= 0
			|| EVP_PKEY_CTX_set_rsa_mgf1_md(c, hm.md()) <= 0 || EVP_PKEY_CTX_set_rsa_pss_saltlen(c, (int)salt) <= 0 || EVP_PKEY_sign(c, os.data(), &sl, hash.data(), hash.size()) <= 0)
			failf("harness: OpenSSL PSS sign failed");
		EVP_PKEY_CTX_free(c);
		for (auto &im : impls)
			VF_CHECK(im.pss_vrfy(os.data(), sl, h.cls, hm.cls, hash.data(), salt, &k.pk) == 1, "rsa_%s pss_vrfy rejects an OpenSSL signature (%u bits, %s/%s, salt %zu)", im.name, k.bits, h.name, hm.name, salt);
	}
	// strictness: alter the encoded message (through GMP) or the verification parameters
	auto &im = impls[t.u8() % impls.size()];
	Bytes em = gmp_public(k, sig);      // leading zero byte(s) + EM
	unsigned mut = t.u8() % 6;
	std::string what;
	Bytes hash2 = hash;
	size_t salt2 = salt;
	Bytes em2 = em;
	switch (mut) {
	case 0: em2[k.nlen - 1] = 0xBD; what = "trailer byte not 0xBC"; break;
	case 1: { size_t pos = k.nlen - emlen + t.u16() % emlen; em2[pos] ^= (uint8_t)(1 << (t.u8() % 8)); what = fmt("EM bit flipped in byte %zu", pos); break; }
	case 2: { if (k.nlen > emlen) { em2[0] = 1; what = "extra leading byte not zero"; } else { em2[0] |= 0x80; what = "top bit of EM set"; } break; }
	case 3: hash2[t.u8() % h.len] ^= 1; what = "other message hash"; break;
	case 4: salt2 = salt ? salt - 1 : 1; what = "other salt length"; break;
	default: { unsigned unused = (unsigned)(8 * emlen - embits); if (unused) { em2[k.nlen - emlen] |= (uint8_t)(0x80 >> (unused - 1)); what = "unused top bits of EM set"; } else { em2[k.nlen - 2] ^= 1; what = "EM altered"; } break; }
	}
	Bytes s2 = sig;
	if (em2 != em) { if (mpz_cmp(zfrom(em2.data(), em2.size()).v, k.n.v) >= 0) { stats.eval(); return; } s2 = gmp_private(k, em2); }
	if (salt2 > maxsalt) salt2 = maxsalt ? maxsalt - 1 : 0;
	if (!(em2 == em && hash2 == hash && salt2 == salt)) {
		uint32_t r = im.pss_vrfy(s2.data(), s2.size(), h.cls, hm.cls, hash2.data(), salt2, &k.pk);
		int o = ossl_pss_verify(k, h, hm, hash2, salt2, s2);
		VF_CHECK(r == 0, "rsa_%s pss_vrfy (%u bits, %s, salt %zu) accepts: %s (OpenSSL says %d)", im.name, k.bits, h.name, salt, what.c_str(), o);
	}
	stats.cls("pss");
	stats.eval(fmt("pss/%u/%s/%s/%zu/%u", k.bits, h.name, hm.name, salt == 0 ? 0 : salt == maxsalt ? 2 : (size_t)1, mut));
	if (stats.want_sample()) stats.sample(fmt("PSS %u bits %s/%s salt=%zu: rsa_%s signs, OpenSSL + all verify; reject: %s", k.bits, h.name, hm.name, salt, ims.name, what.c_str()));
}

// ---------------------------------------------------------------- K4: OAEP
static void k_oaep(Tape &t)
{
	Key &k = pick_key(t);
	const HashDef &h = HASHES[t.u8() % 5];
	if (k.nlen < 2 * h.len + 2) { stats.eval(); return; }
	size_t maxm = k.nlen - 2 * h.len - 2;
	size_t ml = t.len(maxm, { 0, 1, maxm, maxm - 1, 32, 48 });
	Bytes msg = t.filled(ml), label = t.filled(t.len(40, { 0, 1, 16 }));
	br_hmac_drbg_context rng;
	Bytes seed = t.filled(16);
	br_hmac_drbg_init(&rng, &br_sha256_vtable, seed.data(), seed.size());
	auto &ime = impls[t.u8() % impls.size()];
	Bytes ct(k.nlen + 3, 0x99);
	size_t cl = ime.oaep_enc(&rng.vtable, h.cls, label.data(), label.size(), &k.pk, ct.data(), k.nlen + (t.u8() % 3), msg.data(), ml);
	VF_CHECK(cl == k.nlen, "rsa_%s oaep_encrypt returned %zu for a %zu-byte message (maximum %zu) with a %u-bit key", ime.name, cl, ml, maxm, k.bits);
	// too long a message, too small a buffer: refused
	Bytes big = t.filled(maxm + 1), tmp(k.nlen);
	VF_CHECK(ime.oaep_enc(&rng.vtable, h.cls, nullptr, 0, &k.pk, tmp.data(), tmp.size(), big.data(), big.size()) == 0, "rsa_%s oaep_encrypt accepted a message longer than the maximum", ime.name);
	VF_CHECK(ime.oaep_enc(&rng.vtable, h.cls, nullptr, 0, &k.pk, tmp.data(), k.nlen - 1, msg.data(), ml) == 0, "rsa_%s oaep_encrypt accepted a destination shorter than the modulus", ime.name);
	// OpenSSL decrypts it
	auto ossl_dec = [&](const Bytes &c, Bytes &out) {
		EVP_PKEY_CTX *x = EVP_PKEY_CTX_new(k.pkey, nullptr);
		size_t ol = k.nlen;
		out.assign(k.nlen, 0);
		int r = EVP_PKEY_decrypt_init(x) > 0 && EVP_PKEY_CTX_set_rsa_padding(x, RSA_PKCS1_OAEP_PADDING) > 0 && EVP_PKEY_CTX_set_rsa_oaep_md(x, h.md()) > 0 && EVP_PKEY_CTX_set_rsa_mgf1_md(x, h.md()) > 0;
		if (r && !label.empty()) { uint8_t *lc = (uint8_t *)OPENSSL_malloc(label.size()); memcpy(lc, label.data(), label.size()); r = EVP_PKEY_CTX_set0_rsa_oaep_label(x, lc, (int)label.size()) > 0; }
		if (r) r = EVP_PKEY_decrypt(x, out.data(), &ol, c.data(), k.nlen) > 0;
		EVP_PKEY_CTX_free(x);
		if (r) out.resize(ol);
		return r;
	};
	Bytes od;
	Bytes c1(ct.begin(), ct.begin() + k.nlen);
	VF_CHECK(ossl_dec(c1, od) && od == msg, "OpenSSL cannot decrypt the OAEP ciphertext made by rsa_%s (%u bits, %s, %zu-byte message)", ime.name, k.bits, h.name, ml);
	// OpenSSL encrypts, everyone here decrypts (and the ciphertext made here too)
	Bytes oc(k.nlen);
	{
		EVP_PKEY_CTX *x = EVP_PKEY_CTX_new(k.pkey, nullptr);
		size_t ol = oc.size();
		int r = EVP_PKEY_encrypt_init(x) > 0 && EVP_PKEY_CTX_set_rsa_padding(x, RSA_PKCS1_OAEP_PADDING) > 0 && EVP_PKEY_CTX_set_rsa_oaep_md(x, h.md()) > 0 && EVP_PKEY_CTX_set_rsa_mgf1_md(x, h.md()) > 0;
		if (r && !label.empty()) { uint8_t *lc = (uint8_t *)OPENSSL_malloc(label.size()); memcpy(lc, label.data(), label.size()); r = EVP_PKEY_CTX_set0_rsa_oaep_label(x, lc, (int)label.size()) > 0; }
		if (r) r = EVP_PKEY_encrypt(x, oc.data(), &ol, msg.data(), ml) > 0;
		EVP_PKEY_CTX_free(x);
		if (!r) failf("harness: OpenSSL OAEP encrypt failed");
	}
	for (auto &im : impls) for (const Bytes *src : { &c1, &oc }) {
		Bytes d = *src;
		size_t dl = d.size();
		VF_CHECK(im.oaep_dec(h.cls, label.data(), label.size(), &k.sk, d.data(), &dl) == 1 && dl == ml && memcmp(d.data(), msg.data(), ml) == 0,
			"rsa_%s oaep_decrypt fails on a valid ciphertext from %s (%u bits, %s, message %zu of max %zu, label %zu)", im.name, src == &oc ? "OpenSSL" : ime.name, k.bits, h.name, ml, maxm, label.size());
	}
	// strictness: altered encoded block (through GMP), wrong label, wrong length
	auto &im = impls[t.u8() % impls.size()];
	Bytes em = gmp_private(k, oc);
	unsigned mut = t.u8() % 5;
	std::string what;
	Bytes c2 = oc, lab2 = label;
	size_t dl = k.nlen;
	switch (mut) {
	case 0: { Bytes e2 = em; e2[0] = 1; if (mpz_cmp(zfrom(e2.data(), e2.size()).v, k.n.v) >= 0) { stats.eval(); return; } c2 = gmp_public(k, e2); what = "first byte of EM not zero"; break; }
	case 1: { Bytes e2 = em; size_t pos = 1 + t.u16() % (k.nlen - 1); e2[pos] ^= (uint8_t)(1 << (t.u8() % 8)); c2 = gmp_public(k, e2); what = fmt("EM byte %zu altered", pos); break; }
	case 2: lab2.push_back(7); what = "other label"; break;
	case 3: dl = k.nlen - 1; what = "ciphertext length nlen-1"; break;
	default: { Z y; mpz_add(y.v, k.n.v, zfrom(oc.data(), oc.size()).v); if (mpz_sizeinbase(y.v, 2) > 8 * k.nlen) { stats.eval(); return; } c2 = zbytes(y, k.nlen); what = "ciphertext >= modulus"; break; }
	}
	Bytes d = c2;
	size_t dl_before = dl;
	VF_CHECK(im.oaep_dec(h.cls, lab2.data(), lab2.size(), &k.sk, d.data(), &dl) == 0, "rsa_%s oaep_decrypt (%u bits, %s) accepts: %s", im.name, k.bits, h.name, what.c_str());
	// bearssl_rsa.h: "If decryption fails in any way, then *len is unmodified"
	VF_CHECK(dl == dl_before, "rsa_%s oaep_decrypt (%u bits, %s) returned 0 for '%s' but changed *len from %zu to %zu (documented: unmodified on failure)", im.name, k.bits, h.name, what.c_str(), dl_before, dl);
	stats.cls("oaep");
	stats.eval(fmt("oaep/%u/%s/%d/%zu/%u", k.bits, h.name, ml == maxm ? 2 : ml == 0 ? 0 : 1, label.size() ? (size_t)1 : (size_t)0, mut));
	if (stats.want_sample()) stats.sample(fmt("OAEP %u bits %s msg=%zu/%zu label=%zu: both directions with OpenSSL; reject: %s", k.bits, h.name, ml, maxm, label.size(), what.c_str()));
}

// ---------------------------------------------------------------- K5: TLS key exchange decryption
static void k_ssl(Tape &t)
{
	Key &k = pick_key(t);
	Bytes pms = t.filled(48);
	pms[0] = 3; pms[1] = (uint8_t)(1 + t.u8() % 3);
	Bytes ct(k.nlen);
	{
		EVP_PKEY_CTX *x = EVP_PKEY_CTX_new(k.pkey, nullptr);
		size_t ol = ct.size();
		if (EVP_PKEY_encrypt_init(x) <= 0 || EVP_PKEY_CTX_set_rsa_padding(x, RSA_PKCS1_PADDING) <= 0 || EVP_PKEY_encrypt(x, ct.data(), &ol, pms.data(), 48) <= 0) failf("harness: OpenSSL pkcs1 encrypt");
		EVP_PKEY_CTX_free(x);
	}
	for (auto &im : impls) {
		Bytes d = ct;
		uint32_t r = br_rsa_ssl_decrypt(im.priv, &k.sk, d.data(), d.size());
		VF_CHECK(r == 1 && memcmp(d.data(), pms.data(), 48) == 0, "br_rsa_ssl_decrypt over rsa_%s fails on an OpenSSL-encrypted premaster (%u bits)", im.name, k.bits);
	}
	// invalid padding: forged through GMP
	auto &im = impls[t.u8() % impls.size()];
	Bytes em = gmp_private(k, ct);
	unsigned mut = t.u8() % 5;
	Bytes e2 = em;
	std::string what;
	switch (mut) {
	case 0: e2[1] = 1; what = "block type 1"; break;
	case 1: e2[k.nlen - 49] = 1; what = "no zero separator before the 48-byte payload"; break;
	case 2: e2[2 + t.u8() % 8] = 0; what = "zero byte inside the first 8 padding bytes"; break;
	case 3: e2[0] = 1; what = "first byte not zero"; break;
	default: e2[k.nlen - 50] = 0; what = "separator one byte early (49-byte payload)"; break;
	}
	if (mpz_cmp(zfrom(e2.data(), e2.size()).v, k.n.v) < 0) {
		Bytes c2 = gmp_public(k, e2);
		VF_CHECK(br_rsa_ssl_decrypt(im.priv, &k.sk, c2.data(), c2.size()) == 0, "br_rsa_ssl_decrypt over rsa_%s accepts: %s", im.name, what.c_str());
	}
	Bytes shortc(ct.begin() + 1, ct.end());
	VF_CHECK(br_rsa_ssl_decrypt(im.priv, &k.sk, shortc.data(), shortc.size()) == 0, "br_rsa_ssl_decrypt accepts a ciphertext shorter than the modulus");
	stats.cls("tls-kx");
	stats.eval(fmt("kx/%u/%u/%s", k.bits, mut, im.name));
}

// ---------------------------------------------------------------- K6: key generation and recomputation
static void k_keygen(Tape &t)
{
	std::vector<Impl *> gens;
	for (auto &im : impls) if (im.keygen) gens.push_back(&im);
	Impl &g = *gens[t.u8() % gens.size()];
	bool thorough = tier_thorough();
	unsigned ssel = t.u8();
	unsigned size = ssel % 8 == 0 ? 512 : ssel % 8 == 1 ? 513 : ssel % 8 == 2 ? 520 + t.u8() % 16 : ssel % 8 == 3 ? 768 : ssel % 8 == 4 ? t.pick<unsigned>({ 527, 558, 557, 620, 619, 682, 681, 744, 540, 539, 570, 600 }) /* factor lengths at multiples of 31 / 15 bits: 62k, 62k-1, 30k */ : ssel % 8 == 5 ? (thorough ? 1024 : 600) : ssel % 8 == 6 ? 511 : 640 + t.u8();
	if (thorough && ssel == 7) size = 2048;
	uint32_t e = t.pick<uint32_t>({ 0, 3, 17, 65537, 0x80000001u, 5, 2, 1 });
	Bytes seed = t.filled(20);
	br_hmac_drbg_context rng;
	br_hmac_drbg_init(&rng, &br_sha256_vtable, seed.data(), seed.size());
	Bytes kp(BR_RSA_KBUF_PRIV_SIZE(4096)), ku(BR_RSA_KBUF_PUB_SIZE(4096));
	br_rsa_private_key sk;
	br_rsa_public_key pk;
	uint32_t r = g.keygen(&rng.vtable, &sk, kp.data(), &pk, ku.data(), size, e);
	bool valid = size >= 512 && size <= 4096 && (e == 0 || (e > 1 && (e & 1)));
	VF_CHECK((r == 1) == valid, "rsa_%s keygen(size=%u, e=%u) returned %u", g.name, size, e, r);
	if (!r) { stats.cls("keygen:refused"); stats.eval(fmt("kg0/%u/%u", size, e)); return; }
	uint32_t ee = e ? e : 3;
	Z p = zfrom(sk.p, sk.plen), q = zfrom(sk.q, sk.qlen), dp = zfrom(sk.dp, sk.dplen), dq = zfrom(sk.dq, sk.dqlen), iq = zfrom(sk.iq, sk.iqlen), n = zfrom(pk.n, pk.nlen), ez = zfrom(pk.e, pk.elen);
	VF_CHECK(mpz_probab_prime_p(p.v, 30) && mpz_probab_prime_p(q.v, 30), "rsa_%s keygen(%u): a factor is not prime", g.name, size);
	Z pq;
	mpz_mul(pq.v, p.v, q.v);
	VF_CHECK(mpz_cmp(pq.v, n.v) == 0, "rsa_%s keygen(%u): n != p*q", g.name, size);
	VF_CHECK(mpz_sizeinbase(n.v, 2) == size && sk.n_bitlen == size, "rsa_%s keygen(%u): modulus has %zu bits, n_bitlen=%u", g.name, size, mpz_sizeinbase(n.v, 2), sk.n_bitlen);
	VF_CHECK(mpz_cmp_ui(ez.v, ee) == 0, "rsa_%s keygen: public exponent %lu, asked %u", g.name, mpz_get_ui(ez.v), ee);
	Z p1, q1, t1;
	mpz_sub_ui(p1.v, p.v, 1); mpz_sub_ui(q1.v, q.v, 1);
	mpz_mul_ui(t1.v, dp.v, ee); mpz_mod(t1.v, t1.v, p1.v);
	VF_CHECK(mpz_cmp_ui(t1.v, 1) == 0, "rsa_%s keygen(%u): dp is not 1/e mod p-1", g.name, size);
	mpz_mul_ui(t1.v, dq.v, ee); mpz_mod(t1.v, t1.v, q1.v);
	VF_CHECK(mpz_cmp_ui(t1.v, 1) == 0, "rsa_%s keygen(%u): dq is not 1/e mod q-1", g.name, size);
	mpz_mul(t1.v, iq.v, q.v); mpz_mod(t1.v, t1.v, p.v);
	VF_CHECK(mpz_cmp_ui(t1.v, 1) == 0, "rsa_%s keygen(%u): iq is not 1/q mod p", g.name, size);
	VF_CHECK(sk.p[0] != 0 && sk.q[0] != 0 && pk.n[0] != 0, "rsa_%s keygen: leading zero bytes in generated fields", g.name);
	// recomputation of n, e, d with every implementation that offers it
	Z lam, d;
	mpz_lcm(lam.v, p1.v, q1.v);
	mpz_set_ui(t1.v, ee);
	mpz_invert(d.v, t1.v, lam.v);
	for (auto &im : impls) {
		if (!im.cmod) continue;
		Bytes nb(520, 0xCC);
		size_t l0 = im.cmod(nullptr, &sk), l1 = im.cmod(nb.data(), &sk);
		VF_CHECK(l0 == l1 && l1 == (size + 7) / 8 && nb[l1] == 0xCC && mpz_cmp(zfrom(nb.data(), l1).v, n.v) == 0, "rsa_%s compute_modulus: length query %zu, written %zu, value %s", im.name, l0, l1,
			mpz_cmp(zfrom(nb.data(), l1).v, n.v) == 0 ? "ok" : "wrong");
		uint32_t pe = im.cpub(&sk);
		VF_CHECK(pe == ee, "rsa_%s compute_pubexp returned %u for a generated key with e=%u", im.name, pe, ee);
		Bytes db(520, 0xCC);
		size_t d0 = im.cpriv(nullptr, &sk, ee), d1 = im.cpriv(db.data(), &sk, ee);
		VF_CHECK(d0 == d1 && d1 > 0 && db[d1] == 0xCC, "rsa_%s compute_privexp: length query %zu, written %zu", im.name, d0, d1);
		Z dd = zfrom(db.data(), d1), chk;
		// the documented result is d = 1/e mod lcm(p-1, q-1); accept any d that inverts e modulo both p-1 and q-1 and has that size
		mpz_mul_ui(chk.v, dd.v, ee); mpz_mod(chk.v, chk.v, lam.v);
		VF_CHECK(mpz_cmp_ui(chk.v, 1) == 0, "rsa_%s compute_privexp: d*e != 1 mod lcm(p-1,q-1)", im.name);
	}
	stats.cls(std::string("keygen:") + g.name);
	stats.eval(fmt("kg/%s/%u/%u", g.name, size, e));
	if (stats.want_sample()) stats.sample(fmt("keygen rsa_%s size=%u e=%u: primes, n, dp, dq, iq, compute_modulus/pubexp/privexp consistent", g.name, size, ee));
}

// ---------------------------------------------------------------- K1b: PKCS#1 v1.5 with a modulus around the smallest size that holds the block
// A signature block is 00 01 FF{>=8} 00 DigestInfo: with SHA-384 / SHA-512 that needs 78 / 94 bytes, more than the
// library's 512-bit minimum, so a key can be too short for the hash.  Keys of every byte length around that limit
// (and every bit length inside the byte) are made here with GMP from the tape: signing must succeed exactly when the
// block fits, give OpenSSL's bytes when it does, and no verifier may accept a block with fewer than eight FF bytes.
static std::map<unsigned, std::unique_ptr<Key>> small_keys;
static Key *small_key(unsigned bits, unsigned variant, unsigned skew = 0)
{
	unsigned id = (bits * 8 + variant) * 64 + skew;
	auto it = small_keys.find(id);
	if (it != small_keys.end()) return it->second.get();
	gmp_randstate_t rs;
	gmp_randinit_mt(rs);
	gmp_randseed_ui(rs, 0x5EED0000u + id);
	std::unique_ptr<Key> k;
	for (int tries = 0; tries < 2000 && !k; tries++) {
		unsigned pb = (bits + 1) / 2 + skew, qb = bits - pb;   // skew: factors of unequal length
		Z p, q;
		mpz_urandomb(p.v, rs, pb); mpz_setbit(p.v, pb - 1); mpz_setbit(p.v, pb - 2); mpz_nextprime(p.v, p.v);
		mpz_urandomb(q.v, rs, qb); mpz_setbit(q.v, qb - 1); if (tries % 2 == 0) mpz_setbit(q.v, qb - 2); mpz_nextprime(q.v, q.v);
		if (mpz_sizeinbase(p.v, 2) != pb || mpz_sizeinbase(q.v, 2) != qb || mpz_cmp(p.v, q.v) == 0) continue;
		Z n; mpz_mul(n.v, p.v, q.v);
		if (mpz_sizeinbase(n.v, 2) != bits) continue;
		if (variant & 1) std::swap(p, q);
		k = make_key(p, q, 65537);
	}
	gmp_randclear(rs);
	if (!k) failf("harness: no %u-bit key found", bits);
	Key *r = k.get();
	small_keys[id] = std::move(k);
	return r;
}

static void k_pkcs1_boundary(Tape &t)
{
	const HashDef &h = HASHES[3 + t.u8() % 2];          // SHA-384, SHA-512
	Bytes hash = t.filled(h.len);
	Bytes di = digest_info(h, hash, true);
	size_t need = di.size() + 11;
	int delta = (int)(t.u8() % 13) - 10;                // -10 .. +2 bytes around the limit
	size_t nlen = (size_t)((int)need + delta);
	if (nlen < 64) nlen = 64;
	unsigned bits = (unsigned)(8 * nlen) - t.u8() % 8;
	if (bits < 512) bits = 512;
	Key &k = *small_key(bits, t.u8() % 2);
	set_encoding(k, &t);
	bool fits = k.nlen >= need;
	Bytes ossl(k.nlen);
	bool ossl_ok;
	{
		EVP_PKEY_CTX *c = EVP_PKEY_CTX_new(k.pkey, nullptr);
		size_t sl = ossl.size();
		ossl_ok = EVP_PKEY_sign_init(c) > 0 && EVP_PKEY_CTX_set_rsa_padding(c, RSA_PKCS1_PADDING) > 0 && EVP_PKEY_CTX_set_signature_md(c, h.md()) > 0
			&& EVP_PKEY_sign(c, ossl.data(), &sl, hash.data(), hash.size()) > 0;
		EVP_PKEY_CTX_free(c);
		ERR_clear_error();
		if (ossl_ok) ossl.resize(sl);
	}
	VF_CHECK(ossl_ok == fits, "harness: OpenSSL %s a %s signature with a %u-bit key (block needs %zu bytes, modulus has %zu)", ossl_ok ? "made" : "refused", h.name, k.bits, need, k.nlen);
	for (auto &im : impls) {
		Bytes sig(k.nlen + 8, 0xA5);
		uint32_t r = im.sign(h.oid, hash.data(), hash.size(), &k.sk, sig.data());
		VF_CHECK(sig[k.nlen] == 0xA5, "rsa_%s pkcs1_sign wrote past the %zu-byte signature", im.name, k.nlen);
		sig.resize(k.nlen);
		if (fits) {
			VF_CHECK(r == 1, "rsa_%s pkcs1_sign refused %s with a %u-bit key although the block (%zu bytes) fits the %zu-byte modulus", im.name, h.name, k.bits, need, k.nlen);
			VF_CHECK(sig == ossl, "rsa_%s pkcs1_sign (%u bits, %s, %zu FF bytes) differs from OpenSSL's signature", im.name, k.bits, h.name, k.nlen - di.size() - 3);
			uint8_t out[64];
			VF_CHECK(im.vrfy(sig.data(), sig.size(), h.oid, h.len, &k.pk, out) == 1 && memcmp(out, hash.data(), h.len) == 0, "rsa_%s pkcs1_vrfy rejects the signature (%u bits, %s)", im.name, k.bits, h.name);
		} else {
			VF_CHECK(r == 0, "rsa_%s pkcs1_sign returned 1 for %s with a %u-bit key: the %zu-byte modulus cannot hold 00 01, eight FF bytes, 00 and the %zu-byte DigestInfo "
				"(the value it produced is rejected by every PKCS#1 verifier)", im.name, h.name, k.bits, k.nlen, di.size());
		}
	}
	// a block with fewer than eight FF bytes, made with the private key by GMP, is refused by every verifier
	if (!fits && k.nlen >= di.size() + 3) {
		Bytes em = emsa_pkcs1(k, di);
		if (mpz_cmp(zfrom(em.data(), em.size()).v, k.n.v) < 0) {
			Bytes forged = gmp_private(k, em);
			for (auto &im : impls) {
				uint8_t out[64];
				VF_CHECK(im.vrfy(forged.data(), forged.size(), h.oid, h.len, &k.pk, out) == 0, "rsa_%s pkcs1_vrfy accepts a block with only %zu FF bytes (%u-bit key, %s)", im.name, k.nlen - di.size() - 3, k.bits, h.name);
			}
			stats.cls("pkcs1:short-ff-run-refused");
		}
	}
	stats.cls(fits ? "pkcs1:modulus-just-large-enough" : "pkcs1:modulus-too-short-for-hash");
	stats.eval(fmt("p1b/%s/%u/%d", h.name, k.bits, (int)fits));
	if (stats.want_sample()) stats.sample(fmt("pkcs1 boundary: %s, %u-bit key (%zu bytes, block needs %zu): sign %s by all implementations", h.name, k.bits, k.nlen, need, fits ? "== OpenSSL" : "refused"));
}

// K0b: raw private / public operations with factors of unequal length (p longer than q and the reverse, by 1..40
// bits, so that the two need a different number of 15- / 31- / 62-bit words), against GMP
static void k_raw_unbalanced(Tape &t)
{
	unsigned bits = 512 + 8 * (t.u8() % 56) + t.u8() % 8;          // 512 .. 967
	unsigned skew = 1 + t.u8() % 40;
	Key &k = *small_key(bits, t.u8() % 2, skew);
	set_encoding(k, &t);
	Bytes xb = t.filled(k.nlen);
	Z x = zfrom(xb.data(), xb.size());
	mpz_mod(x.v, x.v, k.n.v);
	Bytes in = zbytes(x, k.nlen);
	Z wp, wv;
	mpz_powm(wp.v, x.v, k.e.v, k.n.v);
	mpz_powm(wv.v, x.v, k.d.v, k.n.v);
	Bytes want_pub = zbytes(wp, k.nlen), want_priv = zbytes(wv, k.nlen);
	size_t pl = (mpz_sizeinbase(k.p.v, 2)), ql = (mpz_sizeinbase(k.q.v, 2));
	for (auto &im : impls) {
		Bytes a = in;
		VF_CHECK(im.pub(a.data(), a.size(), &k.pk) == 1 && a == want_pub, "rsa_%s public (%u bits, factors of %zu and %zu bits) differs from GMP", im.name, k.bits, pl, ql);
		Bytes b = in;
		VF_CHECK(im.priv(b.data(), &k.sk) == 1, "rsa_%s private refused a valid key with factors of %zu and %zu bits", im.name, pl, ql);
		VF_CHECK(b == want_priv, "rsa_%s private (%u bits, p of %zu bits %s q of %zu bits): %s.., GMP says %s..", im.name, k.bits, pl, pl < ql ? "<" : ">", ql, hex(b.data(), b.size(), 16).c_str(), hex(want_priv.data(), want_priv.size(), 16).c_str());
	}
	stats.cls(pl < ql ? "raw:unbalanced-p<q" : "raw:unbalanced-p>q");
	stats.eval(fmt("rawu/%u/%zu/%zu", k.bits, pl, ql));
}

void target_run(Tape &t)
{
	unsigned sel0 = t.u8();
	if (sel0 >= 248) { k_raw_unbalanced(t); return; }
	if (sel0 >= 240) { k_pkcs1_boundary(t); return; }
	switch (sel0 % 16) {
	case 0: case 1: case 2: k_raw(t); break;
	case 3: case 4: case 5: case 6: k_pkcs1(t); break;
	case 7: case 8: case 9: k_pss(t); break;
	case 10: case 11: case 12: k_oaep(t); break;
	case 13: case 14: k_ssl(t); break;
	default: k_keygen(t); break;
	}
}
