// C18 — key and PEM encodings round-trip and match the standard formats.
//
// Oracles: OpenSSL i2d_RSAPrivateKey / i2d_ECPrivateKey / PKCS#8 and its
// PEM writer (independent encoders), a Base64/PEM reference written in the
// harness, field-by-field equality after decode(encode(key)), and the key
// that br_x509_decoder extracts from a certificate (made with OpenSSL)
// carrying the same public key.
#include "common/vf.hpp"
#include "../fixtures/rsa_pool.h"
#include <gmp.h>
#include <memory>
#include <openssl/evp.h>
#include <openssl/rsa.h>
#include <openssl/ec.h>
#include <openssl/bn.h>
#include <openssl/x509.h>
#include <openssl/pem.h>
#include <openssl/core_names.h>
#include <openssl/param_build.h>
#include <openssl/obj_mac.h>
extern "C" {
#include "bearssl.h"
}

using namespace vf;
typedef std::vector<uint8_t> Bytes;

const char *target_name = "c18_codec";
const int target_tape_min = 0, target_tape_max = 96;

static Bytes strip(const Bytes &b) { size_t i = 0; while (i < b.size() && b[i] == 0) i++; return Bytes(b.begin() + i, b.end()); }
static Bytes zbytes(const mpz_t z)
{
	Bytes tmp((mpz_sizeinbase(z, 2) + 7) / 8 + 1);
	size_t cnt = 0;
	mpz_export(tmp.data(), &cnt, 1, 1, 1, 0, z);
	tmp.resize(cnt);
	return tmp;
}
static Bytes padz(Bytes b, unsigned n) { b.insert(b.begin(), n, 0); return b; }

// ---------------------------------------------------------------- RSA keys
struct RsaKey {
	unsigned bits;
	Bytes n, e, d, p, q, dp, dq, iq;     // minimal big-endian
	EVP_PKEY *pkey = nullptr;
};
static std::vector<std::unique_ptr<RsaKey>> rsa_keys;
static EVP_PKEY *cert_signer;

static EVP_PKEY *rsa_pkey(const RsaKey &k)
{
	auto bn = [](const Bytes &b) { return BN_bin2bn(b.data(), (int)b.size(), nullptr); };
	OSSL_PARAM_BLD *bld = OSSL_PARAM_BLD_new();
	BIGNUM *v[8] = { bn(k.n), bn(k.e), bn(k.d), bn(k.p), bn(k.q), bn(k.dp), bn(k.dq), bn(k.iq) };
	const char *nm[8] = { OSSL_PKEY_PARAM_RSA_N, OSSL_PKEY_PARAM_RSA_E, OSSL_PKEY_PARAM_RSA_D, OSSL_PKEY_PARAM_RSA_FACTOR1, OSSL_PKEY_PARAM_RSA_FACTOR2,
		OSSL_PKEY_PARAM_RSA_EXPONENT1, OSSL_PKEY_PARAM_RSA_EXPONENT2, OSSL_PKEY_PARAM_RSA_COEFFICIENT1 };
	for (int i = 0; i < 8; i++) OSSL_PARAM_BLD_push_BN(bld, nm[i], v[i]);
	OSSL_PARAM *params = OSSL_PARAM_BLD_to_param(bld);
	EVP_PKEY_CTX *c = EVP_PKEY_CTX_new_from_name(nullptr, "RSA", nullptr);
	EVP_PKEY *pk = nullptr;
	if (EVP_PKEY_fromdata_init(c) <= 0 || EVP_PKEY_fromdata(c, &pk, EVP_PKEY_KEYPAIR, params) <= 0) pk = nullptr;
	EVP_PKEY_CTX_free(c); OSSL_PARAM_free(params); OSSL_PARAM_BLD_free(bld);
	for (auto *b : v) BN_free(b);
	return pk;
}

static std::unique_ptr<RsaKey> make_rsa(const char *ph, const char *qh, unsigned long e, bool swap)
{
	mpz_t p, q, n, ez, d, p1, q1, lam, t;
	mpz_inits(p, q, n, ez, d, p1, q1, lam, t, nullptr);
	mpz_set_str(p, swap ? qh : ph, 16); mpz_set_str(q, swap ? ph : qh, 16);
	mpz_mul(n, p, q); mpz_set_ui(ez, e);
	mpz_sub_ui(p1, p, 1); mpz_sub_ui(q1, q, 1); mpz_lcm(lam, p1, q1);
	mpz_invert(d, ez, lam);
	std::unique_ptr<RsaKey> k(new RsaKey);
	k->bits = (unsigned)mpz_sizeinbase(n, 2);
	k->n = zbytes(n); k->e = zbytes(ez); k->d = zbytes(d); k->p = zbytes(p); k->q = zbytes(q);
	mpz_mod(t, d, p1); k->dp = zbytes(t);
	mpz_mod(t, d, q1); k->dq = zbytes(t);
	mpz_invert(t, q, p); k->iq = zbytes(t);
	mpz_clears(p, q, n, ez, d, p1, q1, lam, t, nullptr);
	k->pkey = rsa_pkey(*k);
	return k;
}

void target_init()
{
	for (unsigned i = 0; i < RSA_POOL_N; i++) {
		if (RSA_POOL[i].bits > 2056 && i % 2) continue;
		rsa_keys.push_back(make_rsa(RSA_POOL[i].p, RSA_POOL[i].q, RSA_POOL[i].e, false));
		rsa_keys.push_back(make_rsa(RSA_POOL[i].p, RSA_POOL[i].q, RSA_POOL[i].e, true));
	}
	for (auto &k : rsa_keys) if (k->bits == 1024 && !cert_signer) cert_signer = k->pkey;
}

static Bytes run_skey(const Bytes &der, unsigned chunk, br_skey_decoder_context &dc)
{
	br_skey_decoder_init(&dc);
	size_t off = 0;
	while (off < der.size()) { size_t k = chunk ? std::min((size_t)chunk, der.size() - off) : der.size(); br_skey_decoder_push(&dc, der.data() + off, k); off += k; }
	return Bytes();
}

static void k_rsa(Tape &t)
{
	RsaKey &k0 = *rsa_keys[t.u8() % rsa_keys.size()];
	// Half of the cases: the same key with the most significant byte of some private components forced to a
	// boundary value (the encoders and decoders treat the fields as plain integers; 0x80 / 0x7F / 0xFF decide whether
	// DER needs a sign byte).  OpenSSL's legacy RSA object encodes whatever integers it is given, like BearSSL.
	RsaKey kk = k0;
	kk.pkey = nullptr;
	bool synthetic = t.flag();
	if (synthetic) {
		static const uint8_t TOP[] = { 0x80, 0x7F, 0x81, 0xFF, 0x01, 0x80 };
		unsigned which = t.u8();
		Bytes *f[4] = { &kk.d, &kk.dp, &kk.dq, &kk.iq };
		for (int i = 0; i < 4; i++) if (which & (1u << i)) (*f[i])[0] = TOP[(which >> 4) % 6];
		RSA *r = RSA_new();
		auto bnv = [](const Bytes &b) { return BN_bin2bn(b.data(), (int)b.size(), nullptr); };
		RSA_set0_key(r, bnv(kk.n), bnv(kk.e), bnv(kk.d));
		RSA_set0_factors(r, bnv(kk.p), bnv(kk.q));
		RSA_set0_crt_params(r, bnv(kk.dp), bnv(kk.dq), bnv(kk.iq));
		kk.pkey = EVP_PKEY_new();
		EVP_PKEY_assign_RSA(kk.pkey, r);
	}
	RsaKey &k = synthetic ? kk : k0;
	struct PkeyGuard { EVP_PKEY *p; ~PkeyGuard() { if (p) EVP_PKEY_free(p); } } guard = { synthetic ? kk.pkey : nullptr };
	// BearSSL structures with generated leading zeros on any field
	auto z = [&]() -> unsigned { return t.u8() % 4 == 0 ? 1 + t.u8() % 3 : 0; };
	Bytes bn = padz(k.n, z()), be = padz(k.e, z()), bd = padz(k.d, z()), bp = padz(k.p, z()), bq = padz(k.q, z()), bdp = padz(k.dp, z()), bdq = padz(k.dq, z()), biq = padz(k.iq, z());
	br_rsa_public_key pk = { bn.data(), bn.size(), be.data(), be.size() };
	br_rsa_private_key sk = { k.bits, bp.data(), bp.size(), bq.data(), bq.size(), bdp.data(), bdp.size(), bdq.data(), bdq.size(), biq.data(), biq.size() };
	bool pk8 = t.flag();
	size_t l0 = pk8 ? br_encode_rsa_pkcs8_der(nullptr, &sk, &pk, bd.data(), bd.size()) : br_encode_rsa_raw_der(nullptr, &sk, &pk, bd.data(), bd.size());
	Bytes der(l0 + 8, 0xEE);
	size_t l1 = pk8 ? br_encode_rsa_pkcs8_der(der.data(), &sk, &pk, bd.data(), bd.size()) : br_encode_rsa_raw_der(der.data(), &sk, &pk, bd.data(), bd.size());
	std::string desc = fmt("RSA %u bits %s%s", k.bits, pk8 ? "PKCS#8" : "raw", synthetic ? " (component top bytes forced)" : "");
	VF_CHECK(l0 == l1 && l0 > 0, "%s: length query %zu, written %zu", desc.c_str(), l0, l1);
	for (size_t i = l1; i < der.size(); i++) VF_CHECK(der[i] == 0xEE, "%s: encoder wrote past the announced length", desc.c_str());
	der.resize(l1);
	// byte-identical to OpenSSL's encoding
	unsigned char *od = nullptr;
	int ol;
	if (pk8) { PKCS8_PRIV_KEY_INFO *p8 = EVP_PKEY2PKCS8(k.pkey); ol = i2d_PKCS8_PRIV_KEY_INFO(p8, &od); PKCS8_PRIV_KEY_INFO_free(p8); }
	else ol = i2d_PrivateKey(k.pkey, &od);
	VF_CHECK(ol > 0 && der == Bytes(od, od + ol), "%s: encoding (%zu bytes) differs from OpenSSL's (%d bytes); first difference at %zu", desc.c_str(), der.size(), ol,
		(size_t)(std::mismatch(der.begin(), der.begin() + std::min(der.size(), (size_t)ol), od).first - der.begin()));
	OPENSSL_free(od);
	// decode(encode(k)) == k (and OpenSSL's bytes decode here: they are the same bytes)
	br_skey_decoder_context dc;
	run_skey(der, t.u8() % 3 == 0 ? 1 + t.u8() % 40 : 0, dc);
	VF_CHECK(br_skey_decoder_last_error(&dc) == 0 && br_skey_decoder_key_type(&dc) == BR_KEYTYPE_RSA, "%s: decoder error %d, key type %d", desc.c_str(), br_skey_decoder_last_error(&dc), br_skey_decoder_key_type(&dc));
	const br_rsa_private_key *r = br_skey_decoder_get_rsa(&dc);
	VF_CHECK(r && !br_skey_decoder_get_ec(&dc), "%s: get_rsa/get_ec", desc.c_str());
	auto eq = [&](const unsigned char *p, size_t n, const Bytes &w, const char *f) {
		VF_CHECK(strip(Bytes(p, p + n)) == w, "%s: decoded %s differs from the encoded key", desc.c_str(), f);
	};
	VF_CHECK(r->n_bitlen == k.bits, "%s: decoded n_bitlen %u", desc.c_str(), r->n_bitlen);
	eq(r->p, r->plen, k.p, "p"); eq(r->q, r->qlen, k.q, "q"); eq(r->dp, r->dplen, k.dp, "dp"); eq(r->dq, r->dqlen, k.dq, "dq"); eq(r->iq, r->iqlen, k.iq, "iq");
	// PEM armour round trip of the DER
	stats.cls(pk8 ? "rsa:pkcs8" : "rsa:raw");
	bool interesting = bn.size() != k.n.size() || bd.size() != k.d.size() || (k.d[0] & 0x80) || (k.dp[0] & 0x80) || (k.iq[0] & 0x80);
	stats.eval(interesting ? fmt("rsa/%u/%d/%zu%zu%zu%zu", k.bits, pk8, bn.size() - k.n.size(), bd.size() - k.d.size(), bp.size() - k.p.size(), biq.size() - k.iq.size()) : std::string());
	if (stats.want_sample()) stats.sample(desc + fmt(": %zu bytes == OpenSSL, round trip ok", der.size()));
}

// ---------------------------------------------------------------- EC keys
struct Curve { int id, nid; size_t flen; const char *name; };
static const Curve CURVES[3] = { { BR_EC_secp256r1, NID_X9_62_prime256v1, 32, "P-256" }, { BR_EC_secp384r1, NID_secp384r1, 48, "P-384" }, { BR_EC_secp521r1, NID_secp521r1, 66, "P-521" } };

static EC_KEY *ec_key(const Curve &c, const Bytes &x, Bytes &pub)
{
	EC_KEY *ek = EC_KEY_new_by_curve_name(c.nid);
	BIGNUM *b = BN_bin2bn(x.data(), (int)x.size(), nullptr);
	EC_KEY_set_private_key(ek, b);
	const EC_GROUP *g = EC_KEY_get0_group(ek);
	EC_POINT *P = EC_POINT_new(g);
	EC_POINT_mul(g, P, b, nullptr, nullptr, nullptr);
	EC_KEY_set_public_key(ek, P);
	pub.resize(1 + 2 * c.flen);
	EC_POINT_point2oct(g, P, POINT_CONVERSION_UNCOMPRESSED, pub.data(), pub.size(), nullptr);
	EC_POINT_free(P);
	BN_free(b);
	EC_KEY_set_asn1_flag(ek, OPENSSL_EC_NAMED_CURVE);
	return ek;
}
static Bytes draw_ec_scalar(Tape &t, const Curve &c)
{
	EC_GROUP *g = EC_GROUP_new_by_curve_name(c.nid);
	BIGNUM *n = BN_new(), *x = BN_new();
	EC_GROUP_get_order(g, n, nullptr);
	size_t ol = (size_t)BN_num_bytes(n);
	Bytes r = t.filled(ol + 8);
	BN_bin2bn(r.data(), (int)r.size(), x);
	BN_sub_word(n, 1); BN_CTX *cx = BN_CTX_new(); BN_mod(x, x, n, cx); BN_add_word(x, 1); BN_CTX_free(cx);
	unsigned sel = t.u8() % 6;
	if (sel == 0) BN_set_word(x, 1);
	if (sel == 1) BN_copy(x, n);                    // n-1
	if (sel == 2) BN_set_word(x, 0x1234 + r[0]);    // short
	if (sel == 3) BN_rshift(x, x, 9);               // leading zero byte
	Bytes out(ol);
	BN_bn2binpad(x, out.data(), (int)ol);
	BN_free(n); BN_free(x); EC_GROUP_free(g);
	return out;
}

static void k_ec(Tape &t)
{
	const Curve &c = CURVES[t.u8() % 3];
	Bytes x = draw_ec_scalar(t, c), pub;
	EC_KEY *ek = ec_key(c, x, pub);
	bool with_pub = t.flag(), pk8 = t.flag();
	// the private key as BearSSL sees it: fixed length, minimal, or zero-extended
	unsigned enc = t.u8() % 3;
	Bytes xb = enc == 0 ? x : enc == 1 ? strip(x) : padz(x, 2);
	if (xb.empty()) xb.push_back(0);
	br_ec_private_key sk = { c.id, xb.data(), xb.size() };
	br_ec_public_key pk = { c.id, pub.data(), pub.size() };
	size_t l0 = pk8 ? br_encode_ec_pkcs8_der(nullptr, &sk, with_pub ? &pk : nullptr) : br_encode_ec_raw_der(nullptr, &sk, with_pub ? &pk : nullptr);
	Bytes der(l0 + 8, 0xEE);
	size_t l1 = pk8 ? br_encode_ec_pkcs8_der(der.data(), &sk, with_pub ? &pk : nullptr) : br_encode_ec_raw_der(der.data(), &sk, with_pub ? &pk : nullptr);
	std::string desc = fmt("EC %s %s %s public key, private key on %zu bytes", c.name, pk8 ? "PKCS#8" : "raw", with_pub ? "with" : "without", xb.size());
	VF_CHECK(l0 == l1 && l0 > 0, "%s: length query %zu, written %zu", desc.c_str(), l0, l1);
	for (size_t i = l1; i < der.size(); i++) VF_CHECK(der[i] == 0xEE, "%s: encoder wrote past the announced length", desc.c_str());
	der.resize(l1);
	// OpenSSL's encoding with matching flags (fixed-length private key octet string, as RFC 5915 requires)
	if (enc == 0) {
		EC_KEY_set_enc_flags(ek, with_pub ? 0 : EC_PKEY_NO_PUBKEY);
		unsigned char *od = nullptr;
		int ol;
		if (pk8) {
			EVP_PKEY *ep = EVP_PKEY_new();
			EVP_PKEY_set1_EC_KEY(ep, ek);
			PKCS8_PRIV_KEY_INFO *p8 = EVP_PKEY2PKCS8(ep);
			ol = i2d_PKCS8_PRIV_KEY_INFO(p8, &od);
			PKCS8_PRIV_KEY_INFO_free(p8);
			EVP_PKEY_free(ep);
			// OpenSSL 3 always includes the public key in PKCS#8: compare only when we do too
			if (with_pub) VF_CHECK(ol > 0 && der == Bytes(od, od + ol), "%s: encoding differs from OpenSSL's PKCS#8 (%zu vs %d bytes)", desc.c_str(), der.size(), ol);
		} else {
			ol = i2d_ECPrivateKey(ek, &od);
			VF_CHECK(ol > 0 && der == Bytes(od, od + ol), "%s: encoding differs from OpenSSL's ECPrivateKey (%zu vs %d bytes): %s vs %s", desc.c_str(), der.size(), ol,
				hex(der.data(), der.size(), 40).c_str(), hex(od, (size_t)ol, 40).c_str());
		}
		OPENSSL_free(od);
		stats.cls("ec:compared-with-openssl");
	}
	// round trip
	br_skey_decoder_context dc;
	run_skey(der, t.u8() % 3 == 0 ? 1 + t.u8() % 20 : 0, dc);
	VF_CHECK(br_skey_decoder_last_error(&dc) == 0 && br_skey_decoder_key_type(&dc) == BR_KEYTYPE_EC, "%s: decoder error %d", desc.c_str(), br_skey_decoder_last_error(&dc));
	const br_ec_private_key *r = br_skey_decoder_get_ec(&dc);
	VF_CHECK(r && !br_skey_decoder_get_rsa(&dc) && r->curve == c.id, "%s: decoded curve / type", desc.c_str());
	VF_CHECK(strip(Bytes(r->x, r->x + r->xlen)) == strip(x), "%s: decoded private key differs", desc.c_str());
	EC_KEY_free(ek);
	stats.cls(pk8 ? "ec:pkcs8" : "ec:raw");
	stats.eval(fmt("ec/%d/%d/%d/%u/%zu", c.id, pk8, with_pub, enc, strip(x).size()));
	if (stats.want_sample()) stats.sample(desc);
}

// ---------------------------------------------------------------- PEM
static const char B64[] = "ABCDEFGHIJKLMNOPQRSTUVWXYZabcdefghijklmnopqrstuvwxyz0123456789+/";
static std::string b64(const uint8_t *p, size_t n)
{
	std::string s;
	for (size_t i = 0; i < n; i += 3) {
		uint32_t v = (uint32_t)p[i] << 16 | (i + 1 < n ? (uint32_t)p[i + 1] << 8 : 0) | (i + 2 < n ? p[i + 2] : 0);
		s += B64[v >> 18]; s += B64[(v >> 12) & 63];
		s += i + 1 < n ? B64[(v >> 6) & 63] : '=';
		s += i + 2 < n ? B64[v & 63] : '=';
	}
	return s;
}
struct PemObj { std::string name; Bytes data; bool error = false, ended = false; };
struct PemSink { Bytes *d; };
static void pem_dest(void *ctx, const void *src, size_t len) { Bytes *d = ((PemSink *)ctx)->d; d->insert(d->end(), (const uint8_t *)src, (const uint8_t *)src + len); }

// objects whose index has its bit set in skip_mask are decoded without a destination ("decoded data is simply ignored")
static std::vector<PemObj> pem_decode(const std::string &text, unsigned chunk, size_t *consumed_total = nullptr, unsigned skip_mask = 0)
{
	std::unique_ptr<br_pem_decoder_context> pcp(new br_pem_decoder_context);   // exact-size heap object: a write past the context is visible
	br_pem_decoder_context &pc = *pcp;
	br_pem_decoder_init(&pc);
	std::vector<PemObj> objs;
	Bytes cur;
	PemSink sink = { &cur };
	size_t off = 0, total = 0;
	bool in_obj = false;
	uint64_t guard = 0;
	while (off < text.size()) {
		size_t k = chunk ? std::min((size_t)chunk, text.size() - off) : text.size() - off;
		size_t c = br_pem_decoder_push(&pc, text.data() + off, k);
		VF_CHECK(c <= k, "br_pem_decoder_push consumed %zu of %zu bytes", c, k);
		off += c; total += c;
		int ev = br_pem_decoder_event(&pc);
		VF_CHECK(ev >= 0 && ev <= 3, "br_pem_decoder_event returned %d", ev);
		if (ev == BR_PEM_BEGIN_OBJ) {
			PemObj o;
			o.name = br_pem_decoder_name(&pc);
			objs.push_back(o);
			cur.clear();
			if (!((skip_mask >> ((objs.size() - 1) & 31)) & 1)) br_pem_decoder_setdest(&pc, pem_dest, &sink);
			in_obj = true;
		} else if (ev == BR_PEM_END_OBJ || ev == BR_PEM_ERROR) {
			VF_CHECK(in_obj && !objs.empty(), "PEM decoder: event %d outside any object", ev);
			objs.back().data = cur;
			objs.back().ended = true;
			objs.back().error = ev == BR_PEM_ERROR;
			in_obj = false;
		} else if (c == 0) VF_CHECK(++guard < 1000, "PEM decoder makes no progress");
	}
	if (in_obj) objs.back().data = cur;
	if (consumed_total) *consumed_total = total;
	return objs;
}

static void k_pem_roundtrip(Tape &t)
{
	size_t n = t.len(2000, { 0, 1, 2, 3, 47, 48, 49, 56, 57, 58, 95, 96, 97, 113, 114, 115, 171, 1023, 1024 });
	Bytes data = t.filled(n);
	unsigned flags = t.u8() % 4;
	size_t bl = t.len(130, { 0, 1, 11, 63, 126, 127, 128 });
	std::string banner;
	for (size_t i = 0; i < bl; i++) { unsigned c = t.u8() % 30; banner += c < 26 ? (char)('A' + c) : c == 26 ? ' ' : c == 27 ? '1' : (char)('a' + c % 5); }
	if (!banner.empty() && (banner.back() == ' ' || banner.back() == '-')) banner.back() = 'X';
	size_t l0 = br_pem_encode(nullptr, nullptr, n, banner.c_str(), flags);
	Bytes out(l0 + 9, 0xEE);
	bool inplace = t.flag();
	size_t l1, srcoff = 0;
	if (inplace) {
		// data and dest may overlap (source destroyed): the source sits anywhere inside the destination buffer - at its
		// end, at its very start (armouring a key in place), under the header line, or at a generated offset
		size_t room = l0 + 1 - n;
		unsigned ps = t.u8() % 4;
		srcoff = ps == 0 ? room : ps == 1 ? 0 : ps == 2 ? (size_t)t.range(0, (int)std::min(room, (size_t)(20 + bl))) : (size_t)t.range(0, (int)room);
		memcpy(out.data() + srcoff, data.data(), n);
		l1 = br_pem_encode(out.data(), out.data() + srcoff, n, banner.c_str(), flags);
		stats.cls(srcoff == room ? "pem:in-place-source-at-end" : srcoff == 0 ? "pem:in-place-source-at-start" : srcoff < 17 + bl ? "pem:in-place-source-under-header" : "pem:in-place-source-inside");
	} else l1 = br_pem_encode(out.data(), data.data(), n, banner.c_str(), flags);
	std::string desc = fmt("PEM payload=%zu flags=%u banner=%zu%s", n, flags, bl, inplace ? fmt(" in-place(source at +%zu)", srcoff).c_str() : "");
	VF_CHECK(l0 == l1, "%s: length query %zu, written %zu", desc.c_str(), l0, l1);
	VF_CHECK(out[l1] == 0 && out[l1 + 1] == 0xEE, "%s: terminating zero / overrun", desc.c_str());
	std::string text((const char *)out.data(), l1);
	// reference encoding
	size_t ll = (flags & BR_PEM_LINE64) ? 64 : 76;
	const char *eol = (flags & BR_PEM_CRLF) ? "\r\n" : "\n";
	std::string ref = "-----BEGIN " + banner + "-----" + eol, b = b64(data.data(), n);
	for (size_t i = 0; i < b.size(); i += ll) ref += b.substr(i, ll) + eol;
	ref += "-----END " + banner + "-----" + eol;
	VF_CHECK(text == ref, "%s: encoding differs from the reference at %zu: ...%s... vs ...%s...", desc.c_str(),
		(size_t)(std::mismatch(text.begin(), text.begin() + std::min(text.size(), ref.size()), ref.begin()).first - text.begin()),
		text.substr(0, 60).c_str(), ref.substr(0, 60).c_str());
	// OpenSSL's writer agrees (64-character lines, LF) for ordinary banners
	if (flags == BR_PEM_LINE64 && bl > 0 && bl < 100 && n > 0) {
		BIO *bio = BIO_new(BIO_s_mem());
		PEM_write_bio(bio, banner.c_str(), "", data.data(), (long)n);
		char *pp;
		long pl = BIO_get_mem_data(bio, &pp);
		VF_CHECK(std::string(pp, (size_t)pl) == text, "%s: differs from OpenSSL PEM_write_bio", desc.c_str());
		BIO_free(bio);
		stats.cls("pem:vs-openssl");
	}
	// decode(encode(x)) == x, one object, name upper-cased.  bearssl_pem.h: the decoder "accepts names up to 127
	// characters"; longer ones are only required to decode safely.
	if (bl > 127) { (void)pem_decode(text, 0); stats.cls("pem:banner-too-long-for-decoder"); }
	if (bl > 121 && bl <= 127) {
		// listed finding: the 127-character budget of next-banner-begin also counts the trailing dashes, and is
		// tested before the end of line is looked at: names of 122..127 characters are silently not recognised
		std::vector<PemObj> objs = pem_decode(text, 0);
		std::string up = banner;
		for (auto &ch : up) if (ch >= 'a' && ch <= 'z') ch = (char)(ch - 32);
		bool good = objs.size() == 1 && objs[0].ended && !objs[0].error && objs[0].name == up && objs[0].data == data;
		if (!good) {
			std::string what = fmt("an object whose name has 122..127 characters (documented limit: 127) is not reported by the PEM decoder at all: no begin event, no error (%zu objects decoded from the encoder's own output; the budget of 127 bytes in next-banner-begin counts the five trailing dashes)", objs.size());
			VF_CHECK(objs.empty() && known("pem-name-122-to-127-dropped"), "%s: %s", desc.c_str(), what.c_str());
			stats.known_finding("pem-name-122-to-127-dropped", what);
		}
		stats.cls("pem:banner-122-127");
	}
	if (bl > 0 && bl <= 121) {
		std::vector<PemObj> objs = pem_decode(text, t.u8() % 3 == 0 ? 1 + t.u8() % 50 : 0);
		VF_CHECK(objs.size() == 1 && objs[0].ended && !objs[0].error, "%s: decoding gives %zu objects (error %d)", desc.c_str(), objs.size(), objs.empty() ? -1 : (int)objs[0].error);
		std::string up = banner;
		for (auto &ch : up) if (ch >= 'a' && ch <= 'z') ch = (char)(ch - 32);
		VF_CHECK(objs[0].name == up, "%s: decoded name '%s', want '%s'", desc.c_str(), objs[0].name.c_str(), up.c_str());
		VF_CHECK(objs[0].data == data, "%s: decoded payload differs (%zu vs %zu bytes)", desc.c_str(), objs[0].data.size(), data.size());
		// an application that wants the second object only: an all-ones object first, decoded without a destination
		// (bearssl_pem.h: "decoded data is simply ignored"), then ours
		if (t.u8() % 4 == 0) {
			size_t fl = br_pem_encode(nullptr, nullptr, 256 + n, "SKIPPED", flags);
			Bytes first(fl + 1), ones(256 + n, 0xFF);
			br_pem_encode(first.data(), ones.data(), ones.size(), "SKIPPED", flags);
			std::string two = std::string((const char *)first.data(), fl) + text;
			std::vector<PemObj> o2 = pem_decode(two, t.u8() % 2 ? 61 : 0, nullptr, 1);
			VF_CHECK(o2.size() == 2 && o2[0].ended && !o2[0].error && o2[0].name == "SKIPPED" && o2[0].data.empty(), "%s after a skipped %zu-byte object: first object: %zu objects, error %d, %zu bytes delivered without a destination", desc.c_str(),
				ones.size(), o2.size(), o2.empty() ? -1 : (int)o2[0].error, o2.empty() ? (size_t)0 : o2[0].data.size());
			VF_CHECK(o2[1].ended && !o2[1].error && o2[1].name == up && o2[1].data == data, "%s after a skipped %zu-byte object: the second object is decoded wrongly (%zu vs %zu bytes, error %d)", desc.c_str(), ones.size(),
				o2[1].data.size(), data.size(), (int)o2[1].error);
			stats.cls("pem:object-skipped-without-destination");
		}
	}
	stats.cls("pem:roundtrip");
	stats.eval(n > ll * 3 / 4 ? fmt("pem/%zu/%u/%zu/%d", n, flags, bl, inplace) : std::string());
	if (stats.want_sample()) stats.sample(desc);
}

// grammar-generated multi-object files with malformed objects in between
static void k_pem_grammar(Tape &t)
{
	unsigned nobj = 1 + t.u8() % 4;
	std::string text;
	struct Exp { std::string name; Bytes full, before_defect; bool malformed; bool has_end; bool blank_ws = false; };
	std::vector<Exp> exp;
	auto eol = [&]() { unsigned e = t.u8() % 4; return std::string(e == 0 ? "\n" : e == 1 ? "\r\n" : e == 2 ? "\n" : "\r\n"); };
	std::string hist;
	for (unsigned i = 0; i < nobj; i++) {
		// junk between objects
		unsigned nj = t.u8() % 3;
		for (unsigned j = 0; j < nj; j++) { static const char *J[] = { "", "   ", "some text", "----BEGIN X-----", "-----BEGINX-----", "Proc-Type: 4", "====" }; text += J[t.u8() % 7] + eol(); }
		Exp e;
		static const char *NAMES[] = { "CERTIFICATE", "RSA PRIVATE KEY", "x509 crl", "A", "EC PRIVATE KEY" };
		std::string nm = NAMES[t.u8() % 5];
		e.name = nm;
		for (auto &ch : e.name) if (ch >= 'a' && ch <= 'z') ch = (char)(ch - 32);
		size_t n = t.len(400, { 0, 1, 2, 3, 48, 57, 96 });
		e.full = t.filled(n);
		unsigned defect = t.u8() % 6;    // 0,1,2: none; 3: bad character; 4: data after padding; 5: truncated (no END line) only for the last object
		e.malformed = defect == 3 || defect == 4;
		e.has_end = true;
		size_t ll = 4 * (1 + t.u8() % 19);
		std::string b = b64(e.full.data(), n);
		text += "-----BEGIN " + nm + "-----" + eol();
		size_t nlines = (b.size() + ll - 1) / ll;
		size_t bad_line = e.malformed && nlines ? t.u8() % nlines : (size_t)-1;
		if (e.malformed && !nlines) e.malformed = false;
		for (size_t li = 0; li < nlines; li++) {
			std::string line = b.substr(li * ll, ll);
			if (li == bad_line) {
				// bytes completely decoded from the lines before the defect line
				size_t chars_before = li * ll;
				e.before_defect.assign(e.full.begin(), e.full.begin() + std::min(n, chars_before / 4 * 3));
				if (defect == 3) {
					// bad character: the complete quartets before it on the same line are well formed too
					size_t pos = t.u8() % line.size();
					line[pos] = '*';
					size_t qchars = chars_before + pos / 4 * 4;
					e.before_defect.assign(e.full.begin(), e.full.begin() + std::min(n, qchars / 4 * 3));
				} else {
					line = "QQ==" + line;   // a well-formed padded quartet (one byte, 0x41) followed by more data
					e.before_defect.push_back(0x41);
				}
				hist += fmt("obj%u:defect%u@line%zu ", i, defect, li);
			}
			if (t.u8() % 8 == 0) line = " " + line + "\t";   // whitespace around a line is skipped
			text += line + eol();
			if (li == bad_line) break;
		}
		if (!e.malformed && t.u8() % 8 == 7) {
			// a line made of blanks only before the END line: "Whitespace is ignored" (bearssl_pem.h)
			text += std::string(t.pick<const char *>({ " ", "\t", "  \t " })) + eol();
			e.blank_ws = true;
			hist += fmt("obj%u:blank-line ", i);
		}
		if (!e.malformed) {
			if (defect == 5 && i + 1 == nobj) { e.has_end = false; hist += fmt("obj%u:truncated ", i); }
			else text += "-----END " + nm + "-----" + eol();
			if (t.u8() % 8 == 0) text += eol();
		} else {
			// the rest of the malformed object (remaining lines + END) follows as junk for the decoder
			text += "-----END " + nm + "-----" + eol();
		}
		exp.push_back(e);
	}
	unsigned chunk = t.u8() % 3 == 0 ? 0 : 1 + t.u8() % 30;
	std::vector<PemObj> objs = pem_decode(text, chunk);
	std::string desc = fmt("PEM file with %u objects (%s) chunk=%u", nobj, hist.c_str(), chunk);
	VF_CHECK(objs.size() == exp.size(), "%s: decoder found %zu objects, file has %zu", desc.c_str(), objs.size(), exp.size());
	for (size_t i = 0; i < exp.size(); i++) {
		VF_CHECK(objs[i].name == exp[i].name, "%s: object %zu is named '%s', want '%s'", desc.c_str(), i, objs[i].name.c_str(), exp[i].name.c_str());
		if (exp[i].malformed) {
			VF_CHECK(objs[i].error, "%s: malformed object %zu did not raise BR_PEM_ERROR", desc.c_str(), i);
			// no invented byte: what was emitted is a prefix of the correct decoding of the well-formed part
			VF_CHECK(objs[i].data.size() <= exp[i].before_defect.size() && std::equal(objs[i].data.begin(), objs[i].data.end(), exp[i].before_defect.begin()),
				"%s: malformed object %zu: %zu bytes emitted are not a prefix of the %zu bytes decodable before the defect", desc.c_str(), i, objs[i].data.size(), exp[i].before_defect.size());
		} else if (exp[i].blank_ws && exp[i].full.size() % 3 != 0 && objs[i].error && known("pem-blank-line-after-padding")) {
			stats.known_finding("pem-blank-line-after-padding", "a line consisting of blanks only between the last Base64 line and the END line makes the PEM decoder report BR_PEM_ERROR when the last quartet is padded "
				"(payload length not a multiple of 3) although whitespace is documented as ignored and the same line is accepted after an unpadded quartet (check-trailer in pemdec.t0 skips only LF)");
			stats.excluded++;
		} else if (exp[i].has_end) {
			VF_CHECK(objs[i].ended && !objs[i].error, "%s: well-formed object %zu: ended=%d error=%d", desc.c_str(), i, objs[i].ended, objs[i].error);
			VF_CHECK(objs[i].data == exp[i].full, "%s: object %zu decodes to %zu bytes%s, want %zu (spurious or lost data)", desc.c_str(), i, objs[i].data.size(),
				objs[i].data.size() > exp[i].full.size() && std::equal(exp[i].full.begin(), exp[i].full.end(), objs[i].data.end() - exp[i].full.size()) ? " (extra bytes BEFORE the payload)" : "",
				exp[i].full.size());
		} else {
			VF_CHECK(!objs[i].ended, "%s: truncated object %zu reported as complete", desc.c_str(), i);
		}
	}
	bool nontriv = false;
	for (auto &e : exp) if (e.malformed && !e.before_defect.empty()) nontriv = true;
	stats.cls("pem:grammar");
	stats.eval((nontriv || nobj > 1) ? fmt("pg/%u/%llx", nobj, (unsigned long long)fnv(text)) : std::string());
	if (stats.want_sample()) stats.sample(desc);
}

// ---------------------------------------------------------------- public keys: pkey decoder vs certificate decoder
static Bytes make_cert(EVP_PKEY *subject_key)
{
	X509 *x = X509_new();
	X509_set_version(x, 2);
	ASN1_INTEGER_set(X509_get_serialNumber(x), 7);
	X509_gmtime_adj(X509_getm_notBefore(x), 0);
	X509_gmtime_adj(X509_getm_notAfter(x), 86400);
	X509_NAME *nm = X509_get_subject_name(x);
	X509_NAME_add_entry_by_txt(nm, "CN", MBSTRING_ASC, (const unsigned char *)"verif", -1, -1, 0);
	X509_set_issuer_name(x, nm);
	X509_set_pubkey(x, subject_key);
	X509_sign(x, cert_signer, EVP_sha256());
	unsigned char *d = nullptr;
	int l = i2d_X509(x, &d);
	Bytes out(d, d + l);
	OPENSSL_free(d);
	X509_free(x);
	return out;
}

static void k_pubkey(Tape &t)
{
	unsigned kind = t.u8() % 3;     // 0 RSA SPKI, 1 EC SPKI, 2 raw RSAPublicKey
	EVP_PKEY *pk = nullptr;
	EC_KEY *ek = nullptr;
	std::string desc;
	Bytes ecpub;
	const Curve *cv = nullptr;
	RsaKey *rk = nullptr;
	if (kind == 1) {
		cv = &CURVES[t.u8() % 3];
		Bytes x = draw_ec_scalar(t, *cv);
		ek = ec_key(*cv, x, ecpub);
		pk = EVP_PKEY_new();
		EVP_PKEY_set1_EC_KEY(pk, ek);
		desc = fmt("EC %s SubjectPublicKeyInfo", cv->name);
	} else {
		rk = rsa_keys[t.u8() % rsa_keys.size()].get();
		pk = rk->pkey;
		EVP_PKEY_up_ref(pk);
		desc = fmt("RSA %u bits %s", rk->bits, kind == 0 ? "SubjectPublicKeyInfo" : "raw RSAPublicKey");
	}
	unsigned char *d = nullptr;
	int l;
	if (kind == 2) { RSA *r = EVP_PKEY_get1_RSA(pk); l = i2d_RSAPublicKey(r, &d); RSA_free(r); }
	else l = i2d_PUBKEY(pk, &d);
	Bytes spki(d, d + l);
	OPENSSL_free(d);
	// key from the certificate decoder
	Bytes cert = make_cert(pk);
	br_x509_decoder_context xc;
	br_x509_decoder_init(&xc, nullptr, nullptr, nullptr, nullptr);
	br_x509_decoder_push(&xc, cert.data(), cert.size());
	VF_CHECK(br_x509_decoder_last_error(&xc) == 0, "%s: br_x509_decoder error %d on an OpenSSL-made certificate", desc.c_str(), br_x509_decoder_last_error(&xc));
	const br_x509_pkey *ck = br_x509_decoder_get_pkey(&xc);
	VF_CHECK(ck != nullptr, "%s: certificate decoder returned no key", desc.c_str());
	// key from the public-key decoder
	br_pkey_decoder_context pc;
	br_pkey_decoder_init(&pc);
	unsigned chunk = t.u8() % 3 == 0 ? 1 + t.u8() % 30 : 0;
	for (size_t off = 0; off < spki.size(); ) { size_t k = chunk ? std::min((size_t)chunk, spki.size() - off) : spki.size(); br_pkey_decoder_push(&pc, spki.data() + off, k); off += k; }
	int err = br_pkey_decoder_last_error(&pc);
	if (kind == 2) {
		if (err != 0) {
			// listed finding F3: the documented raw form is never accepted (a clean X.509 decoding error; a crash or a
			// wrong key would be something new)
			std::string what = fmt("br_pkey_decoder rejects the raw RSAPublicKey form it documents (error %d)", err);
			VF_CHECK(known("pkey-raw-rsa-rejected") && err >= 32 && err <= 63 && br_pkey_decoder_key_type(&pc) == 0, "%s: %s", desc.c_str(), what.c_str());
			what = "br_pkey_decoder rejects the raw RSAPublicKey form it documents (clean decoding error, no key returned)";
			stats.known_finding("pkey-raw-rsa-rejected", what);
			stats.excluded++;
			EVP_PKEY_free(pk);
			stats.eval(fmt("pub/raw/%u", rk->bits));
			return;
		}
	}
	VF_CHECK(err == 0, "%s: br_pkey_decoder error %d", desc.c_str(), err);
	if (kind == 1) {
		VF_CHECK(br_pkey_decoder_key_type(&pc) == BR_KEYTYPE_EC && ck->key_type == BR_KEYTYPE_EC, "%s: key types %d / %d", desc.c_str(), br_pkey_decoder_key_type(&pc), ck->key_type);
		const br_ec_public_key *e = br_pkey_decoder_get_ec(&pc);
		VF_CHECK(e && e->curve == ck->key.ec.curve && e->curve == cv->id, "%s: curve %d, certificate decoder says %d", desc.c_str(), e ? e->curve : -1, ck->key.ec.curve);
		Bytes q1(e->q, e->q + e->qlen), q2(ck->key.ec.q, ck->key.ec.q + ck->key.ec.qlen);
		VF_CHECK(q2 == ecpub, "%s: certificate decoder's point differs from the key", desc.c_str());
		if (q1 != q2) {
			// listed finding F2: the point lacks its 0x04 format byte; any OTHER difference is new
			bool only_prefix = q1.size() + 1 == q2.size() && std::equal(q1.begin(), q1.end(), q2.begin() + 1);
			std::string what = fmt("br_pkey_decoder returns the EC point without its leading 0x04 byte (qlen %zu instead of %zu)", q1.size(), q2.size());
			VF_CHECK(only_prefix && known("pkey-ec-point-prefix-lost"), "%s: public-key decoder point %s.. (%zu bytes) differs from the certificate decoder's %s.. (%zu bytes)", desc.c_str(),
				hex(q1.data(), q1.size(), 8).c_str(), q1.size(), hex(q2.data(), q2.size(), 8).c_str(), q2.size());
			stats.known_finding("pkey-ec-point-prefix-lost", what);
			stats.excluded++;
		}
	} else {
		VF_CHECK(br_pkey_decoder_key_type(&pc) == BR_KEYTYPE_RSA && ck->key_type == BR_KEYTYPE_RSA, "%s: key types", desc.c_str());
		const br_rsa_public_key *r = br_pkey_decoder_get_rsa(&pc);
		VF_CHECK(r && !br_pkey_decoder_get_ec(&pc), "%s: get_rsa/get_ec", desc.c_str());
		Bytes n1 = strip(Bytes(r->n, r->n + r->nlen)), e1 = strip(Bytes(r->e, r->e + r->elen));
		Bytes n2 = strip(Bytes(ck->key.rsa.n, ck->key.rsa.n + ck->key.rsa.nlen)), e2 = strip(Bytes(ck->key.rsa.e, ck->key.rsa.e + ck->key.rsa.elen));
		VF_CHECK(n1 == n2 && e1 == e2 && n1 == rk->n && e1 == rk->e, "%s: modulus/exponent from the public-key decoder differ from the certificate decoder's", desc.c_str());
	}
	EVP_PKEY_free(pk);
	if (ek) EC_KEY_free(ek);
	stats.cls(kind == 0 ? "pubkey:rsa-spki" : kind == 1 ? "pubkey:ec-spki" : "pubkey:rsa-raw");
	stats.eval(fmt("pub/%u/%s", kind, desc.c_str()));
	if (stats.want_sample()) stats.sample(desc + ": pkey decoder == certificate decoder");
}

void target_run(Tape &t)
{
	switch (t.u8() % 16) {
	case 0: case 1: case 2: k_rsa(t); break;
	case 3: case 4: case 5: k_ec(t); break;
	case 6: case 7: case 8: case 9: k_pem_roundtrip(t); break;
	case 10: case 11: case 12: case 13: k_pem_grammar(t); break;
	default: k_pubkey(t); break;
	}
}

// Enumerator: PEM round trip for every payload length 0..400 x 4 flag combinations.
void target_enum(int shard, int nshards)
{
	uint64_t n = 0;
	size_t top = tier_thorough() ? 2000 : 400;
	for (size_t len = 0; len <= top; len++)
	for (unsigned fl = 0; fl < 4; fl++) {
		if ((n++ % (uint64_t)nshards) != (uint64_t)shard) continue;
		enum_tape({ 6, 0, (uint8_t)(len >> 8), (uint8_t)len, 3, 3, 3, (uint8_t)(len + 1), (uint8_t)fl, 1, 8, 2, 0, 19, 17, 4, 4, 4, 4, 4, 4, 4, 4, 4, 4, (uint8_t)(len & 1), (uint8_t)(len % 3 == 0 ? 0 : 1), (uint8_t)(1 + len % 40) });
	}
}
