// C03 — no handshake completes over altered messages or an unauthenticated
// peer.
//
// Fault enumeration over real, deterministic handshakes (fixed entropy on
// both sides, so the session up to the fault equals the reference run):
//   M0  every byte of every handshake / ChangeCipherSpec / encrypted-Finished
//       record of both flights XORed with a mask by a man in the middle;
//   M1  message-level edits: drop, duplicate, swap, retype, shorten, extend,
//       substitute by the same message of another handshake of the same
//       configuration; ChangeCipherSpec dropped, doubled, sent early;
//   M2  a server whose policy handler chooses a suite the client did not
//       offer (incl. the stale slot right after the client's narrowed list);
//       a ClientHello rewritten so that the server answers with a version the
//       client did not allow;
//   M3  an instrumented certificate validator on the client (and, for client
//       certificates, on the server): scripted verdict, returned key (the
//       peer's, another one of the same type, one of the wrong type, a weak
//       one, an unsupported curve), returned usages.
// Oracle: the endpoint for which the altered bytes were destined never
// reports SENDAPP, ends closed with a non-zero error (by its own check, an
// alert, or the end of transport delivered when its peer has given up), and
// no application byte is delivered to either side.  For M3: ready exactly
// when the verdict is "accept", the key is the peer's and type/usages fit
// the suite; the validator saw exactly the peer's chain and the configured
// name.  Positive controls: the unfaulted run of each configuration and the
// run through the message-level relay without an edit complete and deliver.
#include "common/tls_session.hpp"
#include "common/tls_hello.hpp"
#include <map>

using namespace vf;
using namespace tls;

const char *target_name = "c03_handshake";
const int target_tape_min = 4, target_tape_max = 40;

struct Kind { uint16_t suite; unsigned vmin, vmax; bool cauth; int ckey; bool resume; bool alpn; Layout lay; };
static const Kind KINDS[] = {
	{ 0xC02F, 0x0303, 0x0303, false, 0, false, false, L_MONO },     // ECDHE_RSA, AES-GCM
	{ 0x002F, 0x0301, 0x0303, false, 0, false, false, L_SPLIT },    // RSA key exchange, version range 1.0-1.2
	{ 0xC02B, 0x0303, 0x0303, true, K_EC, false, true, L_SPLIT },   // ECDHE_ECDSA, client certificate (EC), ALPN
	{ 0xC004, 0x0302, 0x0302, false, 0, false, false, L_MONO },     // static ECDH_ECDSA, TLS 1.1
	{ 0xC02F, 0x0303, 0x0303, false, 0, true, false, L_MONO },      // resumed handshake
	{ 0xCCA8, 0x0301, 0x0303, true, K_RSA, false, false, L_BIDI },  // ECDHE_RSA ChaCha20, client certificate (RSA)
	{ 0xC013, 0x0301, 0x0301, false, 0, false, false, L_MONO },     // ECDHE_RSA CBC, TLS 1.0
	{ 0xC00E, 0x0303, 0x0303, false, 0, false, false, L_SPLIT },    // static ECDH_RSA
	{ 0x003D, 0x0303, 0x0303, true, K_EC, true, false, L_MONO },    // RSA kx AES256-CBC-SHA256, client certificate, resumed
};
static const unsigned NKINDS = sizeof KINDS / sizeof KINDS[0];

static std::string kind_desc(unsigned k)
{
	const Kind &K = KINDS[k];
	const wt::SuiteInfo *si = wt::suite_by_id(K.suite);
	return fmt("%s TLS%s%s%s%s", si ? si->name : "?", ver_name(K.vmax), K.cauth ? " +client-cert" : "", K.resume ? " resumed" : "", K.alpn ? " +alpn" : "");
}

struct Pair {
	Profile cp, sp;
	std::unique_ptr<BearClient> c;
	std::unique_ptr<BearServer> s;
	std::vector<uint8_t> cache_store;
	br_ssl_session_cache_lru lru;
};
static void profiles(unsigned k, unsigned variant, Profile &cp, Profile &sp)
{
	const Kind &K = KINDS[k];
	const wt::SuiteInfo *si = wt::suite_by_id(K.suite);
	cp.suites = { K.suite }; sp.suites = { K.suite };
	cp.vmin = sp.vmin = K.vmin; cp.vmax = sp.vmax = K.vmax;
	sp.key = keys_for(si)[0];
	cp.layout = sp.layout = K.lay;
	if (K.lay == L_BIDI) cp.buflen = sp.buflen = BR_SSL_BUFSIZE_BIDI;
	cp.client_auth = sp.client_auth = K.cauth;
	cp.client_key = K.ckey;
	cp.resume = K.resume;
	if (K.alpn) { cp.alpn = { "h2", "http/1.1" }; sp.alpn = { "http/1.1" }; }
	for (int i = 0; i < 32; i++) { cp.entropy[i] = (uint8_t)(k * 5 + i * 3 + 1 + variant * 77); sp.entropy[i] = (uint8_t)(k * 7 + i + 9 + variant * 55); }
}
static void make_pair(unsigned k, unsigned variant, Pair &P, const br_x509_class **cx = nullptr, const br_x509_class **sx = nullptr)
{
	profiles(k, variant, P.cp, P.sp);
	if (KINDS[k].resume) {
		P.cache_store.assign(4096, 0);
		br_ssl_session_cache_lru_init(&P.lru, P.cache_store.data(), P.cache_store.size());
		P.sp.cache = &P.lru;
	}
	P.c.reset(new BearClient(P.cp, cx));
	P.s.reset(new BearServer(P.sp, sx));
}

struct Outcome {
	bool ready[2] = { false, false };
	size_t recvd[2] = { 0, 0 };     // bytes from sender d delivered to its peer
	bool closed[2] = { false, false };
	int err[2] = { 0, 0 };
	bool quiesced = false;
	std::vector<Record> recs[2];    // what each side emitted
	size_t n_pre[2] = { 0, 0 };     // records emitted before the handshake completed on both sides
};

// run one (possibly faulted) connection between the endpoints of P.  For
// resumed kinds an unfaulted first connection is run before.
typedef std::function<void(int dir, const Record &, std::vector<Bytes> &out)> Mitm;
static Outcome run_conn(Pair &P, unsigned k, const Mitm &mitm, unsigned chunk_mode)
{
	Outcome o;
	if (KINDS[k].resume) {
		VF_CHECK(P.c->reset() && P.s->reset(), "harness: reset");
		Session S0(P.c.get(), P.s.get());
		S0.script[0].push_back(Item{ IT_WRITE, 3, true });
		S0.script[0].push_back(Item{ IT_WAIT_PEER_IDLE, 0, true });
		S0.script[0].push_back(Item{ IT_CLOSE, 0, true });
		S0.run(400000);
		VF_CHECK(S0.established && S0.recvd[0] == 3, "harness: first connection of a resumed kind failed (errors %d/%d)", P.c->error(), P.s->error());
	}
	VF_CHECK(P.c->reset() && P.s->reset(), "harness: reset");
	Session S(P.c.get(), P.s.get());
	S.use_tap = true;
	if (mitm) S.mitm = mitm;
	ChunkMode cm = chunk_mode % 4 == 1 ? CH_ONE : chunk_mode % 4 == 2 ? CH_HDR : chunk_mode % 4 == 3 ? CH_FIXED : CH_WHOLE;
	for (int i = 0; i < 2; i++) { S.wire_in_pol[i].mode = cm; S.wire_in_pol[i].k = 7; }
	S.script[0].push_back(Item{ IT_WRITE, 20, true });
	S.script[1].push_back(Item{ IT_WRITE, 20, true });
	S.on_established = [&]() { o.n_pre[0] = S.tap.recs[0].size(); o.n_pre[1] = S.tap.recs[1].size(); };
	o.quiesced = S.run(600000);
	// end of transport for whoever is still open while nothing moves any more
	Bytes sink;
	for (int side = 0; side < 2; side++) {
		BearEndpoint *e = side == 0 ? (BearEndpoint *)P.c.get() : (BearEndpoint *)P.s.get();
		o.ready[side] = S.ever_ready[side];
		if (mitm && !e->closed() && !(S.ever_ready[0] && S.ever_ready[1])) bear_transport_eof(e, &sink);
		o.closed[side] = e->closed();
		o.err[side] = e->error();
		o.recvd[side] = S.recvd[side];
	}
	o.recs[0] = S.tap.recs[0];
	o.recs[1] = S.tap.recs[1];
	if (!S.established) { o.n_pre[0] = o.recs[0].size(); o.n_pre[1] = o.recs[1].size(); }
	return o;
}

// reference (unfaulted) run of a kind: record layout, cached
struct Ref { bool ok = false; Outcome o; };
static std::map<unsigned, Ref> refs;
static Ref &reference(unsigned k, unsigned variant = 0)
{
	unsigned key = k * 4 + variant;
	auto it = refs.find(key);
	if (it != refs.end()) return it->second;
	Ref &R = refs[key];
	Pair P;
	make_pair(k, variant, P);
	R.o = run_conn(P, k, nullptr, 0);
	R.ok = R.o.ready[0] && R.o.ready[1] && R.o.recvd[0] == 20 && R.o.recvd[1] == 20 && R.o.err[0] == 0 && R.o.err[1] == 0;
	return R;
}

// the verdict every faulted run must meet; `dir` = direction of the altered bytes
static void judge(const Outcome &o, int dir, const std::string &what)
{
	int E = 1 - dir;
	const char *en = E ? "server" : "client";
	VF_CHECK(!o.ready[E], "%s: the %s became ready for application data although handshake bytes destined to it were altered (errors client %d, server %d)", what.c_str(), en, o.err[0], o.err[1]);
	VF_CHECK(o.recvd[0] == 0 && o.recvd[1] == 0, "%s: application data was delivered (%zu bytes to the server, %zu to the client) on a connection whose handshake was altered", what.c_str(), o.recvd[0], o.recvd[1]);
	VF_CHECK(o.closed[E] && o.err[E] != 0, "%s: the %s did not fail (closed %d, error %d) even after the end of transport", what.c_str(), en, (int)o.closed[E], o.err[E]);
	VF_CHECK(!(o.ready[0] && o.ready[1]), "%s: both sides completed the handshake", what.c_str());
}

// ------------------------------------------------------------- M0: byte faults
static void m0_case(unsigned k, int dir, size_t rec, size_t off, uint8_t mask, unsigned chunk_mode)
{
	Ref &R = reference(k);
	VF_CHECK(R.ok, "harness: reference handshake %s failed (errors %d/%d)", kind_desc(k).c_str(), R.o.err[0], R.o.err[1]);
	if (rec >= R.o.n_pre[dir] || mask == 0) return;
	const Record &rr = R.o.recs[dir][rec];
	if (rr.type == 23 || rr.type == 21 || off >= rr.payload.size()) return;
	Pair P;
	make_pair(k, 0, P);
	size_t count = 0;
	bool applied = false;
	Mitm m = [&](int d, const Record &r, std::vector<Bytes> &out) {
		Bytes b = r.raw();
		if (d == dir && count++ == rec) {
			VF_CHECK(r.payload == rr.payload, "harness: the session is not deterministic (record %zu of side %d differs from the reference run)", rec, dir);
			b[5 + off] ^= mask;
			applied = true;
		}
		out.push_back(b);
	};
	Outcome o = run_conn(P, k, m, chunk_mode);
	VF_CHECK(applied, "harness: fault position never reached");
	std::string what = fmt("%s: byte %zu of record #%zu (type %u%s, %zu bytes) from the %s XOR %02x", kind_desc(k).c_str(), off, rec, rr.type, rr.epoch ? ", encrypted" : "",
		rr.payload.size(), dir ? "server" : "client", mask);
	judge(o, dir, what);
	stats.cls(fmt("M0/%s/type%u%s", dir ? "s2c" : "c2s", rr.type, rr.epoch ? "enc" : ""));
	stats.eval_h(fnv(fmt("m0/%u/%d/%zu/%zu/%02x", k, dir, rec, off, mask)));
	if (stats.want_sample()) stats.sample(what + fmt(" => errors client %d, server %d", o.err[0], o.err[1]));
}

// ------------------------------------------------------------- M1: message-level edits
struct HsMsg { unsigned type; Bytes body; };
static std::vector<HsMsg> flight_msgs(const std::vector<Record> &recs)
{
	Bytes hs;
	for (auto &r : recs) if (r.epoch == 0 && r.type == 22) hs.insert(hs.end(), r.payload.begin(), r.payload.end());
	std::vector<HsMsg> v;
	size_t off = 0;
	while (off + 4 <= hs.size()) {
		size_t ml = ((size_t)hs[off + 1] << 16) | ((size_t)hs[off + 2] << 8) | hs[off + 3];
		if (off + 4 + ml > hs.size()) break;
		v.push_back(HsMsg{ hs[off], Bytes(hs.begin() + off + 4, hs.begin() + off + 4 + ml) });
		off += 4 + ml;
	}
	return v;
}
enum { E_NONE = 0, E_DROP, E_DUP, E_SWAP, E_RETYPE, E_SHORTEN, E_EXTEND, E_SUBST, E_CCS_DROP, E_CCS_DUP, E_CCS_EARLY, E_NEDITS };
static const char *EDIT_NAME[] = { "none", "drop", "duplicate", "swap-with-next", "retype", "shorten", "extend", "substitute-from-other-handshake", "drop-CCS", "double-CCS", "CCS-before" };

static void m1_case(unsigned k, int dir, unsigned edit, size_t mi, unsigned aux, unsigned chunk_mode)
{
	Ref &R = reference(k);
	VF_CHECK(R.ok, "harness: reference handshake %s failed", kind_desc(k).c_str());
	std::vector<HsMsg> refm = flight_msgs(R.o.recs[dir]);
	if (refm.empty()) return;
	mi %= refm.size();
	std::vector<HsMsg> donor;
	if (edit == E_SUBST) {
		Ref &D = reference(k, 1);
		VF_CHECK(D.ok, "harness: donor handshake failed");
		donor = flight_msgs(D.o.recs[dir]);
		if (mi >= donor.size() || donor[mi].type != refm[mi].type || donor[mi].body == refm[mi].body) { stats.excluded++; return; }   // identical message (e.g. ServerHelloDone): no alteration
	}
	if (edit == E_RETYPE) {
		static const unsigned TY[] = { 0, 1, 2, 11, 12, 13, 14, 15, 16, 20 };
		if (TY[aux % 10] == refm[mi].type) aux++;
	}
	Pair P;
	make_pair(k, 0, P);
	Bytes buf;
	size_t idx = 0;
	bool applied = false, have_held = false;
	HsMsg held;
	unsigned rec_ver = 0x0303;
	auto emit_msg = [&](const HsMsg &m, std::vector<Bytes> &out, long len_delta = 0) {
		Bytes b = { 22, (uint8_t)(rec_ver >> 8), (uint8_t)rec_ver, 0, 0 };
		size_t l = (size_t)((long)m.body.size() + len_delta);
		b.push_back((uint8_t)m.type); b.push_back((uint8_t)(l >> 16)); b.push_back((uint8_t)(l >> 8)); b.push_back((uint8_t)l);
		b.insert(b.end(), m.body.begin(), m.body.end());
		size_t pl = b.size() - 5;
		b[3] = (uint8_t)(pl >> 8); b[4] = (uint8_t)pl;
		out.push_back(b);
	};
	Mitm m = [&](int d, const Record &r, std::vector<Bytes> &out) {
		if (d != dir || r.epoch != 0) { out.push_back(r.raw()); return; }
		rec_ver = r.version;
		if (r.type == 20) {
			if (have_held) { emit_msg(held, out); have_held = false; }
			if (edit == E_CCS_DROP) { applied = true; return; }
			out.push_back(r.raw());
			if (edit == E_CCS_DUP) { out.push_back(r.raw()); applied = true; }
			return;
		}
		if (r.type != 22) { out.push_back(r.raw()); return; }
		buf.insert(buf.end(), r.payload.begin(), r.payload.end());
		for (;;) {
			if (buf.size() < 4) break;
			size_t ml = ((size_t)buf[1] << 16) | ((size_t)buf[2] << 8) | buf[3];
			if (buf.size() < 4 + ml) break;
			HsMsg cur{ buf[0], Bytes(buf.begin() + 4, buf.begin() + 4 + ml) };
			buf.erase(buf.begin(), buf.begin() + 4 + ml);
			size_t me = idx++;
			if (have_held) { emit_msg(cur, out); emit_msg(held, out); have_held = false; applied = true; continue; }
			if (me != mi) { emit_msg(cur, out); continue; }
			switch (edit) {
			case E_DROP: applied = true; break;
			case E_DUP: emit_msg(cur, out); emit_msg(cur, out); applied = true; break;
			case E_SWAP:
				// only when the next message is already there (same flight): otherwise nothing can be swapped
				if (buf.size() >= 4 && buf.size() >= 4 + (((size_t)buf[1] << 16) | ((size_t)buf[2] << 8) | buf[3])) { held = cur; have_held = true; }
				else emit_msg(cur, out);
				break;
			case E_RETYPE: { static const unsigned TY[] = { 0, 1, 2, 11, 12, 13, 14, 15, 16, 20 }; cur.type = TY[aux % 10]; emit_msg(cur, out); applied = true; break; }
			case E_SHORTEN: if (!cur.body.empty()) { cur.body.pop_back(); applied = true; } emit_msg(cur, out); break;
			case E_EXTEND: cur.body.push_back((uint8_t)aux); emit_msg(cur, out); applied = true; break;
			case E_SUBST: emit_msg(donor[mi], out); applied = true; break;
			case E_CCS_EARLY: { Bytes c = { 20, (uint8_t)(rec_ver >> 8), (uint8_t)rec_ver, 0, 1, 1 }; out.push_back(c); emit_msg(cur, out); applied = true; break; }
			default: emit_msg(cur, out);
			}
		}
	};
	Outcome o = run_conn(P, k, m, chunk_mode);
	std::string what = fmt("%s: %s message #%zu (type %u) of the %s's flight", kind_desc(k).c_str(), EDIT_NAME[edit], mi, refm[mi].type, dir ? "server" : "client");
	if (edit == E_NONE) {
		// positive control: the relay itself (one message per record) must be transparent
		VF_CHECK(o.ready[0] && o.ready[1] && o.recvd[0] == 20 && o.recvd[1] == 20, "%s: relaying the flight one message per record broke the handshake (errors %d/%d)", kind_desc(k).c_str(), o.err[0], o.err[1]);
		stats.cls("M1/control");
		stats.eval(fmt("m1c/%u/%d", k, dir));
		return;
	}
	if (!applied) { stats.excluded++; stats.cls("M1/not-applicable"); return; }
	judge(o, dir, what);
	stats.cls(fmt("M1/%s", EDIT_NAME[edit]));
	stats.eval_h(fnv(fmt("m1/%u/%d/%u/%zu/%u", k, dir, edit, mi, edit == E_RETYPE || edit == E_EXTEND ? aux : 0)));
	if (stats.want_sample()) stats.sample(what + fmt(" => errors client %d, server %d", o.err[0], o.err[1]));
}

// ------------------------------------------------------------- M2: choices that were not offered
struct EvilPolicy {
	const br_ssl_server_policy_class *vt;
	const br_ssl_server_policy_class **inner;
	uint16_t force;
	unsigned key_type;
	const br_x509_certificate *chain;
	size_t chain_len;
};
static int evil_choose(const br_ssl_server_policy_class **pctx, const br_ssl_server_context *cc, br_ssl_server_choices *ch)
{
	EvilPolicy *ep = (EvilPolicy *)pctx;
	(*ep->inner)->choose(ep->inner, cc, ch);
	ch->chain = ep->chain;
	ch->chain_len = ep->chain_len;
	ch->cipher_suite = ep->force;
	unsigned ver = cc->eng.session.version;
	ch->algo_id = ver >= 0x0303 ? 0xFF04 : (ep->key_type == BR_KEYTYPE_RSA ? 0xFF00 : 0xFF02);
	return 1;
}
static uint32_t evil_keyx(const br_ssl_server_policy_class **pctx, unsigned char *data, size_t *len) { EvilPolicy *ep = (EvilPolicy *)pctx; return (*ep->inner)->do_keyx(ep->inner, data, len); }
static size_t evil_sign(const br_ssl_server_policy_class **pctx, unsigned algo_id, unsigned char *data, size_t hv_len, size_t len) { EvilPolicy *ep = (EvilPolicy *)pctx; return (*ep->inner)->do_sign(ep->inner, algo_id, data, hv_len, len); }
static const br_ssl_server_policy_class EVIL_VT = { sizeof(EvilPolicy), evil_choose, evil_keyx, evil_sign };

// the 45 suites in the order of the "full" client profile (what init_full leaves in suites_buf)
static std::vector<uint16_t> full_order()
{
	static std::vector<uint16_t> v;
	if (v.empty()) {
		br_ssl_client_context cc;
		br_x509_minimal_context xc;
		br_ssl_client_init_full(&cc, &xc, FX_TAS, FX_TAS_NUM);
		for (size_t i = 0; i < cc.eng.suites_num; i++) v.push_back(cc.eng.suites_buf[i]);
	}
	return v;
}

static void m2_suite_case(Tape &t)
{
	std::vector<uint16_t> full = full_order();
	// client: full profile narrowed to 1..3 suites
	unsigned n = 1 + t.u8() % 3;
	std::vector<uint16_t> offered;
	for (unsigned i = 0; i < n; i++) { uint16_t s = full[t.u8() % full.size()]; if (std::find(offered.begin(), offered.end(), s) == offered.end()) offered.push_back(s); }
	// the forced suite: the stale slot after the narrowed list, or any other suite not offered
	uint16_t force = t.flag() ? full[offered.size() % full.size()] : full[t.u8() % full.size()];
	if (std::find(offered.begin(), offered.end(), force) != offered.end()) { stats.excluded++; return; }
	const wt::SuiteInfo *fs = wt::suite_by_id(force);
	unsigned ver = fs->tls12_only ? 0x0303 : 0x0301 + t.u8() % 3;
	// the offer must contain a suite usable at this version, else there is no ServerHello at all
	bool usable = false;
	for (uint16_t s : offered) { const wt::SuiteInfo *si = wt::suite_by_id(s); if (!si->tls12_only || ver == 0x0303) usable = true; }
	if (!usable) { stats.excluded++; return; }
	Profile cp, sp;
	cp.suites = offered;
	cp.vmin = cp.vmax = sp.vmin = sp.vmax = ver;
	sp.key = keys_for(fs)[0];
	sp.suites = offered;
	sp.suites.push_back(force);
	for (int i = 0; i < 32; i++) { cp.entropy[i] = (uint8_t)(force + i); sp.entropy[i] = (uint8_t)(force * 3 + i); }
	BearClient c(cp);
	BearServer s(sp);
	EvilPolicy ep;
	ep.vt = &EVIL_VT;
	ep.inner = s.ss->policy_vtable;
	ep.force = force;
	ep.key_type = sp.key == K_RSA ? BR_KEYTYPE_RSA : BR_KEYTYPE_EC;
	ep.chain = sp.key == K_RSA ? FX_RSA_CHAIN : sp.key == K_EC ? FX_EC_CHAIN : FX_ECRSA_CHAIN;
	ep.chain_len = 2;
	br_ssl_server_set_policy(s.ss.get(), &ep.vt);
	VF_CHECK(c.reset() && s.reset(), "harness: reset");
	Session S(&c, &s);
	S.script[0].push_back(Item{ IT_WRITE, 20, true });
	S.script[1].push_back(Item{ IT_WRITE, 20, true });
	S.run(400000);
	std::string off;
	for (uint16_t x : offered) off += fmt("%04x ", x);
	std::string what = fmt("client offering [%s] (narrowed from the full list), TLS%s, server answers with suite %04x (%s)%s", off.c_str(), ver_name(ver), force, fs->name,
		force == full[offered.size() % full.size()] ? " = the stale slot after the client's list" : "");
	// did the server really say so?
	ServerFlight sf;
	{ Bytes w; for (auto &r : S.tap.recs[1]) { Bytes b = r.raw(); w.insert(w.end(), b.begin(), b.end()); } sf = parse_server_flight(w); }
	if (!sf.got_hello || sf.suite != force) { stats.excluded++; stats.cls("M2/no-hello"); return; }
	VF_CHECK(!S.ever_ready[0], "%s: the client completed the handshake on a suite it had not offered", what.c_str());
	VF_CHECK(c.closed() && c.error() != 0, "%s: the client did not fail (error %d)", what.c_str(), c.error());
	VF_CHECK(S.recvd[0] == 0 && S.recvd[1] == 0, "%s: application data was delivered", what.c_str());
	stats.cls("M2/suite-not-offered");
	stats.eval_h(fnv(what));
	if (stats.want_sample()) stats.sample(what + fmt(" => client error %d", c.error()));
}

static void m2_version_case(Tape &t)
{
	// client allows [cmin, cmax]; the ClientHello is rewritten to announce `fake` so that a
	// server allowing everything answers with a version outside the client's range
	unsigned cmin = 0x0301 + t.u8() % 3, cmax = cmin + t.u8() % (0x0304 - cmin);
	unsigned fake = 0x0300 + t.u8() % 5;
	Profile cp, sp;
	cp.suites = { 0x002F }; sp.suites = { 0x002F };
	cp.vmin = cmin; cp.vmax = cmax;
	sp.vmin = 0x0301; sp.vmax = 0x0303;
	BearClient c(cp);
	BearServer s(sp);
	VF_CHECK(c.reset() && s.reset(), "harness: reset");
	Session S(&c, &s);
	bool first = true;
	S.mitm = [&](int d, const Record &r, std::vector<Bytes> &out) {
		Bytes b = r.raw();
		if (d == 0 && first && r.type == 22 && b.size() > 11) { b[9] = (uint8_t)(fake >> 8); b[10] = (uint8_t)fake; first = false; }
		out.push_back(b);
	};
	S.script[0].push_back(Item{ IT_WRITE, 20, true });
	S.script[1].push_back(Item{ IT_WRITE, 20, true });
	S.run(400000);
	Bytes sink;
	if (!c.closed()) bear_transport_eof(&c, &sink);
	if (!s.closed()) bear_transport_eof(&s, &sink);
	std::string what = fmt("client allowing TLS %s..%s, ClientHello rewritten to announce %04x", ver_name(cmin), ver_name(cmax), fake);
	if (fake == cmax) { stats.excluded++; return; }   // nothing altered
	VF_CHECK(!S.ever_ready[1], "%s: the server completed the handshake", what.c_str());
	VF_CHECK(S.recvd[0] == 0 && S.recvd[1] == 0, "%s: application data was delivered", what.c_str());
	VF_CHECK(s.closed() && s.error() != 0 && c.closed() && c.error() != 0, "%s: errors client %d server %d", what.c_str(), c.error(), s.error());
	VF_CHECK(!S.ever_ready[0], "%s: the client completed the handshake (negotiated %04x)", what.c_str(), br_ssl_engine_get_version(c.eng));
	stats.cls("M2/version");
	stats.eval_h(fnv(what));
}

// ------------------------------------------------------------- M3: instrumented validator
struct SpyX509 {
	const br_x509_class *vt;
	// script
	unsigned verdict = 0;
	br_x509_pkey key;
	unsigned usages = BR_KEYTYPE_KEYX | BR_KEYTYPE_SIGN;
	bool null_key = false;
	// observations
	int n_start_chain = 0, n_end_chain = 0, n_get_pkey = 0;
	std::string name;
	bool name_null = true;
	std::vector<Bytes> certs;
	std::vector<uint32_t> announced;
	bool order_ok = true;
	bool in_cert = false;
};
static void spy_start_chain(const br_x509_class **ctx, const char *name) { SpyX509 *s = (SpyX509 *)ctx; s->n_start_chain++; s->name_null = name == nullptr; s->name = name ? name : ""; s->certs.clear(); s->announced.clear(); }
static void spy_start_cert(const br_x509_class **ctx, uint32_t len) { SpyX509 *s = (SpyX509 *)ctx; if (s->in_cert) s->order_ok = false; s->in_cert = true; s->certs.push_back(Bytes()); s->announced.push_back(len); }
static void spy_append(const br_x509_class **ctx, const unsigned char *buf, size_t len) { SpyX509 *s = (SpyX509 *)ctx; if (!s->in_cert || s->certs.empty()) { s->order_ok = false; return; } s->certs.back().insert(s->certs.back().end(), buf, buf + len); }
static void spy_end_cert(const br_x509_class **ctx) { SpyX509 *s = (SpyX509 *)ctx; if (!s->in_cert) s->order_ok = false; s->in_cert = false; }
static unsigned spy_end_chain(const br_x509_class **ctx) { SpyX509 *s = (SpyX509 *)ctx; s->n_end_chain++; return s->verdict; }
static const br_x509_pkey *spy_get_pkey(const br_x509_class *const *ctx, unsigned *usages)
{
	SpyX509 *s = (SpyX509 *)ctx;
	s->n_get_pkey++;
	if (usages) *usages = s->usages;
	return s->null_key ? nullptr : &s->key;
}
static const br_x509_class SPY_VT = { sizeof(SpyX509), spy_start_chain, spy_start_cert, spy_append, spy_end_cert, spy_end_chain, spy_get_pkey };

// public keys of the fixture chains (leaf): decoded once with the certificate decoder
struct LeafKey { br_x509_pkey pk; Bytes a, b; };
static LeafKey leaf_key(const br_x509_certificate &c)
{
	br_x509_decoder_context dc;
	br_x509_decoder_init(&dc, nullptr, nullptr, nullptr, nullptr);
	br_x509_decoder_push(&dc, c.data, c.data_len);
	br_x509_pkey *pk = br_x509_decoder_get_pkey(&dc);
	LeafKey k;
	memset(&k.pk, 0, sizeof k.pk);
	VF_CHECK(pk != nullptr, "harness: cannot decode a fixture certificate");
	k.pk.key_type = pk->key_type;
	if (pk->key_type == BR_KEYTYPE_RSA) { k.a.assign(pk->key.rsa.n, pk->key.rsa.n + pk->key.rsa.nlen); k.b.assign(pk->key.rsa.e, pk->key.rsa.e + pk->key.rsa.elen); }
	else { k.a.assign(pk->key.ec.q, pk->key.ec.q + pk->key.ec.qlen); k.pk.key.ec.curve = pk->key.ec.curve; }
	return k;
}
static void bind(LeafKey &k)
{
	if (k.pk.key_type == BR_KEYTYPE_RSA) { k.pk.key.rsa.n = k.a.data(); k.pk.key.rsa.nlen = k.a.size(); k.pk.key.rsa.e = k.b.data(); k.pk.key.rsa.elen = k.b.size(); }
	else { k.pk.key.ec.q = k.a.data(); k.pk.key.ec.qlen = k.a.size(); }
}

enum { KS_REAL = 0, KS_OTHER_SAME_TYPE, KS_WRONG_TYPE, KS_WEAK, KS_BAD_CURVE, KS_NULL, KS_ALTERED, KS_HUGE, KS_N };
static const char *KS_NAME[] = { "the peer's key", "another key of the same type", "a key of the other type", "a weak key", "an unsupported curve", "no key", "the peer's key with one bit changed",
	"an RSA key larger than the engine's 512-byte work area (a validator of the application's own may return one)" };

static void m3_case(Tape &t)
{
	bool server_side = t.u8() % 4 == 0;   // validator on the server (client certificates)
	static const uint16_t SUITES[] = { 0xC02F, 0x002F, 0xC02B, 0xC004, 0xC00E, 0xCCA9, 0x009C, 0xC013, 0xC009 };
	uint16_t suite = SUITES[t.u8() % 9];
	const wt::SuiteInfo *si = wt::suite_by_id(suite);
	unsigned ver = si->tls12_only ? 0x0303 : 0x0301 + t.u8() % 3;
	Profile cp, sp;
	cp.suites = { suite }; sp.suites = { suite };
	cp.vmin = cp.vmax = sp.vmin = sp.vmax = ver;
	sp.key = keys_for(si)[t.u8() % keys_for(si).size()];
	int ckey = t.pick<int>({ K_RSA, K_EC, K_ECRSA });
	if (server_side) { cp.client_auth = sp.client_auth = true; cp.client_key = ckey; }
	for (int i = 0; i < 32; i++) { cp.entropy[i] = (uint8_t)(suite + i * 5); sp.entropy[i] = (uint8_t)(suite * 3 + i); }
	// which chain does the validator get to see, and which key certifies it?
	const br_x509_certificate *peer_chain = server_side ? (ckey == K_RSA ? FX_RSA_CHAIN : ckey == K_EC ? FX_EC_CHAIN : FX_ECRSA_CHAIN)
		: (sp.key == K_RSA ? FX_RSA_CHAIN : sp.key == K_EC ? FX_EC_CHAIN : FX_ECRSA_CHAIN);
	LeafKey real = leaf_key(peer_chain[0]);
	LeafKey rsa_other = leaf_key(FX_RSA_CHAIN[1]);     // the intermediate's key: RSA, not held by the peer
	LeafKey ec_other = leaf_key(FX_EC_CHAIN[1]);
	LeafKey rsa_real = leaf_key(FX_RSA_CHAIN[0]), ec_real = leaf_key(FX_EC_CHAIN[0]);
	SpyX509 spy;
	spy.vt = &SPY_VT;
	static const unsigned VERDICTS[] = { 0, 0, 0, 0, BR_ERR_X509_NOT_TRUSTED, BR_ERR_X509_EXPIRED, BR_ERR_X509_BAD_SERVER_NAME, BR_ERR_X509_BAD_SIGNATURE, BR_ERR_X509_CRITICAL_EXTENSION, BR_ERR_X509_EMPTY_CHAIN, BR_ERR_X509_WEAK_PUBLIC_KEY, 1, 255 };
	spy.verdict = VERDICTS[t.u8() % 13];
	unsigned ks = t.u8() % 12;
	if (ks >= KS_N) ks = KS_REAL;
	spy.usages = t.pick<unsigned>({ BR_KEYTYPE_KEYX | BR_KEYTYPE_SIGN, BR_KEYTYPE_KEYX | BR_KEYTYPE_SIGN, BR_KEYTYPE_KEYX, BR_KEYTYPE_SIGN, 0 });
	LeafKey use = real;
	Bytes weak_n(40, 0xC1), weak_e = { 3 };
	switch (ks) {
	case KS_OTHER_SAME_TYPE: use = real.pk.key_type == BR_KEYTYPE_RSA ? rsa_other : ec_other; break;
	case KS_WRONG_TYPE: use = real.pk.key_type == BR_KEYTYPE_RSA ? ec_real : rsa_real; break;
	case KS_WEAK: if (real.pk.key_type == BR_KEYTYPE_RSA) { use.a = weak_n; use.a.back() |= 1; use.b = weak_e; } else { use.a.resize(33, 4); } break;
	case KS_BAD_CURVE: if (real.pk.key_type == BR_KEYTYPE_EC) use.pk.key.ec.curve = t.pick<int>({ 0, 22, 26, 29, 31 }); else ks = KS_REAL; break;
	case KS_NULL: spy.null_key = true; break;
	case KS_ALTERED: use.a[use.a.size() / 2] ^= 0x04; break;
	case KS_HUGE: {
		size_t nl = t.pick<size_t>({ 513, 516, 520, 640, 1024, 2048 });
		use.pk.key_type = BR_KEYTYPE_RSA;
		use.a.assign(nl, 0xB7); use.a[0] = 0xC1; use.a.back() |= 1;
		use.b = { 1, 0, 1 };
		break;
	}
	}
	bind(use);
	spy.key = use.pk;
	std::unique_ptr<BearClient> c(server_side ? new BearClient(cp) : new BearClient(cp, &spy.vt));
	std::unique_ptr<BearServer> s(server_side ? new BearServer(sp, &spy.vt) : new BearServer(sp));
	VF_CHECK(c->reset() && s->reset(), "harness: reset");
	Session S(c.get(), s.get());
	S.script[0].push_back(Item{ IT_WRITE, 20, true });
	S.script[1].push_back(Item{ IT_WRITE, 20, true });
	S.run(400000);
	Bytes sink;
	bool done = S.ever_ready[0] && S.ever_ready[1];
	if (!done) { if (!c->closed()) bear_transport_eof(c.get(), &sink); if (!s->closed()) bear_transport_eof(s.get(), &sink); }
	int V = server_side ? 1 : 0;   // the validating side
	BearEndpoint *ve = V ? (BearEndpoint *)s.get() : (BearEndpoint *)c.get();
	// what the suite needs from the validated key
	unsigned need_type, need_usage;
	if (server_side) {
		// client certificate: a signature (CertificateVerify), except static-ECDH client authentication which BearSSL clients use only with ECDH suites and EC keys
		need_type = real.pk.key_type;
		need_usage = BR_KEYTYPE_SIGN;
	} else {
		switch (si->kx) {
		case wt::KX_RSA: need_type = BR_KEYTYPE_RSA; need_usage = BR_KEYTYPE_KEYX; break;
		case wt::KX_ECDHE_RSA: need_type = BR_KEYTYPE_RSA; need_usage = BR_KEYTYPE_SIGN; break;
		case wt::KX_ECDHE_ECDSA: need_type = BR_KEYTYPE_EC; need_usage = BR_KEYTYPE_SIGN; break;
		default: need_type = BR_KEYTYPE_EC; need_usage = BR_KEYTYPE_KEYX; break;
		}
	}
	bool static_ecdh_client_auth = server_side && (si->kx == wt::KX_ECDH_ECDSA || si->kx == wt::KX_ECDH_RSA) && ckey != K_RSA;
	bool expect = spy.verdict == 0 && ks == KS_REAL && (spy.usages & need_usage) != 0 && use.pk.key_type == need_type;
	std::string what = fmt("%s TLS%s, instrumented validator on the %s: verdict %u, returns %s with usages %#x (suite needs %s)", si->name, ver_name(ver), V ? "server" : "client", spy.verdict, KS_NAME[ks], spy.usages,
		need_usage == BR_KEYTYPE_SIGN ? "SIGN" : "KEYX");
	if (static_ecdh_client_auth) {
		// the client may authenticate with a static ECDH key: then the usage needed is KEYX and no
		// CertificateVerify exists; which of the two the client picks is its own policy: only the
		// one-directional statements are checked
		// (a curve identifier that contradicts the point bytes cannot come from a real validator: the
		// server computes on its own curve and rejects points that are not on it; not judged)
		if (spy.verdict != 0 || (ks != KS_REAL && ks != KS_BAD_CURVE)) VF_CHECK(!S.ever_ready[V], "%s: the server became ready", what.c_str());
		stats.excluded++;
		return;
	}
	// what the validator saw
	if (spy.n_start_chain > 0) {
		VF_CHECK(spy.order_ok, "%s: validator methods were called out of order", what.c_str());
		if (V == 0) VF_CHECK(!spy.name_null && spy.name == "localhost", "%s: validator was started for name '%s', the client was configured for 'localhost'", what.c_str(), spy.name.c_str());
		else VF_CHECK(spy.name_null, "%s: server-side validator was given a server name '%s'", what.c_str(), spy.name.c_str());
		if (spy.n_end_chain > 0) {
			VF_CHECK(spy.certs.size() == 2, "%s: validator saw %zu certificates, the peer sent 2", what.c_str(), spy.certs.size());
			for (size_t i = 0; i < spy.certs.size() && i < 2; i++)
				VF_CHECK(spy.certs[i] == Bytes(peer_chain[i].data, peer_chain[i].data + peer_chain[i].data_len) && spy.announced[i] == peer_chain[i].data_len,
					"%s: certificate #%zu shown to the validator (%zu bytes, announced %u) is not what the peer sent (%zu bytes)", what.c_str(), i, spy.certs[i].size(), spy.announced[i], peer_chain[i].data_len);
		}
	}
	if (expect) {
		VF_CHECK(done && S.recvd[0] == 20 && S.recvd[1] == 20, "%s: everything fits, but the handshake failed (errors client %d, server %d)", what.c_str(), c->error(), s->error());
		VF_CHECK(spy.n_start_chain == 1 && spy.n_end_chain == 1 && spy.n_get_pkey >= 1, "%s: validator calls: start_chain %d, end_chain %d, get_pkey %d", what.c_str(), spy.n_start_chain, spy.n_end_chain, spy.n_get_pkey);
	} else {
		VF_CHECK(!S.ever_ready[V], "%s: the %s became ready for application data", what.c_str(), V ? "server" : "client");
		VF_CHECK(ve->closed() && ve->error() != 0, "%s: the %s did not fail (error %d)", what.c_str(), V ? "server" : "client", ve->error());
		VF_CHECK(S.recvd[0] == 0 && S.recvd[1] == 0, "%s: application data was delivered (%zu / %zu bytes)", what.c_str(), S.recvd[0], S.recvd[1]);
		if (spy.verdict != 0 && spy.n_end_chain > 0) VF_CHECK(ve->error() == (int)spy.verdict, "%s: the validator's verdict %u is not the reported error (%d)", what.c_str(), spy.verdict, ve->error());
	}
	stats.cls(fmt("M3/%s/%s", V ? "server" : "client", expect ? "accept" : spy.verdict ? "verdict" : ks != KS_REAL ? "key" : "usage-or-type"));
	stats.eval_h(fnv(what + fmt("/%d/%d", (int)sp.key, ckey)));
	if (stats.want_sample()) stats.sample(what + fmt(" => %s, errors client %d, server %d", done ? "completed" : "failed", c->error(), s->error()));
}

// ------------------------------------------------------------- M4: resumption of a session that was never established
// A first connection is cut after j records of the genuine server flight have reached the
// client (or completes, as the positive control).  The application then reconnects with the
// documented "try session resumption" call.  The peer of the second connection holds no key:
// it echoes whatever session ID the client offers and answers with ChangeCipherSpec + Finished
// computed from a master secret an outsider can know (all zeros on a context that never
// completed a handshake).  The client must not become ready.  Control: with the master secret
// of a session that really completed, the same scripted peer IS accepted (so the script is a
// correct abbreviated handshake and a rejection is the client's decision).
static Bytes hs_msg(unsigned type, const Bytes &body) { Bytes m = { (uint8_t)type, (uint8_t)(body.size() >> 16), (uint8_t)(body.size() >> 8), (uint8_t)body.size() }; m.insert(m.end(), body.begin(), body.end()); return m; }
static Bytes rec_of(unsigned type, unsigned ver, const Bytes &payload) { Bytes r = { (uint8_t)type, (uint8_t)(ver >> 8), (uint8_t)ver, (uint8_t)(payload.size() >> 8), (uint8_t)payload.size() }; r.insert(r.end(), payload.begin(), payload.end()); return r; }
static Bytes transcript_hash(unsigned ver, wt::Prf prf, const Bytes &msgs)
{
	Bytes h;
	unsigned l = 0;
	if (ver >= 0x0303) { h.resize(64); EVP_Digest(msgs.data(), msgs.size(), h.data(), &l, prf == wt::P_SHA384 ? EVP_sha384() : EVP_sha256(), nullptr); h.resize(l); }
	else { h.resize(36); EVP_Digest(msgs.data(), msgs.size(), h.data(), &l, EVP_md5(), nullptr); EVP_Digest(msgs.data(), msgs.size(), h.data() + 16, &l, EVP_sha1(), nullptr); }
	return h;
}
static void m4_case(Tape &t)
{
	static const uint16_t SUITES[] = { 0x009C, 0xC02F, 0x002F, 0xCCA8, 0x003C, 0xC013 };
	uint16_t suite = SUITES[t.u8() % 6];
	const wt::SuiteInfo *si = wt::suite_by_id(suite);
	unsigned ver = si->tls12_only ? 0x0303 : 0x0301 + t.u8() % 3;
	bool control = t.u8() % 4 == 0;      // first connection completes: the scripted peer uses the real master secret
	bool earlier = !control && t.u8() % 3 == 0;   // a completed session precedes the aborted one
	Profile cp, sp;
	cp.suites = { suite }; sp.suites = { suite };
	cp.vmin = cp.vmax = sp.vmin = sp.vmax = ver;
	sp.key = keys_for(si)[0];
	cp.resume = true;
	for (int i = 0; i < 32; i++) { cp.entropy[i] = (uint8_t)(suite + i * 3); sp.entropy[i] = (uint8_t)(suite * 5 + i); }
	BearClient c(cp);
	BearServer s(sp);
	std::string what = fmt("%s TLS%s: ", si->name, ver_name(ver));
	auto full_session = [&]() {
		VF_CHECK(c.reset() && s.reset(), "harness: reset");
		Session S(&c, &s);
		S.script[0].push_back(Item{ IT_WRITE, 3, true });
		S.script[0].push_back(Item{ IT_WAIT_PEER_IDLE, 0, true });
		S.script[0].push_back(Item{ IT_CLOSE, 0, true });
		S.run(400000);
		VF_CHECK(S.established && S.recvd[0] == 3, "harness: complete session failed (errors %d/%d)", c.error(), s.error());
	};
	uint8_t attacker_master[48] = { 0 };
	if (control || earlier) full_session();
	if (control) {
		br_ssl_session_parameters pp;
		br_ssl_engine_get_session_parameters(c.eng, &pp);
		memcpy(attacker_master, pp.master_secret, 48);
		what += "control: first connection completed, scripted peer resumes it with the genuine master secret";
	} else {
		// the aborted connection: cut after j server records have been delivered to the client
		VF_CHECK(c.reset() && s.reset(), "harness: reset");
		Session S(&c, &s);
		unsigned j = 1 + t.u8() % 4;   // number of messages of the server's first flight that get through
		unsigned seen = 0;
		S.mitm = [&](int d, const Record &r, std::vector<Bytes> &out) {
			if (d == 0) { out.push_back(r.raw()); return; }
			if (seen >= j || r.type != 22 || r.epoch != 0) return;
			Bytes keep;
			size_t o = 0;
			while (o + 4 <= r.payload.size() && seen < j) {
				size_t ml = ((size_t)r.payload[o + 1] << 16) | ((size_t)r.payload[o + 2] << 8) | r.payload[o + 3];
				if (o + 4 + ml > r.payload.size()) break;
				keep.insert(keep.end(), r.payload.begin() + o, r.payload.begin() + o + 4 + ml);
				o += 4 + ml;
				seen++;
			}
			if (!keep.empty()) out.push_back(rec_of(22, r.version, keep));
			if (o < r.payload.size()) seen = j;   // the rest of the flight is lost
		};
		S.run(400000);
		VF_CHECK(!S.ever_ready[0], "harness: cut connection completed");
		what += fmt("first connection cut after %u message(s) of the server flight%s; reconnect with resume_session=1 to a peer without any key, which uses an all-zero master secret", seen, earlier ? " (a completed session precedes it)" : "");
		if (earlier) {
			// the attacker of this scenario does not know the older master secret; an all-zero guess must fail
		}
	}
	// second connection: scripted keyless peer
	VF_CHECK(c.reset(), "harness: client reset");
	Bytes ch;
	{
		const uint8_t *p;
		size_t n;
		Framer fr;
		std::vector<Record> recs;
		for (int g = 0; g < 50 && recs.empty(); g++) if ((n = c.wire_out_peek(&p)) > 0) { fr.feed(p, n, recs); c.wire_out_ack(n); }
		VF_CHECK(!recs.empty() && recs[0].type == 22 && recs[0].payload.size() > 39, "harness: no ClientHello");
		ch = recs[0].payload;
	}
	size_t idlen = ch[4 + 2 + 32];
	Bytes offered(ch.begin() + 39, ch.begin() + 39 + idlen);
	Bytes crand(ch.begin() + 6, ch.begin() + 38);
	if (idlen == 0) {
		// nothing to echo: the client insists on a full handshake, which a keyless peer cannot complete
		VF_CHECK(!control, "%s: the client did not offer the session it had just completed", what.c_str());
		stats.cls("M4/no-session-offered");
		stats.eval(what + fmt("/%04x/%04x", suite, ver));
		return;
	}
	Bytes srand(32, 0x5C);
	Bytes shb = { (uint8_t)(ver >> 8), (uint8_t)ver };
	shb.insert(shb.end(), srand.begin(), srand.end());
	shb.push_back((uint8_t)idlen);
	shb.insert(shb.end(), offered.begin(), offered.end());
	shb.push_back((uint8_t)(suite >> 8)); shb.push_back((uint8_t)suite);
	shb.push_back(0);
	Bytes sh = hs_msg(2, shb);
	Bytes transcript = ch;
	transcript.insert(transcript.end(), sh.begin(), sh.end());
	wt::KeyMat km;
	km.version = (uint16_t)ver; km.suite = suite;
	memcpy(km.master, attacker_master, 48);
	memcpy(km.cr, crand.data(), 32); memcpy(km.sr, srand.data(), 32);
	wt::RecCodec out_codec;
	VF_CHECK(out_codec.init(km, false), "harness: codec");
	Bytes th = transcript_hash(ver, si->prf, transcript);
	Bytes vd(12);
	VF_CHECK(wt::tls_prf(ver, si->prf, km.master, 48, "server finished", th.data(), th.size(), vd.data(), 12), "harness: prf");
	Bytes fin = hs_msg(20, vd);
	Bytes wire = rec_of(22, ver, sh);
	Bytes ccs = rec_of(20, ver, Bytes{ 1 });
	wire.insert(wire.end(), ccs.begin(), ccs.end());
	Bytes finrec = rec_of(22, ver, out_codec.encrypt(22, ver, fin.data(), fin.size()));
	wire.insert(wire.end(), finrec.begin(), finrec.end());
	const char *hello = "hello from nobody";
	Bytes apprec = rec_of(23, ver, out_codec.encrypt(23, ver, (const uint8_t *)hello, strlen(hello)));
	wire.insert(wire.end(), apprec.begin(), apprec.end());
	size_t off = 0, delivered = 0;
	bool ready = false;
	for (int g = 0; g < 100000; g++) {
		bool prog = false;
		const uint8_t *p;
		size_t n;
		while ((n = c.app_in_peek(&p)) > 0) { delivered += n; c.app_in_ack(n); prog = true; }
		if ((n = c.wire_out_peek(&p)) > 0) { c.wire_out_ack(n); prog = true; }
		if (c.ready()) ready = true;
		size_t room = c.wire_in_room();
		if (room && off < wire.size()) { size_t k = std::min(room, wire.size() - off); c.wire_in(wire.data() + off, k); off += k; prog = true; }
		if (c.closed() || !prog) break;
	}
	if (control) {
		VF_CHECK(ready && delivered == strlen(hello), "harness: the scripted abbreviated handshake is not accepted even with the genuine master secret (client error %d): the script is wrong", c.error());
		stats.cls("M4/control");
		stats.eval(what + fmt("/%04x/%04x", suite, ver));
		return;
	}
	VF_CHECK(!ready && delivered == 0, "%s: the client completed an abbreviated handshake (%zu application bytes delivered) although no certificate was ever validated for that session", what.c_str(), delivered);
	VF_CHECK(c.closed() && c.error() != 0, "%s: the client did not fail (error %d)", what.c_str(), c.error());
	stats.cls("M4/refused");
	stats.eval(what + fmt("/%04x/%04x", suite, ver));
	if (stats.want_sample()) stats.sample(what + fmt(" => client error %d", c.error()));
}

// ------------------------------------------------------------- M5: undue version fallback
// A client on its fallback retry announces a lower version together with TLS_FALLBACK_SCSV
// (0x5600).  A server that supports a higher version must answer inappropriate_fallback and
// nobody may become ready; when the announced version IS the server's highest, the handshake
// completes (control).
static void m5_case(Tape &t)
{
	static const uint16_t SUITES[] = { 0x002F, 0xC013, 0x0035, 0xC014, 0x000A };
	uint16_t suite = SUITES[t.u8() % 5];
	unsigned smax = 0x0301 + t.u8() % 3, cmax = 0x0301 + t.u8() % 3;
	if (cmax > smax) std::swap(cmax, smax);
	bool scsv_first = t.flag();
	Profile cp, sp;
	cp.suites = scsv_first ? std::vector<uint16_t>{ 0x5600, suite } : std::vector<uint16_t>{ suite, 0x5600 };
	sp.suites = { suite };
	cp.vmin = 0x0301; cp.vmax = cmax;
	sp.vmin = 0x0301; sp.vmax = smax;
	sp.key = keys_for(wt::suite_by_id(suite))[0];
	BearClient c(cp);
	BearServer s(sp);
	VF_CHECK(c.reset() && s.reset(), "harness: reset");
	Session S(&c, &s);
	S.script[0].push_back(Item{ IT_WRITE, 20, true });
	S.script[1].push_back(Item{ IT_WRITE, 20, true });
	S.run(400000);
	std::string what = fmt("client announcing TLS %s with TLS_FALLBACK_SCSV, server supporting up to TLS %s (suite %04x)", ver_name(cmax), ver_name(smax), suite);
	if (cmax == smax) {
		VF_CHECK(S.ever_ready[0] && S.ever_ready[1] && S.recvd[0] == 20 && S.recvd[1] == 20, "%s: not a fallback, yet the handshake failed (errors %d/%d)", what.c_str(), c.error(), s.error());
		stats.cls("M5/control");
	} else {
		VF_CHECK(!S.ever_ready[0] && !S.ever_ready[1], "%s: the handshake completed at TLS %s: undue version fallback accepted", what.c_str(), ver_name(br_ssl_engine_get_version(s.eng)));
		VF_CHECK(S.recvd[0] == 0 && S.recvd[1] == 0, "%s: application data was delivered", what.c_str());
		VF_CHECK(s.closed() && s.error() == BR_ERR_SEND_FATAL_ALERT + 86, "%s: server error %d, expected the inappropriate_fallback alert (%d)", what.c_str(), s.error(), BR_ERR_SEND_FATAL_ALERT + 86);
		VF_CHECK(c.closed() && c.error() != 0, "%s: the client did not fail", what.c_str());
		stats.cls("M5/refused");
	}
	stats.eval(what + (scsv_first ? "/first" : "/last"));
}

// ------------------------------------------------------------- probe: the fallback SCSV chosen as THE cipher suite
// An application that lists TLS_FALLBACK_SCSV (0x5600, the documented way to announce a voluntary
// downgrade) against a server that answers with 0x5600 as selected suite.  The client must fail
// with an error; it runs in a child process because the listed finding is a crash.
#include <sys/wait.h>
#include <unistd.h>
extern "C" void __sanitizer_set_death_callback(void (*)(void)) __attribute__((weak));
static void probe_scsv_selected()
{
	fflush(nullptr);
	pid_t pid = fork();
	if (pid == 0) {
		Profile cp, sp;
		cp.suites = { 0x002F, 0x5600 };
		sp.suites = { 0x002F };
		cp.vmin = cp.vmax = sp.vmin = sp.vmax = 0x0303;
		BearClient c(cp);
		BearServer s(sp);
		EvilPolicy ep;
		ep.vt = &EVIL_VT;
		ep.inner = s.ss->policy_vtable;
		ep.force = 0x5600;
		ep.key_type = BR_KEYTYPE_RSA;
		ep.chain = FX_RSA_CHAIN;
		ep.chain_len = 2;
		br_ssl_server_set_policy(s.ss.get(), &ep.vt);
		signal(SIGSEGV, SIG_DFL); signal(SIGBUS, SIG_DFL); signal(SIGABRT, SIG_DFL);
		if (__sanitizer_set_death_callback) __sanitizer_set_death_callback(nullptr);   // the child's fate is read from its exit status only
		int rc = 43;
		try {
			if (c.reset() && s.reset()) {
				Session S(&c, &s);
				S.run(100000);
				Bytes sink;
				if (!c.closed()) bear_transport_eof(&c, &sink);
				rc = S.ever_ready[0] ? 42 : (c.closed() && c.error() != 0) ? 40 : 41;
				if (getenv("VERIF_DEBUG")) fprintf(stderr, "scsv probe: client ready %d closed %d err %d; server closed %d err %d suite %04x\n", (int)S.ever_ready[0], (int)c.closed(), c.error(), (int)s.closed(), s.error(), (unsigned)s.eng->session.cipher_suite);
			}
		} catch (...) { rc = 44; }
		_exit(rc);
	}
	int st = 0;
	waitpid(pid, &st, 0);
	if (WIFSIGNALED(st) || (WIFEXITED(st) && (WEXITSTATUS(st) < 40 || WEXITSTATUS(st) > 44))) {
		std::string what = fmt("a client that lists TLS_FALLBACK_SCSV and receives a ServerHello selecting 0x5600 as cipher suite crashes (child %s %d) or trips the sanitizer instead of failing with an error: the pseudo-suite passes the \"suite was offered\" test and has no MAC / cipher elements",
			WIFSIGNALED(st) ? "killed by signal" : "exit status", WIFSIGNALED(st) ? WTERMSIG(st) : WEXITSTATUS(st));
		if (known("client-accepts-fallback-scsv-as-suite")) stats.known_finding("client-accepts-fallback-scsv-as-suite", what);
		else failf("%s", what.c_str());
	} else {
		VF_CHECK(WIFEXITED(st) && WEXITSTATUS(st) == 40, "probe: ServerHello selecting TLS_FALLBACK_SCSV: child exit status %d (40 = client failed cleanly, 41 = client neither ready nor failed, 42 = client became ready)", WIFEXITED(st) ? WEXITSTATUS(st) : -1);
	}
}

// ------------------------------------------------------------- M3b: static ECDH client authentication without the key
// The server asks for a client certificate on an ECDH_* suite; its validator (instrumented)
// accepts the chain and returns the certified EC key.  The client has no private key at all: it
// announces static-ECDH authentication and supplies a premaster secret of its own choosing (bytes
// of the certified public point).  The certified key may be on the server's curve or on another
// one ("wrong-curve substitution").  The server must never become ready.
struct NoKeyCert {
	const br_ssl_client_certificate_class *vt;
	Bytes premaster;
};
static void nk_start_name_list(const br_ssl_client_certificate_class **) {}
static void nk_start_name(const br_ssl_client_certificate_class **, size_t) {}
static void nk_append_name(const br_ssl_client_certificate_class **, const unsigned char *, size_t) {}
static void nk_end_name(const br_ssl_client_certificate_class **) {}
static void nk_end_name_list(const br_ssl_client_certificate_class **) {}
static void nk_choose(const br_ssl_client_certificate_class **, const br_ssl_client_context *, uint32_t, br_ssl_client_certificate *ch)
{
	ch->auth_type = BR_AUTH_ECDH;
	ch->hash_id = -1;
	ch->chain = FX_EC_CHAIN;
	ch->chain_len = FX_EC_CHAIN_LEN;
}
static uint32_t nk_do_keyx(const br_ssl_client_certificate_class **pctx, unsigned char *data, size_t *len)
{
	NoKeyCert *n = (NoKeyCert *)pctx;
	memcpy(data, n->premaster.data(), n->premaster.size());
	*len = n->premaster.size();
	return 1;
}
static size_t nk_do_sign(const br_ssl_client_certificate_class **, int, size_t, unsigned char *, size_t) { return 0; }
static const br_ssl_client_certificate_class NK_VT = { sizeof(NoKeyCert), nk_start_name_list, nk_start_name, nk_append_name, nk_end_name, nk_end_name_list, nk_choose, nk_do_keyx, nk_do_sign };

static void m3b_case(Tape &t)
{
	static const uint16_t SUITES[] = { 0xC004, 0xC005, 0xC025, 0xC02D, 0xC00E, 0xC029, 0xC031 };
	uint16_t suite = SUITES[t.u8() % 7];
	const wt::SuiteInfo *si = wt::suite_by_id(suite);
	unsigned ver = si->tls12_only ? 0x0303 : 0x0301 + t.u8() % 3;
	Profile cp, sp;
	cp.suites = { suite }; sp.suites = { suite };
	cp.vmin = cp.vmax = sp.vmin = sp.vmax = ver;
	sp.key = keys_for(si)[0];
	sp.client_auth = true;
	// the key the server-side validator returns for the client's chain
	unsigned kc = t.u8() % 4;   // 0: a P-256 key the client does not hold; 1: P-384; 2: P-521; 3: P-256 with odd point length
	static const size_t QL[] = { 65, 97, 133, 64 };
	static const int CV[] = { BR_EC_secp256r1, BR_EC_secp384r1, BR_EC_secp521r1, BR_EC_secp256r1 };
	LeafKey other = leaf_key(FX_EC_CHAIN[1]);   // a real P-256 point whose private key nobody here holds
	Bytes q(QL[kc], 0);
	q[0] = 0x04;
	if (kc == 0) q = other.a; else t.fill(q.data() + 1, q.size() - 1);
	SpyX509 spy;
	spy.vt = &SPY_VT;
	spy.verdict = 0;
	spy.usages = BR_KEYTYPE_KEYX | BR_KEYTYPE_SIGN;
	memset(&spy.key, 0, sizeof spy.key);
	spy.key.key_type = BR_KEYTYPE_EC;
	spy.key.key.ec.curve = CV[kc];
	spy.key.key.ec.q = q.data(); spy.key.key.ec.qlen = q.size();
	BearClient c(cp);
	BearServer s(sp, &spy.vt);
	NoKeyCert nk;
	nk.vt = &NK_VT;
	// what a failed multiplication would leave behind (bytes of the point), or another guess
	unsigned guess = t.u8() % 3;
	size_t xl = 32;
	if (guess == 0) nk.premaster.assign(q.begin() + 1, q.begin() + 1 + std::min<size_t>(xl, q.size() - 1));
	else if (guess == 1) nk.premaster.assign(xl, 0);
	else { nk.premaster.resize(xl); t.fill(nk.premaster.data(), xl); }
	br_ssl_client_set_client_certificate(c.sc.get(), &nk.vt);
	VF_CHECK(c.reset() && s.reset(), "harness: reset");
	Session S(&c, &s);
	S.script[0].push_back(Item{ IT_WRITE, 20, true });
	S.script[1].push_back(Item{ IT_WRITE, 20, true });
	S.run(400000);
	Bytes sink;
	if (!(S.ever_ready[0] && S.ever_ready[1])) { if (!c.closed()) bear_transport_eof(&c, &sink); if (!s.closed()) bear_transport_eof(&s, &sink); }
	std::string what = fmt("%s TLS%s: client without any private key claims static-ECDH authentication; the server's validator returns a %s key (%zu-byte point); premaster guess %s", si->name, ver_name(ver),
		kc == 1 ? "P-384" : kc == 2 ? "P-521" : "P-256", q.size(), guess == 0 ? "= leading bytes of that point" : guess == 1 ? "all zero" : "random");
	VF_CHECK(!S.ever_ready[1], "%s: the server became ready for application data: the peer never proved possession of the certified key", what.c_str());
	VF_CHECK(S.recvd[0] == 0 && S.recvd[1] == 0, "%s: application data was delivered", what.c_str());
	VF_CHECK(s.closed() && s.error() != 0, "%s: the server did not fail (error %d)", what.c_str(), s.error());
	stats.cls(fmt("M3b/%s", spy.n_end_chain ? "validator-consulted" : "stopped-earlier"));
	stats.eval(what);
	if (stats.want_sample()) stats.sample(what + fmt(" => server error %d", s.error()));
}

// ------------------------------------------------------------- entry points
// M6: a record the peer never sent, inserted by the man in the middle while the victim still has part of
// its own flight to send (small output buffer: the flight takes several records and the handshake code
// waits for room between them; the application feeds input whenever the engine asks for it, as a
// select()-style loop does).  The record is a ChangeCipherSpec- or handshake-typed record whose payload
// is a run of empty type-0 messages, other well-formed message headers, or arbitrary bytes.  Oracle: the
// victim does not complete the handshake - bytes that are in no transcript hash (or in only one of the
// two) must never be accepted as part of it.  Everything else is relayed unchanged.
static void m6_case(Tape &t)
{
	unsigned sel = t.u8();
	bool victim_server = (sel & 1) == 0;
	static const uint16_t SU[] = { 0x009C, 0xC02F, 0x002F, 0xC02B };
	uint16_t suite = SU[(sel >> 1) % 4];
	Profile cp, sp;
	cp.suites = { suite }; sp.suites = { suite };
	sp.key = keys_for(wt::suite_by_id(suite))[0];
	cp.vmin = cp.vmax = sp.vmin = sp.vmax = 0x0303;
	cp.layout = sp.layout = L_SPLIT;
	Profile &vp = victim_server ? sp : cp;
	vp.olen = 512 + 85;                       // the victim's flight leaves in 512-byte records
	if (!victim_server) cp.min_clienthello_len = 512 + 40 + (t.u8() % 200);   // a ClientHello longer than one record (padding extension)
	BearClient c(cp);
	BearServer s(sp);
	VF_CHECK(c.reset() && s.reset(), "m6: reset");
	BearEndpoint *v = victim_server ? (BearEndpoint *)&s : (BearEndpoint *)&c, *o = victim_server ? (BearEndpoint *)&c : (BearEndpoint *)&s;
	// ChangeCipherSpec, handshake, and content types that do not exist (a record of such a type must never be read as handshake data)
	unsigned type = t.pick<unsigned>({ 20, 20, 20, 22, 24, 25, 0, 19, 255, 24 });
	unsigned shape = t.u8() % 4;
	Bytes pl;
	unsigned n = 1 + t.u8() % 10;
	if (shape == 0) pl.assign(4 * n, 0);                                                       // n empty type-0 messages
	else if (shape == 1) { pl = { 1 }; }                                                       // a plain ChangeCipherSpec byte
	else if (shape == 2) { for (unsigned i = 0; i < n; i++) { pl.push_back(0); pl.push_back(0); pl.push_back(0); pl.push_back(0); } pl.push_back((uint8_t)t.pick<unsigned>({ 2, 11, 16, 14 })); pl.push_back(0); pl.push_back(0); pl.push_back(0); }
	else pl = t.filled(1 + t.u8() % 40);
	Bytes inj = { (uint8_t)type, 3, 3, (uint8_t)(pl.size() >> 8), (uint8_t)pl.size() };
	inj.insert(inj.end(), pl.begin(), pl.end());
	unsigned after = t.u8() % 6;      // inserted once the victim has handed over this many output records and still has one pending
	bool injected = false;
	unsigned taken = 0;
	auto move = [&](BearEndpoint *from, BearEndpoint *to) {
		const uint8_t *p;
		size_t k = from->wire_out_peek(&p);
		if (!k) return false;
		Bytes tmp(p, p + k);
		from->wire_out_ack(k);
		size_t off = 0;
		while (off < tmp.size() && !to->closed()) { size_t room = to->wire_in_room(); if (!room) break; size_t q = std::min(room, tmp.size() - off); to->wire_in(tmp.data() + off, q); off += q; }
		return true;
	};
	for (int g = 0; g < 400; g++) {
		if (v->closed() || o->closed()) break;
		if (v->handshake_done() && o->handshake_done()) break;
		const uint8_t *p;
		bool v_out = v->wire_out_peek(&p) > 0;
		if (!injected && v_out && taken >= after && v->wire_in_room() > 0) {
			// the victim reads first: M's record is already in its socket buffer
			size_t off = 0;
			while (off < inj.size() && !v->closed()) { size_t room = v->wire_in_room(); if (!room) break; size_t q = std::min(room, inj.size() - off); v->wire_in(inj.data() + off, q); off += q; }
			injected = true;
			continue;
		}
		if (v_out) { move(v, o); taken++; continue; }
		if (move(o, v)) continue;
		break;
	}
	std::string desc = fmt("%s (%s) %s: record of type %u with payload %s inserted after %u of its own records while another one was pending", victim_server ? "server" : "client", wt::suite_by_id(suite)->name,
		victim_server ? "with a 512-byte output fragment" : "sending a ClientHello longer than its 512-byte output fragment", type, hex(pl.data(), pl.size(), 16).c_str(), after);
	if (!injected) { stats.cls("M6:no-opportunity"); stats.eval(); return; }
	VF_CHECK(!(v->handshake_done() && !v->closed()), "%s: the handshake COMPLETED (victim error %d, peer error %d, peer %s) - the inserted bytes were accepted as handshake data although the peer never sent them and no Finished covers them",
		desc.c_str(), v->error(), o->error(), o->handshake_done() ? "completed too" : "did not complete");
	// (the mismatch may be noticed by the peer first, e.g. a hashed extra message found out by its Finished check: the victim then simply never completes)
	VF_CHECK(v->closed() ? v->error() != 0 : (o->closed() && o->error() != 0), "%s: nobody failed and nobody completed (victim state %#x error %d, peer state %#x error %d)", desc.c_str(), v->state(), v->error(), o->state(), o->error());
	stats.cls(fmt("M6:type%u/%s", type, victim_server ? "server" : "client"));
	stats.eval(fmt("M6/%d/%04x/%u/%u/%u/%u", victim_server, suite, type, shape, n, after));
	if (stats.want_sample()) stats.sample(desc + fmt(" => victim error %d", v->error()));
}

// ------------------------------------------------------------- M7: a server that has the certificate chain but not its key
// Anyone can hold a server's chain.  This impersonator is a BearSSL server context with a policy handler of its
// own: it presents the fixture chain, runs an honest ECDHE exchange with a point of its own and "signs" the
// ServerKeyExchange without the private key: random bytes, zeros, or the pair (r, s) = (Qx, Qx) which verifies
// for the hash VALUE ZERO under any EC public key Q (u1 = 0, u2 = 1, R = Q) - what a verifier computes when it
// ends up with an empty hash, e.g. for a hash function it was configured without.  The client profile lacks one
// hash function in half of the cases and the ServerKeyExchange names either that function or one the client has.
// Control: the genuine server is accepted by the same reduced client.
struct KeylessPolicy {
	const br_ssl_server_policy_class *vt;
	const br_x509_certificate *chain;
	uint16_t suite;
	unsigned hash_id;
	Bytes sig;
	int n_sign = 0;
};
static int kl_choose(const br_ssl_server_policy_class **pctx, const br_ssl_server_context *, br_ssl_server_choices *ch)
{
	KeylessPolicy *k = (KeylessPolicy *)pctx;
	ch->cipher_suite = k->suite;
	ch->algo_id = 0xFF00 + k->hash_id;
	ch->chain = k->chain;
	ch->chain_len = 2;
	return 1;
}
static uint32_t kl_keyx(const br_ssl_server_policy_class **, unsigned char *, size_t *) { return 0; }
static size_t kl_sign(const br_ssl_server_policy_class **pctx, unsigned, unsigned char *data, size_t, size_t len)
{
	KeylessPolicy *k = (KeylessPolicy *)pctx;
	k->n_sign++;
	if (k->sig.size() > len) return 0;
	memcpy(data, k->sig.data(), k->sig.size());
	return k->sig.size();
}
static const br_ssl_server_policy_class KL_VT = { sizeof(KeylessPolicy), kl_choose, kl_keyx, kl_sign };
static Bytes der_int(Bytes v)
{
	while (v.size() > 1 && v[0] == 0) v.erase(v.begin());
	if (v[0] & 0x80) v.insert(v.begin(), 0);
	Bytes r = { 0x02, (uint8_t)v.size() };
	r.insert(r.end(), v.begin(), v.end());
	return r;
}
static void m7_case(Tape &t)
{
	bool ec = t.u8() % 4 != 0;
	uint16_t suite = ec ? t.pick<uint16_t>({ 0xC02B, 0xC023, 0xCCA9, 0xC0AC }) : t.pick<uint16_t>({ 0xC02F, 0xC027, 0xCCA8 });   // TLS 1.2, SHA-256 PRF
	const wt::SuiteInfo *si = wt::suite_by_id(suite);
	Profile cp, sp;
	cp.suites = { suite }; sp.suites = { suite };
	cp.vmin = cp.vmax = sp.vmin = sp.vmax = 0x0303;
	sp.key = ec ? K_EC : K_RSA;
	for (int i = 0; i < 32; i++) { cp.entropy[i] = (uint8_t)(suite + i * 7 + 1); sp.entropy[i] = (uint8_t)(suite * 5 + i); }
	static const int HID[] = { br_sha1_ID, br_sha224_ID, br_sha384_ID, br_sha512_ID };
	static const char *HN[] = { "", "md5", "sha1", "sha224", "sha256", "sha384", "sha512" };
	int removed = t.flag() ? HID[t.u8() % 4] : 0;
	unsigned named = t.u8() % 3 == 0 ? (unsigned)t.pick<int>({ br_sha1_ID, br_sha224_ID, br_sha256_ID, br_sha384_ID, br_sha512_ID }) : removed ? (unsigned)removed : (unsigned)br_sha256_ID;
	unsigned kind = t.u8() % 4;     // 0: (Qx, Qx), 1: random, 2: zeros, 3: genuine server (control)
	const br_x509_certificate *chain = ec ? FX_EC_CHAIN : FX_RSA_CHAIN;
	LeafKey lk = leaf_key(chain[0]);
	KeylessPolicy pol;
	pol.vt = &KL_VT; pol.chain = chain; pol.suite = suite; pol.hash_id = named;
	if (ec) {
		size_t cl = (lk.a.size() - 1) / 2;
		Bytes qx(lk.a.begin() + 1, lk.a.begin() + 1 + cl), r = qx, sv = qx;
		if (kind == 1) { r = t.filled(cl); sv = t.filled(cl); r[0] &= 0x7F; sv[0] &= 0x7F; r[cl - 1] |= 1; sv[cl - 1] |= 1; }
		if (kind == 2) { r.assign(cl, 0); sv.assign(cl, 0); }
		Bytes body = der_int(r), si2 = der_int(sv);
		body.insert(body.end(), si2.begin(), si2.end());
		pol.sig = { 0x30, (uint8_t)body.size() };
		pol.sig.insert(pol.sig.end(), body.begin(), body.end());
	} else {
		// RSA: no value verifies without the key; the cleartext padded block of an empty DigestInfo, random bytes, zeros
		size_t nl = lk.a.size();
		pol.sig.assign(nl, 0);
		if (kind == 1) { pol.sig = t.filled(nl); pol.sig[0] &= 0x3F; }
		if (kind == 0) { pol.sig.assign(nl, 0xFF); pol.sig[0] = 0; pol.sig[1] = 1; pol.sig[nl - 1] = 0; }
	}
	BearClient c(cp);
	if (removed) br_ssl_engine_set_hash(c.eng, removed, nullptr);
	BearServer s(sp);
	if (kind != 3) br_ssl_server_set_policy(s.ss.get(), &pol.vt);
	VF_CHECK(c.reset() && s.reset(), "harness: reset");
	Session S(&c, &s);
	S.script[0].push_back(Item{ IT_WRITE, 20, true });
	S.script[1].push_back(Item{ IT_WRITE, 20, true });
	S.run(400000);
	Bytes sink;
	bool done = S.ever_ready[0] && S.ever_ready[1];
	if (!done) { if (!c.closed()) bear_transport_eof(&c, &sink); if (!s.closed()) bear_transport_eof(&s, &sink); }
	std::string what = fmt("%s TLS1.2, client %s%s, %s", si->name, removed ? "without " : "with all hash functions", removed ? HN[removed] : "",
		kind == 3 ? "genuine server" : fmt("server without the private key: ServerKeyExchange names %s, signature is %s", HN[named], kind == 0 ? (ec ? "(r, s) = (Qx, Qx), valid for the hash value zero" : "a cleartext padded block") : kind == 1 ? "random" : "all zeros").c_str());
	if (kind == 3) {
		VF_CHECK(done && S.recvd[0] == 20 && S.recvd[1] == 20, "%s: handshake failed (errors client %d, server %d)", what.c_str(), c.error(), s.error());
		stats.cls("M7/control-genuine-server");
	} else {
		VF_CHECK(pol.n_sign == 1, "harness: the impersonator's signing callback ran %d times", pol.n_sign);
		VF_CHECK(!S.ever_ready[0], "%s: the client became ready for application data (nobody proved possession of the certified key)", what.c_str());
		VF_CHECK(c.closed() && c.error() != 0, "%s: the client did not fail (error %d)", what.c_str(), c.error());
		VF_CHECK(S.recvd[0] == 0 && S.recvd[1] == 0, "%s: application data was delivered (%zu / %zu bytes)", what.c_str(), S.recvd[0], S.recvd[1]);
		stats.cls(fmt("M7/keyless-server/%s/%s", ec ? "ecdsa" : "rsa", removed && named == (unsigned)removed ? "names-a-hash-the-client-lacks" : "names-a-hash-the-client-has"));
	}
	stats.eval_h(fnv(what));
	if (stats.want_sample()) stats.sample(what + fmt(" => client error %d", c.error()));
}

void target_run(Tape &t)
{
	static bool probed = false;
	if (!probed) { probed = true; probe_scsv_selected(); }
	unsigned m = t.u8();
	if (m == 0xF0) { unsigned k = t.u8() % NKINDS; int dir = t.u8() & 1; size_t rec = t.u8(); size_t off = t.u16(); uint8_t mask = t.u8(); unsigned cm = t.u8(); m0_case(k, dir, rec, off, mask, cm); return; }
	if (m == 0xF1) { unsigned k = t.u8() % NKINDS; int dir = t.u8() & 1; unsigned edit = t.u8() % E_NEDITS; size_t mi = t.u8(); unsigned aux = t.u8(); unsigned cm = t.u8(); m1_case(k, dir, edit, mi, aux, cm); return; }
	if (m >= 0xC8 && m < 0xF0 && m % 3 == 0) { m7_case(t); return; }
	switch (m % 11) {
	case 0: case 1: {
		unsigned k = t.u8() % NKINDS;
		int dir = t.u8() & 1;
		Ref &R = reference(k);
		VF_CHECK(R.ok, "harness: reference handshake %s failed (errors %d/%d)", kind_desc(k).c_str(), R.o.err[0], R.o.err[1]);
		if (R.o.n_pre[dir] == 0) return;
		size_t rec = t.u8() % R.o.n_pre[dir];
		size_t plen = R.o.recs[dir][rec].payload.size();
		if (!plen) return;
		size_t off = t.u16() % plen;
		uint8_t mask = (uint8_t)(1 + t.u8() % 255);
		m0_case(k, dir, rec, off, mask, t.u8());
		break;
	}
	case 2: case 3: { unsigned k = t.u8() % NKINDS; int dir = t.u8() & 1; unsigned edit = 1 + t.u8() % (E_NEDITS - 1); m1_case(k, dir, edit, t.u8(), t.u8(), t.u8()); break; }
	case 4: m2_suite_case(t); break;
	case 5: m2_version_case(t); break;
	case 6: m4_case(t); break;
	case 7: m5_case(t); break;
	case 8: m3b_case(t); break;
	case 9: m6_case(t); break;
	default: m3_case(t); break;
	}
}

void target_enum(int shard, int nshards)
{
	bool th = tier_thorough();
	uint64_t n = 0;
	auto mine = [&]() { return (n++ % (uint64_t)nshards) == (uint64_t)shard; };
	for (unsigned k = 0; k < NKINDS; k++) {
		Ref &R = reference(k);
		if (!R.ok) { enum_tape({ 0xF0, (uint8_t)k, 0, 0, 0, 0, 1, 0 }); continue; }
		for (int dir = 0; dir < 2; dir++) {
			// positive control of the relay, then every message-level edit at every message
			if (mine()) enum_tape({ 0xF1, (uint8_t)k, (uint8_t)dir, E_NONE, 0, 0, 0 });
			size_t nm = flight_msgs(R.o.recs[dir]).size();
			for (unsigned e = 1; e < E_NEDITS; e++) for (size_t mi = 0; mi < nm; mi++) {
				unsigned reps = e == E_RETYPE ? (th ? 10 : 3) : 1;
				for (unsigned a = 0; a < reps; a++) if (mine()) enum_tape({ 0xF1, (uint8_t)k, (uint8_t)dir, (uint8_t)e, (uint8_t)mi, (uint8_t)(a * 3 + 1), (uint8_t)(mi + e) });
				if (e >= E_CCS_DROP && e != E_CCS_EARLY) break;
			}
			// every byte of every record of the handshake
			for (size_t rec = 0; rec < R.o.n_pre[dir]; rec++) {
				const Record &rr = R.o.recs[dir][rec];
				if (rr.type == 23 || rr.type == 21) continue;
				for (size_t off = 0; off < rr.payload.size(); off++) {
					// quick: the certificate bodies are sampled (their bytes are hashed like all others), everything else is exhaustive
					bool in_big = rr.payload.size() > 1200 && off > 200 && off + 400 < rr.payload.size();
					if (!th && in_big && off % 2) continue;
					static const uint8_t MASKS[] = { 0x01, 0x80, 0x10, 0xFF };
					unsigned nmask = th ? 4 : 1;
					for (unsigned mi = 0; mi < nmask; mi++) {
						uint8_t mask = th ? MASKS[mi] : MASKS[(off + rec) % 4];
						if (mine()) enum_tape({ 0xF0, (uint8_t)k, (uint8_t)dir, (uint8_t)rec, (uint8_t)(off >> 8), (uint8_t)off, mask, (uint8_t)(off % 4 == 3 ? 2 : 0) });
					}
				}
			}
		}
	}
	stats.exhaustive = th;
}
