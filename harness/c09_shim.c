/* C wrappers for the static-inline constant-time word primitives of
 * src/inner.h (which cannot be included from C++). */
#include "inner.h"

uint32_t w_NOT(uint32_t x) { return NOT(x); }
uint32_t w_MUX(uint32_t c, uint32_t x, uint32_t y) { return MUX(c, x, y); }
uint32_t w_EQ(uint32_t x, uint32_t y) { return EQ(x, y); }
uint32_t w_NEQ(uint32_t x, uint32_t y) { return NEQ(x, y); }
uint32_t w_GT(uint32_t x, uint32_t y) { return GT(x, y); }
uint32_t w_GE(uint32_t x, uint32_t y) { return GE(x, y); }
uint32_t w_LT(uint32_t x, uint32_t y) { return LT(x, y); }
uint32_t w_LE(uint32_t x, uint32_t y) { return LE(x, y); }
int32_t w_CMP(uint32_t x, uint32_t y) { return CMP(x, y); }
uint32_t w_EQ0(int32_t x) { return EQ0(x); }
uint32_t w_GT0(int32_t x) { return GT0(x); }
uint32_t w_GE0(int32_t x) { return GE0(x); }
uint32_t w_LT0(int32_t x) { return LT0(x); }
uint32_t w_LE0(int32_t x) { return LE0(x); }
uint32_t w_MIN(uint32_t x, uint32_t y) { return MIN(x, y); }
uint32_t w_MAX(uint32_t x, uint32_t y) { return MAX(x, y); }
uint32_t w_BIT_LENGTH(uint32_t x) { return BIT_LENGTH(x); }
uint32_t w_MUL15(uint32_t x, uint32_t y) { return MUL15(x, y); }
uint64_t w_MUL31(uint32_t x, uint32_t y) { return MUL31(x, y); }
uint32_t w_MUL31_lo(uint32_t x, uint32_t y) { return MUL31_lo(x, y); }
uint64_t w_MUL(uint32_t x, uint32_t y) { return MUL(x, y); }
uint32_t w_divrem(uint32_t hi, uint32_t lo, uint32_t d, uint32_t *r) { return br_divrem(hi, lo, d, r); }
uint32_t w_div(uint32_t hi, uint32_t lo, uint32_t d) { return br_div(hi, lo, d); }
uint32_t w_rem(uint32_t hi, uint32_t lo, uint32_t d) { return br_rem(hi, lo, d); }
void w_ccopy(uint32_t ctl, void *dst, const void *src, size_t len) { br_ccopy(ctl, dst, src, len); }
