// C06 — the engine's reported state and buffers are consistent after every
// API call.
//
// Stateful (model-based) test on a connected client/server pair.  A case is
// a configuration, a start phase (after reset / after N scheduling rounds of
// the handshake / established) and a sequence of API commands with generated
// arguments: write k plaintext bytes + sendapp_ack, recvapp_ack(k), move k
// bytes sendrec -> wire, move k bytes wire -> recvrec, flush(0|1), close(),
// renegotiate(), on either endpoint, k in {1, 2, half, all-1, all}.  Only
// API-legal calls are made.  After EVERY call the invariants in
// BearEndpoint::inv() are asserted for that endpoint (closed is exclusive and
// permanent with the first error retained; buffer query non-NULL <=> len > 0
// <=> state flag; region inside the caller's buffer; no SENDREC+SENDAPP, no
// RECVREC+RECVAPP; not closed => state != 0; queries are pure; partial
// acknowledgements continue at ptr+k; regions holding untaken bytes alias
// nothing) and the model invariant: bytes read by an application are the
// bytes the peer application wrote, in order (running prefix check), and the
// wire parses as well-formed records.
//
// The enumerator explores ALL command sequences up to a bounded depth from
// snapshots taken at every scheduling round of a handshake and in the data
// phase (arguments reduced to k in {1, all}), deduplicating by a hash of the
// engine registers.
#include "common/tls_session.hpp"
#include "common/tls_hello.hpp"
#include <unordered_set>

using namespace vf;
using namespace tls;

const char *target_name = "c06_state";
const int target_tape_min = 0, target_tape_max = 200;

static const uint16_t CFG_SUITES[] = { 0x002F /* CBC, with 1.0: 1/n-1 split */, 0x009C /* GCM */, 0xCCA8 /* ChaCha20 */, 0xC0AE /* CCM_8 */ };

struct Pair {
	std::unique_ptr<BearClient> c;
	std::unique_ptr<BearServer> s;
	BearEndpoint *e[2];
	Fifo wire[2];              // wire[d]: bytes from side d to side 1-d
	Framer framer[2];
	size_t sent[2] = { 0, 0 }, recvd[2] = { 0, 0 };
	size_t unflushed[2] = { 0, 0 };
	bool reneg_started = false;
	bool any_close = false;
	bool may_fail = false;     // set by the phases that feed hostile input or swap buffers under a running connection
	uint64_t seed[2] = { 0xA1, 0xB2 };
	uint64_t partial_acks = 0, mode_switches = 0, skipped = 0, excluded = 0;
	std::string cfg;
};

static void make_pair(Pair &P, unsigned cfgbyte, unsigned sizebyte)
{
	unsigned sidx = cfgbyte % 4;
	unsigned version = sidx == 0 ? (cfgbyte & 4 ? 0x0301 : 0x0302) : 0x0303;
	Profile cp, sp;
	cp.suites = { CFG_SUITES[sidx] }; sp.suites = { CFG_SUITES[sidx] };
	cp.vmin = cp.vmax = sp.vmin = sp.vmax = version;
	sp.key = keys_for(wt::suite_by_id(CFG_SUITES[sidx]))[0];
	cp.layout = (Layout)(((cfgbyte >> 3) & 3) % 3);
	sp.layout = (Layout)(((cfgbyte >> 5) & 3) % 3);
	bool small_c = sizebyte & 1, small_s = sizebyte & 2;
	auto setsize = [](Profile &p, bool small) {
		if (p.layout == L_MONO) p.buflen = small ? 512 + 325 : BR_SSL_BUFSIZE_MONO;
		else if (p.layout == L_BIDI) p.buflen = small ? 512 + 325 + 512 + 85 : BR_SSL_BUFSIZE_BIDI;
		else { p.ilen = small ? 512 + 325 : BR_SSL_BUFSIZE_INPUT; p.olen = small ? 512 + 85 : BR_SSL_BUFSIZE_OUTPUT; }
	};
	// the server's input must hold the client's records: small server only with small client
	if (small_s && !small_c) small_s = false;
	setsize(cp, small_c);
	setsize(sp, small_s);
	P.c.reset(new BearClient(cp));
	P.s.reset(new BearServer(sp));
	P.e[0] = P.c.get(); P.e[1] = P.s.get();
	VF_CHECK(P.c->reset() && P.s->reset(), "reset failed");
	static const char *ln[] = { "mono", "bidi", "split" };
	P.cfg = fmt("%s TLS%s client %s%s server %s%s", wt::suite_by_id(CFG_SUITES[sidx])->name, ver_name(version), ln[cp.layout], small_c ? "/min" : "", ln[sp.layout], small_s ? "/min" : "");
}

static void check_wire(Pair &P, int side, const uint8_t *p, size_t k)
{
	std::vector<Record> recs;
	P.framer[side].feed(p, k, recs);
	for (auto &r : recs) {
		VF_CHECK(r.type >= 20 && r.type <= 23, "%s: %s emitted a record of type %u (wire is not a sequence of well-formed records)", P.cfg.c_str(), P.e[side]->name.c_str(), r.type);
		VF_CHECK(r.version >= 0x0301 && r.version <= 0x0303,
			"%s: %s emitted a record with version %04x", P.cfg.c_str(), P.e[side]->name.c_str(), r.version);
		VF_CHECK(r.payload.size() <= 16384 + 2048, "%s: %s emitted a %zu-byte record", P.cfg.c_str(), P.e[side]->name.c_str(), r.payload.size());
	}
}

static size_t pick_k(unsigned sel, size_t avail)
{
	size_t k;
	switch (sel % 5) {
	case 0: k = 1; break;
	case 1: k = 2; break;
	case 2: k = avail / 2; break;
	case 3: k = avail - 1; break;
	default: k = avail;
	}
	if (k < 1) k = 1;
	if (k > avail) k = avail;
	return k;
}

enum { C_SENDAPP, C_RECVAPP, C_SENDREC, C_RECVREC, C_FLUSH0, C_FLUSH1, C_CLOSE, C_RENEG, C_NCMD };
static const char *CN[] = { "sendapp", "recvapp", "sendrec", "recvrec", "flush0", "flush1", "close", "reneg" };

// returns false when the command was not applicable (nothing offered)
static bool apply(Pair &P, int side, unsigned cmd, unsigned ksel, bool exclude_known)
{
	BearEndpoint *e = P.e[side];
	unsigned before = e->state();
	switch (cmd) {
	case C_SENDAPP: {
		size_t room = e->app_out_room();
		if (!room) return false;
		size_t k = pick_k(ksel, room);
		if (k > 4096) k = 4096 + (ksel % 7);   // keep walks fast; still crosses record sizes for small buffers
		if (k > room) k = room;
		Bytes tmp(k);
		for (size_t i = 0; i < k; i++) tmp[i] = stream_byte(P.seed[side], P.sent[side] + i);
		P.sent[side] += k;
		e->app_out(tmp.data(), k);
		if (k < room) P.partial_acks++;
		const uint8_t *p;
		if (e->wire_out_peek(&p)) P.unflushed[side] = 0; else P.unflushed[side] += k;
		if (exclude_known && side == 0 && P.reneg_started && P.unflushed[0]) {
			// listed finding client-reneg-with-unflushed-plaintext: once a renegotiation
			// may be under way the client never leaves plaintext unflushed
			e->flush(false);
			P.unflushed[0] = 0;
			P.excluded++;
		}
		break;
	}
	case C_RECVAPP: {
		const uint8_t *p;
		size_t n = e->app_in_peek(&p);
		if (!n) return false;
		size_t k = pick_k(ksel, n);
		int d = 1 - side;
		for (size_t i = 0; i < k; i++) {
			VF_CHECK(P.recvd[d] + i < P.sent[d], "%s: %s delivered byte #%zu, peer wrote only %zu", P.cfg.c_str(), e->name.c_str(), P.recvd[d] + i, P.sent[d]);
			uint8_t want = stream_byte(P.seed[d], P.recvd[d] + i);
			VF_CHECK(p[i] == want, "%s: %s delivered byte #%zu = %02x, peer wrote %02x (lost, duplicated or reordered bytes)", P.cfg.c_str(), e->name.c_str(), P.recvd[d] + i, p[i], want);
		}
		P.recvd[d] += k;
		e->app_in_ack(k);
		if (k < n) P.partial_acks++;
		break;
	}
	case C_SENDREC: {
		const uint8_t *p;
		size_t n = e->wire_out_peek(&p);
		if (!n) return false;
		size_t k = pick_k(ksel, n);
		Bytes copy(p, p + k);
		e->wire_out_ack(k);
		check_wire(P, side, copy.data(), k);
		P.wire[side].push(copy);
		if (k < n) P.partial_acks++;
		break;
	}
	case C_RECVREC: {
		Fifo &in = P.wire[1 - side];
		size_t room = e->wire_in_room();
		if (!room || in.empty()) return false;
		size_t k = pick_k(ksel, in.size() < room ? in.size() : room);
		e->wire_in(in.data(), k);
		in.pop(k);
		if (k < room) P.partial_acks++;
		break;
	}
	case C_FLUSH0: e->flush(false); P.unflushed[side] = 0; break;
	case C_FLUSH1: e->flush(true); P.unflushed[side] = 0; break;
	case C_CLOSE: e->close(); P.any_close = true; break;
	case C_RENEG: {
		if (exclude_known) {
			// listed findings: client renegotiation only when nothing is unflushed and SENDAPP is
			// offered; server renegotiation only when the client has nothing unflushed
			if (P.unflushed[0] != 0) { P.excluded++; return false; }
		}
		if (e->renegotiate()) P.reneg_started = true;
		break;
	}
	}
	unsigned after = e->state();
	if ((before ^ after) & (BR_SSL_SENDAPP | BR_SSL_RECVREC | BR_SSL_SENDREC)) P.mode_switches++;
	// two honest endpoints, only API-legal calls, nobody asked for closure or renegotiation: no call may end the connection
	// (an engine that fails on its own loses the bytes it was holding)
	if (!P.any_close && !P.reneg_started && !P.may_fail)
		VF_CHECK(!e->closed(), "%s: %s closed itself (error %d) in %s although nobody closed, renegotiated or tampered: %zu/%zu bytes written, %zu/%zu delivered", P.cfg.c_str(), e->name.c_str(), e->error(), CN[cmd],
			P.sent[0], P.sent[1], P.recvd[0], P.recvd[1]);
	return true;
}

// move bytes as an ordinary caller would, one scheduling round
static bool pump_round(Pair &P)
{
	bool prog = false;
	for (int side = 0; side < 2; side++) {
		if (apply(P, side, C_RECVAPP, 4, true)) prog = true;
		if (apply(P, side, C_SENDREC, 4, true)) prog = true;
		if (apply(P, side, C_RECVREC, 4, true)) prog = true;
	}
	return prog;
}

static bool established(Pair &P) { return P.e[0]->handshake_done() && P.e[1]->handshake_done(); }

// ------------------------------------------------------------ known findings (directed probes)
static void probe_known()
{
	// F4: client starts a renegotiation with plaintext accepted but not flushed
	for (unsigned lay = 0; lay < 3; lay += 2) {
		Pair P;
		make_pair(P, 1 | (lay << 3) | (2u << 5), 0);
		for (int i = 0; i < 400 && !established(P); i++) pump_round(P);
		VF_CHECK(established(P), "probe: handshake failed");
		Bytes data(100, 0x41);
		for (size_t i = 0; i < 100; i++) data[i] = stream_byte(P.seed[0], i);
		P.e[0]->allow_state0 = known("client-reneg-with-unflushed-plaintext");
		P.sent[0] = 100;
		P.e[0]->app_out(data.data(), 100);            // no flush
		bool r = P.e[0]->renegotiate();
		for (int i = 0; i < 400; i++) if (!pump_round(P)) break;
		bool delivered = P.recvd[0] == 100;
		unsigned st = P.e[0]->state();
		if (r && !delivered && !P.e[0]->closed()) {
			std::string what = fmt("client renegotiate() with 100 unflushed plaintext bytes (%s buffer): accepted, but the bytes are never sent and the new handshake never starts (state %#x)",
				lay == 0 ? "shared" : "split", st);
			if (known("client-reneg-with-unflushed-plaintext")) stats.known_finding("client-reneg-with-unflushed-plaintext", what);
			else failf("%s", what.c_str());
		}
	}
	// F5: half-duplex client accepts renegotiate() while a record is partly received, then gets the server's HelloRequest
	{
		Pair P;
		make_pair(P, 1 | (0u << 3) | (2u << 5), 0);
		for (int i = 0; i < 400 && !established(P); i++) pump_round(P);
		VF_CHECK(established(P), "probe: handshake failed");
		bool sr = P.e[1]->renegotiate();             // server sends HelloRequest
		apply(P, 1, C_SENDREC, 4, false);
		apply(P, 0, C_RECVREC, 0, false);            // client receives 1 byte of it: buffer now in input mode
		bool cr = P.e[0]->renegotiate();             // accepted although nothing can be written
		for (int i = 0; i < 400; i++) if (!pump_round(P)) break;
		// regression for fixed finding F5 (the invariant "state != 0 while open" is asserted by every call above)
		VF_CHECK(!(sr && cr && !P.e[0]->closed() && P.e[0]->state() == 0),
			"half-duplex client: renegotiate() accepted while the server's HelloRequest is partly received: state 0 forever (nothing offered, not closed)");
	}
	// F46: a server that has decided on a fatal alert (ClientHello without a usable suite) but has not sent it yet
	// receives the client's close_notify (full-duplex buffers), or its application calls close(): bearssl_ssl.h
	// promises last_error = BR_ERR_SEND_FATAL_ALERT + alert once the alert has been sent
	for (int variant = 0; variant < 2; variant++) {
		Profile sp;
		sp.layout = L_SPLIT;
		BearServer srv(sp);
		VF_CHECK(srv.reset(), "probe: reset");
		ClientHelloSpec ch;
		ch.suites = { 0x0004 };     // RC4_128_MD5: not supported
		Bytes in = ch.records();
		size_t off = 0;
		while (off < in.size() && srv.wire_in_room()) { size_t k = std::min(srv.wire_in_room(), in.size() - off); srv.wire_in(in.data() + off, k); off += k; }
		const uint8_t *p;
		VF_CHECK(!srv.closed() && srv.wire_out_peek(&p) > 0, "probe: no alert pending after an unusable ClientHello (state %#x error %d)", srv.state(), srv.error());
		if (variant == 0) {
			static const uint8_t CN[] = { 0x15, 0x03, 0x01, 0x00, 0x02, 0x01, 0x00 };
			if (srv.wire_in_room() >= sizeof CN) srv.wire_in(CN, sizeof CN);
		} else srv.close();
		Bytes out;
		for (int g = 0; g < 100; g++) { size_t n = srv.wire_out_peek(&p); if (!n) break; out.insert(out.end(), p, p + n); srv.wire_out_ack(n); }
		bool sent_fatal_40 = out.size() >= 7 && out[0] == 21 && out[5] == 2 && out[6] == 40;
		VF_CHECK(sent_fatal_40, "probe: the server did not send handshake_failure (%s)", hex(out.data(), out.size(), 16).c_str());
		if (srv.error() != BR_ERR_SEND_FATAL_ALERT + 40) {
			std::string what = fmt("a server whose fatal alert (handshake_failure, no usable suite) is still waiting to be sent %s: it sends the alert, then a close_notify, and %s with last_error %d instead of BR_ERR_SEND_FATAL_ALERT+40 = 552 "
				"(fail-alert waits in wait-co, which diverts into do-close and never comes back to store the error)", variant == 0 ? "receives the client's close_notify" : "has br_ssl_engine_close() called by its application",
				srv.closed() ? "ends closed" : "stays open waiting for an answer", srv.error());
			if (known("pending-fatal-alert-forgotten-on-close")) stats.known_finding("pending-fatal-alert-forgotten-on-close", what);
			else failf("%s", what.c_str());
		}
	}
}

static bool probes_done = false;

// A context used once (idle, mid-handshake or in the data phase) gets other
// I/O memory - any layout, any size including sizes below the documented
// minimum - and the reset the documentation requires after that.  Oracle: a
// size below the minimum of its layout leaves the engine closed with
// BR_ERR_BAD_PARAM after the reset; any other size leaves it live, every
// region inside the NEW memory (the endpoint wrapper checks that after every
// call), and the pair then completes a handshake and moves data.
static void rebuffer_case(Pair &P, Tape &t, unsigned cfgb, unsigned sizeb, unsigned nround)
{
	P.may_fail = true;              // the peer of a context that is re-buffered and reset mid-connection sees a broken handshake
	unsigned before = t.u8() % 3;   // 0: fresh context, 1: after some handshake rounds, 2: after a full connection
	if (before == 1) for (unsigned i = 0; i < nround % 24; i++) pump_round(P);
	if (before == 2) { for (int i = 0; i < 600 && !established(P); i++) pump_round(P); VF_CHECK(established(P), "%s: handshake failed", P.cfg.c_str()); }
	int side = t.u8() & 1;
	Profile &pr = side ? P.s->prof : P.c->prof;
	Profile &peer = side ? P.c->prof : P.s->prof;
	Layout nl = (Layout)(t.u8() % 3);
	unsigned cls = t.u8() % 6;      // 0,1: full size, 2: documented minimum, 3: just below, 4: far below, 5: between the half- and full-duplex minimum
	size_t min_mono = 512 + 325, min_bidi = 512 + 325 + 512 + 85, min_in = 512 + 325, min_out = 512 + 85;
	unsigned cut = 1 + t.u8() % 40;
	bool too_small = false;
	pr.layout = nl;
	if (nl == L_SPLIT) {
		pr.ilen = cls <= 1 ? (size_t)BR_SSL_BUFSIZE_INPUT : min_in;
		pr.olen = cls <= 1 ? (size_t)BR_SSL_BUFSIZE_OUTPUT : min_out;
		if (cls == 3) { if (cut & 1) pr.ilen -= cut; else pr.olen -= cut; too_small = true; }
		if (cls == 4) { pr.ilen = cut; pr.olen = cut * 3; too_small = true; }
	} else {
		size_t mn = nl == L_MONO ? min_mono : min_bidi;
		pr.buflen = cls <= 1 ? (nl == L_MONO ? (size_t)BR_SSL_BUFSIZE_MONO : (size_t)BR_SSL_BUFSIZE_BIDI) : mn;
		if (cls == 3) { pr.buflen -= cut; too_small = true; }
		if (cls == 4) { pr.buflen = cut * 7; too_small = true; }
		if (cls == 5 && nl == L_BIDI) { pr.buflen = min_mono + (cut * 13) % (min_bidi - min_mono); too_small = true; }
	}
	if (before == 0 && too_small) {
		// a context that never had a usable buffer: constructed with the undersized one, then reset as documented
		std::unique_ptr<BearClient> nc;
		std::unique_ptr<BearServer> ns;
		BearEndpoint *f;
		bool ok0;
		if (side) { ns.reset(new BearServer(pr)); f = ns.get(); ok0 = ns->reset(); } else { nc.reset(new BearClient(pr)); f = nc.get(); ok0 = nc->reset(); }
		VF_CHECK(!ok0 && f->closed() && f->error() == BR_ERR_BAD_PARAM, "%s: new %s context with an undersized %s buffer (%zu/%zu/%zu bytes): reset returned %d, state %#x, error %d (want closed with BR_ERR_BAD_PARAM)", P.cfg.c_str(),
			side ? "server" : "client", nl == L_MONO ? "half-duplex" : nl == L_BIDI ? "full-duplex" : "split", pr.buflen, pr.ilen, pr.olen, (int)ok0, f->state(), f->error());
		bool ok1 = side ? ns->reset() : nc->reset();
		VF_CHECK(!ok1 && f->closed() && f->error() == BR_ERR_BAD_PARAM, "%s: second reset of a context with an undersized buffer returned %d, error %d", P.cfg.c_str(), (int)ok1, f->error());
		stats.cls("rebuffer:refused-fresh-context");
		stats.eval(fmt("rebuf0/%u/%d/%u/%u/%u", cfgb & 3, side, nl, cls, cut));
		return;
	}
	BearEndpoint *e = P.e[side];
	e->rebuffer(pr);
	bool ok = side ? P.s->reset() : P.c->reset();
	std::string d = fmt("%s | %s (%s) gets a new %s buffer of %zu/%zu/%zu bytes, then reset", P.cfg.c_str(), side ? "server" : "client", before == 0 ? "fresh" : before == 1 ? "mid-handshake" : "used for one connection",
		nl == L_MONO ? "half-duplex" : nl == L_BIDI ? "full-duplex" : "split", pr.buflen, pr.ilen, pr.olen);
	if (too_small) {
		VF_CHECK(!ok && e->closed() && e->error() == BR_ERR_BAD_PARAM, "%s: the size is below the documented minimum, yet reset returned %d, state %#x, error %d (must stay failed with BR_ERR_BAD_PARAM, not run in the previous buffer)",
			d.c_str(), (int)ok, e->state(), e->error());
		stats.cls("rebuffer:refused");
		stats.eval(fmt("rebuf/%u/%d/%u/%u/%u/%u", cfgb & 3, side, before, nl, cls, cut));
		return;
	}
	VF_CHECK(ok && !e->closed(), "%s: reset returned %d, state %#x, error %d", d.c_str(), (int)ok, e->state(), e->error());
	// the other side restarts too; its input must hold the records of a peer that may now send up to 16384 bytes
	bool peer_ok = side ? P.c->reset() : P.s->reset();
	VF_CHECK(peer_ok, "%s: peer reset failed", d.c_str());
	for (int s2 = 0; s2 < 2; s2++) { P.wire[s2].clear(); P.framer[s2] = Framer(); P.sent[s2] = P.recvd[s2] = 0; }
	for (int i = 0; i < 800 && !established(P); i++) pump_round(P);
	VF_CHECK(established(P), "%s: handshake with the new buffer failed (%d/%d)", d.c_str(), P.e[0]->error(), P.e[1]->error());
	// the endpoint with the smaller memory bounds what its peer may send: stay under 512 bytes per flush
	(void)peer; (void)sizeb;
	for (int rep = 0; rep < 6; rep++) {
		for (int s2 = 0; s2 < 2; s2++) { for (int j = 0; j < 30 + rep; j++) apply(P, s2, C_SENDAPP, j & 1, false); P.e[s2]->flush(false); }
		for (int i = 0; i < 200; i++) if (!pump_round(P)) break;
	}
	for (int d2 = 0; d2 < 2; d2++) VF_CHECK(P.recvd[d2] == P.sent[d2], "%s: %s wrote %zu bytes, peer read %zu", d.c_str(), d2 ? "server" : "client", P.sent[d2], P.recvd[d2]);
	stats.cls("rebuffer:accepted");
	stats.eval(fmt("rebuf/%u/%d/%u/%u/%u", cfgb & 3, side, before, nl, cls));
	if (stats.want_sample()) stats.sample(d + fmt(" => live, handshake done, %zu/%zu bytes delivered", P.recvd[0], P.recvd[1]));
}

void target_run(Tape &t)
{
	if (!probes_done) { probes_done = true; probe_known(); }
	unsigned cfgb = t.u8(), sizeb = t.u8(), phase = t.u8() % 6, nround = t.u8();
	bool hostile = phase == 4;   // data phase, then bytes no honest peer would send: a record announcing a length around the input buffer capacity
	if (hostile) phase = 3;
	Pair P;
	make_pair(P, cfgb, sizeb);
	if (phase == 5) { rebuffer_case(P, t, cfgb, sizeb, nround); return; }
	bool excl_f4 = known("client-reneg-with-unflushed-plaintext");
	if (phase == 1) for (unsigned i = 0; i < nround; i++) pump_round(P);
	if (phase >= 2) { for (int i = 0; i < 600 && !established(P); i++) pump_round(P); VF_CHECK(established(P), "%s: handshake failed (%d/%d)", P.cfg.c_str(), P.e[0]->error(), P.e[1]->error()); }
	std::string hist;
	unsigned ncmd = 0;
	uint64_t visited_hash = fnv(P.cfg);
	if (hostile) {
		int side = t.u8() & 1;
		BearEndpoint *e = P.e[side];
		// drain whatever is pending so that the input side is idle
		for (int i = 0; i < 50; i++) if (!pump_round(P)) break;
		size_t cap = e->eng->ibuf_len;
		size_t n = (cap + 4 - t.u8() % 14) & 0xFFFF;
		unsigned ver = br_ssl_engine_get_version(e->eng);
		Bytes w = { (uint8_t)t.pick<unsigned>({ 23, 23, 22, 21 }), (uint8_t)(ver >> 8), (uint8_t)ver, (uint8_t)(n >> 8), (uint8_t)n };
		w.resize(5 + n + 40, 0x17);
		size_t off = 0;
		unsigned csel = t.u8();
		for (int g = 0; g < 200000 && off < w.size() && !e->closed(); g++) {
			const uint8_t *pp;
			size_t k;
			while ((k = e->app_in_peek(&pp)) > 0) e->app_in_ack(k);
			if ((k = e->wire_out_peek(&pp)) > 0) e->wire_out_ack(k);
			size_t room = e->wire_in_room();
			if (!room) break;
			size_t c = csel % 3 == 0 ? room : csel % 3 == 1 ? 1 : 1 + (g * 7 + csel) % 64;
			if (c > room) c = room;
			if (c > w.size() - off) c = w.size() - off;
			e->wire_in(w.data() + off, c);   // the endpoint wrapper checks every state invariant after the call
			off += c;
		}
		VF_CHECK(e->closed() && e->error() != 0, "%s: %s fed a record header announcing %zu bytes (input buffer %zu) and filler: %zu bytes taken, engine %s, error %d, state %#x", P.cfg.c_str(), side ? "server" : "client",
			n, cap, off, e->closed() ? "closed" : "open", e->error(), e->state());
		stats.cls("hostile-record-length");
		stats.eval(fmt("hostile/%u/%u/%d/%zu", cfgb, sizeb & 3, side, n));
		return;
	}
	while (!t.exhausted() && ncmd < 90) {
		unsigned cb = t.u8(), ab = t.u8();
		int side = ab & 1;
		unsigned cmd;
		unsigned w = cb % 32;
		// weights: data movement dominates; close / renegotiate are rare events
		if (w < 6) cmd = C_SENDAPP; else if (w < 11) cmd = C_RECVAPP; else if (w < 17) cmd = C_SENDREC; else if (w < 23) cmd = C_RECVREC;
		else if (w < 25) cmd = C_FLUSH0; else if (w < 26) cmd = C_FLUSH1; else if (w < 27) cmd = C_CLOSE; else if (w < 29) cmd = C_RENEG;
		else { for (unsigned i = 0; i < 1 + (ab >> 5); i++) pump_round(P); hist += "pump "; ncmd++; continue; }
		bool ok = apply(P, side, cmd, ab >> 1, excl_f4);
		if (ok) { hist += fmt("%c.%s%u ", side ? 's' : 'c', CN[cmd], (ab >> 1) % 5); ncmd++; }
		else P.skipped++;
		// register hash (public struct fields) for the distinct-state count
		for (int s2 = 0; s2 < 2; s2++) {
			br_ssl_engine_context *g = P.e[s2]->eng;
			uint64_t regs[12] = { g->iomode, g->ixa, g->ixb, g->ixc, g->oxa, g->oxb, g->oxc, g->application_data, g->shutdown_recv, (uint64_t)g->err, g->record_type_in, g->record_type_out };
			visited_hash = fnv(regs, sizeof regs, visited_hash);
		}
		stats.distinct.insert(visited_hash ^ 0x5bd1e995);
		stats.evals++;   // the invariant set was evaluated after this command
	}
	// wind down like an ordinary caller: flush, move everything; if nobody closed or renegotiated, all data must arrive
	bool quiet = !P.any_close && !P.reneg_started;
	if (quiet) {
		for (int s2 = 0; s2 < 2; s2++) if (!P.e[s2]->closed()) P.e[s2]->flush(false);
		for (int i = 0; i < 5000; i++) if (!pump_round(P)) break;
		if (phase >= 2 && !P.e[0]->closed() && !P.e[1]->closed())
			for (int d = 0; d < 2; d++)
				VF_CHECK(P.recvd[d] == P.sent[d], "%s [%s]: %s wrote %zu bytes, peer read %zu after flush and full delivery", P.cfg.c_str(), hist.c_str(), d ? "server" : "client", P.sent[d], P.recvd[d]);
	} else {
		for (int i = 0; i < 5000; i++) if (!pump_round(P)) break;
	}
	stats.excluded += P.excluded;
	stats.cls(fmt("phase:%u", phase));
	stats.cls(P.any_close ? "with-close" : "no-close");
	if (P.reneg_started) stats.cls("with-renegotiation");
	stats.cls("commands", ncmd);
	stats.cls("api-calls", P.e[0]->api_calls + P.e[1]->api_calls);
	bool nontriv = P.partial_acks > 0 && (P.mode_switches > 0 || P.any_close || P.reneg_started);
	stats.eval(nontriv ? fmt("%u/%u/%u/%llx", cfgb, sizeb & 3, phase, (unsigned long long)visited_hash) : std::string());
	if (stats.want_sample()) stats.sample(fmt("%s | phase %u | %s", P.cfg.c_str(), phase, hist.substr(0, 360).c_str()));
}

// ------------------------------------------------------------ bounded exhaustive explorer
struct PairSnap { BearSnap c, s; Fifo w[2]; Bytes fb[2]; size_t sent[2], recvd[2], unfl[2]; bool reneg, anyc; };
static void psave(Pair &P, PairSnap &x)
{
	snap_save(*P.c, x.c); snap_save(*P.s, x.s);
	for (int i = 0; i < 2; i++) { x.w[i] = P.wire[i]; x.fb[i] = P.framer[i].buf; x.sent[i] = P.sent[i]; x.recvd[i] = P.recvd[i]; x.unfl[i] = P.unflushed[i]; }
	x.reneg = P.reneg_started; x.anyc = P.any_close;
}
static void prestore(Pair &P, const PairSnap &x)
{
	snap_restore(*P.c, x.c); snap_restore(*P.s, x.s);
	for (int i = 0; i < 2; i++) { P.wire[i] = x.w[i]; P.framer[i].buf = x.fb[i]; P.sent[i] = x.sent[i]; P.recvd[i] = x.recvd[i]; P.unflushed[i] = x.unfl[i]; }
	P.reneg_started = x.reneg; P.any_close = x.anyc;
}
static uint64_t reg_hash(Pair &P)
{
	uint64_t h = 99;
	for (int s2 = 0; s2 < 2; s2++) {
		br_ssl_engine_context *g = P.e[s2]->eng;
		uint64_t regs[13] = { g->iomode, g->ixa, g->ixb, g->ixc, g->oxa, g->oxb, g->oxc, g->application_data, g->shutdown_recv, (uint64_t)g->err, g->record_type_in, g->record_type_out, g->reneg };
		h = fnv(regs, sizeof regs, h);
	}
	uint64_t w[4] = { P.wire[0].size(), P.wire[1].size(), P.sent[0] - P.recvd[0], P.sent[1] - P.recvd[1] };
	return fnv(w, sizeof w, h);
}

static uint64_t explored_states, explored_transitions;
struct Step { int side; unsigned cmd, ks; };
static std::vector<Step> path_prefix, path;
static unsigned cur_cfgb, cur_sizeb, cur_rounds;
static const uint8_t CMD_BYTE[C_NCMD] = { 0, 6, 11, 17, 23, 25, 26, 27 };
static std::vector<uint8_t> path_tape()
{
	std::vector<uint8_t> tp = { (uint8_t)cur_cfgb, (uint8_t)cur_sizeb, 1, (uint8_t)cur_rounds };
	for (auto *v : { &path_prefix, &path })
		for (auto &st : *v) { tp.push_back(CMD_BYTE[st.cmd]); tp.push_back((uint8_t)(st.side | (st.ks << 1))); }
	return tp;
}

static void explore(Pair &P, const PairSnap &from, unsigned depth, std::unordered_set<uint64_t> &seen, bool excl)
{
	if (depth == 0) return;
	for (int side = 0; side < 2; side++)
	for (unsigned cmd = 0; cmd < C_NCMD; cmd++)
	for (unsigned ks = 0; ks < 2; ks++) {
		if (ks == 1 && cmd >= C_FLUSH0) continue;
		prestore(P, from);
		path.push_back(Step{ side, cmd, ks ? 4u : 0u });
		bool applied;
		try { applied = apply(P, side, cmd, ks ? 4 : 0, excl); }
		catch (const Violation &v) {
			fprintf(stderr, "EXPLORER-FAIL %s: %s\n", P.cfg.c_str(), v.msg.c_str());
			enum_tape(path_tape());           // replays the same history through target_run: exits 1 with the tape saved
			throw;                            // (not reached when the replay fails as expected)
		}
		if (!applied) { path.pop_back(); continue; }   // k = all / k = 1
		explored_transitions++;
		stats.evals++;
		uint64_t h = reg_hash(P);
		bool fresh = seen.insert(h).second;
		if (fresh) {
			explored_states++;
			stats.nontrivial++;
			stats.distinct.insert(h);
			if (depth > 1) {
				PairSnap nxt;
				psave(P, nxt);
				explore(P, nxt, depth - 1, seen, excl);
			}
		}
		path.pop_back();
	}
}

void target_enum(int shard, int nshards)
{
	bool thorough = tier_thorough();
	unsigned depth = (unsigned)env_long("VERIF_C06_DEPTH", thorough ? 5 : 3);
	bool excl = known("client-reneg-with-unflushed-plaintext");
	if (shard == 0) {
		// run the directed probes once in the enumerator too (KNOWN-FINDING lines)
		try { probe_known(); } catch (const Violation &v) {
			std::vector<uint8_t> tp = { 0 };
			fprintf(stderr, "ENUM-FAIL probe: %s\n", v.msg.c_str());
			enum_tape(tp);   // target_run re-runs the probes and fails the same way
		}
	}
	uint64_t n = 0;
	for (unsigned cfg = 0; cfg < 4 * 2 * 3 * 3; cfg++)
	for (unsigned sz = 0; sz < 2; sz++) {
		unsigned sidx = cfg % 4, tls10 = (cfg / 4) % 2, cl = (cfg / 8) % 3, sl = (cfg / 24) % 3;
		if (sidx != 0 && tls10) continue;
		if ((n++ % (uint64_t)nshards) != (uint64_t)shard) continue;
		unsigned cfgb = sidx | (tls10 << 2) | (cl << 3) | (sl << 5);
		// snapshots: after every scheduling round of the handshake, then data-phase states
		Pair P;
		make_pair(P, cfgb, sz ? 3 : 0);
		std::unordered_set<uint64_t> seen;
		unsigned snaps = 0;
		cur_cfgb = cfgb; cur_sizeb = sz ? 3 : 0;
		path_prefix.clear(); path.clear();
		for (unsigned r = 0; r < 250; r++) {
			PairSnap x;
			cur_rounds = r;
			psave(P, x);
			explore(P, x, depth, seen, excl);
			prestore(P, x);
			snaps++;
			if (established(P)) break;
			if (!pump_round(P)) break;
		}
		VF_CHECK(established(P), "explorer: %s: handshake failed", P.cfg.c_str());
		// data phase: half-written plaintext, record partly sent, record partly received, undelivered plaintext
		auto pre = [&](int side, unsigned cmd, unsigned ks) { if (apply(P, side, cmd, ks, excl)) path_prefix.push_back(Step{ side, cmd, ks }); };
		for (unsigned v = 0; v < 6; v++) {
			PairSnap x;
			switch (v) {
			case 0: break;
			case 1: pre(0, C_SENDAPP, 1); break;                                   // client: 2 bytes unflushed
			case 2: pre(0, C_FLUSH0, 0); pre(0, C_SENDREC, 0); break;              // record partly sent
			case 3: pre(0, C_SENDREC, 4); pre(1, C_RECVREC, 1); break;             // record partly received by the server
			case 4: for (int i = 0; i < 8; i++) pre(1, C_RECVREC, 4); break;       // plaintext available, unread
			case 5: pre(1, C_SENDAPP, 2); pre(1, C_FLUSH0, 0); pre(1, C_SENDREC, 4); pre(0, C_RECVREC, 2); break;
			}
			psave(P, x);
			explore(P, x, depth, seen, excl);
			prestore(P, x);
			snaps++;
		}
		stats.cls("explorer:snapshots", snaps);
		if (stats.want_sample()) stats.sample(fmt("explorer %s: %u snapshots, all command sequences of depth <= %u with k in {1, all}: %zu distinct register states", P.cfg.c_str(), snaps, depth, seen.size()));
	}
	stats.cls("explorer:states", explored_states);
	stats.cls("explorer:transitions", explored_transitions);
	stats.notes["explorer_depth"] = std::to_string(depth);
	stats.exhaustive = true;
}
