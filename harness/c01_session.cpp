// C01 — TLS sessions deliver application data exactly and agree on
// session parameters.
//
// Case (decoded from the tape): pairing (Bear<->Bear, Bear client <->
// OpenSSL server, OpenSSL client <-> Bear server), suite, version, server key
// kind, per-side implementation set / buffer layout / buffer size class,
// transport chunking policies, an application script with write sizes
// around the fragment boundaries, and which side closes.
//
// Oracle: handshake completes with error 0 on both sides; version, suite,
// session ID and RFC 5705 exported key material are equal on both sides;
// every byte delivered equals the byte written at that offset (running
// prefix check), everything written is delivered by the time of the
// orderly close; both sides end CLOSED with error 0; the independent
// wiretap authenticates every record with sequence numbers from 0 and its
// plaintext application stream equals what was written; exactly one
// close_notify per direction.  The C06 state invariants are asserted after
// every engine call (tls_endpoints.hpp).
#include "common/tls_session.hpp"
#include "common/tls_mbed.hpp"
#include <time.h>

using namespace vf;
using namespace tls;

const char *target_name = "c01_session";
const int target_tape_min = 0, target_tape_max = 160;

static const size_t MFL_CLASS[5] = { 512, 1024, 2048, 4096, 16384 };

struct Side {
	bool esp;
	Layout layout;
	int cls;          // fragment class index
	size_t extra;     // bytes above the threshold
};

// buffer sizes giving exactly the fragment class `cls` (plus `extra` slack
// that does not reach the next class)
static void size_profile(Profile &p, const Side &s)
{
	size_t mfl = MFL_CLASS[s.cls];
	size_t next = s.cls < 4 ? (s.cls == 3 ? 16384 : MFL_CLASS[s.cls + 1]) : 0;
	size_t extra = s.extra;
	if (next && extra >= next - mfl) extra = next - mfl - 1;
	p.layout = s.layout;
	p.esp = s.esp;
	if (s.layout == L_MONO) {
		p.buflen = mfl + 325 + extra;
	} else if (s.layout == L_BIDI) {
		// set_buffer(bidi): output part is 597 bytes unless the buffer is
		// larger than 16384+325+597; input part gets the rest
		if (s.cls == 4) p.buflen = 16384 + 325 + 16384 + 85 + extra;
		else p.buflen = (mfl + 325 + extra) + 597;
		// note: with a 597-byte output part the engine's own limit is 512
	} else {
		p.ilen = mfl + 325 + extra;
		p.olen = mfl + 85 + (extra & 0xFF);
	}
}
// the fragment length the library will derive (reference computation from
// the documented rule: largest L in {512..16384} with obuf >= L+85, ibuf >= L+325; 8192 -> 4096)
static size_t ref_mfl(size_t ilen, size_t olen)
{
	for (int u = 14; u >= 9; u--) {
		size_t f = (size_t)1 << u;
		if (olen >= f + 85 && ilen >= f + 325) return u == 13 ? 4096 : f;
	}
	return 0;
}
static void io_sizes(const Profile &p, size_t &ilen, size_t &olen)
{
	if (p.layout == L_MONO) { ilen = olen = p.buflen; }
	else if (p.layout == L_SPLIT) { ilen = p.ilen; olen = p.olen; }
	else {
		size_t w = p.buflen < 16384 + 325 + 512 + 85 ? 597 : p.buflen - (16384 + 325);
		ilen = p.buflen - w; olen = w;
	}
}

static ChunkPol draw_pol(Tape &t)
{
	ChunkPol p;
	unsigned v = t.u8();
	switch (v % 6) {
	case 0: p.mode = CH_WHOLE; break;
	case 1: p.mode = CH_ONE; break;
	case 2: p.mode = CH_FIXED; p.k = 2 + (v >> 3) % 7; break;
	case 3: p.mode = CH_HDR; break;
	case 4: p.mode = CH_TAPE; break;
	default: p.mode = CH_FIXED; p.k = 100 + (v >> 3) * 37; break;
	}
	return p;
}
static const char *pol_name(const ChunkPol &p)
{
	static const char *n[] = { "whole", "1byte", "fixed", "hdrsplit", "tape" };
	return n[p.mode];
}

static size_t draw_write_len(Tape &t, size_t mfl)
{
	unsigned sel = t.u8() % 14;
	switch (sel) {
	case 0: return 1;
	case 1: return 0;            // flush(force): empty record
	case 2: return 2;
	case 3: return mfl - 1;
	case 4: return mfl;
	case 5: return mfl + 1;
	case 6: return 2 * mfl - 1;
	case 7: return 2 * mfl + 1;
	case 8: return 3 * mfl;
	case 9: return (size_t)t.range(1, 64);
	case 10: return (size_t)t.range(1, mfl);
	case 11: return 15 + (size_t)t.range(0, 2);
	case 12: return mfl / 2;
	default: return (size_t)t.range(1, 3 * mfl);
	}
}

void target_run(Tape &t)
{
	// ---------------------------------------------------------------- decode
	unsigned psel = t.u8();
	// 0 BB, 1 bear client/openssl server, 2 openssl client/bear server, 3 bear client/mbedtls server, 4 mbedtls client/bear server
	int pairing = psel < 104 ? 0 : psel < 154 ? 3 + (int)(psel & 1) : psel < 205 ? 1 : 2;
	bool foreign_server = pairing == 1 || pairing == 3, foreign_client = pairing == 2 || pairing == 4;
	std::vector<const wt::SuiteInfo *> pool;
	for (size_t i = 0; i < wt::NSUITES; i++)
		if (pairing == 0 || (pairing <= 2 ? ossl_suite_name(wt::SUITES[i].id) != nullptr : mbed_has_suite(wt::SUITES[i].id))) pool.push_back(&wt::SUITES[i]);
	const wt::SuiteInfo *si = pool[t.u8() % pool.size()];
	unsigned version = si->tls12_only ? 0x0303 : 0x0301 + t.u8() % 3;
	if (si->tls12_only) (void)t.u8();
	std::vector<KeyKind> kk = keys_for(si);
	KeyKind key = kk[t.u8() % kk.size()];
	if (pairing != 0 && key == K_ECRSA && si->kx == wt::KX_ECDHE_ECDSA) key = K_EC;

	Side cs, ss;
	unsigned b = t.u8();
	cs.esp = b & 1; cs.layout = (Layout)((b >> 1) % 3);
	unsigned c = t.u8();
	cs.cls = c == 0 ? 4 : (int)((c - 1) % 5);
	unsigned j = t.u8();
	cs.extra = j % 4 == 0 ? 0 : j % 4 == 1 ? 1 : j % 4 == 2 ? (size_t)(j >> 2) : (size_t)(j >> 2) * 67;
	b = t.u8();
	ss.esp = b & 1; ss.layout = (Layout)((b >> 1) % 3);
	c = t.u8();
	ss.cls = c == 0 ? 4 : cs.cls + (int)((c - 1) % (5 - cs.cls));   // server input holds the client's largest record
	j = t.u8();
	ss.extra = j % 4 == 0 ? 0 : j % 4 == 1 ? 1 : j % 4 == 2 ? (size_t)(j >> 2) : (size_t)(j >> 2) * 67;
	if (foreign_server) { ss.cls = 4; }
	if (foreign_client) { cs.cls = 4; }
	// an mbedTLS client asks for a maximum fragment length of its own choosing (code 1..4 = 512..4096)
	int mbed_mfl_code = pairing == 4 ? (int)(t.u8() % 8) : 0;
	if (mbed_mfl_code > 4) mbed_mfl_code = 0;
	if (pairing >= 3) {
		// mbedTLS 2.28 neither reassembles a handshake message that spans records nor splits its own:
		// the BearSSL side must be able to emit (server) / take in (client) the certificate-bearing flight in one
		// record, so its buffers - and the length an mbedTLS client asks for - are raised to that size
		// (fragmented handshake messages are exercised with the other two peers)
		const br_x509_certificate *chain = key == K_RSA ? FX_RSA_CHAIN : key == K_EC ? FX_EC_CHAIN : FX_ECRSA_CHAIN;
		// (BearSSL packs ServerHello, Certificate, ServerKeyExchange and ServerHelloDone into one byte stream cut
		// at the fragment length, so the whole flight has to fit: at most 4+70+64 bytes of ServerHello, 4+4+133+4+512
		// of ServerKeyExchange and 4 of ServerHelloDone besides the chain)
		size_t certmsg = 4 + 3 + (3 + chain[0].data_len) + (3 + chain[1].data_len) + 138 + 657 + 4;
		Side &bs_ = pairing == 3 ? cs : ss;
		for (;;) {
			Profile pp; size_profile(pp, bs_);
			size_t i_, o_; io_sizes(pp, i_, o_);
			if (ref_mfl(i_, o_) >= certmsg || bs_.cls >= 4) break;
			bs_.cls++;
		}
		while (mbed_mfl_code && ((size_t)256 << mbed_mfl_code) < certmsg) if (++mbed_mfl_code > 4) mbed_mfl_code = 0;
	}

	Profile cp, sp;
	cp.suites = { si->id }; sp.suites = { si->id };
	cp.vmin = cp.vmax = sp.vmin = sp.vmax = version;
	sp.key = key;
	size_profile(cp, cs);
	size_profile(sp, ss);
	cp.entropy = t.filled(32);
	sp.entropy = t.filled(32);
	if (cp.entropy == Bytes(32, 0)) cp.entropy[0] = 1;
	if (sp.entropy == Bytes(32, 0)) sp.entropy[0] = 2;
	DetRand::install(fnv(cp.entropy.data(), 32));

	size_t ci, co, sI, so;
	io_sizes(cp, ci, co);
	io_sizes(sp, sI, so);
	size_t cmfl = ref_mfl(ci, co), smfl = ref_mfl(sI, so);
	if (foreign_server) smfl = 16384;
	if (foreign_client) cmfl = mbed_mfl_code ? (size_t)256 << mbed_mfl_code : 16384;
	// limit in force per sending side after negotiation (client asks when < 16384)
	size_t c_eff = cmfl, s_eff = cmfl < 16384 ? (smfl < cmfl ? smfl : cmfl) : smfl;
	// a BearSSL server bigger than the client's records: fine.  A BearSSL
	// server with input smaller than the client's fragment length cannot
	// happen here (ss.cls >= cs.cls and bidi output split keeps input large).
	if (sI < c_eff + 325) {
		// bidi layout took 597 bytes away from the input side: restrict the
		// client's writes so that its records fit (the refusal itself is C16)
		c_eff = sI - 325;
	}

	// version ranges: both contain `version`, and it is the highest common one
	// (drawn from the *end* of the tape so that earlier fields keep their place)
	unsigned cursel = 0;
	{
		Tape tail(t.p + (t.n > 4 ? t.n - 4 : 0), t.n > 4 ? 4 : 0);
		cursel = tail.u8();
		unsigned r = tail.u8(), lo1 = tail.u8(), lo2 = tail.u8();
		unsigned up = 0x0303 - version;
		if (r & 1) cp.vmax = version + (up ? (r >> 1) % (up + 1) : 0);
		else sp.vmax = version + (up ? (r >> 1) % (up + 1) : 0);
		unsigned down = version - 0x0301;
		cp.vmin = version - (down ? lo1 % (down + 1) : 0);
		sp.vmin = version - (down ? lo2 % (down + 1) : 0);
	}
	// ECDHE over one chosen curve: the engine of one BearSSL side gets an EC implementation reduced to that curve (the
	// server otherwise prefers X25519, then P-256, and the larger curves would never carry a key exchange).  The client's
	// engine implementation also verifies the ServerKeyExchange signature, so with an ECDSA (P-256) server key only the
	// server side is reduced.  Applied before reset(): the ClientHello is written at reset time.
	int only_curve = 0;
	bool curve_on_server = false;
	if ((si->kx == wt::KX_ECDHE_RSA || si->kx == wt::KX_ECDHE_ECDSA) && cursel % 8 >= 4) {
		static const int CV[] = { BR_EC_secp256r1, BR_EC_secp384r1, BR_EC_secp521r1, BR_EC_curve25519 };
		only_curve = CV[cursel % 4];
		curve_on_server = ((cursel >> 3) & 1) != 0 || si->kx == wt::KX_ECDHE_ECDSA;
		if (curve_on_server && foreign_server) { if (si->kx == wt::KX_ECDHE_RSA) curve_on_server = false; else only_curve = 0; }
		else if (!curve_on_server && foreign_client) curve_on_server = true;
	}
	auto reduce_ec = [&](BearEndpoint *who, bool esp) {
		static br_ec_impl reduced[2][32];
		br_ec_impl &ri = reduced[esp][only_curve];
		ri = esp ? br_ec_all_m15 : br_ec_all_m31;
		ri.supported_curves = 1u << only_curve;
		br_ssl_engine_set_ec(who->eng, &ri);
	};
	std::unique_ptr<Endpoint> cl, sv;
	BearClient *bc = nullptr;
	BearServer *bs = nullptr;
	if (pairing == 2) {
		auto *o = new OsslEndpoint(true, cp);
		o->max_send_fragment = c_eff < smfl ? c_eff : smfl;
		if (sI < 16384 + 325) SSL_set_max_send_fragment(o->ssl, (long)(sI - 325 < 512 ? 512 : sI - 325));
		cl.reset(o);
	} else if (pairing == 4) {
		auto *m = new MbedEndpoint(true, cp, fnv(cp.entropy.data(), 32), mbed_mfl_code);
		m->max_send_fragment = c_eff < smfl ? c_eff : smfl;
		cl.reset(m);
	} else {
		bc = new BearClient(cp);
		cl.reset(bc);
		if (only_curve && !curve_on_server) reduce_ec(bc, cs.esp);
		VF_CHECK(bc->reset(), "client reset failed: error %d", bc->error());
		VF_CHECK(bc->eng->max_frag_len == cmfl, "client fragment length %u, reference says %zu for in=%zu out=%zu",
			(unsigned)bc->eng->max_frag_len, cmfl, ci, co);
	}
	if (pairing == 1) sv.reset(new OsslEndpoint(false, sp));
	else if (pairing == 3) sv.reset(new MbedEndpoint(false, sp, fnv(sp.entropy.data(), 32)));
	else {
		bs = new BearServer(sp);
		sv.reset(bs);
		if (only_curve && curve_on_server) reduce_ec(bs, ss.esp);
		VF_CHECK(bs->reset(), "server reset failed: error %d", bs->error());
	}

	Session S(cl.get(), sv.get());
	S.tape = &t;
	S.wire_out_pol[0] = draw_pol(t); S.wire_out_pol[1] = draw_pol(t);
	S.wire_in_pol[0] = draw_pol(t); S.wire_in_pol[1] = draw_pol(t);
	S.app_pol = draw_pol(t);
	S.jitter = t.flag();
	S.stream_seed[0] = 0xC0FFEE00 + t.u8();
	S.stream_seed[1] = 0xBEEF0000 + t.u8();

	int closer = t.u8() & 1;
	unsigned nw[2];
	nw[0] = 1 + t.u8() % 4; nw[1] = 1 + t.u8() % 4;
	size_t total = 0;
	// byte-at-a-time policies make every payload byte cost a scheduling round
	bool slow = false;
	for (ChunkPol *p : { &S.wire_out_pol[0], &S.wire_out_pol[1], &S.wire_in_pol[0], &S.wire_in_pol[1], &S.app_pol })
		if (p->mode == CH_ONE || (p->mode == CH_FIXED && p->k < 16) || p->mode == CH_TAPE) slow = true;
	size_t budget = slow ? 40000 : 140000;
	if (S.app_pol.mode == CH_ONE || (S.app_pol.mode == CH_FIXED && S.app_pol.k < 16)) budget = 5000;   // every chunk is an API call (and a record, for OpenSSL)
	std::string script_desc;
	for (int side = 0; side < 2; side++) {
		size_t eff = side == 0 ? c_eff : s_eff;
		unsigned empties = 0;
		for (unsigned i = 0; i < nw[side]; i++) {
			Item it;
			it.kind = IT_WRITE;
			it.len = draw_write_len(t, eff);
			if (total + it.len > budget) it.len = 1 + it.len % 23;
			if (it.len == 0 && !ep_is_bear(side == 0 ? cl.get() : sv.get())) it.len = 1;
			// mbedTLS treats a fourth consecutive empty record as a denial-of-service attempt
			if (it.len == 0 && pairing >= 3 && ++empties > 3) it.len = 1;
			total += it.len;
			it.flush = (t.u8() & 3) != 0;
			S.script[side].push_back(it);
			script_desc += fmt("%c%zu%s ", side ? 's' : 'c', it.len, it.flush ? "" : "nf");
		}
		S.script[side].push_back(Item{ IT_FLUSH, 0, true });
	}
	S.script[closer].push_back(Item{ IT_WAIT_PEER_IDLE, 0, true });
	S.script[closer].push_back(Item{ IT_CLOSE, 0, true });

	std::string desc = fmt("%s %s TLS%s (c %s-%s, s %s-%s) key=%d | client %s%s cls=%zu(+%zu) | server %s%s cls=%zu(+%zu) | wire %s/%s in %s/%s app %s%s | %sclose by %s",
		pairing == 0 ? "bear<->bear" : pairing == 1 ? "bear-client<->openssl-server" : pairing == 2 ? "openssl-client<->bear-server" :
		pairing == 3 ? "bear-client<->mbedtls-server" : mbed_mfl_code ? "mbedtls-client(mfln)<->bear-server" : "mbedtls-client<->bear-server",
		si->name, ver_name(version), ver_name(cp.vmin), ver_name(cp.vmax), ver_name(sp.vmin), ver_name(sp.vmax), (int)key,
		cs.esp ? "esp," : "", cs.layout == L_MONO ? "mono" : cs.layout == L_BIDI ? "bidi" : "split", cmfl, cs.extra,
		ss.esp ? "esp," : "", ss.layout == L_MONO ? "mono" : ss.layout == L_BIDI ? "bidi" : "split", smfl, ss.extra,
		pol_name(S.wire_out_pol[0]), pol_name(S.wire_out_pol[1]), pol_name(S.wire_in_pol[0]), pol_name(S.wire_in_pol[1]),
		pol_name(S.app_pol), S.jitter ? " jitter" : "", script_desc.c_str(), closer ? "server" : "client");

	if (only_curve) desc += fmt(" | ECDHE over curve %d only", only_curve);
	// ---------------------------------------------------------------- run
	bool params_checked = false;
	S.on_established = [&]() {
		// (2) version, suite, session id; (3) exported key material
		uint8_t label_ctx[16];
		for (int i = 0; i < 16; i++) label_ctx[i] = (uint8_t)(i * 7 + version);
		uint8_t ek[2][40];
		// RFC 5705 distinguishes "no context" from a context of length zero (bearssl_ssl.h says so too): one of the
		// three forms per case
		unsigned ctx_form = (unsigned)(version + si->id + cp.entropy[0]) % 3;   // 0: 16-byte context, 1: empty context, 2: no context
		const uint8_t *ectx = ctx_form == 2 ? nullptr : label_ctx;
		size_t ectx_len = ctx_form == 0 ? 16 : 0;
		unsigned ver[2];
		unsigned suite[2];
		Bytes sid[2];
		for (int side = 0; side < 2; side++) {
			Endpoint *e = S.ep[side];
			if (e->is_bear()) {
				BearEndpoint *be = static_cast<BearEndpoint *>(e);
				br_ssl_session_parameters pp;
				br_ssl_engine_get_session_parameters(be->eng, &pp);
				ver[side] = pp.version; suite[side] = pp.cipher_suite;
				sid[side].assign(pp.session_id, pp.session_id + pp.session_id_len);
				VF_CHECK(br_ssl_engine_get_version(be->eng) == pp.version, "%s: get_version disagrees with session parameters", desc.c_str());
				VF_CHECK(br_ssl_key_export(be->eng, ek[side], 40, "EXPERIMENTAL verif", ectx, ectx_len) == 1, "%s: key export refused", desc.c_str());
			} else if (pairing >= 3) {
				MbedEndpoint *me = static_cast<MbedEndpoint *>(e);
				ver[side] = me->version();
				suite[side] = me->suite();
				sid[side] = me->session_id();
				VF_CHECK(me->key_export(ek[side], 40, "EXPERIMENTAL verif", ectx, ectx_len), "harness: mbedtls export");
			} else {
				OsslEndpoint *oe = static_cast<OsslEndpoint *>(e);
				ver[side] = (unsigned)SSL_version(oe->ssl);
				suite[side] = SSL_CIPHER_get_protocol_id(SSL_get_current_cipher(oe->ssl));
				unsigned l = 0;
				const unsigned char *p = SSL_SESSION_get_id(SSL_get_session(oe->ssl), &l);
				sid[side].assign(p, p + l);
				VF_CHECK(SSL_export_keying_material(oe->ssl, ek[side], 40, "EXPERIMENTAL verif", 18, label_ctx, ectx_len, ctx_form != 2) == 1, "harness: openssl export");
			}
		}
		if (only_curve) for (int side = 0; side < 2; side++) if (S.ep[side]->is_bear())
			VF_CHECK(br_ssl_engine_get_ecdhe_curve(static_cast<BearEndpoint *>(S.ep[side])->eng) == only_curve, "%s: %s reports ECDHE curve %d, only curve %d was common", desc.c_str(), side ? "server" : "client",
				br_ssl_engine_get_ecdhe_curve(static_cast<BearEndpoint *>(S.ep[side])->eng), only_curve);
		VF_CHECK(ver[0] == version && ver[1] == version, "%s: versions reported %04x / %04x, configured %04x", desc.c_str(), ver[0], ver[1], version);
		VF_CHECK(suite[0] == si->id && suite[1] == si->id, "%s: suites reported %04x / %04x, configured %04x", desc.c_str(), suite[0], suite[1], si->id);
		VF_CHECK(sid[0] == sid[1], "%s: session IDs differ: %s vs %s", desc.c_str(), hex(sid[0].data(), sid[0].size()).c_str(), hex(sid[1].data(), sid[1].size()).c_str());
		VF_CHECK(memcmp(ek[0], ek[1], 40) == 0, "%s: exported key material (%s) differs: %s vs %s", desc.c_str(), ctx_form == 0 ? "16-byte context" : ctx_form == 1 ? "context of length zero" : "no context",
			hex(ek[0], 40).c_str(), hex(ek[1], 40).c_str());
		stats.cls(ctx_form == 0 ? "export:with-context" : ctx_form == 1 ? "export:empty-context" : "export:no-context");
		params_checked = true;
	};
	struct timespec ts0, ts1;   // tracing aid only (VERIF_TRACE); never influences the case
	if (getenv("VERIF_TRACE")) { clock_gettime(CLOCK_MONOTONIC, &ts0); fprintf(stderr, "TRACE start %s\n", desc.c_str()); }
	bool quiesced = S.run(3000000);
	if (getenv("VERIF_TRACE")) {
		clock_gettime(CLOCK_MONOTONIC, &ts1);
		fprintf(stderr, "TRACE %.3fs rounds=%llu %s\n", (ts1.tv_sec - ts0.tv_sec) + (ts1.tv_nsec - ts0.tv_nsec) / 1e9, (unsigned long long)S.rounds, desc.c_str());
	}
	VF_CHECK(quiesced, "%s: session did not quiesce", desc.c_str());

	// ---------------------------------------------------------------- oracle
	int e0 = cl->error(), e1 = sv->error();
	VF_CHECK(S.established, "%s: handshake did not complete (client error %d state %s, server error %d state %s)", desc.c_str(),
		e0, cl->closed() ? "closed" : "open", e1, sv->closed() ? "closed" : "open");
	VF_CHECK(params_checked, "%s: parameters not compared", desc.c_str());
	VF_CHECK(S.scripts_done(), "%s: stalled: scripts not finished (c %zu items left, s %zu; sent %zu/%zu recvd %zu/%zu; errors %d/%d)", desc.c_str(),
		S.script[0].size(), S.script[1].size(), S.sent[0], S.sent[1], S.recvd[0], S.recvd[1], e0, e1);
	VF_CHECK(cl->closed() && sv->closed(), "%s: after orderly close: client %s, server %s", desc.c_str(),
		cl->closed() ? "closed" : "NOT closed", sv->closed() ? "closed" : "NOT closed");
	VF_CHECK(e0 == 0 && e1 == 0, "%s: orderly close ended with errors client=%d server=%d", desc.c_str(), e0, e1);
	for (int d = 0; d < 2; d++)
		VF_CHECK(S.recvd[d] == S.sent[d], "%s: %s wrote %zu bytes, peer read %zu", desc.c_str(), d ? "server" : "client", S.sent[d], S.recvd[d]);
	// wiretap: every record authenticates under keys derived independently
	for (int d = 0; d < 2; d++) {
		bool ok = S.tap.advance(d, true);
		VF_CHECK(ok && S.tap.decode_error.empty(), "%s: %s", desc.c_str(), S.tap.decode_error.c_str());
		Bytes as = S.tap.app_stream(d);
		VF_CHECK(as.size() == S.sent[d], "%s: wire carries %zu application bytes from %s, application wrote %zu", desc.c_str(), as.size(), d ? "server" : "client", S.sent[d]);
		for (size_t i = 0; i < as.size(); i++)
			VF_CHECK(as[i] == stream_byte(S.stream_seed[d], i), "%s: wire plaintext differs from written stream at %zu", desc.c_str(), i);
		unsigned close_notifies = 0;
		size_t eff = d == 0 ? c_eff : s_eff;
		for (auto &p : S.tap.plain[d]) {
			if (p.type == 21 && p.epoch > 0 && p.data.size() == 2 && p.data[1] == 0) close_notifies++;
			if (S.ep[d]->is_bear() && p.epoch > 0 && p.type == 23)
				VF_CHECK(p.data.size() <= eff || (d == 0 && p.data.size() <= cmfl), "%s: %s sent a %zu-byte fragment, limit in force %zu", desc.c_str(), d ? "server" : "client", p.data.size(), eff);
		}
		VF_CHECK(close_notifies == 1, "%s: %u close_notify alerts from %s", desc.c_str(), close_notifies, d ? "server" : "client");
	}
	// the same contexts serve a second connection after the orderly close (what servers and reconnecting clients do)
	if (pairing == 0 && t.u8() % 4 == 0) {
		VF_CHECK(bc->reset() && bs->reset(), "%s: reset of the contexts after an orderly close failed (errors %d/%d)", desc.c_str(), bc->error(), bs->error());
		Session S2(cl.get(), sv.get());
		S2.wire_in_pol[0] = S.wire_in_pol[0]; S2.wire_in_pol[1] = S.wire_in_pol[1];
		S2.script[0].push_back(Item{ IT_WRITE, 11, true });
		S2.script[1].push_back(Item{ IT_WRITE, 13, true });
		S2.script[0].push_back(Item{ IT_WAIT_PEER_IDLE, 0, true });
		S2.script[0].push_back(Item{ IT_CLOSE, 0, true });
		S2.script[1].push_back(Item{ IT_FLUSH, 0, true });
		bool q2 = S2.run(3000000);
		VF_CHECK(q2 && S2.established && S2.recvd[0] == 11 && S2.recvd[1] == 13 && cl->closed() && sv->closed() && cl->error() == 0 && sv->error() == 0,
			"%s: second connection on the same contexts (after reset): established %d, delivered %zu/11 and %zu/13, closed %d/%d, errors %d/%d", desc.c_str(),
			(int)S2.established, S2.recvd[0], S2.recvd[1], (int)cl->closed(), (int)sv->closed(), cl->error(), sv->error());
		stats.cls("context-reused-for-a-second-connection");
	}
	bool nontriv = S.sent[0] > 0 && S.sent[1] > 0 && S.cuts_inside_record > 0;
	stats.cls(pairing == 0 ? "pairing:bear-bear" : pairing == 1 ? "pairing:bearclient-openssl" : pairing == 2 ? "pairing:openssl-bearserver" :
		pairing == 3 ? "pairing:bearclient-mbedtls" : "pairing:mbedtls-bearserver");
	if (pairing >= 3 && (si->kx == wt::KX_ECDH_RSA || si->kx == wt::KX_ECDH_ECDSA)) stats.cls("foreign-peer:static-ecdh-suite");
	if (mbed_mfl_code) stats.cls("foreign-peer:mbedtls-client-requests-mfln");
	stats.cls(std::string("version:") + ver_name(version));
	stats.cls(std::string("mode:") + (wt::is_cbc(si->cipher) ? "cbc" : wt::is_gcm(si->cipher) ? "gcm" : wt::is_ccm(si->cipher) ? "ccm" : "chapol"));
	stats.cls(fmt("client:%s", cs.layout == L_MONO ? "mono" : cs.layout == L_BIDI ? "bidi" : "split"));
	stats.cls(fmt("server:%s", ss.layout == L_MONO ? "mono" : ss.layout == L_BIDI ? "bidi" : "split"));
	stats.cls(fmt("client-mfl:%zu", cmfl));
	stats.cls(fmt("wirepol:%s", pol_name(S.wire_in_pol[1])));
	if (cs.esp || ss.esp) stats.cls("impl:esp");
	if (only_curve) stats.cls(fmt("ecdhe-over-curve:%d", only_curve));
	if (cp.vmax != version || sp.vmax != version) stats.cls("version:negotiated-below-one-side-max");
	stats.eval(nontriv ? fmt("%d/%04x/%04x/%d/%d%d%d/%d%d%d/%zu/%zu", pairing, si->id, version, (int)key, cs.esp, cs.layout, cs.cls, ss.esp, ss.layout, ss.cls,
		S.sent[0] % 7, S.sent[1] % 7) : std::string());
	if (stats.want_sample()) stats.sample(desc + fmt(" => ok: %zu+%zu app bytes, %zu+%zu records, %llu rounds", S.sent[0], S.sent[1],
		S.tap.recs[0].size(), S.tap.recs[1].size(), (unsigned long long)S.rounds));
}

// Enumerator: all 45 suites x admissible versions x {mono, bidi} x key kinds,
// Bear<->Bear, with 1-byte and header-split chunking (the adversarial
// schedule); thorough adds esp implementations and all fragment classes.
void target_enum(int shard, int nshards)
{
	bool thorough = tier_thorough();
	uint64_t n = 0;
	for (size_t s = 0; s < wt::NSUITES; s++)
	for (unsigned v = 0; v < 3; v++)
	for (unsigned lay = 0; lay < (thorough ? 3u : 2u); lay++)
	for (unsigned esp = 0; esp < (thorough ? 2u : 1u); esp++)
	for (unsigned cls = 0; cls < (thorough ? 5u : 1u); cls++)
	for (unsigned k = 0; k < 2; k++) {
		const wt::SuiteInfo *si = &wt::SUITES[s];
		if (si->tls12_only && v != 2) continue;
		if (k >= keys_for(si).size()) continue;
		if ((n++ % (uint64_t)nshards) != (uint64_t)shard) continue;
		std::vector<uint8_t> tp;
		tp.push_back(0);                 // bear<->bear
		tp.push_back((uint8_t)s);        // suite
		tp.push_back((uint8_t)v);        // version
		tp.push_back((uint8_t)k);        // key kind
		tp.push_back((uint8_t)(esp | (lay << 1)));          // client esp/layout
		tp.push_back(thorough ? (uint8_t)(cls + 1) : 0);    // client class (0 = full)
		tp.push_back((uint8_t)(s & 1));                     // client extra: 0 or +1
		tp.push_back((uint8_t)(esp | (((lay + 1) % 3) << 1)));   // server: another layout
		tp.push_back(0);                 // server class full
		tp.push_back(1);                 // +1
		for (int i = 0; i < 4; i++) tp.push_back((uint8_t)(s * 3 + v + 1));   // client entropy seed
		for (int i = 0; i < 4; i++) tp.push_back((uint8_t)(s * 5 + v + 2));   // server entropy seed
		tp.push_back(1); tp.push_back(3);   // wire out: client 1-byte, server header-split
		tp.push_back(3); tp.push_back(1);   // wire in: client header-split, server 1-byte
		tp.push_back(5);                 // app policy fixed
		tp.push_back(0);                 // no jitter
		tp.push_back((uint8_t)s); tp.push_back((uint8_t)v);   // stream seeds
		tp.push_back((uint8_t)(s + v));  // closer
		tp.push_back(1); tp.push_back(1);   // two writes each
		tp.push_back(5); tp.push_back(1);   // client: mfl+1, flush
		tp.push_back(3); tp.push_back(1);   // client: mfl-1
		tp.push_back(7); tp.push_back(1);   // server: 2mfl+1
		tp.push_back(0); tp.push_back(0);   // server: 1 byte, no flush
		enum_tape(tp);
	}
}
