// C15 — the negotiation outcome equals a reference function of both
// configurations.
//
// Reference function (written from RFC 5246 7.4.1, RFC 7301, RFC 7507,
// RFC 5746, RFC 4492 and the header documentation of the BR_OPT_* flags and
// of the single-key server policies): highest common version (alert 70 if
// below the server's minimum, 86 for an undue fallback); first suite - in
// client order, or in server order with ENFORCE_SERVER_PREFERENCES - that
// both list and that is usable with the server key type / issuer / usages,
// the version (TLS-1.2-only suites) and, for ECDHE, a common signature hash
// and a common curve; none: alert 40.  Signature hash preference SHA-256,
// 384, 512, 224, 1; curve preference X25519, P-256, P-384, P-521; ALPN: the
// server's most preferred name also offered by the client, otherwise alert
// 120 iff FAIL_ON_ALPN_MISMATCH; secure renegotiation iff extension or SCSV.
//
// Mode S: a scripted ClientHello (any suite values incl. unknown / GREASE /
// duplicates / SCSVs, extensions present or absent) drives a real BearSSL
// server and the plaintext answer is parsed from the wire.  Mode F: real
// client <-> real server, both sides' getters compared with the reference
// and with each other.
#include "common/tls_hello.hpp"
#include <set>

using namespace vf;
using namespace tls;

const char *target_name = "c15_negotiate";
const int target_tape_min = 0, target_tape_max = 96;

struct ClientView {
	unsigned vmax;
	std::vector<uint16_t> suites;
	bool has_sigalgs; unsigned rsa_hashes, ecdsa_hashes;     // bit per hash id (2..6)
	bool new_style_sigalgs = false;                          // an entry with 'hash' byte 8 (the TLS 1.3 code points)
	bool has_curves; std::vector<unsigned> curves;
	std::vector<std::string> alpn;
	bool fallback_scsv, reneg_scsv, reneg_ext;
	std::string sni;
};
struct ServerView {
	unsigned vmin, vmax;
	std::vector<uint16_t> suites;
	uint32_t flags;
	KeyKind key; unsigned usages;
	std::vector<std::string> alpn;
	uint32_t curves;        // bitmask of supported curve ids
	unsigned hashes;        // bit per hash id
};
struct Outcome {
	int alert = -1;         // fatal alert sent by the server, or -1
	int alt_alert = -1;     // second admissible alert when two refusal conditions hold at once (their order is not documented)
	unsigned version = 0, suite = 0, curve = 0, hash = 0;
	bool has_alpn = false; std::string alpn;
	bool secure_reneg = false;
	bool ambiguous = false; // configuration whose behaviour the documentation leaves open
};

static Outcome reference(const ClientView &c, const ServerView &s, bool sigalgs_filter_below_tls12 = false)
{
	Outcome o;
	unsigned v = std::min(c.vmax, s.vmax);
	if (c.vmax < 0x0300) { o.alert = 70; return o; }
	if (v < s.vmin) { o.alert = 70; if (c.fallback_scsv && c.vmax < s.vmax) o.alt_alert = 86; return o; }
	if (c.fallback_scsv && c.vmax < s.vmax) { o.alert = 86; return o; }
	bool alpn_fail = false;
	if (!c.alpn.empty() && !s.alpn.empty() && (s.flags & BR_OPT_FAIL_ON_ALPN_MISMATCH)) {
		alpn_fail = true;
		for (auto &n : s.alpn) if (std::find(c.alpn.begin(), c.alpn.end(), n) != c.alpn.end()) alpn_fail = false;
	}
	o.version = v;
	o.secure_reneg = c.reneg_ext || c.reneg_scsv;
	// common hashes per signature algorithm
	unsigned rsa_h, ec_h;
	if (v >= 0x0303) {
		rsa_h = (c.has_sigalgs ? c.rsa_hashes : (1u << 2)) & s.hashes;     // default when the extension is absent: SHA-1
		ec_h = (c.has_sigalgs ? c.ecdsa_hashes : (1u << 2)) & s.hashes;
	} else {
		// TLS 1.0/1.1: MD5+SHA-1 for RSA, SHA-1 for ECDSA, fixed; the server needs them
		rsa_h = ((s.hashes & 0x06) == 0x06) ? 0x04 : 0;
		ec_h = (s.hashes & 0x04) ? 0x04 : 0;
	}
	uint32_t ccurves = 0;
	if (c.has_curves) { for (unsigned x : c.curves) if (x < 32) ccurves |= 1u << x; } else ccurves = 1u << 23;
	uint32_t common_curves = ccurves & s.curves;
	auto usable = [&](uint16_t id) -> int {      // 1 usable, 0 not, -1 undocumented corner
		const wt::SuiteInfo *si = wt::suite_by_id(id);
		if (!si) return 0;
		if (si->tls12_only && v < 0x0303) return 0;
		switch (si->kx) {
		case wt::KX_RSA: return s.key == K_RSA && (s.usages & BR_KEYTYPE_KEYX);
		// Below TLS 1.2 the signature hash is fixed by the protocol (MD5+SHA-1 / SHA-1) and the signature_algorithms
		// extension "is not meaningful" (RFC 5246 7.4.1.4.1): it does not make a suite unusable.  The library lets it
		// (listed finding sigalgs-filter-below-tls12); the flag reproduces that behaviour for the comparison.
		case wt::KX_ECDHE_RSA:
			if (!(s.key == K_RSA && (s.usages & BR_KEYTYPE_SIGN) && common_curves)) return 0;
			if (sigalgs_filter_below_tls12 && v < 0x0303 && c.has_sigalgs && !(c.rsa_hashes & s.hashes)) return 0;
			return rsa_h != 0;
		case wt::KX_ECDHE_ECDSA:
			if (!(s.key != K_RSA && (s.usages & BR_KEYTYPE_SIGN) && common_curves)) return 0;
			if (sigalgs_filter_below_tls12 && v < 0x0303 && c.has_sigalgs && !(c.ecdsa_hashes & s.hashes) && !c.new_style_sigalgs) return 0;   // (its ECDSA test also counts the 08xx code points)
			return ec_h != 0;
		case wt::KX_ECDH_RSA: if (!(s.key == K_ECRSA && (s.usages & BR_KEYTYPE_KEYX))) return 0; return (ccurves & (1u << 23)) ? 1 : -1;
		case wt::KX_ECDH_ECDSA: if (!(s.key == K_EC && (s.usages & BR_KEYTYPE_KEYX))) return 0; return (ccurves & (1u << 23)) ? 1 : -1;
		}
		return 0;
	};
	std::vector<uint16_t> order;
	if (s.flags & BR_OPT_ENFORCE_SERVER_PREFERENCES) { for (uint16_t x : s.suites) if (std::find(c.suites.begin(), c.suites.end(), x) != c.suites.end()) order.push_back(x); }
	else { for (uint16_t x : c.suites) if (std::find(s.suites.begin(), s.suites.end(), x) != s.suites.end() && std::find(order.begin(), order.end(), x) == order.end()) order.push_back(x); }
	const wt::SuiteInfo *chosen = nullptr;
	for (uint16_t x : order) { int u = usable(x); if (u < 0) { o.ambiguous = true; return o; } if (u) { chosen = wt::suite_by_id(x); break; } }
	if (!chosen) { o.alert = 40; if (alpn_fail) o.alt_alert = 120; return o; }
	o.suite = chosen->id;
	if (chosen->kx == wt::KX_ECDHE_RSA || chosen->kx == wt::KX_ECDHE_ECDSA) {
		unsigned h = chosen->kx == wt::KX_ECDHE_RSA ? rsa_h : ec_h;
		if (v >= 0x0303) { for (unsigned id : { 4u, 5u, 6u, 3u, 2u }) if (h & (1u << id)) { o.hash = id; break; } }
		if (common_curves & (1u << 29)) o.curve = 29;
		else { for (unsigned id : { 23u, 24u, 25u }) if (common_curves & (1u << id)) { o.curve = id; break; } if (!o.curve) for (unsigned id = 0; id < 32; id++) if (common_curves & (1u << id)) { o.curve = id; break; } }
	}
	// ALPN
	if (!c.alpn.empty() && !s.alpn.empty()) {
		for (auto &n : s.alpn) if (std::find(c.alpn.begin(), c.alpn.end(), n) != c.alpn.end()) { o.has_alpn = true; o.alpn = n; break; }
		if (!o.has_alpn && (s.flags & BR_OPT_FAIL_ON_ALPN_MISMATCH)) { Outcome a; a.alert = 120; return a; }
	}
	return o;
}

static const uint16_t UNKNOWN_SUITES[] = { 0x1301, 0x1302, 0x0A0A, 0xFAFA, 0x0005, 0xC011, 0x009E, 0x0000, 0xCCAA };
static const char *ALPN_NAMES[] = { "h2", "http/1.1", "h2c", "mqtt", "coap", "x", "http/1.0" };

static void draw_server(Tape &t, ServerView &s, Profile &sp)
{
	static const unsigned VR[6][2] = { { 0x0301, 0x0301 }, { 0x0301, 0x0302 }, { 0x0301, 0x0303 }, { 0x0302, 0x0302 }, { 0x0302, 0x0303 }, { 0x0303, 0x0303 } };
	unsigned vr = t.u8() % 8;
	if (vr >= 6) vr = 2;
	s.vmin = VR[vr][0]; s.vmax = VR[vr][1];
	s.key = (KeyKind)(t.u8() % 3);
	unsigned us = t.u8() % 4;
	s.usages = us == 0 ? (BR_KEYTYPE_KEYX | BR_KEYTYPE_SIGN) : us == 1 ? BR_KEYTYPE_KEYX : us == 2 ? BR_KEYTYPE_SIGN : (BR_KEYTYPE_KEYX | BR_KEYTYPE_SIGN);
	s.flags = 0;
	unsigned fb = t.u8();
	if (fb & 1) s.flags |= BR_OPT_ENFORCE_SERVER_PREFERENCES;
	if (fb & 2) s.flags |= BR_OPT_FAIL_ON_ALPN_MISMATCH;
	if (fb & 4) s.flags |= BR_OPT_NO_RENEGOTIATION;
	if (fb & 8) s.flags |= BR_OPT_TOLERATE_NO_CLIENT_AUTH;
	// ordered suite list: a permutation-ish draw from the 45
	unsigned ns = 1 + t.u8() % 12;
	if (t.u8() % 4 == 0) ns = 45;
	std::vector<uint16_t> all;
	for (size_t i = 0; i < wt::NSUITES; i++) all.push_back(wt::SUITES[i].id);
	s.suites.clear();
	for (unsigned i = 0; i < ns && !all.empty(); i++) { size_t k = t.u8() % all.size(); s.suites.push_back(all[k]); all.erase(all.begin() + k); }
	unsigned na = t.u8() % 4;
	s.alpn.clear();
	for (unsigned i = 0; i < na; i++) { std::string n = ALPN_NAMES[t.u8() % 7]; if (std::find(s.alpn.begin(), s.alpn.end(), n) == s.alpn.end()) s.alpn.push_back(n); }
	s.curves = (1u << 23) | (1u << 24) | (1u << 25) | (1u << 29);
	s.hashes = 0x7E;    // MD5..SHA-512
	sp.suites = s.suites; sp.vmin = s.vmin; sp.vmax = s.vmax; sp.key = s.key; sp.usages = s.usages; sp.flags = s.flags; sp.alpn = s.alpn;
}

// ---------------------------------------------------------------- mode S
static void mode_scripted(Tape &t)
{
	ServerView s;
	Profile sp;
	draw_server(t, s, sp);
	ClientView c;
	ClientHelloSpec ch;
	c.vmax = t.pick<unsigned>({ 0x0303, 0x0303, 0x0302, 0x0301, 0x0304, 0x0300 });
	ch.version = c.vmax;
	ch.random = t.filled(32);
	if (t.u8() % 4 == 0) ch.session_id = t.filled(t.u8() % 33);
	unsigned nc = 1 + t.u8() % 10;
	c.fallback_scsv = c.reneg_scsv = false;
	for (unsigned i = 0; i < nc; i++) {
		unsigned sel = t.u8();
		uint16_t id;
		if (sel % 8 == 0) id = UNKNOWN_SUITES[(sel >> 3) % 9];
		else if (sel % 8 == 1 && !s.suites.empty()) id = s.suites[(sel >> 3) % s.suites.size()];     // likely common
		else if (sel % 8 == 2 && !c.suites.empty()) id = c.suites[(sel >> 3) % c.suites.size()];     // duplicate
		else id = wt::SUITES[t.u8() % wt::NSUITES].id;
		c.suites.push_back(id);
	}
	if (t.u8() % 6 == 0) { c.suites.push_back(0x5600); c.fallback_scsv = true; }
	if (t.u8() % 4 == 0) { c.suites.insert(c.suites.begin() + t.u8() % (c.suites.size() + 1), 0x00FF); c.reneg_scsv = true; }
	ch.suites = c.suites;
	// duplicates in the client list: the server "does not filter" them and may reject such clients when its table overflows (documented in the code as
	// invalid input): only the first occurrence matters for the reference; lists longer than the server's table are not generated
	c.sni = t.u8() % 3 == 0 ? "" : t.pick<const char *>({ "localhost", "www.example.com", "a", "xn--bcher-kva.example" });
	if (!c.sni.empty()) ch.add_sni(c.sni);
	c.reneg_ext = t.u8() % 3 == 0;
	if (c.reneg_ext) ch.add_reneg();
	c.has_sigalgs = t.u8() % 3 != 0;
	c.rsa_hashes = c.ecdsa_hashes = 0;
	if (c.has_sigalgs) {
		std::vector<std::pair<unsigned, unsigned>> hs;
		unsigned n = 1 + t.u8() % 8;
		for (unsigned i = 0; i < n; i++) {
			unsigned h = t.pick<unsigned>({ 2, 3, 4, 5, 6, 4, 1, 8, 0 }), sg = t.pick<unsigned>({ 1, 3, 1, 3, 2, 7 });
			hs.push_back({ h, sg });
			if (h >= 2 && h <= 6) { if (sg == 1) c.rsa_hashes |= 1u << h; if (sg == 3) c.ecdsa_hashes |= 1u << h; }
			if (h == 8 && sg <= 15) c.new_style_sigalgs = true;
		}
		ch.add_sigalgs(hs);
	}
	c.has_curves = t.u8() % 3 != 0;
	if (c.has_curves) {
		unsigned n = 1 + t.u8() % 5;
		for (unsigned i = 0; i < n; i++) c.curves.push_back(t.pick<unsigned>({ 23, 24, 25, 29, 23, 30, 21, 256, 65281 }));
		ch.add_curves(c.curves);
		if (t.flag()) ch.add_point_formats();
	}
	unsigned na = t.u8() % 4;
	for (unsigned i = 0; i < na; i++) c.alpn.push_back(ALPN_NAMES[t.u8() % 7]);
	if (!c.alpn.empty()) ch.add_alpn(c.alpn);
	if (t.u8() % 4 == 0) ch.exts.push_back(Ext{ (uint16_t)t.pick<unsigned>({ 0x0017, 0x0023, 0x3374, 0x002B, 0x000F }), t.filled(t.u8() % 9) });
	BearServer srv(sp);
	VF_CHECK(srv.reset(), "server reset");
	Bytes out = drive_endpoint(&srv, ch.records(t.flag() ? 16384 : 40));
	ServerFlight f = parse_server_flight(out);
	Outcome r = reference(c, s);
	Outcome rk = reference(c, s, true);
	bool in_finding_domain = !r.ambiguous && (rk.ambiguous || r.alert != rk.alert || r.suite != rk.suite);
	std::string desc = fmt("scripted ClientHello v=%04x suites=[", c.vmax);
	for (uint16_t x : c.suites) desc += fmt("%04x ", x);
	desc += fmt("] sigalgs=%s curves=%s alpn=%zu | server %04x-%04x key=%d usages=%#x flags=%#x suites=[", c.has_sigalgs ? fmt("rsa:%#x/ec:%#x", c.rsa_hashes, c.ecdsa_hashes).c_str() : "absent",
		c.has_curves ? fmt("%zu", c.curves.size()).c_str() : "absent", c.alpn.size(), s.vmin, s.vmax, (int)s.key, s.usages, s.flags);
	for (uint16_t x : s.suites) desc += fmt("%04x ", x);
	desc += "]";
	VF_CHECK(f.parse_error.empty(), "%s: server output does not parse: %s", desc.c_str(), f.parse_error.c_str());
	if (r.ambiguous) { stats.excluded++; stats.cls("S:excluded-undocumented"); stats.eval(); return; }
	auto agrees = [&](const Outcome &x) {
		return x.alert >= 0 ? (!f.got_hello && f.alert_level == 2 && (f.alert_desc == x.alert || (x.alt_alert >= 0 && f.alert_desc == x.alt_alert))) : (f.got_hello && f.alert_desc < 0 && f.suite == x.suite && f.version == x.version);
	};
	if (in_finding_domain && !agrees(r) && rk.ambiguous && known("sigalgs-filter-below-tls12")) {
		// with the ECDHE suite filtered away (listed finding) the next candidate is one of the undocumented corners of the
		// reference (static ECDH with a client curve list that lacks the certificate's curve): not judged
		stats.known_finding("sigalgs-filter-below-tls12", "at TLS 1.0/1.1 the server removes ECDHE_RSA / ECDHE_ECDSA suites from the negotiation when the client's signature_algorithms extension has no hash in common for that signature type, "
			"although below TLS 1.2 the ServerKeyExchange hash is fixed (MD5+SHA-1 / SHA-1) and the extension is not meaningful: it picks a later (non-forward-secret) suite or fails with handshake_failure");
		stats.excluded++;
		stats.cls("S:known-sigalgs-filter+undocumented-corner");
		stats.eval();
		return;
	}
	if (in_finding_domain && !agrees(r) && known("sigalgs-filter-below-tls12")) {
		bool as_listed = agrees(rk);
		std::string what = fmt("at TLS 1.0/1.1 the server removes ECDHE suites when the client's signature_algorithms extension (meaningless below TLS 1.2: the hash is fixed to MD5+SHA-1 / SHA-1) "
			"shares no hash with it for the signature type: e.g. reference %s, server %s", r.alert >= 0 ? fmt("alert %d", r.alert).c_str() : fmt("suite %04x", r.suite).c_str(),
			rk.alert >= 0 ? fmt("alert %d", rk.alert).c_str() : fmt("suite %04x", rk.suite).c_str());
		VF_CHECK(as_listed, "%s: %s - but the server did neither (hello %d suite %04x alert %d)", desc.c_str(), what.c_str(), (int)f.got_hello, f.suite, f.alert_desc);
		stats.known_finding("sigalgs-filter-below-tls12", "at TLS 1.0/1.1 the server removes ECDHE_RSA / ECDHE_ECDSA suites from the negotiation when the client's signature_algorithms extension has no hash in common for that signature type, "
			"although below TLS 1.2 the ServerKeyExchange hash is fixed (MD5+SHA-1 / SHA-1) and the extension is not meaningful: it picks a later (non-forward-secret) suite or fails with handshake_failure");
		stats.cls("S:known-sigalgs-filter");
		stats.eval(fmt("S/%llx", (unsigned long long)fnv(desc)));
		return;
	}
	if (r.alert >= 0) {
		VF_CHECK(!f.got_hello && f.alert_level == 2 && (f.alert_desc == r.alert || (r.alt_alert >= 0 && f.alert_desc == r.alt_alert)), "%s: reference says fatal alert %d; server %s (alert %d/%d, error %d)", desc.c_str(), r.alert,
			f.got_hello ? fmt("sent ServerHello suite %04x", f.suite).c_str() : "sent no hello", f.alert_level, f.alert_desc, srv.error());
		stats.cls(fmt("S:alert-%d", r.alert));
	} else {
		VF_CHECK(f.got_hello && f.alert_desc < 0, "%s: reference says suite %04x at %04x; server sent %s (alert %d, error %d)", desc.c_str(), r.suite, r.version,
			f.got_hello ? "a hello and an alert" : "no hello", f.alert_desc, srv.error());
		VF_CHECK(f.version == r.version, "%s: server chose version %04x, reference %04x", desc.c_str(), f.version, r.version);
		VF_CHECK(f.suite == r.suite, "%s: server chose suite %04x, reference %04x", desc.c_str(), f.suite, r.suite);
		VF_CHECK(f.compression == 0 && f.session_id.size() == 32, "%s: compression %u / session id of %zu bytes", desc.c_str(), f.compression, f.session_id.size());
		if (r.curve) {
			VF_CHECK(f.has_ske && f.curve == r.curve, "%s: ServerKeyExchange curve %u, reference %u", desc.c_str(), f.curve, r.curve);
			if (r.version >= 0x0303) VF_CHECK(f.ske_hash == r.hash, "%s: ServerKeyExchange signed with hash %u, reference preference gives %u", desc.c_str(), f.ske_hash, r.hash);
			if (r.version >= 0x0303) VF_CHECK(f.ske_sig == (wt::suite_by_id(r.suite)->kx == wt::KX_ECDHE_RSA ? 1u : 3u), "%s: signature algorithm %u does not fit the suite", desc.c_str(), f.ske_sig);
		} else VF_CHECK(!f.has_ske, "%s: unexpected ServerKeyExchange", desc.c_str());
		VF_CHECK(f.has_alpn == r.has_alpn && (!r.has_alpn || f.alpn == r.alpn), "%s: ALPN answer '%s'%s, reference '%s'%s", desc.c_str(), f.alpn.c_str(), f.has_alpn ? "" : " (none)", r.alpn.c_str(), r.has_alpn ? "" : " (none)");
		VF_CHECK(f.has_reneg == r.secure_reneg, "%s: renegotiation_info %s, client %s secure renegotiation", desc.c_str(), f.has_reneg ? "present" : "absent", r.secure_reneg ? "announced" : "did not announce");
		VF_CHECK(f.has_cert && f.has_done, "%s: flight lacks Certificate / ServerHelloDone", desc.c_str());
		const char *sn = br_ssl_engine_get_server_name(srv.eng);
		VF_CHECK(std::string(sn ? sn : "") == c.sni, "%s: server saw SNI '%s', client sent '%s'", desc.c_str(), sn ? sn : "", c.sni.c_str());
		// unsolicited extensions are never sent
		for (auto &e : f.exts) VF_CHECK(e.type == 0x0010 || e.type == 0xFF01 || e.type == 0x0001, "%s: ServerHello carries extension %04x", desc.c_str(), e.type);
		stats.cls("S:negotiated");
	}
	// non-trivial: a refusal, or >= 2 common suites of which the first in preference order is not the chosen one
	unsigned common = 0;
	for (uint16_t x : s.suites) if (std::find(c.suites.begin(), c.suites.end(), x) != c.suites.end()) common++;
	bool nontriv = r.alert >= 0 || (common >= 2);
	stats.eval(nontriv ? fmt("S/%llx", (unsigned long long)fnv(desc)) : std::string());
	if (stats.want_sample()) stats.sample(desc + (r.alert >= 0 ? fmt(" => alert %d", r.alert) : fmt(" => %04x %04x curve %u hash %u alpn '%s'", r.version, r.suite, r.curve, r.hash, r.alpn.c_str())));
}

// ---------------------------------------------------------------- mode F
static void mode_full(Tape &t)
{
	ServerView s;
	Profile sp, cp;
	draw_server(t, s, sp);
	ClientView c;
	static const unsigned VR[6][2] = { { 0x0301, 0x0301 }, { 0x0301, 0x0302 }, { 0x0301, 0x0303 }, { 0x0302, 0x0302 }, { 0x0302, 0x0303 }, { 0x0303, 0x0303 } };
	unsigned vr = t.u8() % 8;
	if (vr >= 6) vr = 2;
	cp.vmin = VR[vr][0]; cp.vmax = c.vmax = VR[vr][1];
	unsigned nc = 1 + t.u8() % 12;
	std::vector<uint16_t> all;
	for (size_t i = 0; i < wt::NSUITES; i++) all.push_back(wt::SUITES[i].id);
	for (unsigned i = 0; i < nc && !all.empty(); i++) {
		size_t k = t.u8() % all.size();
		if (t.flag() && !s.suites.empty()) { uint16_t w = s.suites[t.u8() % s.suites.size()]; auto it = std::find(all.begin(), all.end(), w); if (it != all.end()) k = (size_t)(it - all.begin()); }
		c.suites.push_back(all[k]);
		all.erase(all.begin() + k);
	}
	cp.suites = c.suites;
	unsigned na = t.u8() % 4;
	for (unsigned i = 0; i < na; i++) { std::string n = ALPN_NAMES[t.u8() % 7]; if (std::find(c.alpn.begin(), c.alpn.end(), n) == c.alpn.end()) c.alpn.push_back(n); }
	cp.alpn = c.alpn;
	c.sni = t.u8() % 4 == 0 ? "" : "localhost";
	cp.sni = c.sni;
	if (cp.sni.empty()) cp.sni = "";    // (validation then has no name to check)
	// the server keeps a session cache and the client asks for resumption, so that a second connection on the same contexts
	// (below) negotiates over an abbreviated handshake
	static std::vector<uint8_t> cache_store;
	static br_ssl_session_cache_lru lru;
	cache_store.assign(4096, 0);
	br_ssl_session_cache_lru_init(&lru, cache_store.data(), cache_store.size());
	sp.cache = &lru;
	cp.resume = true;
	BearClient cl(cp);
	BearServer sv(sp);
	// client hash set: subset, keeping MD5+SHA-1 whenever a version below 1.2 is admissible (documented requirement)
	unsigned hm = t.u8();
	c.has_sigalgs = true;
	c.rsa_hashes = c.ecdsa_hashes = 0;
	// (SHA-1, SHA-256 and SHA-384 stay: the listed suites need them for their MAC / PRF, and a client listing suites it cannot
	// compute is a configuration error the documentation excludes)
	for (int id : { br_sha224_ID, br_sha512_ID }) if (hm & (1u << id)) br_ssl_engine_set_hash(cl.eng, id, nullptr);
	if (cp.vmin >= 0x0303 && (hm & 1)) { br_ssl_engine_set_hash(cl.eng, br_md5_ID, nullptr); }
	// the X.509 engine keeps all hashes: the chain must validate
	for (int id = br_sha1_ID; id <= br_sha512_ID; id++) if (br_ssl_engine_get_hash(cl.eng, id)) { c.rsa_hashes |= 1u << id; c.ecdsa_hashes |= 1u << id; }
	// client curves: everything, P-256 only, or X25519 + P-256
	unsigned cs = t.u8() % 4;
	if (cs == 1) { br_ssl_engine_set_ec(cl.eng, &br_ec_p256_m15); c.curves = { 23 }; }
	else if (cs == 2) { br_ssl_engine_set_ec(cl.eng, &br_ec_prime_i31); c.curves = { 23, 24, 25 }; }
	else c.curves = { 29, 23, 24, 25 };
	c.has_curves = true;
	c.fallback_scsv = false; c.reneg_scsv = false; c.reneg_ext = true;   // BearSSL clients announce secure renegotiation
	Outcome r = reference(c, s);
	std::string desc = fmt("client %04x-%04x suites=[", cp.vmin, cp.vmax);
	for (uint16_t x : c.suites) desc += fmt("%04x ", x);
	desc += fmt("] hashes=%#x curves=%u alpn=%zu | server %04x-%04x key=%d usages=%#x flags=%#x suites=[", c.rsa_hashes, cs, c.alpn.size(), s.vmin, s.vmax, (int)s.key, s.usages, s.flags);
	for (uint16_t x : s.suites) desc += fmt("%04x ", x);
	desc += "]";
	if (r.ambiguous) { stats.excluded++; stats.eval(); return; }
	bool cr = cl.reset(), sr = sv.reset();
	VF_CHECK(cr && sr, "%s: reset failed (%d/%d)", desc.c_str(), cl.error(), sv.error());
	Session S(&cl, &sv);
	S.script[0].push_back(Item{ IT_WRITE, 10, true });
	S.script[1].push_back(Item{ IT_WRITE, 10, true });
	S.run(400000);
	if (r.alert >= 0) {
		VF_CHECK(!S.established && (sv.error() == r.alert + BR_ERR_SEND_FATAL_ALERT || (r.alt_alert >= 0 && sv.error() == r.alt_alert + BR_ERR_SEND_FATAL_ALERT)),
			"%s: reference says server alert %d; server error %d, established %d", desc.c_str(), r.alert, sv.error(), S.established);
		if (sv.error() != r.alert + BR_ERR_SEND_FATAL_ALERT) r.alert = r.alt_alert;
		// the alert must reach the client as an alert (also protocol_version: it travels in a record no client can refuse for its version)
		VF_CHECK(cl.error() == r.alert + BR_ERR_RECV_FATAL_ALERT, "%s: server sent alert %d (error %d), client ended with error %d instead of %d", desc.c_str(), r.alert, sv.error(), cl.error(), r.alert + BR_ERR_RECV_FATAL_ALERT);
		stats.cls(fmt("F:alert-%d", r.alert));
	} else if (r.version < cp.vmin) {
		VF_CHECK(!S.established && cl.error() == BR_ERR_UNSUPPORTED_VERSION, "%s: server version %04x is below the client's minimum: client error %d", desc.c_str(), r.version, cl.error());
		stats.cls("F:client-refuses-version");
	} else {
		VF_CHECK(S.established && cl.error() == 0 && sv.error() == 0, "%s: reference says %04x/%04x; handshake failed (client %d, server %d)", desc.c_str(), r.version, r.suite, cl.error(), sv.error());
		br_ssl_session_parameters a, b;
		br_ssl_engine_get_session_parameters(cl.eng, &a);
		br_ssl_engine_get_session_parameters(sv.eng, &b);
		VF_CHECK(a.version == r.version && b.version == r.version, "%s: versions %04x/%04x, reference %04x", desc.c_str(), a.version, b.version, r.version);
		VF_CHECK(a.cipher_suite == r.suite && b.cipher_suite == r.suite, "%s: suites %04x/%04x, reference %04x", desc.c_str(), a.cipher_suite, b.cipher_suite, r.suite);
		if (r.curve) VF_CHECK(br_ssl_engine_get_ecdhe_curve(cl.eng) == (int)r.curve && br_ssl_engine_get_ecdhe_curve(sv.eng) == (int)r.curve, "%s: ECDHE curve %d/%d, reference %u", desc.c_str(),
			br_ssl_engine_get_ecdhe_curve(cl.eng), br_ssl_engine_get_ecdhe_curve(sv.eng), r.curve);
		const char *pa = br_ssl_engine_get_selected_protocol(cl.eng), *pb = br_ssl_engine_get_selected_protocol(sv.eng);
		VF_CHECK(std::string(pa ? pa : "") == (r.has_alpn ? r.alpn : "") && std::string(pb ? pb : "") == (r.has_alpn ? r.alpn : ""), "%s: selected protocol '%s'/'%s', reference '%s'", desc.c_str(), pa ? pa : "(none)", pb ? pb : "(none)", r.alpn.c_str());
		VF_CHECK(cl.eng->reneg == sv.eng->reneg && cl.eng->reneg == 2, "%s: secure renegotiation status %u/%u", desc.c_str(), cl.eng->reneg, sv.eng->reneg);
		const char *sn = br_ssl_engine_get_server_name(sv.eng);
		VF_CHECK(std::string(sn ? sn : "") == c.sni, "%s: server saw SNI '%s', client sent '%s'", desc.c_str(), sn ? sn : "", c.sni.c_str());
		stats.cls("F:negotiated");
		// second connection, same contexts, resumption offered, client ALPN list changed: the protocol name must be
		// negotiated afresh (it is not part of the session), whatever kind of handshake takes place
		if (t.u8() % 2 == 0) {
			ClientView c2 = c;
			c2.alpn.clear();
			unsigned nb = t.u8() % 4;
			for (unsigned i = 0; i < nb; i++) { std::string n = ALPN_NAMES[t.u8() % 7]; if (std::find(c2.alpn.begin(), c2.alpn.end(), n) == c2.alpn.end()) c2.alpn.push_back(n); }
			std::vector<const char *> ptrs;
			for (auto &n : c2.alpn) ptrs.push_back(n.c_str());
			br_ssl_engine_set_protocol_names(cl.eng, ptrs.empty() ? nullptr : ptrs.data(), ptrs.size());
			// orderly end of the first connection, then reset both
			cl.close();
			for (int i = 0; i < 2000; i++) if (!S.round()) break;
			VF_CHECK(cl.reset() && sv.reset(), "%s: second reset failed", desc.c_str());
			Session S2(&cl, &sv);
			S2.script[0].push_back(Item{ IT_WRITE, 10, true });
			S2.script[1].push_back(Item{ IT_WRITE, 10, true });
			S2.run(400000);
			Outcome r2 = reference(c2, s);
			std::string d2 = desc + fmt(" | second connection (resumption offered) with client ALPN list of %zu name(s)", c2.alpn.size());
			bool resumed = false;
			{
				br_ssl_session_parameters a2;
				br_ssl_engine_get_session_parameters(cl.eng, &a2);
				resumed = S2.established && a2.session_id_len == a.session_id_len && memcmp(a2.session_id, a.session_id, a.session_id_len) == 0;
			}
			if (r2.alert == 120) {
				// documented: fatal alert no_application_protocol.  On a resumed session the flag is not applied (listed finding)
				if (S2.established && resumed && known("alpn-mismatch-flag-ignored-on-resumption")) stats.known_finding("alpn-mismatch-flag-ignored-on-resumption", "BR_OPT_FAIL_ON_ALPN_MISMATCH is not applied when the session is resumed");
				else VF_CHECK(!S2.established && sv.error() == 120 + BR_ERR_SEND_FATAL_ALERT, "%s: no common protocol name and BR_OPT_FAIL_ON_ALPN_MISMATCH set: server error %d, established %d (resumed %d)", d2.c_str(), sv.error(), (int)S2.established, (int)resumed);
				stats.cls("F2:alpn-alert");
			} else if (r2.alert < 0) {
				VF_CHECK(S2.established && cl.error() == 0 && sv.error() == 0, "%s: failed (client %d, server %d)", d2.c_str(), cl.error(), sv.error());
				const char *qa = br_ssl_engine_get_selected_protocol(cl.eng), *qb = br_ssl_engine_get_selected_protocol(sv.eng);
				VF_CHECK(std::string(qa ? qa : "") == (r2.has_alpn ? r2.alpn : "") && std::string(qb ? qb : "") == (r2.has_alpn ? r2.alpn : ""), "%s: selected protocol '%s'/'%s', reference '%s' (resumed %d)", d2.c_str(),
					qa ? qa : "(none)", qb ? qb : "(none)", r2.alpn.c_str(), (int)resumed);
				stats.cls(resumed ? "F2:resumed" : "F2:full");
				VF_CHECK(br_ssl_engine_get_ecdhe_curve(cl.eng) == br_ssl_engine_get_ecdhe_curve(sv.eng), "%s: the two sides report different ECDHE curves (%d / %d)", d2.c_str(), br_ssl_engine_get_ecdhe_curve(cl.eng), br_ssl_engine_get_ecdhe_curve(sv.eng));
				// third connection: ANOTHER client context that was handed the session parameters (the documented way to
				// carry a session over) resumes with the same server context: both sides still report the same values
				br_ssl_session_parameters a3;
				br_ssl_engine_get_session_parameters(cl.eng, &a3);
				BearClient cl3(cp);
				br_ssl_engine_set_session_parameters(cl3.eng, &a3);
				cl3.prof.resume = true;
				cl.close();
				for (int i = 0; i < 2000; i++) if (!S2.round()) break;
				VF_CHECK(cl3.reset() && sv.reset(), "%s: third reset failed", desc.c_str());
				Session S3(&cl3, &sv);
				S3.script[0].push_back(Item{ IT_WRITE, 10, true });
				S3.script[1].push_back(Item{ IT_WRITE, 10, true });
				S3.run(400000);
				VF_CHECK(S3.established && cl3.error() == 0 && sv.error() == 0, "%s: third connection (session carried to another client context) failed (%d/%d)", d2.c_str(), cl3.error(), sv.error());
				br_ssl_session_parameters b3;
				br_ssl_engine_get_session_parameters(sv.eng, &b3);
				br_ssl_engine_get_session_parameters(cl3.eng, &a3);
				VF_CHECK(a3.version == b3.version && a3.cipher_suite == b3.cipher_suite && br_ssl_engine_get_version(cl3.eng) == br_ssl_engine_get_version(sv.eng), "%s: third connection: version/suite differ", d2.c_str());
				VF_CHECK(br_ssl_engine_get_ecdhe_curve(cl3.eng) == br_ssl_engine_get_ecdhe_curve(sv.eng), "%s: third connection (%s): the client reports ECDHE curve %d, the server %d - a value left over from an earlier connection of that context", d2.c_str(),
					memcmp(a3.master_secret, b3.master_secret, 48) == 0 && a3.session_id_len == a.session_id_len && memcmp(a3.session_id, a.session_id, a.session_id_len) == 0 ? "resumed" : "full", br_ssl_engine_get_ecdhe_curve(cl3.eng), br_ssl_engine_get_ecdhe_curve(sv.eng));
				stats.cls("F3:carried-session");
			}
		}
	}
	unsigned common = 0;
	for (uint16_t x : s.suites) if (std::find(c.suites.begin(), c.suites.end(), x) != c.suites.end()) common++;
	stats.eval((r.alert >= 0 || common >= 2) ? fmt("F/%llx", (unsigned long long)fnv(desc)) : std::string());
	if (stats.want_sample()) stats.sample(desc + (r.alert >= 0 ? fmt(" => alert %d", r.alert) : fmt(" => %04x %04x curve %u alpn '%s'", r.version, r.suite, r.curve, r.alpn.c_str())));
}

void target_run(Tape &t)
{
	if (t.u8() % 4 == 0) mode_full(t); else mode_scripted(t);
}

// Enumerator: every singleton and every ordered pair of the 45 suites x 3
// client versions x 3 server keys (scripted mode, server supports all 45),
// with and without server preference order.
void target_enum(int shard, int nshards)
{
	uint64_t n = 0;
	bool thorough = tier_thorough();
	for (unsigned v = 0; v < 3; v++)
	for (unsigned key = 0; key < 3; key++)
	for (unsigned a = 0; a < wt::NSUITES; a++)
	for (unsigned b = 0; b <= wt::NSUITES; b++) {
		if (b == a) continue;
		if (!thorough && b != wt::NSUITES && ((a * 45 + b) % 5) != (v + key) % 5) continue;   // quick: a fifth of the pairs per (version, key)
		if ((n++ % (uint64_t)nshards) != (uint64_t)shard) continue;
		// tape for mode_scripted: kind(1) | server: vr, key, usages, flags, ns(ignored: next u8%4==0 -> 45), [45 picks of 0 -> in table order] ...
		std::vector<uint8_t> tp = { 1, 2, (uint8_t)key, 0, (uint8_t)((a + b) & 1), 0, 0 };
		for (int i = 0; i < 45; i++) tp.push_back(0);         // server list = the table order
		tp.push_back(0);                                      // no ALPN
		tp.push_back((uint8_t)(v == 0 ? 0 : v == 1 ? 2 : 3)); // client version pick: 0303 / 0302 / 0301
		tp.insert(tp.end(), { 7, 7, 7, 7 });                  // random seed
		tp.push_back(1);                                      // no session id
		tp.push_back((uint8_t)(b == wt::NSUITES ? 0 : 1));    // number of suites - 1
		tp.push_back(3); tp.push_back((uint8_t)a);            // suite a
		if (b != wt::NSUITES) { tp.push_back(3); tp.push_back((uint8_t)b); }
		tp.insert(tp.end(), { 1, 1, 1, 1, 0 });               // no SCSVs, SNI sel.., (defaults follow: zeros)
		enum_tape(tp);
	}
}
