// C17 — the server session cache behaves as an LRU map whose capacity is
// the number of whole 100-byte entries that fit; resumption reuses the right
// secrets.
//
// Part A (stateful, model-based): histories of save(fresh id) / load(id) /
// forget(id) on a cache of generated storage size and base alignment, with
// the index key derived from generated entropy (so tree shapes vary).  Model:
// MRU-ordered list of (id, version, suite, master secret, disabled); save of
// a fresh id evicts the list tail when full (a disabled entry keeps its slot
// until it ages out); load hits iff present and enabled, returns the saved
// triple and refreshes recency.  After EVERY command the result is compared
// with the model and a non-destructive full scan (on a copy of the cache)
// of every id of the universe must equal the model's content; canaries
// guard the storage.  The enumerator runs ALL histories up to a depth over 5
// ids for capacities 0..4.
//
// Part B: histories of connections between client contexts and one server
// with a cache: resume, resume with changed suites / versions on either
// side, after forget, after eviction, with truncated or forged ids, against
// a second server.  Oracle: abbreviated (no Certificate on the wire) only if
// the model cache holds the id and the remembered suite and version are
// acceptable to both; then same master secret, fresh randoms, traffic
// decrypts under keys derived from the NEW randoms; otherwise full handshake
// with a different master secret; data flows either way.
#include "common/tls_session.hpp"
#include "common/tls_hello.hpp"
#include <deque>
#include <algorithm>

using namespace vf;
using namespace tls;

const char *target_name = "c17_cache";
const int target_tape_min = 0, target_tape_max = 160;

struct MEntry { Bytes id; uint16_t version, suite; Bytes ms; bool disabled; };

struct Model {
	size_t cap = 0;
	std::deque<MEntry> mru;    // front = most recent
	int find(const Bytes &id) const { for (size_t i = 0; i < mru.size(); i++) if (mru[i].id == id) return (int)i; return -1; }
	void save(const MEntry &e)
	{
		if (cap == 0) return;
		if (find(e.id) >= 0) return;            // (never generated: ids are fresh)
		if (mru.size() >= cap) mru.pop_back();
		mru.push_front(e);
	}
	bool load(const Bytes &id, MEntry &out)
	{
		int i = find(id);
		if (i < 0 || mru[i].disabled) return false;
		MEntry e = mru[i];
		mru.erase(mru.begin() + i);
		mru.push_front(e);
		out = e;
		return true;
	}
	void forget(const Bytes &id) { int i = find(id); if (i >= 0) mru[i].disabled = true; }
};

struct CacheRig {
	std::unique_ptr<BearServer> srv;
	br_ssl_session_cache_lru lru;
	Bytes arena;
	size_t base = 0, len = 0;
	Model model;
	std::vector<MEntry> universe;       // everything ever saved (+ probes never saved)
	std::string desc;

	void init(size_t store_len, size_t misalign, const Bytes &entropy)
	{
		Profile sp;
		sp.entropy = entropy;
		srv.reset(new BearServer(sp));
		VF_CHECK(srv->reset(), "server reset");
		len = store_len;
		base = 64 + misalign;
		arena.assign(base + len + 64, 0xC5);
		br_ssl_session_cache_lru_init(&lru, arena.data() + base, len);
		model.cap = len / 100;
		desc = fmt("store %zu bytes (capacity %zu) at alignment +%zu", len, model.cap, misalign);
	}
	void canaries(const char *after)
	{
		for (size_t i = 0; i < base; i++) VF_CHECK(arena[i] == 0xC5, "%s: after %s byte %zu before the store was written", desc.c_str(), after, i);
		for (size_t i = base + len; i < arena.size(); i++) VF_CHECK(arena[i] == 0xC5, "%s: after %s byte %zu past the end of the store was written", desc.c_str(), after, i - base - len);
	}
	static void fill(br_ssl_session_parameters &p, const MEntry &e)
	{
		memset(&p, 0, sizeof p);
		memcpy(p.session_id, e.id.data(), 32);
		p.session_id_len = 32;
		p.version = e.version;
		p.cipher_suite = e.suite;
		memcpy(p.master_secret, e.ms.data(), 48);
	}
	void save(const MEntry &e)
	{
		br_ssl_session_parameters p;
		fill(p, e);
		lru.vtable->save(&lru.vtable, srv->ss.get(), &p);
		model.save(e);
		universe.push_back(e);
	}
	bool load_from(br_ssl_session_cache_lru *cc, const Bytes &id, MEntry &out)
	{
		br_ssl_session_parameters p;
		memset(&p, 0xEE, sizeof p);
		memcpy(p.session_id, id.data(), 32);
		p.session_id_len = 32;
		int r = cc->vtable->load(&cc->vtable, srv->ss.get(), &p);
		VF_CHECK(r == 0 || r == 1, "%s: load returned %d", desc.c_str(), r);
		if (!r) return false;
		out.id = id; out.version = p.version; out.suite = p.cipher_suite; out.ms.assign(p.master_secret, p.master_secret + 48);
		return true;
	}
	void check_load(const Bytes &id, const std::string &hist)
	{
		MEntry got, want;
		bool g = load_from(&lru, id, got), w = model.load(id, want);
		VF_CHECK(g == w, "%s [%s]: load(%s..) %s, LRU model says %s", desc.c_str(), hist.c_str(), hex(id.data(), 4).c_str(), g ? "HIT" : "miss", w ? "hit" : "MISS");
		if (g) VF_CHECK(got.version == want.version && got.suite == want.suite && got.ms == want.ms,
			"%s [%s]: load(%s..) returned version %04x suite %04x secret %s.., saved under that id: %04x %04x %s..", desc.c_str(), hist.c_str(), hex(id.data(), 4).c_str(),
			got.version, got.suite, hex(got.ms.data(), 6).c_str(), want.version, want.suite, hex(want.ms.data(), 6).c_str());
	}
	// non-destructive full scan: copy cache + store, load every known id from the copy
	void scan(const std::string &hist)
	{
		Bytes copy = arena;
		br_ssl_session_cache_lru cc = lru;
		cc.store = copy.data() + base;
		for (auto &u : universe) {
			MEntry got;
			bool g = load_from(&cc, u.id, got);
			int mi = model.find(u.id);
			bool w = mi >= 0 && !model.mru[mi].disabled;
			VF_CHECK(g == w, "%s [%s]: full scan: id %s.. is %s in the cache, the LRU model says %s", desc.c_str(), hist.c_str(), hex(u.id.data(), 4).c_str(),
				g ? "present" : "absent", w ? "present" : (mi >= 0 ? "disabled" : "evicted/never saved"));
			if (g) VF_CHECK(got.version == model.mru[mi].version && got.suite == model.mru[mi].suite && got.ms == model.mru[mi].ms,
				"%s [%s]: full scan: id %s.. carries another session's parameters", desc.c_str(), hist.c_str(), hex(u.id.data(), 4).c_str());
		}
	}
};

static MEntry make_entry(unsigned n, unsigned salt)
{
	MEntry e;
	e.id.resize(32);
	e.ms.resize(48);
	for (int i = 0; i < 32; i++) e.id[i] = (uint8_t)stream_byte(0x1D00 + salt, n * 32 + i);
	for (int i = 0; i < 48; i++) e.ms[i] = (uint8_t)stream_byte(0x5EC0 + salt, n * 48 + i);
	e.version = (uint16_t)(0x0301 + n % 3);
	e.suite = (uint16_t)(0xC000 + n);
	e.disabled = false;
	return e;
}

static void part_a(Tape &t)
{
	CacheRig R;
	unsigned ssel = t.u8();
	size_t k = t.u8() % 65;
	size_t store = ssel % 5 == 0 ? t.u8() % 100 : ssel % 5 == 1 ? k * 100 : ssel % 5 == 2 ? k * 100 + 1 : ssel % 5 == 3 ? (k ? k * 100 - 1 : 99) : (size_t)t.range(0, 900);
	Bytes ent = t.filled(16);
	ent.push_back(1);
	R.init(store, t.u8() % 8, ent);
	unsigned salt = t.u8();
	std::string hist;
	unsigned nsaved = 0, evictions_after_refresh = 0, forgets = 0, loads = 0;
	bool refreshed_or_forgot = false;
	while (!t.exhausted()) {
		unsigned cb = t.u8(), ab = t.u8();
		unsigned cmd = cb % 8;
		if (cmd < 3) {
			MEntry e = make_entry(nsaved++, salt);
			if (R.model.mru.size() >= R.model.cap && R.model.cap > 0 && refreshed_or_forgot) evictions_after_refresh++;
			hist += fmt("save#%u ", nsaved - 1);
			R.save(e);
		} else if (cmd < 6) {
			// id class: saved (incl. evicted / forgotten), one bit different, never saved
			Bytes id;
			unsigned cls = ab % 8;
			if (nsaved && cls < 6) { id = make_entry(ab / 8 % nsaved, salt).id; hist += fmt("load#%u ", ab / 8 % nsaved); }
			else if (nsaved && cls == 6) { id = make_entry(ab / 8 % nsaved, salt).id; id[(ab >> 3) % 32] ^= 0x01; hist += "load(bitflip) "; }
			else { id = make_entry(1000 + ab, salt).id; hist += "load(unknown) "; }
			R.check_load(id, hist);
			refreshed_or_forgot = true;
			loads++;
		} else {
			if (!nsaved) continue;
			unsigned i = ab % nsaved;
			Bytes id = make_entry(i, salt).id;
			br_ssl_session_cache_lru_forget(&R.lru, id.data());
			R.model.forget(id);
			hist += fmt("forget#%u ", i);
			forgets++;
			refreshed_or_forgot = true;
		}
		R.canaries(hist.c_str());
		R.scan(hist);
		stats.evals++;
	}
	stats.cls(fmt("cache:capacity-class:%s", R.model.cap == 0 ? "0" : R.model.cap <= 4 ? "1-4" : R.model.cap <= 16 ? "5-16" : "17+"));
	stats.cls("cache:evictions-after-refresh-or-forget", evictions_after_refresh);
	stats.eval(evictions_after_refresh ? fmt("A/%zu/%llx", store, (unsigned long long)fnv(hist)) : std::string());
	if (stats.want_sample()) stats.sample(R.desc + " | " + hist.substr(0, 300));
}

// ---------------------------------------------------------------- part B
struct ConnResult {
	bool ok = false, abbreviated = false;
	Bytes ms, sid, cr, sr;
	Bytes offered_sid;          // the session_id field of the ClientHello as seen on the wire
	uint16_t version = 0, suite = 0;
	int cerr = 0, serr = 0;
};

static ConnResult connect(BearClient &c, BearServer &s, const std::string &ctx)
{
	ConnResult r;
	Session S(&c, &s);
	S.script[0].push_back(Item{ IT_WRITE, 40, true });
	S.script[1].push_back(Item{ IT_WRITE, 50, true });
	S.script[0].push_back(Item{ IT_WAIT_PEER_IDLE, 0, true });
	S.script[0].push_back(Item{ IT_CLOSE, 0, true });
	br_ssl_session_parameters cpp, spp;
	S.on_established = [&]() {
		br_ssl_engine_get_session_parameters(c.eng, &cpp);
		br_ssl_engine_get_session_parameters(s.eng, &spp);
		VF_CHECK(cpp.version == spp.version && cpp.cipher_suite == spp.cipher_suite && memcmp(cpp.master_secret, spp.master_secret, 48) == 0
			&& cpp.session_id_len == spp.session_id_len && memcmp(cpp.session_id, spp.session_id, 32) == 0,
			"%s: the two sides disagree on the session (version %04x/%04x suite %04x/%04x, master secrets %s)", ctx.c_str(), cpp.version, spp.version, cpp.cipher_suite, spp.cipher_suite,
			memcmp(cpp.master_secret, spp.master_secret, 48) ? "differ" : "equal");
	};
	S.run(600000);
	r.cerr = c.error(); r.serr = s.error();
	{
		Bytes ch;
		for (auto &rec : S.tap.recs[0]) if (rec.epoch == 0 && rec.type == 22) ch.insert(ch.end(), rec.payload.begin(), rec.payload.end());
		if (ch.size() > 39 && ch[0] == 1 && ch.size() >= 39 + (size_t)ch[38]) r.offered_sid.assign(ch.begin() + 39, ch.begin() + 39 + ch[38]);
	}
	r.ok = S.established && r.cerr == 0 && r.serr == 0 && S.recvd[0] == 40 && S.recvd[1] == 50;
	if (!S.established) return r;
	r.ms.assign(cpp.master_secret, cpp.master_secret + 48);
	r.sid.assign(cpp.session_id, cpp.session_id + cpp.session_id_len);
	r.version = cpp.version; r.suite = cpp.cipher_suite;
	r.cr.assign(c.eng->client_random, c.eng->client_random + 32);
	r.sr.assign(s.eng->server_random, s.eng->server_random + 32);
	// abbreviated <=> the server sent no Certificate message
	bool cert = false;
	Bytes hs;
	for (auto &rec : S.tap.recs[1]) if (rec.epoch == 0 && rec.type == 22) hs.insert(hs.end(), rec.payload.begin(), rec.payload.end());
	for (size_t o = 0; o + 4 <= hs.size(); ) {
		size_t ml = ((size_t)hs[o + 1] << 16) | ((size_t)hs[o + 2] << 8) | hs[o + 3];
		if (hs[o] == 11) cert = true;
		o += 4 + ml;
	}
	r.abbreviated = !cert;
	if (r.ok) {
		// traffic decrypts under keys derived from the session's master secret and THIS connection's randoms
		for (int d = 0; d < 2; d++) VF_CHECK(S.tap.advance(d, true) && S.tap.decode_error.empty(), "%s: %s", ctx.c_str(), S.tap.decode_error.c_str());
	}
	return r;
}

static const uint16_t RSA_SUITES[] = { 0x002F, 0x0035, 0x009C, 0xC02F, 0xC013, 0xCCA8, 0x003C };

static void part_b(Tape &t)
{
	// one server with a cache, two client contexts
	size_t cap = 1 + t.u8() % 3;
	Bytes store(cap * 100 + t.u8() % 100);
	br_ssl_session_cache_lru lru;
	br_ssl_session_cache_lru_init(&lru, store.data(), store.size());
	Profile sp;
	sp.cache = &lru;
	sp.entropy = t.filled(16); sp.entropy.push_back(9);
	BearServer s(sp);
	Profile sp2 = sp;
	sp2.entropy.push_back(0x77);    // another server: other seed (equal seeds would give equal session IDs, see C20)
	br_ssl_session_cache_lru lru2;
	Bytes store2(300);
	br_ssl_session_cache_lru_init(&lru2, store2.data(), store2.size());
	sp2.cache = &lru2;
	BearServer s2(sp2);
	Profile cp;
	std::unique_ptr<BearClient> cl[2];
	for (int i = 0; i < 2; i++) { cp.entropy = t.filled(16); cp.entropy.push_back((uint8_t)(i + 1)); cl[i].reset(new BearClient(cp)); }
	Model model;
	model.cap = cap;
	struct Saved { bool have = false; ConnResult r; } saved[2];
	std::string hist;
	unsigned resumptions_tried = 0, abbreviated_n = 0;
	unsigned nops = 2 + t.u8() % 7;
	for (unsigned op = 0; op < nops; op++) {
		unsigned ob = t.u8(), ab = t.u8();
		int ci = ob & 1;
		BearClient &c = *cl[ci];
		BearServer *srv = &s;
		Model *mdl = &model;
		// current configuration of both sides
		std::vector<uint16_t> csu, ssu;
		unsigned cvmin = 0x0301, cvmax = 0x0303, svmin = 0x0301, svmax = 0x0303;
		unsigned kind = (ob >> 1) % 11;
		if (kind == 10 && saved[ci].have) {
			// A client that is not this library (scripted ClientHello) offers the remembered session id of client ci with a
			// lower maximum version, without the session's suite, or with everything still fitting.  The server looks the id
			// up (the model does too) and may abbreviate only in the last case; the handshake is not completed.
			const ConnResult &sv = saved[ci].r;
			unsigned variant = ab % 3;
			if (variant == 0 && sv.version == 0x0301) variant = 1;
			ClientHelloSpec ch;
			ch.version = variant == 0 ? sv.version - 1 : 0x0303;
			ch.random = Bytes(32, (uint8_t)(0x40 + op));
			ch.session_id = sv.sid;
			for (uint16_t x : RSA_SUITES) if (!(variant == 1 && x == sv.suite)) ch.suites.push_back(x);
			ch.add_reneg();
			std::vector<uint16_t> all(RSA_SUITES, RSA_SUITES + 7);
			br_ssl_engine_set_suites(s.eng, all.data(), all.size());
			br_ssl_engine_set_versions(s.eng, 0x0301, 0x0303);
			VF_CHECK(s.reset(), "reset");
			Bytes out = drive_endpoint(&s, ch.records());
			ServerFlight f = parse_server_flight(out);
			MEntry me;
			bool have = sv.sid.size() == 32 && model.load(sv.sid, me);
			static const char *VN[] = { "with a maximum version below the session's", "without the session's cipher suite", "with everything still acceptable" };
			std::string ctx = fmt("[%s] op %u: foreign client offers the session of client %d (%04x/%04x) %s", hist.c_str(), op, ci, sv.version, sv.suite, VN[variant]);
			VF_CHECK(f.parse_error.empty() && f.got_hello && f.alert_desc < 0, "%s: no ServerHello (alert %d, error %d, %s)", ctx.c_str(), f.alert_desc, s.error(), f.parse_error.c_str());
			bool abbreviated = !f.has_cert;
			if (variant == 2 && have) {
				VF_CHECK(abbreviated && f.session_id == sv.sid && f.version == sv.version && f.suite == sv.suite, "%s: the cache holds it, but the server answered with a %s handshake (version %04x suite %04x)", ctx.c_str(),
					abbreviated ? "differently parameterised abbreviated" : "full", f.version, f.suite);
				abbreviated_n++;
			} else {
				VF_CHECK(!abbreviated && f.session_id != sv.sid, "%s: the server RESUMES (ServerHello version %04x suite %04x, no Certificate) although %s", ctx.c_str(), f.version, f.suite,
					!have ? "its cache does not hold the id" : variant == 0 ? "the session's version is above what this client allows" : "this client does not propose the session's suite");
				VF_CHECK(f.version == ch.version, "%s: full handshake at version %04x, the highest common one is %04x", ctx.c_str(), f.version, ch.version);
				VF_CHECK(std::find(ch.suites.begin(), ch.suites.end(), (uint16_t)f.suite) != ch.suites.end(), "%s: suite %04x was not offered", ctx.c_str(), f.suite);
			}
			resumptions_tried++;
			hist += fmt("foreign offer (%s)=>%s; ", VN[variant], abbreviated ? "abbreviated" : "full");
			stats.evals++;
			continue;
		}
		if (kind == 10) kind = 0;
		bool resume = kind != 0 && saved[ci].have;
		std::string what = resume ? "resume" : "new";
		Model empty_model;
		if (resume) {
			switch (kind) {
			case 1: case 2: break;                                                  // plain resumption
			case 3: for (uint16_t x : RSA_SUITES) if (x != saved[ci].r.suite) csu.push_back(x); what = "resume, client dropped the suite"; break;
			case 4: for (uint16_t x : RSA_SUITES) if (x != saved[ci].r.suite) ssu.push_back(x); what = "resume, server dropped the suite"; break;
			case 5:
				if ((ab & 0x40) && saved[ci].r.version < 0x0303) { cvmin = saved[ci].r.version + 1; what = "resume, client min version raised"; }
				else if (saved[ci].r.version > 0x0301) { cvmax = saved[ci].r.version - 1; what = "resume, client max version lowered"; }
				break;
			case 6:
				if ((ab & 0x40) && saved[ci].r.version < 0x0303) { svmin = saved[ci].r.version + 1; what = "resume, server min version raised"; }
				else if (saved[ci].r.version > 0x0301) { svmax = saved[ci].r.version - 1; what = "resume, server max version lowered"; }
				break;
			case 7: br_ssl_session_cache_lru_forget(&lru, saved[ci].r.sid.data()); model.forget(saved[ci].r.sid); what = "resume after forget"; break;
			case 8: srv = &s2; empty_model.cap = 3; mdl = &empty_model; what = "resume against another server (empty cache)"; break;
			case 9: what = "resume with altered id"; break;
			}
		}
		if (csu.empty()) { unsigned k = ab % 7; csu.push_back(RSA_SUITES[k]); for (uint16_t x : RSA_SUITES) if (x != RSA_SUITES[k]) csu.push_back(x); }
		if (ssu.empty()) ssu.assign(RSA_SUITES, RSA_SUITES + 7);
		if (!resume) { unsigned vm = 0x0301 + (ab >> 3) % 3; cvmax = vm; }
		br_ssl_engine_set_suites(c.eng, csu.data(), csu.size());
		br_ssl_engine_set_versions(c.eng, cvmin, cvmax);
		br_ssl_engine_set_suites(srv->eng, ssu.data(), ssu.size());
		br_ssl_engine_set_versions(srv->eng, svmin, svmax);
		c.prof.resume = resume;
		Bytes offered_id;
		bool id_altered = false;
		if (resume && kind == 9) {
			// forged / truncated id through the public session-parameter API
			br_ssl_session_parameters pp;
			br_ssl_engine_get_session_parameters(c.eng, &pp);
			if (ab & 1) { pp.session_id[(ab >> 1) % 32] ^= 0x80; what += " (one bit flipped)"; }
			else { pp.session_id_len = (unsigned char)(1 + (ab >> 1) % 31); what += fmt(" (truncated to %u bytes)", pp.session_id_len); }
			br_ssl_engine_set_session_parameters(c.eng, &pp);
			id_altered = true;
		}
		VF_CHECK(c.reset() && srv->reset(), "reset");
		std::string ctx = fmt("[%s] op %u: client %d %s", hist.c_str(), op, ci, what.c_str());
		ConnResult r = connect(c, *srv, ctx);
		hist += what + (r.abbreviated ? "=>abbreviated; " : "=>full; ");
		if (resume) resumptions_tried++;
		// --- reference
		unsigned v = std::min(cvmax, svmax);
		bool have = false;
		MEntry me;
		// a client does not offer a session whose version it no longer allows (it would have to refuse the answer) or whose suite it
		// no longer proposes (RFC 5246 7.4.1.2): no lookup then
		bool offered = resume && saved[ci].r.version >= cvmin && saved[ci].r.version <= cvmax && std::find(csu.begin(), csu.end(), saved[ci].r.suite) != csu.end();
		if (offered && !id_altered) have = mdl->load(saved[ci].r.sid, me);
		bool suite_ok = resume && std::find(csu.begin(), csu.end(), saved[ci].r.suite) != csu.end() && std::find(ssu.begin(), ssu.end(), saved[ci].r.suite) != ssu.end();
		bool version_ok = resume && saved[ci].r.version >= std::max(cvmin, svmin) && saved[ci].r.version <= v;
		bool may_abbreviate = have && suite_ok && version_ok;
		bool must_abbreviate = may_abbreviate && saved[ci].r.version == v;
		if (id_altered && resume && kind == 9 && !r.ok) {
			// a forged id that the server does not know: full handshake expected; it must not fail
		}
		VF_CHECK(r.ok, "%s: connection failed (client error %d, server error %d) - a full handshake must take place whenever resumption is not possible", ctx.c_str(), r.cerr, r.serr);
		// what the ClientHello says: a session is offered only if the client could accept its resumption (RFC 5246 7.4.1.2: the
		// suite list of a resumption request MUST include the session's suite - an OpenSSL server answers anything else with a
		// fatal illegal_parameter instead of the full handshake that is possible); same for the version
		if (resume && !id_altered) {
			bool client_could_resume = std::find(csu.begin(), csu.end(), saved[ci].r.suite) != csu.end() && saved[ci].r.version >= cvmin && saved[ci].r.version <= cvmax;
			if (!client_could_resume)
				VF_CHECK(r.offered_sid.empty(), "%s: the ClientHello offers session %s.. for resumption although the client %s", ctx.c_str(), hex(r.offered_sid.data(), r.offered_sid.size(), 8).c_str(),
					std::find(csu.begin(), csu.end(), saved[ci].r.suite) == csu.end() ? fmt("does not propose its cipher suite %04x any more", saved[ci].r.suite).c_str() : fmt("does not allow its version %04x any more", saved[ci].r.version).c_str());
			else VF_CHECK(r.offered_sid == saved[ci].r.sid, "%s: resumption requested, the ClientHello does not carry the remembered session id", ctx.c_str());
		}
		if (r.abbreviated) {
			VF_CHECK(may_abbreviate, "%s: abbreviated handshake although %s", ctx.c_str(), !resume ? "the client offered no session" : id_altered ? "the offered id is not a cached one" :
				!have ? "the cache does not hold the id any more (evicted / forgotten / other server)" : !suite_ok ? "the remembered suite is no longer acceptable to both sides" : "the remembered version is no longer acceptable");
			VF_CHECK(r.ms == saved[ci].r.ms && r.sid == saved[ci].r.sid && r.version == saved[ci].r.version && r.suite == saved[ci].r.suite,
				"%s: abbreviated handshake did not reuse the remembered session (master secret %s)", ctx.c_str(), r.ms == saved[ci].r.ms ? "equal" : "differs");
			VF_CHECK(memcmp(r.cr.data() + 4, saved[ci].r.cr.data() + 4, 28) != 0 && memcmp(r.sr.data() + 4, saved[ci].r.sr.data() + 4, 28) != 0, "%s: resumed connection reuses the old randoms", ctx.c_str());
			abbreviated_n++;
		} else {
			VF_CHECK(!must_abbreviate, "%s: full handshake although the cache holds the id and suite %04x / version %04x are acceptable to both sides", ctx.c_str(), saved[ci].r.suite, saved[ci].r.version);
			if (saved[ci].have) VF_CHECK(r.ms != saved[ci].r.ms, "%s: full handshake produced the same master secret as the earlier session", ctx.c_str());
			// the server saves the new session in the cache it was given
			MEntry ne;
			ne.id = r.sid; ne.version = r.version; ne.suite = r.suite; ne.ms = r.ms; ne.disabled = false;
			if (srv == &s) model.save(ne);
		}
		if (srv == &s || r.abbreviated) { saved[ci].have = true; saved[ci].r = r; }
		else { saved[ci].have = false; }   // session known to the other server only: keep the model simple
		stats.evals++;
	}
	stats.cls("resumption:attempts", resumptions_tried);
	stats.cls("resumption:abbreviated", abbreviated_n);
	stats.eval(resumptions_tried ? fmt("B/%zu/%llx", cap, (unsigned long long)fnv(hist)) : std::string());
	if (stats.want_sample()) stats.sample(fmt("cache capacity %zu | ", cap) + hist.substr(0, 400));
}

void target_run(Tape &t)
{
	unsigned m = t.u8() % 4;
	if (m < 3) part_a(t); else part_b(t);
}

// Enumerator: ALL histories of depth <= D over 5 ids for capacities 0..4.
// Commands: save(next fresh id), load(i), forget(i) for i in 0..4.
static void enum_rec(std::vector<uint8_t> &tp, unsigned depth, unsigned nsaved, uint64_t &n, int shard, int nshards)
{
	if (depth == 0) {
		if ((n++ % (uint64_t)nshards) == (uint64_t)shard) enum_tape(tp);
		return;
	}
	// save
	if (nsaved < 5) { tp.push_back(0); tp.push_back(0); enum_rec(tp, depth - 1, nsaved + 1, n, shard, nshards); tp.pop_back(); tp.pop_back(); }
	if (nsaved == 0) return;
	for (unsigned i = 0; i < nsaved; i++) {
		tp.push_back(3); tp.push_back((uint8_t)(i * 8)); enum_rec(tp, depth - 1, nsaved, n, shard, nshards); tp.pop_back(); tp.pop_back();
		tp.push_back(6); tp.push_back((uint8_t)i); enum_rec(tp, depth - 1, nsaved, n, shard, nshards); tp.pop_back(); tp.pop_back();
	}
}
void target_enum(int shard, int nshards)
{
	unsigned depth = (unsigned)env_long("VERIF_C17_DEPTH", tier_thorough() ? 8 : 6);
	uint64_t n = 0;
	for (unsigned cap = 0; cap <= 4; cap++) {
		// part A header: mode, ssel (1 => k*100), k, entropy seed (4), misalign, salt
		std::vector<uint8_t> tp = { 0, 1, (uint8_t)cap, 7, 7, 7, (uint8_t)(cap + 1), (uint8_t)(cap & 3), 5 };
		enum_rec(tp, depth, 0, n, shard, nshards);
	}
	stats.exhaustive = true;
	stats.notes["exhaustive_depth"] = std::to_string(depth);
}
