// C19 — closure, alerts and renegotiation follow the protocol without
// corrupting data.
//
// A case is a configuration (protection mode, buffer layouts, transport
// chunking), a data-exchange script in both directions and ONE kind of event
// inserted at generated scheduling rounds, i.e. also in the middle of
// records:
//   mode 0  close() by client, server or both
//   mode 1  transport cut (no byte moves any more; both sides see end of
//           transport the way a br_sslio caller does)
//   mode 2  an alert record (any level 0..255, any description 0..255, or a
//           malformed form: 1 byte, 3 bytes, pair split over two records,
//           empty record) injected towards one side, protected with the
//           real keys by the independent codec when encryption is active,
//           in the clear during the handshake
//   mode 3  renegotiate() by client / server / both, up to 3 times, at
//           arbitrary instants, with BR_OPT_NO_RENEGOTIATION on either side
// Oracles are in the functions judge_*; in every mode each delivered byte is
// checked against the byte written at that offset (running prefix check) and
// the C06 invariants are asserted after every engine call.
#include "common/tls_session.hpp"
#include "common/tls_hello.hpp"
#include "common/tls_mbed.hpp"

using namespace vf;
using namespace tls;

const char *target_name = "c19_closure";
const int target_tape_min = 0, target_tape_max = 96;

struct Cfg { uint16_t suite; unsigned version; };
static const Cfg CFGS[] = { { 0x002F, 0x0301 }, { 0x002F, 0x0302 }, { 0x009C, 0x0303 }, { 0xCCA8, 0x0303 }, { 0xC0AE, 0x0303 }, { 0x000A, 0x0301 }, { 0x003D, 0x0303 }, { 0xC02C, 0x0303 } };

static ChunkPol draw_pol(Tape &t)
{
	ChunkPol p;
	unsigned v = t.u8();
	switch (v % 5) {
	case 0: p.mode = CH_WHOLE; break;
	case 1: p.mode = CH_FIXED; p.k = 1 + (v >> 3) % 9; break;
	case 2: p.mode = CH_HDR; break;
	case 3: p.mode = CH_TAPE; break;
	default: p.mode = CH_FIXED; p.k = 50 + (v >> 3) * 41; break;
	}
	return p;
}

struct World {
	Profile cp, sp;
	std::unique_ptr<BearClient> c;
	std::unique_ptr<BearServer> s;
	std::unique_ptr<Session> S;
	const wt::SuiteInfo *si;
	unsigned version;
	std::string desc;
};

static void build(World &W, Tape &t, uint32_t cflags = 0, uint32_t sflags = 0)
{
	const Cfg &cf = CFGS[t.u8() % (sizeof CFGS / sizeof CFGS[0])];
	W.si = wt::suite_by_id(cf.suite);
	W.version = cf.version;
	W.cp.suites = { cf.suite }; W.sp.suites = { cf.suite };
	W.cp.vmin = W.cp.vmax = W.sp.vmin = W.sp.vmax = cf.version;
	W.sp.key = keys_for(W.si)[0];
	unsigned lb = t.u8();
	W.cp.layout = (Layout)(lb % 3); W.sp.layout = (Layout)((lb >> 2) % 3);
	if (W.cp.layout == L_BIDI) W.cp.buflen = BR_SSL_BUFSIZE_BIDI;
	if (W.sp.layout == L_BIDI) W.sp.buflen = BR_SSL_BUFSIZE_BIDI;
	W.cp.esp = (lb >> 4) & 1; W.sp.esp = (lb >> 5) & 1;
	W.cp.flags = cflags; W.sp.flags = sflags;
	W.c.reset(new BearClient(W.cp));
	W.s.reset(new BearServer(W.sp));
	VF_CHECK(W.c->reset() && W.s->reset(), "reset failed");
	W.S.reset(new Session(W.c.get(), W.s.get()));
	Session &S = *W.S;
	S.tape = &t;
	S.wire_out_pol[0] = draw_pol(t); S.wire_out_pol[1] = draw_pol(t);
	S.wire_in_pol[0] = draw_pol(t); S.wire_in_pol[1] = draw_pol(t);
	S.app_pol = draw_pol(t);
	if (S.app_pol.mode == CH_FIXED && S.app_pol.k < 16) S.app_pol.k += 16;
	S.jitter = t.flag();
	static const char *ln[] = { "mono", "bidi", "split" };
	W.desc = fmt("%s TLS%s client %s%s server %s%s", W.si->name, ver_name(cf.version), ln[W.cp.layout], W.cp.esp ? "/esp" : "", ln[W.sp.layout], W.sp.esp ? "/esp" : "");
}

// data script: a few writes per side, small to a couple of records
static void data_script(World &W, Tape &t, bool final_flush = true)
{
	for (int side = 0; side < 2; side++) {
		unsigned n = 1 + t.u8() % 4;
		for (unsigned i = 0; i < n; i++) {
			Item it;
			it.kind = IT_WRITE;
			unsigned sel = t.u8();
			it.len = sel % 4 == 0 ? 1 + sel / 4 : sel % 4 == 1 ? 100 + sel * 3 : sel % 4 == 2 ? 3000 + sel * 20 : 17000;
			it.flush = (sel & 0x40) != 0 || i + 1 == n;
			if (!final_flush && i + 1 == n) it.flush = (sel & 0x20) != 0;
			W.S->script[side].push_back(it);
		}
		// a caller that has nothing more to write flushes (with a half-duplex buffer
		// unflushed plaintext keeps the buffer in output mode: the caller could not
		// receive anything; br_sslio does the same before it reads)
		W.S->script[side].push_back(Item{ IT_FLUSH, 0, true });
	}
}

static unsigned count_alerts(Session &S, int d, int level, int desc)
{
	unsigned n = 0;
	for (auto &p : S.tap.plain[d])
		if (p.type == 21 && p.epoch > 0 && p.data.size() == 2 && (level < 0 || p.data[0] == level) && (desc < 0 || p.data[1] == desc)) n++;
	return n;
}

// ---------------------------------------------------------------- mode 0: close
static void mode_close(Tape &t)
{
	World W;
	build(W, t);
	Session &S = *W.S;
	data_script(W, t, false);
	unsigned who = t.u8() % 4;      // 0 client, 1 server, 2 both (different rounds), 3 both (same round)
	uint64_t r0 = 20 + t.u16() % 2500, r1 = who == 3 ? r0 : 20 + t.u16() % 2500;
	bool fired[2] = { false, false };
	size_t unread_at_close[2] = { 0, 0 };
	S.on_round = [&]() {
		for (int side = 0; side < 2; side++) {
			bool mine = (side == 0 && who != 1) || (side == 1 && who != 0);
			if (!mine || fired[side]) continue;
			if (S.rounds < (side == 0 ? r0 : r1)) continue;
			// C19 guard (i): clean closure is promised for an engine in the data phase
			if (!S.ep[side]->handshake_done()) continue;
			fired[side] = true;
			S.sent_at_close[side] = S.sent[side];
			S.close_called[side] = true;
			S.script[side].clear();
			const uint8_t *p;
			unread_at_close[side] = S.ep[side]->app_in_peek(&p);
			S.ep[side]->close();
		}
	};
	bool q = S.run(3000000);
	std::string d2 = W.desc + fmt(" | close by %s at rounds %llu/%llu", who == 0 ? "client" : who == 1 ? "server" : "both", (unsigned long long)r0, (unsigned long long)r1);
	VF_CHECK(q, "%s: did not quiesce", d2.c_str());
	int nclosers = fired[0] + fired[1];
	if (nclosers == 0) { stats.eval(); stats.cls("close:never-fired"); return; }
	BearEndpoint *e[2] = { W.c.get(), W.s.get() };
	VF_CHECK(e[0]->closed() && e[1]->closed(), "%s: after close(): client %s (err %d), server %s (err %d) - both must finish closed", d2.c_str(),
		e[0]->closed() ? "closed" : "OPEN", e[0]->error(), e[1]->closed() ? "closed" : "OPEN", e[1]->error());
	VF_CHECK(e[0]->error() == 0 && e[1]->error() == 0, "%s: orderly closure ended with errors client=%d server=%d", d2.c_str(), e[0]->error(), e[1]->error());
	for (int d = 0; d < 2; d++) {
		VF_CHECK(S.tap.advance(d, true) && S.tap.decode_error.empty(), "%s: %s", d2.c_str(), S.tap.decode_error.c_str());
		unsigned cn = count_alerts(S, d, 1, 0), any = count_alerts(S, d, -1, -1);
		VF_CHECK(cn == 1 && any == 1, "%s: %s sent %u close_notify and %u alert records in total (exactly one close_notify)", d2.c_str(), d ? "server" : "client", cn, any);
		// the wire carried exactly what was written, in order, before the close_notify
		Bytes as = S.tap.app_stream(d);
		VF_CHECK(as.size() <= S.sent[d], "%s: wire carries %zu bytes from %s, it wrote %zu", d2.c_str(), as.size(), d ? "server" : "client", S.sent[d]);
		for (size_t i = 0; i < as.size(); i++) VF_CHECK(as[i] == stream_byte(S.stream_seed[d], i), "%s: wire plaintext differs at %zu", d2.c_str(), i);
		bool seen_cn = false;
		for (auto &p : S.tap.plain[d]) {
			if (p.type == 21 && p.epoch > 0) seen_cn = true;
			else if (seen_cn && p.epoch > 0) VF_CHECK(false, "%s: %s sent a type-%u record after its close_notify", d2.c_str(), d ? "server" : "client", p.type);
		}
	}
	for (int side = 0; side < 2; side++) {
		if (!fired[side]) continue;
		// everything written before the request left the closer (it is on the wire before its close_notify)
		Bytes as = S.tap.app_stream(side);
		VF_CHECK(as.size() == S.sent_at_close[side], "%s: %s wrote %zu bytes before close(), the wire carries %zu before its close_notify", d2.c_str(),
			side ? "server" : "client", S.sent_at_close[side], as.size());
		// and reached the peer application, unless the peer had itself asked for closure
		if (!fired[1 - side])
			VF_CHECK(S.recvd[side] == S.sent_at_close[side], "%s: %s wrote %zu bytes before close(), its peer read %zu before seeing the end of stream", d2.c_str(),
				side ? "server" : "client", S.sent_at_close[side], S.recvd[side]);
		// data arriving after the local close request is discarded, not delivered
		VF_CHECK(S.recvd_after_local_close[side] <= unread_at_close[side], "%s: %s received %zu application bytes after its own close() (only %zu were already decrypted and pending)", d2.c_str(),
			side ? "server" : "client", S.recvd_after_local_close[side], unread_at_close[side]);
	}
	bool inflight = S.sent[0] + S.sent[1] > 0;
	stats.cls(fmt("close:%s", who == 0 ? "client" : who == 1 ? "server" : "both"));
	stats.eval(inflight ? fmt("close/%04x/%u/%d%d/%u/%llu/%llu", W.si->id, W.version, W.cp.layout, W.sp.layout, who, (unsigned long long)(r0 / 8), (unsigned long long)(r1 / 8)) : std::string());
	if (stats.want_sample()) stats.sample(d2 + fmt(" => both closed, error 0, %zu/%zu bytes delivered of %zu/%zu", S.recvd[0], S.recvd[1], S.sent[0], S.sent[1]));
}

// ---------------------------------------------------------------- mode 1: transport cut
static void mode_cut(Tape &t)
{
	World W;
	build(W, t);
	Session &S = *W.S;
	data_script(W, t);
	bool also_close = t.flag();
	uint64_t cut_bytes = t.u16() % 9000;     // cut once this many wire bytes have been delivered in total
	if (t.flag()) cut_bytes = t.u32() % 60000;
	int closer = t.u8() & 1;
	if (also_close) { S.script[closer].push_back(Item{ IT_CLOSE, 0, true }); }
	S.on_round = [&]() { if (!S.cut && S.delivered_to[0] + S.delivered_to[1] >= cut_bytes) S.cut = true; };
	S.run(3000000);
	std::string d2 = W.desc + fmt(" | transport cut after %llu delivered bytes%s", (unsigned long long)cut_bytes, also_close ? fmt(", %s closes", closer ? "server" : "client").c_str() : "");
	bool was_cut = S.cut;
	S.cut = true;
	BearEndpoint *e[2] = { W.c.get(), W.s.get() };
	// what each side had received when the transport ended
	bool got_peer_cn[2];
	for (int side = 0; side < 2; side++) {
		// the peer's close_notify counts only if all its bytes were delivered
		int d = 1 - side;
		got_peer_cn[side] = false;
		uint64_t off = 0;
		S.tap.advance(d);
		for (size_t i = 0; i < S.tap.recs[d].size(); i++) {
			off += 5 + S.tap.recs[d][i].payload.size();
			if (i < S.tap.plain[d].size() && S.tap.plain[d][i].type == 21 && S.tap.plain[d][i].epoch > 0 && off <= S.delivered_to[side]) got_peer_cn[side] = true;
		}
	}
	Bytes sink;
	for (int side = 0; side < 2; side++) bear_transport_eof(e[side], &sink);
	for (int side = 0; side < 2; side++) {
		VF_CHECK(e[side]->closed(), "%s: %s is still open after the end of transport", d2.c_str(), e[side]->name.c_str());
		if (!got_peer_cn[side])
			VF_CHECK(e[side]->error() != 0, "%s: %s finished with last_error 0 although it never received the peer's close_notify (truncation reported as clean end of stream)",
				d2.c_str(), e[side]->name.c_str());
		else
			VF_CHECK(e[side]->error() == 0 || e[side]->error() == BR_ERR_IO, "%s: %s error %d after complete closure exchange", d2.c_str(), e[side]->name.c_str(), e[side]->error());
	}
	stats.cls(was_cut ? "cut:mid-session" : "cut:after-everything");
	stats.cls(S.established ? "cut:after-handshake" : "cut:during-handshake");
	stats.eval(was_cut ? fmt("cut/%04x/%u/%d%d/%llu/%d", W.si->id, W.version, W.cp.layout, W.sp.layout, (unsigned long long)cut_bytes, also_close) : std::string());
	if (stats.want_sample()) stats.sample(d2 + fmt(" => errors %d/%d", e[0]->error(), e[1]->error()));
}

// ---------------------------------------------------------------- mode 2: injected alerts
static void mode_alert(Tape &t)
{
	World W;
	build(W, t);
	Session &S = *W.S;
	int victim = t.u8() & 1;       // side receiving the alert
	int d = 1 - victim;            // direction (sender index) it travels in
	unsigned phase = t.u8() % 4;   // 0: during the handshake in the clear, 1/2: data phase, 3: after the victim's own close()
	unsigned form = t.u8() % 8;    // 0..3 well-formed pair, 4: one byte only, 5: three bytes, 6: pair split over two records, 7: empty record then pair
	unsigned level = t.u8(), descr = t.u8();
	if (t.flag()) level = 1 + (level & 1);          // half of the cases: legal levels
	if (phase == 0) {
		// before the ServerHello (towards the client) / before the ClientKeyExchange (towards the server)
	}
	// data before the event
	for (int side = 0; side < 2; side++) S.script[side].push_back(Item{ IT_WRITE, (size_t)(10 + t.u8() * 5), true });
	S.script[0].push_back(Item{ IT_SYNC, 1, true });
	S.script[1].push_back(Item{ IT_SYNC, 1, true });
	bool injected = false, hold = false;
	uint64_t clear_round = 1 + t.u8() % 6;
	S.mitm = [&](int dir, const Record &r, std::vector<Bytes> &out) {
		if (hold && dir == d) return;              // after the injection the genuine sender is silenced in this direction
		out.push_back(r.raw());
	};
	Bytes alert_bytes;
	auto pairs = [&]() {
		std::vector<Bytes> recs;
		uint8_t l = (uint8_t)level, ds = (uint8_t)descr;
		switch (form) {
		case 4: recs.push_back(Bytes{ l }); break;
		case 5: recs.push_back(Bytes{ l, ds, 1 }); break;
		case 6: recs.push_back(Bytes{ l }); recs.push_back(Bytes{ ds }); break;
		case 7: recs.push_back(Bytes{}); recs.push_back(Bytes{ l, ds }); break;
		default: recs.push_back(Bytes{ l, ds });
		}
		return recs;
	};
	auto inject = [&]() {
		std::vector<Bytes> recs = pairs();
		wt::RecCodec c;
		bool enc = S.tap.epoch[d] > 0;
		if (enc && !S.tap.codec_after(d, S.tap.recs[d].size(), c)) return false;
		if (!S.framer[d].buf.empty()) return false;        // not at a record boundary of the sender's output
		for (auto &pl : recs) {
			alert_bytes.insert(alert_bytes.end(), pl.begin(), pl.end());
			Record r;
			r.type = 21; r.version = (uint16_t)W.version;
			if (enc) r.payload = c.encrypt(21, W.version, pl.data(), pl.size());
			else { if (pl.empty()) continue; r.payload = pl; }
			S.transit[d].push(r.raw());
		}
		hold = true;
		injected = true;
		return true;
	};
	bool victim_closed_first = false;
	S.on_round = [&]() {
		if (injected) return;
		if (phase == 0) { if (S.rounds >= clear_round && !S.established && S.tap.epoch[d] == 0) inject(); return; }
		if (!S.established || !S.script[0].empty() || !S.script[1].empty()) return;   // wait for the barrier: both directions quiet
		if (S.recvd[0] != S.sent[0] || S.recvd[1] != S.sent[1]) return;
		if (phase == 3 && !victim_closed_first) {
			// the alert follows the victim's own close request at once, before the
			// peer can answer (one attempt: the peer's answer would end the scenario)
			victim_closed_first = true;
			S.close_called[victim] = true;
			S.ep[victim]->close();
			if (!inject()) { hold = true; injected = false; phase = 9; }
			return;
		}
		if (phase == 9) return;
		inject();
	};
	S.run(2000000);
	std::string d2 = W.desc + fmt(" | alert form %u (level %u, description %u) to the %s, phase %u", form, level, descr, victim ? "server" : "client", phase);
	if (!injected) { stats.eval(); stats.cls("alert:not-injected"); return; }
	BearEndpoint *v = victim ? (BearEndpoint *)W.s.get() : (BearEndpoint *)W.c.get();
	// reference: the alert byte stream is read in (level, description) pairs
	int expect_err = -1;    // -1: connection goes on; 0: orderly closure; >0: that error
	for (size_t i = 0; i + 1 < alert_bytes.size() && expect_err < 0; i += 2) {
		unsigned l = alert_bytes[i], ds = alert_bytes[i + 1];
		if (l != 1) expect_err = 256 + (int)ds;          // fatal, or malformed level: never "clean"
		else if (ds == 0) expect_err = 0;                // close_notify
		else if (ds == 100) expect_err = 256 + 100;      // no_renegotiation: fatal for a BearSSL receiver (documented upstream behaviour)
	}
	if (phase == 0 && expect_err == 0) expect_err = -2;  // close_notify in the middle of a handshake: only "must not complete cleanly open" is judged
	if (expect_err > 0) {
		VF_CHECK(v->closed() && v->error() != 0, "%s: victim is %s with last_error %d after a fatal/malformed alert (must finish with a non-zero error)", d2.c_str(),
			v->closed() ? "closed" : "open", v->error());
		VF_CHECK(v->error() == expect_err, "%s: victim reports error %d, want BR_ERR_RECV_FATAL_ALERT + %d = %d", d2.c_str(), v->error(), expect_err - 256, expect_err);
	} else if (expect_err == 0) {
		VF_CHECK(v->closed() && v->error() == 0, "%s: close_notify received: victim is %s with error %d", d2.c_str(), v->closed() ? "closed" : "open", v->error());
		VF_CHECK(S.tap.advance(victim, true), "%s: %s", d2.c_str(), S.tap.decode_error.c_str());
		VF_CHECK(count_alerts(S, victim, 1, 0) == 1, "%s: victim answered the close_notify with %u close_notify records", d2.c_str(), count_alerts(S, victim, 1, 0));
	} else if (expect_err == -1 && phase != 0 && phase != 3) {
		// ignored warning (or an incomplete pair): the victim stays usable - it can still send, and what it sends arrives
		VF_CHECK(!v->closed() && v->error() == 0, "%s: a warning alert other than close_notify / no_renegotiation closed the victim (error %d)", d2.c_str(), v->error());
		size_t before = S.recvd[victim];
		S.on_round = nullptr;
		S.script[victim].push_back(Item{ IT_WRITE, 300, true });
		S.run(200000);
		VF_CHECK(S.recvd[victim] == before + 300, "%s: after an ignored warning the victim's data no longer arrives (%zu of 300)", d2.c_str(), S.recvd[victim] - before);
	}
	VF_CHECK(S.recvd[d] <= S.sent[d], "%s: alert injection made the victim deliver more than was written", d2.c_str());
	stats.cls(fmt("alert:phase%u", phase));
	stats.cls(expect_err > 0 ? "alert:expect-fatal" : expect_err == 0 ? "alert:expect-closure" : "alert:expect-ignored");
	stats.eval(fmt("alert/%04x/%u/%d/%u/%u/%u/%u", W.si->id, W.version, victim, phase, form, level, descr));
	if (stats.want_sample()) stats.sample(d2 + fmt(" => victim error %d", v->error()));
}

// ---------------------------------------------------------------- mode 3: renegotiation at arbitrary instants
static bool find_ri(const Bytes &hs_msg, Bytes &ri)
{
	// ClientHello / ServerHello body -> renegotiation_info (0xFF01) extension data
	if (hs_msg.size() < 4) return false;
	unsigned mt = hs_msg[0];
	const uint8_t *b = hs_msg.data() + 4;
	size_t n = hs_msg.size() - 4, o = 34;
	if (n < 35) return false;
	o += 1 + b[34];                                   // session id
	if (mt == 1) { if (o + 2 > n) return false; o += 2 + ((b[o] << 8) | b[o + 1]); if (o + 1 > n) return false; o += 1 + b[o]; }
	else o += 3;                                      // suite + compression
	if (o + 2 > n) return false;
	size_t el = (b[o] << 8) | b[o + 1];
	o += 2;
	size_t end = o + el;
	if (end > n) return false;
	while (o + 4 <= end) {
		unsigned et = (b[o] << 8) | b[o + 1];
		size_t l = (b[o + 2] << 8) | b[o + 3];
		o += 4;
		if (o + l > end) return false;
		if (et == 0xFF01) { if (l < 1 || (size_t)b[o] + 1 != l) return false; ri.assign(b + o + 1, b + o + l); return true; }
		o += l;
	}
	return false;
}

static void mode_reneg(Tape &t)
{
	World W;
	unsigned fl = t.u8();
	uint32_t cflags = (fl & 7) == 1 ? BR_OPT_NO_RENEGOTIATION : 0, sflags = (fl & 7) == 2 ? BR_OPT_NO_RENEGOTIATION : 0;
	build(W, t, cflags, sflags);
	Session &S = *W.S;
	data_script(W, t);
	bool f4 = known("client-reneg-with-unflushed-plaintext");
	if (f4) {
		// listed finding F4: the client never has unflushed plaintext while a renegotiation may start
		for (auto &it : S.script[0]) it.flush = true;
		stats.excluded++;
	}
	if (((cflags | sflags) & BR_OPT_NO_RENEGOTIATION) && known("reneg-declined-while-output-busy")) {
		// listed finding F11: the side that declines never has output in progress when the request arrives
		S.script[(cflags & BR_OPT_NO_RENEGOTIATION) ? 0 : 1].clear();
		stats.excluded++;
	}
	unsigned nev = 1 + t.u8() % 3;
	struct Ev { uint64_t round; int side; bool done; };
	std::vector<Ev> evs;
	for (unsigned i = 0; i < nev; i++) evs.push_back(Ev{ 10 + (uint64_t)(t.u16() % 3000), t.u8() & 1, false });
	int accepted = 0, refused = 0;
	bool app_mid[2] = { false, false };
	S.on_round = [&]() {
		for (auto &e : evs) {
			if (e.done || S.rounds < e.round || !S.ep[e.side]->handshake_done()) continue;
			e.done = true;
			if (f4 && e.side == 0) {
				// F4 also needs the plaintext accepted so far to be on its way: flush first (an ordinary caller action)
				S.ep[0]->flush(false);
			}
			bool r = S.ep[e.side]->renegotiate();
			uint32_t myflags = e.side ? sflags : cflags;
			if (myflags & BR_OPT_NO_RENEGOTIATION) VF_CHECK(!r, "%s: renegotiate() returned 1 although BR_OPT_NO_RENEGOTIATION is set", W.desc.c_str());
			(r ? accepted : refused)++;
			if (S.sent[0] != S.recvd[0]) app_mid[0] = true;
			if (S.sent[1] != S.recvd[1]) app_mid[1] = true;
		}
	};
	S.run(3000000);
	std::string d2 = W.desc + fmt(" | %u renegotiation request(s), flags c=%#x s=%#x, %d accepted %d refused", nev, cflags, sflags, accepted, refused);
	BearEndpoint *e[2] = { W.c.get(), W.s.get() };
	// streams intact and ordered in all cases: enforced byte by byte in deliver_app(); totals:
	for (int d = 0; d < 2; d++) VF_CHECK(S.recvd[d] <= S.sent[d], "%s: more delivered than written", d2.c_str());
	// wire view
	for (int d = 0; d < 2; d++) {
		bool ok = S.tap.advance(d, true);
		// a side that died mid-record may leave an undecodable tail only if some side failed
		if (!ok) VF_CHECK(e[0]->error() != 0 || e[1]->error() != 0, "%s: %s", d2.c_str(), S.tap.decode_error.c_str());
	}
	int epochs = S.tap.epoch[0] < S.tap.epoch[1] ? S.tap.epoch[0] : S.tap.epoch[1];
	if ((cflags | sflags) & BR_OPT_NO_RENEGOTIATION) {
		VF_CHECK(S.tap.epoch[0] <= 1 && S.tap.epoch[1] <= 1, "%s: a second key change happened although renegotiation is disabled on one side", d2.c_str());
		// a request reaching the side that has the option is declined with a *warning* no_renegotiation
		int decliner = (cflags & BR_OPT_NO_RENEGOTIATION) ? 0 : 1;
		bool asked = false;
		{
			// HelloRequest (0) / ClientHello (1) under encryption (the first handshake message of the epoch is Finished)
			Bytes hs;
			for (auto &p : S.tap.plain[1 - decliner]) if (p.epoch > 0 && p.type == 22) hs.insert(hs.end(), p.data.begin(), p.data.end());
			size_t o = 0;
			while (o + 4 <= hs.size()) {
				size_t ml = ((size_t)hs[o + 1] << 16) | ((size_t)hs[o + 2] << 8) | hs[o + 3];
				if (hs[o] == 0 || hs[o] == 1) asked = true;
				o += 4 + ml;
			}
		}
		if (asked && S.tap.decode_error.empty()) {
			bool delivered_request = true;   // (the request was forwarded; the decliner may have died first only through the peer's fault)
			unsigned warn = count_alerts(S, decliner, 1, 100), fatal = count_alerts(S, decliner, 2, -1);
			if (e[decliner]->error() == 0 || warn + fatal > 0)
				VF_CHECK(warn >= 1 && fatal == 0, "%s: renegotiation request reached the side with BR_OPT_NO_RENEGOTIATION: it sent %u warning no_renegotiation and %u fatal alerts", d2.c_str(), warn, fatal);
			(void)delivered_request;
			stats.cls("reneg:declined-with-warning");
		}
	} else if (epochs >= 2 && S.tap.decode_error.empty()) {
		// every renegotiated handshake is bound to the previous Finished values (RFC 5746)
		for (int ep = 1; ep < epochs; ep++) {
			// Finished messages of epoch `ep` (sent under the keys of epoch ep): first handshake record of that epoch, per direction
			Bytes fin[2], hello[2];
			for (int d = 0; d < 2; d++) {
				Bytes hs;
				for (auto &p : S.tap.plain[d]) if (p.epoch == ep && p.type == 22) hs.insert(hs.end(), p.data.begin(), p.data.end());
				size_t o = 0;
				while (o + 4 <= hs.size()) {
					size_t ml = ((size_t)hs[o + 1] << 16) | ((size_t)hs[o + 2] << 8) | hs[o + 3];
					if (o + 4 + ml > hs.size()) break;
					Bytes m(hs.begin() + o, hs.begin() + o + 4 + ml);
					if (hs[o] == 20 && fin[d].empty()) fin[d].assign(m.begin() + 4, m.end());
					if ((hs[o] == 1 || hs[o] == 2) && hello[d].empty()) hello[d] = m;
					o += 4 + ml;
				}
			}
			if (hello[0].empty() || hello[1].empty()) continue;     // renegotiation started but did not get that far
			Bytes ri_c, ri_s;
			VF_CHECK(find_ri(hello[0], ri_c), "%s: renegotiation ClientHello (epoch %d) carries no renegotiation_info", d2.c_str(), ep);
			VF_CHECK(ri_c == fin[0], "%s: renegotiation ClientHello is not bound to the previous client Finished (%s vs %s)", d2.c_str(), hex(ri_c.data(), ri_c.size()).c_str(), hex(fin[0].data(), fin[0].size()).c_str());
			VF_CHECK(find_ri(hello[1], ri_s), "%s: renegotiation ServerHello carries no renegotiation_info", d2.c_str());
			Bytes both = fin[0];
			both.insert(both.end(), fin[1].begin(), fin[1].end());
			VF_CHECK(ri_s == both, "%s: renegotiation ServerHello is not bound to both previous Finished values", d2.c_str());
			stats.cls("reneg:binding-checked");
		}
	}
	// "CLOSED => orderly or non-zero error"; nobody closed here, so a closed side must carry an error
	for (int side = 0; side < 2; side++)
		if (e[side]->closed()) VF_CHECK(e[side]->error() != 0, "%s: %s closed with error 0 although nobody asked for closure", d2.c_str(), e[side]->name.c_str());
	if (e[0]->error() == 0 && e[1]->error() == 0 && !e[0]->closed() && !e[1]->closed()) {
		// nothing failed: everything written must have arrived
		for (int d = 0; d < 2; d++) VF_CHECK(S.recvd[d] == S.sent[d] && S.script[d].empty(), "%s: no error anywhere, but %s's data stalled (%zu of %zu delivered, %zu script items left; states %#x/%#x)",
			d2.c_str(), d ? "server" : "client", S.recvd[d], S.sent[d], S.script[d].size(), e[0]->state(), e[1]->state());
		stats.cls("reneg:all-data-delivered");
	} else stats.cls("reneg:ended-in-error(data crossing a renegotiation is refused: listed finding, see the probe)");
	stats.cls(fmt("reneg:key-changes=%d", epochs));
	stats.eval((app_mid[0] || app_mid[1] || accepted) ? fmt("reneg/%04x/%u/%d%d/%u/%u/%d/%d", W.si->id, W.version, W.cp.layout, W.sp.layout, fl & 7, nev, accepted, epochs) : std::string());
	if (stats.want_sample()) stats.sample(d2 + fmt(" => %d key changes, errors %d/%d, delivered %zu/%zu of %zu/%zu", epochs, e[0]->error(), e[1]->error(), S.recvd[0], S.recvd[1], S.sent[0], S.sent[1]));
}

// mode 4: renegotiation with a peer that is not this library (mbedTLS 2.28,
// RFC 5746 on both roles).  Data, barrier, ONE renegotiation request by the
// BearSSL side or by the foreign side, barrier, data, orderly close.  The
// foreign stack verifies BearSSL's renegotiation_info and refuses a wrong
// one; the wiretap checks BearSSL's own hello against the previous Finished
// values; with BR_OPT_NO_RENEGOTIATION the BearSSL side must answer the
// foreign request with a warning and stay usable.
static void mode_foreign_reneg(Tape &t)
{
	static const Cfg FC[] = { { 0x002F, 0x0301 }, { 0x002F, 0x0302 }, { 0x009C, 0x0303 }, { 0xCCA8, 0x0303 }, { 0xC0AE, 0x0303 }, { 0x003D, 0x0303 }, { 0xC02C, 0x0303 }, { 0xC004, 0x0301 }, { 0xC031, 0x0303 }, { 0xC013, 0x0302 } };
	const Cfg &cf = FC[t.u8() % (sizeof FC / sizeof FC[0])];
	const wt::SuiteInfo *si = wt::suite_by_id(cf.suite);
	bool bear_client = t.flag();
	unsigned who = t.u8() % 4;     // 0: BearSSL asks, 1: the foreign peer asks, 2: the foreign peer asks and BearSSL has BR_OPT_NO_RENEGOTIATION, 3: both ask in turn
	Profile cp, sp;
	cp.suites = { cf.suite }; sp.suites = { cf.suite };
	cp.vmin = cp.vmax = sp.vmin = sp.vmax = cf.version;
	sp.key = keys_for(si)[0];
	Profile &bp = bear_client ? cp : sp;
	unsigned lb = t.u8();
	bp.layout = (Layout)(lb % 3);
	if (bp.layout == L_BIDI) bp.buflen = BR_SSL_BUFSIZE_BIDI;
	bp.esp = (lb >> 4) & 1;
	if (who == 2) bp.flags = BR_OPT_NO_RENEGOTIATION;
	bp.entropy = t.filled(32);
	if (bp.entropy == Bytes(32, 0)) bp.entropy[0] = 1;
	std::unique_ptr<Endpoint> cl, sv;
	BearEndpoint *be;
	MbedEndpoint *me;
	uint64_t mseed = 0;
	for (uint8_t x : bp.entropy) mseed = mseed * 131 + x;
	if (bear_client) {
		BearClient *c = new BearClient(cp); cl.reset(c); be = c;
		VF_CHECK(c->reset(), "client reset failed");
		me = new MbedEndpoint(false, sp, mseed); sv.reset(me);
	} else {
		me = new MbedEndpoint(true, cp, mseed); cl.reset(me);
		BearServer *s = new BearServer(sp); sv.reset(s); be = s;
		VF_CHECK(s->reset(), "server reset failed");
	}
	me->enable_renegotiation();
	Session S(cl.get(), sv.get());
	S.tape = &t;
	S.wire_out_pol[0] = draw_pol(t); S.wire_out_pol[1] = draw_pol(t);
	S.wire_in_pol[0] = draw_pol(t); S.wire_in_pol[1] = draw_pol(t);
	S.app_pol = draw_pol(t);
	if (S.app_pol.mode == CH_FIXED && S.app_pol.k < 16) S.app_pol.k += 16;
	S.jitter = t.flag();
	int bside = bear_client ? 0 : 1, fside = 1 - bside;
	auto writes = [&](int side) {
		unsigned n = 1 + t.u8() % 3;
		for (unsigned i = 0; i < n; i++) {
			Item it; it.kind = IT_WRITE;
			unsigned sel = t.u8();
			it.len = sel % 4 == 0 ? 1 + sel / 4 : sel % 4 == 1 ? 100 + sel * 3 : sel % 4 == 2 ? 3000 + sel * 20 : 17000;
			it.flush = true;
			S.script[side].push_back(it);
		}
		S.script[side].push_back(Item{ IT_FLUSH, 0, true });
	};
	// phase 1: data both ways, then a barrier (BearSSL refuses application data that crosses a renegotiation: listed finding F51;
	// mbedTLS refuses it as well while it waits for a hello)
	writes(0); writes(1);
	int rounds = who == 3 ? 2 : 1;
	for (int r = 0; r < rounds; r++) {
		int asker = who == 0 ? bside : who == 3 ? (r == 0 ? bside : fside) : fside;
		for (int side = 0; side < 2; side++) {
			S.script[side].push_back(Item{ IT_SYNC, (size_t)(1 + r), true });
			if (side == asker) S.script[side].push_back(Item{ IT_RENEG, 0, true });
			if (who != 2) S.script[side].push_back(Item{ IT_WAIT_EPOCH, (size_t)(2 + r), true });
		}
		if (who != 2) { writes(0); writes(1); }
	}
	if (who == 2) {
		// the BearSSL side goes on writing after it declined; the foreign side only reads
		writes(bside);
	} else {
		int closer = t.u8() & 1;
		S.script[closer].push_back(Item{ IT_WAIT_PEER_IDLE, 0, true });
		S.script[closer].push_back(Item{ IT_CLOSE, 0, true });
	}
	static const char *ln[] = { "mono", "bidi", "split" };
	std::string desc = fmt("foreign renegotiation: %s %s TLS%s, BearSSL %s%s, %s", bear_client ? "bear-client<->mbedtls-server" : "mbedtls-client<->bear-server",
		si->name, ver_name(cf.version), ln[bp.layout], bp.esp ? "/esp" : "",
		who == 0 ? "BearSSL asks" : who == 1 ? "mbedTLS asks" : who == 2 ? "mbedTLS asks, BearSSL has BR_OPT_NO_RENEGOTIATION" : "BearSSL asks, then mbedTLS asks");
	S.run(3000000);
	VF_CHECK(S.established, "%s: first handshake did not complete (errors %d/%d)", desc.c_str(), cl->error(), sv->error());
	for (int d = 0; d < 2; d++) {
		bool ok = S.tap.advance(d, true);
		VF_CHECK(ok && S.tap.decode_error.empty(), "%s: %s", desc.c_str(), S.tap.decode_error.c_str());
	}
	if (who == 2) {
		VF_CHECK(S.reneg_result[fside] == 1, "harness: mbedTLS did not start the renegotiation");
		VF_CHECK(S.tap.epoch[0] <= 1 && S.tap.epoch[1] <= 1, "%s: a second key change happened although renegotiation is disabled", desc.c_str());
		unsigned warn = count_alerts(S, bside, 1, 100), fatal = count_alerts(S, bside, 2, -1);
		std::string wire;
		for (int d = 0; d < 2; d++) {
			wire += d ? " | server:" : "client:";
			for (auto &p : S.tap.plain[d]) if (p.epoch > 0) wire += fmt(" %u/%zu%s", p.type, p.data.size(), p.type == 22 && !p.data.empty() ? fmt("(hs%u)", p.data[0]).c_str() : "");
		}
		// (an mbedTLS server repeats its HelloRequest when it reads something else: one warning per request)
		unsigned asked = 0;
		for (auto &p : S.tap.plain[fside]) if (p.epoch > 0 && p.type == 22 && !p.data.empty() && p.data[0] == (bear_client ? 0 : 1)) asked++;
		VF_CHECK(asked >= 1, "harness: no renegotiation request on the wire [%s]", wire.c_str());
		VF_CHECK(warn == asked && fatal == 0, "%s: BearSSL answered %u request(s) with %u warning no_renegotiation and %u fatal alerts [%s]", desc.c_str(), asked, warn, fatal, wire.c_str());
		VF_CHECK(be->error() == 0 && !be->closed(), "%s: BearSSL side failed with error %d after declining", desc.c_str(), be->error());
		// (mbedTLS gives up after 16 records without the hello it asked for, so how much of the later data it reads is its own policy;
		// what it did read was checked byte by byte against what was written)
		stats.cls("foreign-reneg:declined-with-warning");
	} else {
		VF_CHECK(cl->error() == 0 && sv->error() == 0, "%s: ended with errors client=%d server=%d (key changes %d/%d)", desc.c_str(), cl->error(), sv->error(), S.tap.epoch[0], S.tap.epoch[1]);
		VF_CHECK(S.tap.epoch[0] == 1 + rounds && S.tap.epoch[1] == 1 + rounds, "%s: %d/%d key changes, expected %d", desc.c_str(), S.tap.epoch[0], S.tap.epoch[1], 1 + rounds);
		VF_CHECK(S.scripts_done() && cl->closed() && sv->closed(), "%s: did not finish (script items left %zu/%zu, closed %d/%d)", desc.c_str(), S.script[0].size(), S.script[1].size(), (int)cl->closed(), (int)sv->closed());
		for (int d = 0; d < 2; d++) VF_CHECK(S.recvd[d] == S.sent[d], "%s: %s wrote %zu bytes, peer read %zu", desc.c_str(), d ? "server" : "client", S.sent[d], S.recvd[d]);
		if (who == 0 || who == 3) VF_CHECK(S.reneg_result[bside] == 1, "%s: renegotiate() refused on an idle, secure-renegotiation connection", desc.c_str());
		// the BearSSL hello of every renegotiated handshake is bound to the previous Finished values
		for (int ep = 1; ep <= rounds; ep++) {
			Bytes fin[2], hello[2];
			for (int d = 0; d < 2; d++) {
				Bytes hs;
				for (auto &p : S.tap.plain[d]) if (p.epoch == ep && p.type == 22) hs.insert(hs.end(), p.data.begin(), p.data.end());
				size_t o = 0;
				while (o + 4 <= hs.size()) {
					size_t ml = ((size_t)hs[o + 1] << 16) | ((size_t)hs[o + 2] << 8) | hs[o + 3];
					if (o + 4 + ml > hs.size()) break;
					Bytes m(hs.begin() + o, hs.begin() + o + 4 + ml);
					if (hs[o] == 20 && fin[d].empty()) fin[d].assign(m.begin() + 4, m.end());
					if ((hs[o] == 1 || hs[o] == 2) && hello[d].empty()) hello[d] = m;
					o += 4 + ml;
				}
			}
			VF_CHECK(!hello[0].empty() && !hello[1].empty() && !fin[0].empty() && !fin[1].empty(), "%s: renegotiated handshake %d not found on the wire", desc.c_str(), ep);
			Bytes ri, want = fin[0];
			if (!bear_client) want.insert(want.end(), fin[1].begin(), fin[1].end());
			VF_CHECK(find_ri(hello[bside], ri), "%s: BearSSL's renegotiation hello carries no renegotiation_info", desc.c_str());
			VF_CHECK(ri == want, "%s: BearSSL's renegotiation hello is not bound to the previous Finished value(s): %s vs %s", desc.c_str(), hex(ri.data(), ri.size()).c_str(), hex(want.data(), want.size()).c_str());
			stats.cls("foreign-reneg:binding-checked");
		}
		unsigned cn[2] = { count_alerts(S, 0, 1, 0), count_alerts(S, 1, 1, 0) };
		VF_CHECK(cn[bside] == 1, "%s: %u close_notify alerts from the BearSSL side", desc.c_str(), cn[bside]);
	}
	stats.cls(fmt("foreign-reneg:%s/%s", bear_client ? "bear-client" : "bear-server", who == 0 ? "bear-asks" : who == 1 ? "peer-asks" : who == 2 ? "peer-asks-declined" : "both-in-turn"));
	stats.eval(fmt("freneg/%04x/%u/%d/%u/%d%d", si->id, cf.version, (int)bear_client, who, bp.layout, (int)bp.esp));
	if (stats.want_sample()) stats.sample(desc + fmt(" => key changes %d/%d, delivered %zu+%zu bytes", S.tap.epoch[0], S.tap.epoch[1], S.recvd[0], S.recvd[1]));
}

// Directed probe for listed finding F11: a renegotiation request reaches a
// side with BR_OPT_NO_RENEGOTIATION while that side still has a record to send.
static void probe_f11()
{
	Profile cp, sp;
	cp.suites = { 0x009C }; sp.suites = { 0x009C };
	cp.layout = sp.layout = L_SPLIT;
	sp.flags = BR_OPT_NO_RENEGOTIATION;
	BearClient c(cp);
	BearServer s(sp);
	VF_CHECK(c.reset() && s.reset(), "probe: reset");
	Session S(&c, &s);
	S.run(100000);
	VF_CHECK(S.established, "probe: handshake");
	Bytes d(100, 0x42);
	for (size_t i = 0; i < 100; i++) d[i] = stream_byte(S.stream_seed[1], i);
	S.sent[1] = 100;
	s.app_out(d.data(), 100);
	s.flush(false);                       // record assembled, not yet taken by the transport
	bool r = c.renegotiate();
	VF_CHECK(r, "probe: client renegotiate refused");
	// deliver the ClientHello to the server first, then let everything move
	const uint8_t *p;
	size_t n;
	while ((n = c.wire_out_peek(&p)) > 0) { Bytes cp2(p, p + n); c.wire_out_ack(n); S.forward(0, cp2.data(), n); }
	while (!S.transit[0].empty() && s.wire_in_room()) { size_t k = std::min(S.transit[0].size(), s.wire_in_room()); s.wire_in(S.transit[0].data(), k); S.transit[0].pop(k); }
	S.mitm = [&](int dir, const Record &rec, std::vector<Bytes> &out) { if (dir == 1 && rec.type == 23) return; out.push_back(rec.raw()); };   // keep the client alive: it refuses data now
	S.run(100000);
	S.tap.advance(1, true);
	unsigned warn = count_alerts(S, 1, 1, 100);
	if (warn == 0 && s.error() == 0) {
		std::string what = "renegotiation ClientHello reaches a server with BR_OPT_NO_RENEGOTIATION while a record of its own is still being sent: the no_renegotiation warning is never emitted (both sides wait)";
		if (known("reneg-declined-while-output-busy")) stats.known_finding("reneg-declined-while-output-busy", what);
		else failf("%s", what.c_str());
	}
}
// Report a reproduced, listed finding (KNOWN-FINDING) or fail (anything not listed is a violation).
static void finding(const char *key, const std::string &what)
{
	if (known(key)) stats.known_finding(key, what);
	else failf("%s", what.c_str());
}

// Probe: a renegotiation ClientHello WITHOUT renegotiation_info (and without the SCSV) sent to a
// server that negotiated secure renegotiation in the first handshake.  RFC 5746 3.7: the server
// MUST abort; the property says renegotiation is bound to the previous Finished values.
static void probe_reneg_without_binding()
{
	Profile cp, sp;
	cp.suites = { 0x009C }; sp.suites = { 0x009C };
	cp.vmin = cp.vmax = sp.vmin = sp.vmax = 0x0303;
	cp.layout = sp.layout = L_SPLIT;
	BearClient c(cp);
	BearServer s(sp);
	VF_CHECK(c.reset() && s.reset(), "probe: reset");
	Session S(&c, &s);
	S.run(100000);
	VF_CHECK(S.established && s.eng->reneg == 2, "probe: handshake");
	wt::RecCodec out;
	VF_CHECK(S.tap.live_codec(0, out), "probe: codec");
	for (int variant = 0; variant < 1; variant++) {
		ClientHelloSpec ch;
		ch.suites = { 0x009C };
		ch.add_sigalgs({ { 4, 1 } });
		Bytes m = ch.message();
		Bytes payload = out.encrypt(22, 0x0303, m.data(), m.size());
		Bytes wire = { 22, 3, 3, (uint8_t)(payload.size() >> 8), (uint8_t)payload.size() };
		wire.insert(wire.end(), payload.begin(), payload.end());
		size_t off = 0;
		Bytes answer;
		for (int g = 0; g < 1000; g++) {
			const uint8_t *p;
			size_t n;
			bool prog = false;
			if ((n = s.wire_out_peek(&p)) > 0) { answer.insert(answer.end(), p, p + n); s.wire_out_ack(n); prog = true; }
			size_t room = s.wire_in_room();
			if (room && off < wire.size()) { size_t k = std::min(room, wire.size() - off); s.wire_in(wire.data() + off, k); off += k; prog = true; }
			if (!prog || s.closed()) break;
		}
		// a correct server has failed by now; a ServerHello flight is more than a thousand bytes
		if (!s.closed() && s.error() == 0 && answer.size() > 500)
			finding("reneg-clienthello-without-reneg-info-accepted", "a server that negotiated secure renegotiation answers a renegotiation ClientHello carrying neither renegotiation_info nor the SCSV with a ServerHello flight (RFC 5746 3.7 requires an abort): the renegotiation is not bound to the previous Finished values");
		else VF_CHECK(s.closed() && s.error() != 0, "probe: renegotiation ClientHello without renegotiation_info: server neither failed nor answered (state %#x, %zu bytes)", s.state(), answer.size());
	}
}

// Probe: both applications ask for a renegotiation at the same moment (ClientHello and
// HelloRequest cross on the wire).
// Directed grid: the renegotiation binding is *verified*, half by half.  One of the four 12-byte halves of the
// stored Finished values (client's copy or server's copy, client_verify_data or server_verify_data) is changed by one
// bit before a renegotiation starts - the situation of an endpoint whose peer is not the one of the previous
// handshake.  Whoever receives the inconsistent renegotiation_info must abort with BR_ERR_BAD_SECRENEG, and no second
// key change may happen.  (A man in the middle cannot show this: altering the extension also breaks Finished.)
static void probe_reneg_binding_grid()
{
	static const Cfg PC[] = { { 0x009C, 0x0303 }, { 0x002F, 0x0301 }, { 0xCCA8, 0x0303 } };
	for (const Cfg &cf : PC)
	for (int holder = 0; holder < 2; holder++)         // whose copy is altered
	for (int half = 0; half < 2; half++)               // 0: client_verify_data, 1: server_verify_data
	for (int asker = 0; asker < 2; asker++)            // who asks for the renegotiation
	for (int where = 0; where < 3; where++) {          // first, middle, last byte of the half
		Profile cp, sp;
		cp.suites = { cf.suite }; sp.suites = { cf.suite };
		cp.vmin = cp.vmax = sp.vmin = sp.vmax = cf.version;
		cp.layout = sp.layout = (where & 1) ? L_SPLIT : L_MONO;
		BearClient c(cp);
		BearServer s(sp);
		VF_CHECK(c.reset() && s.reset(), "probe: reset");
		Session S(&c, &s);
		S.script[0].push_back(Item{ IT_WRITE, 10, true });
		S.script[1].push_back(Item{ IT_WRITE, 10, true });
		S.run(200000);
		VF_CHECK(S.established && S.recvd[0] == 10 && S.recvd[1] == 10, "probe: handshake");
		BearEndpoint *e[2] = { &c, &s };
		size_t pos = (size_t)half * 12 + (where == 0 ? 0 : where == 1 ? 5 : 11);
		e[holder]->eng->saved_finished[pos] ^= 0x10;
		bool r = e[asker]->renegotiate();
		VF_CHECK(r, "probe: renegotiate() refused on an idle connection");
		S.run(200000);
		std::string what = fmt("%s TLS%s: %s asks for a renegotiation while the %s's stored %s_verify_data differs in byte %zu from what the peer holds",
			wt::suite_by_id(cf.suite)->name, ver_name(cf.version), asker ? "server" : "client", holder ? "server" : "client", half ? "server" : "client", pos % 12);
		VF_CHECK(S.tap.epoch[0] <= 1 && S.tap.epoch[1] <= 1, "%s: the renegotiation completed (%d/%d key changes): it is not bound to the previous Finished values", what.c_str(), S.tap.epoch[0], S.tap.epoch[1]);
		// the ClientHello carries client_verify_data (checked by the server); the ServerHello carries both (checked by the client)
		int detector = half == 0 ? 1 : 0;
		if (half == 0 && holder == 0) detector = 1;    // client sends a wrong value: the server refuses
		if (half == 0 && holder == 1) detector = 1;    // server compares with its wrong copy: refuses
		if (half == 1) detector = 0;                   // wrong server half, in the extension or in the client's copy: the client refuses
		VF_CHECK(e[detector]->closed() && e[detector]->error() == BR_ERR_BAD_SECRENEG, "%s: the %s ends with error %d (closed=%d), expected BR_ERR_BAD_SECRENEG", what.c_str(), detector ? "server" : "client",
			e[detector]->error(), (int)e[detector]->closed());
		stats.cls("reneg-binding-grid");
		stats.eval(fmt("bind/%04x/%d%d%d%d", cf.suite, holder, half, asker, where));
	}
}

static void probe_simultaneous_reneg()
{
	for (int lay = 0; lay < 2; lay++) {
		Profile cp, sp;
		cp.suites = { 0xC02F }; sp.suites = { 0xC02F };
		cp.layout = sp.layout = lay ? L_MONO : L_SPLIT;
		BearClient c(cp);
		BearServer s(sp);
		VF_CHECK(c.reset() && s.reset(), "probe: reset");
		Session S(&c, &s);
		S.run(100000);
		VF_CHECK(S.established, "probe: handshake");
		bool rc = c.renegotiate(), rs = s.renegotiate();
		VF_CHECK(rc && rs, "probe: renegotiate() refused (%d/%d)", (int)rc, (int)rs);
		S.script[0].push_back(Item{ IT_WAIT_EPOCH, 2, true });
		S.script[0].push_back(Item{ IT_WRITE, 50, true });
		S.script[1].push_back(Item{ IT_WAIT_EPOCH, 2, true });
		S.script[1].push_back(Item{ IT_WRITE, 60, true });
		S.run(200000);
		if (s.error() == BR_ERR_BAD_FINISHED || c.error() == BR_ERR_BAD_FINISHED || !(S.recvd[0] == 50 && S.recvd[1] == 60))
			finding("simultaneous-renegotiation-bad-finished", fmt("renegotiation requested by both sides at once (ClientHello and HelloRequest cross): client error %d, server error %d, %zu/%zu bytes delivered afterwards - the client feeds the ignored HelloRequest into its handshake hash", c.error(), s.error(), S.recvd[0], S.recvd[1]));
		if (s.error() || c.error()) return;
	}
}

// Probe: after a local close(), a warning alert other than close_notify arrives, then application
// data that was in flight; the data must be discarded and the closure stay clean.
static void probe_warning_while_closing()
{
	Profile cp, sp;
	cp.suites = { 0x009C }; sp.suites = { 0x009C };
	cp.layout = sp.layout = L_SPLIT;
	BearClient c(cp);
	BearServer s(sp);
	VF_CHECK(c.reset() && s.reset(), "probe: reset");
	Session S(&c, &s);
	S.run(100000);
	VF_CHECK(S.established, "probe: handshake");
	wt::RecCodec out;
	VF_CHECK(S.tap.live_codec(1, out), "probe: codec");
	c.close();
	auto rec = [&](unsigned type, const Bytes &pt) { Bytes pl = out.encrypt((uint8_t)type, 0x0303, pt.data(), pt.size()); Bytes w = { (uint8_t)type, 3, 3, (uint8_t)(pl.size() >> 8), (uint8_t)pl.size() }; w.insert(w.end(), pl.begin(), pl.end()); return w; };
	Bytes wire = rec(21, Bytes{ 1, 90 });            // warning: user_canceled
	Bytes d = rec(23, Bytes(40, 0x61));
	wire.insert(wire.end(), d.begin(), d.end());
	Bytes cn = rec(21, Bytes{ 1, 0 });
	wire.insert(wire.end(), cn.begin(), cn.end());
	size_t off = 0;
	for (int g = 0; g < 1000; g++) {
		const uint8_t *p;
		size_t n;
		bool prog = false;
		if ((n = c.wire_out_peek(&p)) > 0) { c.wire_out_ack(n); prog = true; }
		while ((n = c.app_in_peek(&p)) > 0) { c.app_in_ack(n); prog = true; }
		size_t room = c.wire_in_room();
		if (room && off < wire.size()) { size_t k = std::min(room, wire.size() - off); c.wire_in(wire.data() + off, k); off += k; prog = true; }
		if (!prog || c.closed()) break;
	}
	if (c.error() != 0)
		finding("warning-alert-while-closing-ends-discard", fmt("after close(), a warning alert (not close_notify) followed by application data in flight ends the closure with error %d instead of discarding the data until the peer's close_notify", c.error()));
	else VF_CHECK(c.closed(), "probe: closure did not complete (state %#x)", c.state());
}

// Probe: a client that declines a HelloRequest while one of its own records is only partly sent;
// the server legitimately keeps sending application data.
static void probe_declined_hello_request_then_data()
{
	Profile cp, sp;
	cp.suites = { 0x009C }; sp.suites = { 0x009C };
	cp.layout = sp.layout = L_SPLIT;
	cp.flags = BR_OPT_NO_RENEGOTIATION;
	BearClient c(cp);
	BearServer s(sp);
	VF_CHECK(c.reset() && s.reset(), "probe: reset");
	Session S(&c, &s);
	S.run(100000);
	VF_CHECK(S.established, "probe: handshake");
	wt::RecCodec out;
	VF_CHECK(S.tap.live_codec(1, out), "probe: codec");
	// a record of the client's own is assembled and only partly taken by the transport
	Bytes mine(300, 0x55);
	c.app_out(mine.data(), mine.size());
	c.flush(false);
	{ const uint8_t *p; size_t n = c.wire_out_peek(&p); if (n > 10) c.wire_out_ack(10); }
	auto rec = [&](unsigned type, const Bytes &pt) { Bytes pl = out.encrypt((uint8_t)type, 0x0303, pt.data(), pt.size()); Bytes w = { (uint8_t)type, 3, 3, (uint8_t)(pl.size() >> 8), (uint8_t)pl.size() }; w.insert(w.end(), pl.begin(), pl.end()); return w; };
	Bytes wire = rec(22, Bytes{ 0, 0, 0, 0 });       // HelloRequest
	Bytes d = rec(23, Bytes(40, 0x62));
	wire.insert(wire.end(), d.begin(), d.end());
	size_t off = 0, got = 0;
	for (int g = 0; g < 1000; g++) {
		const uint8_t *p;
		size_t n;
		bool prog = false;
		size_t room = c.wire_in_room();
		if (room && off < wire.size()) { size_t k = std::min(room, wire.size() - off); c.wire_in(wire.data() + off, k); off += k; prog = true; }
		else if ((n = c.wire_out_peek(&p)) > 0) { c.wire_out_ack(n); prog = true; }   // the transport catches up only afterwards
		while ((n = c.app_in_peek(&p)) > 0) { got += n; c.app_in_ack(n); prog = true; }
		if (!prog || c.closed()) break;
	}
	if (c.error() != 0)
		finding("declined-hello-request-then-data", fmt("a client declining a HelloRequest while one of its own records is only partly sent treats the server's next application data record as unexpected (error %d) instead of delivering it", c.error()));
	else VF_CHECK(got == 40, "probe: %zu of 40 bytes delivered after the declined HelloRequest", got);
}
// Probe: application data that is already on its way when the other side starts a renegotiation
// (the requester cannot know; nothing is buffered locally, renegotiate() returns 1).  The property:
// renegotiation "at any point of the data stream ... in all cases the application byte streams in
// both directions remain intact and ordered".
static void probe_data_crossing_renegotiation()
{
	for (int who = 0; who < 2; who++) {      // who starts the renegotiation
		Profile cp, sp;
		cp.suites = { 0x009C }; sp.suites = { 0x009C };
		cp.layout = sp.layout = L_SPLIT;
		BearClient c(cp);
		BearServer s(sp);
		VF_CHECK(c.reset() && s.reset(), "probe: reset");
		Session S(&c, &s);
		S.run(100000);
		VF_CHECK(S.established, "probe: handshake");
		BearEndpoint *req = who ? (BearEndpoint *)&s : (BearEndpoint *)&c, *peer = who ? (BearEndpoint *)&c : (BearEndpoint *)&s;
		Bytes five = { 'h', 'e', 'l', 'l', 'o' };
		peer->app_out(five.data(), 5);
		peer->flush(false);
		const uint8_t *p;
		size_t n = peer->wire_out_peek(&p);
		VF_CHECK(n > 5, "probe: no record");
		Bytes inflight(p, p + n);
		peer->wire_out_ack(n);                       // the record has left the peer, the transport holds it
		bool r = req->renegotiate();
		VF_CHECK(r, "probe: renegotiate() refused");
		size_t off = 0, got = 0;
		for (int g = 0; g < 100 && off < inflight.size() && !req->closed(); g++) {
			size_t room = req->wire_in_room();
			if (!room) { size_t k = req->wire_out_peek(&p); if (k) req->wire_out_ack(k); else break; continue; }
			size_t k = std::min(room, inflight.size() - off);
			req->wire_in(inflight.data() + off, k);
			off += k;
		}
		while ((n = req->app_in_peek(&p)) > 0) { got += n; req->app_in_ack(n); }
		if (req->closed() && req->error() == BR_ERR_UNEXPECTED && got == 0)
			finding("data-crossing-renegotiation-request-refused", fmt("application data already in flight when the other side calls br_ssl_engine_renegotiate() (accepted: returns 1, nothing buffered locally): the requester "
				"clears application_data at once and fails with BR_ERR_UNEXPECTED when the record arrives; the 5 bytes are lost and no alert is sent (%s requested; the same happens to a client that receives "
				"a HelloRequest followed by data, as an OpenSSL server sends them)", who ? "server" : "client"));
		else VF_CHECK(got == 5 && !req->closed(), "probe: data crossing a renegotiation request: %zu of 5 bytes delivered, requester %s with error %d", got, req->closed() ? "closed" : "open", req->error());
	}
}
static bool probes_done = false;

void target_run(Tape &t)
{
	if (!probes_done) { probes_done = true; probe_f11(); probe_reneg_binding_grid(); probe_reneg_without_binding(); probe_simultaneous_reneg(); probe_warning_while_closing(); probe_declined_hello_request_then_data(); probe_data_crossing_renegotiation(); }
	unsigned m0 = t.u8();
	if (m0 >= 224) { mode_foreign_reneg(t); return; }
	unsigned m = m0 % 8;
	if (m < 2) mode_close(t);
	else if (m < 4) mode_cut(t);
	else if (m < 6) mode_alert(t);
	else mode_reneg(t);
}

// Enumerator: the alert grid - every level in {0,1,2,3,255} x every
// description 0..255 x {client, server} x {handshake, data phase} in two
// protection modes; and every (level, description) for the four malformed
// forms with a reduced description set.
void target_enum(int shard, int nshards)
{
	bool thorough = tier_thorough();
	uint64_t n = 0;
	static const unsigned levels[] = { 1, 2, 0, 3, 255, 128 };
	for (unsigned cfg = 0; cfg < (thorough ? 8u : 2u); cfg++)
	for (unsigned victim = 0; victim < 2; victim++)
	for (unsigned phase = 0; phase < 4; phase++)
	for (unsigned li = 0; li < 6; li++)
	for (unsigned descr = 0; descr < 256; descr++)
	for (unsigned form = 0; form < 8; form++) {
		if (form >= 1 && form <= 3) continue;
		if (form >= 4 && !(descr == 0 || descr == 1 || descr == 100 || descr == 40 || descr == 255)) continue;
		if (!thorough && phase == 3 && li > 1) continue;
		if ((n++ % (uint64_t)nshards) != (uint64_t)shard) continue;
		unsigned c = cfg == 0 ? 2 : cfg == 1 ? 0 : cfg;
		std::vector<uint8_t> tp = { 4, (uint8_t)c, (uint8_t)((descr + victim) % 9), 0, 0, 0, 0, 0, 0,
			(uint8_t)victim, (uint8_t)phase, (uint8_t)form, (uint8_t)levels[li], (uint8_t)descr, 0, 3, 2, (uint8_t)(descr % 5) };
		enum_tape(tp);
	}
}
