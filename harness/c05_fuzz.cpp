// C05 — untrusted input never causes out-of-bounds access, undefined
// behaviour or a hang.
//
// One target, twelve entry-point families selected by the first tape byte;
// the same decode is driven by rapidcheck, by libFuzzer (coverage guided)
// and by the boundary-length enumerator.  Inputs are (a) raw tape bytes,
// (b) a valid template (fixture / test-suite / generated certificate, key,
// PEM text, signature, recorded TLS flight) with structure-aware edits
// (DER tree edits that keep the enclosing lengths consistent, handshake
// message edits that keep record framing consistent) and byte edits, and
// (c) constructed inputs whose one length field sits at an internal limit.
//
// Oracle (inside the target):
//  * the library is built with ASan + UBSan; every context is a heap object
//    of its exact size; inputs are heap copies of their exact length;
//  * hook H2: at every T0 instruction the data and return stack pointers of
//    the interpreter lie inside their fixed-size stacks (an intra-object
//    overflow ASan cannot see), and the number of instructions per case is
//    bounded by a linear function of the input length (hang / blow-up);
//  * configuration fields of the context that no input may change are
//    unchanged afterwards (intra-object corruption tripwire);
//  * status consistency: an error or a result, never both; returned
//    pointers and lengths lie inside the context's buffers.
#include "common/tls_session.hpp"
#include "common/tls_hello.hpp"
#include "common/x509lab.hpp"
#include <dirent.h>
#include <map>
#include <functional>
#include <cstdarg>
#include <openssl/x509.h>
#include <openssl/pem.h>

using namespace vf;
using namespace tls;
namespace xl = x509lab;

const char *target_name = "c05_fuzz";
const int target_tape_min = 2, target_tape_max = 96;

// ------------------------------------------------------------- H2 hook
static uint64_t g_steps, g_limit = UINT64_MAX, g_max_steps_seen;
static int g_max_dp, g_max_rp;
static std::vector<uint64_t> g_cov[8];
static uint64_t g_cov_count;
static const char *g_what = "";

// coverage feedback for libFuzzer: the decoders and both handshake engines are bytecode run by one
// small C loop, so compiler edge coverage sees almost nothing of their control flow; the T0 program
// counter is fed into the extra-counters section instead
__attribute__((section("__libfuzzer_extra_counters"), used)) static uint8_t t0_counters[1 << 15];

static void fatal(const char *fmtstr, ...) __attribute__((noreturn));
static void fatal(const char *fmtstr, ...)
{
	va_list ap;
	va_start(ap, fmtstr);
	fprintf(stderr, "C05-FATAL (%s): ", g_what);
	vfprintf(stderr, fmtstr, ap);
	fprintf(stderr, "\n");
	va_end(ap);
	abort();   // the death callback saves the running tape
}

extern "C" void br_verif_t0_step(int id, void *t0ctx, const uint32_t *dp, const uint32_t *rp, size_t ipoff)
{
	const uint32_t *ds = (const uint32_t *)((const char *)t0ctx + 3 * sizeof(void *));
	size_t N = id == 3 ? 31 : 32;
	const uint32_t *rs = ds + N;
	if (dp < ds || dp > ds + N) fatal("T0 interpreter %d: data stack pointer at slot %ld of %zu (bytecode offset %zu)", id, (long)(dp - ds), N, ipoff);
	if (rp < rs || rp > rs + N) fatal("T0 interpreter %d: return stack pointer at slot %ld of %zu (bytecode offset %zu)", id, (long)(rp - rs), N, ipoff);
	if ((int)(dp - ds) > g_max_dp) g_max_dp = (int)(dp - ds);
	if ((int)(rp - rs) > g_max_rp) g_max_rp = (int)(rp - rs);
	if (++g_steps > g_limit) fatal("T0 interpreter %d: %llu instructions executed, bound for this input is %llu (unbounded work)", id, (unsigned long long)g_steps, (unsigned long long)g_limit);
	{ uint8_t &c = t0_counters[((size_t)id * 4099 + ipoff) & ((1 << 15) - 1)]; if (c != 255) c++; }
	if (id >= 1 && id <= 7 && ipoff < 65536) {
		std::vector<uint64_t> &bm = g_cov[id];
		if (bm.empty()) bm.assign(1024, 0);
		uint64_t bit = 1ULL << (ipoff & 63);
		if (!(bm[ipoff >> 6] & bit)) { bm[ipoff >> 6] |= bit; g_cov_count++; }
	}
}
static void begin_work(const char *what, uint64_t base, uint64_t per_byte, size_t len)
{
	g_what = what;
	g_steps = 0;
	g_limit = base + per_byte * (uint64_t)len;
}
static void end_work()
{
	if (g_steps > g_max_steps_seen) g_max_steps_seen = g_steps;
	g_limit = UINT64_MAX;
}

// ------------------------------------------------------------- inputs
static std::vector<Bytes> certs;           // DER certificates
static std::vector<std::vector<Bytes>> chains;
static std::vector<Bytes> skeys, pkeys, sigs_asn1, sigs_raw;
static std::vector<std::string> pems;
static xl::KeyPool pool;
static std::vector<br_x509_trust_anchor> lab_tas;
static std::vector<Bytes> lab_ta_store;

static std::string repo() { return env_str("VERIF_REPO", "/repo"); }
static Bytes slurp(const std::string &p) { Bytes b; FILE *f = fopen(p.c_str(), "rb"); if (!f) return b; uint8_t t[4096]; size_t r; while ((r = fread(t, 1, sizeof t, f)) > 0) b.insert(b.end(), t, t + r); fclose(f); return b; }

static xl::CertSpec base_spec(int subj_key, int signer, const std::string &cn, const std::string &issuer_cn, bool ca)
{
	xl::CertSpec s;
	s.issuer = xl::Name::simple(issuer_cn);
	s.subject = xl::Name::simple(cn);
	s.not_before = xl::Time{ 2010, 1, 1, 0, 0, 0 };
	s.not_after = xl::Time{ 2037, 12, 31, 23, 59, 59 };
	s.subject_key = subj_key;
	s.signer_key = signer;
	s.sig_hash = 4;
	if (ca) { s.exts.push_back(xl::ext_basic_constraints(true, -1)); s.exts.push_back(xl::ext_key_usage(0x60)); }
	else s.exts.push_back(xl::ext_san({ { 0x82, xl::B("localhost") }, { 0x82, xl::B("*.example.com") }, { 0x81, xl::B("a@b.c") }, { 0x87, Bytes{ 127, 0, 0, 1 } } }));
	return s;
}

void target_init()
{
	pool.init();
	auto cv = [](const br_x509_certificate &c) { return Bytes(c.data, c.data + c.data_len); };
	chains.push_back({ cv(FX_RSA_CHAIN[0]), cv(FX_RSA_CHAIN[1]) });
	chains.push_back({ cv(FX_EC_CHAIN[0]), cv(FX_EC_CHAIN[1]) });
	chains.push_back({ cv(FX_ECRSA_CHAIN[0]), cv(FX_ECRSA_CHAIN[1]) });
	for (auto &ch : chains) for (auto &c : ch) certs.push_back(c);
	std::string dir = repo() + "/test/x509";
	std::vector<std::string> names;
	if (DIR *d = opendir(dir.c_str())) {
		while (dirent *e = readdir(d)) { std::string n = e->d_name; if (n.size() > 4 && n.substr(n.size() - 4) == ".crt") names.push_back(n); }
		closedir(d);
	}
	std::sort(names.begin(), names.end());
	for (auto &n : names) { Bytes b = slurp(dir + "/" + n); if (!b.empty()) { certs.push_back(b); chains.push_back({ b }); } }
	{
		Bytes ee = slurp(dir + "/ee.crt"), i2 = slurp(dir + "/ica2.crt"), i1 = slurp(dir + "/ica1.crt");
		if (!ee.empty() && !i2.empty() && !i1.empty()) chains.push_back({ ee, i2, i1 });
	}
	// generated chains: leaf <- intermediate <- root over several key kinds,
	// with trust anchors for the roots (so that validation goes all the way)
	int kr2048 = pool.find("rsa2048"), kr1024 = pool.find("rsa1024"), kr4096 = pool.find("rsa4096"), kp256 = pool.find("p256#0"), kp384 = pool.find("p384#0"), kp521 = pool.find("p521#0");
	struct G { int leaf, ica, root; int hash; };
	for (G g : { G{ kr1024, kr2048, kr2048, 4 }, G{ kp256, kp384, kp521, 5 }, G{ kp256, kr2048, kp384, 2 }, G{ kr4096, kp521, kr4096, 6 }, G{ pool.find("p256#1"), pool.find("p256#2"), kp256, 3 } }) {
		xl::CertSpec root = base_spec(g.root, g.root, "Root " + std::to_string(lab_tas.size()), "Root " + std::to_string(lab_tas.size()), true);
		root.sig_hash = g.hash;
		xl::CertSpec ica = base_spec(g.ica, g.root, "ICA", "Root " + std::to_string(lab_tas.size()), true);
		ica.sig_hash = g.hash;
		ica.exts[0] = xl::ext_basic_constraints(true, 0);
		ica.exts.push_back(xl::Ext{ "2.5.29.32", 1, xl::der::seq({ xl::der::seq({ xl::der::oid("2.5.29.32.0"), xl::der::seq({ xl::der::seq({ xl::der::oid("1.3.6.1.5.5.7.2.1"), xl::der::tlv(0x16, xl::B("http://x/")) }) }) }) }) });
		xl::CertSpec leaf = base_spec(g.leaf, g.ica, "localhost", "ICA", false);
		leaf.sig_hash = g.hash;
		leaf.exts.push_back(xl::ext_key_usage(0xA1, 1));
		leaf.exts.push_back(xl::Ext{ "2.5.29.14", 0, xl::der::octets(Bytes(20, 7)) });
		leaf.exts.push_back(xl::Ext{ "1.3.6.1.5.5.7.1.1", 0, xl::der::seq({}) });
		leaf.subject.rdns.push_back({ xl::Attr{ xl::OID_O, xl::T_BMP, Bytes{ 0, 'A', 0x20, 0xAC } }, xl::Attr{ xl::OID_OU, xl::T_TELETEX, xl::B("t\xE9l") } });
		chains.push_back({ xl::build(leaf, pool).der, xl::build(ica, pool).der, xl::build(root, pool).der });
		for (auto &c : chains.back()) certs.push_back(c);
		// anchor for the root
		const xl::Key &rk = pool.at((size_t)g.root);
		br_x509_trust_anchor ta;
		memset(&ta, 0, sizeof ta);
		lab_ta_store.push_back(root.subject.encode());
		ta.dn.data = lab_ta_store.back().data(); ta.dn.len = lab_ta_store.back().size();
		ta.flags = BR_X509_TA_CA;
		if (rk.kind == xl::KK_RSA) {
			lab_ta_store.push_back(rk.n); ta.pkey.key_type = BR_KEYTYPE_RSA;
			ta.pkey.key.rsa.n = lab_ta_store.back().data(); ta.pkey.key.rsa.nlen = rk.n.size();
			lab_ta_store.push_back(rk.e);
			ta.pkey.key.rsa.e = lab_ta_store.back().data(); ta.pkey.key.rsa.elen = rk.e.size();
		} else {
			lab_ta_store.push_back(rk.q); ta.pkey.key_type = BR_KEYTYPE_EC; ta.pkey.key.ec.curve = rk.curve;
			ta.pkey.key.ec.q = lab_ta_store.back().data(); ta.pkey.key.ec.qlen = rk.q.size();
		}
		lab_tas.push_back(ta);
	}
	// (vector storage moved while growing: re-point the anchors)
	{
		size_t si = 0;
		for (auto &ta : lab_tas) {
			ta.dn.data = lab_ta_store[si].data(); si++;
			if (ta.pkey.key_type == BR_KEYTYPE_RSA) { ta.pkey.key.rsa.n = lab_ta_store[si++].data(); ta.pkey.key.rsa.e = lab_ta_store[si++].data(); }
			else ta.pkey.key.ec.q = lab_ta_store[si++].data();
		}
	}
	lab_tas.push_back(FX_TAS[0]);
	lab_tas.push_back(FX_TAS[1]);
	// private / public keys: OpenSSL encodings of pool keys
	for (size_t i = 0; i < pool.size(); i++) {
		const xl::Key &k = pool.at(i);
		if (k.kind == xl::KK_RSA && k.bits > 2100 && k.bits != 4096) continue;
		unsigned char *d = nullptr;
		int l = i2d_PrivateKey(k.pkey, &d);
		if (l > 0) skeys.push_back(Bytes(d, d + l));
		OPENSSL_free(d);
		PKCS8_PRIV_KEY_INFO *p8 = EVP_PKEY2PKCS8(k.pkey);
		d = nullptr;
		l = i2d_PKCS8_PRIV_KEY_INFO(p8, &d);
		if (l > 0) skeys.push_back(Bytes(d, d + l));
		OPENSSL_free(d);
		PKCS8_PRIV_KEY_INFO_free(p8);
		pkeys.push_back(xl::spki_of(k));
		if (k.kind == xl::KK_RSA) pkeys.push_back(xl::der::seq({ xl::der::integer(k.n), xl::der::integer(k.e) }));
		if (k.kind == xl::KK_EC) {
			Bytes s = xl::sign(k, 4, xl::B("message"));
			sigs_asn1.push_back(s);
			Bytes r(s);
			r.resize(s.size() * 2 + 16);
			size_t rl = br_ecdsa_asn1_to_raw(r.data(), s.size());
			r.resize(rl);
			sigs_raw.push_back(r);
		}
	}
	for (const char *f : { "cert-ee-rsa.pem", "key-ee-rsa.pem", "cert-ica-ec.pem", "key-ee-ec.pem", "cert-root-rsa.pem", "chain-ee-rsa+ec.pem", "key-ica-ec.pem" }) {
		Bytes b = slurp(repo() + "/samples/" + f);
		if (!b.empty()) pems.push_back(std::string(b.begin(), b.end()));
	}
	if (pems.empty()) pems.push_back("-----BEGIN X-----\nQUJDRA==\n-----END X-----\n");
	{
		std::string crlf;
		for (char c : pems[0]) { if (c == '\n') crlf += "\r\n"; else crlf += c; }
		pems.push_back(crlf);
		pems.push_back("junk line\n" + pems[pems.size() > 1 ? 1 : 0] + "\n\n-----BEGIN X-----\nQUJD*\n-----END X-----\n" + pems[0] + "trailing");
		pems.push_back("-----BEGIN B-----\r\nQQ==\r\n-----END B-----\r\n-----BEGIN C-----\nQUI=\n-----END C-----");
	}
	stats.notes["inputs"] = fmt("%zu certificates, %zu chains, %zu private-key encodings, %zu public-key encodings, %zu PEM texts, %zu ECDSA signatures", certs.size(), chains.size(), skeys.size(), pkeys.size(), pems.size(), sigs_asn1.size());
}

// ------------------------------------------------------------- mutation
static const size_t LENS[] = { 0, 1, 2, 31, 32, 33, 127, 128, 129, 133, 134, 254, 255, 256, 257, 260, 511, 512, 513, 519, 520, 521, 522, 1023, 1024, 1535, 1536, 1537, 1559, 1560, 1561, 1562, 2048, 4096, 16384, 65535, 65536, 70000 };
static size_t draw_len(Tape &t)
{
	unsigned s = t.u8();
	if (s < 200) { size_t v = LENS[s % (sizeof LENS / sizeof LENS[0])]; if (s & 64) v += t.u8() % 5; return v; }
	return t.u16() % 3000;
}

// generic byte-level edits
static void byte_edits(Tape &t, Bytes &b, std::string &md)
{
	unsigned n = t.u8() % 4;
	for (unsigned i = 0; i < n; i++) {
		unsigned k = t.u8() % 9;
		size_t pos = b.empty() ? 0 : t.u16() % b.size();
		switch (k) {
		case 0: if (!b.empty()) { b[pos] ^= (uint8_t)(1 + t.u8() % 255); md += fmt(" flip@%zu", pos); } break;
		case 1: if (!b.empty()) { b[pos] = t.pick<uint8_t>({ 0x00, 0x7F, 0x80, 0x81, 0x82, 0x83, 0x84, 0xFF, 0x30, 0x01 }); md += fmt(" set@%zu", pos); } break;
		case 2: if (!b.empty()) { b[pos] = (uint8_t)(b[pos] + (t.flag() ? 1 : 0xFF)); md += fmt(" inc@%zu", pos); } break;
		case 3: { size_t k2 = 1 + t.u8() % 40; Bytes ins(k2); t.fill(ins.data(), k2); b.insert(b.begin() + pos, ins.begin(), ins.end()); md += fmt(" ins%zu@%zu", k2, pos); break; }
		case 4: if (!b.empty()) { size_t k2 = std::min<size_t>(1 + t.u8() % 40, b.size() - pos); b.erase(b.begin() + pos, b.begin() + pos + k2); md += fmt(" del%zu@%zu", k2, pos); } break;
		case 5: b.resize(pos); md += fmt(" trunc@%zu", pos); break;
		case 6: if (!b.empty()) { size_t k2 = std::min<size_t>(1 + t.u8() % 64, b.size() - pos); Bytes d(b.begin() + pos, b.begin() + pos + k2); b.insert(b.begin() + pos, d.begin(), d.end()); md += fmt(" dup%zu@%zu", k2, pos); } break;
		case 7: { size_t k2 = t.u8() % 24; for (size_t j = 0; j < k2 && pos + j < b.size(); j++) b[pos + j] = t.u8(); md += fmt(" over%zu@%zu", k2, pos); break; }
		default: { size_t k2 = draw_len(t) % 5000; b.insert(b.end(), k2, (uint8_t)t.u8()); md += fmt(" app%zu", k2); break; }
		}
	}
}

// lenient DER tree
struct Node {
	unsigned tag = 0;
	Bytes content;               // primitive
	std::vector<Node> kids;      // constructed, or wrapped DER inside OCTET/BIT STRING
	bool constructed = false, wrapper = false;
	uint8_t bit_unused = 0;
	int len_style = 0;           // 0 minimal, 1..3 extra length bytes, 9 indefinite
	long len_delta = 0;          // lie about the length
};
static bool parse_nodes(const uint8_t *p, size_t n, std::vector<Node> &out, int depth);
static bool parse_one(const uint8_t *p, size_t n, size_t &used, Node &nd, int depth)
{
	if (n < 2 || depth > 24) return false;
	nd.tag = p[0];
	if ((p[0] & 0x1F) == 0x1F) return false;
	size_t hl = 2, len = p[1];
	if (len & 0x80) {
		size_t k = len & 0x7F;
		if (k == 0 || k > 3 || n < 2 + k) return false;
		len = 0;
		for (size_t i = 0; i < k; i++) len = (len << 8) | p[2 + i];
		hl = 2 + k;
	}
	if (len > n - hl) return false;
	used = hl + len;
	const uint8_t *c = p + hl;
	if (p[0] & 0x20) {
		nd.constructed = true;
		if (!parse_nodes(c, len, nd.kids, depth + 1)) { nd.constructed = false; nd.content.assign(c, c + len); }
	} else {
		nd.content.assign(c, c + len);
		// wrapped DER (extension values, keys in BIT STRING)
		if (nd.tag == 0x04 && len >= 2 && (c[0] == 0x30 || c[0] == 0x03 || c[0] == 0x02)) {
			std::vector<Node> k;
			if (parse_nodes(c, len, k, depth + 1) && !k.empty()) { nd.wrapper = true; nd.kids = k; }
		} else if (nd.tag == 0x03 && len >= 3 && c[1] == 0x30) {
			std::vector<Node> k;
			if (parse_nodes(c + 1, len - 1, k, depth + 1) && !k.empty()) { nd.wrapper = true; nd.kids = k; nd.bit_unused = c[0]; }
		}
	}
	return true;
}
static bool parse_nodes(const uint8_t *p, size_t n, std::vector<Node> &out, int depth)
{
	size_t off = 0;
	while (off < n) {
		Node nd;
		size_t used;
		if (!parse_one(p + off, n - off, used, nd, depth)) return false;
		out.push_back(std::move(nd));
		off += used;
		if (out.size() > 4000) return false;
	}
	return true;
}
static void emit_node(const Node &nd, Bytes &out)
{
	Bytes c;
	if (nd.constructed || nd.wrapper) {
		if (nd.wrapper && nd.tag == 0x03) c.push_back(nd.bit_unused);
		for (auto &k : nd.kids) emit_node(k, c);
	} else c = nd.content;
	out.push_back((uint8_t)nd.tag);
	size_t l = (size_t)((long)c.size() + nd.len_delta);
	if (nd.len_style == 9) out.push_back(0x80);
	else if (nd.len_style == 0) { Bytes lb = xl::der::len(l); out.insert(out.end(), lb.begin(), lb.end()); }
	else {
		int k = l > 0xFFFFFF ? 4 : l > 0xFFFF ? 3 : l > 0xFF ? 2 : 1;
		k += nd.len_style;
		if (k > 6) k = 6;
		out.push_back((uint8_t)(0x80 | k));
		for (int i = k - 1; i >= 0; i--) out.push_back(i >= 8 ? 0 : (uint8_t)((uint64_t)l >> (8 * i)));
	}
	out.insert(out.end(), c.begin(), c.end());
}
static void collect(Node &nd, std::vector<Node *> &v) { v.push_back(&nd); for (auto &k : nd.kids) collect(k, v); }

// structure-aware DER edit; returns false when the input is not DER
static bool der_edits(Tape &t, Bytes &b, std::string &md)
{
	std::vector<Node> top;
	if (!parse_nodes(b.data(), b.size(), top, 0) || top.empty()) return false;
	unsigned n = 1 + t.u8() % 3;
	for (unsigned i = 0; i < n; i++) {
		std::vector<Node *> all;
		for (auto &x : top) collect(x, all);
		Node *nd = all[t.u16() % all.size()];
		unsigned k = t.u8() % 12;
		switch (k) {
		case 0: case 1: {   // resize content
			size_t L = draw_len(t);
			if (L > 70000) L = 70000;
			uint8_t fillb = t.u8();
			nd->constructed = nd->wrapper = false; nd->kids.clear();
			Bytes old = nd->content;
			nd->content.assign(L, fillb);
			if (t.flag()) for (size_t j = 0; j < L && j < old.size(); j++) nd->content[j] = old[j];
			if (L && t.flag()) nd->content[0] |= 0x80;
			md += fmt(" der:resize(tag %02x -> %zu)", nd->tag, L);
			break;
		}
		case 2: nd->tag = t.pick<unsigned>({ 0x02, 0x03, 0x04, 0x05, 0x06, 0x0C, 0x13, 0x14, 0x16, 0x17, 0x18, 0x1E, 0x1C, 0x30, 0x31, 0xA0, 0xA3, 0x80, 0x82, 0x01, 0x00 }); md += fmt(" der:tag=%02x", nd->tag); break;
		case 3: nd->len_style = t.pick<int>({ 1, 2, 3, 9 }); md += " der:lenstyle"; break;
		case 4: nd->len_delta = t.pick<long>({ -1, 1, -2, 2, 100, -100, 65536 }); md += fmt(" der:lendelta%ld", nd->len_delta); break;
		case 5: if (!nd->kids.empty()) { size_t j = t.u8() % nd->kids.size(); nd->kids.erase(nd->kids.begin() + j); md += " der:dropkid"; } break;
		case 6: if (!nd->kids.empty() && nd->kids.size() < 200) { size_t j = t.u8() % nd->kids.size(); Node c = nd->kids[j]; unsigned reps = 1 + t.u8() % 40; for (unsigned r = 0; r < reps; r++) nd->kids.insert(nd->kids.begin() + j, c); md += fmt(" der:dupkid x%u", reps); } break;
		case 7: if (nd->kids.size() >= 2) { size_t j = t.u8() % (nd->kids.size() - 1); std::swap(nd->kids[j], nd->kids[j + 1]); md += " der:swapkids"; } break;
		case 8: if (!nd->content.empty()) { size_t p = t.u16() % nd->content.size(); nd->content[p] ^= (uint8_t)(1 + t.u8() % 255); md += " der:flipcontent"; } break;
		case 9: {   // deep nesting
			unsigned depth = 1 + t.u8() % 60;
			Node inner = *nd;
			for (unsigned d = 0; d < depth; d++) { Node w; w.tag = 0x30; w.constructed = true; w.kids.push_back(inner); inner = w; }
			*nd = inner;
			md += fmt(" der:nest%u", depth);
			break;
		}
		case 10: { size_t L = t.u8() % 20; nd->constructed = nd->wrapper = false; nd->kids.clear(); nd->content.resize(L); t.bytes(nd->content.data(), L); md += " der:tapecontent"; break; }
		default: if (nd->wrapper && nd->tag == 0x03) { nd->bit_unused = t.u8(); md += " der:unusedbits"; } else if (!nd->content.empty()) { nd->content.insert(nd->content.begin(), (size_t)(1 + t.u8() % 3), (uint8_t)(t.flag() ? 0x00 : 0xFF)); md += " der:pad"; } break;
		}
	}
	Bytes out;
	for (auto &x : top) emit_node(x, out);
	if (out.size() > 200000) out.resize(200000);
	b = out;
	return true;
}

// chunking of [0,n): list of chunk lengths
static std::vector<size_t> draw_parts(Tape &t, size_t n)
{
	std::vector<size_t> p;
	unsigned mode = t.u8() % 5;
	if (mode == 0 || n == 0) { p.push_back(n); return p; }
	if (mode == 1 && n <= 6000) { p.assign(n, 1); return p; }
	if (mode == 2) { size_t c = (size_t)t.u16() % (n + 1); p.push_back(c); p.push_back(n - c); return p; }
	size_t done = 0;
	while (done < n) {
		unsigned r = t.u8();
		size_t k = mode == 3 ? 1 + r % 64 : (r < 128 ? 1 + r % 3 : 50 + (size_t)r * 5);
		if (t.exhausted()) k = std::max<size_t>(k, (n - done + 31) / 32);
		if (k > n - done) k = n - done;
		p.push_back(k);
		done += k;
	}
	return p;
}

// pick an input: raw tape bytes, template + edits
static Bytes draw_input(Tape &t, const std::vector<Bytes> &tpl, bool is_der, std::string &desc)
{
	unsigned mode = t.u8() % 8;
	if (mode == 0 || tpl.empty()) {
		size_t n = t.remaining() > 2 ? t.remaining() - 2 : 0;
		Bytes b(n);
		t.bytes(b.data(), n);
		desc = fmt("raw %zu bytes", n);
		return b;
	}
	size_t ti = t.u16() % tpl.size();
	Bytes b = tpl[ti];
	desc = fmt("template #%zu (%zu bytes)", ti, b.size());
	if (mode == 1) return b;
	std::string md;
	if (is_der && mode >= 4) { if (!der_edits(t, b, md)) byte_edits(t, b, md); }
	else byte_edits(t, b, md);
	if (mode == 7) byte_edits(t, b, md);
	desc += md;
	return b;
}
// exact-size heap copy (so ASan sees one byte past the input)
struct Exact {
	uint8_t *p;
	size_t n;
	explicit Exact(const Bytes &b) : p((uint8_t *)malloc(b.size() ? b.size() : 1)), n(b.size()) { if (n) memcpy(p, b.data(), n); }
	~Exact() { free(p); }
	Exact(const Exact &) = delete;
};
template <typename T> struct HeapCtx {
	T *c;
	HeapCtx() : c((T *)malloc(sizeof(T))) { memset((void *)c, 0xA5, sizeof(T)); }
	~HeapCtx() { free(c); }
	T *operator->() { return c; }
};
static bool inside(const void *p, size_t len, const void *base, size_t blen)
{
	return (const uint8_t *)p >= (const uint8_t *)base && len <= blen && (const uint8_t *)p + len <= (const uint8_t *)base + blen;
}

static void account(const char *fam, const std::string &status, bool nontrivial, const std::string &desc)
{
	stats.cls(std::string(fam) + "/" + status);
	stats.eval(nontrivial ? std::string(fam) + "/" + status + "/" + desc : std::string());
	if (stats.want_sample()) stats.sample(std::string(fam) + ": " + desc + " -> " + status);
}

// ------------------------------------------------------------- family 0: x509_minimal
static const br_x509_trust_anchor *dyn_anchor_cb(void *ctx, void *hashed_dn, size_t len)
{
	// the port's on-demand lookup: answer with a heap copy of one lab anchor whose hashed DN matches
	br_x509_minimal_context *xc = (br_x509_minimal_context *)ctx;
	(void)xc;
	for (auto &ta : lab_tas) {
		br_sha256_context sc;
		uint8_t h[32];
		br_sha256_init(&sc);
		br_sha256_update(&sc, ta.dn.data, ta.dn.len);
		br_sha256_out(&sc, h);
		if (len == 32 && memcmp(h, hashed_dn, 32) == 0) {
			br_x509_trust_anchor *c = (br_x509_trust_anchor *)malloc(sizeof *c);
			*c = ta;
			uint8_t *hd = (uint8_t *)malloc(32);
			memcpy(hd, h, 32);
			c->dn.data = hd; c->dn.len = 32;
			return c;
		}
	}
	return nullptr;
}
static void dyn_anchor_free(void *, const br_x509_trust_anchor *ta)
{
	free((void *)ta->dn.data);
	free((void *)ta);
}

static void run_minimal(Tape &t, const std::vector<Bytes> &chain, const std::string &desc)
{
	HeapCtx<br_x509_minimal_context> xc;
	unsigned cfg = t.u8();
	bool dynamic = (cfg & 1) != 0;
	br_x509_minimal_init_full(xc.c, dynamic ? nullptr : lab_tas.data(), dynamic ? 0 : lab_tas.size());
	if (dynamic) br_x509_minimal_set_dynamic(xc.c, xc.c, dyn_anchor_cb, dyn_anchor_free);
	if (cfg & 2) br_x509_minimal_set_time(xc.c, VALID_DAYS, VALID_SECS);
	if (cfg & 4) { br_x509_minimal_set_rsa(xc.c, &br_rsa_i15_pkcs1_vrfy); br_x509_minimal_set_ecdsa(xc.c, &br_ec_all_m15, &br_ecdsa_i15_vrfy_asn1); }
	// name elements with small buffers
	static const unsigned char OID_CN_[] = { 3, 0x55, 0x04, 0x03 }, OID_O_[] = { 3, 0x55, 0x04, 0x0A }, OID_DNS[] = { 0, 2 }, OID_MAIL[] = { 0, 1 }, OID_OU_[] = { 3, 0x55, 0x04, 0x0B };
	unsigned ne = (cfg >> 3) % 5;
	std::vector<br_name_element> elts(ne);
	std::vector<std::unique_ptr<char[]>> ebufs;
	static const size_t ESZ[] = { 1, 2, 5, 16, 64, 256, 300 };
	for (unsigned i = 0; i < ne; i++) {
		const unsigned char *oids[] = { OID_CN_, OID_DNS, OID_O_, OID_MAIL, OID_OU_ };
		// (exact-size heap buffers: half of them of every small size, so that values exactly as long as the buffer,
		// one shorter and one longer all occur for the names of the corpus)
		unsigned zs = t.u8();
		size_t sz = (zs & 1) ? 1 + (zs >> 1) % 40 : ESZ[(zs >> 1) % 7];
		ebufs.emplace_back(new char[sz]);
		memset(ebufs.back().get(), 'x', sz);
		elts[i].oid = oids[(i + (cfg >> 6)) % 5];
		elts[i].buf = ebufs.back().get();
		elts[i].len = sz;
		elts[i].status = 0;
	}
	if (ne) br_x509_minimal_set_name_elements(xc.c, elts.data(), ne);
	static const char *NAMES[] = { "localhost", nullptr, "www.example.com", "", "a.b.c.d.e.f.g.h.i.j.k.l.m.n.o.p.q.r.s.t.u.v.w.x.y.z.example.com", "LOCALHOST", "*" };
	const char *sn = NAMES[t.u8() % 7];
	// tripwire: configuration fields
	const void *cfg0[] = { xc->vtable, xc->dn_hash_impl, xc->trust_anchors, (const void *)xc->irsa, (const void *)xc->iecdsa, xc->iec, xc->name_elts };
	size_t total = 0;
	for (auto &c : chain) total += c.size();
	begin_work("x509_minimal", 200000, 600, total + 64 * chain.size());
	const br_x509_class **v = &xc->vtable;
	(*v)->start_chain(v, sn);
	for (auto &c : chain) {
		Exact in(c);
		(*v)->start_cert(v, (uint32_t)in.n);
		size_t off = 0;
		for (size_t k : draw_parts(t, in.n)) { if (k) (*v)->append(v, in.p + off, k); off += k; }
		(*v)->end_cert(v);
	}
	unsigned r = (*v)->end_chain(v);
	end_work();
	unsigned usages = 0xFFFF;
	const br_x509_pkey *pk = (*v)->get_pkey(v, &usages);
	const void *cfg1[] = { xc->vtable, xc->dn_hash_impl, xc->trust_anchors, (const void *)xc->irsa, (const void *)xc->iecdsa, xc->iec, xc->name_elts };
	VF_CHECK(memcmp(cfg0, cfg1, sizeof cfg0) == 0, "x509_minimal (%s): a configuration pointer of the context changed while validating (intra-object overwrite)", desc.c_str());
	if (chain.empty()) VF_CHECK(r == BR_ERR_X509_EMPTY_CHAIN, "x509_minimal: empty chain gives %u", r);
	// end_chain: 0 on success, else an error code
	if (r == 0) VF_CHECK(pk != nullptr, "x509_minimal (%s): validation succeeded but get_pkey() returns no key", desc.c_str());
	if (pk != nullptr) {
		VF_CHECK(r == 0 || r == BR_ERR_X509_NOT_TRUSTED, "x509_minimal (%s): error %u and a public key are both reported", desc.c_str(), r);
		VF_CHECK(pk->key_type == BR_KEYTYPE_RSA || pk->key_type == BR_KEYTYPE_EC, "x509_minimal (%s): key type %u", desc.c_str(), pk->key_type);
		if (pk->key_type == BR_KEYTYPE_RSA) {
			VF_CHECK(inside(pk->key.rsa.n, pk->key.rsa.nlen, xc.c, sizeof *xc.c) && inside(pk->key.rsa.e, pk->key.rsa.elen, xc.c, sizeof *xc.c),
				"x509_minimal (%s): returned RSA key (n %zu bytes, e %zu bytes) does not lie inside the context", desc.c_str(), pk->key.rsa.nlen, pk->key.rsa.elen);
			VF_CHECK(pk->key.rsa.nlen + pk->key.rsa.elen <= BR_X509_BUFSIZE_KEY, "x509_minimal (%s): RSA key of %zu+%zu bytes exceeds the key buffer", desc.c_str(), pk->key.rsa.nlen, pk->key.rsa.elen);
		} else {
			VF_CHECK(inside(pk->key.ec.q, pk->key.ec.qlen, xc.c, sizeof *xc.c) && pk->key.ec.qlen <= BR_X509_BUFSIZE_KEY, "x509_minimal (%s): returned EC point (%zu bytes) does not lie inside the context", desc.c_str(), pk->key.ec.qlen);
		}
		VF_CHECK((usages & ~(unsigned)(BR_KEYTYPE_KEYX | BR_KEYTYPE_SIGN)) == 0, "x509_minimal (%s): usages %#x", desc.c_str(), usages);
	}
	for (unsigned i = 0; i < ne; i++) {
		VF_CHECK(elts[i].status == 0 || elts[i].status == 1 || elts[i].status == -1, "x509_minimal (%s): name element status %d", desc.c_str(), elts[i].status);
		VF_CHECK(memchr(elts[i].buf, 0, elts[i].len) != nullptr, "x509_minimal (%s): name element buffer of %zu bytes is not NUL-terminated (status %d)", desc.c_str(), elts[i].len, elts[i].status);
	}
	account("x509_minimal", r == 0 ? "ok" : fmt("err%u", r), r == 0 || r >= BR_ERR_X509_UNSUPPORTED || g_steps > 400, desc + fmt(" [%zu certs, %s anchors]", chain.size(), dynamic ? "dynamic" : "static"));
}
static void fam_minimal(Tape &t)
{
	unsigned mode = t.u8() % 4;
	std::vector<Bytes> chain;
	std::string desc;
	if (mode == 0) {
		// chain template with one certificate edited
		size_t ci = t.u16() % chains.size();
		chain = chains[ci];
		desc = fmt("chain #%zu", ci);
		if (!chain.empty()) {
			size_t k = t.u8() % chain.size();
			std::string md;
			if (t.flag()) { if (!der_edits(t, chain[k], md)) byte_edits(t, chain[k], md); } else byte_edits(t, chain[k], md);
			desc += fmt(" cert %zu:", k) + md;
		}
		unsigned op = t.u8() % 8;
		if (op == 1 && chain.size() > 1) { chain.pop_back(); desc += " -last"; }
		else if (op == 2 && !chain.empty()) { chain.push_back(chain[0]); desc += " +dup"; }
		else if (op == 3 && chain.size() > 1) { std::swap(chain[0], chain[1]); desc += " swap"; }
		else if (op == 4) { chain.push_back(Bytes()); desc += " +empty"; }
		else if (op == 5) { chain.clear(); desc += " cleared"; }
	} else {
		unsigned n = 1 + t.u8() % 3;
		for (unsigned i = 0; i < n; i++) { std::string d; chain.push_back(draw_input(t, certs, true, d)); desc += "[" + d + "]"; }
	}
	run_minimal(t, chain, desc);
}

// ------------------------------------------------------------- family 1: x509_decoder
static size_t g_dn_bytes;
static void dn_cb(void *ctx, const void *buf, size_t len)
{
	(void)ctx;
	const volatile uint8_t *p = (const volatile uint8_t *)buf;
	uint8_t acc = 0;
	for (size_t i = 0; i < len; i++) acc ^= p[i];
	g_dn_bytes += len + (acc & 0);
}
static void fam_decoder(Tape &t)
{
	std::string desc;
	Bytes b = draw_input(t, certs, true, desc);
	Exact in(b);
	HeapCtx<br_x509_decoder_context> dc;
	bool want_dn = t.flag();
	g_dn_bytes = 0;
	br_x509_decoder_init(dc.c, want_dn ? dn_cb : nullptr, nullptr, t.flag() ? dn_cb : nullptr, nullptr);
	begin_work("x509_decoder", 100000, 400, in.n);
	size_t off = 0;
	for (size_t k : draw_parts(t, in.n)) { br_x509_decoder_push(dc.c, in.p + off, k); off += k; }
	end_work();
	int err = br_x509_decoder_last_error(dc.c);
	br_x509_pkey *pk = br_x509_decoder_get_pkey(dc.c);
	VF_CHECK((err == 0) == (pk != nullptr), "x509_decoder (%s): last_error %d but get_pkey() %s", desc.c_str(), err, pk ? "returns a key" : "returns no key");
	VF_CHECK(g_dn_bytes <= 2 * in.n, "x509_decoder (%s): DN callback received %zu bytes from a %zu-byte certificate", desc.c_str(), g_dn_bytes, in.n);
	if (pk) {
		if (pk->key_type == BR_KEYTYPE_RSA) VF_CHECK(inside(pk->key.rsa.n, pk->key.rsa.nlen, dc->pkey_data, sizeof dc->pkey_data) && inside(pk->key.rsa.e, pk->key.rsa.elen, dc->pkey_data, sizeof dc->pkey_data), "x509_decoder (%s): RSA key outside pkey_data", desc.c_str());
		else if (pk->key_type == BR_KEYTYPE_EC) VF_CHECK(inside(pk->key.ec.q, pk->key.ec.qlen, dc->pkey_data, sizeof dc->pkey_data), "x509_decoder (%s): EC point outside pkey_data", desc.c_str());
		else VF_CHECK(false, "x509_decoder (%s): key type %u", desc.c_str(), pk->key_type);
		int ca = br_x509_decoder_isCA(dc.c);
		VF_CHECK(ca == 0 || ca == 1, "x509_decoder: isCA %d", ca);
		int skt = br_x509_decoder_get_signer_key_type(dc.c);
		VF_CHECK(skt == 0 || skt == BR_KEYTYPE_RSA || skt == BR_KEYTYPE_EC, "x509_decoder (%s): decoded, signer key type %d", desc.c_str(), skt);
	}
	account("x509_decoder", err == 0 ? "ok" : fmt("err%d", err), g_steps > 300, desc);
}

// ------------------------------------------------------------- families 2, 3: key decoders
static void fam_skey(Tape &t)
{
	std::string desc;
	Bytes b = draw_input(t, skeys, true, desc);
	Exact in(b);
	HeapCtx<br_skey_decoder_context> kc;
	br_skey_decoder_init(kc.c);
	begin_work("skey_decoder", 100000, 400, in.n);
	size_t off = 0;
	for (size_t k : draw_parts(t, in.n)) { br_skey_decoder_push(kc.c, in.p + off, k); off += k; }
	end_work();
	int err = br_skey_decoder_last_error(kc.c);
	int kt = br_skey_decoder_key_type(kc.c);
	const br_rsa_private_key *rk = br_skey_decoder_get_rsa(kc.c);
	const br_ec_private_key *ek = br_skey_decoder_get_ec(kc.c);
	VF_CHECK((err == 0) == (kt != 0), "skey_decoder (%s): last_error %d with key type %d", desc.c_str(), err, kt);
	VF_CHECK((kt == BR_KEYTYPE_RSA) == (rk != nullptr) && (kt == BR_KEYTYPE_EC) == (ek != nullptr) && (kt == 0 || kt == BR_KEYTYPE_RSA || kt == BR_KEYTYPE_EC),
		"skey_decoder (%s): key type %d, rsa %p, ec %p", desc.c_str(), kt, (const void *)rk, (const void *)ek);
	if (rk) {
		const unsigned char *ps[] = { rk->p, rk->q, rk->dp, rk->dq, rk->iq };
		size_t ls[] = { rk->plen, rk->qlen, rk->dplen, rk->dqlen, rk->iqlen };
		for (int i = 0; i < 5; i++) VF_CHECK(inside(ps[i], ls[i], kc->key_data, sizeof kc->key_data), "skey_decoder (%s): RSA component %d (%zu bytes) outside key_data", desc.c_str(), i, ls[i]);
	}
	if (ek) VF_CHECK(inside(ek->x, ek->xlen, kc->key_data, sizeof kc->key_data) && ek->curve > 0, "skey_decoder (%s): EC scalar (%zu bytes, curve %d) outside key_data", desc.c_str(), ek->xlen, ek->curve);
	account("skey_decoder", err == 0 ? "ok" : fmt("err%d", err), g_steps > 200, desc);
}
static void fam_pkey(Tape &t)
{
	std::string desc;
	Bytes b = draw_input(t, pkeys, true, desc);
	Exact in(b);
	HeapCtx<br_pkey_decoder_context> kc;
	br_pkey_decoder_init(kc.c);
	begin_work("pkey_decoder", 100000, 400, in.n);
	size_t off = 0;
	for (size_t k : draw_parts(t, in.n)) { br_pkey_decoder_push(kc.c, in.p + off, k); off += k; }
	end_work();
	int err = br_pkey_decoder_last_error(kc.c);
	int kt = br_pkey_decoder_key_type(kc.c);
	const br_rsa_public_key *rk = br_pkey_decoder_get_rsa(kc.c);
	const br_ec_public_key *ek = br_pkey_decoder_get_ec(kc.c);
	VF_CHECK((err == 0) == (kt != 0), "pkey_decoder (%s): last_error %d with key type %d", desc.c_str(), err, kt);
	VF_CHECK((kt == BR_KEYTYPE_RSA) == (rk != nullptr) && (kt == BR_KEYTYPE_EC) == (ek != nullptr) && (kt == 0 || kt == BR_KEYTYPE_RSA || kt == BR_KEYTYPE_EC),
		"pkey_decoder (%s): key type %d, rsa %p, ec %p", desc.c_str(), kt, (const void *)rk, (const void *)ek);
	if (rk) VF_CHECK(inside(rk->n, rk->nlen, kc->key_data, sizeof kc->key_data) && inside(rk->e, rk->elen, kc->key_data, sizeof kc->key_data), "pkey_decoder (%s): RSA key (n %zu, e %zu bytes) outside key_data", desc.c_str(), rk->nlen, rk->elen);
	if (ek) VF_CHECK(inside(ek->q, ek->qlen, kc->key_data, sizeof kc->key_data), "pkey_decoder (%s): EC point (%zu bytes) outside key_data", desc.c_str(), ek->qlen);
	account("pkey_decoder", err == 0 ? "ok" : fmt("err%d", err), g_steps > 200, desc);
}

// ------------------------------------------------------------- family 4: PEM decoder
struct PemSink { size_t total = 0; size_t maxchunk = 0; };
static void pem_dest(void *ctx, const void *src, size_t len)
{
	PemSink *s = (PemSink *)ctx;
	const volatile uint8_t *p = (const volatile uint8_t *)src;
	uint8_t acc = 0;
	for (size_t i = 0; i < len; i++) acc ^= p[i];
	s->total += len + (acc & 0);
	if (len > s->maxchunk) s->maxchunk = len;
}
static void fam_pem(Tape &t)
{
	std::string desc;
	std::vector<Bytes> tpl;
	for (auto &s : pems) tpl.push_back(Bytes(s.begin(), s.end()));
	Bytes b;
	unsigned m = t.u8() % 4;
	if (m == 0) {
		// generated: banner of a drawn length, lines of drawn lengths
		size_t bl = draw_len(t) % 400, ll = draw_len(t) % 20000;
		std::string s = "-----BEGIN " + std::string(bl, 'A') + "-----\n" + std::string(ll, 'Q') + (t.flag() ? "\n" : "") + "QUJD\n-----END " + std::string(bl, 'A') + "-----\n";
		b.assign(s.begin(), s.end());
		desc = fmt("generated banner %zu, line %zu", bl, ll);
	} else b = draw_input(t, tpl, false, desc);
	Exact in(b);
	HeapCtx<br_pem_decoder_context> pc;
	br_pem_decoder_init(pc.c);
	PemSink sink;
	bool with_dest = t.flag();
	begin_work("pem_decoder", 50000, 300, in.n);
	size_t off = 0, nev = 0, nobj = 0, nerr = 0;
	bool in_obj = false;
	for (size_t k : draw_parts(t, in.n)) {
		size_t done = 0;
		unsigned stall = 0;
		while (done < k) {
			size_t c = br_pem_decoder_push(pc.c, in.p + off + done, k - done);
			VF_CHECK(c <= k - done, "pem_decoder (%s): push consumed %zu of %zu bytes", desc.c_str(), c, k - done);
			done += c;
			int ev = br_pem_decoder_event(pc.c);
			VF_CHECK(ev >= 0 && ev <= 3, "pem_decoder (%s): event %d", desc.c_str(), ev);
			if (ev == BR_PEM_BEGIN_OBJ) {
				const char *nm = br_pem_decoder_name(pc.c);
				VF_CHECK(memchr(nm, 0, sizeof pc->name) != nullptr, "pem_decoder (%s): object name is not NUL-terminated", desc.c_str());
				VF_CHECK(!in_obj, "pem_decoder (%s): BEGIN inside an object", desc.c_str());
				in_obj = true;
				nobj++;
				br_pem_decoder_setdest(pc.c, with_dest ? pem_dest : nullptr, &sink);
			} else if (ev == BR_PEM_END_OBJ || ev == BR_PEM_ERROR) {
				VF_CHECK(in_obj, "pem_decoder (%s): event %d outside an object", desc.c_str(), ev);
				in_obj = false;
				if (ev == BR_PEM_ERROR) nerr++;
			}
			if (ev) nev++;
			if (c == 0 && ev == 0) { VF_CHECK(++stall < 3, "pem_decoder (%s): push consumes nothing and no event is pending (caller would spin forever)", desc.c_str()); } else stall = 0;
		}
		off += k;
	}
	end_work();
	VF_CHECK(sink.total <= in.n, "pem_decoder (%s): %zu decoded bytes from %zu input bytes", desc.c_str(), sink.total, in.n);
	VF_CHECK(sink.maxchunk <= sizeof pc->buf, "pem_decoder (%s): data callback got %zu bytes at once", desc.c_str(), sink.maxchunk);
	account("pem_decoder", fmt("obj%zu%s", nobj > 3 ? 3 : nobj, nerr ? "+err" : ""), nobj > 0, desc);
}

// ------------------------------------------------------------- family 5: ECDSA converters and verifiers
static void fam_ecdsa(Tape &t)
{
	unsigned op = t.u8() % 6;
	std::string desc;
	if (op == 0) {
		Bytes s = draw_input(t, sigs_asn1, true, desc);
		if (s.size() > 4000) s.resize(4000);
		// conversion is in place and may enlarge: "less than twice the source length"
		size_t cap = s.size() * 2 + 1;
		uint8_t *buf = (uint8_t *)malloc(cap);
		if (!s.empty()) memcpy(buf, s.data(), s.size());
		memset(buf + s.size(), 0xEE, cap - s.size());
		size_t r = br_ecdsa_asn1_to_raw(buf, s.size());
		bool bad = !(r == 0 || (r % 2 == 0 && r <= 254 && (s.size() == 0 || r < 2 * s.size())));
		free(buf);
		VF_CHECK(!bad, "ecdsa_asn1_to_raw (%s): returned length %zu for a %zu-byte source (documented: 0 on error, else even and < twice the source)", desc.c_str(), r, s.size());
		account("ecdsa_atr", r ? "conv" : "rej", r != 0 || s.size() > 8, desc);
	} else if (op == 1) {
		Bytes s = draw_input(t, sigs_raw, false, desc);
		if (s.size() > 4000) s.resize(4000);
		size_t cap = s.size() + 9 + 1;
		uint8_t *buf = (uint8_t *)malloc(cap);
		if (!s.empty()) memcpy(buf, s.data(), s.size());
		size_t r = br_ecdsa_raw_to_asn1(buf, s.size());
		bool bad = r > s.size() + 9;
		free(buf);
		VF_CHECK(!bad, "ecdsa_raw_to_asn1 (%s): returned length %zu for a %zu-byte source (documented: at most 9 more)", desc.c_str(), r, s.size());
		account("ecdsa_rta", r ? "conv" : "rej", true, desc);
	} else {
		bool asn1 = (op & 1) != 0;
		bool i15 = t.flag();
		Bytes s = draw_input(t, asn1 ? sigs_asn1 : sigs_raw, asn1, desc);
		if (s.size() > 2000) s.resize(2000);
		Exact sig(s);
		// attacker-chosen key: curve id 0..31, point bytes of any length
		br_ec_public_key pk;
		size_t ki = t.u8() % pool.ec.size();
		const xl::Key &k = pool.at(pool.ec[ki]);
		Bytes q = k.q;
		pk.curve = k.curve;
		unsigned km = t.u8() % 8;
		if (km == 1) pk.curve = (int)(t.u8() % 32);
		else if (km == 2) { q.resize(draw_len(t) % 300, 0x04); }
		else if (km == 3 && !q.empty()) q[t.u8() % q.size()] ^= 0x40;
		else if (km == 4 && !q.empty()) q[0] = t.u8();
		else if (km == 5) { std::string md; byte_edits(t, q, md); }
		Exact qx(q);
		pk.q = qx.p; pk.qlen = qx.n;
		size_t hl = t.u8() % 65;
		Bytes h = t.filled(hl);
		Exact hx(h);
		const br_ec_impl *impl = i15 ? &br_ec_all_m15 : t.flag() ? &br_ec_all_m31 : t.flag() ? &br_ec_prime_i31 : &br_ec_prime_i15;
		uint32_t r;
		if (asn1) r = i15 ? br_ecdsa_i15_vrfy_asn1(impl, hx.p, hl, &pk, sig.p, sig.n) : br_ecdsa_i31_vrfy_asn1(impl, hx.p, hl, &pk, sig.p, sig.n);
		else r = i15 ? br_ecdsa_i15_vrfy_raw(impl, hx.p, hl, &pk, sig.p, sig.n) : br_ecdsa_i31_vrfy_raw(impl, hx.p, hl, &pk, sig.p, sig.n);
		VF_CHECK(r == 0 || r == 1, "ecdsa vrfy (%s): returned %u", desc.c_str(), r);
		account(asn1 ? "ecdsa_vrfy_asn1" : "ecdsa_vrfy_raw", r ? "accept" : "reject", true, desc + fmt(" curve %d qlen %zu hash %zu", pk.curve, pk.qlen, hl));
	}
}

// ------------------------------------------------------------- family 6: RSA public operations
static void fam_rsa(Tape &t)
{
	static const br_rsa_public PUB[] = { br_rsa_i15_public, br_rsa_i31_public, br_rsa_i32_public, br_rsa_i62_public };
	static const br_rsa_pkcs1_vrfy VR[] = { br_rsa_i15_pkcs1_vrfy, br_rsa_i31_pkcs1_vrfy, br_rsa_i32_pkcs1_vrfy, br_rsa_i62_pkcs1_vrfy };
	static const br_rsa_pss_vrfy PV[] = { br_rsa_i15_pss_vrfy, br_rsa_i31_pss_vrfy, br_rsa_i32_pss_vrfy, br_rsa_i62_pss_vrfy };
	unsigned impl = t.u8() % 4, op = t.u8() % 3;
	// key: pool key or fabricated modulus (even, zero, leading zeros, any length 0..600)
	Bytes n, e;
	unsigned km = t.u8() % 6;
	const xl::Key &k = pool.at(pool.rsa[t.u8() % 6]);   // up to 1031 bits: cheap
	n = k.n; e = k.e;
	if (km == 1) { n.assign(draw_len(t) % 640, 0); t.fill(n.data(), n.size()); }
	else if (km == 2) { n.insert(n.begin(), (size_t)(t.u8() % 40), 0); }
	else if (km == 3 && !n.empty()) n.back() &= 0xFE;
	else if (km == 4) { e.assign(draw_len(t) % 600, 0); t.fill(e.data(), e.size()); }
	else if (km == 5) { size_t L = 508 + t.u8() % 12; n.assign(L, 0xFF); e = Bytes{ 3 }; }
	if (n.size() > 520 && e.size() > 8) e.resize(8);   // keep exponentiation affordable
	if (e.size() > 64 && n.size() > 130) e.resize(64);
	Exact nx(n), ex(e);
	br_rsa_public_key pk = { nx.p, nx.n, ex.p, ex.n };
	size_t xl_ = t.flag() ? n.size() : draw_len(t) % 700;
	Bytes x = t.filled(xl_);
	if (t.flag() && !x.empty()) x[0] = 0;
	Exact xx(x);
	uint32_t r;
	std::string desc = fmt("impl %s n %zu bytes e %zu bytes x %zu bytes", impl == 0 ? "i15" : impl == 1 ? "i31" : impl == 2 ? "i32" : "i62", n.size(), e.size(), x.size());
	if (op == 0) { r = PUB[impl](xx.p, xx.n, &pk); desc = "public " + desc; }
	else if (op == 1) {
		uint8_t hout[64];
		size_t hl = t.pick<size_t>({ 20, 28, 32, 48, 64, 36 });
		const unsigned char *oid = hl == 36 ? nullptr : hl == 20 ? BR_HASH_OID_SHA1 : hl == 28 ? BR_HASH_OID_SHA224 : hl == 32 ? BR_HASH_OID_SHA256 : hl == 48 ? BR_HASH_OID_SHA384 : BR_HASH_OID_SHA512;
		r = VR[impl](xx.p, xx.n, oid, hl, &pk, hout);
		desc = "pkcs1_vrfy " + desc;
	} else {
		uint8_t hash[64] = { 0 };
		const br_hash_class *hc = t.flag() ? &br_sha256_vtable : &br_sha1_vtable;
		size_t hl = (hc->desc >> BR_HASHDESC_OUT_OFF) & BR_HASHDESC_OUT_MASK;
		size_t salt = t.u8() % 70;
		r = PV[impl](xx.p, xx.n, hc, t.flag() ? &br_sha256_vtable : &br_sha1_vtable, hash, salt, &pk);
		(void)hl;
		desc = "pss_vrfy " + desc;
	}
	VF_CHECK(r == 0 || r == 1, "rsa %s: returned %u", desc.c_str(), r);
	if (n.size() > 512 + 8) VF_CHECK(r == 0 || n[0] == 0, "rsa %s: accepted a modulus beyond the supported size", desc.c_str());
	account("rsa_pub", r ? "ok" : "rej", true, desc);
}

// ------------------------------------------------------------- family 7: EC public operations
static void fam_ec(Tape &t)
{
	struct Impl { const char *name; const br_ec_impl *impl; };
	static std::vector<Impl> impls;
	if (impls.empty()) {
		impls = { { "prime_i15", &br_ec_prime_i15 }, { "prime_i31", &br_ec_prime_i31 }, { "p256_m15", &br_ec_p256_m15 }, { "p256_m31", &br_ec_p256_m31 },
			{ "c25519_i15", &br_ec_c25519_i15 }, { "c25519_i31", &br_ec_c25519_i31 }, { "c25519_m15", &br_ec_c25519_m15 }, { "c25519_m31", &br_ec_c25519_m31 },
			{ "all_m15", &br_ec_all_m15 }, { "all_m31", &br_ec_all_m31 } };
		if (br_ec_p256_m62_get()) impls.push_back({ "p256_m62", br_ec_p256_m62_get() });
		if (br_ec_p256_m64_get()) impls.push_back({ "p256_m64", br_ec_p256_m64_get() });
		if (br_ec_c25519_m62_get()) impls.push_back({ "c25519_m62", br_ec_c25519_m62_get() });
		if (br_ec_c25519_m64_get()) impls.push_back({ "c25519_m64", br_ec_c25519_m64_get() });
	}
	const Impl &im = impls[t.u8() % impls.size()];
	std::vector<int> curves;
	for (int c = 0; c < 32; c++) if ((im.impl->supported_curves >> c) & 1) curves.push_back(c);
	int curve = curves[t.u8() % curves.size()];
	size_t glen, olen;
	const unsigned char *G = im.impl->generator(curve, &glen);
	const unsigned char *ord = im.impl->order(curve, &olen);
	// attacker point: generator / pool key / mutated / arbitrary length
	Bytes P(G, G + glen);
	unsigned pm = t.u8() % 8;
	if (pm == 1) { P.assign(draw_len(t) % 200, 0); t.fill(P.data(), P.size()); }
	else if (pm == 2 && !P.empty()) P[t.u8() % P.size()] ^= (uint8_t)(1 + t.u8() % 255);
	else if (pm == 3) P.resize(glen + 1 + t.u8() % 3, 0);
	else if (pm == 4 && glen > 1) P.resize(glen - 1 - t.u8() % (glen - 1));
	else if (pm == 5) { t.fill(P.data(), P.size()); if (curve != BR_EC_curve25519) P[0] = 0x04; }
	else if (pm == 6) { std::fill(P.begin(), P.end(), 0); if (!P.empty()) P[0] = t.flag() ? 0x04 : 0x00; }
	else if (pm == 7) { for (auto &c : P) c = 0xFF; if (!P.empty() && t.flag()) P[0] = 0x04; }
	// scalar: non-zero, below the order, at most the order's length
	size_t sl = 1 + t.u8() % olen;
	Bytes x = t.filled(sl);
	if (sl == olen) { if (curve == BR_EC_curve25519) x[0] &= 0x0F; else x[0] = (uint8_t)(ord[0] ? x[0] % ord[0] : 0); }
	bool zero = true;
	for (auto c : x) if (c) zero = false;
	if (zero) x.back() = 1;
	Exact xx(x);
	unsigned op = t.u8() % 3;
	std::string desc = fmt("%s curve %d point %zu bytes (mode %u) scalar %zu bytes", im.name, curve, P.size(), pm, sl);
	uint32_t r = 0;
	if (op == 0 || curve == BR_EC_curve25519) {
		Exact px(P);
		r = im.impl->mul(px.p, px.n, xx.p, xx.n, curve);
		desc = "mul " + desc;
	} else if (op == 1) {
		Exact px(P);
		r = im.impl->muladd(px.p, nullptr, px.n, xx.p, xx.n, xx.p, xx.n, curve);
		desc = "muladd(P,G) " + desc;
	} else {
		Bytes Q(G, G + glen);
		if (t.flag()) Q = P;
		else if (t.flag() && !Q.empty()) Q[t.u8() % Q.size()] ^= 0x10;
		Q.resize(P.size(), 0);
		Exact px(P), qx(Q);
		r = im.impl->muladd(px.p, qx.p, px.n, xx.p, xx.n, xx.p, xx.n, curve);
		desc = "muladd(P,Q) " + desc;
	}
	VF_CHECK(r == 0 || r == 1, "ec %s: returned %u", desc.c_str(), r);
	if (P.size() != glen) VF_CHECK(r == 0, "ec %s: a point of %zu bytes was accepted (encoded points of this curve have %zu)", desc.c_str(), P.size(), glen);
	account("ec", r ? "ok" : "rej", true, desc);
}

#include "c05_tls.hpp"

// ------------------------------------------------------------- boundary cases (explicit)
// kind, a, b: constructed inputs whose one length field sits at an internal limit
static void boundary_case(unsigned kind, size_t a, size_t b)
{
	Tape t0(nullptr, 0);
	std::string desc = fmt("boundary kind %u a=%zu b=%zu", kind, a, b);
	int kr = pool.find("rsa2048");
	switch (kind) {
	case 0: case 1: case 2: case 3: case 4: case 5: case 6: case 7: {
		// certificate with one oversized / boundary element, to both certificate consumers
		xl::CertSpec s = base_spec(kr, kr, "localhost", "localhost", false);
		if (kind == 0) s.spki_raw = xl::spki_fake_rsa(a, b ? b : 3);
		else if (kind == 1) s.spki_raw = xl::spki_fake_ec(b == 0 ? "1.2.840.10045.3.1.7" : b == 1 ? "1.3.132.0.34" : "1.3.132.0.35", a);
		else if (kind == 2) s.sig_raw = Bytes(a, 0x21);
		else if (kind == 3) s.subject = xl::Name::simple(std::string(a, 'n'), std::string(b, 'o'));
		else if (kind == 4) s.exts.push_back(xl::ext_san({ { 0x82, Bytes(a, 'd') }, { 0x82, xl::B("localhost") } }));
		else if (kind == 5) s.serial = Bytes(a, 0x11);
		else if (kind == 6) { std::string o = "1.2"; for (size_t i = 0; i < a; i++) o += ".16383"; s.exts.push_back(xl::Ext{ o, (int)(b & 1), Bytes(3, 0) }); }
		else { std::vector<std::vector<xl::Attr>> r; for (size_t i = 0; i < a; i++) r.push_back({ xl::Attr{ xl::OID_OU, xl::T_UTF8, xl::B("u") } }); s.subject.rdns = r; s.subject.rdns.push_back({ xl::Attr{ xl::OID_CN, xl::T_UTF8, xl::B("localhost") } }); }
		Bytes c = xl::build(s, pool).der;
		uint8_t tp[8] = { 0x15, 0x00, 0x02, 0x00, 0x00, 0x00 };   // cfg: static anchors + time, 2 name elements
		Tape t1(tp, sizeof tp);
		run_minimal(t1, { c }, desc);
		// certificate decoder
		Exact in(c);
		HeapCtx<br_x509_decoder_context> dc;
		br_x509_decoder_init(dc.c, dn_cb, nullptr, dn_cb, nullptr);
		begin_work("x509_decoder", 100000, 400, in.n);
		br_x509_decoder_push(dc.c, in.p, in.n);
		end_work();
		int err = br_x509_decoder_last_error(dc.c);
		VF_CHECK((err == 0) == (br_x509_decoder_get_pkey(dc.c) != nullptr), "x509_decoder (%s): error %d inconsistent with get_pkey", desc.c_str(), err);
		if (kind == 0 && a + (b ? b : 3) > BR_X509_BUFSIZE_KEY) VF_CHECK(err != 0, "x509_decoder (%s): a key of %zu bytes was accepted into a %d-byte buffer", desc.c_str(), a + (b ? b : 3), BR_X509_BUFSIZE_KEY);
		account("boundary-cert", fmt("k%u/err%d", kind, err), true, desc);
		break;
	}
	case 8: case 9: {
		// key decoders with fabricated component sizes
		Bytes k;
		if (kind == 8) {
			Bytes big(a, 0x81), small_(b ? b : 1, 0x03);
			if (!big.empty()) big.back() |= 1;
			k = xl::der::seq({ xl::der::integer_u(0), xl::der::integer(big), xl::der::integer(small_), xl::der::integer(big), xl::der::integer(Bytes(a / 2 + 1, 0x91)), xl::der::integer(Bytes(a / 2 + 1, 0x93)),
				xl::der::integer(Bytes(a / 2 + 1, 0x71)), xl::der::integer(Bytes(a / 2 + 1, 0x73)), xl::der::integer(Bytes(a / 2 + 1, 0x75)) });
			Exact in(k);
			HeapCtx<br_skey_decoder_context> kc;
			br_skey_decoder_init(kc.c);
			begin_work("skey_decoder", 100000, 400, in.n);
			br_skey_decoder_push(kc.c, in.p, in.n);
			end_work();
			int err = br_skey_decoder_last_error(kc.c);
			const br_rsa_private_key *rk = br_skey_decoder_get_rsa(kc.c);
			VF_CHECK((err == 0) == (rk != nullptr), "skey_decoder (%s): error %d inconsistent with get_rsa", desc.c_str(), err);
			if (rk) VF_CHECK(inside(rk->p, rk->plen, kc->key_data, sizeof kc->key_data) && inside(rk->iq, rk->iqlen, kc->key_data, sizeof kc->key_data), "skey_decoder (%s): components outside key_data", desc.c_str());
			account("boundary-skey", fmt("err%d", err), true, desc);
		} else {
			k = b == 0 ? xl::spki_fake_rsa(a, 3) : b == 1 ? xl::spki_fake_rsa(256, a) : xl::spki_fake_ec("1.2.840.10045.3.1.7", a);
			Exact in(k);
			HeapCtx<br_pkey_decoder_context> kc;
			br_pkey_decoder_init(kc.c);
			begin_work("pkey_decoder", 100000, 400, in.n);
			br_pkey_decoder_push(kc.c, in.p, in.n);
			end_work();
			int err = br_pkey_decoder_last_error(kc.c);
			const br_rsa_public_key *rk = br_pkey_decoder_get_rsa(kc.c);
			const br_ec_public_key *ek = br_pkey_decoder_get_ec(kc.c);
			VF_CHECK((err == 0) == (rk != nullptr || ek != nullptr), "pkey_decoder (%s): error %d inconsistent with the getters", desc.c_str(), err);
			if (rk) VF_CHECK(inside(rk->n, rk->nlen, kc->key_data, sizeof kc->key_data) && inside(rk->e, rk->elen, kc->key_data, sizeof kc->key_data), "pkey_decoder (%s): key outside key_data", desc.c_str());
			if (ek) VF_CHECK(inside(ek->q, ek->qlen, kc->key_data, sizeof kc->key_data), "pkey_decoder (%s): point outside key_data", desc.c_str());
			account("boundary-pkey", fmt("err%d", err), true, desc);
		}
		break;
	}
	case 10: {
		// PEM: banner length a, line length b
		std::string s = "-----BEGIN " + std::string(a, 'B') + "-----\n" + std::string(b, 'Q') + "\nQUJD\n-----END " + std::string(a, 'B') + "-----\n";
		Exact in(Bytes(s.begin(), s.end()));
		HeapCtx<br_pem_decoder_context> pc;
		br_pem_decoder_init(pc.c);
		PemSink sink;
		begin_work("pem_decoder", 50000, 300, in.n);
		size_t off = 0;
		unsigned stall = 0;
		while (off < in.n) {
			size_t c = br_pem_decoder_push(pc.c, in.p + off, in.n - off);
			off += c;
			int ev = br_pem_decoder_event(pc.c);
			if (ev == BR_PEM_BEGIN_OBJ) { VF_CHECK(memchr(br_pem_decoder_name(pc.c), 0, sizeof pc->name) != nullptr, "pem_decoder (%s): name not terminated", desc.c_str()); br_pem_decoder_setdest(pc.c, pem_dest, &sink); }
			if (c == 0 && ev == 0) VF_CHECK(++stall < 3, "pem_decoder (%s): no progress", desc.c_str());
		}
		end_work();
		account("boundary-pem", "done", true, desc);
		break;
	}
	case 11: {
		// ECDSA ASN.1 -> raw with integer lengths a (r) and b (s)
		Bytes r(a, 0x55), s(b, 0x33);
		Bytes body = xl::der::tlv(0x02, r);
		xl::cat(body, xl::der::tlv(0x02, s));
		// (short-form lengths only where they fit; the long form is used by der::len)
		Bytes sig = xl::der::tlv(0x30, body);
		size_t cap = sig.size() * 2 + 1;
		uint8_t *buf = (uint8_t *)malloc(cap);
		memcpy(buf, sig.data(), sig.size());
		size_t rl = br_ecdsa_asn1_to_raw(buf, sig.size());
		free(buf);
		VF_CHECK(rl == 0 || (rl % 2 == 0 && rl <= 254 && rl < 2 * sig.size()), "ecdsa_asn1_to_raw (%s): returned %zu for a %zu-byte signature", desc.c_str(), rl, sig.size());
		// the short-form encoding 0x80 as a length byte
		if (a == 128) {
			Bytes raw = { 0x30, 0x81, (uint8_t)(2 + 128 + 2 + b), 0x02, 0x80 };
			raw.insert(raw.end(), r.begin(), r.end());
			raw.push_back(0x02); raw.push_back((uint8_t)b);
			raw.insert(raw.end(), s.begin(), s.end());
			if (b < 128) {
				size_t cap2 = raw.size() * 2 + 1;
				uint8_t *buf2 = (uint8_t *)malloc(cap2);
				memcpy(buf2, raw.data(), raw.size());
				size_t rl2 = br_ecdsa_asn1_to_raw(buf2, raw.size());
				free(buf2);
				VF_CHECK(rl2 == 0 || (rl2 % 2 == 0 && rl2 <= 254), "ecdsa_asn1_to_raw (%s, length byte 0x80): returned %zu", desc.c_str(), rl2);
			}
		}
		account("boundary-ecdsa", rl ? "conv" : "rej", true, desc);
		break;
	}
	default:
		tls_boundary_case(kind, a, b, desc);
	}
}

void target_run(Tape &t)
{
	unsigned f0 = t.u8();
	if (f0 == 0xF0) { unsigned k = t.u8(); size_t a = t.u16(), b = t.u16(); boundary_case(k, a, b); return; }
	switch (f0 % 12) {
	case 0: fam_minimal(t); break;
	case 1: fam_decoder(t); break;
	case 2: fam_skey(t); break;
	case 3: fam_pkey(t); break;
	case 4: fam_pem(t); break;
	case 5: fam_ecdsa(t); break;
	case 6: fam_rsa(t); break;
	case 7: fam_ec(t); break;
	case 8: fam_tls_pre(t, true); break;
	case 9: fam_tls_pre(t, false); break;
	case 10: fam_tls_post(t, true); break;
	default: fam_tls_post(t, false); break;
	}
	stats.notes["t0"] = fmt("distinct (interpreter, bytecode offset) pairs executed: %llu; max instructions in one case: %llu; deepest data stack %d, return stack %d (of 32/31 slots)",
		(unsigned long long)g_cov_count, (unsigned long long)g_max_steps_seen, g_max_dp, g_max_rp);
}

void target_enum(int shard, int nshards)
{
	uint64_t n = 0;
	auto emit = [&](unsigned kind, size_t a, size_t b) {
		if ((n++ % (uint64_t)nshards) != (uint64_t)shard) return;
		enum_tape({ 0xF0, (uint8_t)kind, (uint8_t)(a >> 8), (uint8_t)a, (uint8_t)(b >> 8), (uint8_t)b });
	};
	bool th = tier_thorough();
	auto around = [&](std::initializer_list<size_t> centers, size_t w) { std::vector<size_t> v; for (size_t c : centers) for (size_t x = c > w ? c - w : 0; x <= c + w; x++) v.push_back(x); return v; };
	for (size_t a : around({ 128, 256, 512, 517, 520, 1024, 1536, 1560 }, th ? 8 : 4)) for (size_t b : { 1u, 3u, 8u }) emit(0, a, b);
	for (size_t b : around({ 255, 260, 516, 520 }, 3)) emit(0, 256, b);
	for (size_t a : around({ 0, 65, 97, 133, 256, 520 }, th ? 6 : 3)) for (size_t b : { 0u, 1u, 2u }) emit(1, a, b);
	for (size_t a : around({ 0, 128, 256, 512, 520, 1024 }, th ? 8 : 4)) emit(2, a, 0);
	for (size_t a : around({ 0, 127, 255, 512, 4096 }, 3)) for (size_t b : { 0u, 5u, 256u }) emit(3, a, b);
	for (size_t a : around({ 0, 127, 255, 512, 4096 }, 3)) emit(4, a, 0);
	for (size_t a : around({ 1, 20, 127, 255, 1000 }, 2)) emit(5, a, 0);
	for (size_t a : around({ 1, 40, 84, 126, 200 }, 2)) for (size_t b : { 0u, 1u }) emit(6, a, b);
	for (size_t a : { 0u, 1u, 30u, 31u, 32u, 33u, 64u, 500u }) emit(7, a, 0);
	for (size_t a : around({ 128, 256, 512, 520, 768, 1536, 1560 }, th ? 8 : 3)) for (size_t b : { 1u, 4u, 300u }) emit(8, a, b);
	for (size_t a : around({ 0, 65, 133, 256, 512, 520, 1536, 1548, 1560 }, th ? 13 : 6)) for (size_t b : { 0u, 1u, 2u }) emit(9, a, b);
	for (size_t a : around({ 0, 64, 110, 121, 127, 128, 256 }, 4)) for (size_t b : { 0u, 64u, 76u, 1000u, 20000u }) emit(10, a, b);
	for (size_t a : around({ 0, 33, 66, 127 }, 2)) for (size_t b : around({ 0, 33, 66, 127 }, 2)) emit(11, a, b);
	tls_boundary_enum(emit, th);
	stats.exhaustive = false;
}
