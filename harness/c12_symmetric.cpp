// C12 — every implementation of each symmetric primitive computes the
// standard function, and chaining state continues the stream across calls.
//
// Oracle: independent references built on OpenSSL EVP single-block ECB
// (AES, 3DES) with the mode logic (CBC, CTR with the documented 32-bit
// big-endian counter, CTR with 128-bit counter + CBC-MAC) written here from
// SP 800-38A; a ChaCha20 block function written from RFC 7539 (and OpenSSL's
// chacha20 wherever the 32-bit counter does not wrap); OpenSSL's
// ChaCha20-Poly1305 AEAD; a bit-serial GHASH written from SP 800-38D.
// Every implementation is compared with the reference, hence with every
// sibling.  A generated split of the message into successive calls of
// admissible sizes must give the same bytes and final chaining state.
#include "common/vf.hpp"
#include <openssl/evp.h>
#include <openssl/bn.h>
#include <algorithm>
extern "C" {
#include "bearssl.h"
}
#include <memory>

using namespace vf;

const char *target_name = "c12_symmetric";
const int target_tape_min = 0, target_tape_max = 96;

// ------------------------------------------------------------ references
struct EcbRef {
	EVP_CIPHER_CTX *e, *d;
	unsigned bs;
	EcbRef(bool aes, const uint8_t *key, size_t klen)
	{
		const EVP_CIPHER *c;
		uint8_t k3[24];
		if (aes) {
			c = klen == 16 ? EVP_aes_128_ecb() : klen == 24 ? EVP_aes_192_ecb() : EVP_aes_256_ecb();
			bs = 16;
		} else {
			// BearSSL: 8 = DES, 16 = 2-key 3DES, 24 = 3-key 3DES; all are
			// EDE3 with repeated subkeys
			memcpy(k3, key, klen < 24 ? klen : 24);
			if (klen == 8) { memcpy(k3 + 8, key, 8); memcpy(k3 + 16, key, 8); }
			if (klen == 16) memcpy(k3 + 16, key, 8);
			key = k3;
			c = EVP_des_ede3_ecb();
			bs = 8;
		}
		e = EVP_CIPHER_CTX_new();
		d = EVP_CIPHER_CTX_new();
		if (!EVP_EncryptInit_ex(e, c, nullptr, key, nullptr) || !EVP_DecryptInit_ex(d, c, nullptr, key, nullptr))
			abort();
		EVP_CIPHER_CTX_set_padding(e, 0);
		EVP_CIPHER_CTX_set_padding(d, 0);
	}
	~EcbRef() { EVP_CIPHER_CTX_free(e); EVP_CIPHER_CTX_free(d); }
	void enc(const uint8_t *in, uint8_t *out) { int l; if (!EVP_EncryptUpdate(e, out, &l, in, (int)bs) || l != (int)bs) abort(); }
	void dec(const uint8_t *in, uint8_t *out) { int l; if (!EVP_DecryptUpdate(d, out, &l, in, (int)bs) || l != (int)bs) abort(); }
};

static void ref_cbcenc(EcbRef &r, uint8_t *iv, uint8_t *data, size_t len)
{
	for (size_t u = 0; u < len; u += r.bs) {
		uint8_t t[16];
		for (unsigned i = 0; i < r.bs; i++) t[i] = data[u + i] ^ iv[i];
		r.enc(t, data + u);
		memcpy(iv, data + u, r.bs);
	}
}
static void ref_cbcdec(EcbRef &r, uint8_t *iv, uint8_t *data, size_t len)
{
	for (size_t u = 0; u < len; u += r.bs) {
		uint8_t t[16], c[16];
		memcpy(c, data + u, r.bs);
		r.dec(c, t);
		for (unsigned i = 0; i < r.bs; i++) data[u + i] = t[i] ^ iv[i];
		memcpy(iv, c, r.bs);
	}
}
static uint32_t ref_ctr(EcbRef &r, const uint8_t *iv, uint32_t cc, uint8_t *data, size_t len)
{
	for (size_t u = 0; u < len; u += 16) {
		uint8_t b[16], ks[16];
		memcpy(b, iv, 12);
		b[12] = cc >> 24; b[13] = cc >> 16; b[14] = cc >> 8; b[15] = cc;
		r.enc(b, ks);
		for (size_t i = 0; i < 16 && u + i < len; i++) data[u + i] ^= ks[i];
		cc++;   // documented: 32-bit counter; the IV part is never touched
	}
	return cc;
}
static void inc128(uint8_t *c)
{
	for (int i = 15; i >= 0; i--) if (++c[i]) break;
}
static void ref_ctr128(EcbRef &r, uint8_t *ctr, uint8_t *data, size_t len)
{
	for (size_t u = 0; u < len; u += 16) {
		uint8_t ks[16];
		r.enc(ctr, ks);
		for (size_t i = 0; i < 16; i++) data[u + i] ^= ks[i];
		inc128(ctr);
	}
}
static void ref_cbcmac(EcbRef &r, uint8_t *mac, const uint8_t *data, size_t len)
{
	for (size_t u = 0; u < len; u += 16) {
		uint8_t t[16];
		for (int i = 0; i < 16; i++) t[i] = mac[i] ^ data[u + i];
		r.enc(t, mac);
	}
}

// ChaCha20 block function, RFC 7539 section 2.3
static inline uint32_t rotl(uint32_t x, int n) { return (x << n) | (x >> (32 - n)); }
static void chacha_block(const uint8_t *key, const uint8_t *iv, uint32_t cc, uint8_t *out)
{
	uint32_t s[16], w[16];
	static const uint32_t c[4] = { 0x61707865, 0x3320646e, 0x79622d32, 0x6b206574 };
	auto le = [](const uint8_t *p) { return (uint32_t)p[0] | ((uint32_t)p[1] << 8) | ((uint32_t)p[2] << 16) | ((uint32_t)p[3] << 24); };
	for (int i = 0; i < 4; i++) s[i] = c[i];
	for (int i = 0; i < 8; i++) s[4 + i] = le(key + 4 * i);
	s[12] = cc;
	for (int i = 0; i < 3; i++) s[13 + i] = le(iv + 4 * i);
	memcpy(w, s, sizeof w);
#define QR(a, b, c, d) \
	w[a] += w[b]; w[d] ^= w[a]; w[d] = rotl(w[d], 16); \
	w[c] += w[d]; w[b] ^= w[c]; w[b] = rotl(w[b], 12); \
	w[a] += w[b]; w[d] ^= w[a]; w[d] = rotl(w[d], 8); \
	w[c] += w[d]; w[b] ^= w[c]; w[b] = rotl(w[b], 7);
	for (int i = 0; i < 10; i++) {
		QR(0, 4, 8, 12) QR(1, 5, 9, 13) QR(2, 6, 10, 14) QR(3, 7, 11, 15)
		QR(0, 5, 10, 15) QR(1, 6, 11, 12) QR(2, 7, 8, 13) QR(3, 4, 9, 14)
	}
#undef QR
	for (int i = 0; i < 16; i++) {
		uint32_t v = w[i] + s[i];
		out[4 * i] = v; out[4 * i + 1] = v >> 8; out[4 * i + 2] = v >> 16; out[4 * i + 3] = v >> 24;
	}
}
static uint32_t ref_chacha(const uint8_t *key, const uint8_t *iv, uint32_t cc, uint8_t *data, size_t len)
{
	for (size_t u = 0; u < len; u += 64) {
		uint8_t ks[64];
		chacha_block(key, iv, cc, ks);
		for (size_t i = 0; i < 64 && u + i < len; i++) data[u + i] ^= ks[i];
		cc++;
	}
	return cc;
}
// second, fully external reference where no 32-bit wrap happens
static void ossl_chacha(const uint8_t *key, const uint8_t *iv, uint32_t cc, uint8_t *data, size_t len)
{
	uint8_t ivc[16];
	ivc[0] = cc; ivc[1] = cc >> 8; ivc[2] = cc >> 16; ivc[3] = cc >> 24;
	memcpy(ivc + 4, iv, 12);
	EVP_CIPHER_CTX *c = EVP_CIPHER_CTX_new();
	int l = 0;
	if (!EVP_EncryptInit_ex(c, EVP_chacha20(), nullptr, key, ivc)) abort();
	if (len && !EVP_EncryptUpdate(c, data, &l, data, (int)len)) abort();
	EVP_CIPHER_CTX_free(c);
}
static void ossl_chapol(const uint8_t *key, const uint8_t *iv, uint8_t *data, size_t len,
	const uint8_t *aad, size_t aad_len, uint8_t *tag, bool encrypt)
{
	EVP_CIPHER_CTX *c = EVP_CIPHER_CTX_new();
	int l = 0;
	if (!EVP_CipherInit_ex(c, EVP_chacha20_poly1305(), nullptr, key, iv, encrypt ? 1 : 0)) abort();
	if (aad_len && !EVP_CipherUpdate(c, nullptr, &l, aad, (int)aad_len)) abort();
	if (encrypt) {
		if (len && !EVP_CipherUpdate(c, data, &l, data, (int)len)) abort();
		uint8_t fin[16];
		if (!EVP_CipherFinal_ex(c, fin, &l)) abort();
		if (!EVP_CIPHER_CTX_ctrl(c, EVP_CTRL_AEAD_GET_TAG, 16, tag)) abort();
	} else {
		// decrypt without tag verification is not offered by EVP: compute
		// the tag by re-encrypting the recovered plaintext
		std::vector<uint8_t> ct(data, data + len);
		if (len && !EVP_CipherUpdate(c, data, &l, data, (int)len)) abort();
		EVP_CIPHER_CTX_free(c);
		std::vector<uint8_t> pt(data, data + len);
		ossl_chapol(key, iv, pt.data(), len, aad, aad_len, tag, true);
		if (len && memcmp(pt.data(), ct.data(), len) != 0) abort();
		return;
	}
	EVP_CIPHER_CTX_free(c);
}

// GHASH, SP 800-38D algorithm 1 (bit-serial multiplication)
static void gf_mul(uint8_t *x, const uint8_t *y)
{
	uint8_t z[16] = { 0 }, v[16];
	memcpy(v, y, 16);
	for (int i = 0; i < 128; i++) {
		if ((x[i >> 3] >> (7 - (i & 7))) & 1) for (int k = 0; k < 16; k++) z[k] ^= v[k];
		int lsb = v[15] & 1;
		for (int k = 15; k > 0; k--) v[k] = (v[k] >> 1) | (v[k - 1] << 7);
		v[0] >>= 1;
		if (lsb) v[0] ^= 0xE1;
	}
	memcpy(x, z, 16);
}
static void ref_ghash(uint8_t *y, const uint8_t *h, const uint8_t *data, size_t len)
{
	for (size_t u = 0; u < len; u += 16) {
		uint8_t b[16] = { 0 };
		memcpy(b, data + u, len - u < 16 ? len - u : 16);
		for (int i = 0; i < 16; i++) y[i] ^= b[i];
		gf_mul(y, h);
	}
}

// ------------------------------------------------------------ impl tables
struct AesImpl {
	const char *name;
	const br_block_cbcenc_class *cbcenc;
	const br_block_cbcdec_class *cbcdec;
	const br_block_ctr_class *ctr;
	const br_block_ctrcbc_class *ctrcbc;
};
static std::vector<AesImpl> aes_impls;
struct DesImpl { const char *name; const br_block_cbcenc_class *cbcenc; const br_block_cbcdec_class *cbcdec; };
static std::vector<DesImpl> des_impls;
struct NamedChacha { const char *name; br_chacha20_run f; };
static std::vector<NamedChacha> chacha_impls;
struct NamedPoly { const char *name; br_poly1305_run f; };
static std::vector<NamedPoly> poly_impls;
struct NamedGhash { const char *name; br_ghash f; };
static std::vector<NamedGhash> ghash_impls;

void target_init()
{
	aes_impls.push_back({ "big", &br_aes_big_cbcenc_vtable, &br_aes_big_cbcdec_vtable, &br_aes_big_ctr_vtable, &br_aes_big_ctrcbc_vtable });
	aes_impls.push_back({ "small", &br_aes_small_cbcenc_vtable, &br_aes_small_cbcdec_vtable, &br_aes_small_ctr_vtable, &br_aes_small_ctrcbc_vtable });
	aes_impls.push_back({ "ct", &br_aes_ct_cbcenc_vtable, &br_aes_ct_cbcdec_vtable, &br_aes_ct_ctr_vtable, &br_aes_ct_ctrcbc_vtable });
	aes_impls.push_back({ "ct64", &br_aes_ct64_cbcenc_vtable, &br_aes_ct64_cbcdec_vtable, &br_aes_ct64_ctr_vtable, &br_aes_ct64_ctrcbc_vtable });
	if (br_aes_x86ni_cbcenc_get_vtable())
		aes_impls.push_back({ "x86ni", br_aes_x86ni_cbcenc_get_vtable(), br_aes_x86ni_cbcdec_get_vtable(),
			br_aes_x86ni_ctr_get_vtable(), br_aes_x86ni_ctrcbc_get_vtable() });
	else stats.notes["absent:aes_x86ni"] = "getter returned NULL";
	if (br_aes_pwr8_cbcenc_get_vtable())
		aes_impls.push_back({ "pwr8", br_aes_pwr8_cbcenc_get_vtable(), br_aes_pwr8_cbcdec_get_vtable(),
			br_aes_pwr8_ctr_get_vtable(), br_aes_pwr8_ctrcbc_get_vtable() });
	else stats.notes["absent:aes_pwr8"] = "getter returned NULL (not a POWER8 build)";
	des_impls.push_back({ "tab", &br_des_tab_cbcenc_vtable, &br_des_tab_cbcdec_vtable });
	des_impls.push_back({ "ct", &br_des_ct_cbcenc_vtable, &br_des_ct_cbcdec_vtable });
	chacha_impls.push_back({ "ct", &br_chacha20_ct_run });
	if (br_chacha20_sse2_get()) chacha_impls.push_back({ "sse2", br_chacha20_sse2_get() });
	else stats.notes["absent:chacha20_sse2"] = "getter returned NULL";
	poly_impls.push_back({ "ctmul", &br_poly1305_ctmul_run });
	poly_impls.push_back({ "ctmul32", &br_poly1305_ctmul32_run });
	poly_impls.push_back({ "i15", &br_poly1305_i15_run });
	if (br_poly1305_ctmulq_get()) poly_impls.push_back({ "ctmulq", br_poly1305_ctmulq_get() });
	else stats.notes["absent:poly1305_ctmulq"] = "getter returned NULL";
	ghash_impls.push_back({ "ctmul", &br_ghash_ctmul });
	ghash_impls.push_back({ "ctmul32", &br_ghash_ctmul32 });
	ghash_impls.push_back({ "ctmul64", &br_ghash_ctmul64 });
	if (br_ghash_pclmul_get()) ghash_impls.push_back({ "pclmul", br_ghash_pclmul_get() });
	else stats.notes["absent:ghash_pclmul"] = "getter returned NULL";
	std::string present;
	for (auto &a : aes_impls) present += std::string("aes_") + a.name + " ";
	for (auto &a : des_impls) present += std::string("des_") + a.name + " ";
	for (auto &a : chacha_impls) present += std::string("chacha20_") + a.name + " ";
	for (auto &a : poly_impls) present += std::string("poly1305_") + a.name + " ";
	for (auto &a : ghash_impls) present += std::string("ghash_") + a.name + " ";
	stats.notes["implementations"] = present;
}

// ------------------------------------------------------------ case decoding
// cut positions: a message of len bytes is processed in up to 4 successive
// calls; every call but the last has a length multiple of `unit`
static std::vector<size_t> draw_split(Tape &t, size_t len, size_t unit)
{
	std::vector<size_t> parts;
	unsigned n = (unsigned)t.range(0, 3);   // extra cuts
	size_t blocks = len / unit;
	size_t done = 0;
	for (unsigned i = 0; i < n; i++) {
		size_t remaining_blocks = blocks - done / unit;
		size_t k = (size_t)t.range(0, remaining_blocks) * unit;   // may be 0: empty call is admissible
		parts.push_back(k);
		done += k;
	}
	parts.push_back(len - done);
	return parts;
}

static std::string split_shape(const std::vector<size_t> &parts)
{
	unsigned nonempty = 0, empty = 0;
	for (size_t p : parts) (p ? nonempty : empty)++;
	return fmt("%u+%ue", nonempty, empty);
}

static uint32_t draw_counter(Tape &t, size_t nblocks, std::string &cls)
{
	unsigned sel = t.u8() % 6;
	uint32_t r = t.u32();
	switch (sel) {
	case 0: cls = "zero"; return 0;
	case 1: cls = "one"; return 1;
	case 2: cls = "random"; return r;
	case 3: cls = "wrap-inside"; {
		// wraps somewhere inside the run when there are >= 2 blocks
		uint32_t back = nblocks > 1 ? 1 + r % (uint32_t)(nblocks - 1) : 1;
		return 0u - back;
	}
	case 4: cls = "wrap-at-end"; return 0u - (uint32_t)nblocks;
	default: cls = "max"; return 0xFFFFFFFFu;
	}
}

static size_t draw_len(Tape &t, size_t max)
{
	return t.len(max, { 0, 1, 15, 16, 17, 31, 32, 33, 47, 48, 49, 63, 64, 65, 95, 96, 127, 128, 129,
		191, 192, 193, 255, 256, 257, 511, 512, 1023, 1024, 1025, 4095, 4096 });
}

struct Exact {   // heap block of the exact size so ASan sees any overrun
	std::unique_ptr<uint8_t[]> p; size_t n;
	explicit Exact(const std::vector<uint8_t> &v) : p(new uint8_t[v.size() ? v.size() : 1]), n(v.size()) { if (n) memcpy(p.get(), v.data(), n); }
	uint8_t *get() { return p.get(); }
	bool eq(const std::vector<uint8_t> &v) const { return v.size() == n && (n == 0 || memcmp(v.data(), p.get(), n) == 0); }
};

#define CMP(what, got, ref, n) \
	VF_CHECK(memcmp((got), (ref), (n)) == 0, "%s: %s differs from reference (got %s want %s) [%s]", \
		desc.c_str(), what, hex((got), (n), 32).c_str(), hex((ref), (n), 32).c_str(), impl)

static void run_aes_des(Tape &t, unsigned prim)
{
	bool aes = prim < 4;
	size_t klen = aes ? t.pick<size_t>({ 16, 24, 32 }) : t.pick<size_t>({ 8, 16, 24 });
	unsigned bs = aes ? 16 : 8;
	std::vector<uint8_t> key = t.filled(klen);
	if (t.flag()) key[t.idx(klen)] ^= 0x80;   // keys with differing parity / high bits
	size_t len = draw_len(t, 4096);
	bool blockmode = prim != 2;
	if (blockmode) len -= len % bs;
	std::vector<uint8_t> iv = t.filled(16), data = t.filled(len), mac0 = t.filled(16);
	std::vector<size_t> parts = draw_split(t, len, bs);
	size_t nblocks = (len + bs - 1) / bs;
	std::string ccls = "n/a";
	uint32_t cc = 0;
	if (prim == 2) cc = draw_counter(t, nblocks, ccls);
	if (prim == 3) {
		// 128-bit counter: make the carry run through several bytes sometimes
		unsigned sel = t.u8() % 4;
		if (sel == 1) { memset(iv.data() + 8, 0xFF, 8); ccls = "carry64"; }
		else if (sel == 2) { memset(iv.data(), 0xFF, 16); iv[15] = (uint8_t)(0u - (nblocks > 1 ? nblocks / 2 : 1)); ccls = "carry128"; }
		else if (sel == 3) { memset(iv.data() + 12, 0xFF, 4); ccls = "carry32"; }
		else ccls = "random";
	}
	unsigned sub = prim == 3 ? t.u8() % 4 : 0;   // ctrcbc: encrypt / decrypt / ctr / mac
	static const char *pn[] = { "aes-cbcenc", "aes-cbcdec", "aes-ctr", "aes-ctrcbc", "des-cbcenc", "des-cbcdec" };
	static const char *subn[] = { "encrypt", "decrypt", "ctr", "mac" };
	std::string desc = fmt("%s%s%s key=%zu len=%zu split=%s ctr=%s", pn[prim], prim == 3 ? "." : "", prim == 3 ? subn[sub] : "",
		klen, len, split_shape(parts).c_str(), ccls.c_str());

	// reference
	EcbRef ref(aes, key.data(), klen);
	std::vector<uint8_t> rdata = data, riv = iv, rmac = mac0;
	uint32_t rcc = cc;
	switch (prim) {
	case 0: case 4: ref_cbcenc(ref, riv.data(), rdata.data(), len); break;
	case 1: case 5: ref_cbcdec(ref, riv.data(), rdata.data(), len); break;
	case 2: rcc = ref_ctr(ref, riv.data(), cc, rdata.data(), len); break;
	case 3:
		if (sub == 0) { ref_ctr128(ref, riv.data(), rdata.data(), len); ref_cbcmac(ref, rmac.data(), rdata.data(), len); }
		else if (sub == 1) { ref_cbcmac(ref, rmac.data(), rdata.data(), len); ref_ctr128(ref, riv.data(), rdata.data(), len); }
		else if (sub == 2) ref_ctr128(ref, riv.data(), rdata.data(), len);
		else ref_cbcmac(ref, rmac.data(), rdata.data(), len);
		break;
	}

	size_t nimpl = aes ? aes_impls.size() : des_impls.size();
	for (size_t k = 0; k < nimpl; k++) {
		const char *impl = aes ? aes_impls[k].name : des_impls[k].name;
		for (int pass = 0; pass < 2; pass++) {   // pass 0: one call; pass 1: the generated split
			std::vector<size_t> pp = pass ? parts : std::vector<size_t>{ len };
			Exact d(data);
			uint8_t civ[16], cmac[16];
			memcpy(civ, iv.data(), 16);
			memcpy(cmac, mac0.data(), 16);
			uint32_t ccc = cc;
			size_t off = 0;
			union { br_aes_gen_cbcenc_keys a; br_aes_gen_cbcdec_keys b; br_aes_gen_ctr_keys c; br_aes_gen_ctrcbc_keys d;
				br_des_gen_cbcenc_keys e; br_des_gen_cbcdec_keys f; } kc;
			memset(&kc, 0xA5, sizeof kc);
			const br_block_cbcenc_class *ce = aes ? aes_impls[k].cbcenc : des_impls[k].cbcenc;
			const br_block_cbcdec_class *cd = aes ? aes_impls[k].cbcdec : des_impls[k].cbcdec;
			switch (prim) {
			case 0: case 4:
				VF_CHECK(ce->block_size == bs && (1u << ce->log_block_size) == bs, "%s: block size fields [%s]", desc.c_str(), impl);
				ce->init(&kc.a.vtable, key.data(), klen);
				for (size_t p : pp) { ce->run(&kc.a.vtable, civ, d.get() + off, p); off += p; }
				break;
			case 1: case 5:
				VF_CHECK(cd->block_size == bs, "%s: block size fields [%s]", desc.c_str(), impl);
				cd->init(&kc.b.vtable, key.data(), klen);
				for (size_t p : pp) { cd->run(&kc.b.vtable, civ, d.get() + off, p); off += p; }
				break;
			case 2: {
				const br_block_ctr_class *c = aes_impls[k].ctr;
				c->init(&kc.c.vtable, key.data(), klen);
				for (size_t p : pp) { ccc = c->run(&kc.c.vtable, civ, ccc, d.get() + off, p); off += p; }
				break;
			}
			case 3: {
				const br_block_ctrcbc_class *c = aes_impls[k].ctrcbc;
				c->init(&kc.d.vtable, key.data(), klen);
				for (size_t p : pp) {
					if (sub == 0) c->encrypt(&kc.d.vtable, civ, cmac, d.get() + off, p);
					else if (sub == 1) c->decrypt(&kc.d.vtable, civ, cmac, d.get() + off, p);
					else if (sub == 2) c->ctr(&kc.d.vtable, civ, d.get() + off, p);
					else c->mac(&kc.d.vtable, cmac, d.get() + off, p);
					off += p;
				}
				break;
			}
			}
			const char *pname = pass ? "split-run" : "single-run";
			VF_CHECK(d.eq(rdata), "%s: %s output differs from reference at len %zu [%s] got %s want %s", desc.c_str(), pname, len, impl,
				hex(d.get(), len, 48).c_str(), hex(rdata.data(), len, 48).c_str());
			if (prim == 2) {
				// the counter returned after a final *partial* block is not
				// specified (no further call is admissible); implementations
				// differ there (ct64 counts whole blocks only) and that is fine
				if (len % 16 == 0)
					VF_CHECK(ccc == rcc, "%s: %s returned counter %08x want %08x [%s]", desc.c_str(), pname, ccc, rcc, impl);
				CMP("iv (must be untouched)", civ, iv.data(), 12);
			} else {
				CMP("chaining iv/counter", civ, riv.data(), bs);
			}
			if (prim == 3) CMP("cbc-mac", cmac, rmac.data(), 16);
		}
	}
	unsigned nonempty = 0;
	for (size_t p : parts) nonempty += p != 0;
	bool wrap = ccls.find("wrap") == 0 || ccls.find("carry") == 0 || ccls == "max";
	bool nontriv = len > bs || nonempty >= 2 || (wrap && len > 0);
	stats.cls(std::string(pn[prim]));
	if (prim == 2 || prim == 3) stats.cls("counter:" + ccls);
	stats.eval(nontriv ? fmt("%u/%u/%zu/%zu/%s/%s", prim, sub, klen, len, split_shape(parts).c_str(), ccls.c_str()) : std::string());
	if (stats.want_sample()) stats.sample(desc + fmt(" (all %zu implementations == reference, single and split)", nimpl));
}

static void run_chacha(Tape &t)
{
	std::vector<uint8_t> key = t.filled(32), iv = t.filled(12);
	size_t len = draw_len(t, 4096);
	std::vector<uint8_t> data = t.filled(len);
	std::vector<size_t> parts = draw_split(t, len, 64);
	std::string ccls;
	uint32_t cc = draw_counter(t, (len + 63) / 64, ccls);
	std::string desc = fmt("chacha20 len=%zu split=%s ctr=%s", len, split_shape(parts).c_str(), ccls.c_str());
	std::vector<uint8_t> rdata = data;
	uint32_t rcc = ref_chacha(key.data(), iv.data(), cc, rdata.data(), len);
	if ((uint64_t)cc + (len + 63) / 64 <= 0x100000000ULL) {
		// no wrap inside the stream: OpenSSL must agree with the RFC reference
		std::vector<uint8_t> o = data;
		ossl_chacha(key.data(), iv.data(), cc, o.data(), len);
		VF_CHECK(o == rdata, "%s: harness reference disagrees with OpenSSL (harness bug)", desc.c_str());
		stats.cls("chacha20:openssl-crosschecked");
	}
	for (auto &im : chacha_impls) {
		const char *impl = im.name;
		for (int pass = 0; pass < 2; pass++) {
			std::vector<size_t> pp = pass ? parts : std::vector<size_t>{ len };
			Exact d(data);
			uint32_t ccc = cc;
			size_t off = 0;
			for (size_t p : pp) { ccc = im.f(key.data(), iv.data(), ccc, d.get() + off, p); off += p; }
			VF_CHECK(d.eq(rdata), "%s: %s output differs from RFC 7539 reference [%s]", desc.c_str(), pass ? "split-run" : "single-run", impl);
			if (len % 64 == 0)   // unspecified after a final partial block, see AES-CTR
				VF_CHECK(ccc == rcc, "%s: %s returned counter %08x want %08x [%s]", desc.c_str(), pass ? "split-run" : "single-run", ccc, rcc, impl);
		}
	}
	unsigned nonempty = 0;
	for (size_t p : parts) nonempty += p != 0;
	bool nontriv = len > 64 || nonempty >= 2 || (ccls.find("wrap") == 0 && len > 0);
	stats.cls("chacha20");
	stats.cls("counter:" + ccls);
	stats.eval(nontriv ? fmt("cc/%zu/%s/%s", len, split_shape(parts).c_str(), ccls.c_str()) : std::string());
	if (stats.want_sample()) stats.sample(desc);
}

static void run_poly(Tape &t)
{
	std::vector<uint8_t> key = t.filled(32), iv = t.filled(12);
	size_t len = draw_len(t, 2048), alen = t.len(300, { 0, 1, 13, 15, 16, 17, 32, 33 });
	std::vector<uint8_t> data = t.filled(len), aad = t.filled(alen);
	bool encrypt = t.flag();
	// keys/data that stress the carry chains of the 130-bit accumulator
	unsigned edge = t.u8() % 4;
	if (edge == 1) std::fill(data.begin(), data.end(), 0xFF);
	if (edge == 2) std::fill(aad.begin(), aad.end(), 0xFF);
	std::string desc = fmt("poly1305-aead %s len=%zu aad=%zu edge=%u", encrypt ? "enc" : "dec", len, alen, edge);
	std::vector<uint8_t> rdata = data;
	uint8_t rtag[16];
	ossl_chapol(key.data(), iv.data(), rdata.data(), len, aad.data(), alen, rtag, encrypt);
	for (auto &im : poly_impls) {
		const char *impl = im.name;
		for (auto &ch : chacha_impls) {
			Exact d(data);
			Exact a(aad);
			uint8_t tag[16];
			memset(tag, 0x5A, 16);
			im.f(key.data(), iv.data(), d.get(), len, a.get(), alen, tag, ch.f, encrypt ? 1 : 0);
			VF_CHECK(d.eq(rdata), "%s: data differs from OpenSSL chacha20-poly1305 [%s/%s]", desc.c_str(), impl, ch.name);
			CMP("tag", tag, rtag, 16);
			VF_CHECK(a.eq(aad), "%s: aad modified [%s]", desc.c_str(), impl);
		}
	}
	stats.cls("poly1305");
	stats.eval((len > 16 || alen > 16) ? fmt("poly/%d/%zu/%zu/%u", encrypt, len, alen, edge) : std::string());
	if (stats.want_sample()) stats.sample(desc);
}

// Poly1305 with a chosen one-time key: the run functions take the ChaCha20 implementation as a
// parameter, so a stub that "encrypts" with the key bytes themselves as keystream hands r || s to
// the MAC.  The last data block is then SOLVED so that the accumulator ends on a chosen value near
// the prime 2^130 - 5 or near 2^130 (the carry / final-reduction corners random keys reach with
// probability ~2^-100).  Reference: big-integer Poly1305 (OpenSSL BN).
static uint32_t stub_chacha(const void *key, const void *iv, uint32_t cc, void *data, size_t len)
{
	(void)iv;
	if (cc == 0) for (size_t u = 0; u < len && u < 32; u++) ((uint8_t *)data)[u] ^= ((const uint8_t *)key)[u];
	return cc + (uint32_t)((len + 63) >> 6);
}
static BIGNUM *le_to_bn(const uint8_t *p, size_t n) { std::vector<uint8_t> be(p, p + n); std::reverse(be.begin(), be.end()); return BN_bin2bn(be.data(), (int)n, nullptr); }
static void run_poly_constructed(Tape &t)
{
	static BN_CTX *bc = BN_CTX_new();
	BIGNUM *P = BN_new(), *two128 = BN_new(), *two130 = BN_new();
	BN_one(two128); BN_lshift(two128, two128, 128);
	BN_one(two130); BN_lshift(two130, two130, 130);
	BN_copy(P, two130); BN_sub_word(P, 5);
	// r: small values and random ones, clamped as RFC 7539 says
	uint8_t rs[32];
	t.fill(rs, 32);
	unsigned rk = t.u8() % 6;
	if (rk < 4) { memset(rs, 0, 16); rs[0] = (uint8_t)(1 + t.u8() % 7); if (rk == 1) rs[4] = 4; if (rk == 2) rs[8] = 0xFC; if (rk == 3) rs[12] = 0xFC; }
	rs[3] &= 15; rs[7] &= 15; rs[11] &= 15; rs[15] &= 15; rs[4] &= 252; rs[8] &= 252; rs[12] &= 252;
	BIGNUM *r = le_to_bn(rs, 16), *sv = le_to_bn(rs + 16, 16);
	if (BN_is_zero(r)) { BN_free(P); BN_free(two128); BN_free(two130); BN_free(r); BN_free(sv); return; }
	// message: nb full blocks, the last one solved; no aad
	size_t nb = 1 + t.u8() % 3;
	std::vector<uint8_t> data = t.filled(nb * 16);
	// target accumulator value (mod p) after the footer block
	BIGNUM *T = BN_new();
	unsigned tk = t.u8() % 8;
	unsigned small = t.u8() % 12;
	switch (tk) {
	case 0: BN_set_word(T, small); break;                                            // 0..11: internal value p+k or 2^130+k
	case 1: BN_copy(T, P); BN_sub_word(T, 1 + small); break;                          // just below p
	case 2: BN_set_word(T, 1); BN_lshift(T, T, 26); BN_add_word(T, small); BN_sub_word(T, 6); break;   // around 2^26
	case 3: BN_set_word(T, 1); BN_lshift(T, T, 52); BN_sub_word(T, small); break;
	case 4: BN_copy(T, two128); BN_sub_word(T, small); break;
	case 5: BN_copy(T, two128); BN_add_word(T, small); break;
	case 6: BN_set_word(T, 1); BN_lshift(T, T, 104); BN_sub_word(T, 1 + small); break;
	default: BN_set_word(T, 5); BN_lshift(T, T, (int)(small * 10)); break;
	}
	BN_nnmod(T, T, P, bc);
	// acc after block i: (acc + m_i + 2^128) * r.  Footer block F = (0 || len) as LE: aad_len (8 bytes) | len (8 bytes)
	uint8_t foot[16] = { 0 };
	{ uint64_t L = nb * 16; for (int i = 0; i < 8; i++) foot[8 + i] = (uint8_t)(L >> (8 * i)); }
	BIGNUM *F = le_to_bn(foot, 16), *rinv = BN_new(), *acc = BN_new(), *x = BN_new(), *m = BN_new();
	BN_mod_inverse(rinv, r, P, bc);
	BN_zero(acc);
	for (size_t i = 0; i + 1 < nb; i++) { BIGNUM *mi = le_to_bn(data.data() + 16 * i, 16); BN_add(acc, acc, mi); BN_add(acc, acc, two128); BN_mod_mul(acc, acc, r, P, bc); BN_free(mi); }
	// want ((acc + m + 2^128) * r + F + 2^128) * r = T  =>  m = ((T * rinv - F - 2^128) * rinv - 2^128 - acc) mod p
	BN_mod_mul(x, T, rinv, P, bc); BN_sub(x, x, F); BN_sub(x, x, two128); BN_nnmod(x, x, P, bc);
	BN_mod_mul(x, x, rinv, P, bc); BN_sub(x, x, two128); BN_sub(x, x, acc); BN_nnmod(m, x, P, bc);
	bool fits = BN_cmp(m, two128) < 0;
	if (fits) {
		uint8_t be[16];
		BN_bn2binpad(m, be, 16);
		for (int i = 0; i < 16; i++) data[16 * (nb - 1) + (size_t)i] = be[15 - i];
	}
	// reference tag over the final data (whether or not the target was met)
	BN_zero(acc);
	for (size_t i = 0; i < nb; i++) { BIGNUM *mi = le_to_bn(data.data() + 16 * i, 16); BN_add(acc, acc, mi); BN_add(acc, acc, two128); BN_mod_mul(acc, acc, r, P, bc); BN_free(mi); }
	BN_add(acc, acc, F); BN_add(acc, acc, two128); BN_mod_mul(acc, acc, r, P, bc);
	BN_add(acc, acc, sv);
	BN_mask_bits(acc, 128);
	uint8_t want[16], be[16];
	BN_bn2binpad(acc, be, 16);
	for (int i = 0; i < 16; i++) want[i] = be[15 - i];
	std::string desc = fmt("poly1305 with chosen one-time key (r class %u), %zu block(s), accumulator target class %u+%u%s", rk, nb, tk, small, fits ? "" : " (not reachable with a 16-byte block: random last block)");
	uint8_t iv[12] = { 0 };
	for (auto &im : poly_impls) {
		const char *impl = im.name;
		// decrypt direction: the MAC is computed over the data as given, then the stub "decrypts" (discarded)
		Exact d(data);
		uint8_t tag[16];
		memset(tag, 0x5A, 16);
		im.f(rs, iv, d.get(), data.size(), nullptr, 0, tag, stub_chacha, 0);
		VF_CHECK(memcmp(tag, want, 16) == 0, "%s: tag %s, big-integer reference %s [%s]", desc.c_str(), hex(tag, 16).c_str(), hex(want, 16).c_str(), impl);
	}
	stats.cls(fits ? "poly1305-constructed" : "poly1305-chosen-key");
	stats.eval(fmt("polyc/%u/%zu/%u/%u/%d", rk, nb, tk, small, (int)fits));
	BN_free(P); BN_free(two128); BN_free(two130); BN_free(r); BN_free(sv); BN_free(T); BN_free(F); BN_free(rinv); BN_free(acc); BN_free(x); BN_free(m);
}

static void run_ghash(Tape &t)
{
	std::vector<uint8_t> h = t.filled(16), y0 = t.filled(16);
	size_t len = draw_len(t, 1024);
	std::vector<uint8_t> data = t.filled(len);
	unsigned edge = t.u8() % 5;
	if (edge == 1) std::fill(h.begin(), h.end(), 0xFF);
	if (edge == 2) { std::fill(h.begin(), h.end(), 0); h[15] = 1; }
	if (edge == 3) { std::fill(h.begin(), h.end(), 0); h[0] = 0x80; }
	if (edge == 4) std::fill(data.begin(), data.end(), 0xFF);
	std::vector<size_t> parts = draw_split(t, len, 16);
	std::string desc = fmt("ghash len=%zu split=%s edge=%u", len, split_shape(parts).c_str(), edge);
	uint8_t ry[16];
	memcpy(ry, y0.data(), 16);
	ref_ghash(ry, h.data(), data.data(), len);
	for (auto &im : ghash_impls) {
		const char *impl = im.name;
		for (int pass = 0; pass < 2; pass++) {
			std::vector<size_t> pp = pass ? parts : std::vector<size_t>{ len };
			Exact d(data);
			uint8_t y[16];
			memcpy(y, y0.data(), 16);
			size_t off = 0;
			for (size_t p : pp) { im.f(y, h.data(), d.get() + off, p); off += p; }
			CMP(pass ? "split-run y" : "single-run y", y, ry, 16);
			VF_CHECK(d.eq(data), "%s: input modified [%s]", desc.c_str(), impl);
		}
	}
	unsigned nonempty = 0;
	for (size_t p : parts) nonempty += p != 0;
	stats.cls("ghash");
	stats.eval((len > 16 || nonempty >= 2) ? fmt("gh/%zu/%s/%u", len, split_shape(parts).c_str(), edge) : std::string());
	if (stats.want_sample()) stats.sample(desc);
}

void target_run(Tape &t)
{
	unsigned prim = t.u8() % 10;
	if (prim < 6) run_aes_des(t, prim);
	else if (prim == 6) run_chacha(t);
	else if (prim == 7) run_poly(t);
	else if (prim == 9) run_poly_constructed(t);
	else run_ghash(t);
}

// Enumerator: every length 0..L for every primitive/key size with a fixed
// two-way split at every admissible cut (thorough), strided in quick.
static void put32(std::vector<uint8_t> &v, uint32_t x) { v.push_back(x >> 24); v.push_back(x >> 16); v.push_back(x >> 8); v.push_back(x); }

void target_enum(int shard, int nshards)
{
	// The tape format is that of target_run; building tapes here keeps the
	// replay path identical.  We enumerate (prim, key index, len) and leave
	// data seeds fixed and non-zero.
	bool thorough = tier_thorough();
	size_t maxlen = thorough ? 1040 : 272;
	uint64_t n = 0;
	for (unsigned prim = 0; prim < 9; prim++)
	for (unsigned ki = 0; ki < 3; ki++)
	for (size_t len = 0; len <= maxlen; len++) {
		if ((n++ % (uint64_t)nshards) != (uint64_t)shard) continue;
		std::vector<uint8_t> tp;
		tp.push_back((uint8_t)prim);
		if (prim < 6) {
			tp.push_back((uint8_t)ki);                       // key length pick
			put32(tp, 0x01020304u + (uint32_t)len);          // key seed
			tp.push_back(0);                                  // no key tweak
			tp.push_back(0);                                  // len: selector even => range
			tp.push_back((uint8_t)(len >> 8)); tp.push_back((uint8_t)len);   // range(0,4096) u16
			put32(tp, 0x11111111u * (ki + 1));                // iv seed
			put32(tp, 0x0badcafe + (uint32_t)len);            // data seed
			put32(tp, 0x33333333u);                           // mac seed
			tp.push_back(1);                                  // one extra cut
			// cut at (len/2) blocks: range(0, blocks) uses u8 when blocks < 256
			tp.push_back((uint8_t)((len / (prim >= 4 ? 8 : 16)) / 2));
			tp.push_back(3);                                  // counter class: wrap-inside (ctr)
			put32(tp, (uint32_t)len * 2654435761u);
			tp.push_back((uint8_t)(len & 3));                 // ctrcbc sub-op
		} else {
			if (ki != 0) continue;
			// chacha / poly / ghash decode their own fields; give seeds and the length
			put32(tp, 0x01020304u + (uint32_t)len);
			put32(tp, 0x0a0b0c0du);
			tp.push_back(0);
			tp.push_back((uint8_t)(len >> 8)); tp.push_back((uint8_t)len);
			for (int i = 0; i < 24; i++) tp.push_back((uint8_t)(i * 37 + len));
		}
		enum_tape(tp);
	}
	stats.exhaustive = false;   // lengths are exhaustive, data are not: not claimed as exhaustive
}
