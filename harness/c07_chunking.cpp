// C07 — streaming decoders and engines give results independent of input
// chunking.
//
// Metamorphic oracle: for each of the seven streaming consumers the complete
// observable outcome of a run in which the input is delivered in a generated
// partition (all two-chunk splits by the enumerator; one byte at a time;
// generated multi-chunk partitions with small chunks) must equal the outcome
// of the reference run in which the whole input is pushed at once.
// Inputs: fixture certificate chains and every certificate of test/x509/,
// key encodings produced by the encoders and by OpenSSL, PEM files of
// samples/ and generated multi-object texts, recorded TLS peer streams
// (full handshake + application data + close) replayed into an endpoint with
// fixed injected entropy; each also in byte-mutated and truncated variants.
#include "common/tls_session.hpp"
#include <dirent.h>
#include <map>
#include <openssl/x509.h>

using namespace vf;
using namespace tls;

const char *target_name = "c07_chunking";
const int target_tape_min = 0, target_tape_max = 48;

static std::vector<Bytes> certs;        // DER certificates (fixtures first, then test/x509/*.crt)
static std::vector<std::vector<Bytes>> chains;
static std::vector<Bytes> skeys, pkeys;
static std::vector<std::string> pems;

static std::string repo() { return env_str("VERIF_REPO", "/repo"); }

static Bytes slurp(const std::string &p) { Bytes b; FILE *f = fopen(p.c_str(), "rb"); if (!f) return b; uint8_t t[4096]; size_t r; while ((r = fread(t, 1, sizeof t, f)) > 0) b.insert(b.end(), t, t + r); fclose(f); return b; }

void target_init()
{
	auto cv = [](const br_x509_certificate &c) { return Bytes(c.data, c.data + c.data_len); };
	chains.push_back({ cv(FX_RSA_CHAIN[0]), cv(FX_RSA_CHAIN[1]) });
	chains.push_back({ cv(FX_EC_CHAIN[0]), cv(FX_EC_CHAIN[1]) });
	chains.push_back({ cv(FX_ECRSA_CHAIN[0]), cv(FX_ECRSA_CHAIN[1]) });
	for (auto &ch : chains) for (auto &c : ch) certs.push_back(c);
	std::string dir = repo() + "/test/x509";
	std::vector<std::string> names;
	if (DIR *d = opendir(dir.c_str())) {
		while (dirent *e = readdir(d)) { std::string n = e->d_name; if (n.size() > 4 && n.substr(n.size() - 4) == ".crt") names.push_back(n); }
		closedir(d);
	}
	std::sort(names.begin(), names.end());
	for (auto &n : names) { Bytes b = slurp(dir + "/" + n); if (!b.empty()) { certs.push_back(b); chains.push_back({ b }); } }
	// a few multi-certificate chains from the test directory (ee + ica2 + ica1)
	{
		Bytes ee = slurp(dir + "/ee.crt"), i2 = slurp(dir + "/ica2.crt"), i1 = slurp(dir + "/ica1.crt");
		if (!ee.empty() && !i2.empty() && !i1.empty()) chains.push_back({ ee, i2, i1 });
	}
	// private keys: encoder output for the fixture keys
	{
		uint8_t buf[4096];
		// RSA raw DER needs n, e, d: use OpenSSL's own encoding of the PEM fixture instead
		for (const char *pem : { FX_RSA_SKEY_PEM, FX_EC_SKEY_PEM }) {
			BIO *b = BIO_new_mem_buf(pem, -1);
			EVP_PKEY *k = PEM_read_bio_PrivateKey(b, nullptr, nullptr, nullptr);
			BIO_free(b);
			unsigned char *d = nullptr;
			int l = i2d_PrivateKey(k, &d);
			skeys.push_back(Bytes(d, d + l));
			OPENSSL_free(d);
			PKCS8_PRIV_KEY_INFO *p8 = EVP_PKEY2PKCS8(k);
			d = nullptr;
			l = i2d_PKCS8_PRIV_KEY_INFO(p8, &d);
			skeys.push_back(Bytes(d, d + l));
			OPENSSL_free(d);
			PKCS8_PRIV_KEY_INFO_free(p8);
			d = nullptr;
			l = i2d_PUBKEY(k, &d);
			pkeys.push_back(Bytes(d, d + l));
			OPENSSL_free(d);
			EVP_PKEY_free(k);
		}
		size_t l = br_encode_ec_raw_der(buf, &FX_EC_SKEY, nullptr);
		skeys.push_back(Bytes(buf, buf + l));
		l = br_encode_ec_pkcs8_der(buf, &FX_EC_SKEY, nullptr);
		skeys.push_back(Bytes(buf, buf + l));
	}
	// public keys of the first certificates
	for (size_t i = 0; i < certs.size() && i < 14; i++) {
		const unsigned char *p = certs[i].data();
		X509 *x = d2i_X509(nullptr, &p, (long)certs[i].size());
		if (!x) continue;
		unsigned char *d = nullptr;
		int l = i2d_PUBKEY(X509_get0_pubkey(x), &d);
		if (l > 0) pkeys.push_back(Bytes(d, d + l));
		OPENSSL_free(d);
		X509_free(x);
	}
	for (const char *f : { "cert-ee-rsa.pem", "key-ee-rsa.pem", "cert-ica-ec.pem", "key-ee-ec.pem", "cert-root-rsa.pem" }) {
		Bytes b = slurp(repo() + "/samples/" + f);
		if (!b.empty()) pems.push_back(std::string(b.begin(), b.end()));
	}
	if (pems.size() >= 2) {
		std::string crlf;
		for (char c : pems[0]) { if (c == '\n') crlf += "\r\n"; else crlf += c; }
		pems.push_back(crlf);
		pems.push_back("junk line\n" + pems[1] + "\n\n-----BEGIN X-----\nQUJD*\n-----END X-----\n" + pems[0] + "trailing");
		pems.push_back(crlf + "-----BEGIN B-----\r\nQQ==\r\n-----END B-----\r\n");
	}
	stats.notes["inputs"] = fmt("%zu certificates, %zu chains, %zu private-key encodings, %zu public-key encodings, %zu PEM texts", certs.size(), chains.size(), skeys.size(), pkeys.size(), pems.size());
}

// a partition of [0, n): list of chunk lengths
static std::vector<size_t> draw_partition(Tape &t, size_t n)
{
	std::vector<size_t> p;
	unsigned mode = t.u8() % 5;
	if (mode == 0) { for (size_t i = 0; i < n; i++) p.push_back(1); return p; }      // one byte at a time
	if (mode == 1) { size_t c = n ? t.range(0, n) : 0; p.push_back(c); p.push_back(n - c); return p; }   // two chunks
	size_t done = 0;
	while (done < n) {
		unsigned r = t.u8();
		size_t k = mode == 2 ? 1 + r % 7 : mode == 3 ? 1 + r % 64 : (r < 128 ? 1 + r % 3 : 50 + r * 3);
		if (t.exhausted()) k = n - done;
		if (k > n - done) k = n - done;
		p.push_back(k);
		done += k;
	}
	return p;
}
static std::string part_desc(const std::vector<size_t> &p)
{
	if (p.size() > 6) return fmt("%zu chunks (first %zu,%zu,%zu..)", p.size(), p[0], p[1], p[2]);
	std::string s;
	for (size_t k : p) s += fmt("%zu,", k);
	return s;
}

// mutate an input: none, one byte altered, truncated
static Bytes mutate(Tape &t, const Bytes &in, std::string &md)
{
	unsigned m = t.u8() % 6;
	Bytes b = in;
	if (m == 3 && !b.empty()) { size_t pos = t.u16() % b.size(); uint8_t x = (uint8_t)(1 + t.u8() % 255); b[pos] ^= x; md = fmt(" mutated@%zu^%02x", pos, x); }
	else if (m == 4 && !b.empty()) { size_t cut = t.u16() % b.size(); b.resize(cut); md = fmt(" truncated@%zu", cut); }
	else if (m == 5) { size_t n = 1 + t.u8() % 4; for (size_t i = 0; i < n; i++) b.push_back((uint8_t)(i * 77)); md = " +trailing bytes"; }
	return b;
}

#define SAME(a, b, what) VF_CHECK((a) == (b), "%s: %s differs between the one-push run and the chunked run [%s]", desc.c_str(), what, pd.c_str())

// ---------------------------------------------------------------- x509_minimal
struct MinOut { unsigned err; Bytes key; unsigned usages; int key_type; int st[3]; std::string names[3]; bool operator==(const MinOut &o) const {
	return err == o.err && key == o.key && usages == o.usages && key_type == o.key_type && !memcmp(st, o.st, sizeof st) && names[0] == o.names[0] && names[1] == o.names[1] && names[2] == o.names[2]; } };
static MinOut run_minimal(const std::vector<Bytes> &chain, const char *sname, const std::vector<std::vector<size_t>> &parts, size_t nbuf)
{
	br_x509_minimal_context xc;
	br_x509_minimal_init_full(&xc, FX_TAS, FX_TAS_NUM);
	br_x509_minimal_set_time(&xc, VALID_DAYS, VALID_SECS);
	static const unsigned char OID_CN[] = { 0x03, 0x55, 0x04, 0x03 }, SAN_DNS[] = { 0x00, 0x02 }, OID_O[] = { 0x03, 0x55, 0x04, 0x0A };
	char nb[3][64];
	br_name_element ne[3] = { { OID_CN, nb[0], nbuf, 0 }, { SAN_DNS, nb[1], nbuf, 0 }, { OID_O, nb[2], nbuf, 0 } };
	memset(nb, 0x7A, sizeof nb);
	br_x509_minimal_set_name_elements(&xc, ne, 3);
	xc.vtable->start_chain(&xc.vtable, sname);
	for (size_t i = 0; i < chain.size(); i++) {
		xc.vtable->start_cert(&xc.vtable, (uint32_t)chain[i].size());
		size_t off = 0;
		for (size_t k : parts[i]) { if (k) xc.vtable->append(&xc.vtable, chain[i].data() + off, k); off += k; }   // (the class contract: len is never zero)
		xc.vtable->end_cert(&xc.vtable);
	}
	MinOut o;
	o.err = xc.vtable->end_chain(&xc.vtable);
	unsigned us = 0;
	const br_x509_pkey *pk = xc.vtable->get_pkey(&xc.vtable, &us);
	o.usages = pk ? us : 0;
	o.key_type = pk ? pk->key_type : 0;
	if (pk && pk->key_type == BR_KEYTYPE_RSA) { o.key.assign(pk->key.rsa.n, pk->key.rsa.n + pk->key.rsa.nlen); o.key.insert(o.key.end(), pk->key.rsa.e, pk->key.rsa.e + pk->key.rsa.elen); }
	if (pk && pk->key_type == BR_KEYTYPE_EC) { o.key.assign(pk->key.ec.q, pk->key.ec.q + pk->key.ec.qlen); o.key.push_back((uint8_t)pk->key.ec.curve); }
	for (int i = 0; i < 3; i++) { o.st[i] = ne[i].status; if (ne[i].status == 1) o.names[i] = std::string(nb[i], strnlen(nb[i], nbuf)); }
	return o;
}
static void k_minimal(Tape &t, bool two_chunk_enum = false, size_t ci = 0, size_t cut = 0)
{
	size_t idx = two_chunk_enum ? ci : t.u8() % chains.size();
	std::vector<Bytes> chain = chains[idx];
	std::string md;
	if (!two_chunk_enum) { size_t which = t.u8() % chain.size(); chain[which] = mutate(t, chain[which], md); }
	const char *sn = two_chunk_enum ? "localhost" : t.pick<const char *>({ "localhost", "www.example.com", nullptr, "LOCALHOST" });
	size_t nbuf = two_chunk_enum ? 64 : t.pick<size_t>({ 64, 1, 5, 10 });
	std::vector<std::vector<size_t>> whole, parts;
	std::string pd;
	size_t pos = 0;
	for (auto &c : chain) {
		whole.push_back({ c.size() });
		if (two_chunk_enum) {
			// the cut position counts over the concatenated chain
			if (cut >= pos && cut < pos + c.size()) parts.push_back({ cut - pos, c.size() - (cut - pos) }); else parts.push_back({ c.size() });
			pos += c.size();
		} else parts.push_back(draw_partition(t, c.size()));
		pd += part_desc(parts.back()) + " | ";
	}
	std::string desc = fmt("x509_minimal chain #%zu (%zu certs)%s name=%s namebuf=%zu", idx, chain.size(), md.c_str(), sn ? sn : "(none)", nbuf);
	MinOut a = run_minimal(chain, sn, whole, nbuf), b = run_minimal(chain, sn, parts, nbuf);
	VF_CHECK(a == b, "%s: outcome differs between the one-push run (err %u, key %zu bytes, names %d/%d/%d) and the chunked run (err %u, key %zu bytes, names %d/%d/%d) [%s]", desc.c_str(),
		a.err, a.key.size(), a.st[0], a.st[1], a.st[2], b.err, b.key.size(), b.st[0], b.st[1], b.st[2], pd.c_str());
	stats.cls(fmt("x509_minimal:err=%u", a.err));
	stats.eval(fmt("min/%zu/%s/%s", idx, md.c_str(), pd.c_str()));
}

// ---------------------------------------------------------------- x509_decoder
struct DecOut { int err; Bytes key, dn, in; int isca, sigtype; bool operator==(const DecOut &o) const { return err == o.err && key == o.key && dn == o.dn && in == o.in && isca == o.isca && sigtype == o.sigtype; } };
static void dn_cb(void *ctx, const void *buf, size_t len) { Bytes *b = (Bytes *)ctx; b->insert(b->end(), (const uint8_t *)buf, (const uint8_t *)buf + len); }
static DecOut run_x509dec(const Bytes &c, const std::vector<size_t> &parts)
{
	DecOut o;
	br_x509_decoder_context dc;
	br_x509_decoder_init(&dc, dn_cb, &o.dn, dn_cb, &o.in);
	size_t off = 0;
	for (size_t k : parts) { br_x509_decoder_push(&dc, c.data() + off, k); off += k; }
	o.err = br_x509_decoder_last_error(&dc);
	const br_x509_pkey *pk = br_x509_decoder_get_pkey(&dc);
	VF_CHECK((o.err == 0) == (pk != nullptr) || (o.err == 0 && !pk) == false, "x509_decoder: last_error=%d but get_pkey %s", o.err, pk ? "non-NULL" : "NULL");
	if (pk && pk->key_type == BR_KEYTYPE_RSA) { o.key.assign(pk->key.rsa.n, pk->key.rsa.n + pk->key.rsa.nlen); o.key.insert(o.key.end(), pk->key.rsa.e, pk->key.rsa.e + pk->key.rsa.elen); }
	if (pk && pk->key_type == BR_KEYTYPE_EC) o.key.assign(pk->key.ec.q, pk->key.ec.q + pk->key.ec.qlen);
	o.isca = pk ? br_x509_decoder_isCA(&dc) : -1;
	o.sigtype = pk ? br_x509_decoder_get_signer_key_type(&dc) : -1;
	if (o.err != 0) { o.dn.clear(); o.in.clear(); }   // callback granularity before a failure is not an outcome
	return o;
}
// ---------------------------------------------------------------- key decoders
struct KeyOut { int err, type; Bytes fields; bool operator==(const KeyOut &o) const { return err == o.err && type == o.type && fields == o.fields; } };
static KeyOut run_skey(const Bytes &c, const std::vector<size_t> &parts)
{
	KeyOut o;
	br_skey_decoder_context dc;
	br_skey_decoder_init(&dc);
	size_t off = 0;
	for (size_t k : parts) { br_skey_decoder_push(&dc, c.data() + off, k); off += k; }
	o.err = br_skey_decoder_last_error(&dc);
	o.type = br_skey_decoder_key_type(&dc);
	if (o.err == 0 && o.type == BR_KEYTYPE_RSA) {
		const br_rsa_private_key *k = br_skey_decoder_get_rsa(&dc);
		for (auto pr : { std::make_pair(k->p, k->plen), std::make_pair(k->q, k->qlen), std::make_pair(k->dp, k->dplen), std::make_pair(k->dq, k->dqlen), std::make_pair(k->iq, k->iqlen) }) { o.fields.insert(o.fields.end(), pr.first, pr.first + pr.second); o.fields.push_back(0xFE); }
		o.fields.push_back((uint8_t)(k->n_bitlen >> 8)); o.fields.push_back((uint8_t)k->n_bitlen);
	}
	if (o.err == 0 && o.type == BR_KEYTYPE_EC) { const br_ec_private_key *k = br_skey_decoder_get_ec(&dc); o.fields.assign(k->x, k->x + k->xlen); o.fields.push_back((uint8_t)k->curve); }
	return o;
}
static KeyOut run_pkey(const Bytes &c, const std::vector<size_t> &parts)
{
	KeyOut o;
	br_pkey_decoder_context dc;
	br_pkey_decoder_init(&dc);
	size_t off = 0;
	for (size_t k : parts) { br_pkey_decoder_push(&dc, c.data() + off, k); off += k; }
	o.err = br_pkey_decoder_last_error(&dc);
	o.type = br_pkey_decoder_key_type(&dc);
	if (o.err == 0 && o.type == BR_KEYTYPE_RSA) { const br_rsa_public_key *k = br_pkey_decoder_get_rsa(&dc); o.fields.assign(k->n, k->n + k->nlen); o.fields.push_back(0xFE); o.fields.insert(o.fields.end(), k->e, k->e + k->elen); }
	if (o.err == 0 && o.type == BR_KEYTYPE_EC) { const br_ec_public_key *k = br_pkey_decoder_get_ec(&dc); o.fields.assign(k->q, k->q + k->qlen); o.fields.push_back((uint8_t)k->curve); }
	return o;
}
// ---------------------------------------------------------------- PEM
struct PemOut { std::string trace; size_t consumed; bool operator==(const PemOut &o) const { return trace == o.trace && consumed == o.consumed; } };
static void pem_cb(void *ctx, const void *src, size_t len) { std::string *s = (std::string *)ctx; s->append(hex(src, len, len)); }
static PemOut run_pem(const std::string &text, const std::vector<size_t> &parts, bool with_dest)
{
	PemOut o;
	br_pem_decoder_context pc;
	br_pem_decoder_init(&pc);
	std::string payload;
	size_t off = 0;
	o.consumed = 0;
	for (size_t k : parts) {
		size_t done = 0;
		unsigned guard = 0;
		while (done < k) {
			size_t c = br_pem_decoder_push(&pc, text.data() + off + done, k - done);
			VF_CHECK(c <= k - done, "br_pem_decoder_push consumed %zu of %zu bytes", c, k - done);
			done += c;
			o.consumed += c;
			int ev = br_pem_decoder_event(&pc);
			if (ev == BR_PEM_BEGIN_OBJ) { o.trace += std::string("[BEGIN ") + br_pem_decoder_name(&pc) + "]"; payload.clear(); if (with_dest) br_pem_decoder_setdest(&pc, pem_cb, &payload); }
			else if (ev == BR_PEM_END_OBJ) { o.trace += payload + "[END]"; payload.clear(); }
			else if (ev == BR_PEM_ERROR) { o.trace += "[ERROR]"; payload.clear(); }   // bytes of a failed object are not an outcome
			else if (c == 0) VF_CHECK(++guard < 100, "PEM decoder makes no progress");
		}
		off += k;
	}
	return o;
}

static void k_decoders(Tape &t, unsigned which)
{
	std::string md, pd;
	if (which == 1) {
		size_t idx = t.u8() % certs.size();
		Bytes in = mutate(t, certs[idx], md);
		std::vector<size_t> p = draw_partition(t, in.size());
		pd = part_desc(p);
		std::string desc = fmt("x509_decoder cert #%zu%s", idx, md.c_str());
		DecOut a = run_x509dec(in, { in.size() }), b = run_x509dec(in, p);
		VF_CHECK(a == b, "%s: outcome differs: one push err=%d key=%zu dn=%zu issuer=%zu isCA=%d; chunked err=%d key=%zu dn=%zu issuer=%zu isCA=%d [%s]", desc.c_str(),
			a.err, a.key.size(), a.dn.size(), a.in.size(), a.isca, b.err, b.key.size(), b.dn.size(), b.in.size(), b.isca, pd.c_str());
		stats.cls(fmt("x509_decoder:err=%d", a.err));
		stats.eval(fmt("dec/%zu/%s/%s", idx, md.c_str(), pd.c_str()));
	} else if (which == 2 || which == 3) {
		const std::vector<Bytes> &pool = which == 2 ? skeys : pkeys;
		size_t idx = t.u8() % pool.size();
		Bytes in = mutate(t, pool[idx], md);
		std::vector<size_t> p = draw_partition(t, in.size());
		pd = part_desc(p);
		std::string desc = fmt("%s_decoder input #%zu%s", which == 2 ? "skey" : "pkey", idx, md.c_str());
		KeyOut a = which == 2 ? run_skey(in, { in.size() }) : run_pkey(in, { in.size() }), b = which == 2 ? run_skey(in, p) : run_pkey(in, p);
		VF_CHECK(a == b, "%s: outcome differs: one push err=%d type=%d; chunked err=%d type=%d [%s]", desc.c_str(), a.err, a.type, b.err, b.type, pd.c_str());
		stats.cls(fmt("%s:err=%d", which == 2 ? "skey_decoder" : "pkey_decoder", a.err));
		stats.eval(fmt("key%u/%zu/%s/%s", which, idx, md.c_str(), pd.c_str()));
	} else {
		size_t idx = t.u8() % pems.size();
		std::string text = pems[idx];
		unsigned m = t.u8() % 5;
		if (m == 3 && !text.empty()) { size_t pos = t.u16() % text.size(); text[pos] = (char)t.pick<int>({ '*', '=', '-', '\r', '\n', ' ', 'A' }); md = fmt(" char@%zu replaced", pos); }
		if (m == 4 && !text.empty()) { text.resize(t.u16() % text.size()); md = " truncated"; }
		std::vector<size_t> p = draw_partition(t, text.size());
		pd = part_desc(p);
		bool wd = t.u8() % 4 != 0;
		std::string desc = fmt("pem_decoder text #%zu%s%s", idx, md.c_str(), wd ? "" : " (no destination)");
		PemOut a = run_pem(text, { text.size() }, wd), b = run_pem(text, p, wd);
		VF_CHECK(a == b, "%s: event/name/payload sequence or bytes consumed differ (one push: %zu events chars, consumed %zu; chunked: %zu, consumed %zu) [%s]: %s  VS  %s", desc.c_str(),
			a.trace.size(), a.consumed, b.trace.size(), b.consumed, pd.c_str(), a.trace.substr(0, 120).c_str(), b.trace.substr(0, 120).c_str());
		stats.cls("pem_decoder");
		stats.eval(fmt("pem/%zu/%s/%s/%d", idx, md.c_str(), pd.c_str(), wd));
	}
}

// ---------------------------------------------------------------- TLS endpoints
struct TlsRec { Bytes to_client, to_server; bool ok; };
static std::map<unsigned, TlsRec> recs;
static const uint16_t TLS_SUITES[] = { 0xC02F, 0x002F, 0xCCA9, 0xC02B, 0x009C, 0x000A };

static void tls_profiles(unsigned cfg, Profile &cp, Profile &sp, unsigned &version)
{
	const wt::SuiteInfo *si = wt::suite_by_id(TLS_SUITES[cfg % 6]);
	version = si->tls12_only ? 0x0303 : 0x0301 + (cfg / 6) % 3;
	cp.suites = { si->id }; sp.suites = { si->id };
	cp.vmin = cp.vmax = sp.vmin = sp.vmax = version;
	sp.key = keys_for(si)[0];
	cp.layout = sp.layout = (cfg & 32) ? L_MONO : L_SPLIT;
	sp.client_auth = (cfg & 64) != 0;
	cp.client_auth = sp.client_auth;
	for (int i = 0; i < 32; i++) { cp.entropy[i] = (uint8_t)(cfg + i * 3 + 1); sp.entropy[i] = (uint8_t)(cfg * 7 + i + 9); }
}
static const TlsRec &tls_record(unsigned cfg)
{
	auto it = recs.find(cfg);
	if (it != recs.end()) return it->second;
	Profile cp, sp;
	unsigned version;
	tls_profiles(cfg, cp, sp, version);
	BearClient c(cp);
	BearServer s(sp);
	TlsRec r;
	r.ok = c.reset() && s.reset();
	Session S(&c, &s);
	S.keep_out = true;
	S.script[0].push_back(Item{ IT_WRITE, 300, true });
	S.script[1].push_back(Item{ IT_WRITE, 700, true });
	S.script[0].push_back(Item{ IT_WAIT_PEER_IDLE, 0, true });
	S.script[0].push_back(Item{ IT_CLOSE, 0, true });
	S.run(400000);
	r.ok = r.ok && S.established && c.error() == 0 && s.error() == 0;
	r.to_client = S.all_out[1];
	r.to_server = S.all_out[0];
	recs[cfg] = r;
	return recs[cfg];
}
struct TlsOut { Bytes emitted, delivered; unsigned state; int err; Bytes master; bool operator==(const TlsOut &o) const { return emitted == o.emitted && delivered == o.delivered && state == o.state && err == o.err && master == o.master; } };
static TlsOut run_tls(unsigned cfg, bool client, const Bytes &in, const std::vector<size_t> &parts)
{
	Profile cp, sp;
	unsigned version;
	tls_profiles(cfg, cp, sp, version);
	std::unique_ptr<BearClient> c;
	std::unique_ptr<BearServer> s;
	BearEndpoint *e;
	if (client) { c.reset(new BearClient(cp)); c->reset(); e = c.get(); } else { s.reset(new BearServer(sp)); s->reset(); e = s.get(); }
	TlsOut o;
	size_t off = 0, wrote = 0;
	uint64_t seed = client ? 0x1111 : 0x2222;     // the application writes the same bytes as in the recorded session
	size_t want_write = client ? 300 : 700;
	auto drain = [&]() {
		for (int guard = 0; guard < 100000; guard++) {
			bool prog = false;
			const uint8_t *p;
			size_t n;
			if ((n = e->app_in_peek(&p)) > 0) { o.delivered.insert(o.delivered.end(), p, p + n); e->app_in_ack(n); prog = true; }
			if (wrote < want_write && e->ready()) {
				size_t room = e->app_out_room(), k = std::min(room, want_write - wrote);
				if (k) { Bytes tmp(k); for (size_t i = 0; i < k; i++) tmp[i] = stream_byte(seed, wrote + i); e->app_out(tmp.data(), k); wrote += k; if (wrote == want_write) e->flush(false); prog = true; }
			}
			if ((n = e->wire_out_peek(&p)) > 0) { o.emitted.insert(o.emitted.end(), p, p + n); e->wire_out_ack(n); prog = true; }
			if (!prog) break;
		}
	};
	drain();
	for (size_t k : parts) {
		size_t done = 0;
		while (done < k && !e->closed()) {
			size_t room = e->wire_in_room();
			if (!room) { drain(); room = e->wire_in_room(); if (!room) break; }
			size_t c2 = std::min(room, k - done);
			e->wire_in(in.data() + off + done, c2);
			done += c2;
			drain();     // output is drained fully after every push in both runs
		}
		off += k;
	}
	o.state = e->state();
	o.err = e->error();
	br_ssl_session_parameters spp;
	br_ssl_engine_get_session_parameters(e->eng, &spp);
	o.master.assign(spp.master_secret, spp.master_secret + 48);
	return o;
}
// One extra cleartext record spliced in at one of the first record
// boundaries of the peer stream (all before the peer's ChangeCipherSpec for
// boundary 0..2): mostly alert records whose payload holds a close_notify or
// another alert followed by further bytes, the input for which "what was
// available when the alert was looked at" could matter.
static Bytes splice_record(Tape &t, const Bytes &in, std::string &md)
{
	std::vector<size_t> bounds;
	size_t off = 0;
	while (off + 5 <= in.size() && bounds.size() < 4) { bounds.push_back(off); off += 5 + ((size_t)in[off + 3] << 8 | in[off + 4]); }
	if (bounds.empty()) return in;
	size_t pos = bounds[t.u8() % bounds.size()];
	unsigned type = t.pick<unsigned>({ 21, 21, 21, 21, 22, 20, 23 });
	static const uint8_t HEADS[][2] = { { 1, 0 }, { 1, 0 }, { 1, 0 }, { 2, 40 }, { 1, 100 }, { 1, 90 }, { 2, 0 }, { 0, 0 } };
	unsigned h = t.u8() % 8;
	size_t n = t.u8() % 7;
	Bytes pl;
	if (n >= 1) pl.push_back(HEADS[h][0]);
	if (n >= 2) pl.push_back(HEADS[h][1]);
	for (size_t i = 2; i < n; i++) pl.push_back(t.pick<uint8_t>({ 1, 0, 2, 40, 1, 0 }));
	if (t.u8() % 8 == 7) pl.resize(pl.size() + 900 + t.u8() * 4, 1);   // a record larger than a small input buffer
	Bytes rec = { (uint8_t)type, in[1], in[2], (uint8_t)(pl.size() >> 8), (uint8_t)pl.size() };
	rec.insert(rec.end(), pl.begin(), pl.end());
	Bytes out(in.begin(), in.begin() + pos);
	out.insert(out.end(), rec.begin(), rec.end());
	out.insert(out.end(), in.begin() + pos, in.end());
	md = fmt(" +type-%u record [%s%s] at offset %zu", type, hex(pl.data(), std::min<size_t>(pl.size(), 8)).c_str(), pl.size() > 8 ? ".." : "", pos);
	return out;
}

static void k_tls(Tape &t, bool client)
{
	unsigned cfg = t.u8() & 0x7F;
	const TlsRec &r = tls_record(cfg);
	VF_CHECK(r.ok, "harness: reference TLS session %u failed", cfg);
	std::string md, pd;
	Bytes in = mutate(t, client ? r.to_client : r.to_server, md);
	if (md.empty() && t.u8() % 2) in = splice_record(t, in, md);
	std::vector<size_t> p = draw_partition(t, in.size());
	pd = part_desc(p);
	std::string desc = fmt("TLS %s, session config %u%s (%zu bytes of peer stream)", client ? "client" : "server", cfg, md.c_str(), in.size());
	TlsOut a = run_tls(cfg, client, in, { in.size() }), b = run_tls(cfg, client, in, p);
	VF_CHECK(a == b, "%s: one push: emitted %zu bytes, delivered %zu, state %#x, error %d; chunked: emitted %zu, delivered %zu, state %#x, error %d%s [%s]", desc.c_str(),
		a.emitted.size(), a.delivered.size(), a.state, a.err, b.emitted.size(), b.delivered.size(), b.state, b.err, a.emitted != b.emitted ? " (emitted bytes differ)" : "", pd.c_str());
	if (md.empty()) VF_CHECK(a.err == 0 && a.delivered.size() == (client ? 700u : 300u), "%s: unmodified replay did not reproduce the session (error %d, %zu bytes delivered)", desc.c_str(), a.err, a.delivered.size());
	stats.cls(client ? "tls-client" : "tls-server");
	stats.eval(fmt("tls/%d/%u/%s/%s", client, cfg, md.c_str(), pd.c_str()));
	if (stats.want_sample()) stats.sample(desc + " [" + pd + "]");
}

// explicit two-chunk case (what the enumerator emits: a failure has an exact replay tape)
static void explicit_case(unsigned consumer, size_t idx, size_t cut)
{
	std::string pd, desc;
	switch (consumer) {
	case 0: { if (idx >= chains.size()) return; Tape t0(nullptr, 0); k_minimal(t0, true, idx, cut); break; }
	case 1: {
		if (idx >= certs.size() || cut > certs[idx].size()) return;
		DecOut a = run_x509dec(certs[idx], { certs[idx].size() }), b = run_x509dec(certs[idx], { cut, certs[idx].size() - cut });
		VF_CHECK(a == b, "x509_decoder cert #%zu: two-chunk split at %zu changes the outcome (err %d vs %d, key %zu vs %zu bytes, isCA %d vs %d)", idx, cut, a.err, b.err, a.key.size(), b.key.size(), a.isca, b.isca);
		stats.eval_h(fnv(fmt("e/dec/%zu/%zu", idx, cut)));
		break;
	}
	case 2: case 3: {
		const std::vector<Bytes> &pool = consumer == 2 ? skeys : pkeys;
		if (idx >= pool.size() || cut > pool[idx].size()) return;
		KeyOut a = consumer == 2 ? run_skey(pool[idx], { pool[idx].size() }) : run_pkey(pool[idx], { pool[idx].size() });
		KeyOut b = consumer == 2 ? run_skey(pool[idx], { cut, pool[idx].size() - cut }) : run_pkey(pool[idx], { cut, pool[idx].size() - cut });
		VF_CHECK(a == b, "%s decoder input #%zu: two-chunk split at %zu changes the outcome (err %d vs %d)", consumer == 2 ? "skey" : "pkey", idx, cut, a.err, b.err);
		stats.eval_h(fnv(fmt("e/key%u/%zu/%zu", consumer, idx, cut)));
		break;
	}
	case 4: {
		if (idx >= pems.size() || cut > pems[idx].size()) return;
		PemOut a = run_pem(pems[idx], { pems[idx].size() }, true), b = run_pem(pems[idx], { cut, pems[idx].size() - cut }, true);
		VF_CHECK(a == b, "pem_decoder text #%zu: two-chunk split at %zu changes the outcome: %s VS %s", idx, cut, a.trace.substr(0, 100).c_str(), b.trace.substr(0, 100).c_str());
		stats.eval_h(fnv(fmt("e/pem/%zu/%zu", idx, cut)));
		break;
	}
	default: {
		bool client = consumer == 5;
		unsigned cfg = (unsigned)idx & 0x7F;
		const TlsRec &r = tls_record(cfg);
		VF_CHECK(r.ok, "harness: TLS reference session %u failed", cfg);
		const Bytes &in = client ? r.to_client : r.to_server;
		if (cut > in.size()) return;
		static std::map<std::pair<unsigned, bool>, TlsOut> refs;
		auto key = std::make_pair(cfg, client);
		if (!refs.count(key)) refs[key] = run_tls(cfg, client, in, { in.size() });
		TlsOut &a = refs[key], b = run_tls(cfg, client, in, { cut, in.size() - cut });
		VF_CHECK(a == b, "TLS %s session %u: two-chunk split at %zu of %zu changes the outcome (emitted %zu vs %zu bytes, error %d vs %d)", client ? "client" : "server", cfg, cut, in.size(),
			a.emitted.size(), b.emitted.size(), a.err, b.err);
		stats.eval_h(fnv(fmt("e/tls/%u/%d/%zu", cfg, client, cut)));
	}
	}
}

void target_run(Tape &t)
{
	unsigned k0 = t.u8();
	if (k0 == 0xF0) { unsigned c = t.u8(); size_t idx = t.u16(); size_t cut = t.u32(); explicit_case(c, idx, cut); return; }
	unsigned k = k0 % 16;
	if (k < 3) k_minimal(t);
	else if (k < 6) k_decoders(t, 1);
	else if (k < 8) k_decoders(t, 2);
	else if (k < 10) k_decoders(t, 3);
	else if (k < 12) k_decoders(t, 4);
	else if (k < 14) k_tls(t, true);
	else k_tls(t, false);
}

// Enumerator: EVERY two-chunk split of: certificates (x509_decoder), the
// fixture chains (x509_minimal), every key encoding, every PEM text, and the
// recorded peer streams of three TLS sessions for client and server.
void target_enum(int shard, int nshards)
{
	uint64_t n = 0;
	bool thorough = tier_thorough();
	auto emit = [&](unsigned consumer, size_t idx, size_t cut) {
		if ((n++ % (uint64_t)nshards) != (uint64_t)shard) return;
		enum_tape({ 0xF0, (uint8_t)consumer, (uint8_t)(idx >> 8), (uint8_t)idx, (uint8_t)(cut >> 24), (uint8_t)(cut >> 16), (uint8_t)(cut >> 8), (uint8_t)cut });
	};
	for (size_t i = 0; i < certs.size(); i++) {
		if (!thorough && i >= 12 && i % 4) continue;
		for (size_t cut = 0; cut <= certs[i].size(); cut++) emit(1, i, cut);
	}
	for (size_t i = 0; i < 3 + (thorough ? 8u : 0u) && i < chains.size(); i++) {
		size_t total = 0;
		for (auto &c : chains[i]) total += c.size();
		for (size_t cut = 0; cut < total; cut += (thorough || i >= 3) ? 1 : 2) emit(0, i, cut);
	}
	for (size_t i = 0; i < skeys.size(); i++) for (size_t cut = 0; cut <= skeys[i].size(); cut++) emit(2, i, cut);
	for (size_t i = 0; i < pkeys.size(); i++) for (size_t cut = 0; cut <= pkeys[i].size(); cut++) emit(3, i, cut);
	for (size_t i = 0; i < pems.size(); i++) for (size_t cut = 0; cut <= pems[i].size(); cut++) emit(4, i, cut);
	for (unsigned cfg : { 0u, 1u + 32u, 2u + 64u }) {
		const TlsRec &r = tls_record(cfg);
		for (int client = 0; client < 2; client++) {
			const Bytes &in = client ? r.to_client : r.to_server;
			for (size_t cut = 0; cut <= in.size(); cut += thorough ? 1 : 3) emit(client ? 5 : 6, cfg, cut);
		}
	}
	stats.exhaustive = thorough;
}
