// Stats output, case execution wrapper, crash-time tape dump.
#include "vf.hpp"
#include "core.hpp"
#include <unistd.h>
#include <signal.h>
#include <fcntl.h>

extern "C" void __sanitizer_set_death_callback(void (*)(void)) __attribute__((weak));

namespace vf {

Stats stats;

static const uint8_t *cur_tape;
static size_t cur_tape_len;
static bool flushed_once;
std::string violation_msg;
std::string violation_replay;

static std::string out_dir() { return env_str("VERIF_OUT", "."); }

std::string replay_out_path()
{
	std::string p = env_str("VERIF_REPLAY_OUT", "");
	if (!p.empty()) return p;
	return out_dir() + "/" + target_name + "." + std::to_string((long)getpid()) + ".tape";
}

void write_file(const std::string &path, const void *p, size_t n)
{
	int fd = open(path.c_str(), O_WRONLY | O_CREAT | O_TRUNC, 0644);
	if (fd < 0) return;
	const char *b = (const char *)p;
	while (n) { ssize_t w = write(fd, b, n); if (w <= 0) break; b += w; n -= (size_t)w; }
	close(fd);
}

bool read_file(const std::string &path, std::vector<uint8_t> &out)
{
	FILE *f = fopen(path.c_str(), "rb");
	if (!f) return false;
	uint8_t buf[65536];
	size_t r;
	out.clear();
	while ((r = fread(buf, 1, sizeof buf, f)) > 0) out.insert(out.end(), buf, buf + r);
	fclose(f);
	return true;
}

void Stats::flush()
{
	std::string path = out_dir() + "/" + (target.empty() ? target_name : target.c_str())
		+ "." + std::to_string((long)getpid()) + ".json";
	FILE *f = fopen(path.c_str(), "w");
	if (!f) return;
	fprintf(f, "{\"target\":\"%s\",\"cases\":%llu,\"evals\":%llu,\"nontrivial\":%llu,\"excluded\":%llu,\"exhaustive\":%s,\n",
		jesc(target.empty() ? target_name : target).c_str(),
		(unsigned long long)cases, (unsigned long long)evals,
		(unsigned long long)nontrivial, (unsigned long long)excluded,
		exhaustive ? "true" : "false");
	fprintf(f, "\"distinct_count\":%llu,\n", (unsigned long long)distinct.size());
	fprintf(f, "\"classes\":{");
	bool first = true;
	for (auto &kv : classes) {
		fprintf(f, "%s\"%s\":%llu", first ? "" : ",", jesc(kv.first).c_str(), (unsigned long long)kv.second);
		first = false;
	}
	fprintf(f, "},\n\"known\":{");
	first = true;
	for (auto &kv : known) {
		fprintf(f, "%s\"%s\":\"%s\"", first ? "" : ",", jesc(kv.first).c_str(), jesc(kv.second).c_str());
		first = false;
	}
	fprintf(f, "},\n\"notes\":{");
	first = true;
	for (auto &kv : notes) {
		fprintf(f, "%s\"%s\":\"%s\"", first ? "" : ",", jesc(kv.first).c_str(), jesc(kv.second).c_str());
		first = false;
	}
	fprintf(f, "},\n\"samples\":[");
	first = true;
	for (auto &s : samples) {
		fprintf(f, "%s\"%s\"", first ? "" : ",", jesc(s).c_str());
		first = false;
	}
	fprintf(f, "],\n");
	if (!violation_msg.empty())
		fprintf(f, "\"violation\":{\"msg\":\"%s\",\"replay\":\"%s\"},\n",
			jesc(violation_msg).c_str(), jesc(violation_replay).c_str());
	fprintf(f, "\"distinct\":[");
	size_t k = 0;
	for (uint64_t h : distinct) {
		if (k >= max_distinct_dump) break;
		fprintf(f, "%s\"%016llx\"", k ? "," : "", (unsigned long long)h);
		k++;
	}
	fprintf(f, "]}\n");
	fclose(f);
	flushed_once = true;
}

static void death_cb()
{
	// sanitizer abort or fatal signal: keep the tape that was running
	if (cur_tape) {
		std::string p = replay_out_path();
		write_file(p, cur_tape, cur_tape_len);
		violation_msg = "sanitizer/abort (see stderr log)";
		violation_replay = p;
	}
	stats.flush();
}

static void sig_handler(int sig)
{
	death_cb();
	signal(sig, SIG_DFL);
	raise(sig);
}

void install_crash_handlers()
{
	if (__sanitizer_set_death_callback) __sanitizer_set_death_callback(death_cb);
	signal(SIGSEGV, sig_handler);
	signal(SIGBUS, sig_handler);
	signal(SIGFPE, sig_handler);
	signal(SIGILL, sig_handler);
	signal(SIGABRT, sig_handler);
}

// returns empty string when the oracle held, else the violation message
std::string run_tape(const uint8_t *d, size_t n)
{
	cur_tape = d;
	cur_tape_len = n;
	stats.cases++;
	std::string r;
	try {
		Tape t(d, n);
		target_run(t);
	} catch (const Violation &v) {
		r = v.msg.empty() ? std::string("violation") : v.msg;
	}
	cur_tape = nullptr;
	return r;
}

void record_violation(const uint8_t *d, size_t n, const std::string &msg)
{
	std::string p = replay_out_path();
	write_file(p, d, n);
	violation_msg = msg;
	violation_replay = p;
}

// used by enumerators: run, and stop the process at the first violation
void enum_tape(const std::vector<uint8_t> &tp)
{
	std::string r = run_tape(tp.data(), tp.size());
	if (!r.empty()) {
		record_violation(tp.data(), tp.size(), r);
		stats.flush();
		fprintf(stderr, "ENUM-FAIL %s: %s\n", target_name, r.c_str());
		_exit(1);
	}
}

bool known(const char *key)
{
	std::string k = "," + env_str("VERIF_KNOWN") + ",";
	return k.find(std::string(",") + key + ",") != std::string::npos;
}

} // namespace vf

// Default (weak) implementations of the library's verification hooks; a
// target that wants them defines strong versions.
extern "C" {
__attribute__((weak)) void br_verif_t0_step(int, void *, const uint32_t *, const uint32_t *, size_t) {}
__attribute__((weak)) void br_verif_public(const void *, size_t) {}
}
