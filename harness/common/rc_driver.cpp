// rapidcheck driver: generates and shrinks tapes.  This is the only
// translation unit that includes rapidcheck (slow to compile); it is built
// once and linked into every target.
//
// Configuration comes from RC_PARAMS only ("seed=N max_success=M ..."), set
// by the ./check driver from VERIF_SEED.
#include <rapidcheck.h>
#include "core.hpp"

namespace vf {

int rc_drive(int tape_min, int tape_max, std::vector<uint8_t> &shrunk, std::string &msg)
{
	std::vector<uint8_t> last_fail;
	std::string last_msg;
	bool failed_any = false;
	(void)tape_min;
	// Tape length is uniform in [0, tape_max], bytes are uniform; rapidcheck's
	// own size parameter is not used to limit the length because an exhausted
	// tape already means "defaults from here on".  Shrinking removes and
	// zeroes bytes, which the decoders turn into structurally smaller cases.
	auto elem = rc::gen::resize(100, rc::gen::arbitrary<uint8_t>());
	auto g = rc::gen::resize(tape_max,
		rc::gen::container<std::vector<uint8_t>>(elem));
	// Shrinking budget, counted in property executions (never wall clock):
	// once it is used up every further shrink candidate is reported as
	// passing, which ends rapidcheck's shrink loop at the best case so far.
	long shrink_budget = env_long("VERIF_SHRINK_RUNS", 400);
	long shrink_runs = 0;
	bool ok = rc::check(target_name, [&]() {
		std::vector<uint8_t> tape = *g;
		if (failed_any && tape != last_fail && ++shrink_runs > shrink_budget) return;
		std::string r = run_tape(tape.data(), tape.size());
		if (!r.empty()) {
			// the last failing execution is the shrunk minimum: rapidcheck
			// only moves to a shrink candidate that still fails
			last_fail = tape;
			last_msg = r;
			failed_any = true;
			RC_FAIL(r);
		}
	});
	if (ok) return 0;
	if (!failed_any) { msg = "rapidcheck gave up"; return 2; }
	shrunk = last_fail;
	msg = last_msg;
	return 1;
}

} // namespace vf
