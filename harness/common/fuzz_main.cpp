// libFuzzer entry: the same target_run, with the semantic oracle inside the
// target.  A violation flushes counters and traps so libFuzzer writes the
// crash- artifact (the tape), which is then the replay file.
#include "core.hpp"
#include <unistd.h>

using namespace vf;

static void at_exit_flush() { stats.flush(); }

extern "C" int LLVMFuzzerInitialize(int *, char ***)
{
	stats.target = target_name;
	if (target_init) target_init();
	atexit(at_exit_flush);
	return 0;
}

extern "C" int LLVMFuzzerTestOneInput(const uint8_t *data, size_t size)
{
	std::string r = run_tape(data, size);
	if (!r.empty()) {
		violation_msg = r;
		violation_replay = "(libFuzzer artifact)";
		stats.flush();
		fprintf(stderr, "FUZZ-FAIL %s: %s\n", target_name, r.c_str());
		__builtin_trap();
	}
	return 0;
}
