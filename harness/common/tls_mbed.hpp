// mbedTLS 2.28 as a second independent TLS peer (in-process, callback BIO).
// It speaks the static-ECDH suites OpenSSL 3 no longer has, offers
// encrypt-then-MAC / extended-master-secret / session-ticket extensions a
// BearSSL server must ignore, splits CBC records 1/n-1 on TLS 1.0 and
// implements max_fragment_length on both roles.  Everything random it uses
// comes from a SplitMix stream seeded from the case's tape.
#pragma once
#include "tls_endpoints.hpp"
#include <mbedtls/ssl.h>
#include <mbedtls/ssl_ciphersuites.h>
#include <mbedtls/x509_crt.h>
#include <mbedtls/pk.h>
#include <mbedtls/error.h>
#include <mbedtls/version.h>

namespace tls {

inline bool mbed_has_suite(uint16_t id)
{
	return mbedtls_ssl_ciphersuite_from_id((int)id) != nullptr;
}

struct MbedEndpoint : Endpoint {
	mbedtls_ssl_config conf;
	mbedtls_ssl_context ssl;
	mbedtls_x509_crt crt;
	mbedtls_pk_context pk;
	int suites[4] = { 0, 0, 0, 0 };
	Fifo outbuf, inbuf, appin;
	Bytes appout_pending;
	bool fatal = false, sent_shutdown = false, want_close = false, peer_closed = false, hs_done = false;
	int last_err = 0;
	size_t max_send_fragment = 16384;
	uint64_t rng = 0;
	// captured by the key-export callback
	uint8_t ms[48], cr[32], sr[32];
	mbedtls_tls_prf_types prf = MBEDTLS_SSL_TLS_PRF_NONE;

	static int rng_cb(void *ctx, unsigned char *buf, size_t num)
	{
		uint64_t &s = *(uint64_t *)ctx;
		for (size_t i = 0; i < num; ) {
			s += 0x9E3779B97F4A7C15ULL;
			uint64_t z = s;
			z = (z ^ (z >> 30)) * 0xBF58476D1CE4E5B9ULL;
			z = (z ^ (z >> 27)) * 0x94D049BB133111EBULL;
			z ^= z >> 31;
			for (int k = 0; k < 8 && i < num; k++, i++) buf[i] = (unsigned char)(z >> (8 * k));
		}
		return 0;
	}
	static int send_cb(void *ctx, const unsigned char *buf, size_t len)
	{
		((MbedEndpoint *)ctx)->outbuf.push(buf, len);
		return (int)len;
	}
	static int recv_cb(void *ctx, unsigned char *buf, size_t len)
	{
		MbedEndpoint *m = (MbedEndpoint *)ctx;
		if (m->inbuf.empty()) return MBEDTLS_ERR_SSL_WANT_READ;
		size_t n = m->inbuf.size() < len ? m->inbuf.size() : len;
		memcpy(buf, m->inbuf.data(), n);
		m->inbuf.pop(n);
		return (int)n;
	}
	static int export_cb(void *ctx, const unsigned char *ms_, const unsigned char *, size_t, size_t, size_t,
		const unsigned char client_random[32], const unsigned char server_random[32], mbedtls_tls_prf_types t)
	{
		MbedEndpoint *m = (MbedEndpoint *)ctx;
		memcpy(m->ms, ms_, 48); memcpy(m->cr, client_random, 32); memcpy(m->sr, server_random, 32);
		m->prf = t;
		return 0;
	}

	MbedEndpoint(bool client, const Profile &p, uint64_t seed, int mfl_code = 0)
	{
		is_client = client;
		name = client ? "mbedtls-client" : "mbedtls-server";
		rng = seed * 0x2545F4914F6CDD1DULL + (client ? 17 : 29);
		mbedtls_ssl_config_init(&conf);
		mbedtls_ssl_init(&ssl);
		mbedtls_x509_crt_init(&crt);
		mbedtls_pk_init(&pk);
		if (mbedtls_ssl_config_defaults(&conf, client ? MBEDTLS_SSL_IS_CLIENT : MBEDTLS_SSL_IS_SERVER,
			MBEDTLS_SSL_TRANSPORT_STREAM, MBEDTLS_SSL_PRESET_DEFAULT) != 0) failf("harness: mbedtls config defaults");
		mbedtls_ssl_conf_rng(&conf, rng_cb, &rng);
		mbedtls_ssl_conf_authmode(&conf, MBEDTLS_SSL_VERIFY_NONE);
		mbedtls_ssl_conf_min_version(&conf, MBEDTLS_SSL_MAJOR_VERSION_3, (int)(p.vmin - 0x0300));
		mbedtls_ssl_conf_max_version(&conf, MBEDTLS_SSL_MAJOR_VERSION_3, (int)((p.vmax > 0x0303 ? 0x0303 : p.vmax) - 0x0300));
		if (!p.suites.empty()) {
			size_t n = 0;
			for (uint16_t s : p.suites) if (n < 3 && mbed_has_suite(s)) suites[n++] = (int)s;
			if (n == 0) failf("harness: mbedtls has none of the requested suites");
			mbedtls_ssl_conf_ciphersuites(&conf, suites);
		}
		mbedtls_ssl_conf_export_keys_ext_cb(&conf, export_cb, this);
		if (mfl_code) {
			if (mbedtls_ssl_conf_max_frag_len(&conf, (unsigned char)mfl_code) != 0) failf("harness: mbedtls max_frag_len");
		}
		if (!client) {
			const br_x509_certificate *chain = p.key == K_RSA ? FX_RSA_CHAIN : p.key == K_EC ? FX_EC_CHAIN : FX_ECRSA_CHAIN;
			for (int i = 0; i < 2; i++)
				if (mbedtls_x509_crt_parse_der(&crt, chain[i].data, chain[i].data_len) != 0) failf("harness: mbedtls certificate");
			const char *pem = p.key == K_RSA ? FX_RSA_SKEY_PEM : FX_EC_SKEY_PEM;
			if (mbedtls_pk_parse_key(&pk, (const unsigned char *)pem, strlen(pem) + 1, nullptr, 0) != 0) failf("harness: mbedtls private key");
			if (mbedtls_ssl_conf_own_cert(&conf, &crt, &pk) != 0) failf("harness: mbedtls own cert");
		}
		if (mbedtls_ssl_setup(&ssl, &conf) != 0) failf("harness: mbedtls setup");
		if (client && !p.sni.empty()) mbedtls_ssl_set_hostname(&ssl, p.sni.c_str());
		mbedtls_ssl_set_bio(&ssl, this, send_cb, recv_cb, nullptr);
		progress();
	}
	~MbedEndpoint() override
	{
		mbedtls_ssl_free(&ssl);
		mbedtls_ssl_config_free(&conf);
		mbedtls_x509_crt_free(&crt);
		mbedtls_pk_free(&pk);
	}

	void note(int r)
	{
		if (r == MBEDTLS_ERR_SSL_WANT_READ || r == MBEDTLS_ERR_SSL_WANT_WRITE) return;
		if (r == MBEDTLS_ERR_SSL_PEER_CLOSE_NOTIFY) { peer_closed = true; return; }
		fatal = true; last_err = -r;
	}
	void progress()
	{
		if (fatal) return;
		if (!hs_done) {
			int r = mbedtls_ssl_handshake(&ssl);
			if (r == 0) hs_done = true; else note(r);
		}
		if (hs_done && !fatal) {
			while (!peer_closed) {
				uint8_t tmp[16384];
				int r = mbedtls_ssl_read(&ssl, tmp, sizeof tmp);
				if (r > 0) appin.push(tmp, (size_t)r);
				else if (r == 0) continue;   // two empty records in a row: a read of zero bytes, not end of stream
				else { note(r); break; }
			}
			while (!appout_pending.empty() && !fatal && !sent_shutdown) {
				size_t n = appout_pending.size() < max_send_fragment ? appout_pending.size() : max_send_fragment;
				int r = mbedtls_ssl_write(&ssl, appout_pending.data(), n);
				if (r > 0) appout_pending.erase(appout_pending.begin(), appout_pending.begin() + r);
				else { note(r); break; }
			}
			if (!fatal && !sent_shutdown && ((want_close && appout_pending.empty()) || peer_closed)) {
				int r = mbedtls_ssl_close_notify(&ssl);
				if (r == 0) sent_shutdown = true; else note(r);
			}
		}
	}
	size_t wire_out_peek(const uint8_t **p) override { *p = outbuf.data(); return outbuf.size(); }
	void wire_out_ack(size_t n) override { outbuf.pop(n); }
	size_t wire_in_room() override { return fatal ? 0 : 65536; }
	void wire_in(const uint8_t *p, size_t n) override { inbuf.push(p, n); progress(); }
	size_t app_out_room() override { return ready() ? 65536 : 0; }
	void app_out(const uint8_t *p, size_t n) override { appout_pending.insert(appout_pending.end(), p, p + n); progress(); }
	size_t app_in_peek(const uint8_t **p) override { *p = appin.data(); return appin.size(); }
	void app_in_ack(size_t n) override { appin.pop(n); }
	void flush(bool) override { progress(); }
	void close() override { want_close = true; progress(); }
	bool ready() override { return !fatal && hs_done && !sent_shutdown && ssl.state == MBEDTLS_SSL_HANDSHAKE_OVER; }
	bool handshake_done() override { return hs_done && ssl.state == MBEDTLS_SSL_HANDSHAKE_OVER; }
	// renegotiation is off by default in mbedTLS (requests are answered with a no_renegotiation warning)
	void enable_renegotiation() { mbedtls_ssl_conf_renegotiation(&conf, MBEDTLS_SSL_RENEGOTIATION_ENABLED); }
	bool renegotiate() override
	{
		if (fatal || !hs_done) return false;
		if (getenv("VERIF_TRACE")) fprintf(stderr, "TRACE mbed renegotiate() state=%d renego=%d\n", ssl.state, ssl.renego_status);
		int r = mbedtls_ssl_renegotiate(&ssl);
		if (r == 0 || r == MBEDTLS_ERR_SSL_WANT_READ || r == MBEDTLS_ERR_SSL_WANT_WRITE) { progress(); return true; }
		note(r);
		return false;
	}
	bool closed() override { return fatal || (sent_shutdown && peer_closed); }
	int error() override { return fatal ? (last_err ? last_err : 1) : 0; }

	unsigned version() const { return 0x0300 + (unsigned)ssl.minor_ver; }
	unsigned suite() const { return ssl.session ? (unsigned)ssl.session->ciphersuite : 0; }
	Bytes session_id() const { return ssl.session ? Bytes(ssl.session->id, ssl.session->id + ssl.session->id_len) : Bytes(); }
	// RFC 5705 exporter with context, computed from the captured master secret
	bool key_export(uint8_t *out, size_t len, const char *label, const uint8_t *ctxv, size_t ctxlen)
	{
		if (prf == MBEDTLS_SSL_TLS_PRF_NONE) return false;
		Bytes seed(cr, cr + 32);
		seed.insert(seed.end(), sr, sr + 32);
		if (ctxv) {   // RFC 5705: the length prefix is there for a context of length zero, absent without a context
			seed.push_back((uint8_t)(ctxlen >> 8)); seed.push_back((uint8_t)ctxlen);
			seed.insert(seed.end(), ctxv, ctxv + ctxlen);
		}
		return mbedtls_ssl_tls_prf(prf, ms, 48, label, seed.data(), seed.size(), out, len) == 0;
	}
};

} // namespace tls
