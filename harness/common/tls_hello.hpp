// TLS lab, part 3: scripted hellos.  A structure-aware builder for
// ClientHello / ServerHello-flight messages and a parser for the plaintext
// flight an endpoint answers with, so that one real endpoint can be driven
// without a second engine.
#pragma once
#include "tls_session.hpp"

namespace tls {

struct Ext { uint16_t type; Bytes data; };

inline void put16(Bytes &b, unsigned v) { b.push_back((uint8_t)(v >> 8)); b.push_back((uint8_t)v); }
inline void put24(Bytes &b, size_t v) { b.push_back((uint8_t)(v >> 16)); b.push_back((uint8_t)(v >> 8)); b.push_back((uint8_t)v); }

struct ClientHelloSpec {
	unsigned version = 0x0303;          // client_version
	unsigned record_version = 0x0301;
	Bytes random = Bytes(32, 0x11);
	Bytes session_id;
	std::vector<uint16_t> suites;
	Bytes compression = Bytes(1, 0);
	std::vector<Ext> exts;
	bool no_extensions_block = false;   // omit the extensions field altogether

	void add_sni(const std::string &name)
	{
		Ext e{ 0x0000, Bytes() };
		put16(e.data, name.size() + 3); e.data.push_back(0); put16(e.data, name.size());
		e.data.insert(e.data.end(), name.begin(), name.end());
		exts.push_back(e);
	}
	void add_mfln(unsigned code) { exts.push_back(Ext{ 0x0001, Bytes(1, (uint8_t)code) }); }
	void add_reneg(const Bytes &vd = Bytes()) { Ext e{ 0xFF01, Bytes() }; e.data.push_back((uint8_t)vd.size()); e.data.insert(e.data.end(), vd.begin(), vd.end()); exts.push_back(e); }
	void add_sigalgs(const std::vector<std::pair<unsigned, unsigned>> &hs)   // (hash, sig)
	{
		Ext e{ 0x000D, Bytes() };
		put16(e.data, hs.size() * 2);
		for (auto &p : hs) { e.data.push_back((uint8_t)p.first); e.data.push_back((uint8_t)p.second); }
		exts.push_back(e);
	}
	void add_curves(const std::vector<unsigned> &cv)
	{
		Ext e{ 0x000A, Bytes() };
		put16(e.data, cv.size() * 2);
		for (unsigned c : cv) put16(e.data, c);
		exts.push_back(e);
	}
	void add_point_formats() { exts.push_back(Ext{ 0x000B, Bytes{ 1, 0 } }); }
	void add_alpn(const std::vector<std::string> &names)
	{
		Ext e{ 0x0010, Bytes() };
		size_t tot = 0;
		for (auto &n : names) tot += 1 + n.size();
		put16(e.data, tot);
		for (auto &n : names) { e.data.push_back((uint8_t)n.size()); e.data.insert(e.data.end(), n.begin(), n.end()); }
		exts.push_back(e);
	}
	Bytes message() const
	{
		Bytes b;
		put16(b, version);
		b.insert(b.end(), random.begin(), random.end());
		b.push_back((uint8_t)session_id.size());
		b.insert(b.end(), session_id.begin(), session_id.end());
		put16(b, suites.size() * 2);
		for (uint16_t s : suites) put16(b, s);
		b.push_back((uint8_t)compression.size());
		b.insert(b.end(), compression.begin(), compression.end());
		if (!no_extensions_block) {
			Bytes x;
			for (auto &e : exts) { put16(x, e.type); put16(x, e.data.size()); x.insert(x.end(), e.data.begin(), e.data.end()); }
			put16(b, x.size());
			b.insert(b.end(), x.begin(), x.end());
		}
		Bytes m;
		m.push_back(1);
		put24(m, b.size());
		m.insert(m.end(), b.begin(), b.end());
		return m;
	}
	// as one or more plaintext records
	Bytes records(size_t max_frag = 16384) const
	{
		Bytes m = message(), out;
		for (size_t off = 0; off < m.size() || off == 0; off += max_frag) {
			size_t k = std::min(max_frag, m.size() - off);
			out.push_back(22); put16(out, record_version); put16(out, k);
			out.insert(out.end(), m.begin() + off, m.begin() + off + k);
			if (m.empty()) break;
		}
		return out;
	}
};

// what a server answered in the clear
struct ServerFlight {
	bool got_hello = false;
	unsigned version = 0, suite = 0, compression = 0;
	Bytes session_id, random;
	std::vector<Ext> exts;
	bool has_ske = false;
	unsigned curve = 0, ske_hash = 0, ske_sig = 0;
	Bytes ske_point, ske_signature;
	bool has_cert = false, has_certreq = false, has_done = false;
	std::vector<Bytes> chain;
	int alert_level = -1, alert_desc = -1;
	bool has_ccs = false;
	std::string alpn;
	bool has_alpn = false, has_reneg = false, has_mfln = false;
	unsigned mfln = 0;
	size_t nrecords = 0;
	std::vector<size_t> record_sizes;
	std::string parse_error;
};

inline ServerFlight parse_server_flight(const Bytes &wire)
{
	ServerFlight f;
	Bytes hs;
	size_t off = 0;
	while (off + 5 <= wire.size()) {
		unsigned type = wire[off];
		size_t len = ((size_t)wire[off + 3] << 8) | wire[off + 4];
		if (off + 5 + len > wire.size()) { f.parse_error = "truncated record"; break; }
		f.nrecords++;
		f.record_sizes.push_back(len);
		if (type == 22) hs.insert(hs.end(), wire.begin() + off + 5, wire.begin() + off + 5 + len);
		else if (type == 21 && len >= 2) { f.alert_level = wire[off + 5]; f.alert_desc = wire[off + 6]; }
		else if (type == 20) f.has_ccs = true;
		off += 5 + len;
		if (f.has_ccs) break;   // everything after is encrypted
	}
	off = 0;
	while (off + 4 <= hs.size()) {
		unsigned mt = hs[off];
		size_t ml = ((size_t)hs[off + 1] << 16) | ((size_t)hs[off + 2] << 8) | hs[off + 3];
		if (off + 4 + ml > hs.size()) { f.parse_error = "truncated handshake message"; break; }
		const uint8_t *b = hs.data() + off + 4;
		if (mt == 2 && ml >= 38) {
			f.got_hello = true;
			f.version = (b[0] << 8) | b[1];
			f.random.assign(b + 2, b + 34);
			size_t sl = b[34], o = 35;
			if (o + sl + 3 > ml) { f.parse_error = "bad ServerHello"; break; }
			f.session_id.assign(b + o, b + o + sl);
			o += sl;
			f.suite = (b[o] << 8) | b[o + 1];
			f.compression = b[o + 2];
			o += 3;
			if (o + 2 <= ml) {
				size_t el = (b[o] << 8) | b[o + 1];
				o += 2;
				size_t end = o + el;
				if (end != ml) f.parse_error = "ServerHello extension block length";
				while (o + 4 <= end && end <= ml) {
					Ext e;
					e.type = (uint16_t)((b[o] << 8) | b[o + 1]);
					size_t l = (b[o + 2] << 8) | b[o + 3];
					o += 4;
					if (o + l > end) { f.parse_error = "ServerHello extension length"; break; }
					e.data.assign(b + o, b + o + l);
					o += l;
					f.exts.push_back(e);
					if (e.type == 0x0010 && l >= 3) { f.has_alpn = true; size_t nl = e.data[2]; if (3 + nl <= l) f.alpn.assign(e.data.begin() + 3, e.data.begin() + 3 + nl); }
					if (e.type == 0xFF01) f.has_reneg = true;
					if (e.type == 0x0001 && l == 1) { f.has_mfln = true; f.mfln = e.data[0]; }
				}
			} else if (o != ml) f.parse_error = "ServerHello trailing bytes";
		} else if (mt == 11) {
			f.has_cert = true;
			size_t o = 3;
			while (o + 3 <= ml) { size_t cl = ((size_t)b[o] << 16) | ((size_t)b[o + 1] << 8) | b[o + 2]; o += 3; if (o + cl > ml) break; f.chain.push_back(Bytes(b + o, b + o + cl)); o += cl; }
		} else if (mt == 12 && ml >= 4) {
			f.has_ske = true;
			f.curve = (b[1] << 8) | b[2];
			size_t pl = b[3], o = 4;
			if (o + pl <= ml) { f.ske_point.assign(b + o, b + o + pl); o += pl; }
			if (f.version >= 0x0303 && o + 2 <= ml) { f.ske_hash = b[o]; f.ske_sig = b[o + 1]; o += 2; }
			if (o + 2 <= ml) { size_t sl = (b[o] << 8) | b[o + 1]; o += 2; if (o + sl <= ml) f.ske_signature.assign(b + o, b + o + sl); }
		} else if (mt == 13) f.has_certreq = true;
		else if (mt == 14) f.has_done = true;
		off += 4 + ml;
	}
	return f;
}

// drive a server with scripted input, collect everything it says
inline Bytes drive_endpoint(BearEndpoint *e, const Bytes &input, size_t chunk = 0)
{
	Bytes out;
	size_t off = 0;
	for (int guard = 0; guard < 200000; guard++) {
		bool prog = false;
		const uint8_t *p;
		size_t n;
		while ((n = e->app_in_peek(&p)) > 0) { e->app_in_ack(n); prog = true; }
		if ((n = e->wire_out_peek(&p)) > 0) { out.insert(out.end(), p, p + n); e->wire_out_ack(n); prog = true; }
		size_t room = e->wire_in_room();
		if (room && off < input.size()) {
			size_t k = std::min(room, input.size() - off);
			if (chunk && k > chunk) k = chunk;
			e->wire_in(input.data() + off, k);
			off += k;
			prog = true;
		}
		if (!prog) break;
	}
	return out;
}

} // namespace tls
