// TLS lab, part 2: wire with record framing, wiretap, man-in-the-middle hook,
// application byte streams with running prefix check, and the pump that
// moves bytes according to a generated schedule.
#pragma once
#include "tls_endpoints.hpp"

namespace tls {

struct Record {
	uint8_t type = 0;
	uint16_t version = 0;
	Bytes payload;
	int epoch = 0;          // number of ChangeCipherSpec records seen before it in this direction
	size_t index = 0;       // index in its direction
	Bytes raw() const
	{
		Bytes r;
		r.push_back(type); r.push_back(version >> 8); r.push_back(version & 0xFF);
		r.push_back(payload.size() >> 8); r.push_back(payload.size() & 0xFF);
		r.insert(r.end(), payload.begin(), payload.end());
		return r;
	}
};

struct Framer {
	Bytes buf;
	void feed(const uint8_t *p, size_t n, std::vector<Record> &out)
	{
		buf.insert(buf.end(), p, p + n);
		if (buf.size() < 5) return;
		size_t need = 5 + (((size_t)buf[3] << 8) | buf[4]);
		if (buf.size() < need) return;   // common case with small chunks: nothing complete yet
		size_t off = 0;
		while (buf.size() - off >= 5) {
			size_t len = ((size_t)buf[off + 3] << 8) | buf[off + 4];
			if (buf.size() - off < 5 + len) break;
			Record r;
			r.type = buf[off];
			r.version = (uint16_t)((buf[off + 1] << 8) | buf[off + 2]);
			r.payload.assign(buf.begin() + off + 5, buf.begin() + off + 5 + len);
			out.push_back(std::move(r));
			off += 5 + len;
		}
		buf.erase(buf.begin(), buf.begin() + off);
	}
};

struct Plain {
	uint8_t type;
	Bytes data;
	int epoch;
	uint64_t seq;
	size_t pad_len;
	Bytes explicit_iv;
	size_t wire_len;
};

// Wiretap over both directions; keys are found by trial among the
// (version, suite, master, randoms) tuples observed on the endpoints.
struct Tap {
	std::vector<Record> recs[2];
	int epoch[2] = { 0, 0 };
	std::vector<wt::KeyMat> cands;
	wt::KeyMat last_seen[2];
	// incremental decode state
	size_t next[2] = { 0, 0 };
	int cur_epoch[2] = { 0, 0 };
	bool have_codec[2] = { false, false };
	wt::RecCodec codec[2];
	wt::KeyMat found_km[2];      // key material that authenticated the current epoch of each direction
	size_t epoch_start[2] = { 0, 0 };   // index of the first record of that epoch
	std::vector<Plain> plain[2];
	std::string decode_error;

	void poll(Endpoint *e, int side)
	{
		wt::KeyMat km;
		if (!e->keymat(km)) return;
		if (km == last_seen[side]) return;
		last_seen[side] = km;
		for (auto &c : cands) if (c == km) return;
		cands.push_back(km);
	}
	void on_record(int dir, Record &r)
	{
		r.epoch = epoch[dir];
		r.index = recs[dir].size();
		recs[dir].push_back(r);
		if (r.type == 20) epoch[dir]++;
	}
	// process what can be processed; returns false when a record could not
	// be authenticated under any candidate key (left pending unless final)
	bool advance(int dir, bool final = false)
	{
		while (next[dir] < recs[dir].size()) {
			const Record &r = recs[dir][next[dir]];
			if (r.epoch == 0) {
				plain[dir].push_back(Plain{ r.type, r.payload, 0, 0, 0, Bytes(), r.payload.size() });
				next[dir]++;
				continue;
			}
			if (!have_codec[dir] || cur_epoch[dir] != r.epoch) {
				// first record of a new epoch: find the key by trial
				bool found = false;
				for (size_t k = cands.size(); k-- > 0 && !found; ) {
					wt::RecCodec c;
					if (!c.init(cands[k], dir == 0)) continue;
					Bytes pt;
					wt::RecCodec trial = c;
					if (trial.decrypt(r.type, r.version, r.payload.data(), r.payload.size(), pt)) {
						codec[dir] = c;
						have_codec[dir] = true;
						cur_epoch[dir] = r.epoch;
						found_km[dir] = cands[k];
						epoch_start[dir] = next[dir];
						found = true;
					}
				}
				if (!found) {
					if (final) decode_error = vf::fmt("wiretap: dir %d record #%zu (type %u, epoch %d, %zu bytes) authenticates under none of %zu candidate key sets",
						dir, r.index, r.type, r.epoch, r.payload.size(), cands.size());
					return false;
				}
			}
			Bytes pt;
			wt::DecInfo di;
			if (!codec[dir].decrypt(r.type, r.version, r.payload.data(), r.payload.size(), pt, &di)) {
				decode_error = vf::fmt("wiretap: dir %d record #%zu (type %u, epoch %d, seq %llu, %zu bytes) fails authentication: %s",
					dir, r.index, r.type, r.epoch, (unsigned long long)di.seq, r.payload.size(), di.why.c_str());
				// do not get stuck: skip it
				next[dir]++;
				return false;
			}
			plain[dir].push_back(Plain{ r.type, pt, r.epoch, di.seq, di.pad_len, di.explicit_iv, r.payload.size() });
			next[dir]++;
		}
		return true;
	}
	// codec positioned after everything seen so far in `dir` (for crafting
	// the next record with the real keys)
	bool live_codec(int dir, wt::RecCodec &c)
	{
		if (!advance(dir) || !have_codec[dir] || cur_epoch[dir] != epoch[dir]) return false;
		c = codec[dir];
		return true;
	}
	// codec for crafting the record that would follow the first `count`
	// records of direction `dir` (all of the current epoch must be decoded)
	bool codec_after(int dir, size_t count, wt::RecCodec &c)
	{
		if (!advance(dir) || !have_codec[dir] || count < epoch_start[dir] || count > recs[dir].size()) return false;
		if (!c.init(found_km[dir], dir == 0)) return false;
		c.seq = count - epoch_start[dir];
		if (wt::is_cbc(c.si->cipher) && c.version <= 0x0301 && count > epoch_start[dir]) {
			const Bytes &prev = recs[dir][count - 1].payload;
			size_t bs = wt::block_len(c.si->cipher);
			if (prev.size() >= bs) c.iv.assign(prev.end() - bs, prev.end());
		}
		return true;
	}
	Bytes app_stream(int dir) const
	{
		Bytes s;
		for (auto &p : plain[dir]) if (p.type == 23) s.insert(s.end(), p.data.begin(), p.data.end());
		return s;
	}
};

enum ChunkMode { CH_WHOLE = 0, CH_ONE = 1, CH_FIXED = 2, CH_HDR = 3, CH_TAPE = 4 };
struct ChunkPol {
	ChunkMode mode = CH_WHOLE;
	size_t k = 1;
	unsigned phase = 0;
};

enum ItemKind { IT_WRITE, IT_CLOSE, IT_RENEG, IT_FLUSH, IT_WAIT_PEER_IDLE, IT_SYNC, IT_WAIT_EPOCH };
struct Item {
	ItemKind kind;
	size_t len = 0;
	bool flush = true;
};

inline uint8_t stream_byte(uint64_t seed, size_t j)
{
	uint64_t z = seed + (uint64_t)(j >> 3) * 0x9E3779B97F4A7C15ULL;
	z = (z ^ (z >> 30)) * 0xBF58476D1CE4E5B9ULL;
	z = (z ^ (z >> 27)) * 0x94D049BB133111EBULL;
	z ^= z >> 31;
	return (uint8_t)(z >> (8 * (j & 7)));
}

struct Session {
	Endpoint *ep[2];           // 0 = client, 1 = server
	Tape *tape = nullptr;      // source of CH_TAPE chunk sizes and schedule jitter
	ChunkPol wire_out_pol[2], wire_in_pol[2], app_pol;
	bool jitter = false;
	Fifo transit[2];           // bytes on their way from side d to side 1-d (after the MITM)
	Framer framer[2];
	Tap tap;
	bool use_tap = true;
	// MITM: called for every whole record leaving side `dir`; push what shall be forwarded
	std::function<void(int dir, const Record &, std::vector<Bytes> &out)> mitm;
	std::deque<Item> script[2];
	size_t item_done[2] = { 0, 0 };   // bytes of the current WRITE already accepted
	uint64_t stream_seed[2] = { 0x1111, 0x2222 };
	size_t sent[2] = { 0, 0 }, recvd[2] = { 0, 0 };   // per sending side
	size_t sent_at_close[2] = { 0, 0 };
	bool close_called[2] = { false, false };
	size_t recvd_after_local_close[2] = { 0, 0 };
	uint64_t rounds = 0, wire_bytes[2] = { 0, 0 };
	uint64_t cuts_inside_record = 0;
	int reneg_result[2] = { -1, -1 };
	Bytes all_out[2];          // every byte each side emitted (for determinism checks); filled when keep_out
	bool keep_out = false;
	bool ever_ready[2] = { false, false };
	size_t ready_at_recvd[2] = { 0, 0 };
	std::function<void()> on_established;   // called once, when both sides first report a completed handshake
	bool established = false;
	std::function<void()> on_round;          // called at the start of every scheduling round (event injection)
	bool cut = false;                        // transport cut: no wire byte moves any more
	uint64_t delivered_to[2] = { 0, 0 };     // wire bytes handed to each side's engine
	std::vector<uint64_t> rec_end[2];        // cumulative wire offset (in transit order) at the end of each forwarded record

	Session(Endpoint *c, Endpoint *s) { ep[0] = c; ep[1] = s; }

	size_t chunk(ChunkPol &pol, size_t avail)
	{
		if (avail == 0) return 0;
		size_t k;
		switch (pol.mode) {
		case CH_ONE: k = 1; break;
		case CH_FIXED: k = pol.k; break;
		case CH_HDR: k = (pol.phase++ & 1) ? avail : 3; break;   // cuts every record header 3|2
		case CH_TAPE: {
			unsigned r = tape ? tape->u8() : 0;
			if (r == 0) k = avail;
			else if (r < 64) k = 1;
			else if (r < 128) k = 1 + r % 16;
			else if (r < 192) k = (size_t)(r - 127) * 8;
			else k = avail;
			break;
		}
		default: k = avail;
		}
		if (k < 1) k = 1;
		return k < avail ? k : avail;
	}

	void deliver_app(int side)
	{
		Endpoint *e = ep[side];
		int d = 1 - side;   // direction = sender index
		const uint8_t *p;
		size_t n;
		unsigned guard = 0;
		while ((n = e->app_in_peek(&p)) > 0) {
			size_t k = chunk(app_pol, n);
			for (size_t i = 0; i < k; i++) {
				uint8_t want = stream_byte(stream_seed[d], recvd[d] + i);
				VF_CHECK(recvd[d] + i < sent[d], "%s delivered byte #%zu but its peer only wrote %zu bytes (invented data)",
					e->name.c_str(), recvd[d] + i, sent[d]);
				VF_CHECK(p[i] == want, "%s delivered byte #%zu = %02x, peer wrote %02x there (stream is not a prefix of what was sent; %zu sent)",
					e->name.c_str(), recvd[d] + i, p[i], want, sent[d]);
			}
			if (close_called[side]) recvd_after_local_close[side] += k;
			recvd[d] += k;
			e->app_in_ack(k);
			if (++guard > 100000) failf("harness: app read loop");
		}
	}

	bool run_script(int side)
	{
		Endpoint *e = ep[side];
		if (script[side].empty()) return false;
		Item &it = script[side].front();
		switch (it.kind) {
		case IT_WRITE: {
			if (!e->ready()) return false;
			if (it.len == 0) { e->flush(true); script[side].pop_front(); return true; }
			size_t room = e->app_out_room();
			if (!room) return false;
			size_t rem = it.len - item_done[side];
			size_t k = chunk(app_pol, rem < room ? rem : room);
			Bytes tmp(k);
			for (size_t i = 0; i < k; i++) tmp[i] = stream_byte(stream_seed[side], sent[side] + i);
			sent[side] += k;   // counted before the call: the engine may emit at once
			e->app_out(tmp.data(), k);
			item_done[side] += k;
			if (item_done[side] == it.len) {
				if (it.flush) e->flush(false);
				item_done[side] = 0;
				script[side].pop_front();
			}
			return true;
		}
		case IT_FLUSH:
			e->flush(it.len != 0);
			script[side].pop_front();
			return true;
		case IT_CLOSE:
			if (!e->handshake_done() && !e->closed()) return false;
			sent_at_close[side] = sent[side];
			close_called[side] = true;
			e->close();
			script[side].pop_front();
			return true;
		case IT_RENEG:
			if (!e->handshake_done()) return false;
			reneg_result[side] = e->renegotiate() ? 1 : 0;
			script[side].pop_front();
			return true;
		case IT_SYNC: {
			// barrier: both sides at SYNC(len) and everything written so far delivered
			std::deque<Item> &o = script[1 - side];
			if (o.empty() || o.front().kind != IT_SYNC || o.front().len != it.len) return false;
			if (recvd[0] != sent[0] || recvd[1] != sent[1]) return false;
			script[side].pop_front();
			o.pop_front();
			return true;
		}
		case IT_WAIT_EPOCH:
			// wait until both directions have switched keys it.len times and both sides are ready again
			if (tap.epoch[0] < (int)it.len || tap.epoch[1] < (int)it.len) return false;
			if (!ep[0]->handshake_done() || !ep[1]->handshake_done()) return false;
			script[side].pop_front();
			return true;
		case IT_WAIT_PEER_IDLE:
			// wait until the peer has finished writing and everything it wrote
			// has been delivered here (data in flight at close() time is
			// legitimately discarded, so an exact-delivery script must not
			// close before)
			if ((!script[1 - side].empty() || recvd[1 - side] < sent[1 - side]) && !ep[1 - side]->closed()) return false;
			script[side].pop_front();
			return true;
		}
		return false;
	}

	void forward(int side, const uint8_t *p, size_t k)
	{
		if (keep_out) all_out[side].insert(all_out[side].end(), p, p + k);
		wire_bytes[side] += k;
		std::vector<Record> recs;
		framer[side].feed(p, k, recs);
		if (!framer[side].buf.empty()) cuts_inside_record++;
		for (auto &r : recs) {
			VF_CHECK(r.type >= 20 && r.type <= 23, "%s emitted a record of type %u (version %04x, length %zu) after %zu well-formed records, the last one type %u with %zu bytes",
				ep[side]->name.c_str(), r.type, r.version, r.payload.size(), tap.recs[side].size(),
				tap.recs[side].empty() ? 0 : tap.recs[side].back().type, tap.recs[side].empty() ? (size_t)0 : tap.recs[side].back().payload.size());
			// (an alert emitted before any hello has been processed carries version 0: not judged)
			VF_CHECK((r.version >= 0x0301 && r.version <= 0x0303) || (r.version == 0 && r.type == 21 && !ep[side]->handshake_done()),
				"%s emitted a record with version %04x", ep[side]->name.c_str(), r.version);
			VF_CHECK(r.payload.size() <= 16384 + 2048, "%s emitted a record of %zu bytes", ep[side]->name.c_str(), r.payload.size());
			if (use_tap) tap.on_record(side, r);
			if (mitm) {
				std::vector<Bytes> out;
				mitm(side, r, out);
				for (auto &b : out) transit[side].push(b);
			} else {
				Bytes b = r.raw();
				transit[side].push(b);
			}
		}
	}

	// one scheduling round; returns true when anything moved
	bool round()
	{
		bool progress = false;
		rounds++;
		if (on_round) on_round();
		for (int side = 0; side < 2; side++) {
			Endpoint *e = ep[side];
			if (jitter && tape && !tape->exhausted() && tape->u8() < 48) continue;   // this side sits the round out
			size_t before = recvd[1 - side];
			deliver_app(side);
			if (recvd[1 - side] != before) progress = true;
			if (run_script(side)) progress = true;
			const uint8_t *p;
			size_t n = cut ? 0 : e->wire_out_peek(&p);
			if (n) {
				size_t k = chunk(wire_out_pol[side], n);
				Bytes copy(p, p + k);   // the ack may recycle the buffer
				e->wire_out_ack(k);
				forward(side, copy.data(), k);
				progress = true;
			}
			Fifo &in = transit[1 - side];
			if (!in.empty() && !cut) {
				size_t room = e->wire_in_room();
				if (room) {
					size_t k = chunk(wire_in_pol[side], in.size() < room ? in.size() : room);
					e->wire_in(in.data(), k);
					in.pop(k);
					delivered_to[side] += k;
					progress = true;
				}
			}
			if (e->ready() && !ever_ready[side]) { ever_ready[side] = true; ready_at_recvd[side] = recvd[1 - side]; }
			if (use_tap) tap.poll(e, side);
		}
		if (!established && ep[0]->handshake_done() && ep[1]->handshake_done()) {
			established = true;
			if (on_established) on_established();
		}
		return progress;
	}

	// run until quiescent (no progress for a full round without jitter) or max rounds
	bool run(uint64_t max_rounds = 2000000)
	{
		unsigned idle = 0;
		for (uint64_t i = 0; i < max_rounds; i++) {
			if (round()) idle = 0;
			else if (++idle >= 3) {
				if (!jitter) return true;
				// with jitter a side may have sat out: confirm with jitter off
				bool j = jitter;
				jitter = false;
				bool p = round();
				jitter = j;
				if (!p) return true;
				idle = 0;
			}
		}
		return false;   // did not quiesce
	}

	bool scripts_done() const { return script[0].empty() && script[1].empty(); }
};

// Deliver end-of-transport to a BearSSL endpoint exactly as a caller using
// the br_sslio wrapper would experience it: the read callback returns -1.
struct EofIo {
	static int rd(void *, unsigned char *, size_t) { return -1; }
	static int wr(void *ctx, const unsigned char *p, size_t n) { ((Bytes *)ctx)->insert(((Bytes *)ctx)->end(), p, p + n); return (int)n; }
};
inline void bear_transport_eof(BearEndpoint *e, Bytes *sink)
{
	br_sslio_context io;
	br_sslio_init(&io, e->eng, EofIo::rd, nullptr, EofIo::wr, sink);
	unsigned char tmp[1];
	// read returns -1 either at once (engine closed) or when the callback reports EOF
	int guard = 0;
	while (br_sslio_read(&io, tmp, 1) >= 0 && ++guard < 1000000) {}
	e->inv("sslio_read(eof)");
}

// ------------------------------------------------------------------ helpers
inline bool ep_is_bear(Endpoint *e) { return e->is_bear(); }
inline const char *ver_name(unsigned v) { return v == 0x0301 ? "1.0" : v == 0x0302 ? "1.1" : v == 0x0303 ? "1.2" : "?"; }

// server key kinds a suite can run with
inline std::vector<KeyKind> keys_for(const wt::SuiteInfo *si)
{
	switch (si->kx) {
	case wt::KX_RSA: case wt::KX_ECDHE_RSA: return { K_RSA };
	case wt::KX_ECDHE_ECDSA: return { K_EC, K_ECRSA };
	case wt::KX_ECDH_ECDSA: return { K_EC };
	default: return { K_ECRSA };   // ECDH_RSA: EC key in a certificate signed with RSA
	}
}

} // namespace tls
