// Wiretap: an independent implementation of the TLS 1.0-1.2 record
// protection (all modes BearSSL has), key-block derivation and sequence
// numbering, written against OpenSSL EVP only.  Nothing here calls into
// BearSSL.  Given (version, suite, master secret, randoms) it decrypts and
// authenticates records seen on the wire, and encrypts attacker-chosen
// plaintext with legal or deliberately illegal padding/MAC.
#pragma once
#include <openssl/evp.h>
#include <openssl/hmac.h>
#include <openssl/kdf.h>
#include <openssl/core_names.h>
#include <openssl/params.h>
#include <cstdint>
#include <cstring>
#include <string>
#include <vector>

namespace wt {

enum Kx { KX_RSA, KX_ECDHE_RSA, KX_ECDHE_ECDSA, KX_ECDH_RSA, KX_ECDH_ECDSA };
enum Cipher { C_3DES_CBC, C_AES128_CBC, C_AES256_CBC, C_AES128_GCM, C_AES256_GCM,
	C_AES128_CCM, C_AES256_CCM, C_AES128_CCM8, C_AES256_CCM8, C_CHACHA20 };
enum Mac { M_NONE, M_SHA1, M_SHA256, M_SHA384 };
enum Prf { P_SHA256, P_SHA384 };   // TLS 1.2 PRF hash; below 1.2 always MD5+SHA-1

struct SuiteInfo {
	uint16_t id;
	const char *name;
	Kx kx;
	Cipher cipher;
	Mac mac;
	Prf prf;
	bool tls12_only;
};

// Written from RFC 5246, 4492, 5288, 5289, 6655, 7251, 7905.
static const SuiteInfo SUITES[] = {
	{ 0x000A, "RSA_3DES_SHA", KX_RSA, C_3DES_CBC, M_SHA1, P_SHA256, false },
	{ 0x002F, "RSA_AES128_SHA", KX_RSA, C_AES128_CBC, M_SHA1, P_SHA256, false },
	{ 0x0035, "RSA_AES256_SHA", KX_RSA, C_AES256_CBC, M_SHA1, P_SHA256, false },
	{ 0x003C, "RSA_AES128_SHA256", KX_RSA, C_AES128_CBC, M_SHA256, P_SHA256, true },
	{ 0x003D, "RSA_AES256_SHA256", KX_RSA, C_AES256_CBC, M_SHA256, P_SHA256, true },
	{ 0x009C, "RSA_AES128_GCM", KX_RSA, C_AES128_GCM, M_NONE, P_SHA256, true },
	{ 0x009D, "RSA_AES256_GCM", KX_RSA, C_AES256_GCM, M_NONE, P_SHA384, true },
	{ 0xC003, "ECDH_ECDSA_3DES_SHA", KX_ECDH_ECDSA, C_3DES_CBC, M_SHA1, P_SHA256, false },
	{ 0xC004, "ECDH_ECDSA_AES128_SHA", KX_ECDH_ECDSA, C_AES128_CBC, M_SHA1, P_SHA256, false },
	{ 0xC005, "ECDH_ECDSA_AES256_SHA", KX_ECDH_ECDSA, C_AES256_CBC, M_SHA1, P_SHA256, false },
	{ 0xC008, "ECDHE_ECDSA_3DES_SHA", KX_ECDHE_ECDSA, C_3DES_CBC, M_SHA1, P_SHA256, false },
	{ 0xC009, "ECDHE_ECDSA_AES128_SHA", KX_ECDHE_ECDSA, C_AES128_CBC, M_SHA1, P_SHA256, false },
	{ 0xC00A, "ECDHE_ECDSA_AES256_SHA", KX_ECDHE_ECDSA, C_AES256_CBC, M_SHA1, P_SHA256, false },
	{ 0xC00D, "ECDH_RSA_3DES_SHA", KX_ECDH_RSA, C_3DES_CBC, M_SHA1, P_SHA256, false },
	{ 0xC00E, "ECDH_RSA_AES128_SHA", KX_ECDH_RSA, C_AES128_CBC, M_SHA1, P_SHA256, false },
	{ 0xC00F, "ECDH_RSA_AES256_SHA", KX_ECDH_RSA, C_AES256_CBC, M_SHA1, P_SHA256, false },
	{ 0xC012, "ECDHE_RSA_3DES_SHA", KX_ECDHE_RSA, C_3DES_CBC, M_SHA1, P_SHA256, false },
	{ 0xC013, "ECDHE_RSA_AES128_SHA", KX_ECDHE_RSA, C_AES128_CBC, M_SHA1, P_SHA256, false },
	{ 0xC014, "ECDHE_RSA_AES256_SHA", KX_ECDHE_RSA, C_AES256_CBC, M_SHA1, P_SHA256, false },
	{ 0xC023, "ECDHE_ECDSA_AES128_SHA256", KX_ECDHE_ECDSA, C_AES128_CBC, M_SHA256, P_SHA256, true },
	{ 0xC024, "ECDHE_ECDSA_AES256_SHA384", KX_ECDHE_ECDSA, C_AES256_CBC, M_SHA384, P_SHA384, true },
	{ 0xC025, "ECDH_ECDSA_AES128_SHA256", KX_ECDH_ECDSA, C_AES128_CBC, M_SHA256, P_SHA256, true },
	{ 0xC026, "ECDH_ECDSA_AES256_SHA384", KX_ECDH_ECDSA, C_AES256_CBC, M_SHA384, P_SHA384, true },
	{ 0xC027, "ECDHE_RSA_AES128_SHA256", KX_ECDHE_RSA, C_AES128_CBC, M_SHA256, P_SHA256, true },
	{ 0xC028, "ECDHE_RSA_AES256_SHA384", KX_ECDHE_RSA, C_AES256_CBC, M_SHA384, P_SHA384, true },
	{ 0xC029, "ECDH_RSA_AES128_SHA256", KX_ECDH_RSA, C_AES128_CBC, M_SHA256, P_SHA256, true },
	{ 0xC02A, "ECDH_RSA_AES256_SHA384", KX_ECDH_RSA, C_AES256_CBC, M_SHA384, P_SHA384, true },
	{ 0xC02B, "ECDHE_ECDSA_AES128_GCM", KX_ECDHE_ECDSA, C_AES128_GCM, M_NONE, P_SHA256, true },
	{ 0xC02C, "ECDHE_ECDSA_AES256_GCM", KX_ECDHE_ECDSA, C_AES256_GCM, M_NONE, P_SHA384, true },
	{ 0xC02D, "ECDH_ECDSA_AES128_GCM", KX_ECDH_ECDSA, C_AES128_GCM, M_NONE, P_SHA256, true },
	{ 0xC02E, "ECDH_ECDSA_AES256_GCM", KX_ECDH_ECDSA, C_AES256_GCM, M_NONE, P_SHA384, true },
	{ 0xC02F, "ECDHE_RSA_AES128_GCM", KX_ECDHE_RSA, C_AES128_GCM, M_NONE, P_SHA256, true },
	{ 0xC030, "ECDHE_RSA_AES256_GCM", KX_ECDHE_RSA, C_AES256_GCM, M_NONE, P_SHA384, true },
	{ 0xC031, "ECDH_RSA_AES128_GCM", KX_ECDH_RSA, C_AES128_GCM, M_NONE, P_SHA256, true },
	{ 0xC032, "ECDH_RSA_AES256_GCM", KX_ECDH_RSA, C_AES256_GCM, M_NONE, P_SHA384, true },
	{ 0xC09C, "RSA_AES128_CCM", KX_RSA, C_AES128_CCM, M_NONE, P_SHA256, true },
	{ 0xC09D, "RSA_AES256_CCM", KX_RSA, C_AES256_CCM, M_NONE, P_SHA256, true },
	{ 0xC0A0, "RSA_AES128_CCM8", KX_RSA, C_AES128_CCM8, M_NONE, P_SHA256, true },
	{ 0xC0A1, "RSA_AES256_CCM8", KX_RSA, C_AES256_CCM8, M_NONE, P_SHA256, true },
	{ 0xC0AC, "ECDHE_ECDSA_AES128_CCM", KX_ECDHE_ECDSA, C_AES128_CCM, M_NONE, P_SHA256, true },
	{ 0xC0AD, "ECDHE_ECDSA_AES256_CCM", KX_ECDHE_ECDSA, C_AES256_CCM, M_NONE, P_SHA256, true },
	{ 0xC0AE, "ECDHE_ECDSA_AES128_CCM8", KX_ECDHE_ECDSA, C_AES128_CCM8, M_NONE, P_SHA256, true },
	{ 0xC0AF, "ECDHE_ECDSA_AES256_CCM8", KX_ECDHE_ECDSA, C_AES256_CCM8, M_NONE, P_SHA256, true },
	{ 0xCCA8, "ECDHE_RSA_CHACHA20", KX_ECDHE_RSA, C_CHACHA20, M_NONE, P_SHA256, true },
	{ 0xCCA9, "ECDHE_ECDSA_CHACHA20", KX_ECDHE_ECDSA, C_CHACHA20, M_NONE, P_SHA256, true },
};
static const size_t NSUITES = sizeof SUITES / sizeof SUITES[0];

inline const SuiteInfo *suite_by_id(uint16_t id)
{
	for (size_t i = 0; i < NSUITES; i++) if (SUITES[i].id == id) return &SUITES[i];
	return nullptr;
}
inline bool is_cbc(Cipher c) { return c <= C_AES256_CBC; }
inline bool is_gcm(Cipher c) { return c == C_AES128_GCM || c == C_AES256_GCM; }
inline bool is_ccm(Cipher c) { return c >= C_AES128_CCM && c <= C_AES256_CCM8; }
inline size_t key_len(Cipher c)
{
	switch (c) {
	case C_3DES_CBC: return 24;
	case C_AES128_CBC: case C_AES128_GCM: case C_AES128_CCM: case C_AES128_CCM8: return 16;
	default: return 32;
	}
}
inline size_t block_len(Cipher c) { return c == C_3DES_CBC ? 8 : 16; }
inline size_t mac_len(Mac m) { return m == M_SHA1 ? 20 : m == M_SHA256 ? 32 : m == M_SHA384 ? 48 : 0; }
inline size_t tag_len(Cipher c) { return (c == C_AES128_CCM8 || c == C_AES256_CCM8) ? 8 : 16; }
inline const EVP_MD *mac_md(Mac m) { return m == M_SHA1 ? EVP_sha1() : m == M_SHA256 ? EVP_sha256() : EVP_sha384(); }

// TLS PRF through EVP_KDF
inline bool tls_prf(unsigned version, Prf prf, const uint8_t *secret, size_t slen, const char *label,
	const uint8_t *seed, size_t seedlen, uint8_t *out, size_t outlen)
{
	EVP_KDF *kdf = EVP_KDF_fetch(nullptr, "TLS1-PRF", nullptr);
	if (!kdf) return false;
	EVP_KDF_CTX *k = EVP_KDF_CTX_new(kdf);
	EVP_KDF_free(kdf);
	const char *md = version >= 0x0303 ? (prf == P_SHA384 ? "SHA384" : "SHA256") : "MD5-SHA1";
	OSSL_PARAM p[5];
	p[0] = OSSL_PARAM_construct_utf8_string(OSSL_KDF_PARAM_DIGEST, (char *)md, 0);
	p[1] = OSSL_PARAM_construct_octet_string(OSSL_KDF_PARAM_SECRET, (void *)secret, slen);
	p[2] = OSSL_PARAM_construct_octet_string(OSSL_KDF_PARAM_SEED, (void *)label, strlen(label));
	p[3] = OSSL_PARAM_construct_octet_string(OSSL_KDF_PARAM_SEED, (void *)seed, seedlen);
	p[4] = OSSL_PARAM_construct_end();
	bool ok = EVP_KDF_derive(k, out, outlen, p) > 0;
	EVP_KDF_CTX_free(k);
	return ok;
}

struct KeyMat {
	uint16_t version = 0, suite = 0;
	uint8_t master[48] = { 0 }, cr[32] = { 0 }, sr[32] = { 0 };
	bool operator==(const KeyMat &o) const
	{
		return version == o.version && suite == o.suite && !memcmp(master, o.master, 48)
			&& !memcmp(cr, o.cr, 32) && !memcmp(sr, o.sr, 32);
	}
};

struct EncOpts {
	int pad_len = -1;          // CBC: padding length byte value (pad_len+1 bytes are appended); -1 = minimal
	int corrupt_pad_at = -1;   // CBC: index into the padding bytes (0 = first) to flip
	int corrupt_mac_at = -1;   // CBC: index into the MAC to flip; AEAD: index into the tag
	bool use_seq = false;      // use `seq` instead of the running counter (which is then not advanced)
	uint64_t seq = 0;
	int aad_type = -1;         // override content type inside the MAC/AAD only
	int aad_version = -1;      // override version inside the MAC/AAD only
	const uint8_t *explicit_iv = nullptr;   // CBC 1.1+: 16/8 bytes; GCM/CCM: 8 bytes (default: derived from seq)
};

struct DecInfo {
	size_t pad_len = 0;
	std::vector<uint8_t> explicit_iv;   // CBC explicit IV / AEAD explicit nonce (empty if none)
	uint64_t seq = 0;
	std::string why;                    // reason of failure
};

// One direction, one epoch.
class RecCodec {
public:
	const SuiteInfo *si = nullptr;
	unsigned version = 0;
	std::vector<uint8_t> mac_key, enc_key, iv;   // iv: CBC/1.0 chaining IV, or AEAD fixed part
	uint64_t seq = 0;

	RecCodec() {}
	// client_write: keys used by records flowing client -> server
	bool init(const KeyMat &km, bool client_write)
	{
		si = suite_by_id(km.suite);
		if (!si) return false;
		version = km.version;
		size_t ml = mac_len(si->mac), kl = key_len(si->cipher), il;
		if (is_cbc(si->cipher)) il = version <= 0x0301 ? block_len(si->cipher) : 0;
		else if (si->cipher == C_CHACHA20) il = 12;
		else il = 4;
		size_t total = 2 * (ml + kl + il);
		std::vector<uint8_t> kb(total);
		uint8_t seed[64];
		memcpy(seed, km.sr, 32);
		memcpy(seed + 32, km.cr, 32);
		if (!tls_prf(version, si->prf, km.master, 48, "key expansion", seed, 64, kb.data(), total)) return false;
		size_t o = client_write ? 0 : ml;
		mac_key.assign(kb.begin() + o, kb.begin() + o + ml);
		o = 2 * ml + (client_write ? 0 : kl);
		enc_key.assign(kb.begin() + o, kb.begin() + o + kl);
		o = 2 * ml + 2 * kl + (client_write ? 0 : il);
		iv.assign(kb.begin() + o, kb.begin() + o + il);
		seq = 0;
		return true;
	}

	static void put_hdr13(uint8_t *a, uint64_t seq, uint8_t type, unsigned ver, size_t len)
	{
		for (int i = 0; i < 8; i++) a[i] = (uint8_t)(seq >> (56 - 8 * i));
		a[8] = type; a[9] = ver >> 8; a[10] = ver; a[11] = len >> 8; a[12] = len;
	}
	const EVP_CIPHER *evp() const
	{
		switch (si->cipher) {
		case C_3DES_CBC: return EVP_des_ede3_cbc();
		case C_AES128_CBC: return EVP_aes_128_cbc();
		case C_AES256_CBC: return EVP_aes_256_cbc();
		case C_AES128_GCM: return EVP_aes_128_gcm();
		case C_AES256_GCM: return EVP_aes_256_gcm();
		case C_AES128_CCM: case C_AES128_CCM8: return EVP_aes_128_ccm();
		case C_AES256_CCM: case C_AES256_CCM8: return EVP_aes_256_ccm();
		default: return EVP_chacha20_poly1305();
		}
	}
	void hmac(const uint8_t *hdr13, const uint8_t *data, size_t len, uint8_t *out) const
	{
		unsigned ol = 0;
		HMAC_CTX *h = HMAC_CTX_new();
		HMAC_Init_ex(h, mac_key.data(), (int)mac_key.size(), mac_md(si->mac), nullptr);
		HMAC_Update(h, hdr13, 13);
		HMAC_Update(h, data, len);
		HMAC_Final(h, out, &ol);
		HMAC_CTX_free(h);
	}
	bool cbc_raw(bool enc, const uint8_t *ivv, const uint8_t *in, size_t len, uint8_t *out) const
	{
		EVP_CIPHER_CTX *c = EVP_CIPHER_CTX_new();
		int l = 0, ok = EVP_CipherInit_ex(c, evp(), nullptr, enc_key.data(), ivv, enc ? 1 : 0);
		EVP_CIPHER_CTX_set_padding(c, 0);
		if (ok && len) ok = EVP_CipherUpdate(c, out, &l, in, (int)len);
		EVP_CIPHER_CTX_free(c);
		return ok && (size_t)l == len;
	}
	void aead_nonce(uint64_t s, const uint8_t *explicit8, uint8_t *nonce12) const
	{
		if (si->cipher == C_CHACHA20) {
			memcpy(nonce12, iv.data(), 12);
			for (int i = 0; i < 8; i++) nonce12[4 + i] ^= (uint8_t)(s >> (56 - 8 * i));
		} else {
			memcpy(nonce12, iv.data(), 4);
			memcpy(nonce12 + 4, explicit8, 8);
		}
	}
	// tag check for an empty CCM plaintext: recompute the tag by encrypting
	bool ccm_empty_ok(const uint8_t *nonce12, const uint8_t *aad13, const uint8_t *tag, size_t tl) const
	{
		uint8_t t2[16], d;
		if (!aead(true, nonce12, aad13, &d, 0, &d, t2)) return false;
		return memcmp(t2, tag, tl) == 0;
	}
	bool aead(bool enc, const uint8_t *nonce12, const uint8_t *aad13, const uint8_t *in, size_t len,
		uint8_t *out, uint8_t *tag) const
	{
		size_t tl = si->cipher == C_CHACHA20 ? 16 : tag_len(si->cipher);
		EVP_CIPHER_CTX *c = EVP_CIPHER_CTX_new();
		int l = 0, ok = 1;
		if (is_ccm(si->cipher)) {
			ok = EVP_CipherInit_ex(c, evp(), nullptr, nullptr, nullptr, enc ? 1 : 0)
				&& EVP_CIPHER_CTX_ctrl(c, EVP_CTRL_AEAD_SET_IVLEN, 12, nullptr)
				&& EVP_CIPHER_CTX_ctrl(c, EVP_CTRL_AEAD_SET_TAG, (int)tl, enc ? nullptr : (void *)tag)
				&& EVP_CipherInit_ex(c, nullptr, nullptr, enc_key.data(), nonce12, enc ? 1 : 0)
				&& EVP_CipherUpdate(c, nullptr, &l, nullptr, (int)len)
				&& EVP_CipherUpdate(c, nullptr, &l, aad13, 13);
			if (ok) {
				// OpenSSL CCM verifies the tag inside the data Update call
				uint8_t dummy[16];
				int r = EVP_CipherUpdate(c, out ? out : dummy, &l, in ? in : dummy, (int)len);
				ok = enc ? (r > 0 || len == 0) : (r > 0 || (len == 0 && r >= 0 && ccm_empty_ok(nonce12, aad13, tag, tl)));
			}
			if (ok && enc) ok = EVP_CIPHER_CTX_ctrl(c, EVP_CTRL_AEAD_GET_TAG, (int)tl, tag);
		} else {
			ok = EVP_CipherInit_ex(c, evp(), nullptr, nullptr, nullptr, enc ? 1 : 0)
				&& EVP_CIPHER_CTX_ctrl(c, EVP_CTRL_AEAD_SET_IVLEN, 12, nullptr)
				&& EVP_CipherInit_ex(c, nullptr, nullptr, enc_key.data(), nonce12, enc ? 1 : 0)
				&& EVP_CipherUpdate(c, nullptr, &l, aad13, 13);
			if (ok && len) ok = EVP_CipherUpdate(c, out, &l, in, (int)len);
			if (ok && !enc) ok = EVP_CIPHER_CTX_ctrl(c, EVP_CTRL_AEAD_SET_TAG, (int)tl, (void *)tag);
			uint8_t fin[16];
			if (ok) ok = EVP_CipherFinal_ex(c, fin, &l) > 0;
			if (ok && enc) ok = EVP_CIPHER_CTX_ctrl(c, EVP_CTRL_AEAD_GET_TAG, (int)tl, tag);
		}
		EVP_CIPHER_CTX_free(c);
		return ok != 0;
	}

	// Decrypt + authenticate the payload of one record with the running
	// sequence number (advanced on success and on failure alike, as a real
	// receiver would not continue after a failure anyway).
	bool decrypt(uint8_t type, unsigned rec_version, const uint8_t *p, size_t len,
		std::vector<uint8_t> &pt, DecInfo *info = nullptr)
	{
		DecInfo local;
		DecInfo &di = info ? *info : local;
		di.seq = seq;
		uint8_t hdr[13];
		pt.clear();
		if (is_cbc(si->cipher)) {
			size_t bs = block_len(si->cipher), ml = mac_len(si->mac);
			bool expl = version >= 0x0302;
			if (len % bs != 0 || len < (expl ? bs : 0) + bs) { di.why = "cbc length"; seq++; return false; }
			std::vector<uint8_t> buf(len);
			const uint8_t *ivv = expl ? p : iv.data();
			const uint8_t *ct = expl ? p + bs : p;
			size_t ctl = expl ? len - bs : len;
			if (expl) di.explicit_iv.assign(p, p + bs);
			if (!cbc_raw(false, ivv, ct, ctl, buf.data())) { di.why = "cbc decrypt"; seq++; return false; }
			if (!expl) iv.assign(p + len - bs, p + len);
			size_t padv = buf[ctl - 1];
			if (padv + 1 + ml > ctl) { di.why = "pad too long"; seq++; return false; }
			for (size_t i = 0; i <= padv; i++)
				if (buf[ctl - 1 - i] != padv) { di.why = "pad bytes"; seq++; return false; }
			size_t dl = ctl - padv - 1 - ml;
			put_hdr13(hdr, seq, type, rec_version, dl);
			uint8_t m[64];
			hmac(hdr, buf.data(), dl, m);
			seq++;
			if (memcmp(m, buf.data() + dl, ml) != 0) { di.why = "mac"; return false; }
			di.pad_len = padv;
			pt.assign(buf.begin(), buf.begin() + dl);
			return true;
		}
		size_t tl = si->cipher == C_CHACHA20 ? 16 : tag_len(si->cipher);
		size_t el = si->cipher == C_CHACHA20 ? 0 : 8;
		if (len < el + tl) { di.why = "aead length"; seq++; return false; }
		size_t dl = len - el - tl;
		uint8_t nonce[12];
		aead_nonce(seq, p, nonce);
		if (el) di.explicit_iv.assign(p, p + 8);
		put_hdr13(hdr, seq, type, rec_version, dl);
		pt.resize(dl);
		uint8_t tag[16];
		memcpy(tag, p + el + dl, tl);
		uint8_t dummy;
		bool ok = aead(false, nonce, hdr, p + el, dl, dl ? pt.data() : &dummy, tag);
		seq++;
		if (!ok) { pt.clear(); di.why = "aead tag"; return false; }
		return true;
	}

	// CBC-encrypt an arbitrary block-aligned buffer as a record body (for
	// structurally illegal plaintext layouts); explicit IV prepended for 1.1+
	std::vector<uint8_t> encrypt_raw_cbc(const std::vector<uint8_t> &body)
	{
		size_t bs = block_len(si->cipher);
		std::vector<uint8_t> out, ct(body.size());
		uint8_t ivv[16];
		bool expl = version >= 0x0302;
		if (expl) for (size_t i = 0; i < bs; i++) ivv[i] = (uint8_t)(0x5C + i);
		else memcpy(ivv, iv.data(), bs);
		cbc_raw(true, ivv, body.data(), body.size() - body.size() % bs, ct.data());
		if (expl) out.insert(out.end(), ivv, ivv + bs);
		out.insert(out.end(), ct.begin(), ct.begin() + (body.size() - body.size() % bs));
		return out;
	}
	void mac_of(uint64_t s, uint8_t type, unsigned ver, const uint8_t *pt, size_t len, uint8_t *out) const
	{
		uint8_t hdr[13];
		put_hdr13(hdr, s, type, ver, len);
		hmac(hdr, pt, len, out);
	}

	// Protect a plaintext; returns the record *payload* (what follows the
	// 5-byte header).
	std::vector<uint8_t> encrypt(uint8_t type, unsigned rec_version, const uint8_t *pt, size_t len, const EncOpts &o = EncOpts())
	{
		uint64_t s = o.use_seq ? o.seq : seq;
		uint8_t hdr[13];
		uint8_t atype = o.aad_type >= 0 ? (uint8_t)o.aad_type : type;
		unsigned aver = o.aad_version >= 0 ? (unsigned)o.aad_version : rec_version;
		std::vector<uint8_t> out;
		if (is_cbc(si->cipher)) {
			size_t bs = block_len(si->cipher), ml = mac_len(si->mac);
			bool expl = version >= 0x0302;
			put_hdr13(hdr, s, atype, aver, len);
			uint8_t m[64];
			hmac(hdr, pt, len, m);
			if (o.corrupt_mac_at >= 0 && (size_t)o.corrupt_mac_at < ml) m[o.corrupt_mac_at] ^= 0x01;
			size_t minpad = bs - 1 - ((len + ml) % bs);   // value of the padding bytes
			size_t padv = o.pad_len >= 0 ? (size_t)o.pad_len : minpad;
			std::vector<uint8_t> buf(pt, pt + len);
			buf.insert(buf.end(), m, m + ml);
			size_t padstart = buf.size();
			buf.insert(buf.end(), padv + 1, (uint8_t)padv);
			if (o.corrupt_pad_at >= 0 && (size_t)o.corrupt_pad_at <= padv) buf[padstart + o.corrupt_pad_at] ^= 0x01;
			// a pad_len not congruent to the minimal one gives a non-multiple
			// length: truncate to whole blocks is NOT done, the caller wanted it
			size_t ctl = buf.size() - buf.size() % bs;
			std::vector<uint8_t> ct(ctl);
			uint8_t ivv[16];
			if (expl) {
				if (o.explicit_iv) memcpy(ivv, o.explicit_iv, bs);
				else for (size_t i = 0; i < bs; i++) ivv[i] = (uint8_t)(0xA0 + i + s * 13);
			} else memcpy(ivv, iv.data(), bs);
			cbc_raw(true, ivv, buf.data(), ctl, ct.data());
			if (expl) out.insert(out.end(), ivv, ivv + bs);
			out.insert(out.end(), ct.begin(), ct.end());
			if (buf.size() % bs) out.insert(out.end(), buf.end() - buf.size() % bs, buf.end());
			if (!expl && ctl >= bs) iv.assign(ct.end() - bs, ct.end());
		} else {
			size_t tl = si->cipher == C_CHACHA20 ? 16 : tag_len(si->cipher);
			uint8_t ex[8], nonce[12], tag[16];
			if (o.explicit_iv) memcpy(ex, o.explicit_iv, 8);
			else for (int i = 0; i < 8; i++) ex[i] = (uint8_t)(s >> (56 - 8 * i));
			aead_nonce(s, ex, nonce);
			put_hdr13(hdr, s, atype, aver, len);
			std::vector<uint8_t> ct(len ? len : 1);
			aead(true, nonce, hdr, pt, len, ct.data(), tag);
			if (o.corrupt_mac_at >= 0 && (size_t)o.corrupt_mac_at < tl) tag[o.corrupt_mac_at] ^= 0x01;
			if (si->cipher != C_CHACHA20) out.insert(out.end(), ex, ex + 8);
			out.insert(out.end(), ct.begin(), ct.begin() + len);
			out.insert(out.end(), tag, tag + tl);
		}
		if (!o.use_seq) seq++;
		return out;
	}
};

// maximum expansion of a record payload over its plaintext for a mode
inline size_t max_overhead(const SuiteInfo *si, unsigned version)
{
	if (is_cbc(si->cipher)) return (version >= 0x0302 ? block_len(si->cipher) : 0) + mac_len(si->mac) + 256;
	if (si->cipher == C_CHACHA20) return 16;
	return 8 + tag_len(si->cipher);
}

} // namespace wt
