// Shared glue for every verification target.
//
// A *case* is a byte string ("tape").  Every target decodes the tape into
// structured arguments with the Tape reader below (bytes are consumed from
// the front; once the tape is exhausted every draw yields 0, which decoders
// map to the simplest valid choice, so shrinking a tape towards "shorter,
// smaller bytes" shrinks the structured case).  The same entry point,
//
//     void target_run(Tape &t);
//
// is driven by rapidcheck (rc_driver.cpp generates and shrinks tapes), by
// libFuzzer (fuzz_main.cpp) and by the plain replay mode of main.cpp, so a
// saved tape is the replay file for all three.
//
// No target reads the clock or an RNG of its own: every random-looking
// value is a pure function of the tape (Tape::fill expands a seed drawn
// from the tape).
#pragma once
#include <cstdint>
#include <cstdio>
#include <cstdlib>
#include <cstring>
#include <cstdarg>
#include <string>
#include <vector>
#include <map>
#include <unordered_set>
#include <stdexcept>
#include <initializer_list>

namespace vf {

// ---------------------------------------------------------------- violation
struct Violation : std::exception {
	std::string msg;
	explicit Violation(std::string m) : msg(std::move(m)) {}
	const char *what() const noexcept override { return msg.c_str(); }
};

[[noreturn]] inline void failf(const char *fmt, ...)
	__attribute__((format(printf, 1, 2)));
[[noreturn]] inline void failf(const char *fmt, ...)
{
	char buf[2048];
	va_list ap;
	va_start(ap, fmt);
	vsnprintf(buf, sizeof buf, fmt, ap);
	va_end(ap);
	throw Violation(buf);
}
#define VF_CHECK(cond, ...) do { if (!(cond)) ::vf::failf(__VA_ARGS__); } while (0)

inline std::string hex(const void *p, size_t n, size_t maxn = 96)
{
	static const char *d = "0123456789abcdef";
	const unsigned char *b = (const unsigned char *)p;
	std::string s;
	size_t m = n < maxn ? n : maxn;
	for (size_t i = 0; i < m; i++) {
		s.push_back(d[b[i] >> 4]);
		s.push_back(d[b[i] & 15]);
	}
	if (m < n) s += "..";
	return s;
}

inline std::string fmt(const char *f, ...) __attribute__((format(printf, 1, 2)));
inline std::string fmt(const char *f, ...)
{
	char buf[1024];
	va_list ap;
	va_start(ap, f);
	vsnprintf(buf, sizeof buf, f, ap);
	va_end(ap);
	return buf;
}

inline uint64_t fnv(const void *p, size_t n, uint64_t h = 1469598103934665603ULL)
{
	const unsigned char *b = (const unsigned char *)p;
	for (size_t i = 0; i < n; i++) { h ^= b[i]; h *= 1099511628211ULL; }
	return h;
}
inline uint64_t fnv(const std::string &s, uint64_t h = 1469598103934665603ULL)
{
	return fnv(s.data(), s.size(), h);
}

// ---------------------------------------------------------------- tape
struct Tape {
	const uint8_t *p;
	size_t n, pos;
	Tape(const uint8_t *d, size_t len) : p(d), n(len), pos(0) {}

	bool exhausted() const { return pos >= n; }
	size_t remaining() const { return pos < n ? n - pos : 0; }
	uint8_t u8() { return pos < n ? p[pos++] : 0; }
	uint32_t u16() { uint32_t a = u8(); return (a << 8) | u8(); }
	uint32_t u32() { uint32_t a = u16(); return (a << 16) | u16(); }
	uint64_t u64() { uint64_t a = u32(); return (a << 32) | u32(); }
	bool flag() { return (u8() & 1) != 0; }
	// true with probability about num/256
	bool chance(unsigned num) { return u8() < num && num > 0 ? true : false; }

	// uniform-ish integer in [lo, hi] (inclusive); 0 on the tape => lo
	uint64_t range(uint64_t lo, uint64_t hi)
	{
		if (hi <= lo) return lo;
		uint64_t span = hi - lo, v;
		if (span < 0x100) v = u8();
		else if (span < 0x10000) v = u16();
		else if (span < 0x100000000ULL) v = u32();
		else v = u64();
		if (span == UINT64_MAX) return v;
		return lo + v % (span + 1);
	}
	size_t idx(size_t count) { return count ? (size_t)range(0, count - 1) : 0; }
	template <typename T> T pick(std::initializer_list<T> l)
	{
		return *(l.begin() + idx(l.size()));
	}
	template <typename T> const T &pick(const std::vector<T> &v)
	{
		return v[idx(v.size())];
	}
	// length in [0, max], biased: half of the draws come from the
	// interesting set given (values > max are clipped out)
	size_t len(size_t max, std::initializer_list<size_t> interesting = {})
	{
		uint8_t sel = u8();
		if ((sel & 1) && interesting.size()) {
			size_t v = *(interesting.begin() + (sel >> 1) % interesting.size());
			if (v <= max) return v;
		}
		return (size_t)range(0, max);
	}
	void bytes(void *out, size_t len)
	{
		uint8_t *o = (uint8_t *)out;
		for (size_t i = 0; i < len; i++) o[i] = u8();
	}
	// deterministic expansion of a 4-byte tape seed to len bytes
	// (splitmix64).  Seed 0 => all-zero output, so that shrinking ends on
	// the plainest data.
	void fill(void *out, size_t len)
	{
		uint64_t s = u32();
		uint8_t *o = (uint8_t *)out;
		if (s == 0) { memset(o, 0, len); return; }
		for (size_t i = 0; i < len; ) {
			s += 0x9E3779B97F4A7C15ULL;
			uint64_t z = s;
			z = (z ^ (z >> 30)) * 0xBF58476D1CE4E5B9ULL;
			z = (z ^ (z >> 27)) * 0x94D049BB133111EBULL;
			z ^= z >> 31;
			for (int k = 0; k < 8 && i < len; k++, i++) o[i] = (uint8_t)(z >> (8 * k));
		}
	}
	std::vector<uint8_t> filled(size_t len)
	{
		// (capacity is always non-zero so that data() of an empty result is a valid
		// non-null pointer: passing NULL with length 0 to the library is not our subject)
		std::vector<uint8_t> v;
		v.reserve(len + 1);
		v.resize(len);
		if (len) fill(v.data(), len);
		else (void)u32();
		return v;
	}
};

// ---------------------------------------------------------------- stats
struct Stats {
	std::string target;
	uint64_t cases = 0;        // target_run invocations
	uint64_t evals = 0;        // oracle evaluations (>= cases for enumerating targets)
	uint64_t nontrivial = 0;   // non-trivial evaluations (not deduplicated)
	uint64_t excluded = 0;     // cases constructed away (known findings, undocumented corners)
	std::unordered_set<uint64_t> distinct;   // hashes of non-trivial keys
	std::map<std::string, uint64_t> classes; // class histogram
	std::map<std::string, std::string> known; // known-finding key -> description (observed)
	std::vector<std::string> samples;
	std::map<std::string, std::string> notes;
	bool exhaustive = false;
	size_t max_samples = 6;
	size_t max_distinct_dump = 400000;

	void cls(const std::string &k, uint64_t n = 1) { classes[k] += n; }
	// one oracle evaluation; key empty => trivial
	void eval(const std::string &key = std::string())
	{
		evals++;
		if (!key.empty()) { nontrivial++; distinct.insert(fnv(key)); }
	}
	void eval_h(uint64_t keyhash) { evals++; nontrivial++; distinct.insert(keyhash); }
	void sample(const std::string &s)
	{
		// keep the first few and then a thinning selection of later ones
		if (samples.size() < max_samples) samples.push_back(s);
		else if ((fnv(s) % 997) == 0) samples[fnv(s, 77) % max_samples] = s;
	}
	bool want_sample() const { return samples.size() < max_samples || (evals % 4099) == 0; }
	void known_finding(const std::string &key, const std::string &what) { known[key] = what; }
	void flush();
};
extern Stats stats;

// JSON string escaping
inline std::string jesc(const std::string &s)
{
	std::string o;
	for (unsigned char c : s) {
		if (c == '"' || c == '\\') { o.push_back('\\'); o.push_back(c); }
		else if (c < 0x20 || c >= 0x7f) { char b[8]; snprintf(b, sizeof b, "\\u%04x", c); o += b; }
		else o.push_back(c);
	}
	return o;
}

// environment helpers
inline long env_long(const char *name, long dflt)
{
	const char *v = getenv(name);
	return (v && *v) ? strtol(v, nullptr, 0) : dflt;
}
inline std::string env_str(const char *name, const char *dflt = "")
{
	const char *v = getenv(name);
	return (v && *v) ? v : dflt;
}
// zero-filled buffer of n bytes whose data() is never NULL
inline std::vector<uint8_t> zbuf(size_t n) { std::vector<uint8_t> v; v.reserve(n + 1); v.resize(n); return v; }
inline bool tier_thorough() { return env_str("VERIF_TIER", "quick") == "thorough"; }
// enumerators: run one tape, stop the process at the first violation
void enum_tape(const std::vector<uint8_t> &tp);
// is `key` listed as a known (unfixed) finding?  (VERIF_KNOWN, from known_findings.txt)
bool known(const char *key);

} // namespace vf

// ---- what a target provides -------------------------------------------
extern const char *target_name;
// Decode the tape and evaluate the oracle; throw vf::Violation on failure.
void target_run(vf::Tape &t);
// Optional deterministic enumerator (mode --enum SHARD NSHARDS); default: none.
void target_enum(int shard, int nshards) __attribute__((weak));
// Optional one-time initialisation.
void target_init() __attribute__((weak));
// Suggested tape length range for the rapidcheck generator.
extern const int target_tape_min, target_tape_max;
