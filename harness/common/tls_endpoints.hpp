// TLS lab, part 1: endpoints (BearSSL client/server built from a generated
// profile; OpenSSL client/server on memory BIOs) behind one interface.
//
// Every BearSSL engine call made through BearEndpoint is followed by the
// state/buffer invariants of property C06, so every TLS target checks them
// for free.
#pragma once
#include "vf.hpp"
#include "wiretap.hpp"
extern "C" {
#include "bearssl.h"
}
#include "../../fixtures/tls_fixtures.h"
#include <openssl/ssl.h>
#include <openssl/err.h>
#include <openssl/rand.h>
#include <openssl/pem.h>
#include <openssl/x509.h>
#include <memory>
#include <deque>
#include <functional>

namespace tls {

using vf::Tape;
using vf::failf;
typedef std::vector<uint8_t> Bytes;

// Certificate validation instant used everywhere (fixture certificates are
// valid 2010..2037): day 736000 = 2015-01-27.
static const uint32_t VALID_DAYS = 736000, VALID_SECS = 0;

enum Layout { L_MONO = 0, L_BIDI = 1, L_SPLIT = 2 };
enum KeyKind { K_RSA = 0, K_EC = 1, K_ECRSA = 2 };   // server chain: RSA/RSA, EC/EC-issuer, EC/RSA-issuer

struct Profile {
	std::vector<uint16_t> suites;            // empty: the full default list
	unsigned vmin = BR_TLS10, vmax = BR_TLS12;
	Layout layout = L_MONO;
	size_t buflen = BR_SSL_BUFSIZE_MONO;     // L_MONO / L_BIDI: total
	size_t ilen = BR_SSL_BUFSIZE_INPUT, olen = BR_SSL_BUFSIZE_OUTPUT;   // L_SPLIT
	uint32_t flags = 0;
	unsigned min_clienthello_len = 0;        // Bear client only: br_ssl_client_set_min_clienthello_len (padding extension)
	bool esp = false;                        // implementations an ESP8266 build uses (ct / ctmul32 / i15 / m15)
	KeyKind key = K_RSA;                     // server only
	unsigned usages = BR_KEYTYPE_KEYX | BR_KEYTYPE_SIGN;   // server only
	std::vector<std::string> alpn;
	std::string sni = "localhost";           // client only; empty = no SNI
	bool resume = false;                     // client only
	Bytes entropy = Bytes(32, 0x5A);         // injected before reset; empty = none
	bool client_auth = false;                // server: request a client certificate; client: have one
	int client_key = K_RSA;                  // client certificate type when client_auth
	br_ssl_session_cache_lru *cache = nullptr;   // server only
	int ossl_mfln = 0;                       // OpenSSL client only: max_fragment_length code to request (0 = none)
};

// byte FIFO with O(1) amortised pop from the front
struct Fifo {
	Bytes b;
	size_t off = 0;
	bool empty() const { return off >= b.size(); }
	size_t size() const { return b.size() - off; }
	const uint8_t *data() const { return b.data() + off; }
	void push(const uint8_t *p, size_t n) { b.insert(b.end(), p, p + n); }
	void push(const Bytes &x) { b.insert(b.end(), x.begin(), x.end()); }
	void pop(size_t n)
	{
		off += n;
		if (off >= b.size()) { b.clear(); off = 0; }
		else if (off > 65536 && off > b.size() / 2) { b.erase(b.begin(), b.begin() + off); off = 0; }
	}
	void clear() { b.clear(); off = 0; }
};

struct Endpoint {
	bool is_client = false;
	std::string name;
	virtual ~Endpoint() {}
	virtual size_t wire_out_peek(const uint8_t **p) = 0;
	virtual void wire_out_ack(size_t n) = 0;
	virtual size_t wire_in_room() = 0;
	virtual void wire_in(const uint8_t *p, size_t n) = 0;
	virtual size_t app_out_room() = 0;
	virtual void app_out(const uint8_t *p, size_t n) = 0;
	virtual size_t app_in_peek(const uint8_t **p) = 0;
	virtual void app_in_ack(size_t n) = 0;
	virtual void flush(bool force) = 0;
	virtual void close() = 0;
	virtual bool renegotiate() { return false; }
	virtual bool ready() = 0;          // application data may be written now
	virtual bool handshake_done() = 0; // a handshake has completed (keys in place)
	virtual bool closed() = 0;
	virtual int error() = 0;
	virtual void transport_eof() {}
	virtual bool keymat(wt::KeyMat &) { return false; }
	virtual bool is_bear() const { return false; }
};

// ---------------------------------------------------------------- BearSSL
struct BearEndpoint : Endpoint {
	br_ssl_engine_context *eng = nullptr;
	std::unique_ptr<uint8_t[]> iobuf, ibuf, obuf;
	uint8_t *in_lo = nullptr, *in_hi = nullptr, *out_lo = nullptr, *out_hi = nullptr;
	bool was_closed = false;
	int first_err = 0;
	bool reset_ok = false;
	bool ever_ready = false;
	uint64_t api_calls = 0;
	bool allow_state0 = false;   // set by targets replaying a listed known finding

	bool is_bear() const override { return true; }

	void setup_buffers(const Profile &p)
	{
		if (p.layout == L_SPLIT) {
			ibuf.reset(new uint8_t[p.ilen ? p.ilen : 1]);
			obuf.reset(new uint8_t[p.olen ? p.olen : 1]);
			br_ssl_engine_set_buffers_bidi(eng, ibuf.get(), p.ilen, obuf.get(), p.olen);
			in_lo = ibuf.get(); in_hi = in_lo + p.ilen;
			out_lo = obuf.get(); out_hi = out_lo + p.olen;
		} else {
			iobuf.reset(new uint8_t[p.buflen ? p.buflen : 1]);
			br_ssl_engine_set_buffer(eng, iobuf.get(), p.buflen, p.layout == L_BIDI);
			in_lo = out_lo = iobuf.get();
			in_hi = out_hi = iobuf.get() + p.buflen;
		}
	}
	// A context reused with other I/O memory: new buffers of the given layout
	// and size, the old ones are kept allocated (so that a stale region is
	// reported by the region check, not as a use after free) but are no longer
	// "caller-supplied memory" for the invariant.  The documentation requires a
	// reset after this call.
	std::vector<std::unique_ptr<uint8_t[]>> retired;
	void rebuffer(const Profile &p)
	{
		if (iobuf) retired.push_back(std::move(iobuf));
		if (ibuf) retired.push_back(std::move(ibuf));
		if (obuf) retired.push_back(std::move(obuf));
		setup_buffers(p);
	}
	void set_esp_impls()
	{
		br_ssl_engine_set_aes_cbc(eng, &br_aes_ct_cbcenc_vtable, &br_aes_ct_cbcdec_vtable);
		br_ssl_engine_set_aes_ctr(eng, &br_aes_ct_ctr_vtable);
		br_ssl_engine_set_aes_ctrcbc(eng, &br_aes_ct_ctrcbc_vtable);
		br_ssl_engine_set_des_cbc(eng, &br_des_ct_cbcenc_vtable, &br_des_ct_cbcdec_vtable);
		br_ssl_engine_set_ghash(eng, &br_ghash_ctmul32);
		br_ssl_engine_set_chacha20(eng, &br_chacha20_ct_run);
		br_ssl_engine_set_poly1305(eng, &br_poly1305_ctmul32_run);
		br_ssl_engine_set_ec(eng, &br_ec_all_m15);
		br_ssl_engine_set_rsavrfy(eng, &br_rsa_i15_pkcs1_vrfy);
		br_ssl_engine_set_ecdsa(eng, &br_ecdsa_i15_vrfy_asn1);
	}

	// ---- C06 invariants, after every API call
	void inv(const char *after)
	{
		api_calls++;
		unsigned st = br_ssl_engine_current_state(eng);
		static const bool dbg = getenv("VERIF_DEBUG") != nullptr;   // tracing aid only
		if (dbg) fprintf(stderr, "DBG %s %s st=%#x err=%d iomode=%d ixa=%zu ixb=%zu ixc=%zu oxa=%zu oxb=%zu oxc=%zu appdata=%d rtin=%d rtout=%d\n", name.c_str(), after, st,
			br_ssl_engine_last_error(eng), eng->iomode, eng->ixa, eng->ixb, eng->ixc, eng->oxa, eng->oxb, eng->oxc, eng->application_data, eng->record_type_in, eng->record_type_out);
		int err = br_ssl_engine_last_error(eng);
		if (st & BR_SSL_CLOSED)
			VF_CHECK(st == BR_SSL_CLOSED, "%s: after %s state %#x has CLOSED with other flags", name.c_str(), after, st);
		if (was_closed) {
			VF_CHECK(st == BR_SSL_CLOSED, "%s: after %s engine left CLOSED (state %#x)", name.c_str(), after, st);
			VF_CHECK(err == first_err, "%s: after %s error changed %d -> %d on a closed engine", name.c_str(), after, first_err, err);
		}
		if (err != 0)
			VF_CHECK(st == BR_SSL_CLOSED, "%s: after %s last_error=%d but state %#x is not CLOSED", name.c_str(), after, err, st);
		if (st == BR_SSL_CLOSED) {
			// bearssl_ssl.h: key export returns 0 when "the connection failed or was closed" (an error or a result, never both)
			uint8_t tmp[4];
			VF_CHECK(br_ssl_key_export(eng, tmp, sizeof tmp, "probe", nullptr, 0) == 0, "%s: after %s the engine is closed (error %d) but br_ssl_key_export() still succeeds", name.c_str(), after, err);
		}
		if (st == BR_SSL_CLOSED && !was_closed) { was_closed = true; first_err = err; }
		VF_CHECK(!((st & BR_SSL_SENDREC) && (st & BR_SSL_SENDAPP)), "%s: after %s SENDREC together with SENDAPP (state %#x)", name.c_str(), after, st);
		VF_CHECK(!((st & BR_SSL_RECVREC) && (st & BR_SSL_RECVAPP)), "%s: after %s RECVREC together with RECVAPP (state %#x)", name.c_str(), after, st);
		if (reset_ok && !allow_state0)
			VF_CHECK(st != 0, "%s: after %s state is 0 on a live engine (nothing offered, not closed)", name.c_str(), after);
		struct { unsigned flag; unsigned char *(*f)(const br_ssl_engine_context *, size_t *); const char *n; bool in; bool extract; } q[4] = {
			{ BR_SSL_SENDAPP, br_ssl_engine_sendapp_buf, "sendapp", false, false },
			{ BR_SSL_RECVAPP, br_ssl_engine_recvapp_buf, "recvapp", true, true },
			{ BR_SSL_SENDREC, br_ssl_engine_sendrec_buf, "sendrec", false, true },
			{ BR_SSL_RECVREC, br_ssl_engine_recvrec_buf, "recvrec", true, false },
		};
		uint8_t *rlo[4] = { nullptr, nullptr, nullptr, nullptr }; size_t rlen[4] = { 0, 0, 0, 0 };
		int qi = 0;
		for (auto &e : q) {
			size_t len = 12345;
			unsigned char *b = e.f(eng, &len);
			bool flag = (st & e.flag) != 0;
			VF_CHECK((b != nullptr) == flag && (len > 0) == flag,
				"%s: after %s %s_buf=%p len=%zu but state flag is %d (state %#x)", name.c_str(), after, e.n, (void *)b, len, (int)flag, st);
			if (b) {
				uint8_t *lo = e.in ? in_lo : out_lo, *hi = e.in ? in_hi : out_hi;
				VF_CHECK(b >= lo && b + len <= hi && len <= (size_t)(hi - lo),
					"%s: after %s %s region [%p,+%zu) outside the configured buffer [%p,%p)", name.c_str(), after, e.n, (void *)b, len, (void *)lo, (void *)hi);
			}
			rlo[qi] = b; rlen[qi] = b ? len : 0; qi++;
			// a query does not change observables
			size_t len2 = 54321;
			unsigned char *b2 = e.f(eng, &len2);
			VF_CHECK(b2 == b && len2 == len, "%s: two consecutive %s_buf queries disagree", name.c_str(), e.n);
		}
		// A region holding bytes the caller has not taken yet (sendrec, recvapp)
		// must not share memory with any other offered region: filling the
		// other one would destroy those bytes.  (Two regions the caller writes
		// into - sendapp and recvrec on an idle shared buffer - may alias by
		// design: they are alternatives and the first acknowledgement decides.)
		for (int a = 0; a < 4; a++) for (int b2 = a + 1; b2 < 4; b2++)
			if (rlo[a] && rlo[b2] && (q[a].extract || q[b2].extract))
				VF_CHECK(rlo[a] + rlen[a] <= rlo[b2] || rlo[b2] + rlen[b2] <= rlo[a],
					"%s: after %s the %s region [%p,+%zu) overlaps the %s region [%p,+%zu) (shared buffer offered for two uses at once)",
					name.c_str(), after, q[a].n, (void *)rlo[a], rlen[a], q[b2].n, (void *)rlo[b2], rlen[b2]);
		VF_CHECK(br_ssl_engine_current_state(eng) == st, "%s: current_state not stable", name.c_str());
		if (st & (BR_SSL_SENDAPP | BR_SSL_RECVAPP)) ever_ready = true;
	}

	unsigned state() { return br_ssl_engine_current_state(eng); }

	size_t wire_out_peek(const uint8_t **p) override
	{
		size_t len = 0;
		*p = br_ssl_engine_sendrec_buf(eng, &len);
		return *p ? len : 0;
	}
	void wire_out_ack(size_t n) override
	{
		size_t len;
		unsigned char *b = br_ssl_engine_sendrec_buf(eng, &len);
		br_ssl_engine_sendrec_ack(eng, n);
		inv("sendrec_ack");
		if (n < len) {
			size_t len2;
			unsigned char *b2 = br_ssl_engine_sendrec_buf(eng, &len2);
			VF_CHECK(b2 == b + n && len2 == len - n, "%s: partial sendrec_ack(%zu of %zu): next region %p+%zu, expected %p+%zu",
				name.c_str(), n, len, (void *)b2, len2, (void *)(b + n), len - n);
		}
	}
	size_t wire_in_room() override
	{
		size_t len = 0;
		return br_ssl_engine_recvrec_buf(eng, &len) ? len : 0;
	}
	void wire_in(const uint8_t *p, size_t n) override
	{
		size_t len;
		unsigned char *b = br_ssl_engine_recvrec_buf(eng, &len);
		VF_CHECK(b && n <= len, "harness: wire_in without room");
		memcpy(b, p, n);
		br_ssl_engine_recvrec_ack(eng, n);
		inv("recvrec_ack");
	}
	size_t app_out_room() override
	{
		size_t len = 0;
		return br_ssl_engine_sendapp_buf(eng, &len) ? len : 0;
	}
	void app_out(const uint8_t *p, size_t n) override
	{
		size_t len;
		unsigned char *b = br_ssl_engine_sendapp_buf(eng, &len);
		VF_CHECK(b && n <= len, "harness: app_out without room");
		memcpy(b, p, n);
		br_ssl_engine_sendapp_ack(eng, n);
		inv("sendapp_ack");
	}
	size_t app_in_peek(const uint8_t **p) override
	{
		size_t len = 0;
		*p = br_ssl_engine_recvapp_buf(eng, &len);
		return *p ? len : 0;
	}
	void app_in_ack(size_t n) override
	{
		size_t len;
		unsigned char *b = br_ssl_engine_recvapp_buf(eng, &len);
		br_ssl_engine_recvapp_ack(eng, n);
		inv("recvapp_ack");
		if (n < len) {
			size_t len2;
			unsigned char *b2 = br_ssl_engine_recvapp_buf(eng, &len2);
			VF_CHECK(b2 == b + n && len2 == len - n, "%s: partial recvapp_ack(%zu of %zu): next region %p+%zu, expected %p+%zu",
				name.c_str(), n, len, (void *)b2, len2, (void *)(b + n), len - n);
		}
	}
	void flush(bool force) override { br_ssl_engine_flush(eng, force ? 1 : 0); inv("flush"); }
	void close() override { br_ssl_engine_close(eng); inv("close"); }
	bool renegotiate() override { int r = br_ssl_engine_renegotiate(eng); inv("renegotiate"); return r != 0; }
	bool ready() override { return (state() & BR_SSL_SENDAPP) != 0; }
	bool handshake_done() override
	{
		// public readiness probe: key export works only once a handshake is complete
		uint8_t tmp[4];
		return br_ssl_key_export(eng, tmp, sizeof tmp, "probe", nullptr, 0) == 1;
	}
	bool closed() override { return state() == BR_SSL_CLOSED; }
	int error() override { return br_ssl_engine_last_error(eng); }
	bool keymat(wt::KeyMat &km) override
	{
		br_ssl_session_parameters sp;
		br_ssl_engine_get_session_parameters(eng, &sp);
		km.version = sp.version;
		km.suite = sp.cipher_suite;
		memcpy(km.master, sp.master_secret, 48);
		memcpy(km.cr, eng->client_random, 32);
		memcpy(km.sr, eng->server_random, 32);
		return sp.version != 0 && sp.cipher_suite != 0;
	}
};

struct BearClient : BearEndpoint {
	std::unique_ptr<br_ssl_client_context> sc;
	std::unique_ptr<br_x509_minimal_context> xc;
	Profile prof;
	std::vector<const char *> alpn_ptrs;
	int reset_ret = 0;

	explicit BearClient(const Profile &p, const br_x509_class **custom_x509 = nullptr) : prof(p)
	{
		is_client = true;
		name = "bear-client";
		sc.reset(new br_ssl_client_context);
		xc.reset(new br_x509_minimal_context);
		br_ssl_client_init_full(sc.get(), xc.get(), FX_TAS, FX_TAS_NUM);
		eng = &sc->eng;
		br_x509_minimal_set_time(xc.get(), VALID_DAYS, VALID_SECS);
		if (p.esp) {
			set_esp_impls();
			br_ssl_client_set_rsapub(sc.get(), &br_rsa_i15_public);
			br_x509_minimal_set_rsa(xc.get(), &br_rsa_i15_pkcs1_vrfy);
			br_x509_minimal_set_ecdsa(xc.get(), &br_ec_all_m15, &br_ecdsa_i15_vrfy_asn1);
		}
		if (custom_x509) br_ssl_engine_set_x509(eng, custom_x509);
		if (!p.suites.empty()) br_ssl_engine_set_suites(eng, p.suites.data(), p.suites.size());
		br_ssl_engine_set_versions(eng, p.vmin, p.vmax);
		br_ssl_engine_set_all_flags(eng, p.flags);
		if (p.min_clienthello_len) br_ssl_client_set_min_clienthello_len(sc.get(), (uint16_t)p.min_clienthello_len);
		if (!p.alpn.empty()) {
			for (auto &a : prof.alpn) alpn_ptrs.push_back(a.c_str());
			br_ssl_engine_set_protocol_names(eng, alpn_ptrs.data(), alpn_ptrs.size());
		}
		if (p.client_auth) {
			if (p.client_key == K_RSA)
				br_ssl_client_set_single_rsa(sc.get(), FX_RSA_CHAIN, FX_RSA_CHAIN_LEN, &FX_RSA_SKEY,
					p.esp ? &br_rsa_i15_pkcs1_sign : br_rsa_pkcs1_sign_get_default());
			else
				br_ssl_client_set_single_ec(sc.get(), p.client_key == K_EC ? FX_EC_CHAIN : FX_ECRSA_CHAIN, 2, &FX_EC_SKEY,
					BR_KEYTYPE_KEYX | BR_KEYTYPE_SIGN, p.client_key == K_EC ? BR_KEYTYPE_EC : BR_KEYTYPE_RSA,
					p.esp ? &br_ec_all_m15 : br_ec_get_default(),
					p.esp ? &br_ecdsa_i15_sign_asn1 : br_ecdsa_sign_asn1_get_default());
		}
		setup_buffers(p);
	}
	// (re)start a connection
	bool reset()
	{
		was_closed = false; first_err = 0; ever_ready = false;
		if (!prof.entropy.empty()) br_ssl_engine_inject_entropy(eng, prof.entropy.data(), prof.entropy.size());
		reset_ret = br_ssl_client_reset(sc.get(), prof.sni.empty() ? nullptr : prof.sni.c_str(), prof.resume ? 1 : 0);
		reset_ok = reset_ret != 0;
		inv("client_reset");
		return reset_ok;
	}
};

struct BearServer : BearEndpoint {
	std::unique_ptr<br_ssl_server_context> ss;
	std::unique_ptr<br_x509_minimal_context> xc;   // for client certificates
	Profile prof;
	std::vector<const char *> alpn_ptrs;
	int reset_ret = 0;

	explicit BearServer(const Profile &p, const br_x509_class **custom_x509 = nullptr) : prof(p)
	{
		is_client = false;
		name = "bear-server";
		ss.reset(new br_ssl_server_context);
		if (p.key == K_RSA) br_ssl_server_init_full_rsa(ss.get(), FX_RSA_CHAIN, FX_RSA_CHAIN_LEN, &FX_RSA_SKEY);
		else if (p.key == K_EC) br_ssl_server_init_full_ec(ss.get(), FX_EC_CHAIN, FX_EC_CHAIN_LEN, BR_KEYTYPE_EC, &FX_EC_SKEY);
		else br_ssl_server_init_full_ec(ss.get(), FX_ECRSA_CHAIN, FX_ECRSA_CHAIN_LEN, BR_KEYTYPE_RSA, &FX_EC_SKEY);
		eng = &ss->eng;
		if (p.esp) set_esp_impls();
		if (p.esp || p.usages != (BR_KEYTYPE_KEYX | BR_KEYTYPE_SIGN)) {
			if (p.key == K_RSA)
				br_ssl_server_set_single_rsa(ss.get(), FX_RSA_CHAIN, FX_RSA_CHAIN_LEN, &FX_RSA_SKEY, p.usages,
					p.esp ? &br_rsa_i15_private : br_rsa_private_get_default(),
					p.esp ? &br_rsa_i15_pkcs1_sign : br_rsa_pkcs1_sign_get_default());
			else
				br_ssl_server_set_single_ec(ss.get(), p.key == K_EC ? FX_EC_CHAIN : FX_ECRSA_CHAIN, 2, &FX_EC_SKEY, p.usages,
					p.key == K_EC ? BR_KEYTYPE_EC : BR_KEYTYPE_RSA,
					p.esp ? &br_ec_all_m15 : br_ec_get_default(),
					p.esp ? &br_ecdsa_i15_sign_asn1 : br_ecdsa_sign_asn1_get_default());
		}
		if (!p.suites.empty()) br_ssl_engine_set_suites(eng, p.suites.data(), p.suites.size());
		br_ssl_engine_set_versions(eng, p.vmin, p.vmax);
		br_ssl_engine_set_all_flags(eng, p.flags);
		if (!p.alpn.empty()) {
			for (auto &a : prof.alpn) alpn_ptrs.push_back(a.c_str());
			br_ssl_engine_set_protocol_names(eng, alpn_ptrs.data(), alpn_ptrs.size());
		}
		if (p.client_auth || custom_x509) {
			xc.reset(new br_x509_minimal_context);
			br_x509_minimal_init(xc.get(), &br_sha256_vtable, FX_TAS, FX_TAS_NUM);
			br_x509_minimal_set_time(xc.get(), VALID_DAYS, VALID_SECS);
			br_x509_minimal_set_rsa(xc.get(), p.esp ? &br_rsa_i15_pkcs1_vrfy : br_rsa_pkcs1_vrfy_get_default());
			br_x509_minimal_set_ecdsa(xc.get(), p.esp ? &br_ec_all_m15 : br_ec_get_default(),
				p.esp ? &br_ecdsa_i15_vrfy_asn1 : br_ecdsa_vrfy_asn1_get_default());
			for (int id = br_md5_ID; id <= br_sha512_ID; id++)
				br_x509_minimal_set_hash(xc.get(), id, br_ssl_engine_get_hash(eng, id));
			br_ssl_engine_set_x509(eng, custom_x509 ? custom_x509 : &xc->vtable);
			br_ssl_server_set_trust_anchor_names_alt(ss.get(), FX_TAS, FX_TAS_NUM);
			// a server that asks for client certificates verifies CertificateVerify signatures itself
			if (p.esp) { br_ssl_engine_set_rsavrfy(eng, &br_rsa_i15_pkcs1_vrfy); br_ssl_engine_set_ecdsa(eng, &br_ecdsa_i15_vrfy_asn1); br_ssl_engine_set_ec(eng, &br_ec_all_m15); }
			else { br_ssl_engine_set_default_rsavrfy(eng); br_ssl_engine_set_default_ecdsa(eng); br_ssl_engine_set_default_ec(eng); }
		}
		if (p.cache) br_ssl_server_set_cache(ss.get(), &p.cache->vtable);
		setup_buffers(p);
	}
	bool reset()
	{
		was_closed = false; first_err = 0; ever_ready = false;
		if (!prof.entropy.empty()) br_ssl_engine_inject_entropy(eng, prof.entropy.data(), prof.entropy.size());
		reset_ret = br_ssl_server_reset(ss.get());
		reset_ok = reset_ret != 0;
		inv("server_reset");
		return reset_ok;
	}
};

// In-place snapshot of a BearSSL endpoint (contexts and I/O buffers are
// copied to side storage and back to the SAME addresses, so every internal
// pointer stays valid).
struct BearSnap {
	Bytes ctx, xc, io, ib, ob;
	bool was_closed = false, ever_ready = false, reset_ok = false;
	int first_err = 0;
};
template <typename EP> inline void snap_save(EP &e, BearSnap &sn, void *ctx, size_t ctxlen)
{
	sn.ctx.assign((uint8_t *)ctx, (uint8_t *)ctx + ctxlen);
	if (e.xc) sn.xc.assign((uint8_t *)e.xc.get(), (uint8_t *)e.xc.get() + sizeof(br_x509_minimal_context));
	const Profile &p = e.prof;
	if (p.layout == L_SPLIT) { sn.ib.assign(e.ibuf.get(), e.ibuf.get() + p.ilen); sn.ob.assign(e.obuf.get(), e.obuf.get() + p.olen); }
	else sn.io.assign(e.iobuf.get(), e.iobuf.get() + p.buflen);
	sn.was_closed = e.was_closed; sn.ever_ready = e.ever_ready; sn.reset_ok = e.reset_ok; sn.first_err = e.first_err;
}
template <typename EP> inline void snap_restore(EP &e, const BearSnap &sn, void *ctx)
{
	memcpy(ctx, sn.ctx.data(), sn.ctx.size());
	if (e.xc && !sn.xc.empty()) memcpy((void *)e.xc.get(), sn.xc.data(), sn.xc.size());
	if (!sn.ib.empty()) memcpy(e.ibuf.get(), sn.ib.data(), sn.ib.size());
	if (!sn.ob.empty()) memcpy(e.obuf.get(), sn.ob.data(), sn.ob.size());
	if (!sn.io.empty()) memcpy(e.iobuf.get(), sn.io.data(), sn.io.size());
	e.was_closed = sn.was_closed; e.ever_ready = sn.ever_ready; e.reset_ok = sn.reset_ok; e.first_err = sn.first_err;
}
inline void snap_save(BearClient &c, BearSnap &sn) { snap_save(c, sn, c.sc.get(), sizeof(br_ssl_client_context)); }
inline void snap_restore(BearClient &c, const BearSnap &sn) { snap_restore(c, sn, c.sc.get()); }
inline void snap_save(BearServer &s, BearSnap &sn) { snap_save(s, sn, s.ss.get(), sizeof(br_ssl_server_context)); }
inline void snap_restore(BearServer &s, const BearSnap &sn) { snap_restore(s, sn, s.ss.get()); }

// ---------------------------------------------------------------- OpenSSL
// deterministic RAND for the OpenSSL peer (so a case is a pure function of
// its tape)
struct DetRand {
	static uint64_t &state() { static uint64_t s = 0x1234; return s; }
	static int bytes(unsigned char *buf, int num)
	{
		uint64_t &s = state();
		for (int i = 0; i < num; ) {
			s += 0x9E3779B97F4A7C15ULL;
			uint64_t z = s;
			z = (z ^ (z >> 30)) * 0xBF58476D1CE4E5B9ULL;
			z = (z ^ (z >> 27)) * 0x94D049BB133111EBULL;
			z ^= z >> 31;
			for (int k = 0; k < 8 && i < num; k++, i++) buf[i] = (unsigned char)(z >> (8 * k));
		}
		return 1;
	}
	static int status() { return 1; }
	static void install(uint64_t seed)
	{
#pragma GCC diagnostic push
#pragma GCC diagnostic ignored "-Wdeprecated-declarations"
		static RAND_METHOD m = { nullptr, bytes, nullptr, nullptr, bytes, status };
		static bool done = false;
		if (!done) { RAND_set_rand_method(&m); done = true; }
#pragma GCC diagnostic pop
		state() = seed * 2654435761u + 99;
	}
};

inline const char *ossl_suite_name(uint16_t id)
{
	switch (id) {
	case 0x002F: return "AES128-SHA"; case 0x0035: return "AES256-SHA";
	case 0x003C: return "AES128-SHA256"; case 0x003D: return "AES256-SHA256";
	case 0x009C: return "AES128-GCM-SHA256"; case 0x009D: return "AES256-GCM-SHA384";
	case 0xC009: return "ECDHE-ECDSA-AES128-SHA"; case 0xC00A: return "ECDHE-ECDSA-AES256-SHA";
	case 0xC013: return "ECDHE-RSA-AES128-SHA"; case 0xC014: return "ECDHE-RSA-AES256-SHA";
	case 0xC023: return "ECDHE-ECDSA-AES128-SHA256"; case 0xC024: return "ECDHE-ECDSA-AES256-SHA384";
	case 0xC027: return "ECDHE-RSA-AES128-SHA256"; case 0xC028: return "ECDHE-RSA-AES256-SHA384";
	case 0xC02B: return "ECDHE-ECDSA-AES128-GCM-SHA256"; case 0xC02C: return "ECDHE-ECDSA-AES256-GCM-SHA384";
	case 0xC02F: return "ECDHE-RSA-AES128-GCM-SHA256"; case 0xC030: return "ECDHE-RSA-AES256-GCM-SHA384";
	case 0xC09C: return "AES128-CCM"; case 0xC09D: return "AES256-CCM";
	case 0xC0A0: return "AES128-CCM8"; case 0xC0A1: return "AES256-CCM8";
	case 0xC0AC: return "ECDHE-ECDSA-AES128-CCM"; case 0xC0AD: return "ECDHE-ECDSA-AES256-CCM";
	case 0xC0AE: return "ECDHE-ECDSA-AES128-CCM8"; case 0xC0AF: return "ECDHE-ECDSA-AES256-CCM8";
	case 0xCCA8: return "ECDHE-RSA-CHACHA20-POLY1305"; case 0xCCA9: return "ECDHE-ECDSA-CHACHA20-POLY1305";
	default: return nullptr;   // 3DES and static ECDH: not in this OpenSSL build
	}
}

struct OsslEndpoint : Endpoint {
	SSL_CTX *ctx = nullptr;
	SSL *ssl = nullptr;
	BIO *rbio = nullptr, *wbio = nullptr;
	Fifo outbuf, appin;
	Bytes appout_pending;
	bool fatal = false, sent_shutdown = false, want_close = false;
	int last_err = 0;
	size_t max_send_fragment = 16384;

	OsslEndpoint(bool client, const Profile &p)
	{
		is_client = client;
		name = client ? "openssl-client" : "openssl-server";
		ctx = SSL_CTX_new(client ? TLS_client_method() : TLS_server_method());
		SSL_CTX_set_security_level(ctx, 0);
		SSL_CTX_set_options(ctx, SSL_OP_NO_TICKET | SSL_OP_NO_RENEGOTIATION * 0);
		SSL_CTX_set_min_proto_version(ctx, p.vmin);
		SSL_CTX_set_max_proto_version(ctx, p.vmax > TLS1_2_VERSION ? TLS1_2_VERSION : p.vmax);
		std::string cl;
		for (uint16_t s : p.suites) {
			const char *n = ossl_suite_name(s);
			if (n) { if (!cl.empty()) cl += ":"; cl += n; }
		}
		if (cl.empty()) cl = "ALL:@SECLEVEL=0";
		else cl += ":@SECLEVEL=0";
		if (!SSL_CTX_set_cipher_list(ctx, cl.c_str())) failf("harness: OpenSSL refused cipher list %s", cl.c_str());
		SSL_CTX_set1_groups_list(ctx, "P-256:P-384:P-521:X25519");
		SSL_CTX_set_session_cache_mode(ctx, SSL_SESS_CACHE_OFF);
		if (!client) {
			const br_x509_certificate *chain = p.key == K_RSA ? FX_RSA_CHAIN : p.key == K_EC ? FX_EC_CHAIN : FX_ECRSA_CHAIN;
			for (int i = 0; i < 2; i++) {
				const unsigned char *d = chain[i].data;
				X509 *x = d2i_X509(nullptr, &d, (long)chain[i].data_len);
				if (!x) failf("harness: d2i_X509");
				if (i == 0) SSL_CTX_use_certificate(ctx, x);
				else { SSL_CTX_add_extra_chain_cert(ctx, x); x = nullptr; }
				if (x) X509_free(x);
			}
			const char *pem = p.key == K_RSA ? FX_RSA_SKEY_PEM : FX_EC_SKEY_PEM;
			BIO *b = BIO_new_mem_buf(pem, -1);
			EVP_PKEY *k = PEM_read_bio_PrivateKey(b, nullptr, nullptr, nullptr);
			BIO_free(b);
			if (!k || !SSL_CTX_use_PrivateKey(ctx, k)) failf("harness: OpenSSL private key");
			EVP_PKEY_free(k);
		} else {
			SSL_CTX_set_verify(ctx, SSL_VERIFY_NONE, nullptr);
		}
		ssl = SSL_new(ctx);
		rbio = BIO_new(BIO_s_mem());
		wbio = BIO_new(BIO_s_mem());
		SSL_set_bio(ssl, rbio, wbio);
		if (client) {
			if (!p.sni.empty()) SSL_set_tlsext_host_name(ssl, p.sni.c_str());
			if (p.ossl_mfln) SSL_set_tlsext_max_fragment_length(ssl, (uint8_t)p.ossl_mfln);
			SSL_set_connect_state(ssl);
		} else SSL_set_accept_state(ssl);
		progress();
	}
	~OsslEndpoint() override { if (ssl) SSL_free(ssl); if (ctx) SSL_CTX_free(ctx); }

	void note_err(int r)
	{
		int e = SSL_get_error(ssl, r);
		if (e == SSL_ERROR_SSL || e == SSL_ERROR_SYSCALL) { fatal = true; last_err = e == SSL_ERROR_SSL ? (int)(ERR_peek_error() & 0xFFFFFF) | 1 : 5; ERR_clear_error(); }
	}
	void progress()
	{
		if (fatal) return;
		if (!SSL_is_init_finished(ssl)) {
			int r = SSL_do_handshake(ssl);
			if (r <= 0) note_err(r);
		}
		if (SSL_is_init_finished(ssl) && !fatal) {
			for (;;) {
				uint8_t tmp[16384];
				int r = SSL_read(ssl, tmp, sizeof tmp);
				if (r > 0) appin.push(tmp, (size_t)r);
				else { note_err(r); break; }
			}
			while (!appout_pending.empty() && !fatal && !sent_shutdown) {
				size_t n = appout_pending.size() < max_send_fragment ? appout_pending.size() : max_send_fragment;
				int r = SSL_write(ssl, appout_pending.data(), (int)n);
				if (r > 0) appout_pending.erase(appout_pending.begin(), appout_pending.begin() + r);
				else { note_err(r); break; }
			}
			if (want_close && appout_pending.empty() && !sent_shutdown) { SSL_shutdown(ssl); sent_shutdown = true; }
			if ((SSL_get_shutdown(ssl) & SSL_RECEIVED_SHUTDOWN) && !sent_shutdown) { SSL_shutdown(ssl); sent_shutdown = true; }
		}
		// drain wbio
		for (;;) {
			uint8_t tmp[4096];
			int r = BIO_read(wbio, tmp, sizeof tmp);
			if (r <= 0) break;
			outbuf.push(tmp, (size_t)r);
		}
	}
	size_t wire_out_peek(const uint8_t **p) override { *p = outbuf.data(); return outbuf.size(); }
	void wire_out_ack(size_t n) override { outbuf.pop(n); }
	size_t wire_in_room() override { return fatal ? 0 : 65536; }
	void wire_in(const uint8_t *p, size_t n) override { BIO_write(rbio, p, (int)n); progress(); }
	size_t app_out_room() override { return ready() ? 65536 : 0; }
	void app_out(const uint8_t *p, size_t n) override { appout_pending.insert(appout_pending.end(), p, p + n); progress(); }
	size_t app_in_peek(const uint8_t **p) override { *p = appin.data(); return appin.size(); }
	void app_in_ack(size_t n) override { appin.pop(n); }
	void flush(bool) override { progress(); }
	void close() override { want_close = true; progress(); }
	bool ready() override { return !fatal && SSL_is_init_finished(ssl) && !sent_shutdown; }
	bool handshake_done() override { return SSL_is_init_finished(ssl); }
	bool closed() override { return fatal || (sent_shutdown && (SSL_get_shutdown(ssl) & SSL_RECEIVED_SHUTDOWN)); }
	int error() override { return fatal ? (last_err ? last_err : 1) : 0; }
};

} // namespace tls
