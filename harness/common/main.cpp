// Entry point for rapidcheck / enumerator / replay modes of a target.
//
//   target --rc                       generated search (RC_PARAMS from env)
//   target --enum SHARD NSHARDS       deterministic enumerator, if the target has one
//   target --replay FILE...           plain replay, no library involved
//
// Exit status: 0 = oracle held on everything run, 1 = violation (a replay
// tape has been written and recorded in the stats file), 2 = usage/other.
#include "core.hpp"
#include <unistd.h>

using namespace vf;

int main(int argc, char **argv)
{
	if (argc < 2) { fprintf(stderr, "usage: %s --rc | --enum S N | --replay FILE...\n", argv[0]); return 2; }
	std::string mode = argv[1];
	stats.target = target_name;
	install_crash_handlers();
	if (target_init) target_init();
	int rc = 0;
	if (mode == "--replay") {
		for (int i = 2; i < argc; i++) {
			std::vector<uint8_t> tp;
			if (!read_file(argv[i], tp)) { fprintf(stderr, "cannot read %s\n", argv[i]); return 2; }
			std::string r = run_tape(tp.data(), tp.size());
			if (!r.empty()) {
				printf("REPLAY-FAIL %s %s: %s\n", target_name, argv[i], r.c_str());
				violation_msg = r;
				violation_replay = argv[i];
				rc = 1;
			} else {
				printf("REPLAY-OK %s %s\n", target_name, argv[i]);
			}
		}
		if (!env_str("VERIF_OUT").empty()) stats.flush();
		return rc;
	}
	if (mode == "--enum") {
		int shard = argc > 2 ? atoi(argv[2]) : 0, n = argc > 3 ? atoi(argv[3]) : 1;
		if (!target_enum) { stats.flush(); return 0; }
		target_enum(shard, n);   // enum_tape() exits 1 on the first violation
		stats.flush();
		return 0;
	}
	if (mode == "--rc") {
		std::vector<uint8_t> shrunk;
		std::string msg;
		int r = rc_drive(target_tape_min, target_tape_max, shrunk, msg);
		if (r == 1) {
			record_violation(shrunk.data(), shrunk.size(), msg);
			fprintf(stderr, "RC-FAIL %s: %s\n", target_name, msg.c_str());
			rc = 1;
		} else if (r == 2) {
			stats.notes["rc"] = msg;
		}
		stats.flush();
		return rc;
	}
	fprintf(stderr, "unknown mode %s\n", mode.c_str());
	return 2;
}
