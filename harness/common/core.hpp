#pragma once
#include "vf.hpp"
namespace vf {
extern std::string violation_msg, violation_replay;
std::string replay_out_path();
void write_file(const std::string &path, const void *p, size_t n);
bool read_file(const std::string &path, std::vector<uint8_t> &out);
void install_crash_handlers();
std::string run_tape(const uint8_t *d, size_t n);
void record_violation(const uint8_t *d, size_t n, const std::string &msg);
void enum_tape(const std::vector<uint8_t> &tp);
// rapidcheck driver (rc_driver.cpp): returns 0 = all passed, 1 = falsified
// (the shrunk tape is in `shrunk`), 2 = gave up / error.
int rc_drive(int tape_min, int tape_max, std::vector<uint8_t> &shrunk, std::string &msg);
}
