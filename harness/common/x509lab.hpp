// X.509 lab: a DER writer, a key pool with deterministic signing, and a
// certificate builder working from an abstract description.  Nothing in
// here parses DER: generated certificates are described abstractly and the
// reference validator of C04 works on that description.
#pragma once
#include "vf.hpp"
#include <string>
#include <vector>
#include <memory>
#include <openssl/bn.h>
#include <openssl/ec.h>
#include <openssl/ecdsa.h>
#include <openssl/evp.h>
#include <openssl/hmac.h>
#include <openssl/rsa.h>
#include <openssl/sha.h>
#include <openssl/obj_mac.h>
#include "../../fixtures/rsa_pool.h"

#pragma GCC diagnostic ignored "-Wdeprecated-declarations"

namespace x509lab {

typedef std::vector<uint8_t> Bytes;

inline void cat(Bytes &a, const Bytes &b) { a.insert(a.end(), b.begin(), b.end()); }
inline Bytes B(const std::string &s) { return Bytes(s.begin(), s.end()); }

namespace der {

inline Bytes len(size_t n)
{
	Bytes b;
	if (n < 0x80) { b.push_back((uint8_t)n); return b; }
	int k = n > 0xFFFFFF ? 4 : n > 0xFFFF ? 3 : n > 0xFF ? 2 : 1;
	b.push_back((uint8_t)(0x80 | k));
	for (int i = k - 1; i >= 0; i--) b.push_back((uint8_t)(n >> (8 * i)));
	return b;
}
inline Bytes tlv(unsigned tag, const Bytes &c)
{
	Bytes b;
	b.push_back((uint8_t)tag);
	cat(b, len(c.size()));
	cat(b, c);
	return b;
}
inline Bytes join(const std::vector<Bytes> &v) { Bytes b; for (auto &x : v) cat(b, x); return b; }
inline Bytes seq(const std::vector<Bytes> &v) { return tlv(0x30, join(v)); }
inline Bytes set(const std::vector<Bytes> &v) { return tlv(0x31, join(v)); }
// unsigned big-endian magnitude -> INTEGER (minimal, non-negative)
inline Bytes integer(const Bytes &mag)
{
	size_t i = 0;
	while (i + 1 < mag.size() && mag[i] == 0) i++;
	Bytes c(mag.begin() + (mag.empty() ? 0 : i), mag.end());
	if (c.empty()) c.push_back(0);
	if (c[0] & 0x80) c.insert(c.begin(), 0);
	return tlv(0x02, c);
}
inline Bytes integer_u(unsigned long v)
{
	Bytes m;
	for (int i = 7; i >= 0; i--) m.push_back((uint8_t)(v >> (8 * i)));
	return integer(m);
}
inline Bytes oid(const std::string &dotted)
{
	std::vector<unsigned long> a;
	size_t p = 0;
	while (p < dotted.size()) { size_t q = dotted.find('.', p); if (q == std::string::npos) q = dotted.size(); a.push_back(strtoul(dotted.substr(p, q - p).c_str(), nullptr, 10)); p = q + 1; }
	Bytes c;
	if (a.size() >= 2) {
		auto enc = [&](unsigned long v) { uint8_t t[10]; int n = 0; do { t[n++] = v & 0x7F; v >>= 7; } while (v); while (n--) c.push_back((uint8_t)(t[n] | (n ? 0x80 : 0))); };
		enc(a[0] * 40 + a[1]);
		for (size_t i = 2; i < a.size(); i++) enc(a[i]);
	}
	return tlv(0x06, c);
}
inline Bytes boolean(bool v) { return tlv(0x01, Bytes(1, v ? 0xFF : 0x00)); }
inline Bytes null() { return tlv(0x05, Bytes()); }
inline Bytes bitstring(const Bytes &c, unsigned unused = 0) { Bytes b(1, (uint8_t)unused); cat(b, c); return tlv(0x03, b); }
inline Bytes octets(const Bytes &c) { return tlv(0x04, c); }
inline Bytes ctx(unsigned n, bool constructed, const Bytes &c) { return tlv(0x80 | (constructed ? 0x20 : 0) | n, c); }

} // namespace der

// ------------------------------------------------------------------ keys

enum KeyKind { KK_RSA = 1, KK_EC = 2 };

struct Key {
	KeyKind kind;
	unsigned bits = 0;            // RSA modulus bits
	int curve = 0;                // BR_EC_secp256r1 (23), 384r1 (24), 521r1 (25)
	EVP_PKEY *pkey = nullptr;
	Bytes n, e;                   // RSA, minimal big-endian
	Bytes q;                      // EC: 04 || X || Y
	Bytes priv;                   // EC private scalar (fixed length)
	std::string name;
};

inline Bytes bn_bytes(const BIGNUM *b, size_t fixed = 0)
{
	Bytes r(fixed ? fixed : (size_t)BN_num_bytes(b));
	if (fixed) BN_bn2binpad(b, r.data(), (int)fixed); else BN_bn2bin(b, r.data());
	return r;
}

inline std::unique_ptr<Key> make_rsa_key(const RsaPoolKey &pk)
{
	auto k = std::make_unique<Key>();
	k->kind = KK_RSA;
	BN_CTX *c = BN_CTX_new();
	BIGNUM *p = nullptr, *q = nullptr;
	BN_hex2bn(&p, pk.p);
	BN_hex2bn(&q, pk.q);
	BIGNUM *n = BN_new(), *e = BN_new(), *d = BN_new(), *p1 = BN_new(), *q1 = BN_new(), *phi = BN_new();
	BIGNUM *dp = BN_new(), *dq = BN_new(), *iq = BN_new();
	BN_mul(n, p, q, c);
	BN_set_word(e, pk.e);
	BN_sub(p1, p, BN_value_one());
	BN_sub(q1, q, BN_value_one());
	BN_mul(phi, p1, q1, c);
	BN_mod_inverse(d, e, phi, c);
	BN_mod(dp, d, p1, c);
	BN_mod(dq, d, q1, c);
	BN_mod_inverse(iq, q, p, c);
	k->n = bn_bytes(n);
	k->e = bn_bytes(e);
	k->bits = (unsigned)BN_num_bits(n);
	RSA *r = RSA_new();
	RSA_set0_key(r, n, e, d);
	RSA_set0_factors(r, p, q);
	RSA_set0_crt_params(r, dp, dq, iq);
	k->pkey = EVP_PKEY_new();
	EVP_PKEY_assign_RSA(k->pkey, r);
	BN_free(p1); BN_free(q1); BN_free(phi);
	BN_CTX_free(c);
	k->name = "rsa" + std::to_string(k->bits) + (pk.e != 65537 ? "e" + std::to_string(pk.e) : "");
	return k;
}

inline std::unique_ptr<Key> make_ec_key(int br_curve, unsigned variant)
{
	auto k = std::make_unique<Key>();
	k->kind = KK_EC;
	k->curve = br_curve;
	int nid = br_curve == 23 ? NID_X9_62_prime256v1 : br_curve == 24 ? NID_secp384r1 : NID_secp521r1;
	size_t flen = br_curve == 23 ? 32 : br_curve == 24 ? 48 : 66;
	EC_KEY *ek = EC_KEY_new_by_curve_name(nid);
	const EC_GROUP *g = EC_KEY_get0_group(ek);
	BN_CTX *c = BN_CTX_new();
	BIGNUM *ord = BN_new(), *x = BN_new();
	EC_GROUP_get_order(g, ord, c);
	// fixed private scalar: SHA-512 chain of a label, reduced into [1, n-1]
	uint8_t h[128];
	std::string lab = "verif-ec-key-" + std::to_string(br_curve) + "-" + std::to_string(variant);
	SHA512((const uint8_t *)lab.data(), lab.size(), h);
	SHA512(h, 64, h + 64);
	BN_bin2bn(h, 80, x);
	BIGNUM *om1 = BN_dup(ord);
	BN_sub_word(om1, 1);
	BN_mod(x, x, om1, c);
	BN_add_word(x, 1);
	EC_POINT *pub = EC_POINT_new(g);
	EC_POINT_mul(g, pub, x, nullptr, nullptr, c);
	EC_KEY_set_private_key(ek, x);
	EC_KEY_set_public_key(ek, pub);
	k->q.resize(1 + 2 * flen);
	EC_POINT_point2oct(g, pub, POINT_CONVERSION_UNCOMPRESSED, k->q.data(), k->q.size(), c);
	k->priv = bn_bytes(x, flen);
	k->pkey = EVP_PKEY_new();
	EVP_PKEY_assign_EC_KEY(k->pkey, ek);
	EC_POINT_free(pub); BN_free(ord); BN_free(x); BN_free(om1); BN_CTX_free(c);
	k->name = std::string(br_curve == 23 ? "p256" : br_curve == 24 ? "p384" : "p521") + "#" + std::to_string(variant);
	return k;
}

// hash ids as in BearSSL: 1 md5, 2 sha1, 3 sha224, 4 sha256, 5 sha384, 6 sha512
inline const EVP_MD *md_of(int id)
{
	switch (id) { case 1: return EVP_md5(); case 2: return EVP_sha1(); case 3: return EVP_sha224(); case 4: return EVP_sha256(); case 5: return EVP_sha384(); case 6: return EVP_sha512(); }
	return nullptr;
}
inline size_t hash_len(int id) { static const size_t L[] = { 0, 16, 20, 28, 32, 48, 64 }; return id >= 1 && id <= 6 ? L[id] : 0; }
inline const char *hash_name(int id) { static const char *N[] = { "?", "md5", "sha1", "sha224", "sha256", "sha384", "sha512" }; return id >= 1 && id <= 6 ? N[id] : "?"; }

inline Bytes digest(int id, const Bytes &m)
{
	Bytes d(hash_len(id));
	unsigned l = 0;
	EVP_Digest(m.data(), m.size(), d.data(), &l, md_of(id), nullptr);
	return d;
}

// deterministic signature over msg: RSA PKCS#1 v1.5 / ECDSA with a nonce
// derived from (key, digest) so that equal cases give equal bytes
inline Bytes sign(const Key &k, int hash_id, const Bytes &msg)
{
	Bytes dg = digest(hash_id, msg);
	if (k.kind == KK_RSA) {
		EVP_PKEY_CTX *c = EVP_PKEY_CTX_new(k.pkey, nullptr);
		EVP_PKEY_sign_init(c);
		EVP_PKEY_CTX_set_rsa_padding(c, RSA_PKCS1_PADDING);
		EVP_PKEY_CTX_set_signature_md(c, md_of(hash_id));
		size_t sl = 0;
		Bytes sig;
		if (EVP_PKEY_sign(c, nullptr, &sl, dg.data(), dg.size()) == 1) {
			sig.resize(sl);
			if (EVP_PKEY_sign(c, sig.data(), &sl, dg.data(), dg.size()) == 1) sig.resize(sl); else sig.clear();
		}
		EVP_PKEY_CTX_free(c);
		return sig;   // empty when the key is too small for the digest
	}
	EC_KEY *ek = (EC_KEY *)EVP_PKEY_get0_EC_KEY(k.pkey);
	const EC_GROUP *g = EC_KEY_get0_group(ek);
	BN_CTX *c = BN_CTX_new();
	BIGNUM *ord = BN_new(), *kk = BN_new(), *kinv = BN_new(), *r = BN_new(), *x = BN_new();
	EC_GROUP_get_order(g, ord, c);
	Bytes out;
	for (unsigned ctr = 0; ctr < 8 && out.empty(); ctr++) {
		uint8_t mac[64 * 2];
		unsigned ml = 0;
		Bytes in = dg;
		in.push_back((uint8_t)ctr);
		HMAC(EVP_sha512(), k.priv.data(), (int)k.priv.size(), in.data(), in.size(), mac, &ml);
		in.push_back(0xFF);
		HMAC(EVP_sha512(), k.priv.data(), (int)k.priv.size(), in.data(), in.size(), mac + 64, &ml);
		BN_bin2bn(mac, 80, kk);
		BIGNUM *om1 = BN_dup(ord);
		BN_sub_word(om1, 1);
		BN_mod(kk, kk, om1, c);
		BN_add_word(kk, 1);
		BN_free(om1);
		EC_POINT *R = EC_POINT_new(g);
		EC_POINT_mul(g, R, kk, nullptr, nullptr, c);
		EC_POINT_get_affine_coordinates(g, R, x, nullptr, c);
		EC_POINT_free(R);
		BN_nnmod(r, x, ord, c);
		if (BN_is_zero(r)) continue;
		BN_mod_inverse(kinv, kk, ord, c);
		ECDSA_SIG *s = ECDSA_do_sign_ex(dg.data(), (int)dg.size(), kinv, r, ek);
		if (!s) continue;
		unsigned char *d = nullptr;
		int l = i2d_ECDSA_SIG(s, &d);
		if (l > 0) out.assign(d, d + l);
		OPENSSL_free(d);
		ECDSA_SIG_free(s);
	}
	BN_free(ord); BN_free(kk); BN_free(kinv); BN_free(r); BN_free(x); BN_CTX_free(c);
	return out;
}

inline bool verify(const Key &k, int hash_id, const Bytes &msg, const Bytes &sig)
{
	Bytes dg = digest(hash_id, msg);
	EVP_PKEY_CTX *c = EVP_PKEY_CTX_new(k.pkey, nullptr);
	EVP_PKEY_verify_init(c);
	if (k.kind == KK_RSA) { EVP_PKEY_CTX_set_rsa_padding(c, RSA_PKCS1_PADDING); EVP_PKEY_CTX_set_signature_md(c, md_of(hash_id)); }
	int r = EVP_PKEY_verify(c, sig.data(), sig.size(), dg.data(), dg.size());
	EVP_PKEY_CTX_free(c);
	return r == 1;
}

struct KeyPool {
	std::vector<std::unique_ptr<Key>> keys;
	std::vector<size_t> rsa, ec;
	void init(unsigned max_rsa_bits = 4096)
	{
		if (!keys.empty()) return;
		for (unsigned i = 0; i < RSA_POOL_N; i++) {
			if (RSA_POOL[i].bits > max_rsa_bits) continue;
			rsa.push_back(keys.size());
			keys.push_back(make_rsa_key(RSA_POOL[i]));
		}
		for (int cv : { 23, 24, 25 }) for (unsigned v = 0; v < 3; v++) { ec.push_back(keys.size()); keys.push_back(make_ec_key(cv, v)); }
	}
	const Key &at(size_t i) const { return *keys[i % keys.size()]; }
	size_t size() const { return keys.size(); }
	int find(const std::string &name) const { for (size_t i = 0; i < keys.size(); i++) if (keys[i]->name == name) return (int)i; return -1; }
};

// --------------------------------------------------------- certificates

static const char *OID_CN = "2.5.4.3", *OID_O = "2.5.4.10", *OID_C = "2.5.4.6", *OID_OU = "2.5.4.11", *OID_L = "2.5.4.7", *OID_EMAIL = "1.2.840.113549.1.9.1";
enum { T_UTF8 = 0x0C, T_PRINTABLE = 0x13, T_TELETEX = 0x14, T_IA5 = 0x16, T_UNIVERSAL = 0x1C, T_BMP = 0x1E };

struct Attr { std::string oid; unsigned tag; Bytes value; };
struct Name {
	std::vector<std::vector<Attr>> rdns;
	Bytes encode() const
	{
		std::vector<Bytes> r;
		for (auto &rdn : rdns) {
			std::vector<Bytes> as;
			for (auto &a : rdn) as.push_back(der::seq({ der::oid(a.oid), der::tlv(a.tag, a.value) }));
			r.push_back(der::set(as));
		}
		return der::seq(r);
	}
	static Name simple(const std::string &cn, const std::string &o = "Verif", unsigned tag = T_UTF8)
	{
		Name n;
		n.rdns.push_back({ Attr{ OID_C, T_PRINTABLE, B("CA") } });
		if (!o.empty()) n.rdns.push_back({ Attr{ OID_O, tag, B(o) } });
		n.rdns.push_back({ Attr{ OID_CN, tag, B(cn) } });
		return n;
	}
};

struct Time {
	int y = 2020, mo = 1, d = 1, h = 0, mi = 0, s = 0;
	int enc = 0;   // 0 auto (UTCTime for 1950..2049), 1 force GeneralizedTime, 2 force UTCTime
	std::string raw;   // non-empty: literal content (with tag chosen by enc: 1 -> 0x18 else 0x17)
	Bytes encode() const
	{
		bool gen = enc == 1 || (enc == 0 && (y < 1950 || y > 2049));
		char buf[40];
		if (!raw.empty()) return der::tlv(enc == 1 ? 0x18 : 0x17, B(raw));
		if (gen) snprintf(buf, sizeof buf, "%04d%02d%02d%02d%02d%02dZ", y, mo, d, h, mi, s);
		else snprintf(buf, sizeof buf, "%02d%02d%02d%02d%02d%02dZ", y % 100, mo, d, h, mi, s);
		return der::tlv(gen ? 0x18 : 0x17, B(buf));
	}
	// days since 0001-01-01 (proleptic Gregorian) as BearSSL counts them (day 0 = Jan 1st of year 0?) -> computed by days_seconds()
};

// BearSSL time representation: days since January 1st, 0 AD (proleptic
// Gregorian, year 0 = 1 BC), and seconds in the day.
inline void days_seconds(const Time &t, uint32_t &days, uint32_t &secs)
{
	auto leap = [](int y) { return (y % 4 == 0 && y % 100 != 0) || y % 400 == 0; };
	long d = 0;
	long y = t.y;
	// days before year y, counting year 0 as a leap year
	d = y * 365 + (y + 3) / 4 - (y + 99) / 100 + (y + 399) / 400;
	static const int ML[] = { 31, 28, 31, 30, 31, 30, 31, 31, 30, 31, 30, 31 };
	for (int m = 1; m < t.mo; m++) d += ML[m - 1] + (m == 2 && leap(t.y) ? 1 : 0);
	d += t.d - 1;
	days = (uint32_t)d;
	secs = (uint32_t)(t.h * 3600 + t.mi * 60 + t.s);
}

struct Ext { std::string oid; int critical; Bytes value; };   // critical: 0 absent (default FALSE), 1 TRUE, 2 explicit FALSE

inline Ext ext_basic_constraints(bool ca, int pathlen, int critical = 1, bool explicit_false = false)
{
	std::vector<Bytes> c;
	if (ca) c.push_back(der::boolean(true)); else if (explicit_false) c.push_back(der::boolean(false));
	if (pathlen >= 0) c.push_back(der::integer_u((unsigned long)pathlen));
	return Ext{ "2.5.29.19", critical, der::seq(c) };
}
// bits: bit 0 = digitalSignature ... bit 8 = decipherOnly (X.509 numbering)
inline Ext ext_key_usage(unsigned bits, int critical = 1)
{
	// find the last set bit to give a minimal BIT STRING
	int last = -1;
	for (int i = 0; i < 16; i++) if (bits & (1u << i)) last = i;
	Bytes c;
	unsigned unused = 0;
	if (last >= 0) {
		size_t nb = (size_t)last / 8 + 1;
		c.assign(nb, 0);
		for (int i = 0; i <= last; i++) if (bits & (1u << i)) c[i / 8] |= (uint8_t)(0x80 >> (i % 8));
		unused = 7 - (unsigned)(last % 8);
	}
	return Ext{ "2.5.29.15", critical, der::bitstring(c, unused) };
}
struct GeneralName { unsigned tag; Bytes value; };   // tag: 0x82 dNSName, 0x81 rfc822Name, 0x86 URI, 0x87 iPAddress, 0xA0 otherName ...
inline Ext ext_san(const std::vector<GeneralName> &names, int critical = 0)
{
	std::vector<Bytes> c;
	for (auto &g : names) c.push_back(der::tlv(g.tag, g.value));
	return Ext{ "2.5.29.17", critical, der::seq(c) };
}

struct CertSpec {
	int version = 2;                 // 0 = v1 (no version field, no extensions), 2 = v3
	Bytes serial = Bytes{ 0x01 };
	Name issuer, subject;
	Bytes issuer_raw, subject_raw;   // non-empty: literal encoding of the Name
	Time not_before, not_after;
	int subject_key = 0;             // index into the pool
	Bytes spki_raw;                  // non-empty: literal SubjectPublicKeyInfo
	std::vector<Ext> exts;
	int signer_key = 0;              // index into the pool
	int sig_hash = 4;
	int tbs_sig_kind = 0;            // 0: follows the signer key; else force KK_RSA / KK_EC in the algorithm identifiers
	Bytes sig_raw;                   // non-empty: literal signature bytes
	int corrupt_sig = 0;             // 0 genuine; 1 one bit flipped; RSA signers also: 2 / 3 the *cleartext* padded block one byte longer / shorter
	                                 // than the modulus in place of the signature, 4 last byte dropped, 5 a zero byte prepended, 6 a block whose 00 separator is another value, signed with the key
};

struct BuiltCert {
	Bytes der;
	size_t tbs_off = 0, tbs_len = 0, sig_off = 0, sig_len = 0;   // signature = content of the BIT STRING after the unused-bits byte
};

inline Bytes sig_alg_id(int kind, int hash_id)
{
	if (kind == KK_RSA) {
		static const char *O[] = { "", "1.2.840.113549.1.1.4", "1.2.840.113549.1.1.5", "1.2.840.113549.1.1.14", "1.2.840.113549.1.1.11", "1.2.840.113549.1.1.12", "1.2.840.113549.1.1.13" };
		return der::seq({ der::oid(O[hash_id]), der::null() });
	}
	static const char *O[] = { "", "1.2.840.10045.4.2", "1.2.840.10045.4.1", "1.2.840.10045.4.3.1", "1.2.840.10045.4.3.2", "1.2.840.10045.4.3.3", "1.2.840.10045.4.3.4" };
	return der::seq({ der::oid(O[hash_id]) });
}

inline Bytes spki_of(const Key &k)
{
	if (k.kind == KK_RSA) {
		Bytes rk = der::seq({ der::integer(k.n), der::integer(k.e) });
		return der::seq({ der::seq({ der::oid("1.2.840.113549.1.1.1"), der::null() }), der::bitstring(rk) });
	}
	const char *cv = k.curve == 23 ? "1.2.840.10045.3.1.7" : k.curve == 24 ? "1.3.132.0.34" : "1.3.132.0.35";
	return der::seq({ der::seq({ der::oid("1.2.840.10045.2.1"), der::oid(cv) }), der::bitstring(k.q) });
}
// syntactically valid RSA SubjectPublicKeyInfo with arbitrary-size components
inline Bytes spki_fake_rsa(size_t nlen, size_t elen, uint8_t fill = 0xC3)
{
	Bytes n(nlen, fill), e(elen, 0x01);
	if (!n.empty()) { n[0] |= 0x80; n.back() |= 1; }
	if (!e.empty()) e.back() |= 1;
	Bytes rk = der::seq({ der::integer(n), der::integer(e) });
	return der::seq({ der::seq({ der::oid("1.2.840.113549.1.1.1"), der::null() }), der::bitstring(rk) });
}
inline Bytes spki_fake_ec(const char *curve_oid, size_t qlen)
{
	Bytes q(qlen, 0x5A);
	if (!q.empty()) q[0] = 0x04;
	return der::seq({ der::seq({ der::oid("1.2.840.10045.2.1"), der::oid(curve_oid) }), der::bitstring(q) });
}

inline BuiltCert build(const CertSpec &s, const KeyPool &pool)
{
	const Key &signer = pool.at((size_t)s.signer_key);
	int kind = s.tbs_sig_kind ? s.tbs_sig_kind : (int)signer.kind;
	Bytes alg = sig_alg_id(kind, s.sig_hash);
	std::vector<Bytes> tbs;
	if (s.version != 0) tbs.push_back(der::ctx(0, true, der::integer_u((unsigned long)s.version)));
	tbs.push_back(der::integer(s.serial));
	tbs.push_back(alg);
	tbs.push_back(s.issuer_raw.empty() ? s.issuer.encode() : s.issuer_raw);
	tbs.push_back(der::seq({ s.not_before.encode(), s.not_after.encode() }));
	tbs.push_back(s.subject_raw.empty() ? s.subject.encode() : s.subject_raw);
	tbs.push_back(s.spki_raw.empty() ? spki_of(pool.at((size_t)s.subject_key)) : s.spki_raw);
	if (s.version != 0 && !s.exts.empty()) {
		std::vector<Bytes> es;
		for (auto &e : s.exts) {
			std::vector<Bytes> c{ der::oid(e.oid) };
			if (e.critical == 1) c.push_back(der::boolean(true)); else if (e.critical == 2) c.push_back(der::boolean(false));
			c.push_back(der::octets(e.value));
			es.push_back(der::seq(c));
		}
		tbs.push_back(der::ctx(3, true, der::seq(es)));
	}
	Bytes tbsb = der::seq(tbs);
	Bytes sig = s.sig_raw;
	if (sig.empty()) {
		sig = sign(signer, s.sig_hash, tbsb);
		if (sig.empty()) sig = Bytes(8, 0x42);   // key too small for the digest: placeholder, cannot verify
	}
	if (s.corrupt_sig >= 2 && signer.kind == KK_RSA && sig.size() > 60 && s.sig_raw.empty()) {
		if (s.corrupt_sig == 6) {
			// a block with a wrong separator after the FF run, properly raised to the private exponent (made with the key)
			BN_CTX *c = BN_CTX_new();
			BIGNUM *n = BN_bin2bn(signer.n.data(), (int)signer.n.size(), nullptr), *e = BN_bin2bn(signer.e.data(), (int)signer.e.size(), nullptr), *x = BN_bin2bn(sig.data(), (int)sig.size(), nullptr), *y = BN_new();
			BN_mod_exp(y, x, e, n, c);
			Bytes em(sig.size(), 0);
			BN_bn2binpad(y, em.data(), (int)em.size());
			BN_free(n); BN_free(e); BN_free(x); BN_free(y); BN_CTX_free(c);
			size_t i = 2;
			while (i < em.size() && em[i] == 0xFF) i++;
			bool done = false;
			if (i < em.size() && em[0] == 0 && em[1] == 1 && em[i] == 0) {
				em[i] = (uint8_t)(0x2C + (em.back() & 0x7F));
				EVP_PKEY_CTX *pc = EVP_PKEY_CTX_new(signer.pkey, nullptr);
				size_t sl = sig.size();
				if (EVP_PKEY_sign_init(pc) > 0 && EVP_PKEY_CTX_set_rsa_padding(pc, RSA_NO_PADDING) > 0 && EVP_PKEY_sign(pc, sig.data(), &sl, em.data(), em.size()) > 0 && sl == sig.size()) done = true;
				EVP_PKEY_CTX_free(pc);
			}
			if (!done) sig[sig.size() / 2] ^= 0x20;
		} else
		if (s.corrupt_sig == 2 || s.corrupt_sig == 3) {
			// 00 01 FF..FF 00 DigestInfo, recovered with the public key, then stretched / shrunk by one FF byte
			BN_CTX *c = BN_CTX_new();
			BIGNUM *n = BN_bin2bn(signer.n.data(), (int)signer.n.size(), nullptr), *e = BN_bin2bn(signer.e.data(), (int)signer.e.size(), nullptr), *x = BN_bin2bn(sig.data(), (int)sig.size(), nullptr), *y = BN_new();
			BN_mod_exp(y, x, e, n, c);
			Bytes em(sig.size(), 0);
			BN_bn2binpad(y, em.data(), (int)em.size());
			BN_free(n); BN_free(e); BN_free(x); BN_free(y); BN_CTX_free(c);
			if (em.size() > 12 && em[0] == 0 && em[1] == 1 && em[2] == 0xFF) {
				if (s.corrupt_sig == 2) em.insert(em.begin() + 2, 0xFF); else em.erase(em.begin() + 2);
				sig = em;
			} else sig[sig.size() / 2] ^= 0x20;
		} else if (s.corrupt_sig == 4) sig.pop_back();
		else sig.insert(sig.begin(), 0);
	} else if (s.corrupt_sig && !sig.empty()) sig[sig.size() / 2] ^= 0x20;
	BuiltCert bc;
	Bytes body = tbsb;
	cat(body, alg);
	Bytes sb = der::bitstring(sig);
	size_t sig_in_body = body.size() + (sb.size() - sig.size());
	cat(body, sb);
	bc.der = der::tlv(0x30, body);
	size_t hdr = bc.der.size() - body.size();
	bc.tbs_off = hdr;
	bc.tbs_len = tbsb.size();
	bc.sig_off = hdr + sig_in_body;
	bc.sig_len = sig.size();
	return bc;
}

} // namespace x509lab
