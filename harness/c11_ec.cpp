// C11 — elliptic-curve arithmetic, ECDH and ECDSA are correct and reject
// invalid input, for every implementation and every curve it supports.
//
// Oracles: OpenSSL EC_POINT arithmetic on the NIST curves, OpenSSL X25519
// (EVP_PKEY_derive), OpenSSL ECDSA verification on decoded (r, s), and an
// RFC 6979 nonce derivation written here (OpenSSL HMAC + BIGNUM) for the
// deterministic signature value.
#include "common/vf.hpp"
#include <openssl/ec.h>
#include <openssl/err.h>
#include <openssl/ecdsa.h>
#include <openssl/bn.h>
#include <openssl/evp.h>
#include <openssl/hmac.h>
#include <openssl/obj_mac.h>
#include <memory>
extern "C" {
#include "bearssl.h"
}

using namespace vf;
typedef std::vector<uint8_t> Bytes;

const char *target_name = "c11_ec";
const int target_tape_min = 0, target_tape_max = 64;

struct ImplDef { const char *name; const br_ec_impl *impl; };
static std::vector<ImplDef> impls;
struct CurveDef { int id; int nid; size_t flen; const char *name; EC_GROUP *grp; BIGNUM *order, *p; };
static CurveDef CURVES[3] = { { BR_EC_secp256r1, NID_X9_62_prime256v1, 32, "P-256", nullptr, nullptr, nullptr }, { BR_EC_secp384r1, NID_secp384r1, 48, "P-384", nullptr, nullptr, nullptr },
	{ BR_EC_secp521r1, NID_secp521r1, 66, "P-521", nullptr, nullptr, nullptr } };
static BN_CTX *bnctx;

void target_init()
{
	bnctx = BN_CTX_new();
	for (auto &c : CURVES) {
		c.grp = EC_GROUP_new_by_curve_name(c.nid);
		c.order = BN_new(); c.p = BN_new();
		EC_GROUP_get_order(c.grp, c.order, bnctx);
		EC_GROUP_get_curve(c.grp, c.p, nullptr, nullptr, bnctx);
	}
	impls.push_back({ "prime_i15", &br_ec_prime_i15 }); impls.push_back({ "prime_i31", &br_ec_prime_i31 });
	impls.push_back({ "p256_m15", &br_ec_p256_m15 }); impls.push_back({ "p256_m31", &br_ec_p256_m31 });
	if (br_ec_p256_m62_get()) impls.push_back({ "p256_m62", br_ec_p256_m62_get() });
	if (br_ec_p256_m64_get()) impls.push_back({ "p256_m64", br_ec_p256_m64_get() });
	impls.push_back({ "c25519_i15", &br_ec_c25519_i15 }); impls.push_back({ "c25519_i31", &br_ec_c25519_i31 });
	impls.push_back({ "c25519_m15", &br_ec_c25519_m15 }); impls.push_back({ "c25519_m31", &br_ec_c25519_m31 });
	if (br_ec_c25519_m62_get()) impls.push_back({ "c25519_m62", br_ec_c25519_m62_get() });
	if (br_ec_c25519_m64_get()) impls.push_back({ "c25519_m64", br_ec_c25519_m64_get() });
	impls.push_back({ "all_m15", &br_ec_all_m15 }); impls.push_back({ "all_m31", &br_ec_all_m31 });
	impls.push_back({ "default", br_ec_get_default() });
	std::string s;
	for (auto &i : impls) s += std::string(i.name) + " ";
	stats.notes["implementations"] = s;
}

static Bytes bn2b(const BIGNUM *b, size_t len) { Bytes o(len, 0); BN_bn2binpad(b, o.data(), (int)len); return o; }
static Bytes point_bytes(const CurveDef &c, const EC_POINT *P)
{
	Bytes o(1 + 2 * c.flen);
	EC_POINT_point2oct(c.grp, P, POINT_CONVERSION_UNCOMPRESSED, o.data(), o.size(), bnctx);
	return o;
}
struct PT { EC_POINT *p; PT(const CurveDef &c) : p(EC_POINT_new(c.grp)) {} ~PT() { EC_POINT_free(p); } };
struct BN { BIGNUM *b; BN() : b(BN_new()) {} ~BN() { BN_free(b); } BN(const BN &) = delete; };

// scalar in [1, n-1] by class; encoding with leading zeros or (when the value allows) shorter
static void draw_scalar(Tape &t, const BIGNUM *order, BIGNUM *k, Bytes &enc, const char **cls)
{
	unsigned sel = t.u8() % 10;
	size_t ol = (size_t)BN_num_bytes(order);
	static const char *N[] = { "1", "2", "n-1", "n-2", "random", "random", "random", "small", "high-bit", "n>>1" };
	*cls = N[sel];
	BN_CTX_start(bnctx);
	Bytes r = t.filled(ol + 8);
	BN_bin2bn(r.data(), (int)r.size(), k);
	BIGNUM *nm1 = BN_CTX_get(bnctx);
	BN_copy(nm1, order); BN_sub_word(nm1, 1);
	BN_mod(k, k, nm1, bnctx); BN_add_word(k, 1);     // 1..n-1
	switch (sel) {
	case 0: BN_set_word(k, 1); break;
	case 1: BN_set_word(k, 2); break;
	case 2: BN_copy(k, nm1); break;
	case 3: BN_copy(k, nm1); BN_sub_word(k, 1); break;
	case 7: BN_set_word(k, 1 + (r[0] | (r[1] << 8))); break;
	case 8: BN_rshift1(k, order); BN_set_bit(k, BN_num_bits(order) - 2); if (BN_cmp(k, order) >= 0) BN_copy(k, nm1); break;
	case 9: BN_rshift1(k, order); break;
	default: break;
	}
	BN_CTX_end(bnctx);
	size_t minl = (size_t)BN_num_bytes(k);
	unsigned es = t.u8() % 4;
	size_t len = es == 0 ? ol : es == 1 ? minl : es == 2 ? ol + 1 + t.u8() % 3 : (size_t)t.range(minl, ol);
	if (len < minl) len = minl;
	enc = bn2b(k, len);
}

// ---------------------------------------------------------------- NIST curves: mul / mulgen / muladd
static std::vector<const ImplDef *> impls_for(int curve)
{
	std::vector<const ImplDef *> v;
	for (auto &i : impls) if (i.impl->supported_curves & (1u << curve)) v.push_back(&i);
	return v;
}

static void k_mul(Tape &t)
{
	CurveDef &c = CURVES[t.u8() % 3];
	auto iv = impls_for(c.id);
	const ImplDef &im = *iv[t.u8() % iv.size()];
	BN k, a;
	Bytes kenc, aenc;
	const char *kc, *ac;
	draw_scalar(t, c.order, k.b, kenc, &kc);
	draw_scalar(t, c.order, a.b, aenc, &ac);
	// base point P = a*G (or G itself)
	PT P(c), R(c);
	bool useG = t.u8() % 4 == 0;
	if (useG) BN_set_word(a.b, 1);
	EC_POINT_mul(c.grp, P.p, a.b, nullptr, nullptr, bnctx);
	EC_POINT_mul(c.grp, R.p, nullptr, P.p, k.b, bnctx);
	Bytes pb = point_bytes(c, P.p), want = point_bytes(c, R.p);
	std::string desc = fmt("%s %s k:%s(len %zu) P=%s", im.name, c.name, kc, kenc.size(), useG ? "G" : "a*G");
	// generator / order / xoff sanity
	size_t gl, ol, xl;
	const unsigned char *g = im.impl->generator(c.id, &gl);
	PT G(c);
	BN one;
	BN_set_word(one.b, 1);
	EC_POINT_mul(c.grp, G.p, one.b, nullptr, nullptr, bnctx);
	VF_CHECK(gl == 1 + 2 * c.flen && Bytes(g, g + gl) == point_bytes(c, G.p), "%s: generator()", desc.c_str());
	const unsigned char *o = im.impl->order(c.id, &ol);
	VF_CHECK(Bytes(o, o + ol) == bn2b(c.order, ol), "%s: order()", desc.c_str());
	VF_CHECK(im.impl->xoff(c.id, &xl) == 1 && xl == c.flen, "%s: xoff()", desc.c_str());
	// mul
	Bytes got = pb;
	uint32_t r = im.impl->mul(got.data(), got.size(), kenc.data(), kenc.size(), c.id);
	VF_CHECK(r == 1, "%s: mul of a valid point reports failure", desc.c_str());
	VF_CHECK(got == want, "%s: mul gives %s.., OpenSSL says %s..", desc.c_str(), hex(got.data(), got.size(), 20).c_str(), hex(want.data(), want.size(), 20).c_str());
	// mulgen
	if (useG) {
		Bytes gg(1 + 2 * c.flen + 8, 0xEE);
		size_t l = im.impl->mulgen(gg.data(), kenc.data(), kenc.size(), c.id);
		VF_CHECK(l == 1 + 2 * c.flen && Bytes(gg.begin(), gg.begin() + l) == want && gg[l] == 0xEE, "%s: mulgen differs from OpenSSL", desc.c_str());
	}
	stats.cls(std::string("mul:") + im.name);
	stats.eval((!useG || strcmp(kc, "1") != 0) ? fmt("mul/%s/%d/%s/%zu/%d", im.name, c.id, kc, kenc.size(), useG) : std::string());
	if (stats.want_sample()) stats.sample(desc);
}

static void k_muladd(Tape &t)
{
	CurveDef &c = CURVES[t.u8() % 3];
	auto iv = impls_for(c.id);
	const ImplDef &im = *iv[t.u8() % iv.size()];
	BN x, y, a, b;
	Bytes xe, ye, tmp;
	const char *xc, *yc, *d1;
	draw_scalar(t, c.order, x.b, xe, &xc);
	draw_scalar(t, c.order, y.b, ye, &yc);
	draw_scalar(t, c.order, a.b, tmp, &d1);
	draw_scalar(t, c.order, b.b, tmp, &d1);
	bool Bnull = t.flag();
	if (Bnull) BN_set_word(b.b, 1);
	unsigned rel = t.u8() % 5;   // 0/1 unrelated, 2 equal terms, 3 opposite terms (sum = infinity), 4 A == B
	BN_CTX_start(bnctx);
	BIGNUM *tt = BN_CTX_get(bnctx), *inv = BN_CTX_get(bnctx);
	const char *rn = "unrelated";
	if (rel == 4) { BN_copy(a.b, b.b); rn = "A==B"; }
	if (rel == 2 || rel == 3) {
		// choose y so that y*b == +-x*a (mod n):  y = +-x*a/b
		BN_mod_inverse(inv, b.b, c.order, bnctx);
		BN_mod_mul(tt, x.b, a.b, c.order, bnctx);
		BN_mod_mul(tt, tt, inv, c.order, bnctx);
		if (rel == 3) BN_sub(tt, c.order, tt);
		if (!BN_is_zero(tt)) { BN_copy(y.b, tt); ye = bn2b(y.b, (size_t)BN_num_bytes(c.order)); rn = rel == 2 ? "equal terms (doubling)" : "opposite terms (infinity)"; }
		else rel = 0;
	}
	BN_CTX_end(bnctx);
	PT A(c), Bp(c), R(c), T1(c), T2(c);
	EC_POINT_mul(c.grp, A.p, a.b, nullptr, nullptr, bnctx);
	EC_POINT_mul(c.grp, Bp.p, b.b, nullptr, nullptr, bnctx);
	EC_POINT_mul(c.grp, T1.p, nullptr, A.p, x.b, bnctx);
	EC_POINT_mul(c.grp, T2.p, nullptr, Bp.p, y.b, bnctx);
	EC_POINT_add(c.grp, R.p, T1.p, T2.p, bnctx);
	bool inf = EC_POINT_is_at_infinity(c.grp, R.p);
	Bytes ab = point_bytes(c, A.p), bb = point_bytes(c, Bp.p);
	// bearssl_ec.h on muladd: "If either integer is zero, then an error is reported" (one case in eight)
	unsigned zsel = t.u8() % 16;
	if (zsel >= 14) {
		size_t nl = (size_t)BN_num_bytes(c.order);
		bool zx = zsel == 14 || t.flag(), zy = zsel == 15 || !zx;
		if (zx) { xe.assign(t.u8() % (nl + 1), 0); xc = "ZERO"; }
		if (zy) { ye.assign(t.u8() % (nl + 1), 0); yc = "ZERO"; }
		std::string dz = fmt("%s %s muladd x:%s(%zu bytes) y:%s(%zu bytes) B=%s", im.name, c.name, xc, xe.size(), yc, ye.size(), Bnull ? "NULL(generator)" : "explicit");
		uint8_t none = 0;
		uint32_t rz = im.impl->muladd(ab.data(), Bnull ? nullptr : bb.data(), ab.size(), xe.empty() ? &none : xe.data(), xe.size(), ye.empty() ? &none : ye.data(), ye.size(), c.id);
		VF_CHECK(rz == 0, "%s: a zero multiplier must be reported as an error (documented), muladd returned %u and the point %s..", dz.c_str(), rz, hex(ab.data(), ab.size(), 12).c_str());
		stats.cls("muladd:zero-multiplier");
		stats.eval(fmt("muladd0/%s/%s/%d%d/%zu/%zu/%d", im.name, c.name, zx, zy, xe.size(), ye.size(), Bnull));
		return;
	}
	std::string desc = fmt("%s %s muladd x:%s y:%s B=%s %s", im.name, c.name, xc, yc, Bnull ? "NULL(generator)" : "explicit", rn);
	uint32_t r = im.impl->muladd(ab.data(), Bnull ? nullptr : bb.data(), ab.size(), xe.data(), xe.size(), ye.data(), ye.size(), c.id);
	if (inf) VF_CHECK(r == 0, "%s: x*A + y*B is the point at infinity but muladd reports success", desc.c_str());
	else {
		Bytes want = point_bytes(c, R.p);
		VF_CHECK(r == 1, "%s: muladd reports failure for a finite result", desc.c_str());
		VF_CHECK(ab == want, "%s: muladd gives %s.., OpenSSL says %s..", desc.c_str(), hex(ab.data(), ab.size(), 20).c_str(), hex(want.data(), want.size(), 20).c_str());
	}
	stats.cls(std::string("muladd:") + rn);
	stats.eval(fmt("ma/%s/%d/%s/%s/%d/%u", im.name, c.id, xc, yc, Bnull, rel));
	if (stats.want_sample()) stats.sample(desc);
}

static void k_invalid(Tape &t)
{
	CurveDef &c = CURVES[t.u8() % 3];
	auto iv = impls_for(c.id);
	const ImplDef &im = *iv[t.u8() % iv.size()];
	BN k, a;
	Bytes kenc, tmp;
	const char *kc, *ac;
	draw_scalar(t, c.order, k.b, kenc, &kc);
	draw_scalar(t, c.order, a.b, tmp, &ac);
	PT P(c);
	EC_POINT_mul(c.grp, P.p, a.b, nullptr, nullptr, bnctx);
	Bytes pb = point_bytes(c, P.p), bad = pb;
	unsigned mut = t.u8() % 13;
	std::string what;
	switch (mut) {
	case 10: case 11: {
		// a coordinate that is not reduced modulo p but still fits the field length: needs a point with a small
		// abscissa (below 2^(8*flen) - p, i.e. 2^224 on P-256 and 2^128 on P-384; any point will do on P-521).
		// Found by trying successive small x until x^3 - 3x + b is a square.
		BN x, lim;
		BN_one(lim.b); BN_lshift(lim.b, lim.b, (int)(8 * c.flen)); BN_sub(lim.b, lim.b, c.p);     // strictly below this
		Bytes seedb = t.filled(8);
		BN_bin2bn(seedb.data(), 8, x.b);
		if (mut == 11) { BN_copy(x.b, lim.b); BN_sub_word(x.b, 1 + seedb[0]); }                      // just under the largest x with x + p representable
		PT S(c);
		bool found = false;
		for (int i = 0; i < 200 && !found; i++) {
			if (mut == 11) BN_sub_word(x.b, 1); else BN_add_word(x.b, 1);
			ERR_clear_error();
			if (EC_POINT_set_compressed_coordinates(c.grp, S.p, x.b, seedb[1] & 1, bnctx) == 1) found = true;
		}
		ERR_clear_error();
		if (!found) failf("harness: no point with a small abscissa found");
		pb = point_bytes(c, S.p); bad = pb;
		BN xx; BN_bin2bn(pb.data() + 1, (int)c.flen, xx.b); BN_add(xx.b, xx.b, c.p);
		if ((size_t)BN_num_bytes(xx.b) > c.flen) failf("harness: x + p does not fit");
		Bytes xb = bn2b(xx.b, c.flen);
		memcpy(bad.data() + 1, xb.data(), c.flen);
		what = fmt("x + p for a point with a %d-bit abscissa (coordinate not reduced, same point modulo p)", BN_num_bits(x.b));
		break;
	}
	case 12: {
		// the same for the ordinate: on P-256 the point with y = 1; on P-521 any point; P-384: y = p (zero), plain invalid
		static const uint8_t P256_Y1_X[32] = { 0x8d, 0x01, 0x77, 0xeb, 0xab, 0x9c, 0x6e, 0x9e, 0x10, 0xdb, 0x6d, 0xd0, 0x95, 0xdb, 0xac, 0x0d, 0x63, 0x75, 0xe8, 0xa9, 0x7b, 0x70, 0xf6, 0x11, 0x87, 0x5d, 0x87, 0x7f, 0x00, 0x69, 0xd2, 0xc7 };
		if (c.id == BR_EC_secp256r1) {
			pb.assign(65, 0); pb[0] = 4; memcpy(pb.data() + 1, P256_Y1_X, 32); pb[64] = 1;
			PT S(c);
			if (EC_POINT_oct2point(c.grp, S.p, pb.data(), pb.size(), bnctx) != 1) failf("harness: (x, 1) is not on P-256");
		}
		bad = pb;
		BN yy; BN_bin2bn(pb.data() + 1 + c.flen, (int)c.flen, yy.b); BN_add(yy.b, yy.b, c.p);
		if ((size_t)BN_num_bytes(yy.b) > c.flen) { Bytes pbn = bn2b(c.p, c.flen); memcpy(bad.data() + 1 + c.flen, pbn.data(), c.flen); what = "y = p"; }
		else { Bytes yb = bn2b(yy.b, c.flen); memcpy(bad.data() + 1 + c.flen, yb.data(), c.flen); what = "y + p (coordinate not reduced, same point modulo p)"; }
		break;
	}
	case 0: bad[0] = t.pick<uint8_t>({ 0x00, 0x02, 0x03, 0x05, 0x06, 0x07, 0xFF }); what = fmt("prefix byte %02x", bad[0]); break;
	case 1: bad.pop_back(); what = "one byte short"; break;
	case 2: bad.push_back(0); what = "one byte long"; break;
	case 3: bad.resize(1 + c.flen); bad[0] = 0x02 | (pb.back() & 1); what = "compressed encoding"; break;
	case 4: bad.clear(); what = "empty"; break;
	case 5: { BN y; BN_bin2bn(pb.data() + 1 + c.flen, (int)c.flen, y.b); BN_add_word(y.b, 1); Bytes yb = bn2b(y.b, c.flen); memcpy(bad.data() + 1 + c.flen, yb.data(), c.flen); what = "y+1 (off curve)"; break; }
	case 6: { Bytes pbn = bn2b(c.p, c.flen); BN xx; BN_bin2bn(pb.data() + 1, (int)c.flen, xx.b); BN_add(xx.b, xx.b, c.p);
		if ((size_t)BN_num_bytes(xx.b) > c.flen) { memcpy(bad.data() + 1, pbn.data(), c.flen); what = "x = p"; } else { Bytes xb = bn2b(xx.b, c.flen); memcpy(bad.data() + 1, xb.data(), c.flen); what = "x + p (not reduced)"; } break; }
	case 7: std::fill(bad.begin() + 1, bad.end(), 0); what = "coordinates (0,0)"; break;
	case 8: { size_t pos = 1 + t.u16() % (2 * c.flen); bad[pos] ^= (uint8_t)(1 << (t.u8() % 8)); what = fmt("bit flipped in byte %zu", pos); break; }
	default: std::fill(bad.begin() + 1, bad.end(), 0xFF); what = "coordinates all ones"; break;
	}
	// OpenSSL's verdict on the encoding
	PT Q(c);
	bool valid = bad.size() == 1 + 2 * c.flen && bad[0] == 0x04 && EC_POINT_oct2point(c.grp, Q.p, bad.data(), bad.size(), bnctx) == 1 && !EC_POINT_is_at_infinity(c.grp, Q.p);
	std::string desc = fmt("%s %s invalid point: %s", im.name, c.name, what.c_str());
	Bytes g = bad;
	g.reserve(g.size() + 1);
	uint32_t r = im.impl->mul(g.data(), g.size(), kenc.data(), kenc.size(), c.id);
	if (!valid) VF_CHECK(r == 0, "%s: mul accepts an encoding that is not a valid uncompressed point on the curve", desc.c_str());
	else VF_CHECK(r == 1, "%s: mul rejects a point OpenSSL accepts", desc.c_str());
	// the same through muladd (as A, and as B)
	Bytes A = bad, Bv = pb;
	r = im.impl->muladd(A.data(), Bv.data(), A.size(), kenc.data(), kenc.size(), kenc.data(), kenc.size(), c.id);
	if (!valid && bad.size() == pb.size()) VF_CHECK(r == 0, "%s: muladd accepts it as A", desc.c_str());
	if (bad.size() == pb.size()) {
		Bytes A2 = pb, B2 = bad;
		r = im.impl->muladd(A2.data(), B2.data(), A2.size(), kenc.data(), kenc.size(), kenc.data(), kenc.size(), c.id);
		if (!valid) VF_CHECK(r == 0, "%s: muladd accepts it as B", desc.c_str());
	}
	stats.cls(valid ? "invalid-point:still-valid" : "invalid-point:rejected");
	stats.eval(fmt("inv/%s/%d/%u", im.name, c.id, mut));
	if (stats.want_sample()) stats.sample(desc);
}

// ---------------------------------------------------------------- Curve25519
static void k_x25519(Tape &t)
{
	std::vector<const ImplDef *> iv = impls_for(BR_EC_curve25519);
	unsigned cls = t.u8() % 8;
	Bytes u = t.filled(32), k = t.filled(32);
	static const uint8_t BASE[32] = { 9 };
	if (cls == 0) memcpy(u.data(), BASE, 32);
	if (cls == 1) { memset(u.data(), 0xFF, 32); u[31] = 0x7F; }            // u >= p
	if (cls == 2) { memset(u.data(), 0, 32); u[0] = (uint8_t)(t.u8() % 2); }   // low order 0, 1
	if (cls == 3) { u[31] |= 0x80; }                                         // unused top bit set: must be ignored (RFC 7748)
	size_t klen = t.u8() % 5 == 0 ? (size_t)t.range(1, 31) : 32;            // shorter big-endian scalars are zero-extended
	Bytes kbe(k.begin(), k.begin() + klen);
	// bearssl_ec.h (br_ec_private_key): "the encoding ... tolerates extra leading zeros" - as every NIST-curve implementation does
	size_t zpad = t.u8() % 6 == 5 ? (size_t)(1 + t.u8() % 8) : 0;
	// reference: RFC 7748 scalar is little-endian; BearSSL takes big-endian
	Bytes kle(32, 0);
	for (size_t i = 0; i < klen; i++) kle[i] = kbe[klen - 1 - i];
	Bytes want(32);
	bool refok = false;
	{
		EVP_PKEY *sk = EVP_PKEY_new_raw_private_key(EVP_PKEY_X25519, nullptr, kle.data(), 32);
		Bytes uu = u;
		EVP_PKEY *pk = EVP_PKEY_new_raw_public_key(EVP_PKEY_X25519, nullptr, uu.data(), 32);
		EVP_PKEY_CTX *c = EVP_PKEY_CTX_new(sk, nullptr);
		size_t l = 32;
		refok = c && EVP_PKEY_derive_init(c) > 0 && EVP_PKEY_derive_set_peer(c, pk) > 0 && EVP_PKEY_derive(c, want.data(), &l) > 0;
		EVP_PKEY_CTX_free(c); EVP_PKEY_free(sk); EVP_PKEY_free(pk);
	}
	Bytes first;
	if (zpad) kbe.insert(kbe.begin(), zpad, 0);
	for (auto *im : iv) {
		Bytes g = u;
		uint32_t r = im->impl->mul(g.data(), 32, kbe.data(), kbe.size(), BR_EC_curve25519);
		VF_CHECK(r == 1, "%s X25519: mul reports failure for a 32-byte point and a scalar of %zu bytes (%zu leading zero bytes)", im->name, kbe.size(), zpad);
		if (refok) VF_CHECK(g == want, "%s X25519 (u class %u, scalar %zu bytes): %s, RFC 7748 / OpenSSL says %s", im->name, cls, klen, hex(g.data(), 32).c_str(), hex(want.data(), 32).c_str());
		if (first.empty()) first = g; else VF_CHECK(g == first, "%s X25519 differs from %s", im->name, iv[0]->name);
		if (cls == 0) {
			Bytes gg(40, 0xEE);
			size_t l = im->impl->mulgen(gg.data(), kbe.data(), kbe.size(), BR_EC_curve25519);
			VF_CHECK(l == 32 && Bytes(gg.begin(), gg.begin() + 32) == g && gg[32] == 0xEE, "%s X25519 mulgen differs from mul(9)", im->name);
		}
		// wrong lengths are refused
		Bytes sh(31, 9), lg(33, 9);
		VF_CHECK(im->impl->mul(sh.data(), 31, kbe.data(), kbe.size(), BR_EC_curve25519) == 0 && im->impl->mul(lg.data(), 33, kbe.data(), kbe.size(), BR_EC_curve25519) == 0,
			"%s X25519: a point of the wrong length is accepted", im->name);
	}
	stats.cls(refok ? "x25519:vs-openssl" : "x25519:openssl-refused(low order result)");
	if (zpad) stats.cls("x25519:zero-padded-scalar");
	stats.eval(fmt("x/%u/%zu/%zu", cls, klen, zpad));
}

// ---------------------------------------------------------------- ECDSA
struct HDef { const char *name; const br_hash_class *cls; const EVP_MD *(*md)(void); size_t len; };
static const HDef HS[] = { { "md5", &br_md5_vtable, EVP_md5, 16 }, { "sha1", &br_sha1_vtable, EVP_sha1, 20 }, { "sha224", &br_sha224_vtable, EVP_sha224, 28 }, { "sha256", &br_sha256_vtable, EVP_sha256, 32 },
	{ "sha384", &br_sha384_vtable, EVP_sha384, 48 }, { "sha512", &br_sha512_vtable, EVP_sha512, 64 } };

// RFC 6979 section 3.2 nonce
static void rfc6979(const CurveDef &c, const HDef &h, const BIGNUM *x, const Bytes &h1, BIGNUM *k)
{
	size_t qlen = (size_t)BN_num_bits(c.order), rlen = (qlen + 7) / 8, hl = h.len;
	auto bits2int = [&](const Bytes &b, BIGNUM *o) { BN_bin2bn(b.data(), (int)b.size(), o); if (b.size() * 8 > qlen) BN_rshift(o, o, (int)(b.size() * 8 - qlen)); };
	BN z1;
	bits2int(h1, z1.b);
	if (BN_cmp(z1.b, c.order) >= 0) BN_sub(z1.b, z1.b, c.order);
	Bytes xo = bn2b(x, rlen), ho = bn2b(z1.b, rlen);
	Bytes V(hl, 1), K(hl, 0);
	auto mac = [&](const Bytes &key, const Bytes &data) { Bytes o(hl); unsigned l; HMAC(h.md(), key.data(), (int)key.size(), data.data(), data.size(), o.data(), &l); return o; };
	for (int round = 0; round < 2; round++) {
		Bytes d = V;
		d.push_back((uint8_t)round);
		d.insert(d.end(), xo.begin(), xo.end());
		d.insert(d.end(), ho.begin(), ho.end());
		K = mac(K, d);
		V = mac(K, V);
	}
	for (;;) {
		Bytes T;
		while (T.size() < rlen) { V = mac(K, V); T.insert(T.end(), V.begin(), V.end()); }
		T.resize(rlen);
		bits2int(T, k);
		if (!BN_is_zero(k) && BN_cmp(k, c.order) < 0) return;
		Bytes d = V;
		d.push_back(0);
		K = mac(K, d);
		V = mac(K, V);
	}
}

struct SignImpl { const char *name; br_ecdsa_sign raw, asn1; };
struct VrfyImpl { const char *name; br_ecdsa_vrfy raw, asn1; };
static const SignImpl SIGNERS[] = { { "i15", br_ecdsa_i15_sign_raw, br_ecdsa_i15_sign_asn1 }, { "i31", br_ecdsa_i31_sign_raw, br_ecdsa_i31_sign_asn1 }, { "default", nullptr, nullptr } };
static const VrfyImpl VERIFIERS[] = { { "i15", br_ecdsa_i15_vrfy_raw, br_ecdsa_i15_vrfy_asn1 }, { "i31", br_ecdsa_i31_vrfy_raw, br_ecdsa_i31_vrfy_asn1 }, { "default", nullptr, nullptr } };

static int ossl_verify(const CurveDef &c, const Bytes &pub, const Bytes &hash, const BIGNUM *r, const BIGNUM *s)
{
	EC_KEY *ek = EC_KEY_new();
	EC_KEY_set_group(ek, c.grp);
	PT Q(c);
	int ok = -1;
	if (EC_POINT_oct2point(c.grp, Q.p, pub.data(), pub.size(), bnctx) == 1 && EC_KEY_set_public_key(ek, Q.p) == 1) {
		ECDSA_SIG *sg = ECDSA_SIG_new();
		ECDSA_SIG_set0(sg, BN_dup(r), BN_dup(s));
		ok = ECDSA_do_verify(hash.data(), (int)hash.size(), sg, ek) == 1;
		ECDSA_SIG_free(sg);
	}
	EC_KEY_free(ek);
	return ok;
}

// Signatures whose nonce point R has an abscissa in [n, p-1], so that r = x(R) - n: the reduction modulo n at the
// end of verification matters (probability 2^-128 .. 2^-260 for signatures made the ordinary way).  Built backwards:
// pick x0 = n + j on the curve, R = (x0, y0), r = j, any s and hash, and the public key Q = r^-1 (s R - e G).
static void k_ecdsa_high_xr(Tape &t)
{
	CurveDef &c = CURVES[t.u8() % 3];
	auto iv = impls_for(c.id);
	const HDef &h = HS[t.u8() % 6];
	Bytes hash = t.filled(h.len);
	BN_CTX_start(bnctx);
	BIGNUM *x0 = BN_CTX_get(bnctx), *r = BN_CTX_get(bnctx), *sv = BN_CTX_get(bnctx), *e = BN_CTX_get(bnctx), *ri = BN_CTX_get(bnctx), *u = BN_CTX_get(bnctx), *w = BN_CTX_get(bnctx);
	PT R(c), Q(c), T1(c);
	BN_copy(x0, c.order);
	BN_add_word(x0, 1 + t.u16());
	bool found = false;
	for (int i = 0; i < 400 && !found; i++) {
		BN_add_word(x0, 1);
		ERR_clear_error();
		if (BN_cmp(x0, c.p) < 0 && EC_POINT_set_compressed_coordinates(c.grp, R.p, x0, t.u8() & 1, bnctx) == 1) found = true;
	}
	ERR_clear_error();
	if (!found) failf("harness: no abscissa in [n, p-1] found");
	BN_mod(r, x0, c.order, bnctx);
	Bytes sb = t.filled((size_t)BN_num_bytes(c.order) + 8);
	BN_bin2bn(sb.data(), (int)sb.size(), sv);
	BN_copy(w, c.order); BN_sub_word(w, 1);
	BN_mod(sv, sv, w, bnctx); BN_add_word(sv, 1);
	// e = leftmost min(hashbits, orderbits) bits of the hash
	BN_bin2bn(hash.data(), (int)hash.size(), e);
	int hb = (int)hash.size() * 8, ob = BN_num_bits(c.order);
	if (hb > ob) BN_rshift(e, e, hb - ob);
	BN_mod_inverse(ri, r, c.order, bnctx);
	// Q = ri * (s R - e G)
	BN_mod_mul(u, sv, ri, c.order, bnctx);                 // s / r
	BN_mod_mul(w, e, ri, c.order, bnctx);
	BN_sub(w, c.order, w); BN_mod(w, w, c.order, bnctx);   // -e / r
	EC_POINT_mul(c.grp, Q.p, w, R.p, u, bnctx);            // w*G + u*R
	if (EC_POINT_is_at_infinity(c.grp, Q.p)) { BN_CTX_end(bnctx); stats.eval(); return; }
	Bytes pub = point_bytes(c, Q.p);
	int ov = ossl_verify(c, pub, hash, r, sv);
	VF_CHECK(ov == 1, "harness: OpenSSL rejects the constructed signature with x(R) >= n (%s, hash %zu bytes)", c.name, hash.size());
	size_t ol = (size_t)BN_num_bytes(c.order);
	Bytes raw = bn2b(r, ol), s2 = bn2b(sv, ol);
	raw.insert(raw.end(), s2.begin(), s2.end());
	Bytes a1(raw.size() + 16);
	memcpy(a1.data(), raw.data(), raw.size());
	size_t al = br_ecdsa_raw_to_asn1(a1.data(), raw.size());
	br_ec_public_key pk = { c.id, pub.data(), pub.size() };
	std::vector<const ImplDef *> two = { iv[t.u8() % iv.size()], iv[t.u8() % iv.size()] };
	for (auto *im : two) for (const VrfyImpl &v0 : VERIFIERS) {
		VrfyImpl vi = v0;
		if (!vi.raw) { vi.raw = br_ecdsa_vrfy_raw_get_default(); vi.asn1 = br_ecdsa_vrfy_asn1_get_default(); }
		std::string desc = fmt("ecdsa_%s_vrfy over %s, %s, hash %zu bytes, signature with x(R) = n + r (r has %d bits)", vi.name, im->name, c.name, hash.size(), BN_num_bits(r));
		VF_CHECK(vi.raw(im->impl, hash.data(), hash.size(), &pk, raw.data(), raw.size()) == 1, "%s: vrfy_raw rejects a signature OpenSSL accepts", desc.c_str());
		VF_CHECK(vi.asn1(im->impl, hash.data(), hash.size(), &pk, a1.data(), al) == 1, "%s: vrfy_asn1 rejects a signature OpenSSL accepts", desc.c_str());
		Bytes bad = raw;
		bad[bad.size() - 1] ^= 1;
		VF_CHECK(vi.raw(im->impl, hash.data(), hash.size(), &pk, bad.data(), bad.size()) == 0, "%s: vrfy_raw accepts it with s altered", desc.c_str());
	}
	BN_CTX_end(bnctx);
	stats.cls("ecdsa:x(R)-not-below-n");
	stats.eval(fmt("hixr/%d/%zu", c.id, hash.size()));
	if (stats.want_sample()) stats.sample(fmt("ecdsa %s: constructed signature with x(R) in [n, p-1] verifies with every verifier x implementation", c.name));
}

static void k_ecdsa(Tape &t)
{
	CurveDef &c = CURVES[t.u8() % 3];
	auto iv = impls_for(c.id);
	const ImplDef &ecs = *iv[t.u8() % iv.size()], &ecv = *iv[t.u8() % iv.size()];
	SignImpl si = SIGNERS[t.u8() % 3];
	VrfyImpl vi = VERIFIERS[t.u8() % 3];
	if (!si.raw) { si.raw = br_ecdsa_sign_raw_get_default(); si.asn1 = br_ecdsa_sign_asn1_get_default(); }
	if (!vi.raw) { vi.raw = br_ecdsa_vrfy_raw_get_default(); vi.asn1 = br_ecdsa_vrfy_asn1_get_default(); }
	const HDef &h = HS[t.u8() % 6];
	BN d;
	Bytes denc;
	const char *dc;
	draw_scalar(t, c.order, d.b, denc, &dc);
	Bytes hash = t.filled(h.len);
	{
		// edge values of the hash: all ones, all zeros (e = 0), exactly the group order (e = 0 mod n)
		unsigned hv = t.u8() % 16;
		if (hv == 1) std::fill(hash.begin(), hash.end(), 0xFF);
		else if (hv == 2) std::fill(hash.begin(), hash.end(), 0x00);
		else if (hv == 3 && hash.size() * 8 >= (size_t)BN_num_bits(c.order) && BN_num_bits(c.order) % 8 == 0) { Bytes ob = bn2b(c.order, (size_t)BN_num_bytes(c.order)); std::copy(ob.begin(), ob.end(), hash.begin()); }
	}
	br_ec_private_key sk = { c.id, denc.data(), denc.size() };
	PT Q(c);
	EC_POINT_mul(c.grp, Q.p, d.b, nullptr, nullptr, bnctx);
	Bytes pub = point_bytes(c, Q.p);
	br_ec_public_key pk = { c.id, pub.data(), pub.size() };
	size_t ol = (size_t)BN_num_bytes(c.order);
	std::string desc = fmt("ECDSA %s %s sign=%s/%s verify=%s/%s key:%s", c.name, h.name, si.name, ecs.name, vi.name, ecv.name, dc);
	// public key computation and key generation
	{
		Bytes kb(BR_EC_KBUF_PUB_MAX_SIZE);
		br_ec_public_key pk2;
		size_t l0 = br_ec_compute_pub(ecs.impl, nullptr, nullptr, &sk), l1 = br_ec_compute_pub(ecs.impl, &pk2, kb.data(), &sk);
		VF_CHECK(l0 == l1 && l1 == pub.size() && pk2.curve == c.id && pk2.qlen == pub.size() && memcmp(pk2.q, pub.data(), pub.size()) == 0, "%s: br_ec_compute_pub differs from OpenSSL", desc.c_str());
	}
	// sign raw: equals the RFC 6979 value
	Bytes sig(2 * ol + 8, 0xEE);
	size_t sl = si.raw(ecs.impl, h.cls, hash.data(), &sk, sig.data());
	VF_CHECK(sl == 2 * ol && sig[sl] == 0xEE, "%s: sign_raw returned length %zu", desc.c_str(), sl);
	BN r, s, k, kinv, e;
	rfc6979(c, h, d.b, hash, k.b);
	{
		PT K(c);
		EC_POINT_mul(c.grp, K.p, k.b, nullptr, nullptr, bnctx);
		BN xk;
		EC_POINT_get_affine_coordinates(c.grp, K.p, xk.b, nullptr, bnctx);
		BN_mod(r.b, xk.b, c.order, bnctx);
		BN_bin2bn(hash.data(), (int)hash.size(), e.b);
		size_t qlen = (size_t)BN_num_bits(c.order);
		if (hash.size() * 8 > qlen) BN_rshift(e.b, e.b, (int)(hash.size() * 8 - qlen));
		BN_mod_inverse(kinv.b, k.b, c.order, bnctx);
		BN_mod_mul(s.b, r.b, d.b, c.order, bnctx);
		BN_mod_add(s.b, s.b, e.b, c.order, bnctx);
		BN_mod_mul(s.b, s.b, kinv.b, c.order, bnctx);
	}
	Bytes want = bn2b(r.b, ol), ws = bn2b(s.b, ol);
	want.insert(want.end(), ws.begin(), ws.end());
	if (!BN_is_zero(r.b) && !BN_is_zero(s.b))
		VF_CHECK(Bytes(sig.begin(), sig.begin() + sl) == want, "%s: signature differs from the RFC 6979 deterministic value", desc.c_str());
	BN gr, gs;
	BN_bin2bn(sig.data(), (int)ol, gr.b); BN_bin2bn(sig.data() + ol, (int)ol, gs.b);
	VF_CHECK(!BN_is_zero(gr.b) && !BN_is_zero(gs.b) && BN_cmp(gr.b, c.order) < 0 && BN_cmp(gs.b, c.order) < 0, "%s: r or s outside [1, n-1]", desc.c_str());
	VF_CHECK(ossl_verify(c, pub, hash, gr.b, gs.b) == 1, "%s: OpenSSL rejects the signature", desc.c_str());
	VF_CHECK(vi.raw(ecv.impl, hash.data(), hash.size(), &pk, sig.data(), sl) == 1, "%s: vrfy_raw rejects the signature", desc.c_str());
	// asn1 form + conversions
	Bytes a1(sig.begin(), sig.begin() + sl);
	a1.resize(2 * ol + 16);
	size_t al = br_ecdsa_raw_to_asn1(a1.data(), sl);
	{
		ECDSA_SIG *sg = ECDSA_SIG_new();
		ECDSA_SIG_set0(sg, BN_dup(gr.b), BN_dup(gs.b));
		unsigned char *der = nullptr;
		int dl = i2d_ECDSA_SIG(sg, &der);
		VF_CHECK(al == (size_t)dl && memcmp(a1.data(), der, al) == 0, "%s: raw_to_asn1 is not the minimal DER of (r, s): %s vs %s", desc.c_str(), hex(a1.data(), al, 40).c_str(), hex(der, (size_t)dl, 40).c_str());
		OPENSSL_free(der);
		ECDSA_SIG_free(sg);
	}
	VF_CHECK(vi.asn1(ecv.impl, hash.data(), hash.size(), &pk, a1.data(), al) == 1, "%s: vrfy_asn1 rejects the signature", desc.c_str());
	Bytes a2(a1.begin(), a1.begin() + al);
	Bytes sa(2 * ol + 40, 0);
	size_t sal = si.asn1(ecs.impl, h.cls, hash.data(), &sk, sa.data());
	VF_CHECK(sal == al && memcmp(sa.data(), a1.data(), al) == 0, "%s: sign_asn1 differs from raw_to_asn1(sign_raw)", desc.c_str());
	a2.resize(2 * ol + 16);
	size_t bl = br_ecdsa_asn1_to_raw(a2.data(), al);
	// asn1_to_raw gives the minimal common length for r and s
	{
		BN r2, s2;
		VF_CHECK(bl > 0 && bl % 2 == 0, "%s: asn1_to_raw returned %zu", desc.c_str(), bl);
		BN_bin2bn(a2.data(), (int)(bl / 2), r2.b); BN_bin2bn(a2.data() + bl / 2, (int)(bl / 2), s2.b);
		VF_CHECK(BN_cmp(r2.b, gr.b) == 0 && BN_cmp(s2.b, gs.b) == 0, "%s: asn1_to_raw(raw_to_asn1(sig)) changed the integers", desc.c_str());
	}
	// negative cases: differential against OpenSSL on decoded integers
	unsigned mut = t.u8() % 10;
	Bytes bs(sig.begin(), sig.begin() + sl), bh = hash, bp = pub;
	std::string what;
	bool lenbad = false;
	switch (mut) {
	case 0: memset(bs.data(), 0, ol); what = "r = 0"; break;
	case 1: memset(bs.data() + ol, 0, ol); what = "s = 0"; break;
	case 2: { Bytes nb = bn2b(c.order, ol); memcpy(bs.data(), nb.data(), ol); what = "r = n"; break; }
	case 3: { BN x; BN_copy(x.b, c.order); BN_add_word(x.b, 1); Bytes nb = bn2b(x.b, ol); memcpy(bs.data() + ol, nb.data(), ol); what = "s = n+1"; break; }
	case 4: memset(bs.data(), 0xFF, ol); what = "r all ones"; break;
	case 5: bh[t.u8() % bh.size()] ^= (uint8_t)(1 << (t.u8() % 8)); what = "hash altered"; break;
	case 6: { BN y; BN_bin2bn(bp.data() + 1 + c.flen, (int)c.flen, y.b); BN_sub(y.b, c.p, y.b); Bytes yb = bn2b(y.b, c.flen); memcpy(bp.data() + 1 + c.flen, yb.data(), c.flen); what = "key negated (other valid key)"; break; }
	case 7: bs.pop_back(); lenbad = true; what = "raw signature of odd length"; break;
	case 8: bs.insert(bs.begin(), 2, 0); bs.insert(bs.begin() + 2 + ol, 2, 0); what = "raw signature with zero-extended halves (longer than 2*order)"; break;
	default: { size_t pos = t.u16() % bs.size(); bs[pos] ^= (uint8_t)(1 << (t.u8() % 8)); what = fmt("signature bit flipped in byte %zu", pos); break; }
	}
	br_ec_public_key pkb = { c.id, bp.data(), bp.size() };
	uint32_t got = vi.raw(ecv.impl, bh.data(), bh.size(), &pkb, bs.data(), bs.size());
	if (lenbad) VF_CHECK(got == 0, "%s: vrfy_raw accepts: %s", desc.c_str(), what.c_str());
	else {
		BN r2, s2;
		BN_bin2bn(bs.data(), (int)(bs.size() / 2), r2.b); BN_bin2bn(bs.data() + bs.size() / 2, (int)(bs.size() / 2), s2.b);
		int ov = ossl_verify(c, bp, bh, r2.b, s2.b);
		if (mut == 8) {
			// over-long raw form: documented as rejected or accepted? the header says sig_len must be even; integers are
			// decoded over each half.  Compare on decoded integers only when the length is the standard one.
			VF_CHECK(got == 0 || got == (uint32_t)(ov == 1), "%s: vrfy_raw(%s) = %u, OpenSSL on the same integers = %d", desc.c_str(), what.c_str(), got, ov);
		} else VF_CHECK(got == (uint32_t)(ov == 1), "%s: vrfy_raw = %u but OpenSSL = %d for: %s", desc.c_str(), got, ov, what.c_str());
	}
	stats.cls(std::string("ecdsa:") + si.name + "->" + vi.name);
	stats.eval(fmt("ds/%d/%s/%s/%s/%s/%s/%s/%u", c.id, h.name, si.name, ecs.name, vi.name, ecv.name, dc, mut));
	if (stats.want_sample()) stats.sample(desc + " | negative: " + what);
}

// ASN.1 signature parser: leniency is judged on decoded integers
static void k_asn1(Tape &t)
{
	size_t ol = t.pick<size_t>({ 32, 48, 66 });
	Bytes r = t.filled(t.len(ol, { 1, ol, ol - 1 })), s = t.filled(t.len(ol, { 1, ol, ol - 1 }));
	if (r.empty()) r.push_back(1);
	if (s.empty()) s.push_back(1);
	if (t.flag()) r[0] |= 0x80;
	if (t.flag()) s[0] = 0;
	if (t.u8() % 4 == 0) r[0] = 0x80;
	// raw -> asn1 -> raw round trip for any (r, s) of a common length
	size_t hl = std::max(r.size(), s.size());
	Bytes raw(2 * hl, 0);
	memcpy(raw.data() + hl - r.size(), r.data(), r.size());
	memcpy(raw.data() + 2 * hl - s.size(), s.data(), s.size());
	Bytes a(raw);
	a.resize(2 * hl + 20);
	size_t al = br_ecdsa_raw_to_asn1(a.data(), 2 * hl);
	BIGNUM *rb = BN_bin2bn(r.data(), (int)r.size(), nullptr), *sb = BN_bin2bn(s.data(), (int)s.size(), nullptr);
	ECDSA_SIG *sg = ECDSA_SIG_new();
	ECDSA_SIG_set0(sg, rb, sb);
	unsigned char *der = nullptr;
	int dl = i2d_ECDSA_SIG(sg, &der);
	VF_CHECK(al == (size_t)dl && memcmp(a.data(), der, al) == 0, "raw_to_asn1(r=%s, s=%s) = %s, minimal DER is %s", hex(r.data(), r.size(), 8).c_str(), hex(s.data(), s.size(), 8).c_str(),
		hex(a.data(), al, 48).c_str(), hex(der, (size_t)dl, 48).c_str());
	Bytes b(a.begin(), a.begin() + al);
	b.resize(2 * hl + 20);
	size_t bl = br_ecdsa_asn1_to_raw(b.data(), al);
	VF_CHECK(bl % 2 == 0 && bl <= 2 * hl, "asn1_to_raw returned %zu for integers of at most %zu bytes", bl, hl);
	if (bl) {
		BIGNUM *r2 = BN_bin2bn(b.data(), (int)(bl / 2), nullptr), *s2 = BN_bin2bn(b.data() + bl / 2, (int)(bl / 2), nullptr);
		VF_CHECK(BN_cmp(r2, rb) == 0 && BN_cmp(s2, sb) == 0, "asn1_to_raw(raw_to_asn1(x)) changed the integers");
		BN_free(r2); BN_free(s2);
	} else VF_CHECK(BN_is_zero(rb) && BN_is_zero(sb), "asn1_to_raw returned 0 for a well-formed signature");
	// malformed DER must be refused (length 0)
	Bytes m(der, der + dl);
	unsigned mut = t.u8() % 6;
	const char *what = "";
	switch (mut) {
	case 0: m.push_back(0); what = "trailing byte"; break;
	case 1: m[0] = 0x31; what = "outer tag not SEQUENCE"; break;
	case 2: { size_t lo = (m[1] & 0x80) ? 1 + (size_t)(m[1] & 0x7F) : 1; m[lo] ^= 0x01; what = "outer length off by one"; break; }
	case 3: m.pop_back(); what = "truncated"; break;
	case 4: { size_t off = (m[1] & 0x80) ? 2 + (size_t)(m[1] & 0x7F) : 2; m[off] = 0x03; what = "first element not INTEGER"; break; }
	default: { size_t off = (m[1] & 0x80) ? 2 + (size_t)(m[1] & 0x7F) : 2; m[off + 1] = (uint8_t)(m[off + 1] + 1); what = "first INTEGER length off by one"; break; }
	}
	Bytes mm = m;
	mm.resize(m.size() + 160);
	size_t ml = br_ecdsa_asn1_to_raw(mm.data(), m.size());
	// (a mutation can by accident yield another well-formed signature, e.g. a longer r swallowing the tag
	// of a two-byte s: the independent parser decides what is malformed)
	bool still_wellformed = false;
	{
		const unsigned char *pp = m.data();
		ECDSA_SIG *chk = d2i_ECDSA_SIG(nullptr, &pp, (long)m.size());
		if (chk) { still_wellformed = pp == m.data() + m.size(); ECDSA_SIG_free(chk); }
	}
	if (still_wellformed) stats.excluded++;
	else VF_CHECK(ml == 0, "asn1_to_raw accepts a malformed signature (%s): returned %zu", what, ml);
	OPENSSL_free(der);
	ECDSA_SIG_free(sg);
	stats.cls("asn1");
	stats.eval(fmt("asn1/%zu/%zu/%zu/%u", ol, r.size(), s.size(), mut));
}

// a PRNG whose first draws are scripted (then an HMAC_DRBG): boundary values for the rejection sampling of keygen
struct ScriptedPrng {
	const br_prng_class *vt;
	std::vector<Bytes> script;
	size_t next = 0;
	br_hmac_drbg_context fallback;
};
static void sp_init(const br_prng_class **, const void *, const void *, size_t) {}
static void sp_generate(const br_prng_class **ctx, void *out, size_t len)
{
	ScriptedPrng *s = (ScriptedPrng *)ctx;
	if (s->next < s->script.size() && s->script[s->next].size() == len) { memcpy(out, s->script[s->next].data(), len); s->next++; return; }
	s->next = s->script.size();
	br_hmac_drbg_generate(&s->fallback, out, len);
}
static void sp_update(const br_prng_class **, const void *, size_t) {}
static const br_prng_class SP_VT = { sizeof(ScriptedPrng), sp_init, sp_generate, sp_update };

static void k_keygen_boundary(Tape &t)
{
	const ImplDef &im = impls[t.u8() % impls.size()];
	CurveDef &c = CURVES[t.u8() % 3];
	if (!(im.impl->supported_curves & (1u << c.id))) { stats.eval(); return; }
	size_t ol = (size_t)BN_num_bytes(c.order);
	ScriptedPrng sp;
	sp.vt = &SP_VT;
	Bytes seed = t.filled(8);
	br_hmac_drbg_init(&sp.fallback, &br_sha256_vtable, seed.data(), seed.size());
	std::string hist;
	unsigned nd = 1 + t.u8() % 3;
	for (unsigned i = 0; i < nd; i++) {
		BN v;
		unsigned k = t.u8() % 7;
		static const char *KN[] = { "0", "n", "n+1", "n-1", "1", "2^bits-1", "n+2^k" };
		BN_copy(v.b, c.order);
		switch (k) {
		case 0: BN_zero(v.b); break;
		case 1: break;
		case 2: BN_add_word(v.b, 1); break;
		case 3: BN_sub_word(v.b, 1); break;
		case 4: BN_one(v.b); break;
		case 5: BN_one(v.b); BN_lshift(v.b, v.b, BN_num_bits(c.order)); BN_sub_word(v.b, 1); break;
		default: BN_set_bit(v.b, (int)(t.u8() % (BN_num_bits(c.order) - 1))); break;   // some value >= n (or n with a bit already set: then n itself)
		}
		sp.script.push_back(bn2b(v.b, ol));
		hist += std::string(KN[k]) + " ";
	}
	Bytes kb(BR_EC_KBUF_PRIV_MAX_SIZE + 4, 0xEE);
	br_ec_private_key sk;
	size_t l = br_ec_keygen(&sp.vt, im.impl, &sk, kb.data(), c.id);
	VF_CHECK(l == ol && sk.xlen == ol && kb[l] == 0xEE, "%s keygen(%s): length %zu", im.name, c.name, l);
	BN x;
	BN_bin2bn(sk.x, (int)sk.xlen, x.b);
	VF_CHECK(!BN_is_zero(x.b) && BN_cmp(x.b, c.order) < 0, "%s keygen(%s) with a generator whose first draws are [%s]: private key %s is not in [1, n-1]", im.name, c.name, hist.c_str(),
		BN_is_zero(x.b) ? "0" : BN_cmp(x.b, c.order) == 0 ? "n" : "above n");
	Bytes pb(BR_EC_KBUF_PUB_MAX_SIZE);
	br_ec_public_key pk;
	size_t pl = br_ec_compute_pub(im.impl, &pk, pb.data(), &sk);
	PT Q(c);
	EC_POINT_mul(c.grp, Q.p, x.b, nullptr, nullptr, bnctx);
	Bytes pub = point_bytes(c, Q.p);
	VF_CHECK(pl == pub.size() && memcmp(pk.q, pub.data(), pl) == 0, "%s keygen(%s) [%s]: compute_pub differs from OpenSSL", im.name, c.name, hist.c_str());
	stats.cls("keygen:scripted-boundary-draws");
	stats.eval(fmt("kgb/%s/%d/%s", im.name, c.id, hist.c_str()));
}

static void k_keygen(Tape &t)
{
	if (t.u8() % 3 == 0) { k_keygen_boundary(t); return; }
	const ImplDef &im = impls[t.u8() % impls.size()];
	int curves[4] = { BR_EC_secp256r1, BR_EC_secp384r1, BR_EC_secp521r1, BR_EC_curve25519 };
	int cv = curves[t.u8() % 4];
	if (!(im.impl->supported_curves & (1u << cv))) { stats.eval(); return; }
	Bytes seed = t.filled(16);
	br_hmac_drbg_context rng;
	br_hmac_drbg_init(&rng, &br_sha256_vtable, seed.data(), seed.size());
	Bytes kb(BR_EC_KBUF_PRIV_MAX_SIZE + 4, 0xEE);
	br_ec_private_key sk;
	size_t l0 = br_ec_keygen(&rng.vtable, im.impl, nullptr, nullptr, cv);
	size_t l = br_ec_keygen(&rng.vtable, im.impl, &sk, kb.data(), cv);
	size_t ol;
	const unsigned char *o = im.impl->order(cv, &ol);
	VF_CHECK(l == ol && l0 == l && sk.xlen == ol && sk.curve == cv && kb[l] == 0xEE, "%s keygen(curve %d): lengths %zu/%zu, order is %zu bytes", im.name, cv, l0, l, ol);
	if (cv != BR_EC_curve25519) {
		BIGNUM *x = BN_bin2bn(sk.x, (int)sk.xlen, nullptr), *n = BN_bin2bn(o, (int)ol, nullptr);
		VF_CHECK(!BN_is_zero(x) && BN_cmp(x, n) < 0, "%s keygen(curve %d): private key not in [1, n-1]", im.name, cv);
		// public key matches OpenSSL
		CurveDef *cd = nullptr;
		for (auto &c : CURVES) if (c.id == cv) cd = &c;
		PT Q(*cd);
		EC_POINT_mul(cd->grp, Q.p, x, nullptr, nullptr, bnctx);
		Bytes pub = point_bytes(*cd, Q.p), pb(BR_EC_KBUF_PUB_MAX_SIZE);
		br_ec_public_key pk;
		size_t pl = br_ec_compute_pub(im.impl, &pk, pb.data(), &sk);
		VF_CHECK(pl == pub.size() && memcmp(pk.q, pub.data(), pl) == 0, "%s keygen(curve %d): compute_pub differs from OpenSSL", im.name, cv);
		BN_free(x); BN_free(n);
	}
	stats.cls("keygen");
	stats.eval(fmt("kg/%s/%d", im.name, cv));
}

void target_run(Tape &t)
{
	unsigned sel0 = t.u8();
	if (sel0 >= 240) { k_ecdsa_high_xr(t); return; }
	switch (sel0 % 16) {
	case 0: case 1: case 2: case 3: k_mul(t); break;
	case 4: case 5: case 6: k_muladd(t); break;
	case 7: case 8: k_invalid(t); break;
	case 9: case 10: k_x25519(t); break;
	case 11: case 12: case 13: k_ecdsa(t); break;
	case 14: k_asn1(t); break;
	default: k_keygen(t); break;
	}
}
