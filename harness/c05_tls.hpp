// C05, TLS families (included by c05_fuzz.cpp).
//
// pre-key: the victim is a fresh client (server) with the entropy of a
// recorded reference session, so that the recorded peer flight is valid for
// it; the flight is edited at handshake-message level (fields, vectors,
// certificates via the DER tree editor, order, types), re-fragmented into
// records and delivered under a generated chunking.
// post-key: the victim is restored from a snapshot taken right after a real
// handshake; the attacker is the authenticated peer: records of any content
// type and any plaintext are protected with the real keys by the independent
// record codec (renegotiation hellos with the genuine renegotiation_info,
// HelloRequest, fragments, alerts in pieces, ChangeCipherSpec, unknown
// types, over-long plaintexts), mixed with raw records and local API calls.
#pragma once

struct HsMsg { unsigned type; Bytes body; long len_delta = 0; };

struct TlsTpl {
	bool ok = false;
	unsigned cfg = 0;
	Profile cp, sp;
	std::vector<Record> recs[2];
	std::string desc;
};
static const struct { uint16_t suite; unsigned ver; bool cauth; int ckey; bool alpn; Layout lay; } TLS_CFG[] = {
	{ 0xC02F, 0x0303, false, 0, false, L_MONO }, { 0x002F, 0x0301, false, 0, false, L_MONO }, { 0xC02B, 0x0303, false, 0, false, L_SPLIT },
	{ 0xCCA8, 0x0303, false, 0, true, L_MONO }, { 0xC004, 0x0302, false, 0, false, L_MONO }, { 0x000A, 0x0302, false, 0, false, L_BIDI },
	{ 0xC02F, 0x0303, true, K_RSA, false, L_MONO }, { 0xC02B, 0x0303, true, K_EC, true, L_SPLIT }, { 0x009C, 0x0303, false, 0, true, L_SPLIT },
	{ 0xC014, 0x0301, true, K_RSA, false, L_MONO },
	// added with the third session: both CCM tag lengths, CBC with SHA-256 / SHA-384 MACs, AES-256-GCM
	{ 0xC09C, 0x0303, false, 0, false, L_MONO }, { 0xC0AE, 0x0303, false, 0, false, L_SPLIT }, { 0xC0AD, 0x0303, false, 0, false, L_MONO },
	{ 0xC028, 0x0303, false, 0, false, L_MONO }, { 0x003C, 0x0303, false, 0, false, L_SPLIT }, { 0x009D, 0x0303, false, 0, false, L_MONO },
};
static const unsigned TLS_NCFG = sizeof TLS_CFG / sizeof TLS_CFG[0];

static void tls_profiles(unsigned cfg, Profile &cp, Profile &sp)
{
	const auto &c = TLS_CFG[cfg % TLS_NCFG];
	const wt::SuiteInfo *si = wt::suite_by_id(c.suite);
	cp.suites = { c.suite }; sp.suites = { c.suite };
	cp.vmin = cp.vmax = sp.vmin = sp.vmax = c.ver;
	sp.key = keys_for(si)[0];
	cp.layout = sp.layout = c.lay;
	if (c.lay == L_BIDI) cp.buflen = sp.buflen = BR_SSL_BUFSIZE_BIDI;
	cp.client_auth = sp.client_auth = c.cauth;
	cp.client_key = c.ckey;
	if (c.alpn) { cp.alpn = { "h2", "http/1.1" }; sp.alpn = { "http/1.1", "h2" }; }
	for (int i = 0; i < 32; i++) { cp.entropy[i] = (uint8_t)(cfg * 5 + i * 3 + 1); sp.entropy[i] = (uint8_t)(cfg * 7 + i + 9); }
}
static std::map<unsigned, TlsTpl> tls_tpls;
static TlsTpl &tls_tpl(unsigned cfg)
{
	cfg %= TLS_NCFG;
	auto it = tls_tpls.find(cfg);
	if (it != tls_tpls.end()) return it->second;
	TlsTpl &T = tls_tpls[cfg];
	T.cfg = cfg;
	tls_profiles(cfg, T.cp, T.sp);
	BearClient c(T.cp);
	BearServer s(T.sp);
	bool ok = c.reset() && s.reset();
	Session S(&c, &s);
	S.script[0].push_back(Item{ IT_WRITE, 40, true });
	S.script[1].push_back(Item{ IT_WRITE, 90, true });
	S.script[0].push_back(Item{ IT_WAIT_PEER_IDLE, 0, true });
	S.script[0].push_back(Item{ IT_CLOSE, 0, true });
	uint64_t lim = g_limit;
	g_limit = UINT64_MAX;
	S.run(400000);
	g_limit = lim;
	T.ok = ok && S.established && c.error() == 0 && s.error() == 0;
	T.recs[0] = S.tap.recs[0];
	T.recs[1] = S.tap.recs[1];
	T.desc = fmt("cfg %u (%04x TLS %s%s%s)", cfg, TLS_CFG[cfg].suite, ver_name(TLS_CFG[cfg].ver), TLS_CFG[cfg].cauth ? " client-auth" : "", TLS_CFG[cfg].alpn ? " alpn" : "");
	return T;
}

// split the epoch-0 handshake stream of a direction into messages; `tail`
// gets every later record
static void split_flight(const std::vector<Record> &recs, std::vector<HsMsg> &msgs, std::vector<Record> &tail)
{
	Bytes hs;
	size_t i = 0;
	for (; i < recs.size(); i++) {
		if (recs[i].epoch != 0 || recs[i].type != 22) break;
		hs.insert(hs.end(), recs[i].payload.begin(), recs[i].payload.end());
	}
	for (; i < recs.size(); i++) tail.push_back(recs[i]);
	size_t off = 0;
	while (off + 4 <= hs.size()) {
		size_t ml = ((size_t)hs[off + 1] << 16) | ((size_t)hs[off + 2] << 8) | hs[off + 3];
		if (off + 4 + ml > hs.size()) break;
		msgs.push_back(HsMsg{ hs[off], Bytes(hs.begin() + off + 4, hs.begin() + off + 4 + ml) });
		off += 4 + ml;
	}
}
static Bytes join_msgs(const std::vector<HsMsg> &msgs)
{
	Bytes hs;
	for (auto &m : msgs) {
		hs.push_back((uint8_t)m.type);
		size_t l = (size_t)((long)m.body.size() + m.len_delta) & 0xFFFFFF;
		hs.push_back((uint8_t)(l >> 16)); hs.push_back((uint8_t)(l >> 8)); hs.push_back((uint8_t)l);
		hs.insert(hs.end(), m.body.begin(), m.body.end());
	}
	return hs;
}
// fragment a handshake stream into records of drawn sizes
static void fragment(Tape &t, const Bytes &hs, unsigned rec_ver, Bytes &wire, std::string &md)
{
	unsigned mode = t.u8() % 6;
	size_t off = 0;
	auto put = [&](unsigned type, unsigned ver, const uint8_t *p, size_t n) {
		wire.push_back((uint8_t)type); wire.push_back((uint8_t)(ver >> 8)); wire.push_back((uint8_t)ver);
		wire.push_back((uint8_t)(n >> 8)); wire.push_back((uint8_t)n);
		wire.insert(wire.end(), p, p + n);
	};
	unsigned nrec = 0;
	while (off < hs.size()) {
		size_t k;
		switch (mode) {
		case 0: k = 16384; break;
		case 1: k = 1; break;
		case 2: k = 1 + t.u8() % 8; break;
		case 3: k = 1 + t.u8(); break;
		case 4: k = (nrec & 1) ? 16384 : 4; break;   // cuts message headers
		default: k = 1 + (size_t)t.u16() % 4000; break;
		}
		if (mode == 1 && hs.size() > 3000) k = 1 + off % 7;
		if (k > hs.size() - off) k = hs.size() - off;
		put(22, rec_ver, hs.data() + off, k);
		off += k;
		nrec++;
		if (nrec > 4000) { put(22, rec_ver, hs.data() + off, std::min<size_t>(16384, hs.size() - off)); break; }
	}
	unsigned x = t.u8() % 16;
	if (x == 1) { put(22, rec_ver, nullptr, 0); md += " +empty-hs-record"; }
	else if (x == 2) { uint8_t w[2] = { 1, (uint8_t)t.u8() }; put(21, rec_ver, w, 2); md += " +warning-alert"; }
	else if (x == 3) { uint8_t w[1] = { 1 }; put(21, rec_ver, w, 1); md += " +half-alert"; }
	md += fmt(" frag-mode%u(%u records)", mode, nrec);
}

// edit the message list
static void edit_msgs(Tape &t, std::vector<HsMsg> &msgs, std::string &md)
{
	unsigned n = 1 + t.u8() % 3;
	for (unsigned e = 0; e < n && !msgs.empty(); e++) {
		size_t mi = t.u8() % msgs.size();
		HsMsg &m = msgs[mi];
		unsigned k = t.u8() % 12;
		switch (k) {
		case 0: case 1: { std::string s; byte_edits(t, m.body, s); md += fmt(" msg%zu(type %u):", mi, m.type) + s; break; }
		case 2: {   // a length-like field: width 1..3 at a drawn position
			if (m.body.empty()) break;
			size_t pos = t.u16() % m.body.size();
			unsigned w = 1 + t.u8() % 3;
			size_t v = draw_len(t);
			if (t.flag()) {   // relative to the current value
				size_t cur = 0;
				for (unsigned i = 0; i < w && pos + i < m.body.size(); i++) cur = (cur << 8) | m.body[pos + i];
				v = cur + (size_t)(t.pick<int>({ -1, 1, -2, 2, 255, 256 }));
			}
			for (unsigned i = 0; i < w && pos + i < m.body.size(); i++) m.body[pos + i] = (uint8_t)(v >> (8 * (w - 1 - i)));
			md += fmt(" msg%zu: len%u@%zu=%zu", mi, w, pos, v);
			break;
		}
		case 3: m.len_delta = t.pick<long>({ -1, 1, 2, -4, 256, 65536, 0xFFFFFF }); md += fmt(" msg%zu: header-length%+ld", mi, m.len_delta); break;
		case 4: msgs.erase(msgs.begin() + mi); md += fmt(" drop msg%zu", mi); break;
		case 5: { HsMsg c = m; msgs.insert(msgs.begin() + mi, c); md += fmt(" dup msg%zu", mi); break; }
		case 6: if (mi + 1 < msgs.size()) { std::swap(msgs[mi], msgs[mi + 1]); md += fmt(" swap msg%zu", mi); } break;
		case 7: m.type = t.pick<unsigned>({ 0, 1, 2, 4, 11, 12, 13, 14, 15, 16, 20, 21, 22, 67, 255 }); md += fmt(" msg%zu: type=%u", mi, m.type); break;
		case 8: { size_t L = draw_len(t); if (L > 70000) L = 70000; m.body.assign(L, (uint8_t)t.u8()); md += fmt(" msg%zu: body=%zu filler", mi, L); break; }
		case 9: { HsMsg x; x.type = t.u8(); size_t L = t.u8() % 40; x.body.resize(L); t.bytes(x.body.data(), L); msgs.insert(msgs.begin() + mi, x); md += fmt(" insert type %u before msg%zu", x.type, mi); break; }
		case 10: {
			// Certificate message: edit one certificate with the DER editor, keep the list lengths right
			size_t ci = 0;
			for (; ci < msgs.size(); ci++) if (msgs[ci].type == 11) break;
			if (ci == msgs.size()) break;
			Bytes &b = msgs[ci].body;
			std::vector<Bytes> cl;
			size_t o = 3;
			while (o + 3 <= b.size()) { size_t l = ((size_t)b[o] << 16) | ((size_t)b[o + 1] << 8) | b[o + 2]; o += 3; if (o + l > b.size()) break; cl.push_back(Bytes(b.begin() + o, b.begin() + o + l)); o += l; }
			if (cl.empty()) break;
			size_t which = t.u8() % cl.size();
			std::string s;
			if (!der_edits(t, cl[which], s)) byte_edits(t, cl[which], s);
			unsigned lop = t.u8() % 8;
			if (lop == 1) cl.push_back(cl[0]);
			else if (lop == 2) cl.clear();
			else if (lop == 3) cl.insert(cl.begin(), Bytes());
			else if (lop == 4) for (int r = 0; r < 12; r++) cl.push_back(cl.back());
			Bytes nb;
			size_t tot = 0;
			for (auto &c : cl) tot += 3 + c.size();
			tot &= 0xFFFFFF;
			nb.push_back((uint8_t)(tot >> 16)); nb.push_back((uint8_t)(tot >> 8)); nb.push_back((uint8_t)tot);
			for (auto &c : cl) { size_t l = c.size() & 0xFFFFFF; nb.push_back((uint8_t)(l >> 16)); nb.push_back((uint8_t)(l >> 8)); nb.push_back((uint8_t)l); nb.insert(nb.end(), c.begin(), c.end()); }
			b = nb;
			md += fmt(" certificate %zu:", which) + s + fmt(" listop%u", lop);
			break;
		}
		default: {   // append bytes inside the message (trailing garbage within the declared length)
			size_t L = 1 + t.u8() % 20;
			for (size_t i = 0; i < L; i++) m.body.push_back(t.u8());
			md += fmt(" msg%zu: +%zu trailing", mi, L);
		}
		}
	}
}

struct DriveResult { bool closed = false, ready = false, stalled = false; int err = 0; size_t delivered = 0, emitted = 0, consumed = 0; };
// push `wire` into the endpoint under a drawn chunking, draining everything it offers
static DriveResult drive(Tape &t, BearEndpoint *e, const Bytes &wire, const std::string &desc)
{
	DriveResult r;
	size_t off = 0;
	unsigned mode = t.u8() % 4;
	unsigned idle = 0;
	for (uint64_t guard = 0; guard < 4000000; guard++) {
		bool prog = false;
		const uint8_t *p;
		size_t n;
		while ((n = e->app_in_peek(&p)) > 0) { r.delivered += n; e->app_in_ack(mode == 1 && n > 1 ? n / 2 : n); prog = true; }
		if ((n = e->wire_out_peek(&p)) > 0) { size_t k = mode == 1 && n > 3 ? 3 : n; r.emitted += k; e->wire_out_ack(k); prog = true; }
		if (e->ready()) r.ready = true;
		size_t room = e->wire_in_room();
		if (room && off < wire.size()) {
			size_t k = std::min(room, wire.size() - off);
			size_t c;
			switch (mode) {
			case 0: c = k; break;
			case 1: c = 1; break;
			case 2: c = 1 + t.u8() % 16; break;
			default: c = t.flag() ? 5 : 1 + t.u8() * 8; break;
			}
			if (wire.size() > 20000 && c < 64) c = 64 + c;
			if (c > k) c = k;
			e->wire_in(wire.data() + off, c);
			off += c;
			prog = true;
		}
		if (e->closed()) break;
		if (!prog) { if (++idle >= 2) break; } else idle = 0;
	}
	r.consumed = off;
	r.closed = e->closed();
	r.err = e->error();
	if (!r.closed && off < wire.size() && e->wire_in_room() == 0) {
		const uint8_t *p;
		r.stalled = e->app_in_peek(&p) == 0 && e->wire_out_peek(&p) == 0;
	}
	VF_CHECK(!r.stalled, "TLS %s (%s): %zu of %zu input bytes consumed, the engine is open (state %#x), offers nothing to read or send and takes no more record bytes: a caller of br_sslio_read() would spin forever",
		e->name.c_str(), desc.c_str(), off, wire.size(), e->state());
	if (r.err != 0) VF_CHECK(r.closed, "TLS %s (%s): error %d but state %#x", e->name.c_str(), desc.c_str(), r.err, e->state());
	return r;
}

static void fam_tls_pre(Tape &t, bool client)
{
	unsigned cfg = t.u8() % TLS_NCFG;
	TlsTpl &T = tls_tpl(cfg);
	VF_CHECK(T.ok, "harness: reference TLS session %u failed", cfg);
	unsigned mode = t.u8() % 8;
	const std::vector<Record> &peer = T.recs[client ? 1 : 0];
	Bytes wire;
	std::string md;
	unsigned rec_ver = TLS_CFG[cfg].ver;
	if (mode == 0) {
		size_t n = t.remaining() > 4 ? t.remaining() - 4 : 0;
		wire.resize(n);
		t.bytes(wire.data(), n);
		md = fmt(" raw %zu bytes", n);
	} else {
		std::vector<HsMsg> msgs;
		std::vector<Record> tail;
		split_flight(peer, msgs, tail);
		if (mode >= 2) edit_msgs(t, msgs, md);
		Bytes hs = join_msgs(msgs);
		if (mode == 1) { for (auto &r : peer) { Bytes b = r.raw(); wire.insert(wire.end(), b.begin(), b.end()); } md = " unmodified"; }
		else {
			// the server flight after the client's second flight (CCS, Finished) cannot be
			// separated here: the whole edited stream is delivered, later parts simply arrive early
			if (t.u8() % 8 == 0 && rec_ver > 0x0301) rec_ver = t.pick<unsigned>({ 0x0300, 0x0301, 0x0304, 0x0000, 0xFFFF });
			fragment(t, hs, rec_ver, wire, md);
			unsigned tm = t.u8() % 6;
			for (size_t i = 0; i < tail.size(); i++) {
				if (tm == 1 && i == 0) continue;                   // drop CCS
				Bytes b = tail[i].raw();
				if (tm == 2 && i == 0 && b.size() > 5) b[5] = (uint8_t)t.u8();   // CCS value
				if (tm == 3 && i == 1 && b.size() > 8) b[5 + t.u8() % (b.size() - 5)] ^= 0x04;
				wire.insert(wire.end(), b.begin(), b.end());
				if (tm == 4 && i == 0) wire.insert(wire.end(), b.begin(), b.end());   // CCS twice
			}
			if (tm == 5) { std::string s; byte_edits(t, wire, s); md += " wire:" + s; }
		}
	}
	std::string desc = T.desc + (client ? " client" : " server") + md;
	std::unique_ptr<BearClient> c;
	std::unique_ptr<BearServer> s;
	BearEndpoint *e;
	begin_work("tls-pre", 6000000, 800, wire.size());
	if (client) { c.reset(new BearClient(T.cp)); c->reset(); e = c.get(); } else { s.reset(new BearServer(T.sp)); s->reset(); e = s.get(); }
	DriveResult r;
	Tape tz(nullptr, 0);
	try { r = drive(mode == 1 ? tz : t, e, wire, desc); } catch (const Violation &v) { failf("%s [%s]", v.msg.c_str(), desc.c_str()); }
	end_work();
	if (mode == 1) VF_CHECK(r.ready && r.err == 0, "harness: unmodified replay of %s did not complete (error %d)", desc.c_str(), r.err);
	account(client ? "tls-client-pre" : "tls-server-pre", r.err ? fmt("err%d", r.err) : r.ready ? "ready" : "open", r.consumed > 5 + 4, desc);
}

// ----------------------------------------------------------- post-key lab
struct PostLab {
	bool ok = false;
	unsigned cfg;
	bool victim_client;
	Profile cp, sp;
	std::unique_ptr<BearClient> c;
	std::unique_ptr<BearServer> s;
	BearSnap snap;
	wt::RecCodec codec;
	Bytes saved_finished;
	std::string desc;
	BearEndpoint *victim() { return victim_client ? (BearEndpoint *)c.get() : (BearEndpoint *)s.get(); }
};
static std::map<unsigned, std::unique_ptr<PostLab>> post_labs;
static PostLab *post_lab(unsigned cfg, bool victim_client, unsigned flagsel)
{
	cfg %= TLS_NCFG;
	unsigned key = cfg * 8 + (victim_client ? 4 : 0) + (flagsel & 3);
	auto it = post_labs.find(key);
	if (it != post_labs.end()) return it->second.get();
	std::unique_ptr<PostLab> L(new PostLab);
	L->cfg = cfg;
	L->victim_client = victim_client;
	tls_profiles(cfg, L->cp, L->sp);
	Profile &vp = victim_client ? L->cp : L->sp;
	if (flagsel & 1) vp.flags |= BR_OPT_NO_RENEGOTIATION;
	if (flagsel & 2) { vp.layout = L_SPLIT; vp.ilen = 837; vp.olen = 597; }   // small buffers (512-byte fragments)
	L->c.reset(new BearClient(L->cp));
	L->s.reset(new BearServer(L->sp));
	bool ok = L->c->reset() && L->s->reset();
	Session S(L->c.get(), L->s.get());
	S.script[victim_client ? 1 : 0].push_back(Item{ IT_WRITE, 10, true });
	uint64_t lim = g_limit;
	g_limit = UINT64_MAX;
	S.run(400000);
	int sdir = victim_client ? 1 : 0;
	ok = ok && S.established && L->c->error() == 0 && L->s->error() == 0 && S.tap.advance(sdir, true);
	ok = ok && S.tap.codec_after(sdir, S.tap.recs[sdir].size(), L->codec);
	g_limit = lim;
	if (victim_client) snap_save(*L->c, L->snap); else snap_save(*L->s, L->snap);
	L->saved_finished.assign(L->victim()->eng->saved_finished, L->victim()->eng->saved_finished + 24);
	L->ok = ok;
	L->desc = fmt("cfg %u (%04x TLS %s) victim=%s%s%s", cfg, TLS_CFG[cfg].suite, ver_name(TLS_CFG[cfg].ver), victim_client ? "client" : "server", (flagsel & 1) ? " no-reneg" : "", (flagsel & 2) ? " small-buffers" : "");
	PostLab *raw = L.get();
	post_labs[key] = std::move(L);
	return raw;
}

static void fam_tls_post(Tape &t, bool client)
{
	unsigned cfg = t.u8() % TLS_NCFG;
	PostLab *L = post_lab(cfg, client, t.u8());
	VF_CHECK(L->ok, "harness: post-key lab %s failed", L->desc.c_str());
	if (client) snap_restore(*L->c, L->snap); else snap_restore(*L->s, L->snap);
	BearEndpoint *e = L->victim();
	wt::RecCodec codec = L->codec;
	unsigned ver = TLS_CFG[cfg].ver;
	std::string md;
	size_t total_in = 0;
	begin_work("tls-post", 8000000, 800, 0);
	unsigned nact = 1 + t.u8() % 8;
	bool any_record = false;
	for (unsigned a = 0; a < nact && !e->closed(); a++) {
		unsigned k = t.u8() % 16;
		Bytes wire;
		auto rec = [&](unsigned type, const Bytes &pt, unsigned rv) {
			Bytes payload = codec.encrypt((uint8_t)type, rv, pt.empty() ? (const uint8_t *)"" : pt.data(), pt.size());
			wire.push_back((uint8_t)type); wire.push_back((uint8_t)(rv >> 8)); wire.push_back((uint8_t)rv);
			wire.push_back((uint8_t)(payload.size() >> 8)); wire.push_back((uint8_t)payload.size());
			wire.insert(wire.end(), payload.begin(), payload.end());
		};
		if (k < 3) {
			// handshake record(s): HelloRequest / renegotiation ClientHello / template message / garbage, possibly in fragments
			Bytes hs;
			unsigned hk = t.u8() % 6;
			if (hk == 0) hs = { 0, 0, 0, 0 };
			else if (hk == 1) {
				ClientHelloSpec ch;
				ch.version = t.flag() ? ver : t.pick<unsigned>({ 0x0301, 0x0303, 0x0304, 0x0300 });
				ch.suites = { TLS_CFG[cfg].suite, (uint16_t)t.u16(), 0x002F };
				ch.random = Bytes(32, (uint8_t)t.u8());
				if (t.u8() % 4) ch.add_reneg(Bytes(L->saved_finished.begin(), L->saved_finished.begin() + 12)); else if (t.flag()) ch.add_reneg(Bytes(t.u8() % 30, 0x11));
				if (t.flag()) ch.add_sigalgs({ { 4, 1 }, { 4, 3 }, { 2, 1 } });
				if (t.flag()) { ch.add_curves({ 23, 24, 29 }); ch.add_point_formats(); }
				if (t.flag()) ch.add_sni(std::string(t.u8(), 'h'));
				if (t.flag()) ch.session_id = Bytes(t.u8() % 40, 0x77);
				hs = ch.message();
				md += " reneg-ClientHello";
			} else if (hk == 2) {
				// messages of the peer's recorded flight (a "server flight" for a client that was asked to renegotiate)
				TlsTpl &T = tls_tpl(cfg);
				std::vector<HsMsg> msgs;
				std::vector<Record> tail;
				split_flight(T.recs[client ? 1 : 0], msgs, tail);
				std::string s;
				if (t.flag()) edit_msgs(t, msgs, s);
				hs = join_msgs(msgs);
				md += " flight:" + s;
			} else if (hk == 3) { size_t n = t.u8() % 64; hs.resize(n); t.bytes(hs.data(), n); md += fmt(" hs-garbage%zu", n); }
			else if (hk == 4) { hs = { (uint8_t)t.u8(), 0xFF, 0xFF, 0xFF }; hs.resize(4 + t.u8(), 0x41); md += " hs-16M-message"; }
			else { hs = { 20, 0, 0, 12 }; hs.resize(16, (uint8_t)t.u8()); md += " stray-Finished"; }
			if (hk == 0) md += " HelloRequest";
			size_t fr = t.flag() ? hs.size() : 1 + t.u8() % 9;
			for (size_t off = 0; off < hs.size() || off == 0; off += fr) {
				size_t n = std::min(fr, hs.size() - off);
				rec(22, Bytes(hs.begin() + off, hs.begin() + off + n), ver);
				if (hs.empty() || wire.size() > 60000) break;
			}
		} else if (k < 5) {
			Bytes al = { (uint8_t)t.pick<unsigned>({ 1, 2, 0, 3, 255 }), (uint8_t)t.pick<unsigned>({ 0, 10, 20, 40, 90, 100, 255, 1 }) };
			unsigned ak = t.u8() % 4;
			if (ak == 1) { rec(21, Bytes(al.begin(), al.begin() + 1), ver); rec(21, Bytes(al.begin() + 1, al.end()), ver); md += fmt(" alert(%u,%u) in halves", al[0], al[1]); }
			else if (ak == 2) { al.resize(2 + t.u8() % 6, 1); rec(21, al, ver); md += " long-alert-record"; }
			else if (ak == 3) { rec(21, Bytes(), ver); md += " empty-alert"; }
			else { rec(21, al, ver); md += fmt(" alert(%u,%u)", al[0], al[1]); }
		} else if (k < 7) {
			size_t n = t.pick<size_t>({ 0, 1, 100, 511, 512, 513, 16383, 16384, 16385, 16500, 17408 });
			Bytes pt(n, 0x61);
			rec(23, pt, ver);
			md += fmt(" appdata%zu", n);
		} else if (k == 7) { rec(20, Bytes{ (uint8_t)(t.flag() ? 1 : t.u8()) }, ver); md += " CCS"; }
		else if (k == 8) { unsigned ty = t.pick<unsigned>({ 0, 19, 24, 25, 64, 255 }); size_t n = t.u8(); rec(ty, Bytes(n, 0), ver); md += fmt(" type%u", ty); }
		else if (k == 9) { rec(23, Bytes(10, 1), t.pick<unsigned>({ 0x0300, 0x0301, 0x0302, 0x0303, 0x0304, 0 })); md += " record-version"; }
		else if (k == 10) {
			size_t n = t.remaining() > 8 ? std::min<size_t>(t.remaining() - 8, 64) : 0;
			wire.resize(n);
			t.bytes(wire.data(), n);
			md += fmt(" raw%zu", n);
		} else if (k == 11) {
			// header announcing a length at / beyond the limits, followed by filler
			size_t n = t.pick<size_t>({ 0, 16384 + 300, 16384 + 325, 16384 + 326, 16384 + 2048, 16384 + 2049, 18000, 32768, 65535, 8, 16, 17, 23, 24, 31, 32, 47, 48 });
			if (t.flag()) n = (e->eng->ibuf_len + 3 - t.u8() % 12) & 0xFFFF;   // around what the victim's own input buffer can hold
			wire = { (uint8_t)t.pick<unsigned>({ 23, 22, 21 }), (uint8_t)(ver >> 8), (uint8_t)ver, (uint8_t)(n >> 8), (uint8_t)n };
			wire.resize(5 + std::min<size_t>(n, 20000), 0x17);
			md += fmt(" header-len%zu", n);
		} else if (k == 12) { e->close(); md += " local-close"; }
		else if (k == 13) { int rr = e->renegotiate(); md += fmt(" local-reneg=%d", rr); }
		else if (k == 14) { if (e->ready()) { size_t room = e->app_out_room(); size_t n = std::min<size_t>(room, 1 + t.u8() * 3); Bytes d(n, 0x42); e->app_out(d.data(), n); e->flush(t.flag()); md += fmt(" local-write%zu", n); } }
		else { e->flush(true); md += " local-flush(force)"; }
		if (!wire.empty()) {
			any_record = true;
			total_in += wire.size();
			g_limit += 800 * (uint64_t)wire.size();
			try { drive(t, e, wire, L->desc + md); } catch (const Violation &v) { failf("%s [%s:%s]", v.msg.c_str(), L->desc.c_str(), md.c_str()); }
		}
	}
	end_work();
	int err = e->error();
	if (err != 0) VF_CHECK(e->closed(), "TLS %s:%s: error %d but state %#x", L->desc.c_str(), md.c_str(), err, e->state());
	account(client ? "tls-client-post" : "tls-server-post", err ? fmt("err%d", err) : e->closed() ? "closed" : "open", any_record, L->desc + md);
}

// ----------------------------------------------------------- TLS boundary cases
// kind 20: ClientHello field lengths (a = which field, b = length) to a server
// kind 21: server flight field lengths to a client (a = which, b = length)
static void tls_boundary_case(unsigned kind, size_t a, size_t b, const std::string &desc)
{
	Tape t0(nullptr, 0);
	if (kind == 20) {
		unsigned cfg = 0;
		TlsTpl &T = tls_tpl(cfg);
		VF_CHECK(T.ok, "harness: reference TLS session failed");
		ClientHelloSpec ch;
		ch.suites = { 0xC02F, 0x009C, 0x002F };
		ch.add_reneg();
		ch.add_sigalgs({ { 4, 1 }, { 4, 3 }, { 2, 1 } });
		ch.add_curves({ 23, 24 });
		ch.add_point_formats();
		switch (a) {
		case 0: ch.session_id = Bytes(std::min<size_t>(b, 255), 0x33); break;
		case 1: ch.suites.clear(); for (size_t i = 0; i < b; i++) ch.suites.push_back(i % 3 == 0 ? 0xC02F : (uint16_t)(0x0A0A + i)); break;
		case 2: ch.add_sni(std::string(b, 'n')); break;
		case 3: { std::vector<std::string> names; for (size_t i = 0; i < b; i++) names.push_back("p" + std::to_string(i)); ch.add_alpn(names); break; }
		case 4: ch.add_alpn({ std::string(std::min<size_t>(b, 255), 'a'), "http/1.1" }); break;
		case 5: { std::vector<std::pair<unsigned, unsigned>> hs; for (size_t i = 0; i < b; i++) hs.push_back({ (unsigned)(i % 8), (unsigned)(i % 5) }); ch.exts.clear(); ch.add_sigalgs(hs); ch.add_reneg(); break; }
		case 6: { std::vector<unsigned> cv; for (size_t i = 0; i < b; i++) cv.push_back((unsigned)(i + 1)); ch.add_curves(cv); break; }
		case 7: ch.exts.push_back(Ext{ 0x8888, Bytes(b, 0) }); break;
		case 8: ch.compression = Bytes(std::min<size_t>(b, 255), 0); break;
		case 9: for (size_t i = 0; i < b; i++) ch.exts.push_back(Ext{ (uint16_t)(0x7000 + i), Bytes() }); break;
		default: ch.add_reneg(Bytes(std::min<size_t>(b, 255), 0x55)); break;
		}
		Bytes wire = ch.records(b % 2 ? 16384 : 100);
		BearServer s(T.sp);
		begin_work("tls-pre", 6000000, 800, wire.size());
		s.reset();
		DriveResult r = drive(t0, &s, wire, desc);
		end_work();
		account("boundary-tls-server", r.err ? fmt("err%d", r.err) : "open", true, desc);
		return;
	}
	if (kind == 22) {
		// handshake bytes trailing, in the same record, the message after which it is
		// the victim's turn to talk (a = scenario, b = buffer layout)
		TlsTpl &T = tls_tpl(0);
		VF_CHECK(T.ok, "harness: reference TLS session failed");
		Layout lay = b == 0 ? L_MONO : b == 1 ? L_BIDI : L_SPLIT;
		auto layout = [&](Profile &p) { p.layout = lay; p.buflen = lay == L_BIDI ? BR_SSL_BUFSIZE_BIDI : BR_SSL_BUFSIZE_MONO; };
		if (a <= 1) {
			ClientHelloSpec ch;
			ch.suites = a == 0 ? std::vector<uint16_t>{ 0x1301 } : std::vector<uint16_t>{ 0xC02F };
			ch.add_reneg(); ch.add_sigalgs({ { 4, 1 } }); ch.add_curves({ 23 }); ch.add_point_formats();
			Bytes m = ch.message();
			m.insert(m.end(), { 0, 0, 0, 0 });
			Bytes wire = { 22, 3, 1, (uint8_t)(m.size() >> 8), (uint8_t)m.size() };
			wire.insert(wire.end(), m.begin(), m.end());
			Profile sp = T.sp;
			layout(sp);
			BearServer s(sp);
			begin_work("tls-pre", 6000000, 800, wire.size());
			s.reset();
			DriveResult r = drive(t0, &s, wire, desc);
			end_work();
			account("boundary-tls-trailing", r.err ? fmt("err%d", r.err) : "open", true, desc);
		} else if (a == 2) {
			std::vector<HsMsg> msgs;
			std::vector<Record> tail;
			split_flight(T.recs[1], msgs, tail);
			Bytes hs = join_msgs(msgs);
			hs.insert(hs.end(), { 0, 0, 0, 0 });
			Bytes wire = { 22, 3, 3, (uint8_t)(hs.size() >> 8), (uint8_t)hs.size() };
			wire.insert(wire.end(), hs.begin(), hs.end());
			Profile cp = T.cp;
			layout(cp);
			BearClient c(cp);
			begin_work("tls-pre", 6000000, 800, wire.size());
			c.reset();
			DriveResult r = drive(t0, &c, wire, desc);
			end_work();
			account("boundary-tls-trailing", r.err ? fmt("err%d", r.err) : "open", true, desc);
		} else {
			bool client = a == 4;
			PostLab *L = post_lab(0, client, 1 | (lay == L_SPLIT ? 2 : 0));
			VF_CHECK(L->ok, "harness: post-key lab failed");
			if (client) snap_restore(*L->c, L->snap); else snap_restore(*L->s, L->snap);
			wt::RecCodec codec = L->codec;
			Bytes hs;
			if (client) hs = { 0, 0, 0, 0, 0, 0, 0, 0 };
			else { ClientHelloSpec ch; ch.suites = { 0xC02F }; ch.add_reneg(Bytes(L->saved_finished.begin(), L->saved_finished.begin() + 12)); hs = ch.message(); hs.insert(hs.end(), { 0, 0, 0, 0 }); }
			Bytes payload = codec.encrypt(22, 0x0303, hs.data(), hs.size());
			Bytes wire = { 22, 3, 3, (uint8_t)(payload.size() >> 8), (uint8_t)payload.size() };
			wire.insert(wire.end(), payload.begin(), payload.end());
			begin_work("tls-post", 8000000, 800, wire.size());
			DriveResult r = drive(t0, L->victim(), wire, desc);
			end_work();
			account("boundary-tls-trailing", r.err ? fmt("err%d", r.err) : "open", true, desc);
		}
		return;
	}
	if (kind == 24) {
		// after the handshake: a garbage record of every small length (below, at and above the overhead of the
		// protection in force: explicit IV / nonce, MAC / tag, padding), a = cfg * 2 + victim, b = length
		bool client = (a & 1) != 0;
		PostLab *L = post_lab((unsigned)(a >> 1), client, 0);
		VF_CHECK(L->ok, "harness: post-key lab failed");
		if (client) snap_restore(*L->c, L->snap); else snap_restore(*L->s, L->snap);
		BearEndpoint *e = L->victim();
		unsigned ver = TLS_CFG[(a >> 1) % TLS_NCFG].ver;
		Bytes wire = { 23, (uint8_t)(ver >> 8), (uint8_t)ver, (uint8_t)(b >> 8), (uint8_t)b };
		wire.resize(5 + b, 0x5C);
		wire.resize(wire.size() + 64, 0x17);
		begin_work("tls-post", 8000000, 800, wire.size());
		DriveResult r = drive(t0, e, wire, desc);
		end_work();
		VF_CHECK(r.closed && r.err != 0, "TLS %s (%s): a %zu-byte garbage record left the engine open (state %#x)", L->desc.c_str(), desc.c_str(), b, e->state());
		account("boundary-tls-short-record", fmt("err%d", r.err), true, desc);
		return;
	}
	if (kind == 23) {
		// after the handshake: a record header announcing a length around the capacity of the
		// victim's (small) input buffer, then filler (a = cfg * 2 + victim, b = 16 + delta)
		bool client = (a & 1) != 0;
		PostLab *L = post_lab((unsigned)(a >> 1), client, 2);
		VF_CHECK(L->ok, "harness: post-key lab failed");
		if (client) snap_restore(*L->c, L->snap); else snap_restore(*L->s, L->snap);
		BearEndpoint *e = L->victim();
		size_t n = (e->eng->ibuf_len + b - 16) & 0xFFFF;
		unsigned ver = TLS_CFG[(a >> 1) % TLS_NCFG].ver;
		Bytes wire = { 23, (uint8_t)(ver >> 8), (uint8_t)ver, (uint8_t)(n >> 8), (uint8_t)n };
		wire.resize(5 + n + 64, 0x17);
		begin_work("tls-post", 8000000, 800, wire.size());
		DriveResult r = drive(t0, e, wire, desc);
		end_work();
		VF_CHECK(r.closed && r.err != 0, "TLS %s (%s): a %zu-byte garbage record (input buffer %zu bytes) left the engine open (state %#x)", L->desc.c_str(), desc.c_str(), n, (size_t)e->eng->ibuf_len, e->state());
		account("boundary-tls-reclen", fmt("err%d", r.err), true, desc);
		return;
	}
	// kind 21: rewrite one field of the recorded server flight
	unsigned cfg = a >= 10 ? 6 : 0;     // 6 = with CertificateRequest
	TlsTpl &T = tls_tpl(cfg);
	VF_CHECK(T.ok, "harness: reference TLS session failed");
	std::vector<HsMsg> msgs;
	std::vector<Record> tail;
	split_flight(T.recs[1], msgs, tail);
	auto find = [&](unsigned type) -> HsMsg * { for (auto &m : msgs) if (m.type == type) return &m; return nullptr; };
	switch (a % 10) {
	case 0: if (HsMsg *m = find(2)) { Bytes &x = m->body; if (x.size() > 35) { size_t sl = x[34]; Bytes nb(x.begin(), x.begin() + 34); nb.push_back((uint8_t)std::min<size_t>(b, 255)); nb.insert(nb.end(), std::min<size_t>(b, 255), 0x44); nb.insert(nb.end(), x.begin() + 35 + sl, x.end()); x = nb; } } break;
	case 1: if (HsMsg *m = find(12)) { Bytes &x = m->body; if (x.size() > 4) { size_t pl = x[3]; Bytes nb(x.begin(), x.begin() + 3); nb.push_back((uint8_t)std::min<size_t>(b, 255)); nb.insert(nb.end(), std::min<size_t>(b, 255), 0x04); nb.insert(nb.end(), x.begin() + 4 + pl, x.end()); x = nb; } } break;
	case 2: if (HsMsg *m = find(12)) { Bytes &x = m->body; if (x.size() > 4) { size_t pl = x[3], o = 4 + pl + 2; if (o + 2 <= x.size()) { Bytes nb(x.begin(), x.begin() + o); nb.push_back((uint8_t)(b >> 8)); nb.push_back((uint8_t)b); nb.insert(nb.end(), b, 0x5C); x = nb; } } } break;
	case 3: if (HsMsg *m = find(11)) { Bytes c(b, 0x30); Bytes nb; size_t tot = 3 + c.size(); nb = { (uint8_t)(tot >> 16), (uint8_t)(tot >> 8), (uint8_t)tot, (uint8_t)(b >> 16), (uint8_t)(b >> 8), (uint8_t)b }; nb.insert(nb.end(), c.begin(), c.end()); m->body = nb; } break;
	case 4: if (HsMsg *m = find(2)) { Bytes &x = m->body; if (x.size() > 35) { size_t sl = x[34], o = 35 + sl + 3; Bytes nb(x.begin(), x.begin() + std::min(o, x.size())); Bytes ext; put16(ext, 0x0010); put16(ext, b + 3); put16(ext, b + 1); ext.push_back((uint8_t)b); ext.insert(ext.end(), b, 'z'); put16(nb, ext.size()); nb.insert(nb.end(), ext.begin(), ext.end()); x = nb; } } break;
	case 5: if (HsMsg *m = find(14)) m->body.assign(b, 0); break;
	case 6: if (HsMsg *m = find(13)) { Bytes nb; nb.push_back((uint8_t)std::min<size_t>(b, 255)); nb.insert(nb.end(), std::min<size_t>(b, 255), 1); put16(nb, 4); nb.insert(nb.end(), { 4, 1, 4, 3 }); put16(nb, 0); m->body = nb; } break;
	case 7: if (HsMsg *m = find(13)) { Bytes nb = { 1, 1 }; put16(nb, 4); nb.insert(nb.end(), { 4, 1, 4, 3 }); Bytes dns; for (size_t i = 0; i < b; i++) { put16(dns, 5); dns.insert(dns.end(), { 0x30, 0x03, 0x31, 0x01, 0x00 }); } put16(nb, dns.size()); nb.insert(nb.end(), dns.begin(), dns.end()); m->body = nb; } break;
	default: if (HsMsg *m = find(13)) { Bytes nb = { 1, 1 }; put16(nb, 2 * b); for (size_t i = 0; i < b; i++) { nb.push_back((uint8_t)(i % 7)); nb.push_back((uint8_t)(i % 4)); } put16(nb, 0); m->body = nb; } break;
	}
	Bytes hs = join_msgs(msgs), wire;
	std::string md;
	uint8_t fm[1] = { (uint8_t)(b % 2 ? 0 : 4) };
	Tape tf(fm, 1);
	fragment(tf, hs, TLS_CFG[cfg].ver, wire, md);
	BearClient c(T.cp);
	begin_work("tls-pre", 6000000, 800, wire.size());
	c.reset();
	DriveResult r = drive(t0, &c, wire, desc);
	end_work();
	account("boundary-tls-client", r.err ? fmt("err%d", r.err) : "open", true, desc);
}

static void tls_boundary_enum(const std::function<void(unsigned, size_t, size_t)> &emit, bool th)
{
	auto around = [&](std::initializer_list<size_t> centers, size_t w) { std::vector<size_t> v; for (size_t c : centers) for (size_t x = c > w ? c - w : 0; x <= c + w; x++) v.push_back(x); return v; };
	for (size_t b : around({ 0, 32, 255 }, 2)) emit(20, 0, b);
	for (size_t b : around({ 0, 48, 96, 144, 1000 }, th ? 4 : 2)) emit(20, 1, b);
	for (size_t b : around({ 0, 255, 512 }, 3)) emit(20, 2, b);
	for (size_t b : around({ 0, 3, 100 }, 1)) emit(20, 3, b);
	for (size_t b : around({ 0, 128, 255 }, 2)) emit(20, 4, b);
	for (size_t b : around({ 0, 16, 32, 300 }, 2)) emit(20, 5, b);
	for (size_t b : around({ 0, 16, 32, 300 }, 2)) emit(20, 6, b);
	for (size_t b : { 0u, 1u, 255u, 256u, 16000u, 40000u, 65000u }) emit(20, 7, b);
	for (size_t b : around({ 0, 255 }, 2)) emit(20, 8, b);
	for (size_t b : { 0u, 1u, 40u, 400u, 4000u }) emit(20, 9, b);
	for (size_t b : around({ 0, 12, 24, 36, 255 }, 1)) emit(20, 10, b);
	for (size_t b : around({ 0, 32, 255 }, 2)) emit(21, 0, b);
	for (size_t b : around({ 0, 32, 65, 97, 133, 255 }, th ? 4 : 2)) emit(21, 1, b);
	for (size_t b : around({ 0, 128, 256, 512, 1024 }, th ? 6 : 3)) emit(21, 2, b);
	for (size_t b : { 0u, 1u, 2u, 100u, 16384u, 70000u }) emit(21, 3, b);
	for (size_t b : around({ 0, 127, 255 }, 2)) emit(21, 4, b);
	for (size_t b : { 0u, 1u, 100u }) emit(21, 5, b);
	for (size_t b : around({ 0, 8, 255 }, 2)) emit(21, 16, b);
	for (size_t b : { 0u, 1u, 30u, 300u, 3000u }) emit(21, 17, b);
	for (size_t b : around({ 0, 16, 32, 300 }, 2)) emit(21, 18, b);
	for (size_t a = 0; a < 5; a++) for (size_t b = 0; b < 3; b++) emit(22, a, b);
	for (size_t a = 0; a < 2 * TLS_NCFG; a++) for (size_t b = 4; b <= 20; b++) emit(23, a, b);
	for (size_t a = 0; a < 2 * TLS_NCFG; a++) for (size_t b = 0; b <= 80; b++) emit(24, a, b);
}
