// C20 — no handshake without seeded randomness; nonces and IVs never
// repeat; equal seeds reproduce the exchange.
//
// Built against the library with every system seeder compiled out (the
// "+noseed" link variant), so the engine's DRBG is a pure function of the
// injected entropy.  Three kinds of case:
//  (a) seed gate: histories of up to 4 resets of a client or server with
//      entropy injected at a generated point (or never); reset must be
//      refused with BR_ERR_NO_RANDOM, state CLOSED and no byte offered,
//      exactly as long as nothing was injected;
//  (b) long session in a generated protection mode with 0..3
//      renegotiations: the independent wiretap authenticates record i only
//      with sequence number i counted from 0 after each key change, explicit
//      AEAD nonces equal that counter, explicit CBC IVs are pairwise
//      distinct per direction and key;
//  (c) several connections with pairwise distinct generated seeds: hello
//      randoms, session IDs, ECDHE points, encrypted premasters all differ;
//      two connections with equal seeds: byte-identical transcripts.
#include "common/tls_session.hpp"
#include <set>

using namespace vf;
using namespace tls;

const char *target_name = "c20_random";
const int target_tape_min = 0, target_tape_max = 64;

static const uint16_t MODE_SUITES[] = { 0x002F, 0x000A, 0xC028, 0x009C, 0xC0AE, 0xCCA8, 0xC02C, 0xC009, 0xC09D, 0xC013, 0x003D, 0xCCA9 };

static void gate_case(Tape &t)
{
	bool server = t.flag();
	unsigned inject_at = t.u8() % 6;     // before reset #k (k=0..3), 4/5: never
	size_t elen = 1 + t.u8() % 64;
	Bytes ent = t.filled(elen);
	unsigned hashes = t.u8() % 3;        // DRBG hash selection: all / only SHA-1(+MD5) / only SHA-384 & SHA-256
	Profile p;
	p.entropy.clear();
	std::unique_ptr<BearClient> c;
	std::unique_ptr<BearServer> s;
	BearEndpoint *e;
	if (server) { s.reset(new BearServer(p)); e = s.get(); } else { c.reset(new BearClient(p)); e = c.get(); }
	if (hashes == 1) for (int id = br_sha224_ID; id <= br_sha512_ID; id++) br_ssl_engine_set_hash(e->eng, id, nullptr);
	if (hashes == 2) { br_ssl_engine_set_hash(e->eng, br_md5_ID, nullptr); br_ssl_engine_set_hash(e->eng, br_sha1_ID, nullptr); br_ssl_engine_set_hash(e->eng, br_sha224_ID, nullptr); }
	bool seeded = false;
	std::string hist;
	unsigned zero_at = t.u8() % 8;       // before reset #k (k=0..3) the application also "injects" zero bytes (an empty seed file ...): that is not entropy
	for (unsigned k = 0; k < 4; k++) {
		if (k == zero_at) {
			br_ssl_engine_inject_entropy(e->eng, (zero_at & 1) ? (const void *)ent.data() : (const void *)"", 0);
			hist += "inject(0) ";
		}
		if (k == inject_at) {
			br_ssl_engine_inject_entropy(e->eng, ent.data(), ent.size());
			seeded = true;
			hist += fmt("inject(%zu) ", ent.size());
		}
		bool ok = server ? s->reset() : c->reset();
		hist += ok ? "reset=1 " : "reset=0 ";
		size_t len;
		unsigned char *out = br_ssl_engine_sendrec_buf(e->eng, &len);
		if (!seeded) {
			VF_CHECK(!ok, "%s [%s]: reset #%u succeeded although the generator was never seeded", e->name.c_str(), hist.c_str(), k);
			VF_CHECK(e->error() == BR_ERR_NO_RANDOM, "%s [%s]: unseeded reset reports error %d, want BR_ERR_NO_RANDOM", e->name.c_str(), hist.c_str(), e->error());
			VF_CHECK(e->state() == BR_SSL_CLOSED, "%s [%s]: unseeded engine state %#x", e->name.c_str(), hist.c_str(), e->state());
			VF_CHECK(out == nullptr, "%s [%s]: unseeded engine offers %zu bytes to send", e->name.c_str(), hist.c_str(), len);
		} else {
			VF_CHECK(ok && e->error() == 0, "%s [%s]: reset refused (error %d) although entropy was injected", e->name.c_str(), hist.c_str(), e->error());
			if (!server) VF_CHECK(out != nullptr && len > 40, "%s [%s]: seeded client offers no ClientHello", e->name.c_str(), hist.c_str());
		}
	}
	stats.cls(server ? "gate:server" : "gate:client");
	stats.cls(seeded ? "gate:seeded" : "gate:never-seeded");
	stats.eval(fmt("gate/%d/%u/%zu/%u/%u", server, inject_at, elen, hashes, zero_at));
	if (stats.want_sample()) stats.sample(fmt("gate %s hashes=%u: %s", server ? "server" : "client", hashes, hist.c_str()));
}

static void put_be64(uint8_t *o, uint64_t v) { for (int i = 0; i < 8; i++) o[i] = (uint8_t)(v >> (56 - 8 * i)); }

static void long_session(Tape &t)
{
	const wt::SuiteInfo *si = wt::suite_by_id(MODE_SUITES[t.u8() % (sizeof MODE_SUITES / sizeof MODE_SUITES[0])]);
	unsigned version = si->tls12_only ? 0x0303 : 0x0301 + t.u8() % 3;
	unsigned nreneg = t.u8() % 4;
	bool thorough = tier_thorough();
	unsigned per_phase = (thorough ? 2500u : 260u) + t.u8();
	Profile cp, sp;
	cp.suites = { si->id }; sp.suites = { si->id };
	cp.vmin = cp.vmax = sp.vmin = sp.vmax = version;
	sp.key = keys_for(si)[0];
	cp.esp = t.flag(); sp.esp = t.flag();
	cp.layout = (Layout)(t.u8() % 3); sp.layout = (Layout)(t.u8() % 3);
	if (cp.layout == L_BIDI) cp.buflen = BR_SSL_BUFSIZE_BIDI;
	if (sp.layout == L_BIDI) sp.buflen = BR_SSL_BUFSIZE_BIDI;
	cp.entropy = t.filled(24); sp.entropy = t.filled(24);
	cp.entropy.push_back(1); sp.entropy.push_back(2);
	BearClient c(cp);
	BearServer s(sp);
	VF_CHECK(c.reset() && s.reset(), "reset failed");
	Session S(&c, &s);
	S.tape = &t;
	unsigned who = t.u8();
	for (unsigned ph = 0; ph <= nreneg; ph++) {
		for (int side = 0; side < 2; side++) {
			for (unsigned i = 0; i < per_phase / 2; i++) {
				Item it;
				it.kind = IT_WRITE;
				it.len = 1 + (i * 7 + side * 3 + ph) % 40;
				it.flush = true;
				S.script[side].push_back(it);
			}
			S.script[side].push_back(Item{ IT_SYNC, ph * 2 + 1, true });
		}
		if (ph < nreneg) {
			int side = (who >> ph) & 1;
			S.script[side].push_back(Item{ IT_RENEG, 0, true });
			for (int sd = 0; sd < 2; sd++) {
				S.script[sd].push_back(Item{ IT_WAIT_EPOCH, ph + 2, true });
				S.script[sd].push_back(Item{ IT_SYNC, ph * 2 + 2, true });
			}
		}
	}
	S.script[0].push_back(Item{ IT_CLOSE, 0, true });
	std::string desc = fmt("long session %s TLS%s, %u renegotiation(s) (initiators %#x), ~%u records per phase and direction", si->name, ver_name(version), nreneg, who & 7, per_phase / 2);
	bool q = S.run(6000000);
	VF_CHECK(q && S.scripts_done(), "%s: did not finish (items left %zu/%zu, errors %d/%d, reneg results %d/%d, epochs %d/%d)", desc.c_str(),
		S.script[0].size(), S.script[1].size(), c.error(), s.error(), S.reneg_result[0], S.reneg_result[1], S.tap.epoch[0], S.tap.epoch[1]);
	VF_CHECK(c.error() == 0 && s.error() == 0, "%s: errors %d/%d", desc.c_str(), c.error(), s.error());
	uint64_t nrec = 0;
	for (int d = 0; d < 2; d++) {
		bool ok = S.tap.advance(d, true);
		// the wiretap authenticates record i of an epoch only with sequence number i
		VF_CHECK(ok && S.tap.decode_error.empty(), "%s: %s (sequence numbers must count from 0 after each key change)", desc.c_str(), S.tap.decode_error.c_str());
		VF_CHECK(S.tap.epoch[d] == (int)nreneg + 1, "%s: %d key changes in direction %d, expected %u", desc.c_str(), S.tap.epoch[d], d, nreneg + 1);
		std::set<std::pair<int, Bytes>> ivs;
		uint64_t expect_seq = 0;
		int ep = 0;
		for (auto &p : S.tap.plain[d]) {
			if (p.epoch == 0) continue;
			if (p.epoch != ep) { ep = p.epoch; expect_seq = 0; }
			VF_CHECK(p.seq == expect_seq, "%s: record sequence %llu, expected %llu", desc.c_str(), (unsigned long long)p.seq, (unsigned long long)expect_seq);
			expect_seq++;
			nrec++;
			if (wt::is_gcm(si->cipher) || wt::is_ccm(si->cipher)) {
				uint8_t be[8];
				put_be64(be, p.seq);
				VF_CHECK(p.explicit_iv.size() == 8 && memcmp(p.explicit_iv.data(), be, 8) == 0, "%s: explicit nonce %s of record with sequence %llu",
					desc.c_str(), hex(p.explicit_iv.data(), p.explicit_iv.size()).c_str(), (unsigned long long)p.seq);
			}
			if (wt::is_cbc(si->cipher) && version >= 0x0302) {
				VF_CHECK(ivs.insert(std::make_pair(p.epoch, p.explicit_iv)).second, "%s: explicit CBC IV %s repeated within direction %d, epoch %d", desc.c_str(),
					hex(p.explicit_iv.data(), p.explicit_iv.size()).c_str(), d, p.epoch);
			}
		}
		// engine counters agree (public struct fields)
	}
	VF_CHECK(S.recvd[0] == S.sent[0] && S.recvd[1] == S.sent[1], "%s: data lost (%zu/%zu, %zu/%zu)", desc.c_str(), S.recvd[0], S.sent[0], S.recvd[1], S.sent[1]);
	stats.cls(std::string("session:") + (wt::is_cbc(si->cipher) ? (version >= 0x0302 ? "cbc-explicit-iv" : "cbc-tls10") : wt::is_gcm(si->cipher) ? "gcm" : wt::is_ccm(si->cipher) ? "ccm" : "chapol"));
	stats.cls(fmt("session:renegotiations=%u", nreneg));
	stats.notes["records_checked"] = std::to_string(strtoull(stats.notes["records_checked"].c_str(), nullptr, 10) + nrec);
	stats.eval(nreneg > 0 ? fmt("sess/%04x/%04x/%u/%u/%d%d", si->id, version, nreneg, who & 7, cp.layout, sp.layout) : fmt("sess0/%04x/%04x/%d%d", si->id, version, cp.layout, sp.layout));
	if (stats.want_sample()) stats.sample(desc + fmt(" => %llu protected records authenticated with seq 0..n per epoch", (unsigned long long)nrec));
}

struct ConnView {
	Bytes cr, sr, sid, ske, cke, out[2];
	int err[2];
	bool ok;
};

static ConnView one_connection(const wt::SuiteInfo *si, unsigned version, const Bytes &ce, const Bytes &se)
{
	Profile cp, sp;
	cp.suites = { si->id }; sp.suites = { si->id };
	cp.vmin = cp.vmax = sp.vmin = sp.vmax = version;
	sp.key = keys_for(si)[0];
	cp.entropy = ce; sp.entropy = se;
	BearClient c(cp);
	BearServer s(sp);
	ConnView v;
	v.ok = c.reset() && s.reset();
	if (!v.ok) return v;
	Session S(&c, &s);
	S.keep_out = true;
	S.script[0].push_back(Item{ IT_WRITE, 20, true });
	S.script[1].push_back(Item{ IT_WRITE, 30, true });
	S.script[0].push_back(Item{ IT_WAIT_PEER_IDLE, 0, true });
	S.script[0].push_back(Item{ IT_CLOSE, 0, true });
	S.run(400000);
	v.ok = S.established && c.error() == 0 && s.error() == 0 && S.recvd[0] == 20 && S.recvd[1] == 30;
	v.err[0] = c.error(); v.err[1] = s.error();
	v.out[0] = S.all_out[0]; v.out[1] = S.all_out[1];
	// handshake messages: concatenate epoch-0 handshake records per direction and split
	for (int d = 0; d < 2; d++) {
		Bytes hs;
		for (auto &r : S.tap.recs[d]) if (r.epoch == 0 && r.type == 22) hs.insert(hs.end(), r.payload.begin(), r.payload.end());
		size_t off = 0;
		while (off + 4 <= hs.size()) {
			unsigned mt = hs[off];
			size_t ml = ((size_t)hs[off + 1] << 16) | ((size_t)hs[off + 2] << 8) | hs[off + 3];
			if (off + 4 + ml > hs.size()) break;
			const uint8_t *b = hs.data() + off + 4;
			if (d == 0 && mt == 1 && ml >= 34) v.cr.assign(b + 2, b + 34);
			if (d == 1 && mt == 2 && ml >= 35) { v.sr.assign(b + 2, b + 34); size_t sl = b[34]; if (35 + sl <= ml) v.sid.assign(b + 35, b + 35 + sl); }
			if (d == 1 && mt == 12) v.ske.assign(b, b + ml);
			if (d == 0 && mt == 16) v.cke.assign(b, b + ml);
			off += 4 + ml;
		}
	}
	return v;
}

static void cross_connections(Tape &t)
{
	static const uint16_t kx_suites[] = { 0x002F, 0xC02F, 0xC02B, 0xC013, 0x009D, 0xCCA8 };   // RSA key transport and ECDHE
	const wt::SuiteInfo *si = wt::suite_by_id(kx_suites[t.u8() % 6]);
	unsigned version = si->tls12_only ? 0x0303 : 0x0301 + t.u8() % 3;
	unsigned n = 3 + t.u8() % 3;
	std::vector<Bytes> ce, se;
	std::set<Bytes> seen;
	for (unsigned i = 0; i < n; i++) {
		// seed shapes: random, differing in one bit, differing only in length, all-zero of different lengths
		unsigned shape = t.u8() % 4;
		Bytes a;
		if (i == 0 || shape == 0) a = t.filled(1 + t.u8() % 48);
		else if (shape == 1) { a = ce[i - 1]; a[t.idx(a.size())] ^= (uint8_t)(1u << (t.u8() % 8)); }
		else if (shape == 2) { a = ce[i - 1]; a.push_back(0); }
		else a = Bytes(1 + t.u8() % 40, 0);
		if (!seen.insert(a).second) { a.push_back((uint8_t)(i + 1)); a.push_back(0xEE); seen.insert(a); stats.excluded++; }
		ce.push_back(a);
		Bytes b = a;
		b.push_back(0x53);    // server seed: related but distinct
		se.push_back(b);
	}
	std::vector<ConnView> v;
	for (unsigned i = 0; i < n; i++) {
		v.push_back(one_connection(si, version, ce[i], se[i]));
		VF_CHECK(v.back().ok, "connection %u (%s TLS%s) failed: errors %d/%d", i, si->name, ver_name(version), v.back().err[0], v.back().err[1]);
		VF_CHECK(v.back().cr.size() == 32 && v.back().sr.size() == 32 && v.back().sid.size() == 32 && !v.back().cke.empty(), "harness: could not parse the hellos");
	}
	for (unsigned i = 0; i < n; i++) for (unsigned j = i + 1; j < n; j++) {
		std::string who = fmt("%s TLS%s connections with seeds %s.. and %s..", si->name, ver_name(version), hex(ce[i].data(), ce[i].size(), 8).c_str(), hex(ce[j].data(), ce[j].size(), 8).c_str());
		VF_CHECK(memcmp(v[i].cr.data() + 4, v[j].cr.data() + 4, 28) != 0, "%s: identical client randoms", who.c_str());
		VF_CHECK(memcmp(v[i].sr.data() + 4, v[j].sr.data() + 4, 28) != 0, "%s: identical server randoms", who.c_str());
		VF_CHECK(v[i].sid != v[j].sid, "%s: identical session IDs", who.c_str());
		VF_CHECK(v[i].cke != v[j].cke, "%s: identical ClientKeyExchange (premaster / ephemeral key / padding repeated)", who.c_str());
		if (!v[i].ske.empty()) VF_CHECK(v[i].ske != v[j].ske, "%s: identical ServerKeyExchange (ephemeral EC key repeated)", who.c_str());
		stats.eval(fmt("pair/%04x/%04x/%s/%s", si->id, version, hex(ce[i].data(), ce[i].size(), 12).c_str(), hex(ce[j].data(), ce[j].size(), 12).c_str()));
	}
	// equal seeds and equal inputs: the whole exchange is reproducible
	ConnView again = one_connection(si, version, ce[0], se[0]);
	VF_CHECK(again.ok && again.out[0] == v[0].out[0] && again.out[1] == v[0].out[1], "%s TLS%s: two connections with equal seeds differ (%zu/%zu vs %zu/%zu bytes; first difference at %zu)",
		si->name, ver_name(version), again.out[0].size(), again.out[1].size(), v[0].out[0].size(), v[0].out[1].size(),
		(size_t)(std::mismatch(again.out[0].begin(), again.out[0].begin() + std::min(again.out[0].size(), v[0].out[0].size()), v[0].out[0].begin()).first - again.out[0].begin()));
	stats.eval(fmt("equal/%04x/%04x/%s", si->id, version, hex(ce[0].data(), ce[0].size(), 12).c_str()));
	stats.cls("connections:distinct-seed-pairs", (uint64_t)n * (n - 1) / 2);
	stats.cls("connections:equal-seed-pairs");
	if (stats.want_sample()) stats.sample(fmt("%u connections %s TLS%s with seeds of %zu/%zu.. bytes: all randoms, session ids, key exchanges distinct; equal seeds => identical %zu+%zu byte transcripts",
		n, si->name, ver_name(version), ce[0].size(), ce[1].size(), v[0].out[0].size(), v[0].out[1].size()));
}

// (d) a context used for several connections while the application changes its set of hash functions in between
// (the DRBG runs over SHA-256, else SHA-384, else SHA-1: a change of that choice must not lose the seed).  Two
// clients with different injected seeds and the same history: every ClientHello random differs between the two,
// and between the connections of one client.
static void reconfigured_reuse(Tape &t)
{
	unsigned start = t.u8() % 3;     // 0: all hash functions, 1: no SHA-256, 2: only MD5 + SHA-1
	unsigned nconn = 2 + t.u8() % 3;
	Bytes seedA = t.filled(1 + t.u8() % 40), seedB = seedA;
	seedB[t.idx(seedB.size())] ^= (uint8_t)(1u << (t.u8() % 8));
	std::vector<unsigned> changes;
	for (unsigned k = 1; k < nconn; k++) changes.push_back(t.u8() % 5);
	bool inject_again = t.flag();
	std::vector<Bytes> rnd[2];
	std::string hist;
	for (int who = 0; who < 2; who++) {
		Profile p;
		p.entropy.clear();
		BearClient c(p);
		br_ssl_engine_context *e = c.eng;
		if (start == 1) br_ssl_engine_set_hash(e, br_sha256_ID, nullptr);
		if (start == 2) for (int id = br_sha224_ID; id <= br_sha512_ID; id++) br_ssl_engine_set_hash(e, id, nullptr);
		const Bytes &seed = who ? seedB : seedA;
		br_ssl_engine_inject_entropy(e, seed.data(), seed.size());
		for (unsigned k = 0; k < nconn; k++) {
			if (k > 0) {
				static const char *CN[] = { "+sha256", "-sha256", "+sha384", "-sha384", "none" };
				switch (changes[k - 1]) {
				case 0: br_ssl_engine_set_hash(e, br_sha256_ID, &br_sha256_vtable); break;
				case 1: br_ssl_engine_set_hash(e, br_sha256_ID, nullptr); break;
				case 2: br_ssl_engine_set_hash(e, br_sha384_ID, &br_sha384_vtable); break;
				case 3: br_ssl_engine_set_hash(e, br_sha384_ID, nullptr); break;
				default: break;
				}
				if (who == 0) hist += fmt("%s ", CN[changes[k - 1]]);
				if (inject_again && k == 1) br_ssl_engine_inject_entropy(e, seed.data(), 1);
			}
			bool ok = c.reset();
			size_t len;
			unsigned char *out = br_ssl_engine_sendrec_buf(e, &len);
			if (!ok || !out || len < 5 + 4 + 2 + 32) { rnd[who].push_back(Bytes()); if (who == 0) hist += "reset=0 "; continue; }   // a reduced hash set may rule the handshake out: nothing emitted, nothing to compare
			VF_CHECK(out[0] == 22 && out[5] == 1, "harness: not a ClientHello");
			rnd[who].push_back(Bytes(out + 11, out + 11 + 32));
			if (who == 0) hist += "reset=1 ";
		}
	}
	std::string desc = fmt("client reused for %u connections, hash functions at start: %s, history [%s]", nconn, start == 0 ? "all" : start == 1 ? "no SHA-256" : "MD5+SHA-1 only", hist.c_str());
	unsigned compared = 0;
	for (unsigned k = 0; k < nconn; k++) {
		VF_CHECK(rnd[0][k].empty() == rnd[1][k].empty(), "%s: connection %u starts with one seed and not with the other", desc.c_str(), k);
		if (rnd[0][k].empty()) continue;
		VF_CHECK(rnd[0][k] != rnd[1][k], "%s: connection %u has the same client random %s.. for two different seeds (the generator lost its seed)", desc.c_str(), k, hex(rnd[0][k].data(), 8).c_str());
		for (unsigned j = 0; j < k; j++) if (!rnd[0][j].empty()) VF_CHECK(rnd[0][k] != rnd[0][j], "%s: connections %u and %u of the same context carry the same client random", desc.c_str(), j, k);
		compared++;
	}
	stats.cls("reconfigured-reuse");
	stats.eval(compared >= 2 ? fmt("reuse/%u/%u/%s/%d", start, nconn, hist.c_str(), (int)inject_again) : std::string());
	if (stats.want_sample()) stats.sample(desc + fmt(": %u client randoms differ across seeds and connections", compared));
}

void target_run(Tape &t)
{
	unsigned m0 = t.u8();
	if (m0 >= 232) { reconfigured_reuse(t); return; }
	unsigned m = m0 % 8;
	if (m < 3) gate_case(t);
	else if (m < 6) long_session(t);
	else cross_connections(t);
}

// Enumerator: the full gate grid, and one long session per protection mode
// and version with 0..3 renegotiations.
void target_enum(int shard, int nshards)
{
	uint64_t n = 0;
	for (unsigned server = 0; server < 2; server++)
	for (unsigned at = 0; at < 6; at++)
	for (unsigned h = 0; h < 3; h++) {
		if ((n++ % (uint64_t)nshards) != (uint64_t)shard) continue;
		enum_tape({ 0, (uint8_t)server, (uint8_t)at, (uint8_t)(at * 9 + h), 1, 2, 3, 4, (uint8_t)h });
	}
	for (unsigned s = 0; s < sizeof MODE_SUITES / sizeof MODE_SUITES[0]; s++)
	for (unsigned v = 0; v < 3; v++)
	for (unsigned r = 0; r < 4; r++) {
		if (wt::suite_by_id(MODE_SUITES[s])->tls12_only && v != 2) continue;
		if ((n++ % (uint64_t)nshards) != (uint64_t)shard) continue;
		enum_tape({ 3, (uint8_t)s, (uint8_t)v, (uint8_t)r, 0, (uint8_t)(s & 1), (uint8_t)((s >> 1) & 1), (uint8_t)(s + r), (uint8_t)(s + v),
			1, 2, 3, (uint8_t)(s + 1), 5, 6, 7, (uint8_t)(r + 1), (uint8_t)(r * 5 + s) });
	}
}
