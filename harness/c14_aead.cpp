// C14 — AEAD modes (GCM, CCM, EAX) authenticate, invert and stream
// consistently.
//
// Oracle sources: OpenSSL EVP aes-*-gcm (any nonce length) and aes-*-ccm;
// EAX written here from the EAX paper on top of OpenSSL's CMAC and a CTR
// built from single-block AES (both independent of BearSSL).  For a
// generated (mode, AES implementation, GHASH implementation, key, nonce
// length, tag length, AAD, message, split of the AAD into inject calls,
// split of the message into run calls, context reuse, EAX saved-state
// shortcut) the ciphertext and tag must equal the reference, decryption
// must invert, check_tag must pass, truncated tags must be prefixes, a
// generated single-bit change of nonce / AAD / ciphertext / tag must make
// check_tag fail, and br_ccm_reset must return 1 exactly for the parameter
// combinations RFC 3610 allows.
#include "common/vf.hpp"
#include <openssl/evp.h>
#include <openssl/core_names.h>
#include <openssl/params.h>
extern "C" {
#include "bearssl.h"
}
#include <memory>

using namespace vf;
typedef std::vector<uint8_t> Bytes;

const char *target_name = "c14_aead";
const int target_tape_min = 0, target_tape_max = 96;

// ------------------------------------------------------------ references
static const EVP_CIPHER *ecb(size_t kl) { return kl == 16 ? EVP_aes_128_ecb() : kl == 24 ? EVP_aes_192_ecb() : EVP_aes_256_ecb(); }

static bool ref_gcm(const Bytes &key, const Bytes &nonce, const Bytes &aad, const Bytes &pt, Bytes &ct, uint8_t *tag)
{
	const EVP_CIPHER *c = key.size() == 16 ? EVP_aes_128_gcm() : key.size() == 24 ? EVP_aes_192_gcm() : EVP_aes_256_gcm();
	EVP_CIPHER_CTX *x = EVP_CIPHER_CTX_new();
	int l, ok = EVP_EncryptInit_ex(x, c, nullptr, nullptr, nullptr)
		&& EVP_CIPHER_CTX_ctrl(x, EVP_CTRL_AEAD_SET_IVLEN, (int)nonce.size(), nullptr)
		&& EVP_EncryptInit_ex(x, nullptr, nullptr, key.data(), nonce.data());
	if (ok && !aad.empty()) ok = EVP_EncryptUpdate(x, nullptr, &l, aad.data(), (int)aad.size());
	ct.resize(pt.size());
	uint8_t d;
	if (ok && !pt.empty()) ok = EVP_EncryptUpdate(x, ct.data(), &l, pt.data(), (int)pt.size());
	if (ok) ok = EVP_EncryptFinal_ex(x, &d, &l);
	if (ok) ok = EVP_CIPHER_CTX_ctrl(x, EVP_CTRL_AEAD_GET_TAG, 16, tag);
	EVP_CIPHER_CTX_free(x);
	return ok != 0;
}
static bool ref_ccm(const Bytes &key, const Bytes &nonce, size_t tl, const Bytes &aad, const Bytes &pt, Bytes &ct, uint8_t *tag)
{
	const EVP_CIPHER *c = key.size() == 16 ? EVP_aes_128_ccm() : key.size() == 24 ? EVP_aes_192_ccm() : EVP_aes_256_ccm();
	EVP_CIPHER_CTX *x = EVP_CIPHER_CTX_new();
	int l, ok = EVP_EncryptInit_ex(x, c, nullptr, nullptr, nullptr)
		&& EVP_CIPHER_CTX_ctrl(x, EVP_CTRL_AEAD_SET_IVLEN, (int)nonce.size(), nullptr)
		&& EVP_CIPHER_CTX_ctrl(x, EVP_CTRL_AEAD_SET_TAG, (int)tl, nullptr)
		&& EVP_EncryptInit_ex(x, nullptr, nullptr, key.data(), nonce.data())
		&& EVP_EncryptUpdate(x, nullptr, &l, nullptr, (int)pt.size());
	if (ok && !aad.empty()) ok = EVP_EncryptUpdate(x, nullptr, &l, aad.data(), (int)aad.size());
	ct.resize(pt.size());
	uint8_t d[16];
	if (ok) ok = EVP_EncryptUpdate(x, pt.empty() ? d : ct.data(), &l, pt.empty() ? d : pt.data(), (int)pt.size()) >= 0;
	if (ok) ok = EVP_CIPHER_CTX_ctrl(x, EVP_CTRL_AEAD_GET_TAG, (int)tl, tag);
	EVP_CIPHER_CTX_free(x);
	return ok != 0;
}
static void cmac(const Bytes &key, const Bytes &msg, uint8_t *out)
{
	EVP_MAC *m = EVP_MAC_fetch(nullptr, "CMAC", nullptr);
	EVP_MAC_CTX *c = EVP_MAC_CTX_new(m);
	const char *cn = key.size() == 16 ? "AES-128-CBC" : key.size() == 24 ? "AES-192-CBC" : "AES-256-CBC";
	OSSL_PARAM p[2] = { OSSL_PARAM_construct_utf8_string(OSSL_MAC_PARAM_CIPHER, (char *)cn, 0), OSSL_PARAM_construct_end() };
	size_t ol = 0;
	if (!EVP_MAC_init(c, key.data(), key.size(), p) || !EVP_MAC_update(c, msg.data(), msg.size()) || !EVP_MAC_final(c, out, &ol, 16) || ol != 16) abort();
	EVP_MAC_CTX_free(c);
	EVP_MAC_free(m);
}
static void omac_t(const Bytes &key, uint8_t t, const Bytes &m, uint8_t *out)
{
	Bytes x(16, 0);
	x[15] = t;
	x.insert(x.end(), m.begin(), m.end());
	cmac(key, x, out);
}
static void ref_eax(const Bytes &key, const Bytes &nonce, const Bytes &aad, const Bytes &pt, Bytes &ct, uint8_t *tag)
{
	uint8_t n[16], h[16], c[16];
	omac_t(key, 0, nonce, n);
	omac_t(key, 1, aad, h);
	// CTR with the full 128-bit big-endian counter starting at n
	EVP_CIPHER_CTX *x = EVP_CIPHER_CTX_new();
	EVP_EncryptInit_ex(x, ecb(key.size()), nullptr, key.data(), nullptr);
	EVP_CIPHER_CTX_set_padding(x, 0);
	uint8_t ctr[16], ks[16];
	memcpy(ctr, n, 16);
	ct = pt;
	for (size_t u = 0; u < pt.size(); u += 16) {
		int l;
		EVP_EncryptUpdate(x, ks, &l, ctr, 16);
		for (size_t i = 0; i < 16 && u + i < pt.size(); i++) ct[u + i] ^= ks[i];
		for (int i = 15; i >= 0; i--) if (++ctr[i]) break;
	}
	EVP_CIPHER_CTX_free(x);
	omac_t(key, 2, ct, c);
	for (int i = 0; i < 16; i++) tag[i] = n[i] ^ h[i] ^ c[i];
}

// ------------------------------------------------------------ implementations
struct AesImpl { const char *name; const br_block_ctr_class *ctr; const br_block_ctrcbc_class *ctrcbc; };
static std::vector<AesImpl> aes;
struct Gh { const char *name; br_ghash f; };
static std::vector<Gh> gh;

void target_init()
{
	aes.push_back({ "big", &br_aes_big_ctr_vtable, &br_aes_big_ctrcbc_vtable });
	aes.push_back({ "small", &br_aes_small_ctr_vtable, &br_aes_small_ctrcbc_vtable });
	aes.push_back({ "ct", &br_aes_ct_ctr_vtable, &br_aes_ct_ctrcbc_vtable });
	aes.push_back({ "ct64", &br_aes_ct64_ctr_vtable, &br_aes_ct64_ctrcbc_vtable });
	if (br_aes_x86ni_ctr_get_vtable()) aes.push_back({ "x86ni", br_aes_x86ni_ctr_get_vtable(), br_aes_x86ni_ctrcbc_get_vtable() });
	gh.push_back({ "ctmul", &br_ghash_ctmul });
	gh.push_back({ "ctmul32", &br_ghash_ctmul32 });
	gh.push_back({ "ctmul64", &br_ghash_ctmul64 });
	if (br_ghash_pclmul_get()) gh.push_back({ "pclmul", br_ghash_pclmul_get() });
}

static std::vector<size_t> split(Tape &t, size_t len)
{
	std::vector<size_t> parts;
	unsigned n = t.u8() % 4;
	size_t done = 0;
	for (unsigned i = 0; i < n; i++) {
		unsigned sel = t.u8();
		size_t rem = len - done, k;
		if (sel % 4 == 0) k = 0;                               // empty call
		else if (sel % 4 == 1) k = rem ? 1 + (sel >> 2) % 16 : 0;   // inside a block
		else if (sel % 4 == 2) k = 16 * ((sel >> 2) % 4);        // whole blocks
		else k = (size_t)t.range(0, rem);
		if (k > rem) k = rem;
		parts.push_back(k);
		done += k;
	}
	parts.push_back(len - done);
	return parts;
}
static std::string shape(const std::vector<size_t> &p)
{
	std::string s;
	for (size_t k : p) s += fmt("%zu,", k);
	return s;
}
static size_t draw_len(Tape &t)
{
	return t.len(600, { 0, 1, 15, 16, 17, 31, 32, 33, 47, 48, 49, 63, 64, 65, 255, 256, 257 });
}

struct Heap {   // exact-size heap copy: overruns are visible to ASan
	std::unique_ptr<uint8_t[]> p; size_t n;
	explicit Heap(const Bytes &v) : p(new uint8_t[v.size() ? v.size() : 1]), n(v.size()) { if (n) memcpy(p.get(), v.data(), n); }
	Bytes bytes() const { return Bytes(p.get(), p.get() + n); }
};

// run one BearSSL AEAD computation through the generic vtable or the
// mode's own functions; returns ciphertext/plaintext, fills tag
struct Run {
	Bytes out;
	uint8_t tag[16];
	uint32_t check = 2;
};

static void run_case(Tape &t)
{
	unsigned mode = t.u8() % 3;
	const AesImpl &ai = aes[t.u8() % aes.size()];
	const Gh &g = gh[t.u8() % gh.size()];
	size_t kl = t.pick<size_t>({ 16, 24, 32 });
	Bytes key = t.filled(kl);
	size_t nl = mode == 1 ? 7 + t.u8() % 7 : t.len(64, { 12, 16, 1, 8, 13, 32, 64 });
	if (mode != 1 && nl == 0) nl = 1;
	size_t tl = mode == 1 ? 4 + 2 * (t.u8() % 7) : 16;
	Bytes nonce = t.filled(nl);
	bool crafted_nonce = false;
	if (mode == 2 && t.u8() % 4 == 0) {
		// EAX: a 16-byte nonce chosen so that the initial CTR value OMAC^0(nonce) sits just below a carry boundary of
		// the 128-bit counter (random nonces reach that with probability ~2^-27).  OMAC^0(N) for one full block is
		// E(E(0^127 || 0) ^ N ^ K1) with K1 = dbl(E(0)), hence N = D(target) ^ E(0..0) ^ K1... (first block is [0]_128)
		auto ecb1 = [&](const uint8_t *in, uint8_t *out, bool enc) {
			EVP_CIPHER_CTX *x = EVP_CIPHER_CTX_new();
			int ol = 0;
			EVP_CipherInit_ex(x, ecb(kl), nullptr, key.data(), nullptr, enc ? 1 : 0);
			EVP_CIPHER_CTX_set_padding(x, 0);
			EVP_CipherUpdate(x, out, &ol, in, 16);
			EVP_CIPHER_CTX_free(x);
		};
		uint8_t zero[16] = { 0 }, L[16], K1[16], target[16], dt[16];
		ecb1(zero, L, true);
		unsigned carry = 0;
		for (int i = 15; i >= 0; i--) { unsigned v = ((unsigned)L[i] << 1) | carry; K1[i] = (uint8_t)v; carry = v >> 8; }
		if (carry) K1[15] ^= 0x87;
		t.fill(target, 16);
		unsigned cls = t.u8() % 4;
		uint8_t back = (uint8_t)(1 + t.u8() % 40);
		size_t nff = cls == 0 ? 4 : cls == 1 ? 8 : cls == 2 ? 12 : 16;
		memset(target + 16 - nff, 0xFF, nff);
		target[15] = (uint8_t)(0xFF - back);
		ecb1(target, dt, false);
		// first OMAC block is the 16-byte encoding of t = 0, whose encryption is L
		nonce.assign(16, 0);
		for (int i = 0; i < 16; i++) nonce[(size_t)i] = dt[i] ^ L[i] ^ K1[i];
		nl = 16;
		crafted_nonce = true;
	}
	size_t al = draw_len(t), ml = draw_len(t);
	// CCM encodes the AAD length in 2 bytes below 0xFF00, in 6 bytes (FF FE + 32 bits) from there on
	if (mode == 1 && t.u8() % 64 == 0) al = t.pick<size_t>({ 0xFEFF, 0xFF00, 0xFF01, 0xFFFF, 0x10000, 0x10001 });
	Bytes aad = t.filled(al), msg = t.filled(ml);
	std::vector<size_t> asp = split(t, al), msp = split(t, ml);
	unsigned shortcut = mode == 2 ? t.u8() % 3 : 0;      // EAX: 0 plain, 1 pre-AAD state, 2 post-AAD state
	if (shortcut && (al == 0 || ml == 0)) shortcut = 0;  // documented: shortcuts need >= 1 byte of AAD (pre) and of message
	bool reuse = t.flag();                               // a first message on the same context before ours
	static const char *mn[] = { "GCM", "CCM", "EAX" };
	std::string desc = fmt("%s aes_%s%s key=%zu nonce=%zu tag=%zu aad=%zu[%s] msg=%zu[%s]%s%s", mn[mode], ai.name, mode == 0 ? (std::string("/ghash_") + g.name).c_str() : "",
		kl, nl, tl, al, shape(asp).c_str(), ml, shape(msp).c_str(), shortcut == 1 ? " eax-pre-aad-state" : shortcut == 2 ? " eax-post-aad-state" : "", reuse ? " reused-context" : "");
	if (crafted_nonce) { desc += " nonce-crafted-for-counter-carry"; stats.cls("eax-counter-carry-nonce"); }

	// reference
	Bytes rct;
	uint8_t rtag[16];
	if (mode == 0) VF_CHECK(ref_gcm(key, nonce, aad, msg, rct, rtag), "harness: OpenSSL GCM failed");
	else if (mode == 1) VF_CHECK(ref_ccm(key, nonce, tl, aad, msg, rct, rtag), "harness: OpenSSL CCM failed for %s", desc.c_str());
	else ref_eax(key, nonce, aad, msg, rct, rtag);

	union { br_aes_gen_ctr_keys c; br_aes_gen_ctrcbc_keys d; } kc;
	memset(&kc, 0x3C, sizeof kc);
	union { br_gcm_context g; br_ccm_context c; br_eax_context e; } ac;
	memset(&ac, 0x7E, sizeof ac);
	br_eax_state est;
	if (mode == 0) { ai.ctr->init(&kc.c.vtable, key.data(), kl); br_gcm_init(&ac.g, &kc.c.vtable, g.f); }
	else { ai.ctrcbc->init(&kc.d.vtable, key.data(), kl); if (mode == 1) br_ccm_init(&ac.c, &kc.d.vtable); else br_eax_init(&ac.e, &kc.d.vtable); }
	if (mode == 2) br_eax_capture(&ac.e, &est);

	// fin: 0 = get_tag, 1 = check_tag against ftag (flen bytes), 2 = get_tag_trunc(flen).  One of them ends the run:
	// the header says the run is terminated by the tag computation, so each variant needs its own run.
	auto do_run = [&](bool encrypt, const Bytes &n2, const Bytes &a2, const Bytes &in, const std::vector<size_t> &as2, const std::vector<size_t> &ms2, unsigned sc, Run &r,
		int fin = 0, const uint8_t *ftag = nullptr, size_t flen = 16) {
		Heap hn(n2), ha(a2), hd(in);
		if (mode == 0) {
			br_gcm_reset(&ac.g, hn.p.get(), n2.size());
			size_t o = 0;
			for (size_t k : as2) { br_gcm_aad_inject(&ac.g, ha.p.get() + o, k); o += k; }
			br_gcm_flip(&ac.g);
			o = 0;
			for (size_t k : ms2) { br_gcm_run(&ac.g, encrypt, hd.p.get() + o, k); o += k; }
			if (fin == 0) br_gcm_get_tag(&ac.g, r.tag);
			else if (fin == 1) r.check = flen == 16 ? br_gcm_check_tag(&ac.g, ftag) : br_gcm_check_tag_trunc(&ac.g, ftag, flen);
			else br_gcm_get_tag_trunc(&ac.g, r.tag, flen);
		} else if (mode == 1) {
			int ok = br_ccm_reset(&ac.c, hn.p.get(), n2.size(), a2.size(), in.size(), tl);
			VF_CHECK(ok == 1, "%s: br_ccm_reset refused admissible parameters", desc.c_str());
			size_t o = 0;
			for (size_t k : as2) { br_ccm_aad_inject(&ac.c, ha.p.get() + o, k); o += k; }
			br_ccm_flip(&ac.c);
			o = 0;
			for (size_t k : ms2) { br_ccm_run(&ac.c, encrypt, hd.p.get() + o, k); o += k; }
			memset(r.tag, 0, 16);
			if (fin == 1) r.check = br_ccm_check_tag(&ac.c, ftag);
			else {
				size_t got = br_ccm_get_tag(&ac.c, r.tag);
				VF_CHECK(got == tl, "%s: br_ccm_get_tag returned %zu", desc.c_str(), got);
			}
		} else {
			if (sc == 1) br_eax_reset_pre_aad(&ac.e, &est, hn.p.get(), n2.size());
			else if (sc == 2) br_eax_reset_post_aad(&ac.e, &est, hn.p.get(), n2.size());
			else br_eax_reset(&ac.e, hn.p.get(), n2.size());
			if (sc != 2) {
				size_t o = 0;
				for (size_t k : as2) { br_eax_aad_inject(&ac.e, ha.p.get() + o, k); o += k; }
				br_eax_flip(&ac.e);
			}
			size_t o = 0;
			for (size_t k : ms2) { br_eax_run(&ac.e, encrypt, hd.p.get() + o, k); o += k; }
			if (fin == 0) br_eax_get_tag(&ac.e, r.tag);
			else if (fin == 1) r.check = flen == 16 ? br_eax_check_tag(&ac.e, ftag) : br_eax_check_tag_trunc(&ac.e, ftag, flen);
			else br_eax_get_tag_trunc(&ac.e, r.tag, flen);
		}
		if (fin == 1) VF_CHECK(r.check == 0 || r.check == 1, "%s: check_tag returned %u", desc.c_str(), r.check);
		r.out = hd.bytes();
		VF_CHECK(ha.bytes() == a2 && hn.bytes() == n2, "%s: AAD or nonce buffer modified", desc.c_str());
	};
	if (reuse) {
		// an unrelated first message on the same context
		Run r0;
		Bytes n0 = nonce, a0(7, 0x11), m0(21, 0x22);
		n0[0] ^= 0xFF;
		do_run(true, n0, a0, m0, { 3, 4 }, { 21 }, 0, r0);
	}
	if (shortcut == 2) {
		// post-AAD state: obtained from a run over the same AAD (any nonce)
		Run r0;
		Bytes n0 = nonce;
		n0[0] ^= 0x55;
		do_run(true, n0, aad, Bytes(1, 0), { al }, { 1 }, 0, r0);
		br_eax_get_aad_mac(&ac.e, &est);
	}
	// (1) encryption equals the reference, whatever the split
	Run re;
	do_run(true, nonce, aad, msg, asp, msp, shortcut, re);
	VF_CHECK(re.out == rct, "%s: ciphertext differs from the reference (first difference at %zu)", desc.c_str(),
		(size_t)(std::mismatch(re.out.begin(), re.out.end(), rct.begin()).first - re.out.begin()));
	VF_CHECK(memcmp(re.tag, rtag, tl) == 0, "%s: tag %s differs from the reference %s", desc.c_str(), hex(re.tag, tl).c_str(), hex(rtag, tl).c_str());
	{
		Run rc;
		do_run(true, nonce, aad, msg, asp, msp, shortcut, rc, 1, rtag, tl);
		VF_CHECK(rc.check == 1, "%s: check_tag rejects the correct tag after encryption", desc.c_str());
	}
	if (mode != 1) {
		size_t tn = 4 + t.u8() % 13;
		Run rt;
		do_run(true, nonce, aad, msg, asp, msp, shortcut, rt, 2, nullptr, tn);
		VF_CHECK(memcmp(rt.tag, rtag, tn) == 0, "%s: %zu-byte truncated tag is not a prefix of the tag", desc.c_str(), tn);
		do_run(false, nonce, aad, rct, asp, msp, shortcut, rt, 1, rtag, tn);
		VF_CHECK(rt.check == 1, "%s: check_tag_trunc(%zu) rejects the correct tag", desc.c_str(), tn);
		uint8_t bad[16];
		memcpy(bad, rtag, 16);
		bad[tn - 1] ^= 0x80;
		do_run(false, nonce, aad, rct, asp, msp, shortcut, rt, 1, bad, tn);
		VF_CHECK(rt.check == 0, "%s: check_tag_trunc(%zu) accepts a tag whose last compared byte is wrong", desc.c_str(), tn);
	}
	// (2) decryption inverts and authenticates (single-call split, to cross the two)
	Run rd;
	do_run(false, nonce, aad, rct, { al }, { ml }, shortcut, rd, 1, rtag, tl);
	VF_CHECK(rd.out == msg, "%s: decryption does not return the message", desc.c_str());
	VF_CHECK(rd.check == 1, "%s: check_tag fails on an untampered message", desc.c_str());
	// (2b) and so does decryption with the generated split (for CCM the MAC runs over the *plaintext*, so a partial block carried from
	// one run() call to the next is handled differently for the two directions)
	if (asp.size() > 1 || msp.size() > 1) {
		Run rs;
		do_run(false, nonce, aad, rct, asp, msp, shortcut, rs, 1, rtag, tl);
		VF_CHECK(rs.out == msg, "%s: split decryption does not return the message (first difference at %zu)", desc.c_str(),
			(size_t)(std::mismatch(rs.out.begin(), rs.out.end(), msg.begin()).first - rs.out.begin()));
		VF_CHECK(rs.check == 1, "%s: check_tag fails on an untampered message decrypted in several run() calls", desc.c_str());
		Run rg;
		do_run(false, nonce, aad, rct, asp, msp, shortcut, rg);
		VF_CHECK(memcmp(rg.tag, rtag, tl) == 0, "%s: tag computed while decrypting in several run() calls is %s, reference %s", desc.c_str(), hex(rg.tag, tl).c_str(), hex(rtag, tl).c_str());
		stats.cls("split-decryption");
	}
	// (4) one generated single-bit change -> check_tag must fail
	{
		unsigned where = t.u8() % 4, pos = t.u16(), bit = t.u8() % 8;
		Bytes n2 = nonce, a2 = aad, c2 = rct;
		uint8_t t2[16];
		memcpy(t2, rtag, 16);
		const char *wn = "tag";
		if (where == 0) { n2[pos % nl] ^= (uint8_t)(1 << bit); wn = "nonce"; }
		else if (where == 1 && al) { a2[pos % al] ^= (uint8_t)(1 << bit); wn = "aad"; }
		else if (where == 2 && ml) { c2[pos % ml] ^= (uint8_t)(1 << bit); wn = "ciphertext"; }
		else t2[pos % tl] ^= (uint8_t)(1 << bit);
		Run rx;
		unsigned sc = shortcut == 2 && where == 1 ? 0 : shortcut;   // a changed AAD cannot reuse the saved AAD state
		do_run(false, n2, a2, c2, asp, msp, sc, rx, 1, t2, tl);
		VF_CHECK(rx.check == 0, "%s: check_tag accepts after flipping bit %u of %s byte %u", desc.c_str(), bit, wn, pos);
		stats.cls(std::string("flip:") + wn);
	}
	bool nontriv = al > 0 && ml > 0 && (asp.size() > 1 || msp.size() > 1);
	stats.cls(mn[mode]);
	if (shortcut) stats.cls(shortcut == 1 ? "eax:pre-aad" : "eax:post-aad");
	stats.eval(nontriv ? fmt("%u/%s/%zu/%zu/%zu/%zu/%zu/%s/%s/%u", mode, ai.name, kl, nl, tl, al % 16, ml % 16, shape(asp).c_str(), shape(msp).c_str(), shortcut) : std::string());
	if (stats.want_sample()) stats.sample(desc);
}

// (5) br_ccm_reset accepts exactly what RFC 3610 allows
static void ccm_params(Tape &t)
{
	const AesImpl &ai = aes[t.u8() % aes.size()];
	Bytes key = t.filled(16);
	br_aes_gen_ctrcbc_keys kc;
	ai.ctrcbc->init(&kc.vtable, key.data(), 16);
	br_ccm_context c;
	br_ccm_init(&c, &kc.vtable);
	size_t nl = t.u8() % 20, tl = t.u8() % 20;
	unsigned dsel = t.u8() % 6;
	uint64_t dl = dsel == 0 ? 0 : dsel == 1 ? 65535 : dsel == 2 ? 65536 : dsel == 3 ? 16777216 : dsel == 4 ? 16777215 : t.u32();
	uint8_t nonce[32] = { 1, 2, 3 };
	int r = br_ccm_reset(&c, nonce, nl, t.u16(), (size_t)dl, tl);
	bool ok_nonce = nl >= 7 && nl <= 13;
	bool ok_tag = tl >= 4 && tl <= 16 && (tl & 1) == 0;
	unsigned L = ok_nonce ? 15 - (unsigned)nl : 8;
	bool ok_len = L >= 8 || dl < ((uint64_t)1 << (8 * L));
	int want = ok_nonce && ok_tag && ok_len;
	VF_CHECK(r == want, "br_ccm_reset(nonce_len=%zu, data_len=%llu, tag_len=%zu) returned %d; RFC 3610 says %d (nonce 7..13, even tag 4..16, length < 2^(8*(15-nonce_len)))",
		nl, (unsigned long long)dl, tl, r, want);
	stats.cls(want ? "ccm-reset:allowed" : "ccm-reset:forbidden");
	stats.eval(fmt("ccmp/%zu/%zu/%u", nl, tl, dsel));
}

void target_run(Tape &t)
{
	unsigned k = t.u8();
	if (k % 8 == 7) ccm_params(t); else run_case(t);
}

// Enumerator: every two-way split of AAD and message for lengths <= 40
// (quick) / 80 (thorough), per mode, with one implementation each.
void target_enum(int shard, int nshards)
{
	size_t maxl = tier_thorough() ? 80 : 40;
	uint64_t n = 0;
	for (unsigned mode = 0; mode < 3; mode++)
	for (size_t al = 0; al <= maxl; al += (al < 34 ? 1 : 7))
	for (size_t cut = 0; cut <= al; cut++) {
		if ((n++ % (uint64_t)nshards) != (uint64_t)shard) continue;
		size_t ml = (al * 7 + cut) % (maxl + 1);
		// tape: kind, mode, aes, ghash, keylen idx, key seed(4), [nonce: ccm u8 | len sel + (range)] ...
		std::vector<uint8_t> tp = { 0, (uint8_t)mode, (uint8_t)(al % 5), (uint8_t)(cut % 4), (uint8_t)(al % 3), 9, 9, 9, 9 };
		if (mode == 1) { tp.push_back((uint8_t)(al % 7)); tp.push_back((uint8_t)(cut % 7)); }
		else { tp.push_back(1); }   // interesting nonce length #0 = 12
		tp.insert(tp.end(), { 5, 5, 5, 5 });                       // nonce seed
		tp.push_back(0); tp.push_back((uint8_t)(al >> 8)); tp.push_back((uint8_t)al);   // aad len via range
		tp.push_back(0); tp.push_back((uint8_t)(ml >> 8)); tp.push_back((uint8_t)ml);   // msg len
		tp.insert(tp.end(), { 3, 3, 3, 3, 4, 4, 4, 4 });           // aad / msg seeds
		// aad split: one cut of `cut` bytes: n=1, sel%4==3 -> range(0, rem)
		tp.push_back(1); tp.push_back(3);
		if (al < 256) tp.push_back((uint8_t)cut); else { tp.push_back((uint8_t)(cut >> 8)); tp.push_back((uint8_t)cut); }
		// msg split: one cut in the middle
		tp.push_back(1); tp.push_back(3);
		if (ml < 256) tp.push_back((uint8_t)(ml / 2)); else { tp.push_back(0); tp.push_back((uint8_t)(ml / 2)); }
		if (mode == 2) tp.push_back(0);
		tp.push_back(0);
		enum_tape(tp);
	}
}
