// C13 — hashes, HMAC, PRFs, KDFs and DRBGs match their standards for any
// call pattern.
//
// Reference: OpenSSL EVP digests (incl. SHAKE XOF), HMAC, EVP_KDF TLS1-PRF
// and HKDF; the low-level OpenSSL contexts (MD5_CTX, SHA_CTX, SHA256_CTX,
// SHA512_CTX) loaded with an explicit chaining state and bit count for the
// state()/set_state() round trip near the 2^32-bit carry; MGF1, HMAC_DRBG
// (SP 800-90A, no prediction resistance, on OpenSSL HMAC) and AESCTR_DRBG
// (the construction documented in aesctr_drbg.c, on OpenSSL AES) written in
// the harness.
#include "common/vf.hpp"
#define OPENSSL_SUPPRESS_DEPRECATED
#include <openssl/evp.h>
#include <openssl/hmac.h>
#include <openssl/kdf.h>
#include <openssl/core_names.h>
#include <openssl/params.h>
#include <openssl/md5.h>
#include <openssl/sha.h>
extern "C" {
#include "bearssl.h"
void br_mgf1_xor(void *data, size_t len, const br_hash_class *dig, const void *seed, size_t seed_len);
}

using namespace vf;
typedef std::vector<uint8_t> Bytes;

const char *target_name = "c13_hash";
const int target_tape_min = 0, target_tape_max = 80;

struct HashDef { const char *name; const br_hash_class *cls; const EVP_MD *(*md)(void); size_t outlen, block; int id; };
static const HashDef HASHES[] = {
	{ "md5", &br_md5_vtable, EVP_md5, 16, 64, br_md5_ID },
	{ "sha1", &br_sha1_vtable, EVP_sha1, 20, 64, br_sha1_ID },
	{ "sha224", &br_sha224_vtable, EVP_sha224, 28, 64, br_sha224_ID },
	{ "sha256", &br_sha256_vtable, EVP_sha256, 32, 64, br_sha256_ID },
	{ "sha384", &br_sha384_vtable, EVP_sha384, 48, 128, br_sha384_ID },
	{ "sha512", &br_sha512_vtable, EVP_sha512, 64, 128, br_sha512_ID },
	{ "md5sha1", &br_md5sha1_vtable, nullptr, 36, 64, 0 },
};

static void ref_digest(const HashDef &h, const uint8_t *d, size_t n, uint8_t *out)
{
	unsigned l;
	if (h.md) { if (!EVP_Digest(d, n, out, &l, h.md(), nullptr)) abort(); }
	else { EVP_Digest(d, n, out, &l, EVP_md5(), nullptr); EVP_Digest(d, n, out + 16, &l, EVP_sha1(), nullptr); }
}

static size_t msg_len(Tape &t)
{
	return t.len(1100, { 0, 1, 55, 56, 57, 63, 64, 65, 111, 112, 113, 119, 120, 121, 127, 128, 129, 183, 184, 191, 192, 193, 247, 248, 255, 256, 257, 1023, 1024 });
}
static std::vector<size_t> parts(Tape &t, size_t len, unsigned maxcuts = 4)
{
	std::vector<size_t> p;
	unsigned n = t.u8() % (maxcuts + 1);
	size_t done = 0;
	for (unsigned i = 0; i < n; i++) {
		unsigned sel = t.u8();
		size_t rem = len - done;
		size_t k = sel % 5 == 0 ? 0 : sel % 5 == 1 ? 1 : sel % 5 == 2 ? 64 - (done % 64) : sel % 5 == 3 ? (size_t)(sel >> 3) : (size_t)t.range(0, rem);
		if (k > rem) k = rem;
		p.push_back(k);
		done += k;
	}
	p.push_back(len - done);
	return p;
}
static std::string shape(const std::vector<size_t> &p) { std::string s; for (size_t k : p) s += fmt("%zu,", k); return s; }

// ---------------------------------------------------------------- hashes
static void k_hash(Tape &t)
{
	const HashDef &h = HASHES[t.u8() % 7];
	size_t n = msg_len(t);
	Bytes m = t.filled(n);
	std::vector<size_t> ps = parts(t, n);
	bool inter = t.flag(), restore = t.flag();
	br_hash_compat_context hc, hc2;
	memset(&hc, 0xAA, sizeof hc);
	h.cls->init(&hc.vtable);
	size_t off = 0;
	uint8_t got[64], want[64];
	std::string desc = fmt("%s len=%zu updates=[%s]%s%s", h.name, n, shape(ps).c_str(), inter ? " +intermediate-out" : "", restore ? " +state-restore" : "");
	bool restored = false;
	for (size_t k : ps) {
		h.cls->update(&hc.vtable, m.data() + off, k);
		off += k;
		if (inter) {
			// an intermediate output equals the digest of the prefix and does not disturb the computation
			h.cls->out(&hc.vtable, got);
			ref_digest(h, m.data(), off, want);
			VF_CHECK(memcmp(got, want, h.outlen) == 0, "%s: intermediate out() after %zu bytes differs from the digest of the prefix", desc.c_str(), off);
		}
		if (restore && !restored && off % h.block == 0) {
			// save the state at a block boundary, restore into a fresh context, continue there
			uint8_t st[64];
			memset(st, 0, sizeof st);
			uint64_t cnt = h.cls->state(&hc.vtable, st);
			VF_CHECK(cnt == off, "%s: state() returned count %llu after %zu bytes", desc.c_str(), (unsigned long long)cnt, off);
			memset(&hc2, 0x55, sizeof hc2);
			h.cls->init(&hc2.vtable);
			h.cls->set_state(&hc2.vtable, st, cnt);
			memcpy(&hc, &hc2, sizeof hc);
			restored = true;
		}
	}
	h.cls->out(&hc.vtable, got);
	ref_digest(h, m.data(), n, want);
	VF_CHECK(memcmp(got, want, h.outlen) == 0, "%s: digest %s, standard value %s", desc.c_str(), hex(got, h.outlen).c_str(), hex(want, h.outlen).c_str());
	VF_CHECK(((h.cls->desc >> BR_HASHDESC_OUT_OFF) & BR_HASHDESC_OUT_MASK) == h.outlen, "%s: output size in the class descriptor", desc.c_str());
	unsigned nonempty = 0;
	for (size_t k : ps) nonempty += k != 0;
	stats.cls(std::string("hash:") + h.name);
	stats.eval((nonempty >= 2 || restored) ? fmt("h/%s/%zu/%s/%d%d", h.name, n, shape(ps).c_str(), inter, restored) : std::string());
	if (stats.want_sample()) stats.sample(desc);
}

// state with an arbitrary chaining value and a count near the 2^32-bit (and 2^64-bit) carry
static void k_carry(Tape &t)
{
	unsigned hi = t.u8() % 6;
	const HashDef &h = HASHES[hi];
	size_t stlen = hi == 0 ? 16 : hi == 1 ? 20 : hi <= 3 ? 32 : 64;
	Bytes st = t.filled(stlen);
	unsigned csel = t.u8() % 5;
	uint64_t blocks;
	uint64_t bpb = h.block;
	switch (csel) {
	case 0: blocks = ((uint64_t)1 << 29) / bpb - 1 - t.u8() % 3; break;        // just below 2^32 bits
	case 1: blocks = ((uint64_t)1 << 29) / bpb; break;
	case 2: blocks = ((uint64_t)1 << 32) / bpb - 1; break;
	case 3: blocks = ((uint64_t)1 << 61) / bpb - 1 - t.u8() % 2; break;        // just below 2^64 bits
	default: blocks = t.u32(); break;
	}
	uint64_t count = blocks * bpb;
	size_t n = t.len(300, { 0, 1, 55, 56, 63, 64, 65, 111, 112, 127, 128, 129 });
	Bytes m = t.filled(n);
	br_hash_compat_context hc;
	h.cls->init(&hc.vtable);
	h.cls->set_state(&hc.vtable, st.data(), count);
	h.cls->update(&hc.vtable, m.data(), n);
	uint8_t got[64], want[64];
	h.cls->out(&hc.vtable, got);
	uint64_t bits_lo = count << 3, bits_hi = count >> 61;
	auto be32 = [](const uint8_t *p) { return ((uint32_t)p[0] << 24) | ((uint32_t)p[1] << 16) | ((uint32_t)p[2] << 8) | p[3]; };
	auto le32 = [](const uint8_t *p) { return ((uint32_t)p[3] << 24) | ((uint32_t)p[2] << 16) | ((uint32_t)p[1] << 8) | p[0]; };
	auto be64 = [&](const uint8_t *p) { return ((uint64_t)be32(p) << 32) | be32(p + 4); };
	if (hi == 0) {
		MD5_CTX c; MD5_Init(&c);
		c.A = le32(st.data()); c.B = le32(st.data() + 4); c.C = le32(st.data() + 8); c.D = le32(st.data() + 12);
		c.Nl = (uint32_t)bits_lo; c.Nh = (uint32_t)(bits_lo >> 32);
		MD5_Update(&c, m.data(), n); MD5_Final(want, &c);
	} else if (hi == 1) {
		SHA_CTX c; SHA1_Init(&c);
		c.h0 = be32(st.data()); c.h1 = be32(st.data() + 4); c.h2 = be32(st.data() + 8); c.h3 = be32(st.data() + 12); c.h4 = be32(st.data() + 16);
		c.Nl = (uint32_t)bits_lo; c.Nh = (uint32_t)(bits_lo >> 32);
		SHA1_Update(&c, m.data(), n); SHA1_Final(want, &c);
	} else if (hi <= 3) {
		SHA256_CTX c;
		if (hi == 2) SHA224_Init(&c); else SHA256_Init(&c);
		for (int i = 0; i < 8; i++) c.h[i] = be32(st.data() + 4 * i);
		c.Nl = (uint32_t)bits_lo; c.Nh = (uint32_t)(bits_lo >> 32);
		if (hi == 2) { SHA224_Update(&c, m.data(), n); SHA224_Final(want, &c); } else { SHA256_Update(&c, m.data(), n); SHA256_Final(want, &c); }
	} else {
		SHA512_CTX c;
		if (hi == 4) SHA384_Init(&c); else SHA512_Init(&c);
		for (int i = 0; i < 8; i++) c.h[i] = be64(st.data() + 8 * i);
		c.Nl = bits_lo; c.Nh = bits_hi;
		if (hi == 4) { SHA384_Update(&c, m.data(), n); SHA384_Final(want, &c); } else { SHA512_Update(&c, m.data(), n); SHA512_Final(want, &c); }
	}
	VF_CHECK(memcmp(got, want, h.outlen) == 0, "%s: set_state(count=%llu bytes) + %zu bytes: digest %s, reference %s (length carry)", h.name,
		(unsigned long long)count, n, hex(got, h.outlen).c_str(), hex(want, h.outlen).c_str());
	// state() gives back what was set
	br_hash_compat_context h2;
	h.cls->init(&h2.vtable);
	h.cls->set_state(&h2.vtable, st.data(), count);
	uint8_t st2[64];
	uint64_t c2 = h.cls->state(&h2.vtable, st2);
	VF_CHECK(c2 == count && memcmp(st2, st.data(), stlen) == 0, "%s: state() after set_state() returns another state/count", h.name);
	stats.cls("carry");
	stats.eval(fmt("c/%s/%u/%zu", h.name, csel, n));
	if (stats.want_sample()) stats.sample(fmt("%s set_state count=%llu then %zu bytes", h.name, (unsigned long long)count, n));
}

static void k_multihash(Tape &t)
{
	unsigned mask = 1 + t.u8() % 63;
	size_t n = msg_len(t);
	Bytes m = t.filled(n);
	std::vector<size_t> ps = parts(t, n);
	br_multihash_context mc;
	br_multihash_zero(&mc);
	for (int i = 0; i < 6; i++) if (mask & (1u << i)) br_multihash_setimpl(&mc, HASHES[i].id, HASHES[i].cls);
	br_multihash_init(&mc);
	size_t off = 0;
	for (size_t k : ps) { br_multihash_update(&mc, m.data() + off, k); off += k; }
	for (int i = 0; i < 6; i++) {
		uint8_t got[64], want[64];
		memset(got, 0, 64);
		size_t r = br_multihash_out(&mc, HASHES[i].id, got);
		if (mask & (1u << i)) {
			ref_digest(HASHES[i], m.data(), n, want);
			VF_CHECK(r == HASHES[i].outlen && memcmp(got, want, r) == 0, "multihash mask=%#x len=%zu [%s]: %s output differs from the standard digest", mask, n, shape(ps).c_str(), HASHES[i].name);
		} else VF_CHECK(r == 0, "multihash: out() for an unconfigured function returned %zu", r);
	}
	stats.cls("multihash");
	stats.eval(ps.size() > 1 ? fmt("mh/%u/%zu/%s", mask, n, shape(ps).c_str()) : std::string());
}

static void k_shake(Tape &t)
{
	int lvl = t.flag() ? 256 : 128;
	size_t n = t.len(700, { 0, 1, 135, 136, 137, 167, 168, 169, 271, 272, 335, 336, 337 });
	Bytes m = t.filled(n);
	std::vector<size_t> ps = parts(t, n);
	size_t outl = t.len(700, { 0, 1, 135, 136, 137, 167, 168, 169, 336, 337 });
	std::vector<size_t> os = parts(t, outl);
	br_shake_context sc;
	br_shake_init(&sc, lvl);
	size_t off = 0;
	for (size_t k : ps) { br_shake_inject(&sc, m.data() + off, k); off += k; }
	br_shake_flip(&sc);
	Bytes got = zbuf(outl), want(outl ? outl : 1);
	off = 0;
	for (size_t k : os) { br_shake_produce(&sc, got.data() + off, k); off += k; }
	EVP_MD_CTX *c = EVP_MD_CTX_new();
	if (!EVP_DigestInit_ex(c, lvl == 128 ? EVP_shake128() : EVP_shake256(), nullptr) || !EVP_DigestUpdate(c, m.data(), n) || !EVP_DigestFinalXOF(c, want.data(), outl ? outl : 1)) abort();
	EVP_MD_CTX_free(c);
	VF_CHECK(memcmp(got.data(), want.data(), outl) == 0, "SHAKE%d in=%zu[%s] out=%zu[%s]: output differs from FIPS 202 (first difference at %zu)", lvl, n, shape(ps).c_str(), outl, shape(os).c_str(),
		(size_t)(std::mismatch(got.begin(), got.end(), want.begin()).first - got.begin()));
	stats.cls("shake");
	stats.eval((ps.size() > 1 || os.size() > 1) ? fmt("sk/%d/%zu/%zu/%s/%s", lvl, n, outl, shape(ps).c_str(), shape(os).c_str()) : std::string());
	if (stats.want_sample()) stats.sample(fmt("SHAKE%d in=%zu[%s] out=%zu[%s]", lvl, n, shape(ps).c_str(), outl, shape(os).c_str()));
}

static void k_hmac(Tape &t)
{
	const HashDef &h = HASHES[t.u8() % 6];
	size_t kl = t.len(200, { 0, 1, 63, 64, 65, 127, 128, 129 });
	Bytes key = t.filled(kl);
	size_t n = msg_len(t);
	Bytes m = t.filled(n);
	std::vector<size_t> ps = parts(t, n);
	size_t ol = t.u8() % (h.outlen + 1);
	br_hmac_key_context kc;
	br_hmac_context hc;
	br_hmac_key_init(&kc, h.cls, key.data(), kl);
	br_hmac_init(&hc, &kc, ol);
	size_t off = 0;
	for (size_t k : ps) { br_hmac_update(&hc, m.data() + off, k); off += k; }
	uint8_t got[64], want[64];
	unsigned wl;
	size_t r = br_hmac_out(&hc, got);
	HMAC(h.md(), key.data(), (int)kl, m.data(), n, want, &wl);
	size_t expect_len = ol == 0 ? h.outlen : ol;
	VF_CHECK(r == expect_len && br_hmac_size(&hc) == expect_len, "HMAC-%s: output length %zu, want %zu", h.name, r, expect_len);
	VF_CHECK(memcmp(got, want, expect_len) == 0, "HMAC-%s key=%zu len=%zu [%s]: %s, reference %s", h.name, kl, n, shape(ps).c_str(), hex(got, expect_len).c_str(), hex(want, expect_len).c_str());
	// the computation is not disturbed by out(): more data, same context
	Bytes more = t.filled(t.u8() % 70);
	br_hmac_update(&hc, more.data(), more.size());
	br_hmac_out(&hc, got);
	Bytes all = m;
	all.insert(all.end(), more.begin(), more.end());
	HMAC(h.md(), key.data(), (int)kl, all.data(), all.size(), want, &wl);
	VF_CHECK(memcmp(got, want, expect_len) == 0, "HMAC-%s: out() disturbed the running computation", h.name);
	stats.cls("hmac");
	stats.eval(fmt("hm/%s/%d/%zu/%s", h.name, kl > h.block ? 2 : kl == h.block ? 1 : 0, n, shape(ps).c_str()));
}

static void check_outct(const HashDef &h, const Bytes &key, const Bytes &pre, const Bytes &data, size_t len, size_t minl, size_t maxl)
{
	br_hmac_key_context kc;
	br_hmac_context hc;
	br_hmac_key_init(&kc, h.cls, key.data(), key.size());
	br_hmac_init(&hc, &kc, 0);
	br_hmac_update(&hc, pre.data(), pre.size());
	uint8_t got[64], want[64];
	unsigned wl;
	size_t r = br_hmac_outCT(&hc, data.data(), len, minl, maxl, got);
	Bytes all = pre;
	all.insert(all.end(), data.begin(), data.begin() + len);
	HMAC(h.md(), key.data(), (int)key.size(), all.data(), all.size(), want, &wl);
	VF_CHECK(r == h.outlen && memcmp(got, want, h.outlen) == 0, "HMAC-%s outCT prefix=%zu len=%zu in [%zu,%zu]: %s, HMAC of the first len bytes is %s", h.name, pre.size(), len, minl, maxl,
		hex(got, h.outlen).c_str(), hex(want, h.outlen).c_str());
	stats.evals++;
}

static void k_outct(Tape &t)
{
	const HashDef &h = HASHES[t.u8() % 6];
	Bytes key = t.filled(t.len(140, { 20, 32, 48, 64 }));
	size_t pl = t.len(140, { 0, 13, 64, 77, 128 });     // bytes injected with update() before (TLS: the 13-byte header)
	Bytes pre = t.filled(pl);
	size_t maxl = (size_t)t.range(0, 3 * h.block + 9);
	size_t minl = (size_t)t.range(0, maxl);
	size_t len = (size_t)t.range(minl, maxl);
	Bytes data = t.filled(maxl);
	check_outct(h, key, pre, data, len, minl, maxl);
	// and the two ends of the range
	check_outct(h, key, pre, data, minl, minl, maxl);
	check_outct(h, key, pre, data, maxl, minl, maxl);
	stats.cls("outCT");
	stats.eval((minl < len && len < maxl) ? fmt("ct/%s/%zu/%zu/%zu/%zu", h.name, pl, minl, len, maxl) : std::string());
	if (stats.want_sample()) stats.sample(fmt("HMAC-%s outCT prefix=%zu min=%zu len=%zu max=%zu", h.name, pl, minl, len, maxl));
}

static bool evp_kdf(const char *name, OSSL_PARAM *p, uint8_t *out, size_t n)
{
	EVP_KDF *k = EVP_KDF_fetch(nullptr, name, nullptr);
	EVP_KDF_CTX *c = EVP_KDF_CTX_new(k);
	EVP_KDF_free(k);
	bool ok = EVP_KDF_derive(c, out, n, p) > 0;
	EVP_KDF_CTX_free(c);
	return ok;
}

static void k_prf(Tape &t)
{
	unsigned which = t.u8() % 3;
	Bytes secret = t.filled(t.len(80, { 0, 1, 47, 48, 49 }));
	static const char *labels[] = { "master secret", "key expansion", "client finished", "server finished", "x", "" };
	const char *label = labels[t.u8() % 6];
	unsigned nch = t.u8() % 5;
	std::vector<Bytes> chunks;
	Bytes seed;
	br_tls_prf_seed_chunk sc[4];
	for (unsigned i = 0; i < nch; i++) {
		chunks.push_back(t.filled(t.len(70, { 0, 1, 32, 64 })));
	}
	for (unsigned i = 0; i < nch; i++) { sc[i].data = chunks[i].data(); sc[i].len = chunks[i].size(); seed.insert(seed.end(), chunks[i].begin(), chunks[i].end()); }
	size_t outl = t.len(1000, { 0, 1, 12, 16, 20, 32, 48, 104, 136 });
	Bytes got = zbuf(outl), want(outl ? outl : 1);
	if (which == 0) br_tls10_prf(got.data(), outl, secret.data(), secret.size(), label, nch, sc);
	else if (which == 1) br_tls12_sha256_prf(got.data(), outl, secret.data(), secret.size(), label, nch, sc);
	else br_tls12_sha384_prf(got.data(), outl, secret.data(), secret.size(), label, nch, sc);
	if (outl && (strlen(label) + seed.size()) > 0) {
		const char *md = which == 0 ? "MD5-SHA1" : which == 1 ? "SHA256" : "SHA384";
		OSSL_PARAM p[5];
		int i = 0;
		p[i++] = OSSL_PARAM_construct_utf8_string(OSSL_KDF_PARAM_DIGEST, (char *)md, 0);
		p[i++] = OSSL_PARAM_construct_octet_string(OSSL_KDF_PARAM_SECRET, (void *)secret.data(), secret.size());
		p[i++] = OSSL_PARAM_construct_octet_string(OSSL_KDF_PARAM_SEED, (void *)label, strlen(label));
		p[i++] = OSSL_PARAM_construct_octet_string(OSSL_KDF_PARAM_SEED, (void *)seed.data(), seed.size());
		p[i] = OSSL_PARAM_construct_end();
		if (evp_kdf("TLS1-PRF", p, want.data(), outl)) {
			VF_CHECK(memcmp(got.data(), want.data(), outl) == 0, "TLS PRF %s secret=%zu label='%s' seed chunks=%u (%zu bytes) out=%zu: differs from the reference at %zu", md,
				secret.size(), label, nch, seed.size(), outl, (size_t)(std::mismatch(got.begin(), got.end(), want.begin()).first - got.begin()));
			stats.cls("prf:compared");
		} else stats.cls("prf:reference-refused-parameters");
	}
	// deterministic
	Bytes again = zbuf(outl);
	if (which == 0) br_tls10_prf(again.data(), outl, secret.data(), secret.size(), label, nch, sc);
	else if (which == 1) br_tls12_sha256_prf(again.data(), outl, secret.data(), secret.size(), label, nch, sc);
	else br_tls12_sha384_prf(again.data(), outl, secret.data(), secret.size(), label, nch, sc);
	VF_CHECK(again == got, "TLS PRF not deterministic");
	stats.eval(fmt("prf/%u/%zu/%u/%zu", which, secret.size(), nch, outl));
}

static void k_hkdf(Tape &t)
{
	const HashDef &h = HASHES[t.u8() % 6];
	bool nosalt = t.u8() % 5 == 0;
	Bytes salt = t.filled(t.len(150, { 0, 1, 32, 64, 65, 128, 129 }));
	Bytes ikm = t.filled(t.len(200, { 0, 1, 32, 64 }));
	std::vector<size_t> ps = parts(t, ikm.size());
	Bytes info = t.filled(t.len(120, { 0, 1, 64 }));
	size_t outl = t.len(1000, { 0, 1, 16, 32, 33, 64, 65 });
	if (outl > 255 * h.outlen) outl = 255 * h.outlen;
	// one case in six reads up to and beyond the documented limit of 255 hash lengths
	bool to_limit = t.u8() % 6 == 5;
	if (to_limit) outl = 255 * h.outlen;
	std::vector<size_t> os = parts(t, outl);
	size_t beyond = to_limit ? 1 + t.u8() % 200 : 0;
	if (to_limit && !os.empty() && t.flag()) os.back() += beyond;   // the crossing call asks for more than is left
	br_hkdf_context hc;
	br_hkdf_init(&hc, h.cls, nosalt ? (const void *)BR_HKDF_NO_SALT : (const void *)salt.data(), salt.size());
	size_t off = 0;
	for (size_t k : ps) { br_hkdf_inject(&hc, ikm.data() + off, k); off += k; }
	br_hkdf_flip(&hc);
	Bytes got = zbuf(outl + 2 * beyond + 600), want(outl ? outl : 1);
	off = 0;
	for (size_t k : os) {
		size_t r = br_hkdf_produce(&hc, info.data(), info.size(), got.data() + off, k), exp = std::min(k, outl - off);
		VF_CHECK(r == exp, "HKDF-%s produce returned %zu for a request of %zu bytes at offset %zu (limit %zu)", h.name, r, k, off, 255 * h.outlen);
		off += r;
	}
	if (to_limit) {
		// the limit has been reached: nothing more may come out, however often and for however much the caller asks
		for (int rep = 0; rep < 3; rep++) {
			size_t ask = rep == 0 ? beyond : 1 + (beyond * (rep + 3)) % 300;
			size_t r = br_hkdf_produce(&hc, info.data(), info.size(), got.data() + outl, ask);
			VF_CHECK(r == 0, "HKDF-%s: %zu bytes (255 hash lengths, the documented maximum) were produced, yet call %d after that returned %zu more bytes for a request of %zu%s", h.name, outl, rep + 1, r, ask,
				r && memcmp(got.data() + outl, got.data(), std::min(r, outl)) == 0 ? " - a repetition of the output from offset 0" : "");
		}
		stats.cls("hkdf-to-limit");
	}
	if (outl && !ikm.empty()) {
		Bytes s2 = nosalt ? Bytes() : salt;
		OSSL_PARAM p[6];
		int i = 0;
		p[i++] = OSSL_PARAM_construct_utf8_string(OSSL_KDF_PARAM_DIGEST, (char *)EVP_MD_get0_name(h.md()), 0);
		p[i++] = OSSL_PARAM_construct_octet_string(OSSL_KDF_PARAM_KEY, (void *)ikm.data(), ikm.size());
		if (!s2.empty()) p[i++] = OSSL_PARAM_construct_octet_string(OSSL_KDF_PARAM_SALT, (void *)s2.data(), s2.size());
		p[i++] = OSSL_PARAM_construct_octet_string(OSSL_KDF_PARAM_INFO, (void *)info.data(), info.size());
		p[i] = OSSL_PARAM_construct_end();
		if (evp_kdf("HKDF", p, want.data(), outl))
			VF_CHECK(memcmp(got.data(), want.data(), outl) == 0, "HKDF-%s salt=%s ikm=%zu[%s] info=%zu out=%zu[%s]: differs from RFC 5869 reference", h.name,
				nosalt ? "none" : fmt("%zu", salt.size()).c_str(), ikm.size(), shape(ps).c_str(), info.size(), outl, shape(os).c_str());
	}
	stats.cls("hkdf");
	stats.eval((ps.size() > 1 || os.size() > 1) ? fmt("hk/%s/%d/%zu/%zu/%zu", h.name, nosalt, salt.size(), ikm.size(), outl) : std::string());
}

static void k_mgf1(Tape &t)
{
	const HashDef &h = HASHES[t.u8() % 6];
	Bytes seed = t.filled(t.len(100, { 0, 1, 20, 32, 64 }));
	size_t n = t.len(700, { 0, 1, 19, 20, 21, 31, 32, 33, 63, 64, 65, 255, 256 });
	Bytes data = t.filled(n), orig = data;
	br_mgf1_xor(data.data(), n, h.cls, seed.data(), seed.size());
	// PKCS#1 B.2.1
	Bytes mask;
	for (uint32_t c = 0; mask.size() < n; c++) {
		Bytes in = seed;
		in.push_back(c >> 24); in.push_back(c >> 16); in.push_back(c >> 8); in.push_back(c);
		uint8_t d[64];
		ref_digest(h, in.data(), in.size(), d);
		mask.insert(mask.end(), d, d + h.outlen);
	}
	for (size_t i = 0; i < n; i++) VF_CHECK((uint8_t)(orig[i] ^ mask[i]) == data[i], "MGF1-%s seed=%zu len=%zu: byte %zu differs", h.name, seed.size(), n, i);
	stats.cls("mgf1");
	stats.eval(n > h.outlen ? fmt("mgf/%s/%zu/%zu", h.name, seed.size(), n) : std::string());
}

// SP 800-90A HMAC_DRBG without prediction resistance
struct RefDrbg {
	const EVP_MD *md; size_t hl; uint8_t K[64], V[64];
	void mac(const uint8_t *k, const Bytes &in, uint8_t *out) { unsigned l; HMAC(md, k, (int)hl, in.data(), in.size(), out, &l); }
	void update(const Bytes &seed)
	{
		for (int r = 0; r < 2; r++) {
			Bytes in(V, V + hl);
			in.push_back((uint8_t)r);
			in.insert(in.end(), seed.begin(), seed.end());
			mac(K, in, K);
			mac(K, Bytes(V, V + hl), V);
			if (seed.empty()) break;
		}
	}
	void init(const EVP_MD *m, const Bytes &seed) { md = m; hl = (size_t)EVP_MD_get_size(m); memset(K, 0, hl); memset(V, 1, hl); update(seed); }
	void generate(uint8_t *out, size_t n)
	{
		while (n) { mac(K, Bytes(V, V + hl), V); size_t c = n < hl ? n : hl; memcpy(out, V, c); out += c; n -= c; }
		update(Bytes());
	}
};

static void k_hmac_drbg(Tape &t)
{
	const HashDef &h = HASHES[t.u8() % 6];
	Bytes seed = t.filled(t.len(100, { 0, 1, 32, 48 }));
	br_hmac_drbg_context dc, dc2;
	br_hmac_drbg_init(&dc, h.cls, seed.data(), seed.size());
	br_hmac_drbg_init(&dc2, h.cls, seed.data(), seed.size());
	RefDrbg r;
	r.init(h.md(), seed);
	unsigned nops = 1 + t.u8() % 6;
	std::string hist;
	for (unsigned i = 0; i < nops; i++) {
		unsigned ob = t.u8();
		if (ob % 3 == 0) {
			Bytes s2 = t.filled(t.len(80, { 0, 1, 32 }));
			br_hmac_drbg_update(&dc, s2.data(), s2.size());
			br_hmac_drbg_update(&dc2, s2.data(), s2.size());
			r.update(s2);
			hist += fmt("update(%zu) ", s2.size());
		} else {
			size_t n = t.len(1000, { 0, 1, 19, 20, 21, 32, 33, 64, 65 });
			Bytes a = zbuf(n), b = zbuf(n), w = zbuf(n);
			br_hmac_drbg_generate(&dc, a.data(), n);
			br_hmac_drbg_generate(&dc2, b.data(), n);
			r.generate(w.data(), n);
			hist += fmt("generate(%zu) ", n);
			VF_CHECK(a == w, "HMAC_DRBG-%s seed=%zu [%s]: output differs from SP 800-90A", h.name, seed.size(), hist.c_str());
			VF_CHECK(a == b, "HMAC_DRBG-%s: two contexts with the same inputs differ", h.name);
		}
	}
	stats.cls("hmac_drbg");
	stats.eval(fmt("hd/%s/%zu/%s", h.name, seed.size(), hist.c_str()));
}

// AESCTR_DRBG as documented in aesctr_drbg.c, on OpenSSL AES
struct RefAesDrbg {
	uint8_t key[16]; uint32_t cc;
	static void enc(const uint8_t *k, size_t kl, const uint8_t *in, uint8_t *out)
	{
		EVP_CIPHER_CTX *x = EVP_CIPHER_CTX_new();
		int l;
		EVP_EncryptInit_ex(x, kl == 16 ? EVP_aes_128_ecb() : EVP_aes_256_ecb(), nullptr, k, nullptr);
		EVP_CIPHER_CTX_set_padding(x, 0);
		EVP_EncryptUpdate(x, out, &l, in, 16);
		EVP_CIPHER_CTX_free(x);
	}
	void update(const Bytes &seed)
	{
		uint8_t s[16], blk[16], G[16], H[16];
		memset(blk, 0xFF, 16);
		enc(key, 16, blk, s);                // encryption of the all-one block under the current key
		memset(G, 0xB6, 16); memset(H, 0x5A, 16);
		size_t off = 0;
		bool first = true;
		for (;;) {
			uint8_t k32[32], m[16], nG[16], nH[16], gc[16];
			if (first) { memcpy(m, s, 16); first = false; }
			else {
				if (off >= seed.size()) break;
				size_t c = seed.size() - off < 16 ? seed.size() - off : 16;
				memset(m, 0, 16);
				memcpy(m, seed.data() + off, c);
				off += c;
			}
			memcpy(k32, H, 16); memcpy(k32 + 16, m, 16);
			enc(k32, 32, G, nG);
			for (int i = 0; i < 16; i++) nG[i] ^= G[i];
			memcpy(gc, G, 16); gc[0] ^= 0x01;
			enc(k32, 32, gc, nH);
			for (int i = 0; i < 16; i++) nH[i] ^= gc[i];
			memcpy(G, nG, 16); memcpy(H, nH, 16);
		}
		memcpy(key, H, 16);
		cc = 0;
	}
	void init(const Bytes &seed) { memset(key, 0, 16); cc = 0; update(seed); }
	void generate(uint8_t *out, size_t n)
	{
		while (n) {
			uint8_t blk[16] = { 0 }, ks[16];
			blk[12] = cc >> 24; blk[13] = cc >> 16; blk[14] = cc >> 8; blk[15] = cc;
			enc(key, 16, blk, ks);
			size_t c = n < 16 ? n : 16;
			memcpy(out, ks, c);
			out += c; n -= c;
			cc++;
			if (cc >= 32768) update(Bytes());
		}
	}
};

static void k_aesctr_drbg(Tape &t)
{
	static const br_block_ctr_class *impls[5] = { &br_aes_big_ctr_vtable, &br_aes_small_ctr_vtable, &br_aes_ct_ctr_vtable, &br_aes_ct64_ctr_vtable, nullptr };
	static const char *names[5] = { "big", "small", "ct", "ct64", "x86ni" };
	impls[4] = br_aes_x86ni_ctr_get_vtable();
	unsigned ii = t.u8() % 5;
	if (!impls[ii]) ii = 2;
	Bytes seed = t.filled(t.len(100, { 0, 1, 15, 16, 17, 32, 48 }));
	br_aesctr_drbg_context dc;
	br_aesctr_drbg_init(&dc, impls[ii], seed.data(), seed.size());
	RefAesDrbg r;
	r.init(seed);
	unsigned nops = 1 + t.u8() % 5;
	bool big = t.u8() % 16 == 0;   // occasionally cross the 32768-block forced update
	std::string hist;
	for (unsigned i = 0; i < nops; i++) {
		unsigned ob = t.u8();
		if (ob % 3 == 0) {
			Bytes s2 = t.filled(t.len(60, { 0, 1, 16, 17 }));
			br_aesctr_drbg_update(&dc, s2.data(), s2.size());
			r.update(s2);
			hist += fmt("update(%zu) ", s2.size());
		} else {
			size_t n = big && i == 0 ? 32768 * 16 - (ob & 31) + (size_t)t.range(0, 200) : t.len(900, { 0, 1, 15, 16, 17, 31, 32, 33 });
			Bytes a = zbuf(n), w = zbuf(n);
			br_aesctr_drbg_generate(&dc, a.data(), n);
			r.generate(w.data(), n);
			hist += fmt("generate(%zu) ", n);
			// (a generate() that ends inside a block discards the rest of that block in both)
			VF_CHECK(a == w, "AESCTR_DRBG aes_%s seed=%zu [%s]: output differs from the documented construction at byte %zu", names[ii], seed.size(), hist.c_str(),
				(size_t)(std::mismatch(a.begin(), a.end(), w.begin()).first - a.begin()));
		}
	}
	stats.cls(big ? "aesctr_drbg:crossing-32768-blocks" : "aesctr_drbg");
	stats.eval(fmt("ad/%u/%zu/%s", ii, seed.size(), hist.c_str()));
}

// explicit outCT case (used by the enumerator so that a failure has an exact replay tape)
static void k_outct_explicit(Tape &t)
{
	unsigned hi = t.u8() % 6;
	const HashDef &h = HASHES[hi];
	size_t pl = t.u8(), minl = t.u16(), len = t.u16(), maxl = t.u16();
	size_t top = 3 * h.block + 9;
	if (maxl > top || len > maxl || minl > len) return;
	Bytes key(32, 0x0B), data(top), pre(pl, 0x36);
	for (size_t i = 0; i < top; i++) data[i] = (uint8_t)(i * 131 + hi);
	check_outct(h, key, pre, data, len, minl, maxl);
	stats.nontrivial++;
	stats.distinct.insert(fnv(fmt("ctx/%u/%zu/%zu/%zu/%zu", hi, pl, minl, len, maxl)));
}

void target_run(Tape &t)
{
	unsigned kind = t.u8();
	if (kind == 0xF0) { k_outct_explicit(t); return; }
	switch (kind % 16) {
	case 0: case 1: case 2: k_hash(t); break;
	case 3: k_carry(t); break;
	case 4: k_multihash(t); break;
	case 5: k_shake(t); break;
	case 6: case 7: k_hmac(t); break;
	case 8: case 9: case 10: k_outct(t); break;
	case 11: k_prf(t); break;
	case 12: k_hkdf(t); break;
	case 13: k_mgf1(t); break;
	case 14: k_hmac_drbg(t); break;
	default: k_aesctr_drbg(t); break;
	}
}

// Enumerator: (a) every message length 0..300 for every hash with a split at
// every position of the first block boundary region; (b) outCT for ALL triples
// min <= len <= max up to 3 blocks (thorough) or a strided subset (quick);
// (c) SHAKE at every input length 0..400.
void target_enum(int shard, int nshards)
{
	bool thorough = tier_thorough();
	uint64_t n = 0;
	for (unsigned hi = 0; hi < 6; hi++) {
		const HashDef &h = HASHES[hi];
		size_t top = 3 * h.block + 9;
		for (size_t pl : { (size_t)0, (size_t)13, (size_t)77 }) {
			for (size_t maxl = 0; maxl <= top; maxl += thorough ? 1 : 5)
			for (size_t minl = 0; minl <= maxl; minl += thorough ? 1 : 7) {
				if ((n++ % (uint64_t)nshards) != (uint64_t)shard) continue;
				for (size_t len = minl; len <= maxl; len += thorough ? 1 : 3)
					enum_tape({ 0xF0, (uint8_t)hi, (uint8_t)pl, (uint8_t)(minl >> 8), (uint8_t)minl, (uint8_t)(len >> 8), (uint8_t)len, (uint8_t)(maxl >> 8), (uint8_t)maxl });
			}
		}
	}
	stats.notes["outCT_triples"] = thorough ? "all (min,len,max) with max <= 3 blocks + 9, prefixes 0/13/77" : "strided subset";
}
