// C16 — record sizes respect buffers and the negotiated maximum fragment
// length.
//
// Reference (written from the documentation of br_ssl_engine_set_buffer /
// BR_SSL_BUFSIZE_* and RFC 6066 section 4): mfl(side) = largest L in
// {512,1024,2048,4096,16384} with obuf >= L+85 and ibuf >= L+325; a client
// with mfl < 16384 sends code log2(mfl)-8; the server echoes exactly that
// code and from then on sends at most min(own mfl, client's) plaintext bytes
// per record; the client sends at most its mfl.
//
// Case kinds (first tape byte): 0/1/2 Bear<->Bear session with independent
// buffer sizes at thresholds +-1; 3 OpenSSL peer (real MFLN interop, both
// roles); 4 man-in-the-middle rewriting the ServerHello extension (wrong
// code, unsolicited, duplicated); 5/6 acceptance probes with records crafted
// by the independent codec: exactly the advertised length with minimum and
// maximum CBC padding, exactly what fits the input buffer, one byte more
// (TOO_LARGE), more than the protocol allows (BAD_LENGTH); 7 buffers below
// the documented minimum (BAD_PARAM).
#include "common/tls_session.hpp"
#include "common/tls_hello.hpp"

using namespace vf;
using namespace tls;

const char *target_name = "c16_fraglen";
const int target_tape_min = 0, target_tape_max = 64;

static const size_t MFL[5] = { 512, 1024, 2048, 4096, 16384 };
static const uint16_t MODES[] = { 0x002F, 0x003D, 0x009C, 0xC0A0, 0xCCA8, 0x000A, 0xC028, 0xC09D };

static size_t ref_mfl(size_t ilen, size_t olen)
{
	for (int u = 4; u >= 0; u--) if (olen >= MFL[u] + 85 && ilen >= MFL[u] + 325) return MFL[u];
	// 8192 is not a legal length: a buffer fit for 8192 is covered by the 4096 entry above
	return 0;
}
static void io_sizes(const Profile &p, size_t &ilen, size_t &olen)
{
	if (p.layout == L_MONO) { ilen = olen = p.buflen; }
	else if (p.layout == L_SPLIT) { ilen = p.ilen; olen = p.olen; }
	else {
		size_t w = p.buflen < 16384 + 325 + 512 + 85 ? 597 : p.buflen - (16384 + 325);
		ilen = p.buflen - w; olen = w;
	}
}

// sizes around a threshold: cls 0..4, delta in {-1, 0, +1, +random}
static void draw_sizes(Tape &t, Profile &p, std::string &d)
{
	p.layout = (Layout)(t.u8() % 3);
	unsigned cls = t.u8() % 5, cls2 = t.u8() % 5;
	int dsel = t.u8() % 5;
	long delta = dsel == 0 ? 0 : dsel == 1 ? -1 : dsel == 2 ? 1 : dsel == 3 ? (long)(t.u8()) : -(long)(t.u8() % 60);
	if (cls == 0 && delta < 0) delta = 0;   // below the minimum is kind 7
	if (p.layout == L_MONO) p.buflen = (size_t)((long)MFL[cls] + 325 + delta);
	else if (p.layout == L_BIDI) {
		if (cls == 4) p.buflen = (size_t)((long)(16384 + 325 + 16384 + 85) + delta);
		else p.buflen = (size_t)((long)(MFL[cls] + 325 + 597) + delta);
	} else {
		p.ilen = (size_t)((long)MFL[cls] + 325 + delta);
		p.olen = MFL[cls2] + 85 + (t.u8() % 3) - 1;
		if (p.olen < 512 + 85) p.olen = 512 + 85;
	}
	size_t i, o;
	io_sizes(p, i, o);
	d = fmt("%s in=%zu out=%zu", p.layout == L_MONO ? "mono" : p.layout == L_BIDI ? "bidi" : "split", i, o);
}

static int client_hello_mfln_code(Session &S)
{
	// parse the first ClientHello on the wire for extension 1
	Bytes hs;
	for (auto &r : S.tap.recs[0]) if (r.epoch == 0 && r.type == 22) hs.insert(hs.end(), r.payload.begin(), r.payload.end());
	if (hs.size() < 4 || hs[0] != 1) return -2;
	size_t ml = ((size_t)hs[1] << 16) | ((size_t)hs[2] << 8) | hs[3];
	if (4 + ml > hs.size()) return -2;
	const uint8_t *b = hs.data() + 4;
	size_t o = 34;
	o += 1 + b[34];
	o += 2 + ((b[o] << 8) | b[o + 1]);
	o += 1 + b[o];
	if (o + 2 > ml) return -1;
	size_t el = (b[o] << 8) | b[o + 1];
	o += 2;
	size_t end = o + el;
	while (o + 4 <= end) {
		unsigned et = (b[o] << 8) | b[o + 1];
		size_t l = (b[o + 2] << 8) | b[o + 3];
		o += 4;
		if (et == 1) return l == 1 ? b[o] : -3;
		o += l;
	}
	return -1;
}
static int server_hello_mfln_code(Session &S, size_t *sh_record_index = nullptr)
{
	Bytes hs;
	for (auto &r : S.tap.recs[1]) if (r.epoch == 0 && r.type == 22) hs.insert(hs.end(), r.payload.begin(), r.payload.end());
	if (hs.size() < 4 || hs[0] != 2) return -2;
	size_t ml = ((size_t)hs[1] << 16) | ((size_t)hs[2] << 8) | hs[3];
	if (4 + ml > hs.size()) return -2;
	const uint8_t *b = hs.data() + 4;
	size_t o = 34;
	o += 1 + b[34];
	o += 3;
	(void)sh_record_index;
	if (o + 2 > ml) return -1;
	size_t el = (b[o] << 8) | b[o + 1];
	o += 2;
	size_t end = o + el;
	while (o + 4 <= end) {
		unsigned et = (b[o] << 8) | b[o + 1];
		size_t l = (b[o + 2] << 8) | b[o + 3];
		o += 4;
		if (et == 1) return l == 1 ? b[o] : -3;
		o += l;
	}
	return -1;
}

static void pick_mode(Tape &t, Profile &cp, Profile &sp, const wt::SuiteInfo *&si, unsigned &version)
{
	si = wt::suite_by_id(MODES[t.u8() % (sizeof MODES / sizeof MODES[0])]);
	version = si->tls12_only ? 0x0303 : 0x0301 + t.u8() % 3;
	cp.suites = { si->id }; sp.suites = { si->id };
	cp.vmin = cp.vmax = sp.vmin = sp.vmax = version;
	sp.key = keys_for(si)[0];
}

// every record's plaintext length against the limit in force
static void check_record_sizes(Session &S, int d, size_t limit_hs, size_t limit_after, const std::string &desc, bool after_from_sh)
{
	VF_CHECK(S.tap.advance(d, true) && S.tap.decode_error.empty(), "%s: %s", desc.c_str(), S.tap.decode_error.c_str());
	bool first = true;
	for (auto &p : S.tap.plain[d]) {
		// the server's limit applies from the record that follows its ServerHello; the hello record itself
		// (the first record of the server) is bounded by the server's own limit only
		size_t lim = (after_from_sh && first) ? limit_hs : limit_after;
		if (d == 0) lim = limit_after;
		first = false;
		VF_CHECK(p.data.size() <= lim && p.data.size() <= 16384, "%s: %s sent a type-%u record with %zu plaintext bytes, limit in force %zu", desc.c_str(),
			d ? "server" : "client", p.type, p.data.size(), lim);
	}
}

static void kind_session(Tape &t)
{
	Profile cp, sp;
	const wt::SuiteInfo *si;
	unsigned version;
	pick_mode(t, cp, sp, si, version);
	std::string cd, sd;
	draw_sizes(t, cp, cd);
	draw_sizes(t, sp, sd);
	size_t ci, co, sI, so;
	io_sizes(cp, ci, co);
	io_sizes(sp, sI, so);
	size_t cm = ref_mfl(ci, co), sm = ref_mfl(sI, so);
	std::string desc = fmt("%s TLS%s client[%s mfl=%zu] server[%s mfl=%zu]", si->name, ver_name(version), cd.c_str(), cm, sd.c_str(), sm);
	BearClient c(cp);
	BearServer s(sp);
	bool cr = c.reset(), sr = s.reset();
	VF_CHECK(cr == (cm != 0) && sr == (sm != 0), "%s: reset results %d/%d do not match the documented minimum sizes", desc.c_str(), cr, sr);
	if (!cr || !sr) { stats.eval(fmt("minsize/%zu/%zu", ci, sI)); return; }
	VF_CHECK(c.eng->max_frag_len == cm && s.eng->max_frag_len == sm, "%s: engine fragment lengths %u/%u", desc.c_str(), (unsigned)c.eng->max_frag_len, (unsigned)s.eng->max_frag_len);
	unsigned before = t.u8() % 4;
	if (before == 1 || before == 2) {
		// the server context has already served another client (reset per connection, as servers do): what that
		// client negotiated - or merely asked for in a lone ClientHello - must not carry over
		Profile p0 = cp;
		p0.layout = L_SPLIT;
		size_t m0 = MFL[t.u8() % 4];
		p0.ilen = m0 + 325; p0.olen = m0 + 85;
		BearClient c0(p0);
		VF_CHECK(c0.reset(), "%s: earlier client reset failed", desc.c_str());
		Session S0(&c0, &s);
		if (before == 1) {
			S0.script[0].push_back(Item{ IT_WRITE, 10, true });
			S0.script[1].push_back(Item{ IT_WRITE, 10, true });
			S0.script[0].push_back(Item{ IT_WAIT_PEER_IDLE, 0, true });
			S0.script[0].push_back(Item{ IT_CLOSE, 0, true });
			S0.run(3000000);
			VF_CHECK(S0.established, "%s: earlier connection (client asking for %zu) failed (errors %d/%d)", desc.c_str(), m0, c0.error(), s.error());
		} else {
			// only the ClientHello reaches the server, then the connection is dropped
			for (int i = 0; i < 6; i++) S0.round();
		}
		VF_CHECK(s.reset(), "%s: server reset for the next client failed (error %d)", desc.c_str(), s.error());
		VF_CHECK(s.eng->max_frag_len == sm, "%s: after serving a client that asked for %zu-byte fragments and a reset, the server's fragment length is %u (its buffers give %zu)", desc.c_str(), m0, (unsigned)s.eng->max_frag_len, sm);
		desc += fmt(" [server context reused after a client asking for %zu%s]", m0, before == 2 ? ", ClientHello only" : "");
		stats.cls("server-context-reused");
	}
	Session S(&c, &s);
	S.tape = &t;
	S.wire_in_pol[0].mode = (ChunkMode)(t.u8() % 4 == 3 ? CH_HDR : CH_WHOLE);
	S.wire_in_pol[1].mode = (ChunkMode)(t.u8() % 4 == 3 ? CH_HDR : CH_WHOLE);
	size_t c_eff = cm, s_eff = cm < 16384 ? std::min(cm, sm) : sm;
	// what the server can take in one record (its input buffer), regardless of negotiation
	size_t s_cap = sI - 325;
	for (int side = 0; side < 2; side++) {
		unsigned n = 1 + t.u8() % 3;
		size_t eff = side == 0 ? c_eff : s_eff;
		for (unsigned i = 0; i < n; i++) {
			unsigned sel = t.u8() % 8;
			size_t len = sel == 0 ? eff - 1 : sel == 1 ? eff : sel == 2 ? eff + 1 : sel == 3 ? 2 * eff + 1 : sel == 4 ? 3 * eff : sel == 5 ? 1 : sel == 6 ? eff + 300 : (size_t)t.range(1, 3 * eff);
			if (side == 0 && c_eff > s_cap) {
				// the server's input buffer cannot hold a full client fragment and only a client can ask
				// for shorter records: the client application keeps its records within the server's capacity
				while (len) { size_t k = std::min(len, s_cap); S.script[0].push_back(Item{ IT_WRITE, k, true }); len -= k; }
			} else S.script[side].push_back(Item{ IT_WRITE, len, (sel & 1) != 0 });
		}
		S.script[side].push_back(Item{ IT_FLUSH, 0, true });
	}
	S.script[0].push_back(Item{ IT_WAIT_PEER_IDLE, 0, true });
	S.script[0].push_back(Item{ IT_CLOSE, 0, true });
	bool q = S.run(3000000);
	VF_CHECK(q && S.established, "%s: handshake failed (errors %d/%d)", desc.c_str(), c.error(), s.error());
	VF_CHECK(c.error() == 0 && s.error() == 0 && S.recvd[0] == S.sent[0] && S.recvd[1] == S.sent[1], "%s: session failed: errors %d/%d, delivered %zu/%zu of %zu/%zu",
		desc.c_str(), c.error(), s.error(), S.recvd[0], S.recvd[1], S.sent[0], S.sent[1]);
	int code = client_hello_mfln_code(S), echo = server_hello_mfln_code(S);
	int want = cm == 16384 ? -1 : cm == 512 ? 1 : cm == 1024 ? 2 : cm == 2048 ? 3 : 4;
	VF_CHECK(code == want, "%s: ClientHello max_fragment_length code %d, expected %d", desc.c_str(), code, want);
	// RFC 6066: the server accepts by echoing the same value; an echo, when present, carries exactly the requested code
	// and is never unsolicited.  Every request the server is able to honour (not above its own limit) is acknowledged:
	// without the acknowledgement the client is not bound to the length, and the server's input buffer is too small.
	if (echo != -1) VF_CHECK(echo == want && want > 0, "%s: ServerHello echoes max_fragment_length code %d, client sent %d", desc.c_str(), echo, want);
	if (want > 0 && cm <= sm) VF_CHECK(echo == want, "%s: request %d (not above the server's own %zu) was not echoed (echo %d)", desc.c_str(), want, sm, echo);
	VF_CHECK(br_ssl_engine_get_mfln_negotiated(c.eng) == (echo > 0 ? 1 : 0), "%s: get_mfln_negotiated()=%d on the client, but the ServerHello %s", desc.c_str(),
		br_ssl_engine_get_mfln_negotiated(c.eng), echo > 0 ? "echoed the extension" : "did not echo the extension");
	check_record_sizes(S, 0, c_eff, c_eff, desc, false);
	{
		// the record that carries the ServerHello may exceed the client's limit by at most the hello itself
		// ("honours the request in all records after its hello"); never the server's own limit
		size_t shlen = 0;
		if (!S.tap.recs[1].empty() && S.tap.recs[1][0].payload.size() >= 4 && S.tap.recs[1][0].payload[0] == 2)
			shlen = 4 + (((size_t)S.tap.recs[1][0].payload[1] << 16) | ((size_t)S.tap.recs[1][0].payload[2] << 8) | S.tap.recs[1][0].payload[3]);
		check_record_sizes(S, 1, std::min(sm, s_eff + shlen), s_eff, desc, true);
	}
	bool nontriv = (cm < 16384 || sm < 16384) && (S.sent[0] > c_eff || S.sent[1] > s_eff);
	stats.cls(fmt("client-mfl:%zu", cm)); stats.cls(fmt("server-mfl:%zu", sm));
	stats.eval(nontriv ? fmt("sess/%04x/%04x/%d/%zu/%zu/%d/%zu/%zu", si->id, version, cp.layout, ci, co, sp.layout, sI, so) : std::string());
	if (stats.want_sample()) stats.sample(desc + fmt(" => code %d echoed %d, %zu+%zu bytes, max record sizes ok", code, echo, S.sent[0], S.sent[1]));
}

static void kind_openssl(Tape &t)
{
	Profile cp, sp;
	const wt::SuiteInfo *si;
	unsigned version;
	do { pick_mode(t, cp, sp, si, version); } while (!ossl_suite_name(si->id) && !t.exhausted());
	if (!ossl_suite_name(si->id)) { si = wt::suite_by_id(0x009C); version = 0x0303; cp.suites = sp.suites = { 0x009C }; cp.vmin = cp.vmax = sp.vmin = sp.vmax = version; sp.key = K_RSA; }
	bool bear_client = t.flag();
	unsigned cls = t.u8() % 4;
	DetRand::install(cls * 77 + si->id);
	std::string desc;
	if (bear_client) {
		cp.layout = L_SPLIT; cp.ilen = MFL[cls] + 325; cp.olen = MFL[cls] + 85;
		BearClient c(cp);
		OsslEndpoint s(false, sp);
		VF_CHECK(c.reset(), "reset");
		Session S(&c, &s);
		S.script[0].push_back(Item{ IT_WRITE, 3 * MFL[cls] + 1, true });
		S.script[1].push_back(Item{ IT_WRITE, 3 * MFL[cls] + 7, true });
		S.script[0].push_back(Item{ IT_WAIT_PEER_IDLE, 0, true });
		S.script[0].push_back(Item{ IT_CLOSE, 0, true });
		S.run(2000000);
		desc = fmt("bear client mfl=%zu <-> openssl server %s TLS%s", MFL[cls], si->name, ver_name(version));
		VF_CHECK(S.established && c.error() == 0 && S.recvd[0] == S.sent[0] && S.recvd[1] == S.sent[1], "%s: failed (client error %d, %zu/%zu of %zu/%zu)", desc.c_str(), c.error(), S.recvd[0], S.recvd[1], S.sent[0], S.sent[1]);
		VF_CHECK(client_hello_mfln_code(S) == (int)cls + 1, "%s: ClientHello code %d", desc.c_str(), client_hello_mfln_code(S));
		VF_CHECK(br_ssl_engine_get_mfln_negotiated(c.eng) == 1, "%s: OpenSSL echoed the extension but get_mfln_negotiated() is 0", desc.c_str());
		check_record_sizes(S, 0, MFL[cls], MFL[cls], desc, false);
		check_record_sizes(S, 1, 16384, MFL[cls], desc, true);
	} else {
		unsigned slay = t.u8() % 3;
		sp.layout = (Layout)slay;
		if (sp.layout == L_BIDI) sp.buflen = BR_SSL_BUFSIZE_BIDI;
		cp.ossl_mfln = (int)cls + 1;
		OsslEndpoint c(true, cp);
		// the server's own limit: 16384 (optimal buffers), exactly the length the client asks for, or one class above it.
		// In the last two cases nothing but the negotiated extension keeps the client's records within the server's input
		// buffer, so the session works only if the server acknowledges every request it is able to honour.
		unsigned scls = t.u8() % 3;
		size_t slimit = 16384;
		if (scls) {
			slimit = MFL[std::min<unsigned>(cls + scls - 1, 3)];
			if (sp.layout == L_BIDI) sp.layout = L_SPLIT;
			sp.buflen = slimit + 325; sp.ilen = slimit + 325; sp.olen = slimit + 85;
		} else c.max_send_fragment = MFL[cls];
		BearServer s(sp);
		VF_CHECK(s.reset(), "reset");
		Session S(&c, &s);
		S.script[0].push_back(Item{ IT_WRITE, 3 * MFL[cls] + 1, true });
		S.script[1].push_back(Item{ IT_WRITE, 3 * MFL[cls] + 7, true });
		S.script[0].push_back(Item{ IT_WAIT_PEER_IDLE, 0, true });
		S.script[0].push_back(Item{ IT_CLOSE, 0, true });
		S.run(2000000);
		desc = fmt("openssl client asking %zu <-> bear server (own limit %zu) %s TLS%s", MFL[cls], slimit, si->name, ver_name(version));
		int code = client_hello_mfln_code(S);
		VF_CHECK(S.established && s.error() == 0 && S.recvd[0] == S.sent[0] && S.recvd[1] == S.sent[1], "%s: failed (server error %d)", desc.c_str(), s.error());
		if (code > 0) {
			VF_CHECK(server_hello_mfln_code(S) == code, "%s: server echoed %d for request %d", desc.c_str(), server_hello_mfln_code(S), code);
			check_record_sizes(S, 1, 16384, MFL[code - 1], desc, true);
			stats.cls("openssl:client-sent-extension");
		} else stats.cls("openssl:client-did-not-send-extension");
	}
	stats.cls(bear_client ? "openssl:server" : "openssl:client");
	stats.eval(fmt("ossl/%d/%04x/%04x/%u", bear_client, si->id, version, cls));
	if (stats.want_sample()) stats.sample(desc);
}

// rewrite / insert / duplicate the max_fragment_length extension of the ServerHello
static bool edit_server_hello(Bytes &payload, int how, uint8_t code)
{
	// payload = handshake record starting with the ServerHello message
	if (payload.size() < 4 + 38 || payload[0] != 2) return false;
	size_t ml = ((size_t)payload[1] << 16) | ((size_t)payload[2] << 8) | payload[3];
	if (4 + ml > payload.size()) return false;
	size_t o = 4 + 34;
	o += 1 + payload[o];
	o += 3;
	size_t ext_len_at = o;
	bool has_ext = o + 2 <= 4 + ml;
	Bytes ext;
	if (has_ext) { size_t el = (payload[o] << 8) | payload[o + 1]; ext.assign(payload.begin() + o + 2, payload.begin() + o + 2 + el); }
	Bytes ne;
	bool found = false;
	for (size_t p = 0; p + 4 <= ext.size(); ) {
		unsigned et = (ext[p] << 8) | ext[p + 1];
		size_t l = (ext[p + 2] << 8) | ext[p + 3];
		Bytes one(ext.begin() + p, ext.begin() + p + 4 + l);
		if (et == 1) {
			found = true;
			if (how == 0) one[4] = code;                                   // wrong code
			if (how == 2) { ne.insert(ne.end(), one.begin(), one.end()); } // duplicate
			if (how == 3) { one[3] = 2; one.push_back(0); }                // bad length
		}
		ne.insert(ne.end(), one.begin(), one.end());
		p += 4 + l;
	}
	if (how == 1) { if (found) return false; uint8_t x[5] = { 0, 1, 0, 1, code }; ne.insert(ne.end(), x, x + 5); }   // unsolicited
	else if (!found) return false;
	Bytes rest(payload.begin() + 4 + ml, payload.end());
	Bytes head(payload.begin(), payload.begin() + ext_len_at);
	head.push_back(ne.size() >> 8); head.push_back(ne.size() & 0xFF);
	head.insert(head.end(), ne.begin(), ne.end());
	size_t nml = head.size() - 4;
	head[1] = nml >> 16; head[2] = nml >> 8; head[3] = nml;
	head.insert(head.end(), rest.begin(), rest.end());
	payload = head;
	return true;
}

static void kind_mitm(Tape &t)
{
	Profile cp, sp;
	const wt::SuiteInfo *si;
	unsigned version;
	pick_mode(t, cp, sp, si, version);
	int how = t.u8() % 4;
	unsigned cls = t.u8() % 4;
	uint8_t code = (uint8_t)(1 + t.u8() % 6);
	if (how != 1) { cp.layout = L_SPLIT; cp.ilen = MFL[cls] + 325; cp.olen = MFL[cls] + 85; if (how == 0 && code == cls + 1) code = (uint8_t)((cls + 1) % 4 + 1); }
	BearClient c(cp);
	BearServer s(sp);
	VF_CHECK(c.reset() && s.reset(), "reset");
	Session S(&c, &s);
	bool edited = false;
	S.mitm = [&](int dir, const Record &r, std::vector<Bytes> &out) {
		Record r2 = r;
		if (dir == 1 && !edited && r.type == 22 && !r.payload.empty() && r.payload[0] == 2) edited = edit_server_hello(r2.payload, how, code);
		out.push_back(r2.raw());
	};
	S.run(1000000);
	static const char *hn[] = { "echo with another code", "unsolicited extension", "duplicated extension", "extension with bad length" };
	std::string desc = fmt("%s TLS%s client mfl=%zu, ServerHello rewritten: %s (code %u)", si->name, ver_name(version), how == 1 ? (size_t)16384 : MFL[cls], hn[how], code);
	if (!edited) { stats.eval(); return; }
	VF_CHECK(!c.ever_ready && c.closed() && c.error() != 0, "%s: client %s, error %d, ever ready %d (must refuse the hello)", desc.c_str(), c.closed() ? "closed" : "open", c.error(), c.ever_ready);
	int we = how == 0 ? BR_ERR_BAD_FRAGLEN : how == 1 ? BR_ERR_EXTRA_EXTENSION : -1;
	if (we > 0) VF_CHECK(c.error() == we, "%s: client error %d, documented error %d", desc.c_str(), c.error(), we);
	VF_CHECK(br_ssl_engine_get_mfln_negotiated(c.eng) == 0 || how >= 2, "%s: get_mfln_negotiated() is 1 after a refused echo", desc.c_str());
	stats.cls(std::string("mitm:") + hn[how]);
	stats.eval(fmt("mitm/%04x/%04x/%d/%u/%u", si->id, version, how, cls, code));
	if (stats.want_sample()) stats.sample(desc + fmt(" => client error %d", c.error()));
}

static void kind_accept(Tape &t)
{
	Profile cp, sp;
	const wt::SuiteInfo *si;
	unsigned version;
	pick_mode(t, cp, sp, si, version);
	int victim = t.u8() & 1;
	unsigned cls = t.u8() % 5;
	bool negotiated = t.flag();     // true: small client, limit negotiated; false: only the victim is small, no limit in force
	std::string xd;
	Profile &vp = victim ? sp : cp;
	vp.layout = (Layout)(t.u8() % 3 == 0 ? L_MONO : L_SPLIT);
	size_t extra = t.u8() % 3 == 0 ? 0 : t.u8();
	if (vp.layout == L_MONO) vp.buflen = MFL[cls] + 325 + extra; else { vp.ilen = MFL[cls] + 325 + extra; vp.olen = 16384 + 85; }
	if (negotiated && cls < 4) { cp.layout = L_SPLIT; cp.ilen = MFL[cls] + 325 + (victim == 0 ? extra : 0); cp.olen = MFL[cls] + 85; }
	if (!negotiated && victim == 0) negotiated = cls < 4;   // a small client always negotiates
	BearClient c(cp);
	BearServer s(sp);
	VF_CHECK(c.reset() && s.reset(), "reset");
	Session S(&c, &s);
	S.run(1000000);
	VF_CHECK(S.established, "handshake failed %d/%d", c.error(), s.error());
	BearEndpoint *v = victim ? (BearEndpoint *)&s : (BearEndpoint *)&c;
	int d = 1 - victim;
	size_t vi, vo;
	io_sizes(vp, vi, vo);
	size_t advertised = negotiated ? std::min(ref_mfl(cp.layout == L_MONO ? cp.buflen : cp.ilen, cp.layout == L_MONO ? cp.buflen : cp.olen), (size_t)16384) : 16384;
	if (victim == 1 && negotiated) { size_t ci, co; io_sizes(cp, ci, co); advertised = ref_mfl(ci, co); }
	wt::RecCodec c0;
	VF_CHECK(S.tap.codec_after(d, S.tap.recs[d].size(), c0), "harness: no codec");
	bool cbc = wt::is_cbc(si->cipher);
	size_t bs = cbc ? wt::block_len(si->cipher) : 1, ml = wt::mac_len(si->mac);
	size_t ovh_min = cbc ? (version >= 0x0302 ? bs : 0) + ml + 1 : (si->cipher == wt::C_CHACHA20 ? 16 : 8 + wt::tag_len(si->cipher));
	unsigned probe = t.u8() % 6;
	size_t plen;
	wt::EncOpts eo;
	int expect;          // 0 accept, else error code (-1: any error)
	std::string pd;
	switch (probe) {
	case 0: plen = advertised; expect = 0; pd = "exactly the advertised length, minimum padding"; break;
	case 1: plen = advertised; expect = 0; pd = "exactly the advertised length, maximum padding";
		if (cbc) { size_t minpad = bs - 1 - ((plen + ml) % bs); eo.pad_len = (int)(minpad + ((255 - minpad) / bs) * bs); }
		break;
	case 2: plen = advertised - 1; expect = 0; pd = "advertised length - 1"; break;
	case 3: {
		// no limit negotiated: the largest conformant record that fits the input buffer
		size_t room = vi - 5;
		plen = room > ovh_min + (cbc ? bs : 0) ? room - ovh_min - (cbc ? bs : 0) : 1;
		if (plen > 16384) plen = 16384;
		expect = 0; pd = "largest conformant record that fits the input buffer";
		if (negotiated) { plen = advertised; }
		break;
	}
	case 4: plen = 16385; expect = -1; pd = "plaintext of 16385 bytes (more than the protocol allows)"; break;
	default: plen = 1; expect = 0; pd = "one byte"; break;
	}
	if (plen == 0) plen = 1;
	Bytes pt(plen);
	for (size_t i = 0; i < plen; i++) pt[i] = stream_byte(S.stream_seed[d], S.sent[d] + i);
	Bytes payload = c0.encrypt(23, version, pt.data(), plen, eo);
	std::string desc = fmt("%s TLS%s victim=%s in=%zu %s: record with %s (%zu plaintext bytes, %zu on the wire)", si->name, ver_name(version), victim ? "server" : "client", vi,
		negotiated ? fmt("limit %zu negotiated", advertised).c_str() : "no limit negotiated", pd.c_str(), plen, payload.size());
	bool fits = payload.size() + 5 <= vi;
	if (expect == 0 && !fits) expect = BR_ERR_TOO_LARGE;
	if (probe == 4) {
		// over the protocol maximum: BAD_LENGTH (or TOO_LARGE when it does not even fit)
	}
	Record r;
	r.type = 23; r.version = (uint16_t)version; r.payload = payload;
	S.sent[d] += plen;    // the crafted plaintext continues the sender's stream
	S.mitm = [&](int dir, const Record &rr, std::vector<Bytes> &out) { if (dir != d) out.push_back(rr.raw()); };
	S.transit[d].push(r.raw());
	size_t before = S.recvd[d];
	S.run(1000000);
	if (expect == 0) {
		VF_CHECK(v->error() == 0 && S.recvd[d] == before + plen, "%s: not accepted: victim error %d, %zu of %zu bytes delivered", desc.c_str(), v->error(), S.recvd[d] - before, plen);
	} else {
		VF_CHECK(v->closed() && v->error() != 0 && S.recvd[d] == before, "%s: victim closed=%d error %d, %zu bytes delivered (must be refused without delivering anything)", desc.c_str(),
			v->closed(), v->error(), S.recvd[d] - before);
		if (expect > 0) VF_CHECK(v->error() == expect, "%s: victim error %d, documented %d", desc.c_str(), v->error(), expect);
		// (which error: BAD_LENGTH from the header check, TOO_LARGE, or - for CBC, where the plaintext length is
		// only known after decryption - BAD_MAC; the property only requires refusal without delivery)
	}
	stats.cls(fmt("accept:probe%u", probe));
	stats.cls(expect == 0 ? "accept:accepted" : "accept:refused");
	stats.eval(fmt("acc/%04x/%04x/%d/%zu/%d/%u/%zu", si->id, version, victim, vi, negotiated, probe, plen));
	if (stats.want_sample()) stats.sample(desc + (expect == 0 ? " => delivered" : fmt(" => refused, error %d", v->error())));
}

static void kind_minsize(Tape &t)
{
	bool server = t.flag();
	Profile p;
	p.layout = (Layout)(t.u8() % 3);
	long d = 1 + t.u8() % 40;
	// Sizes below the documented minimum are outside the property ("from the documented minimum upwards") and are
	// not judged: set_buffer reports BAD_PARAM, but a later reset clears that error (observation, see DESIGN.md).
	bool below = false;
	(void)t.flag();
	if (p.layout == L_MONO) p.buflen = (size_t)(837 - (below ? d : 0));
	else if (p.layout == L_BIDI) p.buflen = (size_t)(1434 - (below ? d : 0));
	else { p.ilen = (size_t)(837 - (below && (d & 1) ? d : 0)); p.olen = (size_t)(597 - (below && !(d & 1) ? d : 0)); }
	size_t i, o;
	std::unique_ptr<BearClient> c;
	std::unique_ptr<BearServer> s;
	BearEndpoint *e;
	if (server) { s.reset(new BearServer(p)); e = s.get(); } else { c.reset(new BearClient(p)); e = c.get(); }
	bool ok = server ? s->reset() : c->reset();
	if (p.layout == L_BIDI && p.buflen < 1434) { i = 0; o = 0; } else io_sizes(p, i, o);
	bool want = ref_mfl(i, o) != 0;
	VF_CHECK(ok == want, "%s with %s buffers in=%zu out=%zu (total %zu): reset returned %d, documented minimum says %d", server ? "server" : "client",
		p.layout == L_MONO ? "mono" : p.layout == L_BIDI ? "bidi" : "split", i, o, p.buflen, ok, want);
	if (!ok) VF_CHECK(e->error() == BR_ERR_BAD_PARAM && e->state() == BR_SSL_CLOSED, "undersized buffer: error %d state %#x, want BR_ERR_BAD_PARAM / closed", e->error(), e->state());
	stats.cls(want ? "minsize:accepted" : "minsize:refused");
	stats.eval(fmt("min/%d/%d/%zu/%zu/%zu", server, p.layout, p.buflen, p.ilen, p.olen));
}

// Probe: renegotiation inside a connection whose first handshake negotiated max_fragment_length 512.  An
// independent client is free to renegotiate without the extension, or with another value (nothing ties it
// to its first request); a server that then echoes the value left over from the first handshake sends an
// unsolicited / mismatching extension, which a conformant client must answer with a fatal alert
// ("a mismatching echo is refused"; "the server ... echoes exactly that code").
static void probe_reneg_stale_echo()
{
	for (int variant = 0; variant < 2; variant++) {
		Profile cp, sp;
		cp.suites = { 0x009C }; sp.suites = { 0x009C };
		cp.vmin = cp.vmax = sp.vmin = sp.vmax = 0x0303;
		cp.layout = L_SPLIT; cp.ilen = 512 + 325; cp.olen = 512 + 85;
		sp.layout = L_SPLIT;
		BearClient c(cp);
		BearServer s(sp);
		VF_CHECK(c.reset() && s.reset(), "probe: reset");
		Session S(&c, &s);
		S.run(100000);
		VF_CHECK(S.established && s.eng->reneg == 2 && server_hello_mfln_code(S) == 1, "probe: first handshake (echo %d)", server_hello_mfln_code(S));
		wt::RecCodec out, back;
		VF_CHECK(S.tap.live_codec(0, out) && S.tap.live_codec(1, back), "probe: codec");
		Bytes fin_c;
		{
			Bytes hs;
			for (auto &p : S.tap.plain[0]) if (p.epoch == 1 && p.type == 22) hs.insert(hs.end(), p.data.begin(), p.data.end());
			if (hs.size() >= 16 && hs[0] == 20) fin_c.assign(hs.begin() + 4, hs.begin() + 16);
		}
		VF_CHECK(fin_c.size() == 12, "probe: client Finished not found");
		ClientHelloSpec ch;
		ch.suites = { 0x009C };
		ch.add_sigalgs({ { 4, 1 } });
		ch.add_reneg(fin_c);
		if (variant == 1) ch.add_mfln(2);        // asks for 1024 this time
		Bytes m = ch.message();
		Bytes payload = out.encrypt(22, 0x0303, m.data(), m.size());
		Bytes wire = { 22, 3, 3, (uint8_t)(payload.size() >> 8), (uint8_t)payload.size() };
		wire.insert(wire.end(), payload.begin(), payload.end());
		size_t off = 0;
		Bytes answer;
		for (int g = 0; g < 2000; g++) {
			const uint8_t *p;
			size_t n;
			bool prog = false;
			if ((n = s.wire_out_peek(&p)) > 0) { answer.insert(answer.end(), p, p + n); s.wire_out_ack(n); prog = true; }
			size_t room = s.wire_in_room();
			if (room && off < wire.size()) { size_t k = std::min(room, wire.size() - off); s.wire_in(wire.data() + off, k); off += k; prog = true; }
			if (!prog || s.closed()) break;
		}
		VF_CHECK(!s.closed() && answer.size() > 100, "probe: the server did not answer the renegotiation ClientHello (error %d, %zu bytes)", s.error(), answer.size());
		// decrypt the flight and read the ServerHello extensions
		Bytes clear;
		for (size_t o = 0; o + 5 <= answer.size(); ) {
			size_t rl = ((size_t)answer[o + 3] << 8) | answer[o + 4];
			if (o + 5 + rl > answer.size()) break;
			Bytes pt;
			VF_CHECK(back.decrypt(answer[o], 0x0303, answer.data() + o + 5, rl, pt), "probe: server record does not decrypt");
			clear.push_back(answer[o]); clear.push_back(3); clear.push_back(3); clear.push_back((uint8_t)(pt.size() >> 8)); clear.push_back((uint8_t)pt.size());
			clear.insert(clear.end(), pt.begin(), pt.end());
			o += 5 + rl;
		}
		ServerFlight f = parse_server_flight(clear);
		VF_CHECK(f.got_hello, "probe: no ServerHello in the renegotiation answer (%s)", f.parse_error.c_str());
		int want = -1;      // no request -> no echo; a request for 1024 (above the limit lowered to 512 earlier) may be ignored, never answered with another value
		if (f.has_mfln && (int)f.mfln != (variant == 1 ? 2 : want)) {
			std::string what = fmt("renegotiation after a first handshake that negotiated max_fragment_length 512: the second ClientHello %s, the ServerHello carries max_fragment_length code %u "
				"(the value left in peer_log_max_frag_len by the first handshake; read-ClientHello does not clear it)", variant == 0 ? "has no such extension" : "asks for 1024 (code 2)", f.mfln);
			if (known("stale-mfln-echo-on-renegotiation")) stats.known_finding("stale-mfln-echo-on-renegotiation", what);
			else failf("%s", what.c_str());
		}
	}
}
// Probe: "the client reports the extension as negotiated exactly when the server echoed it" - also on the connection
// that follows one where it was negotiated: after the reset, and when the new handshake dies before any ServerHello.
static void probe_stale_negotiated_flag()
{
	Profile cp, sp;
	cp.suites = { 0x009C }; sp.suites = { 0x009C };
	cp.layout = L_SPLIT; cp.ilen = 512 + 325; cp.olen = 512 + 85;
	sp.layout = L_SPLIT;
	BearClient c(cp);
	{
		BearServer s(sp);
		VF_CHECK(c.reset() && s.reset(), "probe: reset");
		Session S(&c, &s);
		S.run(100000);
		VF_CHECK(S.established && br_ssl_engine_get_mfln_negotiated(c.eng) == 1, "probe: first connection did not negotiate the extension");
	}
	VF_CHECK(c.reset(), "probe: second reset");
	int after_reset = br_ssl_engine_get_mfln_negotiated(c.eng);
	// the peer answers the ClientHello with a fatal alert: no ServerHello at all
	const uint8_t *p;
	size_t n = c.wire_out_peek(&p);
	c.wire_out_ack(n);
	static const uint8_t AL[] = { 21, 3, 3, 0, 2, 2, 40 };
	size_t off = 0;
	while (off < sizeof AL && !c.closed()) { size_t room = c.wire_in_room(); if (!room) break; size_t k = std::min(room, sizeof AL - off); c.wire_in(AL + off, k); off += k; }
	VF_CHECK(c.closed() && c.error() == BR_ERR_RECV_FATAL_ALERT + 40, "probe: alert not taken (error %d)", c.error());
	int after_fail = br_ssl_engine_get_mfln_negotiated(c.eng);
	VF_CHECK(after_reset == 0 && after_fail == 0, "a client that negotiated max_fragment_length on its previous connection reports get_mfln_negotiated()=%d after the reset and %d after the new handshake "
		"failed before any ServerHello: nothing was echoed on this connection", after_reset, after_fail);
}
static bool probes_done = false;

void target_run(Tape &t)
{
	if (!probes_done) { probes_done = true; probe_reneg_stale_echo(); probe_stale_negotiated_flag(); }
	unsigned k = t.u8() % 8;
	if (k <= 2) kind_session(t);
	else if (k == 3) kind_openssl(t);
	else if (k == 4) kind_mitm(t);
	else if (k <= 6) kind_accept(t);
	else kind_minsize(t);
}

// Enumerator: the whole threshold grid for split buffers (client class x
// server class x {-1,0,+1}) in four modes, and the acceptance probes for
// every mode x class x probe.
void target_enum(int shard, int nshards)
{
	uint64_t n = 0;
	for (unsigned m = 0; m < 8; m++)
	for (unsigned v = 0; v < 3; v++)
	for (unsigned cc = 0; cc < 5; cc++)
	for (unsigned sc = 0; sc < 5; sc++)
	for (unsigned dl = 0; dl < 3; dl++) {
		if (wt::suite_by_id(MODES[m])->tls12_only && v != 2) continue;
		if (m >= 4 && dl != 0) continue;
		if ((n++ % (uint64_t)nshards) != (uint64_t)shard) continue;
		// kind 0: mode, version, client: layout split(2), cls, cls2, dsel | server the same | pols | writes
		enum_tape({ 0, (uint8_t)m, (uint8_t)v, 2, (uint8_t)cc, (uint8_t)cc, (uint8_t)dl, 1, (uint8_t)((m + sc) % 3), (uint8_t)sc, (uint8_t)sc, (uint8_t)dl, 1, 0, 3,
			1, 3, 2, 6, 1, 4, 2 });
	}
	for (unsigned m = 0; m < 8; m++)
	for (unsigned v = 0; v < 3; v++)
	for (unsigned vic = 0; vic < 2; vic++)
	for (unsigned cls = 0; cls < 5; cls++)
	for (unsigned neg = 0; neg < 2; neg++)
	for (unsigned probe = 0; probe < 6; probe++) {
		if (wt::suite_by_id(MODES[m])->tls12_only && v != 2) continue;
		if ((n++ % (uint64_t)nshards) != (uint64_t)shard) continue;
		enum_tape({ 5, (uint8_t)m, (uint8_t)v, (uint8_t)vic, (uint8_t)cls, (uint8_t)neg, (uint8_t)(probe & 1), (uint8_t)(probe % 3 == 0 ? 0 : 1), (uint8_t)(probe * 37), (uint8_t)probe });
	}
}
