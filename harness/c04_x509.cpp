// C04 — X.509 validation accepts a chain exactly when the documented rules
// are met.
//
// Model-based differential testing.  The generated value is an ABSTRACT
// description of a chain (1..4 certificates: keys from a pool, names as
// attribute lists, validity instants, extensions, signer, signature hash)
// with zero, one or two defects, plus a validator configuration (anchors,
// static or on-demand; expected server name; instant; enabled hashes; minimum
// RSA size; requested name elements).  The harness DER writer serialises it
// and OpenSSL signs it; the reference validator below evaluates the
// documented rules (bearssl_x509.h, implementation notes of x509_minimal.t0)
// on the abstract description - it never parses DER - and yields OK (+ leaf
// key, usages, name elements) or the documented error of the first rule
// violated in processing order.
// Metamorphic sub-checks: same anchors supplied on demand give the same
// verdict and key; the notBefore/notAfter instants handed to a time callback
// equal the model's; every byte of every TBS and signature of an accepted
// CA-anchored chain, altered, gives rejection (enumerator).
#include "common/x509lab.hpp"
#include "common/core.hpp"
#include "bearssl.h"
#include <map>
#include <algorithm>

using namespace vf;
namespace xl = x509lab;
using xl::Bytes;

const char *target_name = "c04_x509";
const int target_tape_min = 40, target_tape_max = 400;

static xl::KeyPool pool;
static std::vector<int> K_RSA_OK, K_RSA_WEAK, K_EC, K_ALL_OK;

void target_init()
{
	pool.init(4096);
	for (size_t i : pool.rsa) {
		const xl::Key &k = pool.at(i);
		if (k.n.size() >= 128) { if (k.bits <= 2056 || k.bits == 4096) K_RSA_OK.push_back((int)i); }
		else K_RSA_WEAK.push_back((int)i);
	}
	for (size_t i : pool.ec) K_EC.push_back((int)i);
	K_ALL_OK = K_RSA_OK;
	K_ALL_OK.insert(K_ALL_OK.end(), K_EC.begin(), K_EC.end());
	std::string s;
	for (int i : K_ALL_OK) s += pool.at((size_t)i).name + " ";
	stats.notes["keys"] = s + "| weak: " + std::to_string(K_RSA_WEAK.size());
}

// ------------------------------------------------------------- abstract description
enum ExtKind { X_BC, X_KU, X_SAN, X_POLICIES, X_IGNORABLE, X_UNKNOWN };
struct AExt {
	ExtKind kind;
	int critical = 0;          // 0 absent, 1 TRUE, 2 explicit FALSE
	// BC
	bool ca = false, explicit_false = false;
	int pathlen = -1;
	// KU
	unsigned bits = 0;
	// SAN
	std::vector<xl::GeneralName> names;
	// POLICIES: 0 no qualifier, 1 CPS qualifier, 2 other qualifier
	int qualifier = 0;
	// IGNORABLE / UNKNOWN
	std::string oid;
};
enum KeySpecial { KS_NONE = 0, KS_UNKNOWN_ALG, KS_UNKNOWN_CURVE };
struct ACert {
	int version = 2;
	xl::Name issuer, subject;
	xl::Time nb, na;
	int key = 0;
	KeySpecial key_special = KS_NONE;
	std::vector<AExt> exts;
	int signer = 0;
	int hash = 4;
	int alg_kind = 0;          // 0 = follows signer key; else forced kind in the algorithm identifiers
	int corrupt = 0;          // see CertSpec::corrupt_sig
	bool signable = true;      // set by the builder (an RSA key too small for the digest cannot sign)
};
struct AAnchor { xl::Name name; int key; bool ca; };
struct AConfig {
	std::vector<AAnchor> anchors;
	bool has_name = true;
	std::string server_name;
	xl::Time now;
	unsigned hashes = 0x7E;    // bit id set = hash enabled (ids 1..6)
	int min_rsa = 0;           // 0 = default (128 bytes); else byte length given to set_minrsa
	bool dynamic = false;
	size_t cn_buf = 32, dns_buf = 24;
};
struct Verdict {
	unsigned err = 0;          // 0 = accepted
	int decided_at = -1;       // certificate index at which OK was reached
	bool direct = false;
	bool have_key = false;     // get_pkey defined (accepted, or NOT_TRUSTED at the end)
	int ee_key = -1;
	unsigned usages = 0x30;
	int cn_status = 0, dns_status = 0;
	std::string cn, dns;
};

static bool same_name(const xl::Name &a, const xl::Name &b) { return a.encode() == b.encode(); }
static bool ascii_ieq(const uint8_t *a, const uint8_t *b, size_t n)
{
	for (size_t i = 0; i < n; i++) {
		int x = a[i], y = b[i];
		if (x >= 'A' && x <= 'Z') x += 32;
		if (y >= 'A' && y <= 'Z') y += 32;
		if (x != y) return false;
	}
	return true;
}
// documented name matching: whole-string case-insensitive equality, or a
// certificate name "*.rest" against the server name minus its first label
static bool name_matches(const Bytes &cert_name, const std::string &server)
{
	if (cert_name.size() == server.size() && ascii_ieq(cert_name.data(), (const uint8_t *)server.data(), server.size())) return true;
	if (cert_name.size() >= 2 && cert_name[0] == '*' && cert_name[1] == '.') {
		size_t dot = server.find('.');
		if (dot == std::string::npos) return false;
		std::string rest = server.substr(dot + 1);
		if (rest.size() == cert_name.size() - 2 && ascii_ieq(cert_name.data() + 2, (const uint8_t *)rest.data(), rest.size())) return true;
	}
	return false;
}
// text of an attribute value of ASCII content in its string type
static bool attr_text(const xl::Attr &a, Bytes &out)
{
	out.clear();
	switch (a.tag) {
	case xl::T_UTF8: case xl::T_PRINTABLE: case xl::T_IA5: case xl::T_TELETEX: case 0x12: out = a.value; return true;
	case xl::T_BMP: if (a.value.size() % 2) return false; for (size_t i = 0; i < a.value.size(); i += 2) { if (a.value[i]) return false; out.push_back(a.value[i + 1]); } return true;
	default: return false;
	}
}

static bool sig_valid(const ACert &c, int verifier_key)
{
	const xl::Key &vk = pool.at((size_t)verifier_key);
	int kind = c.alg_kind ? c.alg_kind : (int)pool.at((size_t)c.signer).kind;
	return c.signer == verifier_key && !c.corrupt && c.signable && kind == (int)vk.kind;
}
static int alg_kind_of(const ACert &c) { return c.alg_kind ? c.alg_kind : (int)pool.at((size_t)c.signer).kind; }

static Verdict reference(const std::vector<ACert> &chain, const AConfig &cfg)
{
	Verdict v;
	if (chain.empty()) { v.err = BR_ERR_X509_EMPTY_CHAIN; return v; }
	uint32_t td, ts;
	xl::days_seconds(cfg.now, td, ts);
	size_t min_n = (size_t)(cfg.min_rsa ? cfg.min_rsa : 128);
	for (size_t i = 0; i < chain.size(); i++) {
		const ACert &c = chain[i];
		bool ee = i == 0;
		if (c.version > 2) { v.err = BR_ERR_X509_UNSUPPORTED; return v; }
		uint32_t bd, bs, ad, as;
		xl::days_seconds(c.nb, bd, bs);
		xl::days_seconds(c.na, ad, as);
		if (td < bd || (td == bd && ts < bs) || td > ad || (td == ad && ts > as)) { v.err = BR_ERR_X509_EXPIRED; return v; }
		bool eename = false;
		if (ee) {
			// common names (every CN attribute is a candidate); first CN is the name element
			for (auto &rdn : c.subject.rdns) for (auto &a : rdn) if (a.oid == xl::OID_CN) {
				Bytes txt;
				// (a string with an embedded NUL is reported as an invalid encoding by the decoder: it can
				// neither match nor be extracted)
				bool ok = attr_text(a, txt) && txt.size() <= 255 && std::find(txt.begin(), txt.end(), 0) == txt.end();
				if (ok && cfg.has_name && name_matches(txt, cfg.server_name)) eename = true;
				if (v.cn_status == 0) {
					if (ok && txt.size() < cfg.cn_buf) { v.cn_status = 1; v.cn.assign(txt.begin(), txt.end()); } else v.cn_status = -1;
				}
			}
		} else if (!same_name(c.subject, chain[i - 1].issuer)) { v.err = BR_ERR_X509_DN_MISMATCH; return v; }
		if (c.key_special != KS_NONE) { v.err = BR_ERR_X509_UNSUPPORTED; return v; }
		const xl::Key &k = pool.at((size_t)c.key);
		if (k.kind == xl::KK_RSA && k.n.size() < min_n) { v.err = BR_ERR_X509_WEAK_PUBLIC_KEY; return v; }
		if (ee) { v.ee_key = c.key; }
		else {
			const ACert &p = chain[i - 1];
			if (alg_kind_of(p) != (int)k.kind) { v.err = BR_ERR_X509_WRONG_KEY_TYPE; return v; }
			if (!sig_valid(p, c.key)) { v.err = BR_ERR_X509_BAD_SIGNATURE; return v; }
		}
		bool seen_bc = false;
		if (c.version == 2) for (auto &x : c.exts) {
			switch (x.kind) {
			case X_BC:
				if (ee) break;
				seen_bc = true;
				if (!x.ca) { v.err = BR_ERR_X509_NOT_CA; return v; }
				// pathLenConstraint: number of intermediate CA certificates allowed below this one
				if (x.pathlen >= 0 && x.pathlen < (int)i - 1) { v.err = BR_ERR_X509_NOT_CA; return v; }
				break;
			case X_KU:
				if (x.bits == 0) { v.err = BR_ERR_X509_FORBIDDEN_KEY_USAGE; return v; }
				if (ee) {
					v.usages = 0;
					if (x.bits & ((1u << 2) | (1u << 3) | (1u << 4))) v.usages |= BR_KEYTYPE_KEYX;
					if (x.bits & ((1u << 0) | (1u << 1))) v.usages |= BR_KEYTYPE_SIGN;
				} else if (!(x.bits & (1u << 5))) { v.err = BR_ERR_X509_FORBIDDEN_KEY_USAGE; return v; }
				break;
			case X_SAN:
				if (!ee) break;
				eename = false;
				for (auto &g : x.names) if (g.tag == 0x82) {
					bool ok = std::find(g.value.begin(), g.value.end(), 0) == g.value.end();
					if (ok && cfg.has_name && name_matches(g.value, cfg.server_name)) eename = true;
					if (v.dns_status == 0) { if (ok && g.value.size() < cfg.dns_buf) { v.dns_status = 1; v.dns.assign(g.value.begin(), g.value.end()); } else v.dns_status = -1; }
				}
				break;
			case X_POLICIES: if (x.critical == 1 && x.qualifier == 2) { v.err = BR_ERR_X509_CRITICAL_EXTENSION; return v; } break;
			case X_IGNORABLE: break;
			case X_UNKNOWN: if (x.critical == 1) { v.err = BR_ERR_X509_CRITICAL_EXTENSION; return v; } break;
			}
		}
		if (ee && cfg.has_name && !eename) { v.err = BR_ERR_X509_BAD_SERVER_NAME; return v; }
		if (ee) {
			for (auto &a : cfg.anchors) if (!a.ca && same_name(a.name, c.subject) && a.key == c.key) { v.err = 0; v.decided_at = 0; v.direct = true; v.have_key = true; return v; }
		}
		if (!ee && !seen_bc) { v.err = BR_ERR_X509_NOT_CA; return v; }
		if (c.hash < 2 || c.hash > 6 || !((cfg.hashes >> c.hash) & 1)) { v.err = BR_ERR_X509_UNSUPPORTED; return v; }
		for (auto &a : cfg.anchors) if (a.ca && same_name(a.name, c.issuer) && sig_valid(c, a.key)) { v.err = 0; v.decided_at = (int)i; v.have_key = true; return v; }
	}
	v.err = BR_ERR_X509_NOT_TRUSTED;
	v.have_key = true;
	return v;
}

// ------------------------------------------------------------- serialisation
static xl::CertSpec to_spec(const ACert &c)
{
	xl::CertSpec s;
	s.version = c.version;
	s.serial = Bytes{ 0x5A, (uint8_t)c.key, (uint8_t)c.signer };
	s.issuer = c.issuer; s.subject = c.subject;
	s.not_before = c.nb; s.not_after = c.na;
	s.subject_key = c.key;
	if (c.key_special == KS_UNKNOWN_ALG) s.spki_raw = xl::der::seq({ xl::der::seq({ xl::der::oid("1.2.840.10040.4.1"), xl::der::null() }), xl::der::bitstring(Bytes(64, 0x11)) });
	else if (c.key_special == KS_UNKNOWN_CURVE) s.spki_raw = xl::spki_fake_ec("1.3.132.0.10", 65);
	s.signer_key = c.signer;
	s.sig_hash = c.hash;
	s.tbs_sig_kind = c.alg_kind;
	s.corrupt_sig = c.corrupt;
	for (auto &x : c.exts) {
		switch (x.kind) {
		case X_BC: s.exts.push_back(xl::ext_basic_constraints(x.ca, x.pathlen, x.critical, x.explicit_false)); break;
		case X_KU: s.exts.push_back(xl::ext_key_usage(x.bits, x.critical)); break;
		case X_SAN: s.exts.push_back(xl::ext_san(x.names, x.critical)); break;
		case X_POLICIES: {
			std::vector<Bytes> pi{ xl::der::oid("2.5.29.32.0") };
			if (x.qualifier == 1) pi.push_back(xl::der::seq({ xl::der::seq({ xl::der::oid("1.3.6.1.5.5.7.2.1"), xl::der::tlv(0x16, xl::B("http://cps/")) }) }));
			else if (x.qualifier == 2) pi.push_back(xl::der::seq({ xl::der::seq({ xl::der::oid("1.3.6.1.5.5.7.2.2"), xl::der::seq({ xl::der::tlv(0x0C, xl::B("notice")) }) }) }));
			s.exts.push_back(xl::Ext{ "2.5.29.32", x.critical, xl::der::seq({ xl::der::seq(pi) }) });
			break;
		}
		case X_IGNORABLE: case X_UNKNOWN: s.exts.push_back(xl::Ext{ x.oid, x.critical, xl::der::octets(Bytes(4, 0x77)) }); break;
		}
	}
	return s;
}

// ------------------------------------------------------------- running the library
struct TimeSpy { std::vector<uint32_t> seen; uint32_t td, ts; };
static int time_cb(void *ctx, uint32_t nbd, uint32_t nbs, uint32_t nad, uint32_t nas)
{
	TimeSpy *t = (TimeSpy *)ctx;
	t->seen.insert(t->seen.end(), { nbd, nbs, nad, nas });
	if (t->td < nbd || (t->td == nbd && t->ts < nbs)) return -1;
	if (t->td > nad || (t->td == nad && t->ts > nas)) return 1;
	return 0;
}
struct TaStore {
	std::vector<br_x509_trust_anchor> tas;
	std::vector<Bytes> blobs;
	void build(const std::vector<AAnchor> &as)
	{
		blobs.reserve(as.size() * 3 + 4);
		for (auto &a : as) {
			br_x509_trust_anchor ta;
			memset(&ta, 0, sizeof ta);
			blobs.push_back(a.name.encode());
			ta.dn.data = blobs.back().data(); ta.dn.len = blobs.back().size();
			ta.flags = a.ca ? BR_X509_TA_CA : 0;
			const xl::Key &k = pool.at((size_t)a.key);
			if (k.kind == xl::KK_RSA) {
				ta.pkey.key_type = BR_KEYTYPE_RSA;
				blobs.push_back(k.n); ta.pkey.key.rsa.n = blobs.back().data(); ta.pkey.key.rsa.nlen = k.n.size();
				blobs.push_back(k.e); ta.pkey.key.rsa.e = blobs.back().data(); ta.pkey.key.rsa.elen = k.e.size();
			} else {
				ta.pkey.key_type = BR_KEYTYPE_EC; ta.pkey.key.ec.curve = k.curve;
				blobs.push_back(k.q); ta.pkey.key.ec.q = blobs.back().data(); ta.pkey.key.ec.qlen = k.q.size();
			}
			tas.push_back(ta);
		}
	}
};
struct DynCtx { TaStore *st; int calls = 0; };
static const br_x509_trust_anchor *dyn_cb(void *ctx, void *hashed_dn, size_t len)
{
	DynCtx *d = (DynCtx *)ctx;
	d->calls++;
	for (auto &ta : d->st->tas) {
		br_sha256_context sc;
		uint8_t h[32];
		br_sha256_init(&sc);
		br_sha256_update(&sc, ta.dn.data, ta.dn.len);
		br_sha256_out(&sc, h);
		if (len == 32 && memcmp(h, hashed_dn, 32) == 0) {
			br_x509_trust_anchor *c = (br_x509_trust_anchor *)malloc(sizeof *c);
			*c = ta;
			uint8_t *hd = (uint8_t *)malloc(32);
			memcpy(hd, h, 32);
			c->dn.data = hd; c->dn.len = 32;
			return c;
		}
	}
	return nullptr;
}
static void dyn_free(void *, const br_x509_trust_anchor *ta) { free((void *)ta->dn.data); free((void *)ta); }

struct LibOut {
	unsigned err;
	bool have_key = false;
	int key_type = 0, curve = 0;
	Bytes a, b;
	unsigned usages = 0;
	int cn_status = 0, dns_status = 0;
	std::string cn, dns;
	std::vector<uint32_t> times;
};
// prior: what the same context validated before this chain (a TLS engine keeps one validator for all its handshakes,
// renegotiations included): 0 nothing, 1 the same chain, 2 the same chain abandoned after its first certificate,
// 3 the same chain in reverse order, 4 an empty chain.  start_chain() must make the outcome independent of it.
static LibOut run_lib(const std::vector<Bytes> &ders, const AConfig &cfg, bool dynamic, unsigned implsel, bool use_time_cb, size_t chunk, unsigned prior = 0)
{
	TaStore st;
	st.build(cfg.anchors);
	br_x509_minimal_context xc;
	br_x509_minimal_init_full(&xc, dynamic ? nullptr : st.tas.data(), dynamic ? 0 : st.tas.size());
	DynCtx dc{ &st };
	if (dynamic) br_x509_minimal_set_dynamic(&xc, &dc, dyn_cb, dyn_free);
	if (implsel % 3 == 1) { br_x509_minimal_set_rsa(&xc, &br_rsa_i15_pkcs1_vrfy); br_x509_minimal_set_ecdsa(&xc, &br_ec_all_m15, &br_ecdsa_i15_vrfy_asn1); }
	else if (implsel % 3 == 2) { br_x509_minimal_set_rsa(&xc, br_rsa_pkcs1_vrfy_get_default()); br_x509_minimal_set_ecdsa(&xc, br_ec_get_default(), br_ecdsa_vrfy_asn1_get_default()); }
	for (int id = 1; id <= 6; id++) if (!((cfg.hashes >> id) & 1)) br_x509_minimal_set_hash(&xc, id, nullptr);
	if (cfg.min_rsa) br_x509_minimal_set_minrsa(&xc, cfg.min_rsa);
	uint32_t td, ts;
	xl::days_seconds(cfg.now, td, ts);
	TimeSpy spy{ {}, td, ts };
	if (use_time_cb) br_x509_minimal_set_time_callback(&xc, &spy, time_cb); else br_x509_minimal_set_time(&xc, td, ts);
	static const unsigned char OID_CN_[] = { 3, 0x55, 0x04, 0x03 }, OID_DNS[] = { 0, 2 };
	std::vector<char> cnb(cfg.cn_buf, 'x'), dnb(cfg.dns_buf, 'x');
	br_name_element ne[2] = { { OID_CN_, cnb.data(), cnb.size(), 0 }, { OID_DNS, dnb.data(), dnb.size(), 0 } };
	br_x509_minimal_set_name_elements(&xc, ne, 2);
	const br_x509_class **v = &xc.vtable;
	if (prior) {
		(*v)->start_chain(v, cfg.has_name ? cfg.server_name.c_str() : nullptr);
		std::vector<Bytes> first = prior == 4 ? std::vector<Bytes>() : ders;
		if (prior == 3) std::reverse(first.begin(), first.end());
		if (prior == 2 && first.size() > 1) first.resize(1);
		for (auto &d : first) {
			(*v)->start_cert(v, (uint32_t)d.size());
			(*v)->append(v, d.data(), d.size());
			(*v)->end_cert(v);
		}
		if (prior != 2) (void)(*v)->end_chain(v);
		spy.seen.clear();
		dc.calls = 0;
	}
	(*v)->start_chain(v, cfg.has_name ? cfg.server_name.c_str() : nullptr);
	for (auto &d : ders) {
		(*v)->start_cert(v, (uint32_t)d.size());
		if (chunk == 0) (*v)->append(v, d.data(), d.size());
		else for (size_t off = 0; off < d.size(); off += chunk) (*v)->append(v, d.data() + off, std::min(chunk, d.size() - off));
		(*v)->end_cert(v);
	}
	LibOut o;
	o.err = (*v)->end_chain(v);
	unsigned us = 0;
	const br_x509_pkey *pk = (*v)->get_pkey(v, &us);
	if (pk) {
		o.have_key = true;
		o.key_type = pk->key_type;
		o.usages = us;
		if (pk->key_type == BR_KEYTYPE_RSA) { o.a.assign(pk->key.rsa.n, pk->key.rsa.n + pk->key.rsa.nlen); o.b.assign(pk->key.rsa.e, pk->key.rsa.e + pk->key.rsa.elen); }
		else if (pk->key_type == BR_KEYTYPE_EC) { o.curve = pk->key.ec.curve; o.a.assign(pk->key.ec.q, pk->key.ec.q + pk->key.ec.qlen); }
	}
	o.cn_status = ne[0].status; o.dns_status = ne[1].status;
	if (ne[0].status == 1) o.cn = std::string(cnb.data(), strnlen(cnb.data(), cnb.size()));
	if (ne[1].status == 1) o.dns = std::string(dnb.data(), strnlen(dnb.data(), dnb.size()));
	o.times = spy.seen;
	return o;
}

// ------------------------------------------------------------- generator
static const char *ERRNAME(unsigned e)
{
	switch (e) {
	case 0: return "OK"; case BR_ERR_X509_EMPTY_CHAIN: return "EMPTY_CHAIN"; case BR_ERR_X509_UNSUPPORTED: return "UNSUPPORTED"; case BR_ERR_X509_WRONG_KEY_TYPE: return "WRONG_KEY_TYPE";
	case BR_ERR_X509_BAD_SIGNATURE: return "BAD_SIGNATURE"; case BR_ERR_X509_EXPIRED: return "EXPIRED"; case BR_ERR_X509_DN_MISMATCH: return "DN_MISMATCH"; case BR_ERR_X509_BAD_SERVER_NAME: return "BAD_SERVER_NAME";
	case BR_ERR_X509_CRITICAL_EXTENSION: return "CRITICAL_EXTENSION"; case BR_ERR_X509_NOT_CA: return "NOT_CA"; case BR_ERR_X509_FORBIDDEN_KEY_USAGE: return "FORBIDDEN_KEY_USAGE";
	case BR_ERR_X509_WEAK_PUBLIC_KEY: return "WEAK_PUBLIC_KEY"; case BR_ERR_X509_NOT_TRUSTED: return "NOT_TRUSTED"; case BR_ERR_X509_LIMIT_EXCEEDED: return "LIMIT_EXCEEDED";
	}
	return "other";
}
static const xl::Time NOW{ 2020, 6, 15, 12, 0, 30 };
static xl::Time shifted(Tape &t, bool before)
{
	// instants around NOW: far, a day, a second, equal
	unsigned k = t.u8() % 8;
	xl::Time x = NOW;
	switch (k) {
	case 0: x.y += before ? -5 : 9; break;
	case 1: x.d += before ? -1 : 1; break;
	case 2: x.s += before ? -1 : 1; break;
	case 3: break;   // equal to the instant: still valid on both ends
	case 4: x = before ? xl::Time{ 1950, 1, 1, 0, 0, 0 } : xl::Time{ 2049, 12, 31, 23, 59, 59 }; break;
	case 5: x = before ? xl::Time{ 1949, 12, 31, 23, 59, 59 } : xl::Time{ 2050, 1, 1, 0, 0, 0 }; break;   // GeneralizedTime by the 1950..2049 rule
	case 6: x = before ? xl::Time{ 2020, 2, 29, 23, 59, 59 } : xl::Time{ 9999, 12, 31, 23, 59, 59 }; break;
	default: x.y += before ? -1 : 1; x.enc = 1; break;   // GeneralizedTime for a year UTCTime could carry
	}
	return x;
}
static std::string rand_label(Tape &t, size_t n)
{
	std::string s;
	for (size_t i = 0; i < n; i++) { unsigned r = t.u8(); char c = (char)('a' + r % 26); if (r & 0x80) c = (char)(c - 32); s.push_back(c); }
	return s;
}
static std::string flip_case(Tape &t, std::string s)
{
	for (auto &c : s) if (((c >= 'a' && c <= 'z') || (c >= 'A' && c <= 'Z')) && (t.u8() & 1)) c ^= 0x20;
	return s;
}
static xl::Name ca_name(unsigned idx, unsigned variant)
{
	// variant 0: UTF8; 1: same text as PrintableString; 2: different case; 3: different text
	std::string cn = "Verif CA " + std::to_string(idx);
	unsigned tag = xl::T_UTF8;
	if (variant == 1) tag = xl::T_PRINTABLE;
	if (variant == 2) cn = "VERIF ca " + std::to_string(idx);
	if (variant == 3) cn = "Verif CA " + std::to_string(idx) + "x";
	return xl::Name::simple(cn, "Verif", tag);
}

struct Case {
	std::vector<ACert> chain;
	AConfig cfg;
	std::vector<std::string> defects;
	std::string desc;
	bool bom_name = false;      // the leaf name is the server name (or its wildcard form) preceded by U+FEFF
};

static Case generate(Tape &t)
{
	Case C;
	unsigned n = 1 + t.u8() % 4;
	if (t.u8() == 255) n = 0;
	C.cfg.now = NOW;
	// keys: chain[i].key; the key above the last certificate is the root anchor key
	std::vector<int> keys(n + 1);
	for (auto &k : keys) { unsigned r = t.u8(); k = (r % 8 == 7 && !K_RSA_OK.empty()) ? K_RSA_OK[(r / 8) % K_RSA_OK.size()] : K_ALL_OK[r % K_ALL_OK.size()]; }
	// big keys are slow: at most one per chain
	{ int big = 0; for (auto &k : keys) if (pool.at((size_t)k).kind == xl::KK_RSA && pool.at((size_t)k).bits > 2100) { if (big++) k = K_EC[0]; } }
	std::string host = rand_label(t, 1 + t.u8() % 5) + "." + rand_label(t, 1 + t.u8() % 6) + "." + (t.flag() ? "com" : rand_label(t, 2));
	C.cfg.server_name = host;
	C.cfg.has_name = t.u8() % 8 != 7;
	for (unsigned i = 0; i < n; i++) {
		ACert c;
		c.key = keys[i];
		c.signer = keys[i + 1];
		c.hash = t.pick<int>({ 2, 3, 4, 4, 5, 6 });
		c.nb = xl::Time{ 2019, 1, 1, 0, 0, 0 };
		c.na = xl::Time{ 2029, 12, 31, 23, 59, 59 };
		c.issuer = ca_name(i + 1, 0);
		if (i == 0) {
			c.subject = xl::Name::simple(flip_case(t, host), "Leaf", t.pick<unsigned>({ xl::T_UTF8, xl::T_PRINTABLE, xl::T_IA5, xl::T_TELETEX }));
			if (t.flag()) {
				AExt san; san.kind = X_SAN; san.critical = t.u8() % 3;
				san.names.push_back({ 0x81, xl::B("x@y.z") });
				san.names.push_back({ 0x82, xl::B(flip_case(t, host)) });
				if (t.flag()) san.names.push_back({ 0x87, Bytes{ 10, 0, 0, 1 } });
				c.exts.push_back(san);
			}
			if (t.flag()) { AExt ku; ku.kind = X_KU; ku.critical = 1; ku.bits = t.pick<unsigned>({ 0x01, 0x04, 0x05, 0x11, 0x03, 0x08, 0x10, 0x80, 0x1FF, 0x20 }); c.exts.push_back(ku); }
			if (t.flag()) { AExt bc; bc.kind = X_BC; bc.critical = 1; bc.ca = t.flag(); c.exts.push_back(bc); }
		} else {
			c.subject = ca_name(i, 0);
			AExt bc; bc.kind = X_BC; bc.critical = t.u8() % 3; bc.ca = true;
			bc.pathlen = t.flag() ? -1 : (int)(i - 1 + t.u8() % 3);
			c.exts.push_back(bc);
			if (t.flag()) { AExt ku; ku.kind = X_KU; ku.critical = 1; ku.bits = (1u << 5) | (t.flag() ? (1u << 6) : 0) | (t.flag() ? 1u : 0); c.exts.push_back(ku); }
		}
		// harmless extras
		unsigned ex = t.u8() % 8;
		if (ex == 1) { AExt x; x.kind = X_IGNORABLE; x.oid = t.pick<const char *>({ "2.5.29.35", "2.5.29.14", "2.5.29.18", "2.5.29.9", "2.5.29.31", "2.5.29.46", "1.3.6.1.5.5.7.1.1", "1.3.6.1.5.5.7.1.11" }); x.critical = t.u8() % 3; c.exts.push_back(x); }
		else if (ex == 2) { AExt x; x.kind = X_UNKNOWN; x.oid = "1.3.6.1.4.1.99999.1"; x.critical = t.flag() ? 0 : 2; c.exts.push_back(x); }
		else if (ex == 3) { AExt x; x.kind = X_POLICIES; x.critical = t.u8() % 3; x.qualifier = x.critical == 1 ? t.u8() % 2 : t.u8() % 3; c.exts.push_back(x); }
		if (t.u8() % 16 == 15) { c.version = 0; }   // v1: extensions are not emitted at all
		C.chain.push_back(c);
	}
	// v1 certificates carry no extensions: mirror that in the description
	for (auto &c : C.chain) if (c.version == 0) c.exts.clear();
	// anchors
	unsigned amode = t.u8() % 16;
	C.cfg.dynamic = t.flag();
	if (n > 0) {
		int rootkey = keys[n];
		switch (amode) {
		case 9: break;   // no anchor at all
		case 1: { int wk = K_ALL_OK[t.u8() % K_ALL_OK.size()]; if (wk == rootkey) wk = K_EC[1] == rootkey ? K_EC[2] : K_EC[1]; C.cfg.anchors.push_back({ ca_name(n, 0), wk, true }); C.defects.push_back("anchor-wrong-key"); break; }
		case 2: { size_t k = t.u8() % n; C.cfg.anchors.push_back({ C.chain[k].issuer, keys[k + 1], true }); break; }   // anchor for a middle issuer: chain cut short
		case 3: C.cfg.anchors.push_back({ C.chain[0].subject, keys[0], false }); break;                                // direct trust
		case 4: C.cfg.anchors.push_back({ C.chain[0].subject, keys[0], true }); C.defects.push_back("ca-anchor-named-as-leaf"); break;
		case 5: C.cfg.anchors.push_back({ ca_name(n, 0), rootkey, false }); C.defects.push_back("non-ca-anchor-named-as-issuer"); break;
		case 6: C.cfg.anchors.push_back({ ca_name(n, t.pick<unsigned>({ 1, 2, 3 })), rootkey, true }); C.defects.push_back("anchor-name-differs"); break;
		case 7: if (!C.cfg.dynamic) { C.cfg.anchors.push_back({ ca_name(n, 0), K_EC[2] == rootkey ? K_EC[1] : K_EC[2], true }); } C.cfg.anchors.push_back({ ca_name(n, 0), rootkey, true }); break;   // two anchors, one name
		case 8: C.cfg.anchors.push_back({ C.chain[0].subject, K_EC[2] == keys[0] ? K_EC[1] : K_EC[2], false }); C.defects.push_back("direct-trust-wrong-key"); break;
		default: C.cfg.anchors.push_back({ ca_name(n, 0), rootkey, true }); break;
		}
		// decoys with other names
		unsigned nd = t.u8() % 3;
		for (unsigned d = 0; d < nd; d++) C.cfg.anchors.push_back({ ca_name(20 + d, 0), K_ALL_OK[t.u8() % K_ALL_OK.size()], t.flag() });
		if (t.flag() && C.cfg.anchors.size() > 1) std::swap(C.cfg.anchors.front(), C.cfg.anchors.back());
	}
	// defects
	unsigned nd = t.u8() % 10;
	nd = nd < 4 ? 0 : nd < 9 ? 1 : 2;
	for (unsigned d = 0; d < nd && n > 0; d++) {
		size_t j = t.u8() % n;
		ACert &c = C.chain[j];
		unsigned k = t.u8() % 24;
		switch (k) {
		case 0: c.nb = shifted(t, false); C.defects.push_back(fmt("cert%zu notBefore later", j)); break;
		case 1: c.na = shifted(t, true); C.defects.push_back(fmt("cert%zu notAfter earlier", j)); break;
		case 2: c.nb = shifted(t, true); c.na = shifted(t, false); C.defects.push_back(fmt("cert%zu validity bounds moved (still containing the instant)", j)); break;
		case 3: if (j > 0) { c.subject = ca_name((unsigned)j, t.pick<unsigned>({ 1, 2, 3 })); C.defects.push_back(fmt("cert%zu subject differs from the issuer name below", j)); } break;
		case 4: { int other = K_ALL_OK[t.u8() % K_ALL_OK.size()]; if (other != c.signer) { c.signer = other; C.defects.push_back(fmt("cert%zu signed by another key", j)); } break; }
		case 5: {
			static const char *how[] = { "", "one bit flipped", "replaced by the cleartext padded block, one byte longer than the modulus", "replaced by the cleartext padded block, one byte shorter than the modulus",
				"last byte dropped", "zero byte prepended", "padded block with a wrong separator byte after the FF run, made with the signer's key" };
			c.corrupt = 1 + (int)(t.u8() % 6);
			if (pool.at((size_t)c.signer).kind != xl::KK_RSA) c.corrupt = 1;
			// a 513-byte value exceeds the documented signature buffer (another error code): shorten instead
			else if (pool.at((size_t)c.signer).bits > 4088 && (c.corrupt == 2 || c.corrupt == 5)) c.corrupt += (c.corrupt == 2 ? 1 : -1);
			C.defects.push_back(fmt("cert%zu signature altered (%s)", j, how[c.corrupt]));
			break;
		}
		case 6: c.alg_kind = pool.at((size_t)c.signer).kind == xl::KK_RSA ? xl::KK_EC : xl::KK_RSA; C.defects.push_back(fmt("cert%zu algorithm identifier of the other key type", j)); break;
		case 7: c.hash = 1; C.defects.push_back(fmt("cert%zu signed with MD5", j)); break;
		case 8: { int h = c.hash; C.cfg.hashes &= ~(1u << h); C.defects.push_back(fmt("hash %s disabled in the validator", xl::hash_name(h))); break; }
		case 9: if (j > 0) { c.exts.erase(std::remove_if(c.exts.begin(), c.exts.end(), [](const AExt &x) { return x.kind == X_BC; }), c.exts.end()); C.defects.push_back(fmt("cert%zu without BasicConstraints", j)); } break;
		case 10: if (j > 0) for (auto &x : c.exts) if (x.kind == X_BC) { x.ca = false; x.explicit_false = t.flag(); x.pathlen = -1; C.defects.push_back(fmt("cert%zu cA=FALSE", j)); } break;
		case 11: if (j > 1) for (auto &x : c.exts) if (x.kind == X_BC) { x.pathlen = (int)j - 2 - (int)(t.u8() % 2) * (j > 2 ? 1 : 0); if (x.pathlen < 0) x.pathlen = 0; C.defects.push_back(fmt("cert%zu pathLen %d", j, x.pathlen)); } break;
		case 12: if (j > 0) { AExt ku; ku.kind = X_KU; ku.critical = 1; ku.bits = t.pick<unsigned>({ 0x01, 0x40, 0x41, 0x1DF }); c.exts.erase(std::remove_if(c.exts.begin(), c.exts.end(), [](const AExt &x) { return x.kind == X_KU; }), c.exts.end()); c.exts.push_back(ku); C.defects.push_back(fmt("cert%zu KeyUsage without keyCertSign", j)); } break;
		case 13: { AExt x; x.kind = X_UNKNOWN; x.oid = t.pick<const char *>({ "1.3.6.1.4.1.99999.2", "2.5.29.30", "2.5.29.36", "2.5.29.37" }); x.critical = 1; c.exts.insert(c.exts.begin() + (c.exts.empty() ? 0 : t.u8() % (c.exts.size() + 1)), x); C.defects.push_back(fmt("cert%zu unknown critical extension %s", j, x.oid.c_str())); break; }
		case 14: { AExt x; x.kind = X_POLICIES; x.critical = 1; x.qualifier = 2; c.exts.push_back(x); C.defects.push_back(fmt("cert%zu critical policies with a user-notice qualifier", j)); break; }
		case 15: if (!K_RSA_WEAK.empty()) { int wk = K_RSA_WEAK[t.u8() % K_RSA_WEAK.size()]; c.key = wk; if (j > 0) C.chain[j - 1].signer = wk; else if (amode == 3 || amode == 4 || amode == 8) for (auto &a : C.cfg.anchors) if (same_name(a.name, c.subject) && amode != 8) a.key = wk; C.defects.push_back(fmt("cert%zu weak RSA key (%u bits)", j, pool.at((size_t)wk).bits)); } break;
		case 16: c.key_special = t.flag() ? KS_UNKNOWN_ALG : KS_UNKNOWN_CURVE; C.defects.push_back(fmt("cert%zu unsupported key", j)); break;
		case 17: c.version = 3; C.defects.push_back(fmt("cert%zu version 4", j)); break;
		case 18: {   // server name does not match
			unsigned m = t.u8() % 5;
			std::string &h = C.cfg.server_name;
			if (m == 0) h = "x" + h; else if (m == 1) h = h.substr(1); else if (m == 2) h[h.size() / 2] = (char)(h[h.size() / 2] == 'q' ? 'r' : 'q'); else if (m == 3) h += "."; else h = h.substr(h.find('.') + 1);
			C.defects.push_back("server name differs"); break;
		}
		case 19: {   // wildcard forms in the leaf
			ACert &e = C.chain[0];
			std::string h = C.cfg.server_name;
			size_t dot = h.find('.');
			std::string rest = dot == std::string::npos ? h : h.substr(dot + 1);
			std::string first = dot == std::string::npos ? h : h.substr(0, dot);
			unsigned m = t.u8() % 7;
			std::string pat = m == 0 ? "*." + rest : m == 1 ? "*." + h : m == 2 ? "*" + (first.size() > 1 ? first.substr(1) : std::string("")) + "." + rest : m == 3 ? first + ".*." + (rest.find('.') == std::string::npos ? rest : rest.substr(rest.find('.') + 1))
				: m == 4 ? "*" : m == 5 ? "*." + flip_case(t, rest) : "*.*." + (rest.find('.') == std::string::npos ? rest : rest.substr(rest.find('.') + 1));
			bool put = false;
			for (auto &x : e.exts) if (x.kind == X_SAN) { for (auto &g : x.names) if (g.tag == 0x82) { g.value = xl::B(pat); put = true; } }
			if (!put) for (auto &rdn : e.subject.rdns) for (auto &a : rdn) if (a.oid == xl::OID_CN) a.value = xl::B(pat);
			C.defects.push_back("leaf name pattern " + pat); break;
		}
		case 20: {   // name with an embedded NUL / longer name sharing a prefix
			ACert &e = C.chain[0];
			Bytes nm = xl::B(C.cfg.server_name);
			unsigned how = t.u8() % 4;
			if (how == 1) { nm.push_back(0); nm.push_back('x'); }
			else if (how == 3) {
				// U+FEFF in front: not the same name (and, in a dNSName, not even an IA5String)
				std::string h = C.cfg.server_name;
				if (t.flag() && h.find('.') != std::string::npos) h = "*." + h.substr(h.find('.') + 1);
				nm = { 0xEF, 0xBB, 0xBF };
				nm.insert(nm.end(), h.begin(), h.end());
				C.bom_name = true;
			} else nm.push_back('x');
			bool put = false;
			for (auto &x : e.exts) if (x.kind == X_SAN) { for (auto &g : x.names) if (g.tag == 0x82) { g.value = nm; put = true; } }
			if (!put) for (auto &rdn : e.subject.rdns) for (auto &a : rdn) if (a.oid == xl::OID_CN) { a.value = nm; a.tag = xl::T_UTF8; }
			C.defects.push_back(C.bom_name ? "leaf name = U+FEFF + server name" : "leaf name = server name + extra bytes"); break;
		}
		case 21: {   // several names: the matching one is not the first
			ACert &e = C.chain[0];
			bool put = false;
			for (auto &x : e.exts) if (x.kind == X_SAN) { x.names.insert(x.names.begin(), { 0x82, xl::B("other." + rand_label(t, 4)) }); x.names.push_back({ 0x82, xl::B("zz.invalid") }); put = true; }
			if (!put) e.subject.rdns.insert(e.subject.rdns.begin(), { xl::Attr{ xl::OID_CN, xl::T_UTF8, xl::B("first.cn.invalid") } });
			C.defects.push_back("several leaf names"); break;
		}
		case 22: C.cfg.min_rsa = t.pick<int>({ 128, 129, 192, 256, 257, 127, 96, 64, 65 }); C.defects.push_back(fmt("minimum RSA size %d bytes", C.cfg.min_rsa)); break;
		default: { ACert &e = C.chain[0]; for (auto &rdn : e.subject.rdns) for (auto &a : rdn) if (a.oid == xl::OID_CN && a.tag != xl::T_BMP) { Bytes w; for (auto ch : a.value) { w.push_back(0); w.push_back(ch); } a.value = w; a.tag = xl::T_BMP; } C.defects.push_back("leaf CN as BMPString"); break; }
		}
	}
	C.cfg.cn_buf = t.pick<size_t>({ 32, 32, 8, 1, 64 });
	C.cfg.dns_buf = t.pick<size_t>({ 24, 24, 6, 1, 64 });
	// half of the cases: buffers of every small size (a value exactly as long as the buffer does not fit: the terminating zero)
	{ unsigned zs = t.u8(); if (zs & 1) { C.cfg.cn_buf = 1 + (zs >> 1) % 28; C.cfg.dns_buf = 1 + (zs >> 2) % 26; } }
	return C;
}

static std::string describe(const Case &C)
{
	std::string s = fmt("%zu certs [", C.chain.size());
	for (auto &c : C.chain) s += pool.at((size_t)c.key).name + "<-" + pool.at((size_t)c.signer).name + "/" + xl::hash_name(c.hash) + " ";
	s += fmt("] anchors %zu (%s) name %s", C.cfg.anchors.size(), C.cfg.dynamic ? "on demand" : "static", C.cfg.has_name ? C.cfg.server_name.c_str() : "(none)");
	for (auto &d : C.defects) s += "; " + d;
	return s;
}

static std::vector<xl::BuiltCert> build_chain(Case &C)
{
	std::vector<xl::BuiltCert> out;
	for (auto &c : C.chain) {
		xl::CertSpec s = to_spec(c);
		// can the signer produce this signature at all?
		xl::BuiltCert b = xl::build(s, pool);
		const xl::Key &sk = pool.at((size_t)c.signer);
		if (sk.kind == xl::KK_RSA && c.hash >= 1) {
			static const size_t DI[] = { 0, 18, 15, 19, 19, 19, 19 };
			c.signable = sk.n.size() >= xl::hash_len(c.hash) + DI[c.hash] + 11;
		}
		out.push_back(b);
	}
	return out;
}

static void check_case(Case &C, Tape &t)
{
	std::vector<xl::BuiltCert> built = build_chain(C);
	std::vector<Bytes> ders;
	for (auto &b : built) ders.push_back(b.der);
	Verdict ref = reference(C.chain, C.cfg);
	std::string desc = describe(C);
	// dynamic lookup finds one anchor per name: the property stipulates distinct names there
	bool names_distinct = true;
	for (size_t i = 0; i < C.cfg.anchors.size(); i++) for (size_t j = i + 1; j < C.cfg.anchors.size(); j++) if (same_name(C.cfg.anchors[i].name, C.cfg.anchors[j].name)) names_distinct = false;
	bool dynamic = C.cfg.dynamic && names_distinct;
	unsigned impl = t.u8();
	bool tcb = t.flag();
	size_t chunk = t.pick<size_t>({ 0, 0, 1, 7, 100 });
	LibOut lib = run_lib(ders, C.cfg, dynamic, impl, tcb, chunk);
	bool single = C.defects.size() <= 1;
	if (C.cfg.min_rsa > 0 && C.cfg.min_rsa < 128 && lib.err == BR_ERR_X509_WEAK_PUBLIC_KEY && ref.err != BR_ERR_X509_WEAK_PUBLIC_KEY && known("x509-minrsa-below-128")) {
		// listed finding: the configured minimum is stored as a signed difference from 128 and read back unsigned
		stats.known_finding("x509-minrsa-below-128", fmt("br_x509_minimal_set_minrsa(%d): every RSA key is rejected as too weak", C.cfg.min_rsa));
		stats.excluded++;
		stats.eval();
		return;
	}
	// (the validator got past the name check: it accepts, or goes on to report a later defect of the chain)
	if (C.bom_name && lib.err != BR_ERR_X509_BAD_SERVER_NAME && ref.err == BR_ERR_X509_BAD_SERVER_NAME && known("bom-stripped-before-name-match")) {
		stats.known_finding("bom-stripped-before-name-match", "a leaf whose dNSName (or UTF8String CN) is the bytes EF BB BF followed by the expected server name (or by a '*.' pattern matching it) is ACCEPTED for that server name: "
			"encode-UTF8 in asn1.t0 drops a leading U+FEFF before the comparison (and before the name element is reported)");
		stats.excluded++;
		stats.cls("known:bom-name");
		stats.eval();
		return;
	}
	VF_CHECK((lib.err == 0) == (ref.err == 0), "%s: the validator %s (error %u %s), the reference %s (%s)", desc.c_str(), lib.err == 0 ? "ACCEPTS" : "rejects", lib.err, ERRNAME(lib.err),
		ref.err == 0 ? "ACCEPTS" : "rejects", ERRNAME(ref.err));
	if (single) VF_CHECK(lib.err == ref.err, "%s: error code %u (%s), documented code for this defect is %u (%s)", desc.c_str(), lib.err, ERRNAME(lib.err), ref.err, ERRNAME(ref.err));
	else if (lib.err != ref.err) stats.cls("multi-defect-code-differs");
	if (ref.err == 0) {
		const xl::Key &k = pool.at((size_t)ref.ee_key);
		VF_CHECK(lib.have_key, "%s: accepted, but no key is returned", desc.c_str());
		if (k.kind == xl::KK_RSA) VF_CHECK(lib.key_type == BR_KEYTYPE_RSA && lib.a == k.n && lib.b == k.e, "%s: the returned RSA key is not the leaf's (n %zu bytes vs %zu)", desc.c_str(), lib.a.size(), k.n.size());
		else VF_CHECK(lib.key_type == BR_KEYTYPE_EC && lib.curve == k.curve && lib.a == k.q, "%s: the returned EC key is not the leaf's (curve %d vs %d)", desc.c_str(), lib.curve, k.curve);
		VF_CHECK(lib.usages == ref.usages, "%s: returned usages %#x, the leaf's KeyUsage encodes %#x", desc.c_str(), lib.usages, ref.usages);
		if (C.bom_name && known("bom-stripped-before-name-match")) {
			// same listed finding, seen through the name elements: the library behaves as if the leaf name did not start with
			// U+FEFF - compare with the reference run on the chain with that character removed
			std::vector<ACert> ch2 = C.chain;
			auto strip = [](Bytes &v) { if (v.size() >= 3 && v[0] == 0xEF && v[1] == 0xBB && v[2] == 0xBF) v.erase(v.begin(), v.begin() + 3); };
			for (auto &rdn : ch2[0].subject.rdns) for (auto &a : rdn) if (a.oid == xl::OID_CN) strip(a.value);
			for (auto &x : ch2[0].exts) if (x.kind == X_SAN) for (auto &g : x.names) strip(g.value);
			Verdict rk = reference(ch2, C.cfg);
			if (rk.cn_status != ref.cn_status || rk.dns_status != ref.dns_status || rk.cn != ref.cn || rk.dns != ref.dns) {
				stats.known_finding("bom-stripped-before-name-match", "the name element reported for a leaf name that starts with U+FEFF lacks that character (encode-UTF8 in asn1.t0 drops a leading BOM)");
				stats.cls("known:bom-name");
				ref.cn_status = rk.cn_status; ref.dns_status = rk.dns_status; ref.cn = rk.cn; ref.dns = rk.dns;
			}
		}
		VF_CHECK(lib.cn_status == ref.cn_status && lib.dns_status == ref.dns_status, "%s: name element status CN %d / dNSName %d, expected %d / %d", desc.c_str(), lib.cn_status, lib.dns_status, ref.cn_status, ref.dns_status);
		if (ref.cn_status == 1) VF_CHECK(lib.cn == std::string(ref.cn.c_str()), "%s: CN element '%s', expected '%s'", desc.c_str(), lib.cn.c_str(), ref.cn.c_str());
		if (ref.dns_status == 1) VF_CHECK(lib.dns == std::string(ref.dns.c_str()), "%s: dNSName element '%s', expected '%s'", desc.c_str(), lib.dns.c_str(), ref.dns.c_str());
	}
	// the instants the validator decoded
	if (tcb) {
		for (size_t i = 0; i * 4 + 3 < lib.times.size() && i < C.chain.size(); i++) {
			uint32_t bd, bs, ad, as;
			xl::days_seconds(C.chain[i].nb, bd, bs);
			xl::days_seconds(C.chain[i].na, ad, as);
			VF_CHECK(lib.times[i * 4] == bd && lib.times[i * 4 + 1] == bs && lib.times[i * 4 + 2] == ad && lib.times[i * 4 + 3] == as,
				"%s: certificate %zu validity decoded as days/seconds %u/%u .. %u/%u, the description says %u/%u .. %u/%u", desc.c_str(), i, lib.times[i * 4], lib.times[i * 4 + 1], lib.times[i * 4 + 2], lib.times[i * 4 + 3], bd, bs, ad, as);
		}
	}
	// static vs on-demand anchors
	if (names_distinct) {
		LibOut other = run_lib(ders, C.cfg, !dynamic, impl + 1, false, 0);
		VF_CHECK(other.err == lib.err && other.have_key == lib.have_key && other.a == lib.a && other.usages == lib.usages, "%s: anchors supplied %s give error %u (%s), supplied %s give %u (%s)", desc.c_str(),
			dynamic ? "on demand" : "statically", lib.err, ERRNAME(lib.err), dynamic ? "statically" : "on demand", other.err, ERRNAME(other.err));
	} else stats.cls("anchors-share-a-name(static only)");
	// a context that validated something else before gives the same answer
	{
		unsigned prior = 1 + (unsigned)(ders.size() + C.cfg.now.s + impl) % 4;
		LibOut again = run_lib(ders, C.cfg, dynamic, impl, false, 0, prior);
		VF_CHECK(again.err == lib.err && again.have_key == lib.have_key && again.a == lib.a && again.b == lib.b && again.usages == lib.usages
			&& again.cn_status == lib.cn_status && again.dns_status == lib.dns_status && again.cn == lib.cn && again.dns == lib.dns,
			"%s: a fresh context gives error %u (%s), a context that had validated %s before gives %u (%s)%s", desc.c_str(), lib.err, ERRNAME(lib.err),
			prior == 1 ? "the same chain" : prior == 2 ? "the first certificate of the chain (abandoned)" : prior == 3 ? "the chain in reverse order" : "an empty chain", again.err, ERRNAME(again.err),
			again.err == lib.err ? " (key, usages or name elements differ)" : "");
		stats.cls("context-reused");
	}
	// harness self-check: the abstract signature relation agrees with OpenSSL on the bytes
	for (size_t i = 0; i < C.chain.size(); i++) {
		const ACert &c = C.chain[i];
		if (c.hash < 2 || c.alg_kind) continue;
		Bytes tbs(built[i].der.begin() + built[i].tbs_off, built[i].der.begin() + built[i].tbs_off + built[i].tbs_len);
		Bytes sig(built[i].der.begin() + built[i].sig_off, built[i].der.begin() + built[i].sig_off + built[i].sig_len);
		bool ossl = xl::verify(pool.at((size_t)c.signer), c.hash, tbs, sig);
		VF_CHECK(ossl == (c.signable && !c.corrupt), "harness: OpenSSL %s the signature of certificate %zu, the description says %s", ossl ? "accepts" : "rejects", i, c.signable && !c.corrupt ? "valid" : "invalid");
	}
	bool nontrivial = ref.err == 0 || (ref.err != BR_ERR_X509_EMPTY_CHAIN);
	stats.cls(std::string(ref.err == 0 ? (ref.direct ? "accept-direct" : "accept-ca") : ERRNAME(ref.err)) + (C.defects.empty() ? "" : C.defects.size() == 1 ? "/1-defect" : "/2-defects"));
	stats.eval(nontrivial ? desc : std::string());
	if (stats.want_sample()) stats.sample(desc + " => " + ERRNAME(lib.err));
}

// explicit byte-mutation case of the enumerator: chain #ci, certificate k, byte off (in TBS or signature), mask
static Case fixed_chain(unsigned ci)
{
	// deterministic accepted chains over several key / hash combinations
	static const uint8_t SEEDS[][12] = {
		{ 2, 0 }, { 2, 1 }, { 3, 2 }, { 1, 3 }, { 2, 4 }, { 3, 5 }, { 3, 6 }, { 1, 7 },
	};
	Case C;
	unsigned n = SEEDS[ci % 8][0] + 0;
	unsigned v = SEEDS[ci % 8][1];
	C.cfg.now = NOW;
	C.cfg.server_name = "www.example.com";
	std::vector<int> keys;
	for (unsigned i = 0; i <= n; i++) keys.push_back(K_ALL_OK[(v * 5 + i * 3) % K_ALL_OK.size()]);
	for (auto &k : keys) if (pool.at((size_t)k).kind == xl::KK_RSA && pool.at((size_t)k).bits > 2100) k = K_EC[v % K_EC.size()];
	for (unsigned i = 0; i < n; i++) {
		ACert c;
		c.key = keys[i]; c.signer = keys[i + 1];
		c.hash = 2 + (int)((v + i) % 5);
		c.nb = xl::Time{ 2019, 1, 1, 0, 0, 0 }; c.na = xl::Time{ 2029, 12, 31, 23, 59, 59 };
		c.issuer = ca_name(i + 1, 0);
		if (i == 0) {
			c.subject = xl::Name::simple("www.example.com", "Leaf");
			AExt san; san.kind = X_SAN; san.names.push_back({ 0x82, xl::B("*.example.com") }); c.exts.push_back(san);
			AExt ku; ku.kind = X_KU; ku.critical = 1; ku.bits = 0x05; c.exts.push_back(ku);
		} else {
			c.subject = ca_name(i, 0);
			AExt bc; bc.kind = X_BC; bc.critical = 1; bc.ca = true; bc.pathlen = (int)i - 1; c.exts.push_back(bc);
			AExt ku; ku.kind = X_KU; ku.critical = 1; ku.bits = 1u << 5; c.exts.push_back(ku);
		}
		C.chain.push_back(c);
	}
	C.cfg.anchors.push_back({ ca_name(n, 0), keys[n], true });
	return C;
}
static void mutation_case(unsigned ci, unsigned k, size_t off, uint8_t mask, unsigned in_sig_mode)
{
	static std::map<unsigned, std::pair<Case, std::vector<xl::BuiltCert>>> cache;
	if (!cache.count(ci)) { Case C = fixed_chain(ci); auto b = build_chain(C); cache[ci] = { C, b }; }
	Case &C = cache[ci].first;
	std::vector<xl::BuiltCert> &built = cache[ci].second;
	bool in_sig = (in_sig_mode & 1) != 0;   // bit 0: signature (else signed part); bit 1: subtract the mask instead of XOR
	if (k >= built.size() || mask == 0) return;
	size_t base = in_sig ? built[k].sig_off : built[k].tbs_off, len = in_sig ? built[k].sig_len : built[k].tbs_len;
	if (off >= len) return;
	std::vector<Bytes> ders;
	for (auto &b : built) ders.push_back(b.der);
	static std::map<unsigned, bool> checked;
	if (!checked[ci]) {
		LibOut ok = run_lib(ders, C.cfg, false, ci, false, 0);
		VF_CHECK(ok.err == 0, "harness: fixed chain %u (%s) is not accepted (error %u)", ci, describe(C).c_str(), ok.err);
		checked[ci] = true;
	}
	if (in_sig_mode >= 2) ders[k][base + off] = (uint8_t)(ders[k][base + off] - mask); else ders[k][base + off] ^= mask;
	LibOut lib = run_lib(ders, C.cfg, (off & 1) != 0, ci + (unsigned)off, false, off % 3 == 0 ? 0 : 50);
	VF_CHECK(lib.err != 0, "accepted chain #%u (%s): byte %zu of the %s of certificate %u %s %02x is still accepted", ci, describe(C).c_str(), off, in_sig ? "signature" : "signed part", k, in_sig_mode >= 2 ? "minus" : "XOR", mask);
	stats.cls(fmt("mutation/%s/%s", in_sig ? "signature" : "tbs", ERRNAME(lib.err)));
	stats.eval_h(fnv(fmt("mut/%u/%u/%zu/%02x/%u", ci, k, off, mask, in_sig_mode)));
}

void target_run(Tape &t)
{
	unsigned m = t.u8();
	if (m == 0xF0) { unsigned ci = t.u8(), k = t.u8(); size_t off = t.u16(); uint8_t mask = t.u8(); unsigned in_sig = t.u8() & 3; mutation_case(ci, k, off, mask, in_sig); return; }
	Case C = generate(t);
	check_case(C, t);
}

void target_enum(int shard, int nshards)
{
	bool th = tier_thorough();
	uint64_t n = 0;
	unsigned nchains = th ? 8 : 3;
	for (unsigned ci = 0; ci < nchains; ci++) {
		Case C = fixed_chain(ci);
		std::vector<xl::BuiltCert> built = build_chain(C);
		for (unsigned k = 0; k < built.size(); k++) for (int in_sig = 0; in_sig < 2; in_sig++) {
			size_t len = in_sig ? built[k].sig_len : built[k].tbs_len;
			for (size_t off = 0; off < len; off++) {
				static const uint8_t MASKS[] = { 0x01, 0x80, 0x10, 0xFF };
				// signatures are short: every mask, plus "one less" / "two less" (length and count bytes of the encoding)
				unsigned nm = (th || in_sig) ? 4 : 1;
				for (unsigned mi = 0; mi < nm; mi++) {
					if ((n++ % (uint64_t)nshards) != (uint64_t)shard) continue;
					uint8_t mask = (th || in_sig) ? MASKS[mi] : MASKS[(off + k) % 4];
					enum_tape({ 0xF0, (uint8_t)ci, (uint8_t)k, (uint8_t)(off >> 8), (uint8_t)off, mask, (uint8_t)in_sig });
				}
				if (in_sig) for (uint8_t d = 1; d <= 2; d++) {
					if ((n++ % (uint64_t)nshards) != (uint64_t)shard) continue;
					enum_tape({ 0xF0, (uint8_t)ci, (uint8_t)k, (uint8_t)(off >> 8), (uint8_t)off, d, 3 });
				}
			}
		}
	}
	stats.exhaustive = th;
}
