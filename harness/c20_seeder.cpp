// C20, third build: the /dev/urandom system seeder alone, with its open / read / close routed to
// the harness (fault injection on the entropy source).  The tape scripts what the "file" does:
// open failure, short reads, EINTR, hard errors, end of file.
//
// Oracle: the seeder returns 1 exactly when 32 bytes could be obtained (EINTR is retried, anything
// else ends the attempt) and terminates after a bounded number of calls; without usable system
// entropy and without injected entropy a reset is refused with BR_ERR_NO_RANDOM and emits nothing;
// injected entropy alone suffices.
#include "common/tls_session.hpp"
#include <cerrno>
#include <csetjmp>
using namespace vf;
using namespace tls;
const char *target_name = "c20_seeder";
const int target_tape_min = 0, target_tape_max = 24;

struct FakeFile {
	bool open_ok = true;
	std::vector<int> script;   // >0: bytes available for this read; 0: end of file; -1: EINTR; -2: EIO
	size_t pos = 0;
	unsigned opens = 0, reads = 0, closes = 0;
	size_t delivered = 0;
	bool is_open = false;
	jmp_buf *escape = nullptr;
};
static FakeFile *g_file;

extern "C" int vf_open(const char *path, int flags, ...)
{
	(void)flags;
	FakeFile &f = *g_file;
	f.opens++;
	if (strcmp(path, "/dev/urandom") != 0 || !f.open_ok) { errno = ENOENT; return -1; }
	f.is_open = true;
	return 1000;
}
extern "C" ssize_t vf_read(int fd, void *buf, size_t len)
{
	FakeFile &f = *g_file;
	if (++f.reads > 5000 && f.escape) longjmp(*f.escape, 1);
	if (fd != 1000 || !f.is_open) { errno = EBADF; return -1; }
	int ev = f.pos < f.script.size() ? f.script[f.pos++] : 0;   // past the script: end of file
	if (ev == -1) { errno = EINTR; return -1; }
	if (ev == -2) { errno = EIO; return -1; }
	if (ev == 0) return 0;
	size_t k = std::min<size_t>((size_t)ev, len);
	for (size_t i = 0; i < k; i++) ((uint8_t *)buf)[i] = (uint8_t)(0xA0 + f.delivered + i);
	f.delivered += k;
	return (ssize_t)k;
}
extern "C" int vf_close(int fd)
{
	FakeFile &f = *g_file;
	if (fd == 1000) { f.closes++; f.is_open = false; }
	return 0;
}

void target_run(Tape &t)
{
	FakeFile F;
	g_file = &F;
	F.open_ok = t.u8() % 8 != 7;
	unsigned n = t.u8() % 10;
	std::string sd;
	// expected result: walk the script the way a correct reader does
	size_t got = 0;
	bool ended = false;
	for (unsigned i = 0; i < n; i++) {
		unsigned r = t.u8();
		int ev = r % 8 == 0 ? 0 : r % 8 == 1 ? -1 : r % 8 == 2 ? -2 : 1 + (int)(r % 40);
		F.script.push_back(ev);
		sd += ev == 0 ? "EOF " : ev == -1 ? "EINTR " : ev == -2 ? "EIO " : fmt("%d ", ev);
		if (!ended && got < 32) { if (ev > 0) got += std::min<size_t>((size_t)ev, 32 - got); else if (ev != -1) ended = true; }
	}
	bool expect = F.open_ok && got >= 32;
	std::string desc = fmt("/dev/urandom %s, reads: %s(then EOF)", F.open_ok ? "opens" : "cannot be opened", sd.c_str());
	static jmp_buf jb;
	F.escape = &jb;
	const char *name = nullptr;
	br_prng_seeder sys = br_prng_seeder_system(&name);
	VF_CHECK(sys != nullptr, "harness: this build has no system seeder");
	br_hmac_drbg_context rng;
	br_hmac_drbg_init(&rng, &br_sha256_vtable, "seed", 4);
	volatile int stage = 0;
	if (setjmp(jb) != 0) {
		F.escape = nullptr;
		failf("%s: the system seeder ('%s') did not return after %u read() calls%s: it spins when the entropy source delivers nothing more", desc.c_str(), name ? name : "?", F.reads,
			stage ? " (inside br_ssl_client_reset)" : "");
	}
	int r = sys(&rng.vtable);
	VF_CHECK((r != 0) == expect, "%s: seeder returned %d, %zu of 32 bytes were obtainable", desc.c_str(), r, got);
	VF_CHECK(F.opens == 1 && F.closes == (F.open_ok ? 1u : 0u), "%s: %u opens, %u closes", desc.c_str(), F.opens, F.closes);
	// through the TLS engine: reset without / with injected entropy
	stage = 1;
	for (int inject = 0; inject < 2; inject++) {
		F.pos = 0; F.reads = 0; F.delivered = 0;
		Profile cp;
		cp.suites = { 0x002F };
		if (inject) cp.entropy = Bytes(32, 0x5A); else cp.entropy.clear();
		BearClient c(cp);
		bool ok = c.reset();
		const uint8_t *p;
		if (expect || inject) VF_CHECK(ok && c.error() == 0 && c.wire_out_peek(&p) > 0, "%s: reset %s injected entropy failed (error %d) although randomness was available", desc.c_str(), inject ? "with" : "without", c.error());
		else VF_CHECK(!ok && c.error() == BR_ERR_NO_RANDOM && c.wire_out_peek(&p) == 0, "%s: reset without any entropy: returned %d, error %d (want 0 and BR_ERR_NO_RANDOM, nothing emitted)", desc.c_str(), (int)ok, c.error());
	}
	F.escape = nullptr;
	stats.cls(expect ? "seeder:ok" : !F.open_ok ? "seeder:no-file" : "seeder:short");
	stats.eval(desc);
	if (stats.want_sample()) stats.sample(desc + fmt(" => seeder %d", r));
}
