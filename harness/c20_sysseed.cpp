// C20, second build: the library as shipped for the host (system seeders
// compiled in).  Without any injected entropy reset succeeds, a handshake
// completes, and two such connections have different hello randoms.
#include "common/tls_session.hpp"
using namespace vf;
using namespace tls;
const char *target_name = "c20_sysseed";
const int target_tape_min = 0, target_tape_max = 8;

void target_run(Tape &t)
{
	const uint16_t suites[] = { 0x002F, 0xC02F, 0xCCA8, 0xC02B };
	const wt::SuiteInfo *si = wt::suite_by_id(suites[t.u8() % 4]);
	unsigned version = si->tls12_only ? 0x0303 : 0x0301 + t.u8() % 3;
	Bytes cr[2];
	for (int k = 0; k < 2; k++) {
		Profile cp, sp;
		cp.entropy.clear(); sp.entropy.clear();
		cp.suites = { si->id }; sp.suites = { si->id };
		cp.vmin = cp.vmax = sp.vmin = sp.vmax = version;
		sp.key = keys_for(si)[0];
		BearClient c(cp);
		BearServer s(sp);
		VF_CHECK(c.reset(), "client reset refused (error %d) on a build with a system seeder", c.error());
		VF_CHECK(s.reset(), "server reset refused (error %d) on a build with a system seeder", s.error());
		Session S(&c, &s);
		S.script[0].push_back(Item{ IT_WRITE, 10, true });
		S.script[0].push_back(Item{ IT_CLOSE, 0, true });
		S.run(200000);
		VF_CHECK(S.established && c.error() == 0 && s.error() == 0 && S.recvd[0] == 10, "system-seeded handshake failed (%d/%d)", c.error(), s.error());
		cr[k].assign(c.eng->client_random, c.eng->client_random + 32);
	}
	VF_CHECK(cr[0] != cr[1], "two system-seeded connections produced the same client random");
	stats.cls("sysseed:handshake-ok");
	stats.eval(fmt("sys/%04x/%04x", si->id, version));
	if (stats.want_sample()) stats.sample(fmt("system-seeded %s TLS%s: reset ok without injection, randoms differ", si->name, ver_name(version)));
}
