// C08 — secret values never influence branches or memory addresses in
// constant-time code.
//
// Generated-input search with a trace invariant as oracle.  The tape chooses
// the PUBLIC side of a call (entry point, implementation, key size / curve,
// lengths, min/max of outCT, padding layout, validity class) and concrete
// secrets; the binary runs under valgrind/memcheck, every secret byte is
// marked undefined before the call, and memcheck's definedness propagation
// tracks "secret-ness" through every instruction of the compiled library.
// A "conditional jump depends on uninitialised value" or "use of
// uninitialised value" (as an address) raised during the call is a secret-
// dependent branch or memory access.  Oracle: zero memcheck errors during
// the call (VALGRIND_COUNT_ERRORS before/after), with
//   * non-vacuity: the output is still tainted after the call (so the secret
//     was really poisoned and really used);
//   * positive controls that MUST be reported or the run is void: table AES
//     (aes_big, aes_small), table DES, memcmp on a secret tag.
// Values the source itself declares public (final accept/reject of a record,
// announced factor lengths, OAEP message length, RFC 6979 candidate test) are
// declassified by the guarded BR_VERIF_PUBLIC marks (hook H3).
#include "common/vf.hpp"
#include "common/x509lab.hpp"
#include <valgrind/memcheck.h>
#include <map>

extern "C" {
#include "bearssl.h"
uint32_t w_NOT(uint32_t); uint32_t w_MUX(uint32_t, uint32_t, uint32_t); uint32_t w_EQ(uint32_t, uint32_t); uint32_t w_NEQ(uint32_t, uint32_t);
uint32_t w_GT(uint32_t, uint32_t); uint32_t w_GE(uint32_t, uint32_t); uint32_t w_LT(uint32_t, uint32_t); uint32_t w_LE(uint32_t, uint32_t);
int32_t w_CMP(uint32_t, uint32_t); uint32_t w_EQ0(int32_t); uint32_t w_GT0(int32_t); uint32_t w_GE0(int32_t); uint32_t w_LT0(int32_t); uint32_t w_LE0(int32_t);
uint32_t w_MIN(uint32_t, uint32_t); uint32_t w_MAX(uint32_t, uint32_t); uint32_t w_BIT_LENGTH(uint32_t);
uint32_t w_MUL15(uint32_t, uint32_t); uint64_t w_MUL31(uint32_t, uint32_t);
void w_ccopy(uint32_t, void *, const void *, size_t);
uint32_t br_i15_add(uint16_t *, const uint16_t *, uint32_t); uint32_t br_i15_sub(uint16_t *, const uint16_t *, uint32_t);
void br_i15_montymul(uint16_t *, const uint16_t *, const uint16_t *, const uint16_t *, uint16_t); uint16_t br_i15_ninv15(uint16_t);
void br_i15_to_monty(uint16_t *, const uint16_t *); void br_i15_from_monty(uint16_t *, const uint16_t *, uint16_t);
void br_i15_modpow(uint16_t *, const unsigned char *, size_t, const uint16_t *, uint16_t, uint16_t *, uint16_t *);
uint32_t br_i15_modpow_opt(uint16_t *, const unsigned char *, size_t, const uint16_t *, uint16_t, uint16_t *, size_t);
uint32_t br_i15_decode_mod(uint16_t *, const void *, size_t, const uint16_t *); void br_i15_decode(uint16_t *, const void *, size_t); void br_i15_encode(void *, size_t, const uint16_t *);
uint32_t br_i15_moddiv(uint16_t *, const uint16_t *, const uint16_t *, uint16_t, uint16_t *); uint32_t br_i15_iszero(const uint16_t *);
uint32_t br_i31_add(uint32_t *, const uint32_t *, uint32_t); uint32_t br_i31_sub(uint32_t *, const uint32_t *, uint32_t);
void br_i31_montymul(uint32_t *, const uint32_t *, const uint32_t *, const uint32_t *, uint32_t); uint32_t br_i31_ninv31(uint32_t);
void br_i31_to_monty(uint32_t *, const uint32_t *); void br_i31_from_monty(uint32_t *, const uint32_t *, uint32_t);
void br_i31_modpow(uint32_t *, const unsigned char *, size_t, const uint32_t *, uint32_t, uint32_t *, uint32_t *);
uint32_t br_i31_modpow_opt(uint32_t *, const unsigned char *, size_t, const uint32_t *, uint32_t, uint32_t *, size_t);
uint32_t br_i31_decode_mod(uint32_t *, const void *, size_t, const uint32_t *); void br_i31_decode(uint32_t *, const void *, size_t); void br_i31_encode(void *, size_t, const uint32_t *);
uint32_t br_i31_moddiv(uint32_t *, const uint32_t *, const uint32_t *, uint32_t, uint32_t *); uint32_t br_i31_iszero(const uint32_t *);
uint32_t br_i32_add(uint32_t *, const uint32_t *, uint32_t); uint32_t br_i32_sub(uint32_t *, const uint32_t *, uint32_t);
void br_i32_montymul(uint32_t *, const uint32_t *, const uint32_t *, const uint32_t *, uint32_t); uint32_t br_i32_ninv32(uint32_t);
void br_i32_to_monty(uint32_t *, const uint32_t *); void br_i32_from_monty(uint32_t *, const uint32_t *, uint32_t);
void br_i32_modpow(uint32_t *, const unsigned char *, size_t, const uint32_t *, uint32_t, uint32_t *, uint32_t *);
uint32_t br_i32_decode_mod(uint32_t *, const void *, size_t, const uint32_t *); void br_i32_decode(uint32_t *, const void *, size_t);
uint32_t br_i62_modpow_opt(uint32_t *, const unsigned char *, size_t, const uint32_t *, uint32_t, uint64_t *, size_t);
uint32_t br_rsa_ssl_decrypt(br_rsa_private core, const br_rsa_private_key *sk, unsigned char *data, size_t len);
}

using namespace vf;
namespace xl = x509lab;
using xl::Bytes;

const char *target_name = "c08_ct";
const int target_tape_min = 6, target_tape_max = 40;

static uint64_t g_declass;
extern "C" void br_verif_public(const void *p, size_t len) { VALGRIND_MAKE_MEM_DEFINED(p, len); g_declass++; }

static inline void poison(const void *p, size_t n) { if (n) VALGRIND_MAKE_MEM_UNDEFINED(p, n); }
static inline void unpoison(const void *p, size_t n) { if (n) VALGRIND_MAKE_MEM_DEFINED(p, n); }
static bool tainted(const void *p, size_t n)
{
	if (!RUNNING_ON_VALGRIND || n == 0) return true;
	std::vector<uint8_t> vb(n);
	if (VALGRIND_GET_VBITS(p, vb.data(), n) != 1) return true;
	for (uint8_t b : vb) if (b) return true;
	return false;
}
template <typename T> static T declass(T v) { unpoison(&v, sizeof v); return v; }

struct Scope {
	unsigned long e0;
	std::string what;
	bool control;
	Scope(const std::string &w, bool ctl = false) : e0(VALGRIND_COUNT_ERRORS), what(w), control(ctl) {}
	// call after the operation; out/outlen: a secret-derived output to test for non-vacuity
	void done(const void *out, size_t outlen)
	{
		unsigned long e = VALGRIND_COUNT_ERRORS - e0;
		bool live = tainted(out, outlen);
		if (out) unpoison(out, outlen);
		if (!RUNNING_ON_VALGRIND) { stats.cls("not-under-valgrind"); stats.eval(); return; }
		if (control) {
			VF_CHECK(e > 0, "harness: positive control '%s' raised no memcheck error: the taint tracking is inoperative, the run is void", what.c_str());
			stats.cls("control/" + what);
			stats.eval("control/" + what);
			return;
		}
		VF_CHECK(e == 0, "%s: %lu secret-dependent branch / memory-address event(s) during the call (memcheck reports above: 'Conditional jump or move depends on uninitialised value' = branch on a secret, 'Use of uninitialised value' = secret used as an address)", what.c_str(), e);
		VF_CHECK(live, "harness: %s: the output carries no taint: the secret was not really used (vacuous case)", what.c_str());
		stats.eval(what);
		if (stats.want_sample()) stats.sample(what + " => 0 events, output tainted");
	}
};

// ------------------------------------------------------------- key material
static xl::KeyPool pool;
struct RsaSk { Bytes p, q, dp, dq, iq, n, e; br_rsa_private_key sk; br_rsa_public_key pk; unsigned bits; };
static std::vector<std::unique_ptr<RsaSk>> rsa_keys;
void target_init()
{
	pool.init(2048);
	for (size_t i : pool.rsa) {
		const xl::Key &k = pool.at(i);
		const RSA *r = EVP_PKEY_get0_RSA(k.pkey);
		const BIGNUM *p, *q, *dp, *dq, *iq;
		RSA_get0_factors(r, &p, &q);
		RSA_get0_crt_params(r, &dp, &dq, &iq);
		std::unique_ptr<RsaSk> s(new RsaSk);
		s->p = xl::bn_bytes(p); s->q = xl::bn_bytes(q); s->dp = xl::bn_bytes(dp); s->dq = xl::bn_bytes(dq); s->iq = xl::bn_bytes(iq);
		s->n = k.n; s->e = k.e; s->bits = k.bits;
		rsa_keys.push_back(std::move(s));
	}
}
static RsaSk &rsa_key(Tape &t, bool thorough_sizes)
{
	std::vector<size_t> ok;
	for (size_t i = 0; i < rsa_keys.size(); i++) if (rsa_keys[i]->bits <= (thorough_sizes ? 2048u : 1100u)) ok.push_back(i);
	RsaSk &k = *rsa_keys[ok[t.u8() % ok.size()]];
	k.sk.n_bitlen = k.bits;
	k.sk.p = k.p.data(); k.sk.plen = k.p.size(); k.sk.q = k.q.data(); k.sk.qlen = k.q.size();
	k.sk.dp = k.dp.data(); k.sk.dplen = k.dp.size(); k.sk.dq = k.dq.data(); k.sk.dqlen = k.dq.size(); k.sk.iq = k.iq.data(); k.sk.iqlen = k.iq.size();
	k.pk.n = k.n.data(); k.pk.nlen = k.n.size(); k.pk.e = k.e.data(); k.pk.elen = k.e.size();
	return k;
}
// (the first byte of each factor stays public: the source declares the byte length of p and q, found by
// stripping leading zero bytes, as not secret; the announced bit length is declassified by hook H3)
static void poison_key(RsaSk &k) { poison(k.p.data() + 1, k.p.size() - 1); poison(k.q.data() + 1, k.q.size() - 1); poison(k.dp.data(), k.dp.size()); poison(k.dq.data(), k.dq.size()); poison(k.iq.data(), k.iq.size()); }
static void unpoison_key(RsaSk &k) { unpoison(k.p.data(), k.p.size()); unpoison(k.q.data(), k.q.size()); unpoison(k.dp.data(), k.dp.size()); unpoison(k.dq.data(), k.dq.size()); unpoison(k.iq.data(), k.iq.size()); }

// ------------------------------------------------------------- families
static void f_primitives(Tape &t)
{
	uint32_t a = t.u32(), b = t.pick<uint32_t>({ 0, 1, 0x7FFFFFFF, 0x80000000, 0xFFFFFFFF }) ^ (t.flag() ? t.u32() : 0);
	if (t.flag()) b = a;
	uint32_t out[24];
	unsigned which = t.u8() % 3;
	Scope s(fmt("inner.h primitives (variant %u)", which));
	poison(&a, 4); poison(&b, 4);
	out[0] = w_NOT(a & 1); out[1] = w_MUX(a & 1, a, b); out[2] = w_EQ(a, b); out[3] = w_NEQ(a, b); out[4] = w_GT(a, b); out[5] = w_GE(a, b); out[6] = w_LT(a, b); out[7] = w_LE(a, b);
	out[8] = (uint32_t)w_CMP(a, b); out[9] = w_EQ0((int32_t)a); out[10] = w_GT0((int32_t)a); out[11] = w_GE0((int32_t)a); out[12] = w_LT0((int32_t)a); out[13] = w_LE0((int32_t)a);
	out[14] = w_MIN(a, b); out[15] = w_MAX(a, b); out[16] = w_BIT_LENGTH(a); out[17] = w_MUL15(a & 0x7FFF, b & 0x7FFF); out[18] = (uint32_t)w_MUL31(a & 0x7FFFFFFF, b & 0x7FFFFFFF);
	uint8_t src[37], dst[37];
	memset(src, 0x11, sizeof src); memset(dst, 0x22, sizeof dst);
	poison(src, sizeof src);
	w_ccopy(a & 1, dst, src, sizeof src);
	out[19] = dst[5];
	s.done(out, sizeof out);
	unpoison(dst, sizeof dst);
}

// big integers: value words secret, announced bit length public
template <typename W> struct BI {
	static constexpr int WB = sizeof(W) == 2 ? 15 : 31;
};
static void f_bigint(Tape &t)
{
	unsigned var = t.u8() % 4;          // 0 i15, 1 i31, 2 i32, 3 i62 (modpow_opt only)
	static const unsigned BITS[] = { 256, 521, 1024, 1017, 384, 2048 };
	unsigned bits = BITS[t.u8() % (tier_thorough() ? 6 : 5)];
	size_t nb = (bits + 7) / 8;
	Bytes m = t.filled(nb), xb = t.filled(nb), yb = t.filled(nb), eb = t.filled(t.pick<size_t>({ 1, 3, 16, 32, nb }));
	m[0] |= 0x80; m[0] &= (uint8_t)(0xFF >> ((8 - bits % 8) % 8)); if (bits % 8) m[0] |= (uint8_t)(1 << ((bits - 1) % 8)); m.back() |= 1;
	xb[0] = 0; yb[0] = 0;   // below the modulus
	unsigned op = t.u8() % 8;
	static const char *OPS[] = { "add/sub", "montymul", "to/from_monty", "modpow", "modpow_opt", "decode_mod", "moddiv", "encode/iszero" };
	std::string what = fmt("%s %s, %u-bit modulus, exponent %zu bytes", var == 0 ? "i15" : var == 1 ? "i31" : var == 2 ? "i32" : "i62", OPS[op], bits, eb.size());
	if (var == 3) op = 4;
	if (var == 2 && (op == 4 || op == 6)) op = 3;
	if (var == 3) what = fmt("i62 modpow_opt, %u-bit modulus, exponent %zu bytes", bits, eb.size());
	size_t words = (bits + 64) / (var == 0 ? 15 : 31) + 4;
	if (var == 0) {
		std::vector<uint16_t> M(words), X(words), Y(words), T1(words * 8 + 8), T2(words);
		br_i15_decode(M.data(), m.data(), nb);
		br_i15_decode_mod(X.data(), xb.data(), nb, M.data()); br_i15_decode_mod(Y.data(), yb.data(), nb, M.data());
		uint16_t m0i = br_i15_ninv15(M[1]);
		size_t mw = (M[0] + 15) >> 4;
		Scope s(what);
		poison(X.data() + 1, mw * 2); poison(Y.data() + 1, mw * 2); poison(eb.data(), eb.size());
		uint32_t r = 0;
		switch (op) {
		case 0: { uint32_t ctl = (uint32_t)(X[1] & 1); r = br_i15_add(X.data(), Y.data(), ctl); r |= br_i15_sub(X.data(), Y.data(), ctl ^ 1); break; }
		case 1: T2[0] = M[0]; br_i15_montymul(T2.data(), X.data(), Y.data(), M.data(), m0i); memcpy(X.data(), T2.data(), (mw + 1) * 2); break;
		case 2: br_i15_to_monty(X.data(), M.data()); br_i15_from_monty(X.data(), M.data(), m0i); break;
		case 3: br_i15_modpow(X.data(), eb.data(), eb.size(), M.data(), m0i, T1.data(), T2.data()); break;
		case 4: { size_t tw = t.pick<size_t>({ 2 * (mw + 2), 4 * (mw + 2), 8 * (mw + 1) }); tw += tw & 1; r = br_i15_modpow_opt(X.data(), eb.data(), eb.size(), M.data(), m0i, T1.data(), tw); break; }
		case 5: { Bytes sb = xb; if (t.flag()) sb = m; poison(sb.data(), sb.size()); r = br_i15_decode_mod(X.data(), sb.data(), nb, M.data()); unpoison(sb.data(), sb.size()); break; }
		case 6: { X[1] |= 0; r = br_i15_moddiv(X.data(), Y.data(), M.data(), m0i, T1.data()); break; }
		default: { Bytes o(nb); br_i15_encode(o.data(), nb, X.data()); r = br_i15_iszero(X.data()); unpoison(o.data(), nb); break; }
		}
		(void)declass(r);
		s.done(X.data() + 1, mw * 2);
		unpoison(Y.data(), Y.size() * 2); unpoison(eb.data(), eb.size()); unpoison(T1.data(), T1.size() * 2); unpoison(T2.data(), T2.size() * 2);
		return;
	}
	// 31/32-bit words
	std::vector<uint32_t> M(words), X(words), Y(words), T1(words * 8 + 8), T2(words);
	std::vector<uint64_t> T64(words * 8 + 8);
	size_t mw;
	uint32_t m0i;
	if (var == 2) {
		br_i32_decode(M.data(), m.data(), nb); br_i32_decode_mod(X.data(), xb.data(), nb, M.data()); br_i32_decode_mod(Y.data(), yb.data(), nb, M.data());
		m0i = br_i32_ninv32(M[1]); mw = (M[0] + 31) >> 5;
	} else {
		br_i31_decode(M.data(), m.data(), nb); br_i31_decode_mod(X.data(), xb.data(), nb, M.data()); br_i31_decode_mod(Y.data(), yb.data(), nb, M.data());
		m0i = br_i31_ninv31(M[1]); mw = (M[0] + 31) >> 5;
	}
	Scope s(what);
	poison(X.data() + 1, mw * 4); poison(Y.data() + 1, mw * 4); poison(eb.data(), eb.size());
	uint32_t r = 0;
	if (var == 3) {
		size_t tw = t.pick<size_t>({ 2 * ((mw + 1) / 2 + 1), 4 * ((mw + 1) / 2 + 1), 6 * (mw + 2) });
		r = br_i62_modpow_opt(X.data(), eb.data(), eb.size(), M.data(), m0i, T64.data(), tw);
	} else if (var == 2) {
		switch (op) {
		case 0: { uint32_t ctl = X[1] & 1; r = br_i32_add(X.data(), Y.data(), ctl); r |= br_i32_sub(X.data(), Y.data(), ctl ^ 1); break; }
		case 1: T2[0] = M[0]; br_i32_montymul(T2.data(), X.data(), Y.data(), M.data(), m0i); memcpy(X.data(), T2.data(), (mw + 1) * 4); break;
		case 2: br_i32_to_monty(X.data(), M.data()); br_i32_from_monty(X.data(), M.data(), m0i); break;
		case 5: { Bytes sb = t.flag() ? m : xb; poison(sb.data(), sb.size()); r = br_i32_decode_mod(X.data(), sb.data(), nb, M.data()); unpoison(sb.data(), sb.size()); break; }
		default: br_i32_modpow(X.data(), eb.data(), eb.size(), M.data(), m0i, T1.data(), T2.data()); break;
		}
	} else {
		switch (op) {
		case 0: { uint32_t ctl = X[1] & 1; r = br_i31_add(X.data(), Y.data(), ctl); r |= br_i31_sub(X.data(), Y.data(), ctl ^ 1); break; }
		case 1: T2[0] = M[0]; br_i31_montymul(T2.data(), X.data(), Y.data(), M.data(), m0i); memcpy(X.data(), T2.data(), (mw + 1) * 4); break;
		case 2: br_i31_to_monty(X.data(), M.data()); br_i31_from_monty(X.data(), M.data(), m0i); break;
		case 3: br_i31_modpow(X.data(), eb.data(), eb.size(), M.data(), m0i, T1.data(), T2.data()); break;
		case 4: { size_t tw = t.pick<size_t>({ 2 * (mw + 1), 4 * (mw + 1), 8 * (mw + 1) }); r = br_i31_modpow_opt(X.data(), eb.data(), eb.size(), M.data(), m0i, T1.data(), tw); break; }
		case 5: { Bytes sb = t.flag() ? m : xb; poison(sb.data(), sb.size()); r = br_i31_decode_mod(X.data(), sb.data(), nb, M.data()); unpoison(sb.data(), sb.size()); break; }
		case 6: r = br_i31_moddiv(X.data(), Y.data(), M.data(), m0i, T1.data()); break;
		default: { Bytes o(nb); br_i31_encode(o.data(), nb, X.data()); r = br_i31_iszero(X.data()); unpoison(o.data(), nb); break; }
		}
	}
	(void)declass(r);
	s.done(X.data() + 1, mw * 4);
	unpoison(Y.data(), Y.size() * 4); unpoison(eb.data(), eb.size()); unpoison(T1.data(), T1.size() * 4); unpoison(T2.data(), T2.size() * 4); unpoison(T64.data(), T64.size() * 8);
}

static void f_rsa(Tape &t)
{
	static const struct { const char *name; br_rsa_private priv; br_rsa_pkcs1_sign sign; br_rsa_oaep_decrypt oaep; br_rsa_public pub; br_rsa_oaep_encrypt oenc; } IM[] = {
		{ "i15", br_rsa_i15_private, br_rsa_i15_pkcs1_sign, br_rsa_i15_oaep_decrypt, br_rsa_i15_public, br_rsa_i15_oaep_encrypt },
		{ "i31", br_rsa_i31_private, br_rsa_i31_pkcs1_sign, br_rsa_i31_oaep_decrypt, br_rsa_i31_public, br_rsa_i31_oaep_encrypt },
		{ "i32", br_rsa_i32_private, br_rsa_i32_pkcs1_sign, br_rsa_i32_oaep_decrypt, br_rsa_i32_public, br_rsa_i32_oaep_encrypt },
		{ "i62", br_rsa_i62_private, br_rsa_i62_pkcs1_sign, br_rsa_i62_oaep_decrypt, br_rsa_i62_public, br_rsa_i62_oaep_encrypt },
	};
	unsigned im = t.u8() % 4, op = t.u8() % 4;
	RsaSk &k = rsa_key(t, tier_thorough());
	size_t nlen = k.n.size();
	std::string what = fmt("rsa_%s %s, %u-bit key", IM[im].name, op == 0 ? "private" : op == 1 ? "pkcs1_sign" : op == 2 ? "oaep_decrypt" : "ssl_decrypt", k.bits);
	if (op == 0) {
		Bytes x = t.filled(nlen);
		x[0] = 0;
		if (t.u8() % 8 == 0) x = k.n;   // out of range: the verdict is secret until returned
		Scope s(what);
		poison_key(k); poison(x.data(), nlen);
		uint32_t r = IM[im].priv(x.data(), &k.sk);
		(void)declass(r);
		s.done(x.data(), nlen);
		unpoison_key(k);
	} else if (op == 1) {
		Bytes h = t.filled(32), sig(nlen);
		Scope s(what);
		poison_key(k);
		uint32_t r = IM[im].sign(BR_HASH_OID_SHA256, h.data(), 32, &k.sk, sig.data());
		(void)declass(r);
		s.done(sig.data(), nlen);
		unpoison_key(k);
	} else if (op == 2) {
		// valid ciphertext, or one whose padding is wrong after decryption (validity is secret)
		size_t maxm = nlen > 66 + 2 ? nlen - 66 : 0;
		if (maxm == 0) return;
		Bytes msg = t.filled(t.u8() % (maxm + 1)), ct(nlen);
		br_hmac_drbg_context rng;
		br_hmac_drbg_init(&rng, &br_sha256_vtable, "c08", 3);
		size_t cl = IM[im].oenc(&rng.vtable, &br_sha256_vtable, "L", 1, &k.pk, ct.data(), nlen, msg.data(), msg.size());
		if (cl != nlen) return;
		bool valid = t.u8() % 3 != 0;
		if (!valid) { Bytes junk = t.filled(nlen); junk[0] = 0; ct = junk; what += " (invalid padding)"; }
		size_t len = nlen;
		Scope s(what);
		poison_key(k);
		uint32_t r = IM[im].oaep(&br_sha256_vtable, "L", 1, &k.sk, ct.data(), &len);
		(void)declass(r);
		unpoison(&len, sizeof len);
		s.done(ct.data(), nlen);
		unpoison_key(k);
	} else {
		// TLS key exchange decryption: 48-byte premaster, valid or not
		Bytes em(nlen, 0xA7);
		bool valid = t.u8() % 3 != 0;
		em[0] = 0; em[1] = 2;
		for (size_t i = 2; i < nlen - 49; i++) em[i] = (uint8_t)(1 + (t.u8() % 255));
		em[nlen - 49] = valid ? 0 : 7;
		t.fill(em.data() + nlen - 48, 48);
		IM[im].pub(em.data(), nlen, &k.pk);
		if (!valid) what += " (invalid padding)";
		Scope s(what);
		poison_key(k);
		uint32_t r = br_rsa_ssl_decrypt(IM[im].priv, &k.sk, em.data(), nlen);
		(void)declass(r);
		s.done(em.data(), 48);
		unpoison(em.data(), nlen);
		unpoison_key(k);
	}
}

struct EcImpl { const char *name; const br_ec_impl *impl; };
static std::vector<EcImpl> &ec_impls()
{
	static std::vector<EcImpl> v;
	if (v.empty()) {
		v = { { "prime_i15", &br_ec_prime_i15 }, { "prime_i31", &br_ec_prime_i31 }, { "p256_m15", &br_ec_p256_m15 }, { "p256_m31", &br_ec_p256_m31 },
			{ "c25519_i15", &br_ec_c25519_i15 }, { "c25519_i31", &br_ec_c25519_i31 }, { "c25519_m15", &br_ec_c25519_m15 }, { "c25519_m31", &br_ec_c25519_m31 } };
		if (br_ec_p256_m62_get()) v.push_back({ "p256_m62", br_ec_p256_m62_get() });
		if (br_ec_p256_m64_get()) v.push_back({ "p256_m64", br_ec_p256_m64_get() });
		if (br_ec_c25519_m62_get()) v.push_back({ "c25519_m62", br_ec_c25519_m62_get() });
		if (br_ec_c25519_m64_get()) v.push_back({ "c25519_m64", br_ec_c25519_m64_get() });
	}
	return v;
}
static Bytes ec_scalar(Tape &t, const br_ec_impl *impl, int curve)
{
	size_t ol;
	const unsigned char *ord = impl->order(curve, &ol);
	Bytes x = t.filled(ol);
	if (curve == BR_EC_curve25519) x[0] &= 0x7F; else x[0] = (uint8_t)(ord[0] ? x[0] % ord[0] : 0);
	bool z = true;
	for (auto c : x) if (c) z = false;
	if (z) x.back() = 1;
	return x;
}
static void f_ec(Tape &t)
{
	auto &v = ec_impls();
	const EcImpl &im = v[t.u8() % v.size()];
	std::vector<int> curves;
	for (int c = 0; c < 32; c++) if ((im.impl->supported_curves >> c) & 1) curves.push_back(c);
	int curve = curves[t.u8() % curves.size()];
	unsigned op = t.u8() % 3;
	size_t gl;
	const unsigned char *G = im.impl->generator(curve, &gl);
	Bytes x = ec_scalar(t, im.impl, curve);
	std::string what = fmt("ec %s curve %d %s", im.name, curve, op == 0 ? "mul" : op == 1 ? "mulgen" : "keygen+compute_pub");
	if (op == 0) {
		// point: the generator times a public scalar (any valid point)
		Bytes P(G, G + gl), y = ec_scalar(t, im.impl, curve);
		im.impl->mul(P.data(), gl, y.data(), y.size(), curve);
		Scope s(what);
		poison(x.data(), x.size());
		uint32_t r = im.impl->mul(P.data(), gl, x.data(), x.size(), curve);
		(void)declass(r);
		s.done(P.data(), gl);
	} else if (op == 1) {
		Bytes R(gl + 8);
		Scope s(what);
		poison(x.data(), x.size());
		size_t rl = im.impl->mulgen(R.data(), x.data(), x.size(), curve);
		s.done(R.data(), rl);
	} else {
		br_ec_private_key sk = { curve, x.data(), x.size() };
		Bytes kb(BR_EC_KBUF_PUB_MAX_SIZE);
		br_ec_public_key pk;
		Scope s(what);
		poison(x.data(), x.size());
		size_t rl = br_ec_compute_pub(im.impl, &pk, kb.data(), &sk);
		s.done(kb.data(), rl);
	}
	unpoison(x.data(), x.size());
}
static void f_ecdsa(Tape &t)
{
	bool i15 = t.flag();
	const br_ec_impl *impl = i15 ? (t.flag() ? &br_ec_prime_i15 : &br_ec_all_m15) : (t.flag() ? &br_ec_prime_i31 : &br_ec_all_m31);
	int curve = t.pick<int>({ BR_EC_secp256r1, BR_EC_secp384r1, BR_EC_secp521r1 });
	if (!tier_thorough() && curve == BR_EC_secp521r1 && t.flag()) curve = BR_EC_secp256r1;
	Bytes x = ec_scalar(t, impl, curve);
	const br_hash_class *hc = t.pick<const br_hash_class *>({ &br_sha256_vtable, &br_sha1_vtable, &br_sha512_vtable });
	size_t hl = (hc->desc >> BR_HASHDESC_OUT_OFF) & BR_HASHDESC_OUT_MASK;
	Bytes h = t.filled(hl), sig(140);
	br_ec_private_key sk = { curve, x.data(), x.size() };
	std::string what = fmt("ecdsa_%s_sign_raw curve %d hash %zu bytes", i15 ? "i15" : "i31", curve, hl);
	Scope s(what);
	poison(x.data(), x.size());
	size_t sl = i15 ? br_ecdsa_i15_sign_raw(impl, hc, h.data(), &sk, sig.data()) : br_ecdsa_i31_sign_raw(impl, hc, h.data(), &sk, sig.data());
	s.done(sig.data(), sl);
	unpoison(x.data(), x.size());
}

// The server's key-exchange step as the handshake code runs it: the do_keyx method of the policy installed by
// br_ssl_server_set_single_ec (static ECDH: client point times the server's private key, shared X moved to the
// front of the buffer) and br_ssl_server_set_single_rsa (premaster decryption), with a valid or invalid client value.
// Secret: the private key, hence the shared secret / the padding verdict; public: the client's value and lengths.
static void f_server_keyx(Tape &t)
{
	br_ssl_server_context sc;
	br_ssl_server_zero(&sc);
	br_x509_certificate nochain = { nullptr, 0 };
	if (t.u8() % 3 != 0) {
		auto &v = ec_impls();
		std::vector<const EcImpl *> nist;
		for (auto &e : v) if (e.impl->supported_curves & (1u << BR_EC_secp256r1)) nist.push_back(&e);
		static const EcImpl all15 = { "all_m15", &br_ec_all_m15 }, all31 = { "all_m31", &br_ec_all_m31 };
		nist.push_back(&all15); nist.push_back(&all31);
		const EcImpl &im = *nist[t.u8() % nist.size()];
		std::vector<int> curves;
		for (int c : { BR_EC_secp256r1, BR_EC_secp384r1, BR_EC_secp521r1 }) if ((im.impl->supported_curves >> c) & 1) curves.push_back(c);
		int curve = curves[t.u8() % curves.size()];
		Bytes x = ec_scalar(t, im.impl, curve);
		br_ec_private_key sk = { curve, x.data(), x.size() };
		br_ssl_server_set_single_ec(&sc, &nochain, 1, &sk, BR_KEYTYPE_KEYX | BR_KEYTYPE_SIGN, BR_KEYTYPE_EC, im.impl, br_ecdsa_i31_sign_asn1);
		const br_ssl_server_policy_class **pctx = &sc.chain_handler.single_ec.vtable;
		// client point: the generator times a public scalar; invalid variants: off the curve, wrong length
		size_t gl;
		const unsigned char *G = im.impl->generator(curve, &gl);
		Bytes P(G, G + gl), y = ec_scalar(t, im.impl, curve);
		im.impl->mul(P.data(), gl, y.data(), y.size(), curve);
		unsigned bad = t.u8() % 4;
		if (bad == 1) P[gl / 2] ^= 0x10;
		Bytes data(200, 0);
		size_t len = gl;
		if (bad == 2) len = gl - 1;
		memcpy(data.data(), P.data(), len);
		std::string what = fmt("server static-ECDH key exchange (single_ec policy, %s, curve %d), client point %s", im.name, curve, bad == 1 ? "not on the curve" : bad == 2 ? "one byte short" : "valid");
		Scope s(what);
		poison(x.data(), x.size());
		uint32_t r = (*pctx)->do_keyx(pctx, data.data(), &len);
		(void)declass(r);
		size_t l2 = declass(len);
		VF_CHECK(!tainted(&len, sizeof len) || !RUNNING_ON_VALGRIND, "%s: the LENGTH of the shared secret depends on the secret", what.c_str());
		s.done(data.data(), bad ? 0 : l2);
		unpoison(x.data(), x.size());
		unpoison(data.data(), data.size());
	} else {
		RsaSk &k = rsa_key(t, false);
		static const br_rsa_private CORES[] = { br_rsa_i15_private, br_rsa_i31_private, br_rsa_i32_private, br_rsa_i62_private };
		unsigned ci = t.u8() % 4;
		br_ssl_server_set_single_rsa(&sc, &nochain, 1, &k.sk, BR_KEYTYPE_KEYX | BR_KEYTYPE_SIGN, CORES[ci], br_rsa_i31_pkcs1_sign);
		const br_ssl_server_policy_class **pctx = &sc.chain_handler.single_rsa.vtable;
		size_t nl = k.n.size();
		Bytes em(nl, 0);
		em[1] = 2;
		for (size_t i = 2; i < nl - 49; i++) em[i] = (uint8_t)(1 + t.u8() % 255);
		em[nl - 48] = 3; em[nl - 47] = 3;
		for (size_t i = nl - 46; i < nl; i++) em[i] = t.u8();
		unsigned bad = t.u8() % 5;
		if (bad == 1) em[1] = 1;
		if (bad == 2) em[nl - 49] = 7;
		if (bad == 3) em[2 + t.u8() % (nl - 51)] = 0;
		if (bad == 4) em[0] = 1;
		Bytes c = em;
		VF_CHECK(br_rsa_i31_public(c.data(), c.size(), &k.pk) == 1 || bad == 4, "harness: public operation failed");
		std::string what = fmt("server RSA key exchange (single_rsa policy, core %u, %u bits), padding %s", ci, k.bits, bad ? "invalid" : "valid");
		size_t len = nl;
		Scope s(what);
		poison_key(k);
		uint32_t r = (*pctx)->do_keyx(pctx, c.data(), &len);
		(void)declass(r);
		s.done(c.data(), 48);
		unpoison_key(k);
		unpoison(c.data(), c.size());
	}
}

static void f_symmetric(Tape &t, bool control)
{
	unsigned which = t.u8() % (control ? 3 : 10);
	size_t kl = t.pick<size_t>({ 16, 24, 32 });
	Bytes key = t.filled(32), iv = t.filled(16);
	size_t blocks = 1 + t.u8() % 9;
	Bytes data = t.filled(blocks * 16 + 64);
	size_t len = blocks * 16;
	if (control) {
		static const char *N[] = { "aes_big (table AES)", "aes_small (table AES)", "des_tab (table DES)" };
		Scope s(N[which], true);
		poison(key.data(), 32);
		if (which == 0) { br_aes_big_cbcenc_keys c; br_aes_big_cbcenc_init(&c, key.data(), kl); br_aes_big_cbcenc_run(&c, iv.data(), data.data(), len); }
		else if (which == 1) { br_aes_small_cbcenc_keys c; br_aes_small_cbcenc_init(&c, key.data(), kl); br_aes_small_cbcenc_run(&c, iv.data(), data.data(), len); }
		else { br_des_tab_cbcenc_keys c; br_des_tab_cbcenc_init(&c, key.data(), 24); br_des_tab_cbcenc_run(&c, iv.data(), data.data(), len); }
		s.done(data.data(), len);
		unpoison(key.data(), 32); unpoison(iv.data(), 16); unpoison(data.data(), data.size());
		return;
	}
	static const char *N[] = { "aes_ct cbcenc", "aes_ct cbcdec", "aes_ct ctr", "aes_ct ctrcbc", "aes_ct64 cbcenc", "aes_ct64 cbcdec", "aes_ct64 ctr", "aes_ct64 ctrcbc", "des_ct cbcenc", "des_ct cbcdec" };
	if (which >= 8) kl = t.pick<size_t>({ 8, 16, 24 });
	Scope s(fmt("%s key %zu bytes, %zu bytes of data", N[which], kl, len));
	poison(key.data(), 32); poison(data.data(), len); poison(iv.data(), 16);
	uint8_t mac[16] = { 0 };
	switch (which) {
	case 0: { br_aes_ct_cbcenc_keys c; br_aes_ct_cbcenc_init(&c, key.data(), kl); br_aes_ct_cbcenc_run(&c, iv.data(), data.data(), len); break; }
	case 1: { br_aes_ct_cbcdec_keys c; br_aes_ct_cbcdec_init(&c, key.data(), kl); br_aes_ct_cbcdec_run(&c, iv.data(), data.data(), len); break; }
	case 2: { br_aes_ct_ctr_keys c; br_aes_ct_ctr_init(&c, key.data(), kl); br_aes_ct_ctr_run(&c, iv.data(), 1, data.data(), len + 5); break; }
	case 3: { br_aes_ct_ctrcbc_keys c; br_aes_ct_ctrcbc_init(&c, key.data(), kl); br_aes_ct_ctrcbc_encrypt(&c, iv.data(), mac, data.data(), len); br_aes_ct_ctrcbc_decrypt(&c, iv.data(), mac, data.data(), len); br_aes_ct_ctrcbc_mac(&c, mac, data.data(), len); break; }
	case 4: { br_aes_ct64_cbcenc_keys c; br_aes_ct64_cbcenc_init(&c, key.data(), kl); br_aes_ct64_cbcenc_run(&c, iv.data(), data.data(), len); break; }
	case 5: { br_aes_ct64_cbcdec_keys c; br_aes_ct64_cbcdec_init(&c, key.data(), kl); br_aes_ct64_cbcdec_run(&c, iv.data(), data.data(), len); break; }
	case 6: { br_aes_ct64_ctr_keys c; br_aes_ct64_ctr_init(&c, key.data(), kl); br_aes_ct64_ctr_run(&c, iv.data(), 1, data.data(), len + 5); break; }
	case 7: { br_aes_ct64_ctrcbc_keys c; br_aes_ct64_ctrcbc_init(&c, key.data(), kl); br_aes_ct64_ctrcbc_encrypt(&c, iv.data(), mac, data.data(), len); br_aes_ct64_ctrcbc_decrypt(&c, iv.data(), mac, data.data(), len); br_aes_ct64_ctrcbc_mac(&c, mac, data.data(), len); break; }
	case 8: { br_des_ct_cbcenc_keys c; br_des_ct_cbcenc_init(&c, key.data(), kl); br_des_ct_cbcenc_run(&c, iv.data(), data.data(), len); break; }
	default: { br_des_ct_cbcdec_keys c; br_des_ct_cbcdec_init(&c, key.data(), kl); br_des_ct_cbcdec_run(&c, iv.data(), data.data(), len); break; }
	}
	s.done(data.data(), len);
	unpoison(key.data(), 32); unpoison(iv.data(), 16); unpoison(data.data(), data.size()); unpoison(mac, 16);
}

static void f_stream_mac(Tape &t)
{
	unsigned which = t.u8() % 9;
	Bytes key = t.filled(32), iv = t.filled(12), aad = t.filled(t.u8() % 40), data = t.filled(t.pick<size_t>({ 0, 1, 15, 16, 17, 63, 64, 65, 200 }));
	uint8_t tag[16];
	static const char *N[] = { "chacha20_ct", "poly1305_ctmul", "poly1305_ctmul32", "poly1305_ctmulq", "poly1305_i15", "ghash_ctmul", "ghash_ctmul32", "ghash_ctmul64", "hmac outCT" };
	if (which == 3 && !br_poly1305_ctmulq_get()) which = 1;
	std::string what = fmt("%s, %zu bytes of data, %zu of aad", N[which], data.size(), aad.size());
	if (which == 8) {
		// HMAC with hidden length: key, data and the actual length are secret; [min, max] is public
		const br_hash_class *hc = t.pick<const br_hash_class *>({ &br_sha1_vtable, &br_sha256_vtable, &br_sha384_vtable, &br_md5_vtable });
		size_t maxl = t.pick<size_t>({ 0, 20, 55, 56, 64, 119, 200, 300 }), minl = maxl > 0 ? t.u8() % (maxl + 1) : 0;
		size_t len = minl + (maxl > minl ? t.u16() % (maxl - minl + 1) : 0);
		Bytes buf = t.filled(maxl + 1), out(64);
		what = fmt("hmac_outCT %s, len in [%zu, %zu]", hc == &br_sha1_vtable ? "sha1" : hc == &br_sha256_vtable ? "sha256" : hc == &br_sha384_vtable ? "sha384" : "md5", minl, maxl);
		Scope s(what);
		poison(key.data(), 32); poison(buf.data(), buf.size()); poison(&len, sizeof len);
		br_hmac_key_context kc;
		br_hmac_context hx;
		br_hmac_key_init(&kc, hc, key.data(), 20);
		br_hmac_init(&hx, &kc, 0);
		size_t ol = br_hmac_outCT(&hx, buf.data(), len, minl, maxl, out.data());
		s.done(out.data(), ol);
		unpoison(key.data(), 32); unpoison(buf.data(), buf.size());
		return;
	}
	Scope s(what);
	poison(key.data(), 32); poison(data.data(), data.size());
	const void *outp = data.data();
	size_t outl = data.size();
	switch (which) {
	case 0: br_chacha20_ct_run(key.data(), iv.data(), 7, data.data(), data.size()); break;
	case 1: br_poly1305_ctmul_run(key.data(), iv.data(), data.data(), data.size(), aad.data(), aad.size(), tag, br_chacha20_ct_run, t.flag()); outp = tag; outl = 16; break;
	case 2: br_poly1305_ctmul32_run(key.data(), iv.data(), data.data(), data.size(), aad.data(), aad.size(), tag, br_chacha20_ct_run, t.flag()); outp = tag; outl = 16; break;
	case 3: br_poly1305_ctmulq_get()(key.data(), iv.data(), data.data(), data.size(), aad.data(), aad.size(), tag, br_chacha20_ct_run, t.flag()); outp = tag; outl = 16; break;
	case 4: br_poly1305_i15_run(key.data(), iv.data(), data.data(), data.size(), aad.data(), aad.size(), tag, br_chacha20_ct_run, t.flag()); outp = tag; outl = 16; break;
	default: {
		uint8_t y[16] = { 0 };
		poison(y, 16);
		if (which == 5) br_ghash_ctmul(y, key.data(), data.data(), data.size()); else if (which == 6) br_ghash_ctmul32(y, key.data(), data.data(), data.size()); else br_ghash_ctmul64(y, key.data(), data.data(), data.size());
		memcpy(tag, y, 16); outp = tag; outl = 16;
		unpoison(y, 16);
	}
	}
	if (outl == 0) { outp = key.data(); outl = 1; }
	s.done(outp, outl);
	unpoison(key.data(), 32); unpoison(data.data(), data.size()); unpoison(tag, 16);
}

static void f_aead(Tape &t, bool control)
{
	unsigned mode = t.u8() % 3;
	Bytes key = t.filled(16), nonce = t.filled(12), aad = t.filled(t.u8() % 30), data = t.filled(t.u8() % 70);
	uint8_t tag[16], good[16];
	br_aes_ct_ctr_keys ck;
	br_aes_ct_ctrcbc_keys cbk;
	// first pass (public): the right tag
	auto run = [&](bool enc, uint8_t *tg, bool check) -> uint32_t {
		if (mode == 0) {
			br_gcm_context gc;
			br_aes_ct_ctr_init(&ck, key.data(), 16);
			br_gcm_init(&gc, &ck.vtable, br_ghash_ctmul);
			br_gcm_reset(&gc, nonce.data(), 12); br_gcm_aad_inject(&gc, aad.data(), aad.size()); br_gcm_flip(&gc); br_gcm_run(&gc, enc, data.data(), data.size());
			if (check) return br_gcm_check_tag(&gc, tg);
			br_gcm_get_tag(&gc, tg); return 0;
		} else if (mode == 1) {
			br_eax_context ec;
			br_aes_ct_ctrcbc_init(&cbk, key.data(), 16);
			br_eax_init(&ec, &cbk.vtable);
			br_eax_reset(&ec, nonce.data(), 12); br_eax_aad_inject(&ec, aad.data(), aad.size()); br_eax_flip(&ec); br_eax_run(&ec, enc, data.data(), data.size());
			if (check) return br_eax_check_tag(&ec, tg);
			br_eax_get_tag(&ec, tg); return 0;
		} else {
			br_ccm_context cc;
			br_aes_ct_ctrcbc_init(&cbk, key.data(), 16);
			br_ccm_init(&cc, &cbk.vtable);
			br_ccm_reset(&cc, nonce.data(), 12, aad.size(), data.size(), 16); br_ccm_aad_inject(&cc, aad.data(), aad.size()); br_ccm_flip(&cc); br_ccm_run(&cc, enc, data.data(), data.size());
			if (check) return br_ccm_check_tag(&cc, tg);
			br_ccm_get_tag(&cc, tg); return 0;
		}
	};
	run(true, good, false);
	memcpy(tag, good, 16);
	bool valid = t.u8() % 3 != 0;
	if (!valid) tag[t.u8() % 16] ^= (uint8_t)(1 << (t.u8() % 8));
	if (control) {
		Scope s("memcmp on a secret tag", true);
		poison(good, 16);
		volatile int r = memcmp(good, tag, 16) == 0 ? 1 : 2;
		(void)r;
		s.done(good, 16);
		return;
	}
	std::string what = fmt("%s decrypt + check_tag (%s tag), %zu bytes, %zu aad", mode == 0 ? "gcm" : mode == 1 ? "eax" : "ccm", valid ? "right" : "wrong", data.size(), aad.size());
	Scope s(what);
	poison(key.data(), 16);
	uint32_t r = run(false, tag, true);
	uint32_t rr = declass(r);
	s.done(key.data(), 16);
	VF_CHECK(rr == (valid ? 1u : 0u), "harness: %s returned %u", what.c_str(), rr);
	unpoison(data.data(), data.size());
}

// TLS record decryption with secret keys: the decrypted plaintext (padding
// length and bytes, MAC position and value, validity) is secret throughout.
static void f_record(Tape &t)
{
	unsigned mode = t.u8() % 4;   // 0 CBC, 1 GCM, 2 ChaCha20-Poly1305, 3 CCM
	unsigned ver = mode == 0 ? t.pick<unsigned>({ 0x0301, 0x0302, 0x0303 }) : 0x0303;
	Bytes ekey = t.filled(16), mkey = t.filled(48), iv = t.filled(16);
	size_t plen = t.pick<size_t>({ 0, 1, 5, 15, 16, 31, 47, 100, 300 });
	Bytes pt = t.filled(plen);
	if (mode == 0) {
		const br_hash_class *hc = t.pick<const br_hash_class *>({ &br_sha1_vtable, &br_sha256_vtable, &br_sha384_vtable });
		size_t ml = (hc->desc >> BR_HASHDESC_OUT_OFF) & BR_HASHDESC_OUT_MASK;
		bool use_des = t.u8() % 4 == 0;
		size_t bs = use_des ? 8 : 16, kl = use_des ? 24 : 16;
		Bytes ek = t.filled(24);
		// plaintext || MAC || padding, made by hand so that each part can be wrong
		uint8_t hdr[13] = { 0, 0, 0, 0, 0, 0, 0, 0, 23, (uint8_t)(ver >> 8), (uint8_t)ver, (uint8_t)(plen >> 8), (uint8_t)plen };
		br_hmac_key_context kc;
		br_hmac_context hx;
		br_hmac_key_init(&kc, hc, mkey.data(), ml);
		br_hmac_init(&hx, &kc, 0);
		br_hmac_update(&hx, hdr, 13); br_hmac_update(&hx, pt.data(), plen);
		Bytes mac(64);
		br_hmac_out(&hx, mac.data());
		Bytes rec = pt;
		rec.insert(rec.end(), mac.begin(), mac.begin() + ml);
		size_t minpad = bs - 1 - (rec.size() % bs);
		size_t extra = (t.u8() % 4) * bs;
		if (minpad + extra > 255) extra = 0;
		size_t padv = minpad + extra;
		size_t padstart = rec.size();
		rec.insert(rec.end(), padv + 1, (uint8_t)padv);
		unsigned defect = t.u8() % 6;   // 0,1 none; 2 pad byte; 3 MAC byte; 4 pad length byte; 5 plaintext byte
		const char *dn = "valid";
		if (defect == 2 && padv > 0) { rec[padstart + t.u8() % padv] ^= 0x01; dn = "wrong padding byte"; }
		else if (defect == 3) { rec[plen + t.u8() % ml] ^= 0x80; dn = "wrong MAC byte"; }
		else if (defect == 4) { rec.back() = (uint8_t)t.u8(); dn = "lying padding length"; }
		else if (defect == 5 && plen) { rec[t.u8() % plen] ^= 0x04; dn = "altered plaintext"; }
		// encrypt (public step, with the same keys)
		Bytes wire;
		Bytes civ = iv;
		if (ver >= 0x0302) { Bytes eiv = t.filled(bs); rec.insert(rec.begin(), eiv.begin(), eiv.end()); }
		if (use_des) { br_des_ct_cbcenc_keys c; br_des_ct_cbcenc_init(&c, ek.data(), kl); br_des_ct_cbcenc_run(&c, civ.data(), rec.data(), rec.size()); }
		else { br_aes_ct_cbcenc_keys c; br_aes_ct_cbcenc_init(&c, ek.data(), kl); br_aes_ct_cbcenc_run(&c, civ.data(), rec.data(), rec.size()); }
		std::string what = fmt("CBC record decrypt (%s, TLS %04x, %s, plaintext %zu, padding %zu): %s", use_des ? "3DES" : "AES-128", ver, hc == &br_sha1_vtable ? "SHA-1" : hc == &br_sha256_vtable ? "SHA-256" : "SHA-384", plen, padv, dn);
		br_sslrec_in_cbc_context rc;
		Scope s(what);
		poison(ek.data(), 24); poison(mkey.data(), 48);
		br_sslrec_in_cbc_vtable.init(&rc.vtable, use_des ? &br_des_ct_cbcdec_vtable : &br_aes_ct_cbcdec_vtable, ek.data(), kl, hc, mkey.data(), ml, ml, ver >= 0x0302 ? nullptr : iv.data());
		size_t len = rec.size();
		if (!br_sslrec_in_cbc_vtable.inner.check_length((const br_sslrec_in_class **)&rc.vtable, len)) { unpoison(ek.data(), 24); unpoison(mkey.data(), 48); return; }
		unsigned char *out = br_sslrec_in_cbc_vtable.inner.decrypt((const br_sslrec_in_class **)&rc.vtable, 23, ver, rec.data(), &len);
		s.done(rec.data(), rec.size());
		unpoison(&rc, sizeof rc); unpoison(ek.data(), 24); unpoison(mkey.data(), 48);
		bool expect_ok = defect < 2 || (defect == 2 && padv == 0) || (defect == 5 && !plen) || (defect == 4 && rec.size() && false);
		if (defect != 4) VF_CHECK((out != nullptr) == expect_ok, "harness: %s: decrypt %s", what.c_str(), out ? "accepted" : "rejected");
		return;
	}
	// AEAD records: make one with the out class, decrypt with the in class
	std::string what;
	Bytes buf(plen + 64);
	size_t len = plen;
	unsigned char *rec;
	bool valid = t.u8() % 3 != 0;
	br_aes_ct_ctr_keys ck;
	(void)ck;
	if (mode == 1) {
		br_sslrec_gcm_context oc, ic;
		br_sslrec_out_gcm_vtable.init(&oc.vtable.out, &br_aes_ct_ctr_vtable, ekey.data(), 16, br_ghash_ctmul, iv.data());
		memcpy(buf.data() + 13, pt.data(), plen);
		rec = br_sslrec_out_gcm_vtable.inner.encrypt((const br_sslrec_out_class **)&oc.vtable.out, 23, ver, buf.data() + 13, &len);
		len -= 5; rec += 5;
		if (!valid) rec[t.u8() % len] ^= 0x20;
		what = fmt("GCM record decrypt, plaintext %zu: %s", plen, valid ? "valid" : "altered");
		Scope s(what);
		poison(ekey.data(), 16);
		br_sslrec_in_gcm_vtable.init(&ic.vtable.in, &br_aes_ct_ctr_vtable, ekey.data(), 16, br_ghash_ctmul, iv.data());
		unsigned char *out = br_sslrec_in_gcm_vtable.inner.decrypt((const br_sslrec_in_class **)&ic.vtable.in, 23, ver, rec, &len);
		s.done(&ic, sizeof ic);
		unpoison(&ic, sizeof ic); unpoison(ekey.data(), 16);
		VF_CHECK((out != nullptr) == valid, "harness: %s: decrypt %s", what.c_str(), out ? "accepted" : "rejected");
	} else if (mode == 2) {
		br_sslrec_chapol_context oc, ic;
		Bytes k32 = t.filled(32);
		br_sslrec_out_chapol_vtable.init(&oc.vtable.out, br_chacha20_ct_run, br_poly1305_ctmul_run, k32.data(), iv.data());
		memcpy(buf.data() + 5, pt.data(), plen);
		rec = br_sslrec_out_chapol_vtable.inner.encrypt((const br_sslrec_out_class **)&oc.vtable.out, 23, ver, buf.data() + 5, &len);
		len -= 5; rec += 5;
		if (!valid) rec[t.u8() % len] ^= 0x20;
		what = fmt("ChaCha20-Poly1305 record decrypt, plaintext %zu: %s", plen, valid ? "valid" : "altered");
		Scope s(what);
		poison(k32.data(), 32);
		br_sslrec_in_chapol_vtable.init(&ic.vtable.in, br_chacha20_ct_run, br_poly1305_ctmul_run, k32.data(), iv.data());
		unsigned char *out = br_sslrec_in_chapol_vtable.inner.decrypt((const br_sslrec_in_class **)&ic.vtable.in, 23, ver, rec, &len);
		s.done(plen ? rec : k32.data(), plen ? plen : 1);
		unpoison(&ic, sizeof ic); unpoison(k32.data(), 32); unpoison(rec, plen + 16);
		VF_CHECK((out != nullptr) == valid, "harness: %s: decrypt %s", what.c_str(), out ? "accepted" : "rejected");
	} else {
		br_sslrec_ccm_context oc, ic;
		size_t tl = t.flag() ? 16 : 8;
		br_sslrec_out_ccm_vtable.init(&oc.vtable.out, &br_aes_ct_ctrcbc_vtable, ekey.data(), 16, iv.data(), tl);
		memcpy(buf.data() + 13, pt.data(), plen);
		rec = br_sslrec_out_ccm_vtable.inner.encrypt((const br_sslrec_out_class **)&oc.vtable.out, 23, ver, buf.data() + 13, &len);
		len -= 5; rec += 5;
		if (!valid) rec[t.u8() % len] ^= 0x20;
		what = fmt("CCM record decrypt (tag %zu), plaintext %zu: %s", tl, plen, valid ? "valid" : "altered");
		Scope s(what);
		poison(ekey.data(), 16);
		br_sslrec_in_ccm_vtable.init(&ic.vtable.in, &br_aes_ct_ctrcbc_vtable, ekey.data(), 16, iv.data(), tl);
		unsigned char *out = br_sslrec_in_ccm_vtable.inner.decrypt((const br_sslrec_in_class **)&ic.vtable.in, 23, ver, rec, &len);
		s.done(&ic, sizeof ic);
		unpoison(&ic, sizeof ic); unpoison(ekey.data(), 16);
		VF_CHECK((out != nullptr) == valid, "harness: %s: decrypt %s", what.c_str(), out ? "accepted" : "rejected");
	}
}

void target_run(Tape &t)
{
	unsigned f = t.u8();
	switch (f % 12) {
	case 0: f_primitives(t); break;
	case 1: case 2: f_bigint(t); break;
	case 3: f_rsa(t); break;
	case 4: case 5: f_ec(t); break;
	case 6: f_ecdsa(t); break;
	case 7: f_symmetric(t, false); break;
	case 8: f_stream_mac(t); break;
	case 9: f_aead(t, false); break;
	case 10: f_record(t); break;
	default: { unsigned w = t.u8() % 4; if (w == 1) f_symmetric(t, true); else if (w == 0) f_aead(t, true); else f_server_keyx(t); break; }
	}
	stats.notes["declassifications"] = fmt("%llu BR_VERIF_PUBLIC marks executed", (unsigned long long)g_declass);
}

// every entry point x implementation at least once, deterministically
void target_enum(int shard, int nshards)
{
	uint64_t n = 0;
	auto emit = [&](std::vector<uint8_t> tp) { if ((n++ % (uint64_t)nshards) == (uint64_t)shard) enum_tape(tp); };
	bool th = tier_thorough();
	// positive controls first (in every shard: a shard without them proves nothing)
	for (uint8_t w = 0; w < 3; w++) enum_tape({ 11, 1, w, 1, 2, 3, 4, 5, 6, 7, 8 });
	enum_tape({ 11, 0, 0, 9, 9, 9, 9 });
	emit({ 0, 1, 2, 3, 4, 0, 0, 0 });
	// server key exchange through the policy handlers: every EC implementation with NIST curves x curve x {valid, off-curve, short}; every RSA core x {valid, 4 invalid forms}
	for (uint8_t im = 0; im < 8; im++) for (uint8_t cv = 0; cv < 3; cv++) for (uint8_t bad = 0; bad < 3; bad++) {
		std::vector<uint8_t> tp = { 11, 2, 1, im, cv };
		for (int i = 0; i < 66; i++) tp.push_back((uint8_t)(17 + i * 5 + im + cv));
		for (int i = 0; i < 66; i++) tp.push_back((uint8_t)(3 + i * 11 + im));
		tp.push_back(bad);
		emit(tp);
	}
	for (uint8_t core = 0; core < 4; core++) for (uint8_t bad = 0; bad < 5; bad++) for (uint8_t kk = 0; kk < 2; kk++) {
		std::vector<uint8_t> tp = { 11, 2, 0, kk, core };
		for (int i = 0; i < 180; i++) tp.push_back((uint8_t)(1 + i * 7 + core));
		tp.push_back(bad);
		emit(tp);
	}
	for (uint8_t var = 0; var < 4; var++) for (uint8_t bits = 0; bits < (th ? 6 : 3); bits++) for (uint8_t op = 0; op < 8; op++) emit({ 1, var, bits, 9, 9, 9, 9, 8, 8, 8, 8, 7, 7, 7, 7, 3, 1, 1, 1, 1, op, 2, 1 });
	for (uint8_t im = 0; im < 4; im++) for (uint8_t op = 0; op < 4; op++) for (uint8_t v = 0; v < 3; v++) emit({ 3, im, op, (uint8_t)(v + im), 5, 5, 5, 5, v, 1, 2, 3, 4, v, 9, 9 });
	for (uint8_t im = 0; im < 12; im++) for (uint8_t cv = 0; cv < 3; cv++) for (uint8_t op = 0; op < 3; op++) emit({ 4, im, cv, op, 7, 7, 7, (uint8_t)(7 + cv), 1, 2, 3, 4 });
	for (uint8_t a = 0; a < 8; a++) emit({ 6, a, (uint8_t)(a >> 1), (uint8_t)(a >> 2), a, 1, 5, 5, 5, 5, (uint8_t)(a % 3), 3, 3, 3, 3 });
	for (uint8_t w = 0; w < 10; w++) for (uint8_t k = 0; k < 3; k++) emit({ 7, w, k, 1, 1, 1, 1, 2, 2, 2, 2, (uint8_t)(w + k), 3, 3, 3, 3, k });
	for (uint8_t w = 0; w < 9; w++) for (uint8_t k = 0; k < 4; k++) emit({ 8, w, 1, 1, 1, 1, 2, 2, 2, 2, (uint8_t)(k * 7), 3, 3, 3, 3, (uint8_t)(k * 2 + 1), 4, 4, 4, 4, k, (uint8_t)(k * 3), (uint8_t)(w * 5), k, 6, 6, 6, 6 });
	for (uint8_t m = 0; m < 3; m++) for (uint8_t v = 0; v < 3; v++) emit({ 9, m, 1, 1, 1, 1, 2, 2, 2, 2, (uint8_t)(v * 9), 3, 3, 3, 3, (uint8_t)(20 + v), 4, 4, 4, 4, v, 3, 2 });
	for (uint8_t m = 0; m < 4; m++) for (uint8_t v = 0; v < (th ? 40 : 12); v++) emit({ 10, m, v, 1, 1, 1, 1, 2, 2, 2, 2, 3, 3, 3, 3, (uint8_t)(v * 3), 4, 4, 4, 4, (uint8_t)(v / 3), (uint8_t)(v / 2), 5, 5, 5, 5, v, (uint8_t)(v % 6), (uint8_t)(v * 11), (uint8_t)(v * 7), 6, 6, 6, 6 });
}
