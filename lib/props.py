"""Per-property configuration: targets, engines, tier budgets, evidence text.

Each target is one harness source (harness/<src>) exposing target_run(tape).
Modes:
  rc    rapidcheck generates/shrinks tapes: cases split over shards
  enum  the target's deterministic enumerator, sharded
  fuzz  libFuzzer (coverage-guided) with the oracle inside the target
"""

SSL_LIBS = ["-lssl", "-lcrypto"]
MBED_LIBS = ["-lmbedtls", "-lmbedx509", "-lmbedcrypto"]
CRYPTO = ["-lcrypto"]
GMP = ["-lgmp"]

PROPS = {}

PROPS["C12"] = dict(
    level="exploration",
    technique="rapidcheck differential testing (each implementation vs OpenSSL/RFC reference and vs siblings) with generated call splits; length enumerator",
    rule=("case = tape decoded into (primitive, key length, data length biased to block boundaries, IV/key/data seeds, "
          "32-bit or 128-bit counter class incl. wrap, up to 4-way split into successive calls of admissible sizes); every "
          "implementation of the primitive is run single-call and split and compared with an independent reference. "
          "non-trivial = length > one block, or >= 2 non-empty parts, or a counter wrap; distinct = distinct "
          "(primitive, sub-operation, key length, data length, split shape, counter class)"),
    assumptions=["OpenSSL 3.0 EVP single-block AES/3DES-ECB, chacha20 and chacha20-poly1305 are correct",
                 "POWER8 implementations are not compiled on x86 (reported as absent)"],
    targets=[dict(name="c12_symmetric", src="c12_symmetric.cpp", flavour="san", libs=CRYPTO)],
    quick=[("c12_symmetric", "rc", dict(cases=240000, shards=16)),
           ("c12_symmetric", "enum", dict(shards=8))],
    thorough=[("c12_symmetric", "rc", dict(cases=1600000, shards=16)),
              ("c12_symmetric", "enum", dict(shards=16))],
    floor=dict(quick=3000, thorough=20000),
)

PROPS["C01"] = dict(
    level="exploration",
    technique="rapidcheck-generated TLS sessions (Bear<->Bear, Bear<->OpenSSL and Bear<->mbedTLS both ways) with generated transport schedules; oracles: running prefix check, parameter/key-export agreement, independent wiretap record codec; suite x version x layout enumerator",
    rule=("case = (pairing, suite, version, server key kind, per-side implementation set / buffer layout / fragment class, transport chunk policies "
          "incl. 1-byte and header-splitting, application script with write sizes around fragment boundaries, closer). non-trivial = handshake "
          "completed, >= 1 application byte in each direction and >= 1 transport chunk boundary strictly inside a record; distinct = "
          "(pairing, suite, version, key, client esp/layout/class, server esp/layout/class, payload residue classes)"
          " Added pairings: Bear client <-> mbedTLS server and mbedTLS client (optionally requesting a maximum fragment length) <-> Bear server."),
    assumptions=["OpenSSL 3.0 libssl is a correct independent TLS 1.0-1.2 peer for the 28 suites it shares with BearSSL",
                 "mbedTLS 2.28 is a correct independent peer for the suites it shares (incl. static ECDH and 3DES); it neither reassembles nor splits handshake messages, so in its pairings the BearSSL buffers hold the certificate flight in one record",
                 "the exporter is compared in one of three forms per case (16-byte context, context of length zero, no context)",
                 "OpenSSL EVP primitives used by the wiretap codec are correct"],
    targets=[dict(name="c01_session", src="c01_session.cpp", flavour="san", libs=SSL_LIBS + MBED_LIBS, noseed=True)],
    quick=[("c01_session", "enum", dict(shards=16)),
           ("c01_session", "rc", dict(cases=6400, shards=16))],
    thorough=[("c01_session", "enum", dict(shards=16)),
              ("c01_session", "rc", dict(cases=60000, shards=16))],
    floor=dict(quick=300, thorough=3000),
)

PROPS["C02"] = dict(
    level="fault_enumeration",
    technique="fault enumeration over recorded protected streams replayed into a snapshotted victim (all bits, record edits, crafted records with the real keys via an independent codec), driven by an enumerator and by rapidcheck over (suite, version, victim, fault class, record)",
    rule=("lab = connected pair for (suite, version, impl set, victim role, buffer layout) with the victim-bound records held back; one evaluation = "
          "one fault applied to the stream and replayed into the restored victim under a chunking policy: every single bit of a record, drop / "
          "duplicate / swap / replay-earlier / truncate-at-every-byte / cross-connection splice / reflection at a record index, and records crafted "
          "with the real keys by the independent codec (every legal CBC padding length = positive control, every wrong padding byte, every wrong "
          "MAC/tag byte, every lying padding-length byte, wrong sequence number / type / version in MAC input, inadmissible record lengths). "
          "non-trivial = every evaluation (the victim has accepted the genuine handshake and the stream prefix); distinct = (suite, version, esp, "
          "victim, layout, fault class, record index, position)"
          " Added: for crafted AEAD/CBC records the victim's 64-bit incoming sequence number is fast-forwarded by 2^k (k = 8..56) at a record boundary: the record made for n+2^k must be accepted (control) and record n - a replay from 2^k records ago - refused at once."),
    assumptions=["OpenSSL EVP primitives used by the wiretap codec are correct",
                 "single-fault model: one edit per replay (adaptive multi-fault attacks and timing are out of scope, see C08)"],
    targets=[dict(name="c02_tamper", src="c02_tamper.cpp", flavour="san", libs=SSL_LIBS, noseed=True)],
    quick=[("c02_tamper", "enum", dict(shards=16)),
           ("c02_tamper", "rc", dict(cases=480, shards=16))],
    thorough=[("c02_tamper", "enum", dict(shards=16)),
              ("c02_tamper", "rc", dict(cases=16000, shards=16))],
    floor=dict(quick=20000, thorough=200000),
)

PROPS["C20"] = dict(
    level="exploration",
    technique="rapidcheck over seeding histories, long sessions with renegotiations and seed pairs, on a library build without system seeders; oracles: documented refusal, independent wiretap sequence numbering, pairwise distinctness, transcript equality for equal seeds",
    rule=("three case kinds decoded from the tape: (a) reset histories (role, up to 4 resets, entropy of 1..64 bytes injected before reset #k or "
          "never, hash-set variant); (b) a session of hundreds (quick) / thousands (thorough) of records per direction in a generated protection "
          "mode with 0..3 renegotiations by generated initiators, every record authenticated by the independent wiretap with sequence numbers "
          "from 0 per key change, explicit nonces == counter, explicit CBC IVs pairwise distinct; (c) 3..5 connections with pairwise distinct "
          "seeds (random / one-bit / length-only differences) compared field by field, plus an equal-seed pair compared byte by byte. "
          "non-trivial = gate histories, sessions with >= 1 key change beyond the first, seed pairs; distinct by their parameters"
          " Added: a client context reused for 2..4 connections while the application adds / removes SHA-256 or SHA-384 in between: every ClientHello random differs between two seeds and between connections."),
    assumptions=["quality of the entropy source itself is out of scope", "ESP8266 hardware RNG seeder cannot be compiled here",
                 "the /dev/urandom seeder is exercised in a build where it is the only system seeder and its open/read/close are routed to the harness (scripted short reads, EINTR, errors, end of file)"],
    targets=[dict(name="c20_random", src="c20_random.cpp", flavour="san", libs=SSL_LIBS, noseed=True),
             dict(name="c20_sysseed", src="c20_sysseed.cpp", flavour="san", libs=SSL_LIBS, noseed=False),
             dict(name="c20_seeder", src="c20_seeder.cpp", flavour="san", libs=SSL_LIBS, urandom_seeder=True),
             dict(name="c20_getentropy", src="c20_getentropy.cpp", flavour="san", libs=SSL_LIBS, getentropy_seeder=True)],
    quick=[("c20_random", "enum", dict(shards=16)),
           ("c20_random", "rc", dict(cases=960, shards=16)),
           ("c20_sysseed", "rc", dict(cases=16, shards=2)),
           ("c20_seeder", "rc", dict(cases=4000, shards=4)),
           ("c20_getentropy", "rc", dict(cases=400, shards=2))],
    thorough=[("c20_random", "enum", dict(shards=16)),
              ("c20_random", "rc", dict(cases=16000, shards=16)),
              ("c20_sysseed", "rc", dict(cases=200, shards=4)),
              ("c20_seeder", "rc", dict(cases=100000, shards=8)),
              ("c20_getentropy", "rc", dict(cases=4000, shards=4))],
    floor=dict(quick=300, thorough=3000),
)

PROPS["C06"] = dict(
    level="exploration",
    technique="rapidcheck stateful (model-based) testing of API call sequences on a connected pair with an invariant after every call, plus bounded exhaustive exploration of command sequences from handshake/data-phase snapshots with state-hash deduplication",
    rule=("case = configuration (CBC-1.0/1.1, GCM, ChaCha20, CCM_8; client and server each shared / set_buffer-bidi / split buffers at minimum or "
          "default size), start phase (after reset, after N scheduling rounds, established) and up to 90 generated API commands (sendapp+ack k, "
          "recvapp_ack k, sendrec->wire k, wire->recvrec k with k in {1,2,half,all-1,all}; flush(0|1); close; renegotiate; ordinary pumping). "
          "The invariant set is asserted after every engine call. non-trivial = sequence with >= 1 partial acknowledgement and >= 1 shared-buffer "
          "mode switch or close/renegotiate; distinct = distinct hashes of the engine registers of both endpoints visited (random walks) and "
          "distinct register states reached by the exhaustive explorer"
          " Added: in histories where nobody closed, renegotiated or tampered, no call may leave an engine closed (an engine that fails on its own loses the bytes it holds)."),
    assumptions=["only API-legal calls are generated (never ack 0, never more than offered)",
                 "histories matching the two listed known findings are constructed away and counted (excluded_by_construction); directed probes replay them"],
    targets=[dict(name="c06_state", src="c06_state.cpp", flavour="san", libs=SSL_LIBS, noseed=True),
             dict(name="c19_sslio", src="c19_sslio.cpp", flavour="san", libs=SSL_LIBS, noseed=True)],
    quick=[("c06_state", "enum", dict(shards=16)),
           ("c06_state", "rc", dict(cases=32000, shards=12)),
           ("c19_sslio", "rc", dict(cases=2400, shards=4))],
    thorough=[("c06_state", "enum", dict(shards=16)),
              ("c06_state", "rc", dict(cases=480000, shards=16)),
              ("c19_sslio", "rc", dict(cases=60000, shards=16))],
    floor=dict(quick=2000, thorough=20000),
)

PROPS["C19"] = dict(
    level="fault_enumeration",
    technique="rapidcheck over event histories (close / transport cut / injected alert / renegotiation at generated scheduling rounds, also inside records) on a connected pair, an alert-grid enumerator using an independent record codec with the real keys, and a br_sslio harness with short-count and failing transport callbacks",
    rule=("case = configuration (8 protection mode/version pairs, shared / bidi / split buffers, implementation set, transport and application "
          "chunking) + two-way data script + one event kind at generated rounds: close by client/server/both; transport cut after k delivered "
          "bytes; alert (level 0..255, description 0..255, or malformed: 1 byte, 3 bytes, pair split over two records, empty record first) "
          "injected towards either side in the clear during the handshake, in the data phase, or after the victim's own close; 1..3 renegotiation "
          "requests by either side with BR_OPT_NO_RENEGOTIATION on either side. non-trivial = the event fell inside a data exchange (bytes written) "
          "/ an injected alert / a cut before everything had ended; distinct by (configuration, event kind, phase, position class). "
          "c19_sslio: histories of br_sslio_write_all/flush/read/close over callbacks returning short counts and, at a generated call, -1"
          " Added: renegotiation with mbedTLS 2.28 in either role (BearSSL asks / the peer asks / the peer asks and BearSSL has BR_OPT_NO_RENEGOTIATION / both in turn) at quiescent points: key changes counted on the wire, BearSSL's hello bound to the previous Finished values, one warning per declined request; c19_sslio: the transport failure is also placed at the k-th callback inside br_sslio_close()."),
    assumptions=["peers without RFC 5746 support are not simulated; declined renegotiation is exercised through BR_OPT_NO_RENEGOTIATION; renegotiation with a foreign stack (mbedTLS 2.28, both roles) is exercised at quiescent points only, because both stacks refuse application data that crosses a renegotiation",
                 "documented upstream behaviours are not failures: data arriving during a renegotiation is refused with BR_ERR_UNEXPECTED, a received no_renegotiation is fatal for the receiver",
                 "known finding F4 (client renegotiation with unflushed plaintext) is constructed away and counted"],
    targets=[dict(name="c19_closure", src="c19_closure.cpp", flavour="san", libs=SSL_LIBS + MBED_LIBS, noseed=True),
             dict(name="c19_sslio", src="c19_sslio.cpp", flavour="san", libs=SSL_LIBS, noseed=True)],
    quick=[("c19_closure", "enum", dict(shards=16)),
           ("c19_closure", "rc", dict(cases=6400, shards=16)),
           ("c19_sslio", "rc", dict(cases=2400, shards=8))],
    thorough=[("c19_closure", "enum", dict(shards=16)),
              ("c19_closure", "rc", dict(cases=120000, shards=16)),
              ("c19_sslio", "rc", dict(cases=60000, shards=16))],
    floor=dict(quick=2000, thorough=20000),
)

PROPS["C16"] = dict(
    level="exploration",
    technique="rapidcheck + threshold-grid enumerator over buffer sizes; record plaintext lengths measured by an independent wiretap codec; conformant and abusive peers played by the same codec with the real keys; OpenSSL for MFLN interop; man-in-the-middle rewriting of the ServerHello extension",
    rule=("case kinds: Bear<->Bear session with independently generated client/server buffer sizes at each threshold (512..16384 + overhead) +-1 and "
          "layouts, writes up to 3 fragments; OpenSSL peer in either role with the extension; ServerHello rewritten (other code / unsolicited / "
          "duplicate / bad length); acceptance probes (exactly advertised length with min and max CBC padding, largest record that fits the input "
          "buffer, 16385 bytes, one byte); buffers below the documented minimum. non-trivial = at least one side below 16384 and an application "
          "write larger than the limit, or a probe/rewrite case; distinct = (mode, version, layouts, sizes, probe)"),
    assumptions=["OpenSSL implements RFC 6066 max_fragment_length correctly in both roles",
                 "the record carrying the ServerHello may exceed the client's limit by the hello message itself (property: 'in all records after its hello')"],
    targets=[dict(name="c16_fraglen", src="c16_fraglen.cpp", flavour="san", libs=SSL_LIBS, noseed=True)],
    quick=[("c16_fraglen", "enum", dict(shards=16)),
           ("c16_fraglen", "rc", dict(cases=3200, shards=16))],
    thorough=[("c16_fraglen", "enum", dict(shards=16)),
              ("c16_fraglen", "rc", dict(cases=120000, shards=16))],
    floor=dict(quick=800, thorough=8000),
)

PROPS["C17"] = dict(
    level="exploration",
    technique="rapidcheck stateful testing of the LRU cache against an explicit model with a full non-destructive scan after every command; exhaustive enumeration of all short histories for capacities 0..4; rapidcheck over connection histories with resumption judged by a reference predicate and the wire",
    rule=("part A: history of save(fresh id) / load(saved, evicted, forgotten, one-bit-different or unknown id) / forget(id) on a cache with generated "
          "storage size (0..99, k*100, k*100+-1, k <= 64), base alignment and index-key entropy; after every command the observable result and a "
          "scan of the whole id universe on a copy are compared with an MRU-list model; canaries around the store. part B: 2..8 connections of two "
          "client contexts to a server with a cache of capacity 1..3 (plain resume, client/server dropped the suite, client/server lowered the "
          "version, after forget, another server, flipped / truncated id). non-trivial (A) = history with an eviction after a load-refresh or a "
          "forget; (B) = >= 1 resumption attempt; distinct = hash of the history"),
    assumptions=["ids passed to save() are fresh (interface contract: randomly generated session IDs); a second save under a live id is not generated",
                 "when the remembered version is acceptable but is not the version a new negotiation would pick, either outcome is accepted ('abbreviated only when')"],
    targets=[dict(name="c17_cache", src="c17_cache.cpp", flavour="san", libs=SSL_LIBS, noseed=True)],
    quick=[("c17_cache", "enum", dict(shards=16)),
           ("c17_cache", "rc", dict(cases=6400, shards=16))],
    thorough=[("c17_cache", "enum", dict(shards=16)),
              ("c17_cache", "rc", dict(cases=200000, shards=16))],
    floor=dict(quick=2000, thorough=20000),
)

PROPS["C14"] = dict(
    level="exploration",
    technique="rapidcheck differential testing of GCM/CCM/EAX against OpenSSL EVP (GCM, CCM) and a harness EAX built on OpenSSL CMAC + single-block AES, with generated AAD/message splits, context reuse, EAX saved-state shortcuts, truncated tags, single-bit tampering and the RFC 3610 parameter predicate; split enumerator",
    rule=("case = (mode, AES implementation among big/small/ct/ct64/x86ni, GHASH implementation, key 16/24/32, nonce length 1..64 (GCM, EAX) or "
          "7..13 (CCM), tag length, AAD and message lengths 0..600 biased to block boundaries, split of the AAD over up to 4 inject calls and of the "
          "message over up to 4 run calls incl. empty calls, first unrelated message on the same context, EAX pre-/post-AAD saved state, one "
          "generated bit flip in nonce / AAD / ciphertext / tag) or a br_ccm_reset parameter probe (nonce 0..19, tag 0..19, declared length "
          "around 2^16 / 2^24). non-trivial = AAD and message non-empty and at least one of them split; distinct = (mode, impl, key, nonce len, "
          "tag len, length residues, split shapes, shortcut)"
          " Added: decryption with the generated split must return the message, pass check_tag and compute the reference tag (CCM MACs the plaintext)."),
    assumptions=["OpenSSL 3.0 EVP AES-GCM, AES-CCM, CMAC and AES-ECB are correct", "CCM with declared lengths different from the injected ones is undocumented and not generated"],
    targets=[dict(name="c14_aead", src="c14_aead.cpp", flavour="san", libs=CRYPTO)],
    quick=[("c14_aead", "enum", dict(shards=8)),
           ("c14_aead", "rc", dict(cases=120000, shards=16))],
    thorough=[("c14_aead", "enum", dict(shards=16)),
              ("c14_aead", "rc", dict(cases=3000000, shards=16))],
    floor=dict(quick=5000, thorough=50000),
)

PROPS["C13"] = dict(
    level="exploration",
    technique="rapidcheck differential testing against OpenSSL (digests, SHAKE XOF, HMAC, TLS1-PRF, HKDF, low-level contexts with explicit state) and harness references (MGF1, SP 800-90A HMAC_DRBG, the documented AESCTR_DRBG construction) under generated update/produce partitions; exhaustive outCT triple enumerator",
    rule=("case kinds: hash (7 functions; length 0..1100 biased to the 55/56/64/111/112/128 padding boundaries; up to 5 updates incl. empty; "
          "intermediate out(); state()/set_state() into a fresh context at a block boundary), length-carry (set_state with generated chaining value "
          "and count just below 2^32 / 2^64 bits), multihash (any subset), SHAKE128/256 (inject and produce in pieces), HMAC (key 0..200, partial "
          "output length, out() then more data), outCT (prefix 0..140, min <= len <= max <= 3 blocks + 9), TLS 1.0 / 1.2 PRFs (0..4 seed chunks, "
          "output 0..1000), HKDF (salt/no-salt, IKM in pieces, output in pieces), MGF1, HMAC_DRBG and AESCTR_DRBG generate/update sequences (incl. "
          "crossing the 32768-block forced update). non-trivial = >= 2 non-empty updates or a state restore or min < len < max or a multi-call "
          "sequence; distinct = (function, lengths, partition shape)"),
    assumptions=["OpenSSL 3.0 digests, HMAC, TLS1-PRF, HKDF and AES are correct",
                 "AESCTR_DRBG has no external standard: the reference follows the construction described in aesctr_drbg.c with the constants the code uses (the comment says H_init = A5, the code uses 5A: noted as an observation)"],
    targets=[dict(name="c13_hash", src="c13_hash.cpp", flavour="san", libs=CRYPTO)],
    quick=[("c13_hash", "enum", dict(shards=16)),
           ("c13_hash", "rc", dict(cases=160000, shards=16))],
    thorough=[("c13_hash", "enum", dict(shards=16)),
              ("c13_hash", "rc", dict(cases=4000000, shards=16))],
    floor=dict(quick=10000, thorough=100000),
)

PROPS["C09"] = dict(
    level="exploration",
    technique="rapidcheck differential testing of the i15/i31/i32/i62 big-integer routines against GMP with class-generated operands, stratified modulus lengths and generated memory placements between canaries; boundary-product and full 2^32 unary enumeration of the word primitives against plain C arithmetic",
    rule=("case = (variant i15/i31/i32, function group among add/sub, decode/encode/bit_length, decode_mod, decode_reduce/reduce, muladd_small, "
          "mulacc/rshift, ninv/to_monty/from_monty, montymul, modpow + modpow_opt with minimal / larger / too-short temporary area, i62_modpow_opt, "
          "moddiv with invertible and non-invertible divisor; modulus bit length 9..4096 stratified over residues of 15/31/32/60; operand classes "
          "0, 1, m-1, m-2, 2^j, 2^j+-1, all-ones, top word(s) equal to the modulus, m>>1, random; 2-byte/4-byte placement offsets 0..3 for each of "
          "d, x, y, m; slack content) or a word-primitive case. non-trivial = operands not all in {0,1}; distinct = (variant, function, bit length, "
          "operand classes, placement)"),
    assumptions=["GMP is correct", "all 2^64 pairs of the binary word primitives are not enumerated (the property names an SMT proof; here: full boundary product + random pairs + all 2^32 values of the unary ones in thorough mode)",
                 "modpow_opt is called with a temporary area of at least two values rounded up to an even word count (what every in-tree caller provides); exactly 2*(1+n) words with 1+n odd is refused by the code although the comment allows it: observation, not judged"],
    targets=[dict(name="c09_bigint", src="c09_bigint.cpp", flavour="san", libs=GMP, c_src=["c09_shim.c"])],
    quick=[("c09_bigint", "enum", dict(shards=16)),
           ("c09_bigint", "rc", dict(cases=160000, shards=16))],
    thorough=[("c09_bigint", "enum", dict(shards=16)),
              ("c09_bigint", "rc", dict(cases=4000000, shards=16))],
    floor=dict(quick=10000, thorough=100000),
)

PROPS["C10"] = dict(
    level="exploration",
    technique="rapidcheck differential testing of every RSA implementation against GMP and OpenSSL EVP (signatures and encryptions both ways), with blocks forged through the private exponent for strictness and GMP primality/consistency checks on generated keys",
    rule=("case = (operation among raw public/private, PKCS#1 v1.5 sign/verify, PSS, OAEP, TLS key-exchange decryption, key generation + "
          "recomputation; key from a committed pool of 16 keys 512..4096 bits incl. 1016/1017/1025/1031/2056 and e in {3,17,65537}, both factor "
          "orders, generated leading zero bytes on every field; hash; message / salt / label lengths over their admissible range incl. maxima; one "
          "generated defect: value >= n, wrong length, even/zero modulus, altered padding or DigestInfo byte, short FF run, BER length, wrong OID, "
          "wrong block type, PSS trailer/top bits/salt length, OAEP first byte/label/EM byte). non-trivial = every case on a key >= 512 bits; "
          "distinct = (operation, key, hash, length class, defect class, implementation)"
          " Added: PKCS#1 v1.5 signing with GMP-generated keys of every byte and bit length around the smallest modulus that holds 00 01 FF{8} 00 DigestInfo for SHA-384/512: sign succeeds exactly when the block fits (then equals OpenSSL), blocks with fewer than eight FF bytes are refused by every verifier."),
    assumptions=["GMP and OpenSSL 3.0 are correct", "compute_pubexp / compute_privexp are documented for factors equal to 3 mod 4 (keys made by the library's own generator): tested on generated keys only",
                 "4096-bit key generation only in thorough mode (cost)"],
    targets=[dict(name="c10_rsa", src="c10_rsa.cpp", flavour="san", libs=["-lcrypto", "-lgmp"])],
    quick=[("c10_rsa", "rc", dict(cases=6400, shards=16))],
    thorough=[("c10_rsa", "rc", dict(cases=160000, shards=16))],
    floor=dict(quick=1500, thorough=4500),
)

PROPS["C11"] = dict(
    level="exploration",
    technique="rapidcheck differential testing of every EC implementation x supported curve against OpenSSL EC_POINT arithmetic / X25519 / ECDSA verification and an RFC 6979 reference written in the harness, with generated scalar classes and encodings, related-term muladd scenarios, invalid point encodings and signature defects",
    rule=("case kinds: mul/mulgen (scalar classes 1, 2, n-1, n-2, small, high-bit, n>>1, random; encodings full length, minimal, zero-extended, "
          "shorter; base G or a*G), muladd (B = NULL or explicit; unrelated, equal, opposite (infinity), A == B), invalid points (prefix, length, "
          "compressed, off-curve, x >= p, (0,0), all ones, random bit flip: judged by OpenSSL's verdict on the same bytes), X25519 (base point, "
          "u >= p, low order, top bit set, short scalars; all implementations agree and match OpenSSL), ECDSA (signer i15/i31/default x EC impl, "
          "verifier i15/i31/default x EC impl, six hashes, key classes; equals RFC 6979 value; verifies with OpenSSL and here; raw/ASN.1 "
          "conversions equal minimal DER; ten negative mutations compared with OpenSSL's verdict), ASN.1 converter on arbitrary integers and "
          "malformed DER, key generation. distinct = (kind, impl, curve, classes)"
          " Added: encodings with a coordinate not reduced modulo p (x+p for generated small-abscissa points, y+p for the P-256 point with y = 1 and any P-521 point) must be refused; ECDSA signatures constructed backwards so that x(R) lies in [n, p-1] must verify with every verifier x implementation."),
    assumptions=["OpenSSL 3.0 EC / X25519 / ECDSA are correct", "zero or >= n multipliers are never generated for mul/mulgen/muladd (result documented as indeterminate)",
                 "for 32-byte Curve25519 inputs no rejection is asserted (every string is a valid u)"],
    targets=[dict(name="c11_ec", src="c11_ec.cpp", flavour="san", libs=["-lcrypto"])],
    quick=[("c11_ec", "rc", dict(cases=9600, shards=16))],
    thorough=[("c11_ec", "rc", dict(cases=160000, shards=16))],
    floor=dict(quick=2500, thorough=20000),
)

PROPS["C18"] = dict(
    level="exploration",
    technique="rapidcheck round-trip and differential testing of the key encoders/decoders and the PEM codec against OpenSSL's encoders, a harness Base64/PEM reference and grammar-generated multi-object files; public-key decoder compared with the certificate decoder on OpenSSL-made certificates",
    rule=("case kinds: RSA private key (pool keys 512..4096, both factor orders, generated leading zeros on every field of the input structures; raw "
          "and PKCS#8; length query vs written with canary; byte-equal to OpenSSL; decode(encode) field by field, chunked), EC private key "
          "(P-256/384/521; scalar 1, n-1, short, leading-zero; with/without public key; fixed / minimal / zero-extended private-key length), PEM "
          "round trip (payload 0..2000, four flag combinations, banners 0..130, in-place overlap; equal to the reference and to OpenSSL's writer), "
          "PEM grammar (1..4 objects, LF/CRLF mixed, junk and blank lines, whitespace, malformed objects with a bad character or data after "
          "padding, truncated last object), public keys (RSA / EC SubjectPublicKeyInfo and raw RSAPublicKey vs the certificate decoder). "
          "non-trivial = payload longer than one line, key with leading-zero/high-bit component, or malformed PEM with >= 1 valid line before the "
          "defect / multi-object file; distinct = (codec, key/payload class, flags, defect class)"
          " Added: in-place br_pem_encode with the source at the end, at the start, under the header line or at a generated offset of the destination."),
    assumptions=["OpenSSL 3.0 encoders are correct", "OpenSSL always includes the public key in PKCS#8 EC keys: the no-public-key PKCS#8 form is only round-tripped",
                 "known findings F2 (EC point prefix) and F3 (raw RSAPublicKey) are compared modulo the listed difference and counted as excluded"],
    targets=[dict(name="c18_codec", src="c18_codec.cpp", flavour="san", libs=["-lcrypto", "-lgmp"])],
    quick=[("c18_codec", "enum", dict(shards=8)),
           ("c18_codec", "rc", dict(cases=48000, shards=16))],
    thorough=[("c18_codec", "enum", dict(shards=16)),
              ("c18_codec", "rc", dict(cases=1600000, shards=16))],
    floor=dict(quick=4000, thorough=40000),
)

PROPS["C07"] = dict(
    level="exploration",
    technique="metamorphic testing (one-push reference run vs generated partitions) with rapidcheck over inputs, mutations and partitions for the seven streaming consumers, and an enumerator of every two-chunk split",
    rule=("case = (consumer among x509_minimal, x509_decoder, skey_decoder, pkey_decoder, pem_decoder, TLS client, TLS server; input among fixture "
          "chains, all test/x509 certificates, OpenSSL- and library-encoded keys, sample and generated PEM texts, recorded peer streams of 128 TLS "
          "session configurations; optional mutation: one byte altered, truncation, trailing bytes; partition: one byte at a time, two chunks, or "
          "generated small chunks). The complete outcome (verdict, error code, key, usages, name elements / decoder error, key fields, isCA, DN "
          "bytes / PEM event-name-payload sequence and bytes consumed / bytes emitted, final state, error, delivered data, master secret) must "
          "equal that of the one-push run. non-trivial = every case (each has >= 1 chunk boundary inside the input); distinct = (consumer, "
          "input, mutation, partition)"),
    assumptions=["callback granularity and timing are not outcomes; bytes of a PEM object that ended in error and DN callbacks of a failed certificate are not compared",
                 "TLS endpoints: output is drained fully after every push in both runs"],
    targets=[dict(name="c07_chunking", src="c07_chunking.cpp", flavour="san", libs=SSL_LIBS, noseed=True)],
    quick=[("c07_chunking", "enum", dict(shards=16)),
           ("c07_chunking", "rc", dict(cases=16000, shards=16))],
    thorough=[("c07_chunking", "enum", dict(shards=16)),
              ("c07_chunking", "rc", dict(cases=600000, shards=16))],
    floor=dict(quick=20000, thorough=200000),
)

PROPS["C15"] = dict(
    level="exploration",
    technique="rapidcheck over configuration pairs judged by an independent reference negotiation function; scripted ClientHello (structure-aware builder) against a real server with the answer parsed from the wire, and full client<->server handshakes compared through the public getters; suite singleton/pair enumerator",
    rule=("mode S: scripted ClientHello (version 3.0..1.3 codes, 1..11 suite values incl. unknown / GREASE / duplicates / fallback and renegotiation "
          "SCSVs, SNI, renegotiation_info, signature_algorithms with unknown codes, supported_groups incl. unknown ids, ALPN, unknown extension, "
          "fragmented over small records) x server (6 version ranges, RSA / EC / EC-with-RSA-issuer key, KEYX/SIGN usage masks, 4 option flags, "
          "ordered suite list of 1..12 or all 45, ALPN list); mode F: real client (version range, ordered suites, hash subset, curve set, ALPN, "
          "SNI) x the same server space. Outcome (version, suite, ECDHE curve, signature hash, ALPN name, renegotiation_info, SNI seen, or the "
          "fatal alert / client error) must equal the reference. non-trivial = a refusal, or >= 2 common suites; distinct = hash of the pair"),
    assumptions=["configurations the documentation leaves open are constructed away and counted: static-ECDH suite when the client does not announce the key's curve",
                 "server hash set and curve set are complete in generated configurations (client side varies)"],
    targets=[dict(name="c15_negotiate", src="c15_negotiate.cpp", flavour="san", libs=SSL_LIBS, noseed=True)],
    quick=[("c15_negotiate", "enum", dict(shards=16)),
           ("c15_negotiate", "rc", dict(cases=24000, shards=16))],
    thorough=[("c15_negotiate", "enum", dict(shards=16)),
              ("c15_negotiate", "rc", dict(cases=800000, shards=16))],
    floor=dict(quick=5000, thorough=50000),
)

PROPS["C05"] = dict(
    level="exploration",
    technique="coverage-guided fuzzing (libFuzzer) and rapidcheck over one structure-aware decode for 12 entry-point families (raw bytes; valid templates with DER-tree / handshake-message / byte edits; records protected with the real keys by an independent codec), plus a boundary-length enumerator; oracles inside the target: ASan+UBSan, per-instruction T0 stack-bound and instruction-count assertion (hook H2), configuration-field tripwire, status-consistency and no-stall checks",
    rule=("case = (family among x509_minimal, x509_decoder, skey_decoder, pkey_decoder, pem_decoder, ECDSA converters/verifiers, RSA public ops, EC public ops, "
          "TLS client / server before keys, TLS client / server after keys; input = raw tape bytes, or a template (3 fixture chains, every test/x509 "
          "certificate, 5 generated 3-certificate chains, OpenSSL key encodings, sample PEM files, ECDSA signatures, 10 recorded TLS flights) with "
          "1..6 structure-aware or byte edits, or a constructed boundary input; delivery under a generated chunking). non-trivial = the consumer got "
          "past its first structural check (decoders: > 200-400 T0 instructions executed; TLS: more than one record header consumed; crypto families: "
          "every case); distinct = (family, status class, input description incl. template and edit list) -- the (family, status) histogram and the count of distinct executed (interpreter, bytecode offset) pairs are reported in the evidence"),
    assumptions=["documented preconditions are honoured: exact certificate length announced to start_cert, name-element buffers of >= 1 byte, EC curve id 0..31 and "
                 "scalars non-zero / below the order / no longer than the order, hash length <= 64, in-place converter buffers of the documented worst-case size",
                 "libFuzzer slow-unit / oom / timeout artifacts are load noise, only crash- artifacts that replay 3/3 count",
                 "host build: the Xtensa stack-thunk and PROGMEM paths map to plain loads"],
    targets=[dict(name="c05_fuzz", src="c05_fuzz.cpp", flavour="san", libs=SSL_LIBS, noseed=True, fuzz=True, extra_src=["c05_tls.hpp"])],
    quick=[("c05_fuzz", "enum", dict(shards=8)),
           ("c05_fuzz", "rc", dict(cases=40000, shards=12)),
           ("c05_fuzz", "fuzz", dict(shards=12, runs=40000, max_len=512, max_total_time=40))],
    thorough=[("c05_fuzz", "enum", dict(shards=16)),
              ("c05_fuzz", "rc", dict(cases=1200000, shards=16)),
              ("c05_fuzz", "fuzz", dict(shards=16, runs=3000000, max_len=2048, max_total_time=900))],
    floor=dict(quick=20000, thorough=300000),
)

PROPS["C03"] = dict(
    level="fault_enumeration",
    technique="fault enumeration on deterministic real handshakes through a man-in-the-middle relay (every byte of every handshake / CCS / encrypted-Finished record XOR a mask; message-level drop / duplicate / swap / retype / shorten / extend / substitute; CCS edits), a server policy that picks un-offered suites, ClientHello version rewriting, and rapidcheck over an instrumented certificate validator (scripted verdict / key / usages)",
    rule=("9 handshake kinds (ECDHE_RSA, RSA, ECDHE_ECDSA + EC client certificate + ALPN, static ECDH_ECDSA, ECDH_RSA, resumed, ChaCha20 + RSA client certificate, "
          "TLS 1.0 CBC, resumed + client certificate; TLS 1.0-1.2; mono / bidi / split buffers). One evaluation = one fault applied to a fresh connection "
          "whose prefix is byte-identical to the reference run (checked), run to quiescence, end of transport delivered to whoever is still open; the "
          "destination of the altered bytes must never be ready, must end closed with an error, and no application byte may be delivered anywhere. "
          "M2: client narrowed from the full profile to 1..3 suites x forced suite (stale slot / any other); M3: 9 suites x validating side x 13 verdicts x 7 "
          "key sources x 5 usage masks, with the exact-chain / exact-name observation and the positive expectation when everything fits. "
          "non-trivial = every faulted evaluation (the prefix of a real handshake was accepted); distinct = (kind, direction, record, offset, mask) / "
          "(kind, direction, edit, message) / scenario description"
          " Added (M7): a server that presents the fixture chain without holding its key (policy handler of the harness) signs the ServerKeyExchange with random bytes, zeros or the pair (Qx, Qx) valid for the hash value zero, naming a hash function the client has or one it was configured without; the client must never become ready; control: the genuine server with the same reduced client."),
    assumptions=["single-fault model (one alteration per connection)",
                 "record headers are not authenticated by the handshake and are not altered here (C02 / C05 cover them)",
                 "a message identical in both handshakes (ServerHelloDone) is not a substitution and is counted as excluded",
                 "static-ECDH client authentication is judged one-directionally (which mode the client picks is its own policy)"],
    targets=[dict(name="c03_handshake", src="c03_handshake.cpp", flavour="san", libs=SSL_LIBS, noseed=True)],
    quick=[("c03_handshake", "enum", dict(shards=16)),
           ("c03_handshake", "rc", dict(cases=16000, shards=16))],
    thorough=[("c03_handshake", "enum", dict(shards=16)),
              ("c03_handshake", "rc", dict(cases=120000, shards=16))],
    floor=dict(quick=8000, thorough=60000),
)

PROPS["C04"] = dict(
    level="exploration",
    technique="model-based differential testing with rapidcheck: abstract chain descriptions (with 0..2 defects and a validator configuration) are serialised by a harness DER writer and judged by a reference validator that evaluates the documented rules on the description, never on bytes; metamorphic static-vs-on-demand anchors and time-callback checks; byte-mutation enumerator over accepted chains",
    rule=("case = chain of 0..4 certificates over pool keys (RSA 1017..4096 bits, weak RSA 512..1016, P-256/384/521), SHA-1..512 (and MD5), v1/v3/v4, names in "
          "UTF8/Printable/IA5/Teletex/BMP, validity bounds at the instant +-1 s / day / years and at the UTCTime pivots, BasicConstraints / KeyUsage / SAN / "
          "policies / ignorable / unknown extensions with criticality; anchor set (none, right, wrong key, middle issuer, direct trust, CA anchor named as the "
          "leaf, non-CA anchor named as an issuer, name differing by type / case / text, two anchors for one name, decoys; static or on demand); server name "
          "(random labels, random case, wildcard patterns, embedded NUL, several names, none); hash subsets; minimum RSA size; 0, 1 or 2 defects from 24 classes. "
          "Checked: accept <=> reference accepts; with <= 1 defect the error code equals the documented one; on accept the returned key bytes, usages and the "
          "CN / dNSName name elements equal the leaf's. non-trivial = any non-empty chain; distinct = the description string"
          " Added: every case is repeated on a context that validated something else before (same chain, abandoned chain, reversed chain, empty chain) and must give the same verdict, key and name elements; altered signatures also take the forms cleartext padded block one byte longer/shorter than the modulus, last byte dropped, zero byte prepended."),
    assumptions=["OpenSSL signatures are correct (and are cross-checked against the abstract signature relation in every case)",
                 "excluded by construction: SAN extensions without any dNSName, fractional or zoned times, query-side wildcards, name constraints, revocation",
                 "two-defect chains are compared on accept/reject only (code differences are counted in the class histogram)",
                 "byte-mutation sweep covers CA-anchored chains only: under direct trust the signature and unsigned fields are not looked at by design"],
    targets=[dict(name="c04_x509", src="c04_x509.cpp", flavour="san", libs=["-lcrypto"])],
    quick=[("c04_x509", "enum", dict(shards=16)),
           ("c04_x509", "rc", dict(cases=6400, shards=16))],
    thorough=[("c04_x509", "enum", dict(shards=16)),
              ("c04_x509", "rc", dict(cases=240000, shards=16))],
    floor=dict(quick=6000, thorough=60000),
)

import os as _os
VALGRIND = ["valgrind", "-q", "--error-limit=no", "--num-callers=14", "--leak-check=no", "--error-exitcode=0",
            "--suppressions=" + _os.path.join(_os.path.dirname(_os.path.dirname(_os.path.abspath(__file__))), "harness", "c08.supp")]

def _c08_target(opt):
    wrap = list(VALGRIND)
    if opt == "O2":   # one taint-tracking artefact of gcc -O2, see the file
        wrap.append("--suppressions=" + _os.path.join(_os.path.dirname(_os.path.dirname(_os.path.abspath(__file__))), "harness", "c08_O2.supp"))
    return dict(name="c08_ct_" + opt, src="c08_ct.cpp", flavour="ct" + opt, libs=["-lcrypto"], c_src=["c09_shim.c"], wrap=wrap)

PROPS["C08"] = dict(
    level="exploration",
    technique="generated-input search under dynamic secret-taint tracking: rapidcheck / an enumerator choose the public side of each constant-time call (entry point, implementation, sizes, validity class) and concrete secrets; the compiled library runs under valgrind-memcheck with every secret byte marked undefined, and the oracle is 'no secret-dependent branch or address during the call' (memcheck error count before/after), with mandatory positive controls and an output-still-tainted non-vacuity test",
    rule=("case = (family among inner.h primitives + conditional copy; i15/i31/i32/i62 add/sub/montymul/to-from_monty/modpow/modpow_opt/decode_mod/moddiv/encode; "
          "rsa i15/i31/i32/i62 private / pkcs1_sign / oaep_decrypt (valid and invalid padding) / ssl_decrypt (valid and invalid); ec mul / mulgen / compute_pub for "
          "prime_i15/i31, p256_m15/m31/m62/m64, c25519_i15/i31/m15/m31/m62/m64 on every curve; ecdsa i15/i31 sign_raw; aes_ct / aes_ct64 / des_ct cbcenc-cbcdec-ctr-ctrcbc; "
          "chacha20_ct; poly1305 ctmul/ctmul32/ctmulq/i15; ghash ctmul/ctmul32/ctmul64; hmac_outCT with secret length in public [min,max]; gcm/eax/ccm decrypt + "
          "check_tag with right and wrong tags; CBC record decryption over AES/3DES x SHA-1/256/384 x TLS 1.0-1.2 x padding lengths x {valid, wrong padding byte, wrong "
          "MAC byte, lying padding length, altered plaintext}; GCM / ChaCha20-Poly1305 / CCM record decryption valid and altered). Secrets = key material, scalars, "
          "nonces, plaintext, decrypted padding, computed tags, validity. non-trivial = the call ran under valgrind and its output still carried taint; distinct = "
          "(entry point, implementation, public parameters); optimisation level -Os in quick, -O0/-Os/-O2 in thorough"
          " Added: the server key-exchange step through the do_keyx method of the single_ec and single_rsa policy handlers (valid / off-curve / short client point; valid / four invalid paddings), private key tainted."),
    assumptions=["memcheck definedness propagation is an over-approximation of 'depends on a secret' for branches and addresses; compiler-generated conditional moves are (correctly) not counted as branches",
                 "only x86-64 gcc code generation is observed, not the Xtensa compiler of the port; micro-architectural effects (variable-time multipliers) are out of scope",
                 "values the source itself declares public are declassified by the guarded BR_VERIF_PUBLIC marks (hook H3): final accept/reject of a record, announced factor bit lengths, validated OAEP message length, RFC 6979 candidate test",
                 "the T0-level server handling of a bad premaster / bad ECDH point is covered through br_rsa_ssl_decrypt and the EC multiplications it calls, not through a scripted handshake"],
    targets=[_c08_target("Os"), _c08_target("O0"), _c08_target("O2")],
    quick=[("c08_ct_Os", "enum", dict(shards=16)),
           ("c08_ct_Os", "rc", dict(cases=2400, shards=16))],
    thorough=[("c08_ct_Os", "enum", dict(shards=16)), ("c08_ct_O0", "enum", dict(shards=16)), ("c08_ct_O2", "enum", dict(shards=16)),
              ("c08_ct_Os", "rc", dict(cases=16000, shards=16)), ("c08_ct_O0", "rc", dict(cases=4000, shards=16)), ("c08_ct_O2", "rc", dict(cases=16000, shards=16))],
    floor=dict(quick=400, thorough=3000),
)

# ---------------------------------------------------------------- manifest text
HOOK_COMMITS = ["b37444c", "e1637c5", "f7dee02"]
NOT_APPLICABLE = {}
MANIFEST_TEXT = {}
MANIFEST_TEXT["C12"] = dict(
    text=("Generated differential testing: for each generated (primitive, key size, length, counter, split) every implementation "
          "in the library (AES big/small/ct/ct64/x86ni, DES tab/ct, ChaCha20 ct/sse2, Poly1305 x4, GHASH x4) is compared with an "
          "independent reference and thereby with each sibling, in one call and in a generated sequence of chained calls. "
          "Search, not proof: it shows agreement on hundreds of thousands of structured cases per run incl. all lengths 0..272 "
          "(0..1040 thorough) and 32-bit/128-bit counter wraps."),
    design_ref="DESIGN.md section 4, C12",
    note="trusts OpenSSL 3.0 libcrypto single-block ciphers and ChaCha20-Poly1305; ChaCha20 wrap semantics and GHASH references are written in the harness from RFC 7539 / SP 800-38D",
)

MANIFEST_TEXT["C01"] = dict(
    text=("Generated end-to-end sessions: every one of the 45 suites x admissible versions x buffer layouts is run Bear<->Bear under a "
          "byte-splitting schedule (enumerator), and thousands of random configurations/schedules/scripts are run incl. against OpenSSL "
          "libssl in both roles. Oracles are independent of the code under test: the peer implementation, RFC 5705 exporter equality, a "
          "running byte-exact prefix check, and a wiretap that re-derives the key block from master secret + randoms with OpenSSL and "
          "authenticates every record. Exploration, not proof."),
    design_ref="DESIGN.md section 4, C01",
    note="trusts OpenSSL 3.0 libssl/libcrypto; 3DES and static-ECDH suites have no foreign handshake peer in this image (wiretap + Bear<->Bear only)",
)

MANIFEST_TEXT["C02"] = dict(
    text=("Fault enumeration: for each lab every bit of every record of a short session is flipped (exhaustive for the representative modes in "
          "quick, for all 113 suite/version pairs in thorough), every record-level edit is applied at every index, and an independent record "
          "codec holding the real keys crafts valid-MAC records with every legal and illegal padding, wrong MAC bytes, wrong sequence numbers and "
          "inadmissible lengths. The oracle is the property itself (prefix + fail with non-zero error), plus positive controls that must be "
          "accepted so that 'reject everything' cannot pass."),
    design_ref="DESIGN.md section 4, C02",
    note="single-edit fault model on short sessions; trusts OpenSSL EVP for the crafted records",
)

MANIFEST_TEXT["C20"] = dict(
    text=("Generated seeding histories on a build whose system seeders are compiled out (so the refusal path is real and every run is a pure "
          "function of the tape), long sessions whose every record must authenticate under an independently derived key schedule with sequence "
          "number i counted from zero after each ChangeCipherSpec, and seed-pair comparisons of hello randoms, session IDs, key exchanges and "
          "whole transcripts. A second build with system seeders checks that reset then succeeds without injection. "
          "A third target runs the /dev/urandom seeder itself (private copy of sysrng.c with open/read/close redirected) under scripted read results: short reads, EINTR, errors, end of file; zero-length entropy injections must not count as seeding."),
    design_ref="DESIGN.md section 4, C20",
    note="does not assess entropy quality; renegotiation histories are quiesced before the request (see C19 for arbitrary instants)",
)

MANIFEST_TEXT["C06"] = dict(
    text=("Model-based stateful testing: random API histories with partial acknowledgements on both roles from every handshake phase, with the "
          "full invariant set (state flags vs buffer queries, regions inside caller memory and not aliasing untaken bytes, closed exclusive and "
          "permanent with first error kept, never state 0 while open, pure queries, partial-ack continuation, byte-exact delivery) checked after "
          "every single call; plus exhaustive enumeration of all command sequences to depth 3 (quick) / 5 (thorough) from ~30 snapshots per "
          "configuration. Exhaustive only to that depth. "
          "Contexts are also re-buffered (any layout and size, also below the documented minimum, also contexts that never had a usable buffer) and reset; a closed engine must export no key."),
    design_ref="DESIGN.md section 4, C06",
    note="two known findings (F4, F5) are excluded by construction and replayed by directed probes; unbounded histories are sampled, not enumerated",
)

MANIFEST_TEXT["C19"] = dict(
    text=("Event histories on live sessions: closure requested at arbitrary scheduling rounds (inside records, with data in flight, by one or "
          "both sides), transport cut at every kind of point judged the way a br_sslio caller sees it, the full alert grid (every level class x "
          "all 256 descriptions x both roles x handshake/data/after-close, plus malformed forms) injected with the real keys by an independent "
          "codec, and renegotiations at arbitrary instants incl. the disabling option, with wire-level checks (exactly one close_notify, "
          "warning no_renegotiation, RFC 5746 binding of the renegotiated hellos to the previous Finished values). Search over histories, "
          "exhaustive only for the alert grid."),
    design_ref="DESIGN.md section 4, C19",
    note="renegotiation at arbitrary instants is judged by stream integrity and closed-consistency (full delivery only when nothing failed); full-delivery renegotiation is in C20's quiesced sessions",
)

MANIFEST_TEXT["C16"] = dict(
    text=("Every buffer-size threshold +-1 on each side independently (grid enumerator for split buffers in 8 protection modes; random for "
          "shared/bidi layouts), with the plaintext length of every emitted record measured by decrypting the wire with an independent codec and "
          "compared with a reference computation of the limit in force; MFLN code sent/echoed parsed from the wire; get_mfln_negotiated checked; "
          "acceptance of maximum-size conformant records and refusal of oversize ones probed with crafted records; real interop with OpenSSL's "
          "implementation of the extension. "
          "An OpenSSL client asks for exactly the limit of a small-buffer server; renegotiation ClientHellos crafted with the live keys carry no / another max_fragment_length; the negotiated flag is probed across a reset."),
    design_ref="DESIGN.md section 4, C16",
    note="reference fragment-length function written from the header documentation; trusts OpenSSL for interop and the EVP primitives for crafted records",
)

MANIFEST_TEXT["C17"] = dict(
    text=("Model-based stateful testing of br_ssl_session_cache_lru: every command's result and the complete cache content (scanned on a copy so "
          "the scan does not disturb recency) are compared with an explicit LRU model after each step, so a corrupted link is found at the command "
          "that caused it; all histories up to depth 6 (quick) / 8 (thorough) over 5 ids for capacities 0..4 are enumerated. Resumption histories "
          "are judged by a reference predicate (cache model x suite lists x version ranges) and by the wire (no Certificate message, traffic "
          "decrypting under keys derived from the new randoms). "
          "The session_id field of every ClientHello is read off the wire (a session is offered exactly when the client could accept its resumption), and a scripted client that is not this library offers cached ids with a lower maximum version, without the session's suite, or unchanged."),
    design_ref="DESIGN.md section 4, C17",
    note="exhaustive only to the stated depth and id-universe size; larger capacities are sampled by random histories",
)

MANIFEST_TEXT["C14"] = dict(
    text=("Generated differential testing of the three AEAD modes over every AES and GHASH implementation against independent implementations, "
          "with arbitrary splits of AAD and message across calls (the streaming claim), context reuse and the EAX saved-state shortcuts, plus "
          "negative checks: any generated single-bit change must fail check_tag, forbidden CCM parameters must be refused by reset."),
    design_ref="DESIGN.md section 4, C14",
    note="trusts OpenSSL EVP (GCM, CCM, CMAC, AES); EAX composition written in the harness from the EAX paper",
)

MANIFEST_TEXT["C13"] = dict(
    text=("Differential testing of every hash, MAC, PRF, KDF and DRBG against independent implementations under generated call patterns "
          "(arbitrary update partitions, interleaved outputs, saved/restored states incl. the bit-length carry, piecewise XOF/KDF output), and "
          "for HMAC with hidden length all (min,len,max) triples up to three blocks in thorough mode (strided in quick) with TLS-like prefixes."),
    design_ref="DESIGN.md section 4, C13",
    note="trusts OpenSSL; DRBG/MGF1 references are short harness implementations of SP 800-90A / PKCS#1 B.2.1 / the documented AESCTR construction",
)

MANIFEST_TEXT["C09"] = dict(
    text=("Every multi-precision routine of the i15 (the variant the ESP8266 uses), i31, i32 and i62 code is compared with GMP on operands built "
          "to hit the carry, quotient-estimate and Montgomery edge paths, at every modulus length residue and at every combination of array "
          "placement offsets (the port-specific i15 montymul has four alignment paths), with canaries proving that nothing outside the documented "
          "extent is written. Word primitives: exhaustive boundary product for binary ones, all 2^32 inputs for unary ones (thorough)."),
    design_ref="DESIGN.md section 4, C09",
    note="search, not proof: the 2^64-pair claim for binary primitives is covered by boundary product + random pairs only",
)

MANIFEST_TEXT["C10"] = dict(
    text=("All five RSA back-ends are run on every generated case and compared with GMP (raw operations) and OpenSSL (PKCS#1 v1.5 byte-equal "
          "signatures; PSS, OAEP and TLS premaster encryption in both directions). Strictness is probed by forging arbitrary encoded blocks with "
          "the private exponent in GMP, so exactly what a verifier may receive is tested: only the two standard DigestInfo forms and canonical "
          "PSS/OAEP structures may be accepted. Generated keys are checked for primality and field consistency with GMP."),
    design_ref="DESIGN.md section 4, C10",
    note="trusts GMP and OpenSSL; byte-exhaustive corruption is sampled (one generated position per case), not enumerated",
)

MANIFEST_TEXT["C11"] = dict(
    text=("Each generated case exercises one EC implementation (all 15 incl. the i15/m15 code the ESP8266 uses) on one of its curves and compares "
          "with OpenSSL: point multiplication with scalar classes and encodings, x*A+y*B with equal / opposite / coinciding terms, rejection of "
          "every kind of invalid point encoding exactly when OpenSSL rejects it, X25519 against RFC 7748 semantics, ECDSA signatures equal to the "
          "RFC 6979 value and cross-verified, and verification verdicts equal to OpenSSL's on mutated signatures, hashes and keys."),
    design_ref="DESIGN.md section 4, C11",
    note="trusts OpenSSL; negative cases are one generated mutation per case",
)

MANIFEST_TEXT["C18"] = dict(
    text=("Round-trip plus differential testing: every private-key encoder output must be byte-identical to OpenSSL's and decode back field by "
          "field; announced lengths equal written lengths (canaries); PEM encode is compared with an independent reference and OpenSSL's writer "
          "and inverted by the decoder under arbitrary chunking; grammar-generated PEM files check object order, names, error signalling and that "
          "nothing spurious is emitted around a malformed object; the port's public-key decoder is compared with the certificate decoder."),
    design_ref="DESIGN.md section 4, C18",
    note="two known findings in br_pkey_decoder (F2, F3) are listed in known_findings.txt and reported as KNOWN-FINDING",
)

MANIFEST_TEXT["C07"] = dict(
    text=("Metamorphic relation 'same bytes, other chunking => same complete outcome' checked for all seven streaming consumers: exhaustively for "
          "every two-chunk split of the fixture chains, a third of the test/x509 certificates (all in thorough), every key encoding, every PEM "
          "text and three recorded TLS sessions (every third split in quick, every split in thorough), and by generated multi-chunk / one-byte "
          "partitions over valid, mutated and truncated inputs. "
          "Extra cleartext records (alerts followed by further bytes, oversized records) are spliced into the recorded TLS streams at the first record boundaries."),
    design_ref="DESIGN.md section 4, C07",
    note="the reference run is the library itself under another chunking (metamorphic); correctness of the outcome is the business of C04/C18/C01",
)

MANIFEST_TEXT["C15"] = dict(
    text=("Model-based differential testing of the negotiation: a reference function written from the RFCs and the header documentation predicts "
          "version, suite, curve, signature hash, ALPN and alerts for generated pairs of configurations; a real server is driven by scripted "
          "ClientHellos (thousands per second, incl. values no BearSSL client would send) and real client/server pairs are compared through "
          "their getters; all suite singletons and a fifth (quick) or all (thorough) ordered suite pairs x 3 versions x 3 key kinds are enumerated. "
          "A second connection (resumption offered, changed ALPN list) and a third one with the session carried to another client context check that reported values belong to the connection at hand; fatal alerts must be received as alerts."),
    design_ref="DESIGN.md section 4, C15",
    note="reference function independent of the T0 code; OpenSSL clients are not used here (covered in C01)",
)

MANIFEST_TEXT["C05"] = dict(
    text=("Fuzzing with the semantic oracle inside the target: one structure-aware decode of the input bytes serves libFuzzer (coverage guided, seeded "
          "from a committed corpus), rapidcheck and a boundary-length enumerator. Twelve entry-point families take raw bytes, edited valid templates "
          "(DER tree edits that keep enclosing lengths right, handshake-message edits that keep record framing right, certificates inside TLS "
          "flights) and, after a real handshake, arbitrary plaintext of every content type protected with the real keys. Beyond sanitizer reports "
          "the target asserts, at every T0 instruction, that both interpreter stack pointers stay inside their 31/32-slot arrays and that the "
          "instruction count stays below a linear bound in the input length, that configuration fields are untouched, that error and result are "
          "never both reported, that returned pointers lie inside the context, and that an open engine never stops taking input while offering nothing."),
    design_ref="DESIGN.md section 4, C05",
    note="absence of memory errors is not proved; the boundary enumerator makes the known internal limits (520/512/256/133-byte areas, 3*512 key_data, 48 suites, 32 VM slots) certain to be visited",
)

MANIFEST_TEXT["C03"] = dict(
    text=("Systematic in-flight mutation of real handshakes: both endpoints get fixed entropy, so a connection is byte-identical to its reference "
          "run up to the fault; the enumerator alters every byte of every handshake, ChangeCipherSpec and encrypted Finished record of both "
          "flights for nine handshake kinds (certificate bodies sampled 1-in-2 in the quick tier, four masks per byte in thorough) and applies "
          "every message-level edit at every message; rapidcheck adds random masks, a server policy choosing suites that were not offered "
          "(including the stale table slot after a narrowed client list), version rewriting, and an instrumented certificate validator whose "
          "verdict, returned key and usages are scripted on either side. "
          "Further modes: aborted handshake followed by a keyless resumption attempt; TLS_FALLBACK_SCSV; certificate-less client classes; and records (ChangeCipherSpec- or handshake-typed, never sent by the peer) inserted while the victim still has part of its own flight to send - the victim must not complete."),
    design_ref="DESIGN.md section 4, C03",
    note="renegotiated handshakes are altered only as ciphertext (C02); the Finished computation itself is checked against OpenSSL peers in C01",
)

MANIFEST_TEXT["C04"] = dict(
    text=("A reference implementation of the documented validation rules, working on the abstract description a chain is generated from, predicts the "
          "verdict, the error code, the leaf key, the usages and the extracted name elements; the library validates the DER the harness writes from "
          "the same description (signed with OpenSSL). The reference never parses DER, so it shares no decoding assumption with the T0 decoder. "
          "Anchors are supplied statically and through the port's on-demand callback for the same case; decoded validity instants are compared "
          "through the time callback; every byte of every signed part and signature of accepted chains is altered by the enumerator."),
    design_ref="DESIGN.md section 4, C04",
    note="malformed DER is the business of C05/C07; here every input is well-formed and the question is the verdict",
)

MANIFEST_TEXT["C08"] = dict(
    text=("Secret-taint tracking driven by generated public parameters: the harness marks key material, scalars, plaintexts and decrypted padding as "
          "undefined and runs the call under valgrind-memcheck, whose bit-precise definedness propagation then covers all secret values of the "
          "executed path at once; any conditional jump or memory address that depends on a secret raises a memcheck error, which the target turns "
          "into a violation tied to the generated case (and shrunk with it). Table-based AES/DES and memcmp on a tag are run as positive "
          "controls and must be reported, and every case checks that its output is still tainted, so a harness that failed to poison cannot pass."),
    design_ref="DESIGN.md section 4, C08",
    note="the secondary trace-differential cross-check of the design was not built; compiler levels O0/O2 only in the thorough tier",
)
