"""Generic runner: replay tier, generated search, evidence, violations."""
import glob
import hashlib
import json
import os
import shutil
import subprocess
import sys
import time
from concurrent.futures import ThreadPoolExecutor

from . import vbuild

VERIF = vbuild.VERIF
NJOBS = vbuild.NJOBS


def log(msg):
    sys.stderr.write("[check] %s\n" % msg)
    sys.stderr.flush()


def load_known():
    """known_findings.txt -> (findings {key: (prop, text)}, fixed [(prop, text)])"""
    findings, fixed = {}, []
    p = os.path.join(VERIF, "known_findings.txt")
    if not os.path.exists(p):
        return findings, fixed
    for line in open(p):
        line = line.strip()
        if not line or line.startswith("#"):
            continue
        kind, _, rest = line.partition(":")
        fields = rest.split()
        d = {}
        words = []
        for f in fields:
            if "=" in f and not words and f.split("=")[0] in ("property", "key"):
                k, v = f.split("=", 1)
                d[k] = v
            else:
                words.append(f)
        if kind == "finding" and "key" in d:
            findings[d["key"]] = (d.get("property", ""), " ".join(words))
        elif kind == "fixed":
            fixed.append((d.get("property", ""), " ".join(words)))
    return findings, fixed


class Job:
    def __init__(self, target, mode, argv, env, outdir, label, timeout=None):
        self.target, self.mode, self.argv, self.env = target, mode, argv, env
        self.outdir, self.label, self.timeout = outdir, label, timeout
        self.rc = None
        self.log = ""
        self.timed_out = False

    def run(self):
        os.makedirs(self.outdir, exist_ok=True)
        env = dict(os.environ)
        env.update(self.env)
        env["VERIF_OUT"] = self.outdir
        env.setdefault("ASAN_OPTIONS", "detect_leaks=0:abort_on_error=0:allocator_may_return_null=1:handle_abort=0")
        env.setdefault("UBSAN_OPTIONS", "print_stacktrace=1:halt_on_error=1")
        t0 = time.time()
        try:
            r = subprocess.run(self.argv, env=env, cwd=self.outdir, stdout=subprocess.PIPE, stderr=subprocess.STDOUT,
                               timeout=self.timeout)
            self.rc = r.returncode
            self.log = r.stdout.decode("utf-8", "replace")
        except subprocess.TimeoutExpired as e:
            self.rc = -999
            self.timed_out = True
            self.log = (e.stdout or b"").decode("utf-8", "replace")
        self.wall = time.time() - t0
        with open(os.path.join(self.outdir, "log.txt"), "w") as f:
            f.write(self.log)
        return self


def run_jobs(jobs):
    with ThreadPoolExecutor(NJOBS) as ex:
        return list(ex.map(lambda j: j.run(), jobs))


def collect_stats(outdir):
    res = []
    for p in glob.glob(os.path.join(outdir, "*.json")):
        try:
            res.append(json.load(open(p)))
        except Exception as e:  # truncated file from a killed process
            log("unreadable stats file %s: %s" % (p, e))
    return res


class Agg:
    """aggregate of stats files of one property"""

    def __init__(self):
        self.cases = self.evals = self.nontrivial = self.excluded = 0
        self.distinct = set()
        self.distinct_overflow = 0
        self.classes = {}
        self.known = {}
        self.notes = {}
        self.samples = []
        self.per_target = {}
        self.exhaustive_targets = set()

    def add(self, st):
        t = st.get("target", "?")
        self.cases += st.get("cases", 0)
        self.evals += st.get("evals", 0)
        self.nontrivial += st.get("nontrivial", 0)
        self.excluded += st.get("excluded", 0)
        for h in st.get("distinct", []):
            self.distinct.add(t + ":" + h)
        if st.get("distinct_count", 0) > len(st.get("distinct", [])):
            self.distinct_overflow += st["distinct_count"] - len(st["distinct"])
        for k, v in st.get("classes", {}).items():
            self.classes[t + "/" + k] = self.classes.get(t + "/" + k, 0) + v
        self.known.update(st.get("known", {}))
        for k, v in st.get("notes", {}).items():
            self.notes[t + "/" + k] = v
        for s in st.get("samples", []):
            if len([x for x in self.samples if x.startswith(t + ": ")]) < 4:
                self.samples.append(t + ": " + s)
        pt = self.per_target.setdefault(t, dict(cases=0, evals=0, nontrivial=0, excluded=0))
        for k in pt:
            pt[k] += st.get(k, 0)
        if st.get("exhaustive"):
            self.exhaustive_targets.add(t)


def write_evidence(prop, tier, seed, level, agg, rule, assumptions, wall, violations, extra=None):
    evdir = os.environ.get("VERIF_EVIDENCE_DIR", os.path.join(VERIF, "evidence"))
    os.makedirs(evdir, exist_ok=True)
    cov = dict(
        evaluations=int(agg.evals),
        distinct_nontrivial=int(len(agg.distinct)),
        rule=rule,
        samples=agg.samples[:24] if agg.samples else ["(no sample recorded)"],
        cases_generated=int(agg.cases),
        nontrivial_evaluations=int(agg.nontrivial),
        excluded_by_construction=int(agg.excluded),
        distinct_not_dumped=int(agg.distinct_overflow),
        class_histogram=dict(sorted(agg.classes.items())),
        per_target=agg.per_target,
        notes=agg.notes,
        known_findings_observed=agg.known,
    )
    if agg.exhaustive_targets:
        cov["exhaustive_targets"] = sorted(agg.exhaustive_targets)
    if extra:
        cov.update(extra)
    ev = dict(property_id=prop, tier=tier, seed=int(seed), level=level, coverage=cov,
              assumptions=assumptions, wall_s=round(wall, 2), violations=int(violations))
    path = os.path.join(evdir, prop + ".json")
    tmp = path + ".tmp"
    with open(tmp, "w") as f:
        json.dump(ev, f, indent=1, sort_keys=False)
        f.write("\n")
    os.replace(tmp, path)
    return path


def confirm_replay(exe, tape, env, times=3, wrap=None):
    """re-run a tape through the plain replay entry; True when it fails every time"""
    fails = 0
    msgs = []
    for _ in range(times):
        e = dict(os.environ)
        e.update(env)
        e.pop("VERIF_OUT", None)
        e.setdefault("ASAN_OPTIONS", "detect_leaks=0:handle_abort=0")
        e.setdefault("UBSAN_OPTIONS", "print_stacktrace=1:halt_on_error=1")
        try:
            r = subprocess.run(list(wrap or []) + [exe, "--replay", tape], env=e, stdout=subprocess.PIPE, stderr=subprocess.STDOUT, timeout=600)
            out = r.stdout.decode("utf-8", "replace")
            if r.returncode != 0:
                fails += 1
                msgs.append(out[-3000:])
        except subprocess.TimeoutExpired:
            msgs.append("(replay timed out)")
    return fails == times, fails, msgs


def save_replay(prop, target, tape_path):
    d = os.path.join(os.environ.get("VERIF_REPLAY_DIR", os.path.join(VERIF, "replays")), prop)
    os.makedirs(d, exist_ok=True)
    data = open(tape_path, "rb").read()
    name = "%s-%s.tape" % (target, hashlib.sha1(data).hexdigest()[:12])
    dst = os.path.join(d, name)
    with open(dst, "wb") as f:
        f.write(data)
    return dst
