"""Build cache: library flavours from /repo's working tree, harness binaries.

Everything lands under /verif/build (git-ignored).  A flavour is rebuilt
whenever the digest of /repo/src + /repo/inc (working tree, not HEAD)
changes, so checks always test the tree as it is now.
"""
import fcntl
import hashlib
import os
import shutil
import subprocess
import sys
import time
from concurrent.futures import ThreadPoolExecutor

VERIF = os.path.dirname(os.path.dirname(os.path.abspath(__file__)))
REPO = os.environ.get("VERIF_REPO", "/repo")
BUILD = os.path.join(VERIF, "build")
HARNESS = os.path.join(VERIF, "harness")
GUARD = "BEARSSL_ESP8266_VERIF"
NJOBS = int(os.environ.get("VERIF_JOBS", "16"))

SAN = "-fsanitize=address,undefined -fno-sanitize-recover=undefined"

FLAVOURS = {
    # compiler, cflags for the library, cxx, cxxflags for harness, link flags
    "san": dict(
        cc="clang",
        cflags="-O1 -g -fno-omit-frame-pointer %s -fsanitize=fuzzer-no-link -DBR_LE_UNALIGNED=0 -DBR_SLOW_MUL15=1" % SAN,
        cxx="clang++",
        cxxflags="-std=gnu++17 -O1 -g -fno-omit-frame-pointer -Wno-deprecated-declarations %s" % SAN,
        ldflags=SAN,
    ),
    "rel": dict(
        cc="gcc",
        cflags="-W -Wall -Os -fPIC -DBR_SLOW_MUL15=1",
        cxx="g++",
        cxxflags="-std=gnu++17 -O2 -g",
        ldflags="",
    ),
    "relna": dict(
        cc="gcc",
        cflags="-W -Wall -Os -fPIC -DBR_SLOW_MUL15=1 -DBR_LE_UNALIGNED=0 -DBR_BE_UNALIGNED=0",
        cxx="g++",
        cxxflags="-std=gnu++17 -O2 -g",
        ldflags="",
    ),
    "ctO0": dict(cc="gcc", cflags="-O0 -g -DBR_SLOW_MUL15=1", cxx="g++", cxxflags="-std=gnu++17 -O0 -g", ldflags=""),
    "ctOs": dict(cc="gcc", cflags="-Os -g -DBR_SLOW_MUL15=1", cxx="g++", cxxflags="-std=gnu++17 -O1 -g", ldflags=""),
    "ctO2": dict(cc="gcc", cflags="-O2 -g -DBR_SLOW_MUL15=1", cxx="g++", cxxflags="-std=gnu++17 -O1 -g", ldflags=""),
}

NOSEED_DEFS = "-DBR_RDRAND=0 -DBR_USE_GETENTROPY=0 -DBR_USE_URANDOM=0 -DBR_USE_WIN32_RAND=0"
# the /dev/urandom seeder alone, with its file operations routed to the harness (fault injection on the entropy source)
URANDOM_DEFS = "-DBR_RDRAND=0 -DBR_USE_GETENTROPY=0 -DBR_USE_URANDOM=1 -DBR_USE_WIN32_RAND=0 -Dopen=vf_open -Dread=vf_read -Dclose=vf_close"
# the getentropy() back end alone (no RDRAND, no /dev/urandom fallback), getentropy routed to the harness
GETENTROPY_DEFS = "-DBR_RDRAND=0 -DBR_USE_GETENTROPY=1 -DBR_USE_URANDOM=0 -DBR_USE_WIN32_RAND=0 -Dgetentropy=vf_getentropy"


def log(msg):
    sys.stderr.write("[build] %s\n" % msg)
    sys.stderr.flush()


def _files(root, exts):
    out = []
    for d, _, fs in os.walk(root):
        for f in fs:
            if f.endswith(exts):
                out.append(os.path.join(d, f))
    out.sort()
    return out


def repo_sources():
    return _files(os.path.join(REPO, "src"), (".c",))


def _digest(paths, extra=""):
    h = hashlib.sha256()
    h.update(extra.encode())
    for p in paths:
        h.update(os.path.relpath(p, "/").encode())
        with open(p, "rb") as f:
            h.update(hashlib.sha256(f.read()).digest())
    return h.hexdigest()[:16]


def repo_digest():
    paths = _files(os.path.join(REPO, "src"), (".c", ".h")) + _files(os.path.join(REPO, "inc"), (".h",))
    return _digest(paths)


def repo_header_digest():
    paths = _files(os.path.join(REPO, "inc"), (".h",)) + [
        os.path.join(REPO, "src", "inner.h"), os.path.join(REPO, "src", "config.h")]
    return _digest(paths)


class Lock:
    def __init__(self, path):
        self.path = path

    def __enter__(self):
        os.makedirs(os.path.dirname(self.path), exist_ok=True)
        self.f = open(self.path, "w")
        fcntl.flock(self.f, fcntl.LOCK_EX)
        return self

    def __exit__(self, *a):
        fcntl.flock(self.f, fcntl.LOCK_UN)
        self.f.close()


def _run(cmd, **kw):
    r = subprocess.run(cmd, shell=True, stdout=subprocess.PIPE, stderr=subprocess.STDOUT, text=True, **kw)
    if r.returncode != 0:
        raise RuntimeError("command failed: %s\n%s" % (cmd, r.stdout[-4000:]))
    return r.stdout


def _gc(parent, keep):
    """keep only the `keep` most recently used entries of a cache directory"""
    try:
        ents = [os.path.join(parent, e) for e in os.listdir(parent)]
    except FileNotFoundError:
        return
    ents = [e for e in ents if os.path.isdir(e)]
    ents.sort(key=lambda e: os.path.getmtime(e), reverse=True)
    for e in ents[keep:]:
        shutil.rmtree(e, ignore_errors=True)


def build_lib(flavour):
    """returns directory containing libbearssl.a (+ sysrng_noseed.o)"""
    fl = FLAVOURS[flavour]
    dig = _digest([], extra=repo_digest() + fl["cc"] + fl["cflags"] + URANDOM_DEFS + GETENTROPY_DEFS)
    parent = os.path.join(BUILD, "lib", flavour)
    out = os.path.join(parent, dig)
    done = os.path.join(out, ".done")
    if os.path.exists(done):
        os.utime(out, None)
        return out
    with Lock(os.path.join(BUILD, "lock", "lib-%s" % flavour)):
        if os.path.exists(done):
            return out
        t0 = time.time()
        shutil.rmtree(out, ignore_errors=True)
        objdir = os.path.join(out, "obj")
        os.makedirs(objdir)
        srcs = repo_sources()
        inc = "-I%s/src -I%s/inc" % (REPO, REPO)
        base = "%s %s -D%s %s -c" % (fl["cc"], fl["cflags"], GUARD, inc)

        def comp(src):
            o = os.path.join(objdir, os.path.relpath(src, os.path.join(REPO, "src")).replace("/", "_")[:-2] + ".o")
            _run("%s -o %s %s" % (base, o, src))
            return o

        with ThreadPoolExecutor(NJOBS) as ex:
            objs = list(ex.map(comp, srcs))
        lib = os.path.join(out, "libbearssl.a")
        # ar with many files: use response via xargs
        lst = os.path.join(out, "objs.txt")
        with open(lst, "w") as f:
            f.write("\n".join(objs))
        _run("xargs ar -rcs %s < %s" % (lib, lst))
        _run("%s %s -o %s %s" % (base, NOSEED_DEFS, os.path.join(out, "sysrng_noseed.o"),
                                 os.path.join(REPO, "src", "rand", "sysrng.c")))
        _run("%s %s -o %s %s" % (base, URANDOM_DEFS, os.path.join(out, "sysrng_urandom.o"),
                                 os.path.join(REPO, "src", "rand", "sysrng.c")))
        _run("%s %s -o %s %s" % (base, GETENTROPY_DEFS, os.path.join(out, "sysrng_getentropy.o"),
                                 os.path.join(REPO, "src", "rand", "sysrng.c")))
        shutil.rmtree(objdir, ignore_errors=True)
        open(done, "w").close()
        log("library flavour %s built in %.1fs (%s)" % (flavour, time.time() - t0, dig))
        _gc(parent, 4)
    return out


def _common_objs(flavour):
    """compile harness/common/*.cpp once per flavour (+repo header digest)"""
    fl = FLAVOURS[flavour]
    srcs = [os.path.join(HARNESS, "common", f) for f in ("core.cpp", "main.cpp", "rc_driver.cpp", "fuzz_main.cpp")]
    hdrs = _files(os.path.join(HARNESS, "common"), (".hpp", ".h"))
    dig = _digest(srcs + hdrs, extra=fl["cxx"] + fl["cxxflags"])
    parent = os.path.join(BUILD, "common", flavour)
    out = os.path.join(parent, dig)
    done = os.path.join(out, ".done")
    if os.path.exists(done):
        os.utime(out, None)
        return out
    with Lock(os.path.join(BUILD, "lock", "common-%s" % flavour)):
        if os.path.exists(done):
            return out
        shutil.rmtree(out, ignore_errors=True)
        os.makedirs(out)
        t0 = time.time()

        def comp(src):
            o = os.path.join(out, os.path.basename(src)[:-4] + ".o")
            _run("%s %s -I%s -c -o %s %s" % (fl["cxx"], fl["cxxflags"], HARNESS, o, src))

        with ThreadPoolExecutor(4) as ex:
            list(ex.map(comp, srcs))
        open(done, "w").close()
        log("common objects (%s) built in %.1fs" % (flavour, time.time() - t0))
        _gc(parent, 4)
    return out


def build_target(tgt):
    """tgt: dict(name, src, flavour, libs=[...], fuzz=bool, noseed=bool, extra_src=[...])
    returns path of the binary (and of the fuzz binary when tgt['fuzz'])"""
    flavour = tgt.get("flavour", "san")
    fl = FLAVOURS[flavour]
    libdir = build_lib(flavour)
    common = _common_objs(flavour)
    src = os.path.join(HARNESS, tgt["src"])
    deps = [src] + _files(os.path.join(HARNESS, "common"), (".hpp", ".h")) + \
        [os.path.join(HARNESS, e) for e in tgt.get("extra_src", []) + tgt.get("c_src", [])]
    objdig = _digest(deps, extra=repo_header_digest() + fl["cxx"] + fl["cxxflags"] + tgt.get("cxxflags", ""))
    objparent = os.path.join(BUILD, "obj", tgt["name"] + "-" + flavour)
    objdir = os.path.join(objparent, objdig)
    obj = os.path.join(objdir, "target.o")
    inc = "-I%s -I%s/src -I%s/inc" % (HARNESS, REPO, REPO)
    with Lock(os.path.join(BUILD, "lock", "tgt-%s-%s" % (tgt["name"], flavour))):
        if not os.path.exists(obj):
            shutil.rmtree(objdir, ignore_errors=True)
            os.makedirs(objdir)
            t0 = time.time()
            extra = " -fsanitize=fuzzer-no-link" if (flavour == "san" and tgt.get("fuzz")) else ""
            _run("%s %s%s %s -D%s %s -c -o %s.tmp %s" % (
                fl["cxx"], fl["cxxflags"], extra, tgt.get("cxxflags", ""), GUARD, inc, obj, src))
            os.rename(obj + ".tmp", obj)
            for cs in tgt.get("c_src", []):
                # plain C helpers (they may include src/inner.h, which is not valid C++)
                _run("%s %s -D%s %s -c -o %s %s" % (fl["cc"], fl["cflags"], GUARD, inc,
                                                    os.path.join(objdir, os.path.basename(cs)[:-2] + ".o"), os.path.join(HARNESS, cs)))
            log("compiled %s (%s) in %.1fs" % (tgt["name"], flavour, time.time() - t0))
            _gc(objparent, 2)
        else:
            os.utime(objdir, None)
        bindig = _digest([], extra=objdig + os.path.basename(libdir) + os.path.basename(common) + str(tgt.get("noseed")) + str(tgt.get("urandom_seeder")) + str(tgt.get("getentropy_seeder")))
        binparent = os.path.join(BUILD, "bin", tgt["name"] + "-" + flavour)
        bindir = os.path.join(binparent, bindig)
        exe = os.path.join(bindir, tgt["name"])
        fexe = exe + "-fuzz"
        libs = " ".join(tgt.get("libs", []))
        cobjs = " ".join(os.path.join(objdir, os.path.basename(cs)[:-2] + ".o") for cs in tgt.get("c_src", []))
        noseed = os.path.join(libdir, "sysrng_noseed.o") if tgt.get("noseed") else ""
        if tgt.get("urandom_seeder"):
            noseed = os.path.join(libdir, "sysrng_urandom.o")
        if tgt.get("getentropy_seeder"):
            noseed = os.path.join(libdir, "sysrng_getentropy.o")
        if not os.path.exists(os.path.join(bindir, ".done")):
            shutil.rmtree(bindir, ignore_errors=True)
            os.makedirs(bindir)
            cov = " -fsanitize=fuzzer-no-link" if flavour == "san" else ""
            _run("%s %s%s -o %s %s %s/core.o %s/main.o %s/rc_driver.o %s %s/libbearssl.a %s -lrapidcheck -lpthread" % (
                fl["cxx"], fl["ldflags"], cov, exe, obj + " " + cobjs, common, common, common, noseed, libdir, libs))
            if tgt.get("fuzz"):
                _run("%s %s -fsanitize=fuzzer -o %s %s %s/core.o %s/fuzz_main.o %s %s/libbearssl.a %s -lpthread" % (
                    fl["cxx"], fl["ldflags"], fexe, obj + " " + cobjs, common, common, noseed, libdir, libs))
            open(os.path.join(bindir, ".done"), "w").close()
            _gc(binparent, 2)
        else:
            os.utime(bindir, None)
    return exe, (fexe if tgt.get("fuzz") else None)
