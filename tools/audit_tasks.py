#!/usr/bin/env python3
"""usage: tools/audit_tasks.py <root> <ID>...  - scratch worktrees of /repo HEAD under <root>/<ID> with a TASK.md asking an
independent sub-agent to look for defects ALREADY PRESENT that violate the property (nothing of /verif is shown to it)."""
import json, os, subprocess, sys
root, ids = sys.argv[1], sys.argv[2:]
here = os.path.dirname(os.path.abspath(__file__))
props = {json.loads(l)['id']: json.loads(l) for l in open(os.path.join(here, '..', 'properties.jsonl'))}
os.makedirs(root, exist_ok=True)
TXT = '''# Task: look for a defect ALREADY PRESENT in this library that violates one semantic property

You are working in a scratch git worktree of the **bearssl-esp8266** C library at `%(wt)s`
(ESP8266 port of BearSSL: TLS 1.0-1.2 engine, X.509, RSA/EC, AES/ChaCha, big integers).
Work ONLY inside `%(wt)s`. Never touch `/repo`, never read or touch `/verif`. There is no network.
Do NOT change anything under `src/` or `inc/`: the question is about the code as it is.

Build: `make -j8` in the worktree root (output in `build/`: `libbearssl.a`, `testx509`, `testcrypto`, `brssl`).
Several of the protocol state machines are written in a Forth-like language (`*.t0`) compiled to bytecode in the matching `.c`;
read the `.t0` files, they are the readable source. API usage samples: `samples/*.c`, `tools/*.c`, `test/*.c`; test keys and
certificates: `samples/*.h`, `samples/*.pem`, `test/x509/`. OpenSSL 3 (libssl/libcrypto with headers), GMP and valgrind are installed.

## The property

**%(id)s - %(title)s**

%(stmt)s

Quantified over: %(q)s

Code it is anchored in: %(files)s

## What to do

Read the code this property is anchored in with an adversarial eye and look for inputs, configurations, API call
histories, orders of events or peer behaviours for which the UNCHANGED library violates the property: corner cases of state
handling (reset / reuse of contexts, aborted operations, things stored before they are verified, flags not cleared),
boundary values (lengths 0 and 1, exact multiples of a block or word size, largest admissible sizes, carries out of the top
word), rarely taken branches, differences between sibling implementations of the same function, unusual but legal peer
behaviour, unusual but documented API usage. Think about what an application following the documentation could do, and what a
hostile peer could send.

For each candidate you believe in, write a small reproducer (C program against `build/libbearssl.a`, headers in `inc/`,
`src/inner.h` if needed) under `%(wt)s/finding/<n>/` with a `run.sh` that builds and runs it and prints `FAIL: <what>` when
the violation shows (on the unchanged tree) and a `README.md` explaining the defect, why it violates the property (quote the
documentation or the property), how it is triggered, and how severe it is. Only report what you have actually reproduced;
a false alarm (behaviour that is documented, or a precondition every caller must respect) is worse than no finding - check the
header documentation (`inc/*.h`) before claiming a violation. Up to three findings; stop after about 40 minutes of work even
if you have none, and say so.

%(extra)s
In your final answer give, for each finding: one paragraph (what, where, trigger, consequence) and the path of its reproducer;
or state plainly that you found nothing.
'''
for i in ids:
    wt = os.path.join(root, i)
    if not os.path.exists(wt):
        subprocess.run(['git', '-C', '/repo', 'worktree', 'add', '--detach', wt, 'HEAD'], stdout=subprocess.DEVNULL, stderr=subprocess.DEVNULL)
    d = props[i]
    extra = ''
    kf = os.path.join(here, '..', 'known_findings.txt')
    lines = [l.split(' ', 3)[3].strip() for l in open(kf) if (l.startswith('fixed:') or l.startswith('finding:')) and ('property=%s ' % i) in l]
    if lines:
        extra = 'Already known for this property (repaired in this tree or on record) - look for OTHER things:\n' + ''.join('- %s\n' % x[:300] for x in lines) + '\n'
    open(os.path.join(wt, 'TASK.md'), 'w').write(TXT % dict(wt=wt, id=i, title=d['title'], stmt=d['statement'], q=d['quantifier']['text'], files=', '.join(d['anchors']['files'][:20]), extra=extra))
    print(i, wt)
