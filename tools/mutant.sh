#!/bin/bash
# usage: tools/mutant.sh <patch.diff> <ID> [<ID>...]   (env TIER=quick|thorough)
# Applies the patch to a scratch worktree of /repo (never to /repo itself),
# confirms it builds and passes the pinned suite, runs the given checks
# against it (VERIF_REPO), prints their verdicts and removes the worktree.
set -u
patch=$(readlink -f "$1"); shift
wt=$(mktemp -d /tmp/mutant.XXXXXX)
rmdir "$wt"
git -C /repo worktree add --detach "$wt" HEAD >/dev/null 2>&1 || { echo "worktree failed"; exit 2; }
cleanup() { git -C /repo worktree remove --force "$wt" >/dev/null 2>&1; rm -rf "$wt" /tmp/mutant-ev.$$ /tmp/mutant-rp.$$; }
trap cleanup EXIT
if ! git -C "$wt" apply "$patch" 2>/dev/null; then
  # the tree has moved on since the patch was written (fix commits): retry with fuzz
  ( cd "$wt" && patch -p1 -F3 -s --no-backup-if-mismatch < "$patch" >/dev/null 2>&1 ) || { echo "MUTANT patch does not apply"; exit 2; }
fi
if [ "${SKIP_SUITE:-0}" != 1 ]; then
  ( cd "$wt" && make -j16 >/dev/null 2>&1 ) || { echo "MUTANT does not build"; exit 2; }
  ( cd "$wt" && ./build/testx509 2>&1 | tail -3 ) > /tmp/mutant-suite.$$ 2>&1
  if ! grep -q "" /tmp/mutant-suite.$$; then echo "MUTANT suite produced no output"; fi
  ( cd "$wt" && ./build/testx509 >/dev/null 2>&1 ) && echo "MUTANT builds, pinned suite passes" || { echo "MUTANT fails pinned suite"; rm -f /tmp/mutant-suite.$$; exit 2; }
  rm -f /tmp/mutant-suite.$$
fi
rc=0
for id in "$@"; do
  out=$(VERIF_REPO="$wt" VERIF_EVIDENCE_DIR=/tmp/mutant-ev.$$ VERIF_REPLAY_DIR=/tmp/mutant-rp.$$ /verif/check "$id" --tier "${TIER:-quick}" 2>/dev/null)
  st=$?
  echo "== $id exit=$st"
  echo "$out" | grep -E "^(VIOLATION|OK|CHECK-BROKEN|KNOWN-FINDING|---)" | cut -c1-400 | head -8
  [ $st -eq 1 ] || rc=1
done
exit $rc
