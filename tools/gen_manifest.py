#!/usr/bin/env python3
"""Regenerates MANIFEST.json from lib/props.py (single source of truth)."""
import json, os, sys, subprocess
sys.path.insert(0, os.path.dirname(os.path.dirname(os.path.abspath(__file__))))
from lib.props import PROPS, MANIFEST_TEXT, NOT_APPLICABLE, HOOK_COMMITS

ids = [json.loads(l)["id"] for l in open(os.path.join(os.path.dirname(__file__), "..", "properties.jsonl"))]
checks = []
for pid in ids:
    if pid not in PROPS:
        continue
    c = PROPS[pid]
    mt = MANIFEST_TEXT[pid]
    checks.append(dict(
        property_id=pid,
        quick_cmd="./check %s --tier quick" % pid,
        thorough_cmd="./check %s --tier thorough" % pid,
        evidence_file="/verif/evidence/%s.json" % pid,
        replay_cmd_template="./check %s --replay {path}" % pid,
        engine="vf",
        level_claimed=dict(category=c["level"], text=mt["text"], design_ref=mt["design_ref"]),
        level_note=mt["note"],
        technique=c["technique"],
    ))
na = [dict(property_id=p, reason=NOT_APPLICABLE.get(p, "check not built yet in this session (work in progress; see DESIGN.md section 8)"))
      for p in ids if p not in PROPS]
m = dict(
    version=1,
    setup_cmd="./check --build-all",
    hooks=dict(
        guard="BEARSSL_ESP8266_VERIF",
        enable="checks compile every file of /repo/src themselves with -DBEARSSL_ESP8266_VERIF (lib/vbuild.py); nothing is taken from /repo/build",
        baseline_off_cmd="cd /repo && make -j16 >/dev/null && ./build/testx509",
        source_commits=HOOK_COMMITS,
        add_only=True,
    ),
    engines=[dict(name="vf", path="/verif/check",
                  serves_properties=[c["property_id"] for c in checks],
                  kind_free_text="tape-decoding harnesses (harness/*.cpp) driven by rapidcheck (generation + shrinking), libFuzzer "
                                 "(coverage-guided, oracle inside the target) and deterministic enumerators; python driver builds "
                                 "library flavours from /repo's working tree, runs replay tier + search, confirms failures 3x, writes evidence")],
    checks=checks,
    not_applicable=na,
    notes="See DESIGN.md. Known findings: known_findings.txt. Seeded changes used to test sensitivity: seeded/.",
)
json.dump(m, open(os.path.join(os.path.dirname(__file__), "..", "MANIFEST.json"), "w"), indent=1)
print("MANIFEST.json: %d checks, %d not_applicable" % (len(checks), len(na)))
