#!/bin/bash
# usage: tools/keep_seed.sh <ID> <X> "<what it needs to manifest>" [check ids to run, default <ID>]
# Confirms an independently written seeded change (from /tmp/seed/<ID>/seed/<X>) in a fresh
# scratch worktree: demo passes on the clean tree, fails with the change, the change builds and
# passes the pinned suite; then runs our checks against it and files everything under
# /verif/seeded/<ID>-<X>/ (patch.diff, demonstration, README.md, meta.json).
set -u
ID=$1; X=$2; NEEDS=$3; shift 3
CHECKS=${*:-$ID}
src=${SEEDROOT:-/tmp/seed}/$ID/seed/$X
[ -f "$src/patch.diff" ] || { echo "no $src/patch.diff"; exit 2; }
W=$(mktemp -d /tmp/keep.XXXXXX); rmdir "$W"
git -C /repo worktree add --detach "$W" HEAD >/dev/null 2>&1 || exit 2
cleanup() { git -C /repo worktree remove --force "$W" >/dev/null 2>&1; rm -rf "$W" /tmp/keep-ev.$$ /tmp/keep-rp.$$; }
trap cleanup EXIT
mkdir -p "$W/seed/$X"; cp -r "$src"/. "$W/seed/$X/"
find "$W/seed/$X" -type f -perm -u+x ! -name '*.sh' -size +20k -delete 2>/dev/null
run_demo() { ( cd "$W/seed/$X" && timeout 1200 sh ./run_demo.sh ) > "$W/demo.out" 2>&1; echo $?; }
( cd "$W" && make -j16 >/dev/null 2>&1 )
clean_rc=$(run_demo); clean_tail=$(tail -2 "$W/demo.out" | tr '\n' ' ' | cut -c1-200)
git -C "$W" apply "$W/seed/$X/patch.diff" || { echo "patch does not apply"; exit 2; }
( cd "$W" && make -j16 >/dev/null 2>&1 ) || { echo "changed tree does not build"; exit 2; }
( cd "$W" && ./build/testx509 >/dev/null 2>&1 ); suite_rc=$?
mut_rc=$(run_demo); mut_tail=$(tail -2 "$W/demo.out" | tr '\n' ' ' | cut -c1-200)
echo "demo clean rc=$clean_rc [$clean_tail]"
echo "demo changed rc=$mut_rc [$mut_tail]  suite rc=$suite_rc"
if [ "$clean_rc" != 0 ] || [ "$mut_rc" = 0 ] || [ "$suite_rc" != 0 ]; then echo "NOT CONFIRMED"; exit 3; fi
det=""; res=""
for c in $CHECKS; do
  out=$(VERIF_REPO="$W" VERIF_EVIDENCE_DIR=/tmp/keep-ev.$$ VERIF_REPLAY_DIR=/tmp/keep-rp.$$ /verif/check "$c" --tier "${TIER:-quick}" 2>/dev/null); st=$?
  line=$(echo "$out" | grep -E "^---" | head -1 | cut -c1-300)
  echo "check $c exit=$st $line"
  res="$res{\"check\":\"$c\",\"tier\":\"${TIER:-quick}\",\"exit\":$st,\"first_message\":$(python3 -c 'import json,sys; print(json.dumps(sys.argv[1]))' "$line")},"
  [ $st -eq 1 ] && det="$det\"$c\","
done
dst=/verif/seeded/$ID-$X
rm -rf "$dst"; mkdir -p "$dst"
cp "$src/patch.diff" "$dst/"; [ -f "$src/README.md" ] && cp "$src/README.md" "$dst/"
for f in "$src"/*; do b=$(basename "$f"); case "$b" in patch.diff|README.md) ;; *) if [ -f "$f" ] && [ $(stat -c %s "$f") -lt 200000 ] && ! file "$f" | grep -q ELF; then cp "$f" "$dst/"; fi;; esac; done
cat > "$dst/meta.json" <<EOF
{
 "property": "$ID",
 "variant": "$X",
 "origin": "written by an independent sub-agent that saw only the property text and a scratch worktree",
 "needs_to_manifest": $(python3 -c 'import json,sys; print(json.dumps(sys.argv[1]))' "$NEEDS"),
 "confirmed": {
  "demo_on_clean_tree": "run_demo.sh exit $clean_rc",
  "demo_with_change": "run_demo.sh exit $mut_rc",
  "pinned_suite_with_change": "build/testx509 exit $suite_rc (all 53 OK)",
  "how": "tools/keep_seed.sh: fresh scratch worktree of /repo HEAD, make -j16, run_demo.sh, git apply patch.diff, make, build/testx509, run_demo.sh"
 },
 "our_checks": [${res%,}],
 "detected_by": [${det%,}]
}
EOF
echo "kept $dst detected_by=[${det%,}]"
