#!/usr/bin/env python3
"""usage: tools/seed_tasks.py <root> <X1> <X2> <ID>...   - creates scratch worktrees of /repo HEAD under <root>/<ID>
with a TASK.md for an independent sub-agent (property text only; earlier seeds are named so that it goes elsewhere)."""
import json, os, subprocess, sys
root, x1, x2, ids = sys.argv[1], sys.argv[2], sys.argv[3], sys.argv[4:]
here = os.path.dirname(os.path.abspath(__file__))
props = {json.loads(l)['id']: json.loads(l) for l in open(os.path.join(here, '..', 'properties.jsonl'))}
tmpl = open(os.path.join(here, 'seed_task_template.md')).read()
os.makedirs(root, exist_ok=True)
for i in ids:
    wt = os.path.join(root, i)
    if not os.path.exists(wt):
        subprocess.run(['git', '-C', '/repo', 'worktree', 'add', '--detach', wt, 'HEAD'], stdout=subprocess.DEVNULL, stderr=subprocess.DEVNULL)
    d = props[i]
    body = '**%s - %s**\n\n%s\n\nQuantified over: %s\n\nCode it is anchored in: %s\n' % (i, d['title'], d['statement'], d['quantifier']['text'], ', '.join(d['anchors']['files'][:16]))
    prev = []
    sd = os.path.join(here, '..', 'seeded')
    for x in sorted(os.listdir(sd)):
        if x.startswith(i + '-') and os.path.exists(os.path.join(sd, x, 'README.md')):
            prev.append(open(os.path.join(sd, x, 'README.md')).read().strip().splitlines()[0].lstrip('# ').strip())
    if prev:
        body += '\nChanges for this property already exist from earlier rounds; do something in a DIFFERENT place / mechanism than these:\n' + ''.join('- %s\n' % p for p in prev)
    open(os.path.join(wt, 'TASK.md'), 'w').write(tmpl.replace('@WT@', wt).replace('@PROPERTY@', body).replace('@X1@', x1).replace('@X2@', x2))
    print(i, wt, len(prev))
