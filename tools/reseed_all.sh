#!/bin/bash
# usage: tools/reseed_all.sh [JOBS] [<seed-dir-name>...]
# Re-applies every kept seeded change (seeded/<ID>-<X>/patch.diff) to a scratch
# worktree of the CURRENT /repo HEAD and runs the checks recorded as detecting it
# (meta.json "detected_by"); writes seeded/REGRESSION.txt.  A seed whose patch no
# longer applies (the code it touched was since repaired) is reported as such.
cd "$(dirname "$0")/.."
jobs=${1:-2}; shift
names=("$@"); [ ${#names[@]} -eq 0 ] && names=($(ls seeded | grep -E '^C[0-9]+-'))
out=$(mktemp -d /tmp/reseed.XXXXXX)
run_one() {
  n=$1; out=$2
  ids=$(python3 -c "import json,sys; m=json.load(open('seeded/$n/meta.json')); print(' '.join(m.get('detected_by') or [m['property']]))")
  first=$(echo $ids | cut -d' ' -f1)
  r=$(SKIP_SUITE=${SKIP_SUITE:-0} tools/mutant.sh seeded/$n/patch.diff $first 2>&1)
  if echo "$r" | grep -q "does not apply"; then v="PATCH-NO-LONGER-APPLIES"
  elif echo "$r" | grep -q "== $first exit=1"; then v="DETECTED by $first"
  elif echo "$r" | grep -q "does not build\|fails pinned"; then v="NOT-A-VALID-SEED-ANY-MORE ($(echo "$r" | grep MUTANT | head -1))"
  else v="MISSED by $first"; fi
  echo "$n $v" > $out/$n.txt
  echo "$n $v"
}
export -f run_one
printf '%s\n' "${names[@]}" | xargs -P "$jobs" -I{} bash -c "run_one {} $out"
{ echo "# seeds re-run against /repo $(git -C /repo log --format=%h -1) on $(date -u +%F)"; cat $out/*.txt | sort; } > seeded/REGRESSION.txt
rm -rf "$out"
grep -c DETECTED seeded/REGRESSION.txt
